/-
C02, joint model: invariants of `Uniflow.Flow` (nodes + links + sinks in one process).

Part 1: every node inside any reachable Flow state is the result of running the node model on a
schedule with fresh packet ids (the ids come from the counter `G.next`), so all node-level
theorems (`C02.node_contract`, …) hold for every node of the joint model.
-/
import Uniflow.Model.Flow
import Uniflow.Proofs.NodeProtocol

namespace Uniflow.Flow
open Uniflow.Tracer Uniflow.Node Uniflow.ATracer

/-! ### generic plumbing -/

theorem findSome_some {α β : Type} (f : α → Option β) (l : List α) (b : β) (h : l.findSome? f = some b) :
    ∃ x ∈ l, f x = some b := by
  induction l with
  | nil => simp at h
  | cons x xs ih =>
    simp only [List.findSome?_cons] at h
    cases hx : f x with
    | some y => rw [hx] at h; simp only [Option.some.injEq] at h; subst h; exact ⟨x, by simp, hx⟩
    | none => rw [hx] at h; obtain ⟨y, hy, hfy⟩ := ih h; exact ⟨y, by simp [hy], hfy⟩

theorem getNode_setNode (ns : List Node) (i j : Nat) (nd : Node) (hi : (getNode ns i).isSome = true) :
    getNode (setNode ns i nd) j = if j = i then some nd else getNode ns j := by
  induction ns generalizing i j with
  | nil => simp [getNode] at hi
  | cons t ts ih =>
    cases i with
    | zero => cases j <;> simp [setNode, getNode]
    | succ i =>
      cases j with
      | zero => simp [setNode, getNode]
      | succ j => simp only [setNode, getNode] at hi ⊢; rw [ih i j hi]; simp

theorem getNode_setNode_none (ns : List Node) (i j : Nat) (nd : Node) (hi : getNode ns i = none) :
    getNode (setNode ns i nd) j = getNode ns j := by
  induction ns generalizing i j with
  | nil => simp [setNode]
  | cons t ts ih =>
    cases i with
    | zero => simp [getNode] at hi
    | succ i =>
      cases j with
      | zero => simp [setNode, getNode]
      | succ j => simp only [setNode, getNode] at hi ⊢; exact ih i j hi

/-- an invariant of the internal steps is an invariant of `settle` -/
theorem settle_inv (I : G → Prop) (hstep : ∀ g g', I g → settleStep g = some g' → I g')
    (hbad : ∀ g, I g → I { g with bad := true }) : ∀ fuel g, I g → I (settle fuel g) := by
  intro fuel
  induction fuel with
  | zero => intro g h; exact hbad g h
  | succ f ih =>
    intro g h
    simp only [settle]
    cases hs : settleStep g with
    | none => exact h
    | some g' => exact ih g' (hstep g g' h hs)

theorem settleStep_cases (g g' : G) (h : settleStep g = some g') :
    ∃ n nd, getNode g.nodes n = some nd ∧
      ((∃ i, threadStep g n nd i = some g') ∨ (∃ w, backStep g n nd w = some g')) := by
  obtain ⟨n, _, hn⟩ := findSome_some _ _ _ h
  simp only [nodeStep] at hn
  cases hg : getNode g.nodes n with
  | none => simp [hg] at hn
  | some nd =>
    simp only [hg] at hn
    cases ht : (List.range nd.threads.length).findSome? (threadStep g n nd) with
    | some g1 =>
      simp only [ht, Option.some.injEq] at hn; subst hn
      obtain ⟨i, _, hi⟩ := findSome_some _ _ _ ht
      exact ⟨n, nd, hg, Or.inl ⟨i, hi⟩⟩
    | none =>
      simp only [ht] at hn
      obtain ⟨w, _, hw⟩ := findSome_some _ _ _ hn
      exact ⟨n, nd, hg, Or.inr ⟨w, hw⟩⟩

/-! ### part 1: every node of the joint model is a run of the node model on a fresh-id schedule -/

theorem run_append_fst (n : Node) (s1 s2 : List Step) :
    (Node.run n (s1 ++ s2)).1 = (Node.run (Node.run n s1).1 s2).1 := by
  induction s1 generalizing n with
  | nil => rfl
  | cons st sts ih =>
    simp only [List.cons_append, Node.run]
    cases h : Node.step n st with
    | none => exact ih n
    | some x => obtain ⟨n', ev⟩ := x; simp only; exact ih n'

theorem step_kind (nd nd' : Node) (st : Step) (ev : List Ev) (h : Node.step nd st = some (nd', ev)) :
    nd'.kind = nd.kind := by
  cases st with
  | deliver i p => simp only [Node.step] at h; split at h <;> simp at h; obtain ⟨rfl, _⟩ := h; rfl
  | read i =>
    simp only [Node.step] at h
    split at h
    · cases hk : nd.kind <;> simp [hk] at h <;> (obtain ⟨rfl, _⟩ := h; simp [hk])
    · simp at h
  | finish i o =>
    simp only [Node.step] at h
    split at h
    · split at h <;> (simp at h; obtain ⟨rfl, _⟩ := h; rfl)
    · simp at h
  | op i acc =>
    simp only [Node.step] at h
    split at h
    · rename_i inbox o ops heq
      cases o <;> (simp at h; obtain ⟨rfl, _⟩ := h; rfl)
    · simp at h
  | answer w a =>
    simp only [Node.step] at h
    split at h
    · simp at h
    · simp at h; obtain ⟨rfl, _⟩ := h; rfl

/-- `nd` is what the node model reaches from its initial state on some schedule whose packet ids are
pairwise distinct and below `nx` -/
def HistOK (nx : Nat) (nd : Node) : Prop :=
  ∃ sched, nd = (Node.run (Node.mk nd.kind) sched).1 ∧ (sched.flatMap introS).Nodup ∧
    ∀ id ∈ sched.flatMap introS, id < nx

theorem histOK_mono (nx nx' : Nat) (nd : Node) (h : HistOK nx nd) (hle : nx ≤ nx') : HistOK nx' nd := by
  obtain ⟨s, h1, h2, h3⟩ := h
  exact ⟨s, h1, h2, fun id hid => Nat.lt_of_lt_of_le (h3 id hid) hle⟩

theorem histOK_step (nx nx' : Nat) (nd nd' : Node) (st : Step) (ev : List Ev) (h : HistOK nx nd)
    (hs : Node.step nd st = some (nd', ev)) (hnd : (introS st).Nodup)
    (hfresh : ∀ id ∈ introS st, nx ≤ id ∧ id < nx') (hle : nx ≤ nx') : HistOK nx' nd' := by
  obtain ⟨s, h1, h2, h3⟩ := h
  have hk := step_kind nd nd' st ev hs
  refine ⟨s ++ [st], ?_, ?_, ?_⟩
  · rw [hk, run_append_fst, ← h1]
    simp [Node.run, hs]
  · simp only [List.flatMap_append, List.flatMap_cons, List.flatMap_nil, List.append_nil]
    rw [List.nodup_append]
    refine ⟨h2, hnd, ?_⟩
    intro a ha b hb e; subst e
    exact absurd (Nat.lt_of_lt_of_le (h3 a ha) (hfresh a hb).1) (Nat.lt_irrefl _)
  · intro id hid
    simp only [List.flatMap_append, List.flatMap_cons, List.flatMap_nil, List.append_nil, List.mem_append] at hid
    rcases hid with h | h
    · exact Nat.lt_of_lt_of_le (h3 id h) hle
    · exact (hfresh id h).2

def NodesOK (g : G) : Prop := ∀ n nd, getNode g.nodes n = some nd → HistOK g.next nd

theorem histOK_init (k : Kind) (nx : Nat) : HistOK nx (Node.mk k) :=
  ⟨[], rfl, by simp, by simp⟩

theorem gReply_frame (g : G) (rk : Nat) (a : Ans) : (gReply g rk a).nodes = g.nodes ∧ (gReply g rk a).next = g.next := by
  simp only [gReply]
  repeat' split
  all_goals exact ⟨rfl, rfl⟩

theorem route_frame (g : G) (n : Nat) (evs : List Ev) : (route g n evs).nodes = g.nodes ∧ (route g n evs).next = g.next := by
  induction evs generalizing g with
  | nil => exact ⟨rfl, rfl⟩
  | cons e evs ih =>
    cases e with
    | reply r a =>
      simp only [route]
      have h1 := ih (gReply g (rkeyOf (.node n r)) a)
      have h2 := gReply_frame g (rkeyOf (.node n r)) a
      exact ⟨h1.1.trans h2.1, h1.2.trans h2.2⟩
    | hook p a => simp only [route]; exact ih g

theorem nodesOK_mono (g g' : G) (h : NodesOK g) (hn : g'.nodes = g.nodes) (hle : g.next ≤ g'.next) : NodesOK g' := by
  intro n nd hg; rw [hn] at hg; exact histOK_mono _ _ _ (h n nd hg) hle

theorem deliver_ok (g : G) (key : Nat) (v : Val) (t : Tgt) (h : NodesOK g) :
    NodesOK (deliver g key v t) ∧ g.next ≤ (deliver g key v t).next := by
  cases t with
  | sink k => exact ⟨nodesOK_mono g _ h rfl (Nat.le_succ _), Nat.le_succ _⟩
  | node m port =>
    simp only [deliver]
    cases hg : getNode g.nodes m with
    | none => exact ⟨nodesOK_mono g _ h rfl (Nat.le_refl _), Nat.le_refl _⟩
    | some nd =>
      simp only
      cases hs : Node.step nd (.deliver port { id := g.next, pay := v }) with
      | none => exact ⟨nodesOK_mono g _ h rfl (Nat.le_refl _), Nat.le_refl _⟩
      | some x =>
        obtain ⟨nd', ev⟩ := x
        refine ⟨?_, Nat.le_succ _⟩
        intro j ndj hj
        simp only [getNode_setNode g.nodes m j nd' (by rw [hg]; rfl)] at hj
        by_cases e : j = m
        · simp only [e, if_true, Option.some.injEq] at hj; subst hj
          exact histOK_step g.next (g.next + 1) nd _ _ ev (h m nd hg) hs (by simp [introS])
            (by intro id hid; simp [introS] at hid; subst hid; exact ⟨Nat.le_refl _, Nat.lt_succ_self _⟩)
            (Nat.le_succ _)
        · simp only [e, if_false] at hj
          exact histOK_mono _ _ _ (h j ndj hj) (Nat.le_succ _)

theorem deliverAll_ok (key : Nat) (v : Val) (ts : List Tgt) : ∀ g, NodesOK g →
    NodesOK (deliverAll key v ts g).1 ∧ g.next ≤ (deliverAll key v ts g).1.next := by
  induction ts with
  | nil => intro g h; exact ⟨h, Nat.le_refl _⟩
  | cons t ts ih =>
    intro g h
    obtain ⟨h1, h2⟩ := deliver_ok g key v t h
    obtain ⟨h3, h4⟩ := ih _ h1
    simp only [deliverAll]
    exact ⟨h3, Nat.le_trans h2 h4⟩

theorem gWrite_ok (g : G) (key : Nat) (qid : Pid) (v : Val) (h : NodesOK g) :
    NodesOK (gWrite g key qid v).1 ∧ g.next ≤ (gWrite g key qid v).1.next := by
  cases hl : getL g.links key with
  | nil => simp only [gWrite, hl]; exact ⟨h, Nat.le_refl _⟩
  | cons t ts =>
    simp only [gWrite, hl]
    let wr : Writer := { rows := (getWriter g key).rows ++ [List.replicate (t :: ts).length none], queue := (getWriter g key).queue }
    generalize hg1 : ({ g with writers := aset g.writers key wr } : G) = g1
    have h1 : NodesOK g1 := by rw [← hg1]; exact nodesOK_mono g _ h rfl (Nat.le_refl _)
    have hn1 : g1.next = g.next := by rw [← hg1]
    obtain ⟨h3, h4⟩ := deliverAll_ok key v (t :: ts) g1 h1
    generalize deliverAll key v (t :: ts) g1 = r at h3 h4
    obtain ⟨g2, cs⟩ := r
    simp only at h3 h4 ⊢
    exact ⟨nodesOK_mono _ _ h3 rfl (Nat.le_refl _), hn1 ▸ h4⟩

theorem putNode_ok (g : G) (n : Nat) (nd' : Node) (ev : List Ev) (h : NodesOK g) (hn : HistOK g.next nd')
    (hsome : (getNode g.nodes n).isSome = true) :
    NodesOK (putNode g n nd' ev) ∧ (putNode g n nd' ev).next = g.next := by
  have hf := route_frame { g with nodes := setNode g.nodes n nd' } n ev
  simp only [putNode]
  refine ⟨?_, hf.2⟩
  intro j ndj hj
  rw [hf.1] at hj
  simp only [getNode_setNode g.nodes n j nd' hsome] at hj
  rw [hf.2]
  by_cases e : j = n
  · simp only [e, if_true, Option.some.injEq] at hj; subst hj; exact hn
  · simp only [e, if_false] at hj; exact h j ndj hj

theorem nodeStep_hist (g : G) (n : Nat) (nd nd' : Node) (st : Step) (ev : List Ev) (h : NodesOK g)
    (hg : getNode g.nodes n = some nd) (hs : Node.step nd st = some (nd', ev)) (hi : introS st = []) :
    HistOK g.next nd' :=
  histOK_step g.next g.next nd nd' st ev (h n nd hg) hs (by rw [hi]; simp) (by rw [hi]; simp) (Nat.le_refl _)

theorem threadStep_ok (g g' : G) (n : Nat) (nd : Node) (i : Nat) (h : NodesOK g)
    (hg : getNode g.nodes n = some nd) (hs : threadStep g n nd i = some g') :
    NodesOK g' ∧ g.next ≤ g'.next := by
  simp only [threadStep] at hs
  split at hs
  · -- write to a writer
    rename_i w q _ _
    obtain ⟨h1, h2⟩ := gWrite_ok g (wkey n w) q.id q.pay h
    generalize gWrite g (wkey n w) q.id q.pay = r at h1 h2 hs
    obtain ⟨g1, acc⟩ := r
    simp only at h1 h2 hs
    have h1' : NodesOK (if acc = true then g1 else logEcho g1 q) := by
      split
      · exact h1
      · exact nodesOK_mono g1 _ h1 rfl (Nat.le_refl _)
    have hn' : (if acc = true then g1 else logEcho g1 q).next = g1.next := by split <;> rfl
    generalize (if acc = true then g1 else logEcho g1 q) = g2 at h1' hn' hs
    cases hg2 : getNode g2.nodes n with
    | none => simp [hg2] at hs
    | some nd2 =>
      simp only [hg2] at hs
      cases hst : Node.step nd2 (.op i acc) with
      | none => simp [hst] at hs
      | some x =>
        obtain ⟨nd', ev⟩ := x
        simp only [hst, Option.some.injEq] at hs
        obtain ⟨k1, k2⟩ := putNode_ok g2 n nd' ev h1' (nodeStep_hist g2 n nd2 nd' _ ev h1' hg2 hst rfl)
          (by rw [hg2]; rfl)
        rw [← hs]; exact ⟨k1, by rw [k2, hn']; exact h2⟩
  · rename_i q _ _
    cases hst : Node.step nd (.op i false) with
    | none => simp [hst] at hs
    | some x =>
      obtain ⟨nd', ev⟩ := x
      simp only [hst, Option.some.injEq] at hs
      have h1 : NodesOK (logEcho g q) := nodesOK_mono g _ h rfl (Nat.le_refl _)
      obtain ⟨k1, k2⟩ := putNode_ok (logEcho g q) n nd' ev h1 (nodeStep_hist g n nd nd' _ ev h hg hst rfl)
        (by show (getNode g.nodes n).isSome = true; rw [hg]; rfl)
      rw [← hs]; exact ⟨k1, by rw [k2]; exact Nat.le_refl _⟩
  · cases hst : Node.step nd (.op i false) with
    | none => simp [hst] at hs
    | some x =>
      obtain ⟨nd', ev⟩ := x
      simp only [hst, Option.some.injEq] at hs
      obtain ⟨k1, k2⟩ := putNode_ok g n nd' ev h (nodeStep_hist g n nd nd' _ ev h hg hst rfl) (by rw [hg]; rfl)
      rw [← hs]; exact ⟨k1, by rw [k2]; exact Nat.le_refl _⟩
  · cases hst : Node.step nd (.read i) with
    | none => simp [hst] at hs
    | some x =>
      obtain ⟨nd', ev⟩ := x
      simp only [hst] at hs
      obtain ⟨k1, k2⟩ := putNode_ok g n nd' ev h (nodeStep_hist g n nd nd' _ ev h hg hst rfl) (by rw [hg]; rfl)
      split at hs <;>
        (simp only [Option.some.injEq] at hs; rw [← hs]
         first
           | exact ⟨nodesOK_mono _ _ k1 rfl (Nat.le_refl _), by simp only [k2]; exact Nat.le_refl _⟩
           | exact ⟨k1, by rw [k2]; exact Nat.le_refl _⟩)
  · simp at hs

theorem backStep_ok (g g' : G) (n : Nat) (nd : Node) (w : Nat) (h : NodesOK g)
    (hg : getNode g.nodes n = some nd) (hs : backStep g n nd w = some g') :
    NodesOK g' ∧ g.next ≤ g'.next := by
  simp only [backStep] at hs
  split at hs
  · simp at hs
  · rename_i a rest _
    cases hst : Node.step nd (.answer w a) with
    | none =>
      simp only [hst, Option.some.injEq] at hs
      rw [← hs]; exact ⟨nodesOK_mono g _ h rfl (Nat.le_refl _), Nat.le_refl _⟩
    | some x =>
      obtain ⟨nd', ev⟩ := x
      simp only [hst, Option.some.injEq] at hs
      have h1 : NodesOK { g with writers := aset g.writers (wkey n w) { getWriter g (wkey n w) with queue := rest } } :=
        nodesOK_mono g _ h rfl (Nat.le_refl _)
      obtain ⟨k1, k2⟩ := putNode_ok _ n nd' ev h1 (nodeStep_hist g n nd nd' _ ev h hg hst rfl)
        (by show (getNode g.nodes n).isSome = true; rw [hg]; rfl)
      rw [← hs]; exact ⟨k1, by rw [k2]; exact Nat.le_refl _⟩

theorem settle_ok (fuel : Nat) (g : G) (h : NodesOK g) : NodesOK (settle fuel g) := by
  apply settle_inv NodesOK _ (fun g h => nodesOK_mono g _ h rfl (Nat.le_refl _)) fuel g h
  intro g g' hg hs
  obtain ⟨n, nd, hn, hc⟩ := settleStep_cases g g' hs
  rcases hc with ⟨i, hi⟩ | ⟨w, hw⟩
  · exact (threadStep_ok g g' n nd i hg hn hi).1
  · exact (backStep_ok g g' n nd w hg hn hw).1

theorem allocOuts_ids (vs : List (Option Val)) : ∀ nx,
    ((cellsOf (allocOuts vs nx).1).map (·.id)).Nodup ∧
    (∀ id ∈ (cellsOf (allocOuts vs nx).1).map (·.id), nx ≤ id ∧ id < (allocOuts vs nx).2) ∧
    nx ≤ (allocOuts vs nx).2 := by
  induction vs with
  | nil => intro nx; simp [allocOuts, cellsOf]
  | cons v vs ih =>
    intro nx
    cases v with
    | none =>
      obtain ⟨h1, h2, h3⟩ := ih nx
      simp only [allocOuts, cellsOf]; exact ⟨h1, h2, h3⟩
    | some v =>
      obtain ⟨h1, h2, h3⟩ := ih (nx + 1)
      simp only [allocOuts, cellsOf, List.map_cons, List.nodup_cons, List.mem_cons]
      refine ⟨⟨?_, h1⟩, ?_, Nat.le_trans (Nat.le_succ nx) h3⟩
      · intro hm; exact absurd (h2 nx hm).1 (Nat.not_succ_le_self nx)
      · intro id hid
        rcases hid with e | hid
        · subst e; exact ⟨Nat.le_refl _, Nat.lt_of_lt_of_le (Nat.lt_succ_self _) h3⟩
        · exact ⟨Nat.le_trans (Nat.le_succ nx) (h2 id hid).1, (h2 id hid).2⟩

theorem send_ok (g : G) (v : Val) (h : NodesOK g) : NodesOK (send g v) := by
  simp only [send]
  apply settle_ok
  have hb : NodesOK ({ clearObs g with next := (clearObs g).next + 1,
                                       roots := (clearObs g).roots ++ [(clearObs g).next] } : G) :=
    nodesOK_mono g _ h rfl (Nat.le_succ _)
  exact (gWrite_ok _ srcKey _ v hb).1

theorem sinkAnswer_ok (g g' : G) (k : Nat) (a : Option Ans) (h : NodesOK g) (hs : sinkAnswer g k a = some g') :
    NodesOK g' := by
  simp only [sinkAnswer] at hs
  split at hs
  · simp at hs
  · simp only [Option.some.injEq] at hs
    rw [← hs]
    apply settle_ok
    have hf := gReply_frame
    intro n nd hn
    rw [(hf _ _ _).1] at hn
    rw [(hf _ _ _).2]
    exact h n nd hn

theorem release_ok (g g' : G) (n : Nat) (r : Rel) (h : NodesOK g) (hr : (Ext.release n r).fresh = true)
    (hs : release g n r = some g') : NodesOK g' := by
  simp only [release] at hs
  cases hg : getNode (clearObs g).nodes n with
  | none => simp [hg] at hs
  | some nd =>
    simp only [hg] at hs
    cases ha : actionThread nd.threads 0 with
    | none => simp [ha] at hs
    | some ip =>
      obtain ⟨i, p⟩ := ip
      simp only [ha] at hs
      have hgn : getNode g.nodes n = some nd := hg
      -- the outcome and the next id
      have key : ∀ (o : Outcome) (nx : Pid) (lg : Log),
          (introS (.finish i o)).Nodup → (∀ id ∈ introS (.finish i o), g.next ≤ id ∧ id < nx) → g.next ≤ nx →
          ∀ nd' ev, Node.step nd (.finish i o) = some (nd', ev) →
            NodesOK (settle settleFuel (putNode { clearObs g with next := nx, log := lg } n nd' ev)) := by
        intro o nx lg h1 h2 h3 nd' ev hst
        apply settle_ok
        have hh : HistOK nx nd' := histOK_step g.next nx nd nd' _ ev (h n nd hgn) hst h1 h2 h3
        have hbase : NodesOK ({ clearObs g with next := nx, log := lg } : G) := nodesOK_mono g _ h rfl h3
        exact (putNode_ok _ n nd' ev hbase hh (by show (getNode g.nodes n).isSome = true; rw [hgn]; rfl)).1
      cases r with
      | same => simp [Ext.fresh] at hr
      | sames k => simp [Ext.fresh] at hr
      | mixed vs => simp [Ext.fresh] at hr
      | out v =>
        simp only at hs
        cases hst : Node.step nd (.finish i (.outs [some { id := (clearObs g).next, pay := v }])) with
        | none => simp [hst] at hs
        | some x =>
          obtain ⟨nd', ev⟩ := x
          simp only [hst, Option.some.injEq] at hs
          rw [← hs]
          exact key _ _ _ (by simp [introS, cellsOf])
            (by intro id hid; simp [introS, cellsOf, clearObs] at hid; subst hid; exact ⟨Nat.le_refl _, Nat.lt_succ_self _⟩)
            (Nat.le_succ _) nd' ev hst
      | err v =>
        simp only at hs
        cases hst : Node.step nd (.finish i (.err { id := (clearObs g).next, pay := v })) with
        | none => simp [hst] at hs
        | some x =>
          obtain ⟨nd', ev⟩ := x
          simp only [hst, Option.some.injEq] at hs
          rw [← hs]
          exact key _ _ _ (by simp [introS])
            (by intro id hid; simp [introS, clearObs] at hid; subst hid; exact ⟨Nat.le_refl _, Nat.lt_succ_self _⟩)
            (Nat.le_succ _) nd' ev hst
      | many vs =>
        simp only at hs
        obtain ⟨a1, a2, a3⟩ := allocOuts_ids vs (clearObs g).next
        generalize allocOuts vs (clearObs g).next = r at a1 a2 a3 hs
        obtain ⟨qs, nx⟩ := r
        simp only at a1 a2 a3 hs
        cases hst : Node.step nd (.finish i (.outs qs)) with
        | none => simp [hst] at hs
        | some x =>
          obtain ⟨nd', ev⟩ := x
          simp only [hst, Option.some.injEq] at hs
          rw [← hs]
          exact key _ _ _ (by simpa [introS] using a1) (by simpa [introS, clearObs] using a2) a3 nd' ev hst
      | drop =>
        simp only at hs
        cases hst : Node.step nd (.finish i (.outs [])) with
        | none => simp [hst] at hs
        | some x =>
          obtain ⟨nd', ev⟩ := x
          simp only [hst, Option.some.injEq] at hs
          rw [← hs]
          exact key _ _ _ (by simp [introS, cellsOf]) (by simp [introS, cellsOf]) (Nat.le_refl _) nd' ev hst

theorem runExt_ok (es : List Ext) : ∀ g, NodesOK g → (∀ e ∈ es, e.fresh = true) → NodesOK (runExt g es) := by
  induction es with
  | nil => intro g h _; exact h
  | cons e es ih =>
    intro g h hf
    simp only [runExt]
    apply ih _ _ (fun e' he' => hf e' (by simp [he']))
    have hfe := hf e (by simp)
    cases e with
    | send v => exact send_ok g v h
    | release n r =>
      simp only [ext]
      cases hr : release g n r with
      | none => exact h
      | some g' => exact release_ok g g' n r h hfe hr
    | sinkAnswer k a =>
      simp only [ext]
      cases hr : sinkAnswer g k a with
      | none => exact h
      | some g' => exact sinkAnswer_ok g g' k a h hr

/-- a freshly built workflow: nodes of the given kinds, any links -/
def initG (kinds : List Kind) (links : List (Nat × List Tgt)) : G :=
  { nodes := kinds.map (fun k => Node.mk k), links := links }

theorem nodesOK_init (kinds : List Kind) (links : List (Nat × List Tgt)) : NodesOK (initG kinds links) := by
  intro n nd hn
  simp only [initG] at hn
  have : ∃ k, nd = Node.mk k := by
    clear links
    induction kinds generalizing n with
    | nil => simp [getNode] at hn
    | cons k ks ih =>
      cases n with
      | zero => simp only [List.map_cons, getNode, Option.some.injEq] at hn; exact ⟨k, hn.symm⟩
      | succ n => simp only [List.map_cons, getNode] at hn; exact ih n hn
  obtain ⟨k, rfl⟩ := this
  exact histOK_init k _

/-- what `HistOK` gives through the node theorems: the node's tracer never panicked and is the faithful
image of an abstract tracer state satisfying the invariant -/
theorem histOK_contract (nx : Nat) (nd : Node) (h : HistOK nx nd) :
    nd.tr.panic = false ∧ nd.strict = true ∧ ∃ a : A, TRel a nd.tr ∧ Inv a ∧ a.bad = false := by
  obtain ⟨sched, h1, h2, _⟩ := h
  have hp := node_protocol nd.kind sched h2
  obtain ⟨_, g2, g3⟩ := run_refines (callsOf (Node.mk nd.kind) sched) {} {} trel_init inv_init hp
  have hc := run_calls sched (Node.mk nd.kind) rfl
  have e : (Node.mk nd.kind).tr = {} := rfl
  rw [e] at hc
  have htr : nd.tr = (trun {} (callsOf (Node.mk nd.kind) sched)).1 := by rw [hc, ← h1]
  have hstrict : ∀ (s : List Step) (n : Node), n.strict = true → (Node.run n s).1.strict = true := by
    intro s
    induction s with
    | nil => intro n hn; exact hn
    | cons st sts ih =>
      intro n hn
      simp only [Node.run]
      cases hs : Node.step n st with
      | none => exact ih n hn
      | some x => obtain ⟨n', ev⟩ := x; exact ih n' (step_calls n n' st ev hn hs).2
  refine ⟨by rw [htr]; exact g2.panic, by rw [h1]; exact hstrict sched _ rfl, _, by rw [htr]; exact g2, g3, g3.good⟩

/-! ### the reference answer -/

theorem allSome_map_mono {α β : Type} (f f' : α → Option β) (l : List α) (bs : List β)
    (hf : ∀ x ∈ l, ∀ b, f x = some b → f' x = some b) (h : allSome (l.map f) = some bs) :
    allSome (l.map f') = some bs := by
  induction l generalizing bs with
  | nil => simpa [allSome] using h
  | cons x xs ih =>
    simp only [List.map_cons] at h ⊢
    cases hx : f x with
    | none => simp [hx, allSome] at h
    | some b =>
      simp only [hx, allSome] at h
      cases hr : allSome (xs.map f) with
      | none => simp [hr] at h
      | some bs' =>
        simp only [hr, Option.some.injEq] at h
        have h1 := hf x (by simp) b hx
        have h2 := ih bs' (fun y hy => hf y (by simp [hy])) hr
        simp [allSome, h1, h2, h]

/-- more fuel never changes a reference answer that is already determined -/
theorem refAns_fuel_mono (lg : Log) (f : Nat) : ∀ p a, refAns lg f p = some a → refAns lg (f + 1) p = some a := by
  induction f with
  | zero => intro p a h; simp [refAns] at h
  | succ f ih =>
    intro p a h
    rw [refAns] at h ⊢
    cases he : aget lg.echo p with
    | some v => simpa [he] using h
    | none =>
      simp only [he] at h ⊢
      cases hs : aget lg.sinkAns p with
      | some b => simpa [hs] using h
      | none =>
        simp only [hs] at h ⊢
        cases hd : aget lg.dels p with
        | some cs =>
          simp only [hd] at h ⊢
          cases hall : allSome (cs.map (refAns lg f)) with
          | none => simp [hall] at h
          | some as =>
            simp only [hall] at h
            rw [allSome_map_mono _ (refAns lg (f + 1)) cs as (fun x _ b hb => ih x b hb) hall]
            exact h
        | none =>
          simp only [hd] at h ⊢
          cases ha : aget lg.acts p with
          | none => simp [ha] at h
          | some qs =>
            simp only [ha] at h ⊢
            cases hall : allSome (qs.map (refAns lg f)) with
            | none => simp [hall] at h
            | some as =>
              simp only [hall] at h
              rw [allSome_map_mono _ (refAns lg (f + 1)) qs as (fun x _ b hb => ih x b hb) hall]
              exact h

/-- `k` does not occur as a key of the log -/
def Unlogged (lg : Log) (k : Pid) : Prop :=
  aget lg.acts k = none ∧ aget lg.dels k = none ∧ aget lg.echo k = none ∧ aget lg.sinkAns k = none

/-- `lg'` extends `lg` by entries for one key that was not logged before -/
def LogExt (lg lg' : Log) (k : Pid) : Prop :=
  Unlogged lg k ∧
  (∀ p, p ≠ k → aget lg'.acts p = aget lg.acts p ∧ aget lg'.dels p = aget lg.dels p ∧
    aget lg'.echo p = aget lg.echo p ∧ aget lg'.sinkAns p = aget lg.sinkAns p)

/-- recording a new fact about a packet nothing was known about never changes a reference answer
that was already determined (the derivation tree only grows at its open leaves) -/
theorem refAns_log_mono (lg lg' : Log) (k : Pid) (hx : LogExt lg lg' k) (f : Nat) :
    ∀ p a, refAns lg f p = some a → refAns lg' f p = some a := by
  obtain ⟨⟨u1, u2, u3, u4⟩, hsame⟩ := hx
  induction f with
  | zero => intro p a h; simp [refAns] at h
  | succ f ih =>
    intro p a h
    by_cases hpk : p = k
    · subst hpk
      rw [refAns] at h
      simp [u1, u2, u3, u4] at h
    · obtain ⟨s1, s2, s3, s4⟩ := hsame p hpk
      rw [refAns] at h ⊢
      rw [s3, s4, s2, s1]
      cases he : aget lg.echo p with
      | some v => simpa [he] using h
      | none =>
        simp only [he] at h ⊢
        cases hs : aget lg.sinkAns p with
        | some b => simpa [hs] using h
        | none =>
          simp only [hs] at h ⊢
          cases hd : aget lg.dels p with
          | some cs =>
            simp only [hd] at h ⊢
            cases hall : allSome (cs.map (refAns lg f)) with
            | none => simp [hall] at h
            | some as =>
              simp only [hall] at h
              rw [allSome_map_mono _ (refAns lg' f) cs as (fun x _ b hb => ih x b hb) hall]
              exact h
          | none =>
            simp only [hd] at h ⊢
            cases ha : aget lg.acts p with
            | none => simp [ha] at h
            | some qs =>
              simp only [ha] at h ⊢
              cases hall : allSome (qs.map (refAns lg f)) with
              | none => simp [hall] at h
              | some as =>
                simp only [hall] at h
                rw [allSome_map_mono _ (refAns lg' f) qs as (fun x _ b hb => ih x b hb) hall]
                exact h

/-- the reference answer is as the property states it: a packet nobody accepted is answered with
itself; a sink's copy with the sink's answer; an accepted write with the `Join` of the answers to
its copies; a request with the `Join` of the answers to the packets derived from it – and only
once all of them are determined -/
theorem refAns_spec (lg : Log) (f : Nat) (p : Pid) :
    (∀ v, aget lg.echo p = some v → refAns lg (f + 1) p = some (.pay v)) ∧
    (∀ a, aget lg.echo p = none → aget lg.sinkAns p = some a → refAns lg (f + 1) p = some a) ∧
    (∀ cs, aget lg.echo p = none → aget lg.sinkAns p = none → aget lg.dels p = some cs →
      refAns lg (f + 1) p = (allSome (cs.map (refAns lg f))).map join) ∧
    (∀ qs, aget lg.echo p = none → aget lg.sinkAns p = none → aget lg.dels p = none → aget lg.acts p = some qs →
      refAns lg (f + 1) p = (allSome (qs.map (refAns lg f))).map join) := by
  refine ⟨?_, ?_, ?_, ?_⟩
  · intro v h; simp [refAns, h]
  · intro a h1 h2; simp [refAns, h1, h2]
  · intro cs h1 h2 h3; simp only [refAns, h1, h2, h3]; cases allSome (cs.map (refAns lg f)) <;> rfl
  · intro qs h1 h2 h3 h4; simp only [refAns, h1, h2, h3, h4]; cases allSome (qs.map (refAns lg f)) <;> rfl

/-! ### the link layer: `fillCol` credits an answer to the oldest row still owing that reader -/

theorem fillCol_spec (col : Nat) (a : Ans) (rows rows' : List (List (Option Ans))) (first f : Bool)
    (h : fillCol col a rows first = some (rows', f)) :
    ∃ pre row post, rows = pre ++ row :: post ∧ (∀ r ∈ pre, cellFree r col = false) ∧
      cellFree row col = true ∧ rows' = pre ++ setCell row col a :: post ∧ f = (first && pre.isEmpty) := by
  induction rows generalizing rows' first f with
  | nil => simp [fillCol] at h
  | cons r rs ih =>
    simp only [fillCol] at h
    by_cases hc : cellFree r col = true
    · simp only [hc, if_true, Option.some.injEq, Prod.mk.injEq] at h
      obtain ⟨rfl, rfl⟩ := h
      exact ⟨[], r, rs, rfl, by simp, hc, rfl, by simp⟩
    · simp only [hc] at h
      cases hr : fillCol col a rs false with
      | none => simp [hr] at h
      | some x =>
        obtain ⟨rs', f'⟩ := x
        simp only [hr, Option.some.injEq, Prod.mk.injEq] at h
        obtain ⟨rfl, rfl⟩ := h
        obtain ⟨pre, row, post, h1, h2, h3, h4, h5⟩ := ih rs' false f hr
        refine ⟨r :: pre, row, post, by simp [h1], ?_, h3, by simp [h4], by simp [h5]⟩
        intro x hx
        rcases List.mem_cons.mp hx with e | hx
        · subst e; simpa using hc
        · exact h2 x hx

theorem fillCol_none (col : Nat) (a : Ans) (rows : List (List (Option Ans))) (first : Bool)
    (h : fillCol col a rows first = none) : ∀ r ∈ rows, cellFree r col = false := by
  induction rows generalizing first with
  | nil => simp
  | cons r rs ih =>
    simp only [fillCol] at h
    by_cases hc : cellFree r col = true
    · simp [hc] at h
    · simp only [hc] at h
      cases hr : fillCol col a rs false with
      | some x => simp [hr] at h
      | none =>
        intro x hx
        rcases List.mem_cons.mp hx with e | hx
        · subst e; simpa using hc
        · exact ih false hr x hx

theorem take_succ_append {α : Type} (l1 l2 : List α) (x : α) : (l1 ++ x :: l2).take (l1.length + 1) = l1 ++ [x] := by
  induction l1 with
  | nil => simp
  | cons y ys ih => simpa using ih

theorem drop_succ_append {α : Type} (l1 l2 : List α) (x : α) : (l1 ++ x :: l2).drop (l1.length + 1) = l2 := by
  induction l1 with
  | nil => simp
  | cons y ys ih => simpa using ih

/-- the column-prefix shape of a writer's pending rows: in every column the rows already answered
come before the rows still owed (readers answer in order) -/
def ColPrefix (rows : List (List (Option Ans))) : Prop :=
  ∀ col pre row post, rows = pre ++ row :: post → cellFree row col = false → ∀ r ∈ pre, cellFree r col = false

theorem cellFree_setCell (row : List (Option Ans)) (col col' : Nat) (a : Ans) :
    cellFree (setCell row col a) col' = (if col' = col ∧ col < row.length then false else cellFree row col') := by
  induction row generalizing col col' with
  | nil => simp [setCell, cellFree]
  | cons c cs ih =>
    cases col with
    | zero =>
      cases col' with
      | zero => simp [setCell, cellFree]
      | succ col' => simp [setCell, cellFree]
    | succ col =>
      cases col' with
      | zero => simp [setCell, cellFree]
      | succ col' => simp only [setCell, cellFree, ih, List.length_cons]; simp

/-- crediting an answer to the oldest owing row keeps the column-prefix shape -/
theorem colPrefix_fill (col : Nat) (a : Ans) (rows rows' : List (List (Option Ans))) (first f : Bool)
    (hp : ColPrefix rows) (h : fillCol col a rows first = some (rows', f)) : ColPrefix rows' := by
  obtain ⟨pre, row, post, h1, h2, h3, h4, _⟩ := fillCol_spec col a rows rows' first f h
  subst h1; subst h4
  intro c pre' row' post' hsplit hfree r hr
  -- position of r and row' in pre ++ setCell row col a :: post
  have key : ∀ (x : List (Option Ans)), x ∈ pre ++ setCell row col a :: post →
      (x ∈ pre ∨ x = setCell row col a ∨ x ∈ post) := by
    intro x hx; simpa using hx
  -- compare through lengths of prefixes
  by_cases hlen : pre'.length < pre.length
  · -- row' lies inside pre : everything before it is inside pre too
    have hpre : ∃ mid, pre = pre' ++ row' :: mid := by
      have := congrArg (List.take (pre'.length + 1)) hsplit
      have h5 : (pre ++ setCell row col a :: post).take (pre'.length + 1) = pre.take (pre'.length + 1) :=
        List.take_append_of_le_length (by omega)
      have h6 : (pre' ++ row' :: post').take (pre'.length + 1) = pre' ++ [row'] := take_succ_append _ _ _
      rw [h5, h6] at this
      refine ⟨pre.drop (pre'.length + 1), ?_⟩
      have := List.take_append_drop (pre'.length + 1) pre
      rw [‹List.take (pre'.length + 1) pre = pre' ++ [row']›] at this
      simpa using this.symm
    obtain ⟨mid, hm⟩ := hpre
    exact hp c pre' row' (mid ++ row :: post) (by rw [hm]; simp) hfree r hr
  · by_cases heq : pre'.length = pre.length
    · -- row' is the filled row
      have hpp : pre' = pre := by
        have := congrArg (List.take pre.length) hsplit
        rw [List.take_left, ← heq, List.take_left] at this
        exact this.symm
      subst hpp
      have hrow : row' = setCell row col a := by
        have := List.append_cancel_left hsplit
        exact (List.cons.inj this).1.symm
      subst hrow
      rw [cellFree_setCell] at hfree
      by_cases hcc : c = col ∧ col < row.length
      · rw [hcc.1]; exact h2 r hr
      · simp only [hcc, if_false] at hfree
        exact hp c pre' row post rfl hfree r hr
    · -- row' lies in post: pre' = pre ++ setCell row col a :: mid
      have hgt : pre.length < pre'.length := by omega
      have hpost : ∃ mid, pre' = pre ++ setCell row col a :: mid ∧ post = mid ++ row' :: post' := by
        have h7 := congrArg (List.drop (pre.length + 1)) hsplit
        have h8 : (pre ++ setCell row col a :: post).drop (pre.length + 1) = post := drop_succ_append _ _ _
        have h9 := congrArg (List.take (pre.length + 1)) hsplit
        have h10 : (pre ++ setCell row col a :: post).take (pre.length + 1) = pre ++ [setCell row col a] :=
          take_succ_append _ _ _
        have h11 : (pre' ++ row' :: post').take (pre.length + 1) = pre'.take (pre.length + 1) :=
          List.take_append_of_le_length (by omega)
        rw [h10, h11] at h9
        have h12 : (pre' ++ row' :: post').drop (pre.length + 1) = pre'.drop (pre.length + 1) ++ row' :: post' :=
          List.drop_append_of_le_length (by omega)
        rw [h8, h12] at h7
        refine ⟨pre'.drop (pre.length + 1), ?_, h7⟩
        have := List.take_append_drop (pre.length + 1) pre'
        rw [← h9] at this
        simpa using this.symm
      obtain ⟨mid, hm1, hm2⟩ := hpost
      subst hm1; subst hm2
      have hold := hp c (pre ++ row :: mid) row' post' (by simp) hfree
      simp only [List.mem_append, List.mem_cons] at hr
      rcases hr with hr | hr | hr
      · exact hold r (by simp [hr])
      · subst hr
        rw [cellFree_setCell]
        by_cases hcc : c = col ∧ col < row.length
        · simp [hcc]
        · simp only [hcc, if_false]; exact hold row (by simp)
      · exact hold r (by simp [hr])

/-- consequence: under the column-prefix shape a complete row has only complete rows before it –
the head row is the first to complete, so `Writer.receive`'s "emit only row 0" strands nothing and the
k-th response a writer hands to its node belongs to the k-th accepted write -/
theorem colPrefix_complete_prefix (rows : List (List (Option Ans))) (hp : ColPrefix rows)
    (pre : List (List (Option Ans))) (row : List (Option Ans)) (post : List (List (Option Ans)))
    (hs : rows = pre ++ row :: post) (hc : ∀ col, cellFree row col = false) :
    ∀ r ∈ pre, ∀ col, cellFree r col = false :=
  fun r hr col => hp col pre row post hs (hc col) r hr

end Uniflow.Flow
