/-
C02, joint model, one-in-port node kinds, part 16: helper facts for the internal steps.
-/
import Uniflow.Proofs.FlowH15

namespace Uniflow.FlowH
open Uniflow.Tracer Uniflow.Node Uniflow.Flow Uniflow.FlowInv Uniflow.FlowG Uniflow.ATracer
open Uniflow.ATracer (getL_setOrDel getL_aset)

/-- the invariant, with the ghost state hidden -/
def HIe (kinds : List Kind) (links : List (Nat × List Tgt)) (g : G) : Prop := ∃ aa, HI kinds links aa D0 g

/-- an id the tracer knows is not an id waiting in the thread -/
theorem jb_disj (nd : Node) (a : A) (nx : Nat) (h : JB nd a nx) (th : Thread) (ht : nd.threads = [th]) :
    ∀ k, k ∈ ids a.reqs → k ∉ tids th := by
  intro k h1 h2
  have := h.j.cnt k
  rw [ht] at this
  simp only [List.flatMap_cons, List.flatMap_nil, List.append_nil, List.count_nil, Nat.add_zero] at this
  have c1 := List.count_pos_iff.mpr h1
  have c2 := List.count_pos_iff.mpr h2
  omega

theorem alink_frame (a : A) (s t : Pid) : (alink a s t).reqs.map (·.p) = a.reqs.map (·.p) ∧ (alink a s t).wq = a.wq := by
  simp only [alink]
  split
  · exact ⟨rfl, rfl⟩
  · split
    · exact ⟨updReq_map_p _ _ _, rfl⟩
    · exact ⟨rfl, rfl⟩

theorem heldN_of (nd : Node) (a : A) (th : Thread) (ht : nd.threads = [th]) :
    heldN nd a = a.reqs.map (·.p) ++ th.inbox.map (·.id) := by
  simp [heldN, ht]

theorem tag_sep (n : Nat) (hn : n < 1000) :
    (∀ m, m ≠ n → qTag n ≠ m * 64 ∧ qTag n ≠ qTag m) ∧ (∀ j, qTag n ≠ (2000 + j) * 64) ∧
    (∀ m, m ≠ n → n * 64 ≠ m * 64 ∧ n * 64 ≠ qTag m) ∧ (∀ j, n * 64 ≠ (2000 + j) * 64) := by
  simp only [qTag]
  refine ⟨fun m hm => ⟨by omega, by omega⟩, fun j => by omega, fun m hm => ⟨by omega, by omega⟩, fun j => by omega⟩

/-- a request for which nothing was registered and nothing is pending has no log entry yet -/
theorem req_unlogged (lg : Log) (n : Nat) (th : Thread) (a : A) (p : Pid) (hnl : NL lg n th a)
    (hX : (⟨p, 0, .cells []⟩ : Req) ∈ a.reqs) (hrem : remFor th.pc p = []) : Unlogged lg p := by
  have hr : ReqA lg n th.pc ⟨p, 0, .cells []⟩ := reqB_A _ _ _ _ (hnl.req _ hX) (by intro v e; cases e)
  simp only [ReqA, hrem] at hr
  obtain ⟨qs, a1, a2, a3, a4, a5, _, _⟩ := hr
  have : qs = [] := by cases qs with | nil => rfl | cons _ _ => simp [All2] at a1
  subst this
  exact ⟨by simpa [optl] using a2, a5, a3, a4⟩

theorem src_ne_wkey (n w N : Nat) (hn : n < N) (hN : N ≤ 1000) : srcKey ≠ wkey n w ∨ 64 ≤ w := by
  by_cases h : 64 ≤ w
  · exact Or.inr h
  · left; simp only [wkey, srcKey, srcNode]; omega

theorem key_eq_wkey (n w key' : Nat) (e2 : key' / 64 = n) (e3 : key' % 64 = w) : key' = wkey n w := by
  simp only [wkey]; omega

theorem wkey_div_mod (n w : Nat) (hw : w < 64) : wkey n w / 64 = n ∧ wkey n w % 64 = w := by
  simp only [wkey]; omega

end Uniflow.FlowH
