/-
C02, joint model, general links, part 12: every internal step of `settle` preserves the invariant.
-/
import Uniflow.Proofs.FlowG11

namespace Uniflow.FlowG
open Uniflow.Tracer Uniflow.Node Uniflow.Flow Uniflow.FlowInv
open Uniflow.NodeSpec (S EReq ESt Cur Rel curRead writesOf allIds flushS flushT markDone)
open Uniflow.ATracer (getL_setOrDel getL_aset)

theorem GIe_threadStep (N : Nat) (links : List (Nat × List Tgt)) (hwf : GraphWF N links) (g g' : G) (n : Nat) (nd : Node)
    (i : Nat) (h : GIe N links g) (hn : getNode g.nodes n = some nd) (hs : threadStep g n nd i = some g') :
    GIe N links g' := by
  obtain ⟨ss, h⟩ := h
  have hrel := h.rel n nd hn
  have hnN : n < N := (h.nodesLen n).mp (by rw [hn]; rfl)
  cases hth : getThread nd.threads i with
  | none => simp [threadStep, hth] at hs
  | some th =>
    obtain ⟨e1, e2⟩ := rel_thread (ss n) nd g.next hrel i th hth
    subst e1; subst e2
    cases hc : (ss n).cur with
    | idle =>
      rw [hc] at hth
      simp only [NodeSpec.pcOf] at hth
      cases hi : (ss n).inbox with
      | nil => rw [hi] at hth; simp [threadStep, hth] at hs
      | cons p rest =>
        rw [hi] at hth
        simp only [threadStep, hth] at hs
        cases hst : Node.step nd (.read 0) with
        | none => simp [hst] at hs
        | some r =>
          obtain ⟨nd', ev⟩ := r
          obtain ⟨s', hs1, hs2⟩ := sim_some (ss n) nd nd' (.read 0) g.next ev (NodeSpec.sim_read (ss n) nd g.next hrel) hst
          simp only [NodeSpec.step, hc, hi, Option.some.injEq, Prod.mk.injEq] at hs1
          obtain ⟨e1, e2⟩ := hs1
          subst e1; subst e2
          have key := GI_read N links ss g h n nd nd' p rest hn hc hi hst hs2
          simp only [hst, putNode, route] at hs
          split at hs
          · simp only [Option.some.injEq] at hs; subst hs
            exact ⟨_, GI_congr N links _ D0 _ _ key rfl rfl rfl rfl rfl rfl rfl rfl rfl⟩
          · simp only [Option.some.injEq] at hs; subst hs
            exact ⟨_, key⟩
    | inAction p =>
      rw [hc] at hth
      simp only [NodeSpec.pcOf] at hth
      simp [threadStep, hth] at hs
    | toLink p q w =>
      rw [hc] at hth
      simp only [NodeSpec.pcOf] at hth
      simp only [threadStep, hth] at hs
      cases hst : Node.step nd (.op 0 false) with
      | none => simp [hst] at hs
      | some r =>
        obtain ⟨nd', ev⟩ := r
        obtain ⟨s', hs1, hs2⟩ := sim_some (ss n) nd nd' (.op 0 false) g.next ev (NodeSpec.sim_op (ss n) nd g.next false hrel) hst
        simp only [NodeSpec.step, hc, Option.some.injEq, Prod.mk.injEq] at hs1
        obtain ⟨e1, e2⟩ := hs1
        subst e1; subst e2
        have key := GI_link N links ss g h n nd nd' p q w hn hc hs2
        simp only [hst, putNode, route, Option.some.injEq] at hs
        subst hs
        exact ⟨_, key⟩
    | linked p q w =>
      rw [hc] at hth
      simp only [NodeSpec.pcOf] at hth
      simp only [threadStep, hth] at hs
      have hgl : g.links = links := h.glinks
      cases hl : getL links (wkey n w) with
      | nil =>
        rw [gWrite_none g _ _ _ (by rw [hgl]; exact hl)] at hs
        simp only [Bool.false_eq_true, if_false] at hs
        have e : getNode (logEcho g q).nodes n = some nd := hn
        simp only [e] at hs
        cases hst : Node.step nd (.op 0 false) with
        | none => simp [hst] at hs
        | some r =>
          obtain ⟨nd', ev⟩ := r
          obtain ⟨s', hs1, hs2⟩ := sim_some (ss n) nd nd' (.op 0 false) g.next ev (NodeSpec.sim_op (ss n) nd g.next false hrel) hst
          simp only [NodeSpec.step, hc, Bool.false_eq_true, if_false, Option.some.injEq, Prod.mk.injEq] at hs1
          obtain ⟨e1, e2⟩ := hs1
          subst e1; subst e2
          have key := GI_write_rej N links hwf ss g h n nd nd' p q w hn hc hs2
          simp only [hst, Option.some.injEq] at hs
          subst hs
          exact ⟨_, key⟩
      | cons t ts =>
        have hlne : getL links (wkey n w) ≠ [] := by rw [hl]; simp
        have hco := h.curOK n
        rw [hc] at hco
        obtain ⟨hRL, hqU, hw2, hqo⟩ := hco
        have hni : NI N ss g.nodes g.next := ⟨h.nodesLen, h.rel⟩
        have hgl' : getL g.links (wkey n w) = getL links (wkey n w) := by rw [hgl]
        obtain ⟨heq, hni1⟩ := gWrite_eqG N ss g (wkey n w) q.id q.pay hni (by rw [hgl']; exact hlne)
          (by rw [hgl']; exact tok_of_mem N links hwf _) hqU.2.1
        rw [hgl'] at heq hni1
        rw [heq] at hs
        have hnot : ∀ t' ∈ getL links (wkey n w), ∀ port, t' ≠ Tgt.node n port := by
          intro t' ht' port e
          subst e
          exact Nat.lt_irrefl _ (hwf.fwd n w n port hnN hw2 ht')
        have hn1 : getNode (pushAllG (wkey n w) q.pay (getL links (wkey n w)) (rowPush g (wkey n w))).nodes n = some nd := by
          rw [pushAllG_nodes_other (wkey n w) q.pay n _ _ hnot]; exact hn
        simp only [if_true, hn1] at hs
        cases hst : Node.step nd (.op 0 true) with
        | none => simp [hst] at hs
        | some r =>
          obtain ⟨nd', ev⟩ := r
          obtain ⟨s', hs1, hs2⟩ := sim_some (ss n) nd nd' (.op 0 true) g.next ev (NodeSpec.sim_op (ss n) nd g.next true hrel) hst
          simp only [NodeSpec.step, hc, if_true, Option.some.injEq, Prod.mk.injEq] at hs1
          obtain ⟨e1, e2⟩ := hs1
          subst e1; subst e2
          have hqlt : q.id < g.next := hrel.bound q.id (by simp [allIds, hc, NodeSpec.idsC])
          have hqtag : aget g.log.owner q.id = some (n * 64 + 63) := by simpa [qTag] using hqo
          let s1 : S := { (ss n) with reqs := (ss n).reqs ++ [⟨p.id, .written q.id w⟩], cur := .idle }
          let ss1 := pushAllS q.pay (getL links (wkey n w)) ss g.next
          have hss1n : ss1 n = ss n := by
            obtain ⟨a1, a2, a3⟩ := pushAllS_spec N hwf.small q.pay (getL links (wkey n w)) ss g.next n
              (Nat.lt_of_lt_of_le hnN hwf.small) (tok_of_mem N links hwf _)
            have : copyOf (getL links (wkey n w)) g.next (rkeyOf (.node n 0)) = [] := by
              apply copyOf_none
              intro hm
              obtain ⟨t', ht', e⟩ := List.mem_map.mp hm
              have := rkey_node_of_tok N hwf.small t' (tok_of_mem N links hwf _ t' ht') n (Nat.lt_of_lt_of_le hnN hwf.small) e
              exact hnot t' ht' 0 this
            rw [this] at a3
            exact S_ext _ _ (by simpa using a3) a1 a2
          have hxl := pushedLog_ext g (rowPush g (wkey n w)) (wkey n w) q.pay (getL links (wkey n w)) q.id hqU rfl
          have key := GI_pushed N links hwf ss g h (wkey n w) q.pay hlne (rowPush g (wkey n w)) rfl rfl rfl rfl rfl rfl
            (by simp only [rowPush, newRow, hgl']) (Nat.le_refl _) h.rootsB q.id hqU hqlt
            (fun m => m = n) (upd ss1 n s1)
            (setNode (pushAllG (wkey n w) q.pay (getL links (wkey n w)) (rowPush g (wkey n w))).nodes n nd')
            (nodesLen_set' _ N n nd nd' hn1 hni1.len)
            (rel_upd' _ ss1 n nd nd' s1 _ _ hni1.rel hn1 (NodeSpec.rel_mono _ _ _ _ hs2 (Nat.le_add_right _ _)) (Nat.le_refl _))
            (by intro m hm; simp only [upd, hm, if_false]; rfl)
            (by intro m hm; rw [hm]; exact hnN)
            (by intro m hm port hmem; rw [hm] at hmem; exact hnot _ hmem port rfl)
            (by intro m hm; subst hm; simp [upd, s1, heldOf, hc, curRead])
            (by
              intro m hm r hr
              subst hm
              simp only [upd, if_true, s1, List.mem_append, List.mem_singleton] at hr
              rcases hr with hr | hr
              · exact reqOK_ext g.log _ q.id hxl r (h.reqsOK m r hr)
              · subst hr; exact ⟨reqlogged_ext g.log _ q.id hxl _ _ hRL, hw2⟩)
            (by intro m hm; subst hm; simp only [upd, if_true, s1]; trivial)
            (by
              intro m hm x hxi
              subst hm
              simp only [upd, if_true, s1] at hxi
              apply unlogged_ext g.log _ q.id hxl x.id _ (h.inboxOK m x hxi)
              intro e
              exact rel_nodup_ne (ss m) nd g.next hrel q.id x.id (by simp [hc, NodeSpec.idsC]) (List.mem_map.mpr ⟨x, hxi, rfl⟩) e.symm)
            (by intro m hm; apply sep_node N links ss D0 g h q.id _ hqtag m <;> omega)
            (by intro j; apply sep_sink N links ss D0 g h q.id _ hqtag j; have := hwf.small; omega)
            (by
              intro key'
              have hreqs : ∀ m, (upd ss1 n s1 m).reqs = if m = n then (ss n).reqs ++ [⟨p.id, .written q.id w⟩] else (ss m).reqs := by
                intro m
                by_cases e : m = n
                · simp only [upd, e, if_true, s1]
                · simp only [upd, e, if_false]
                  exact pushAllS_reqs N hwf.small q.pay _ ss g.next m (tok_of_mem N links hwf _)
              show pendK (upd ss1 n s1) g.roots g.resp.length key' = _
              simp only [pendK]
              by_cases e1 : key' = srcKey
              · have : srcKey ≠ wkey n w := fun e2 => wkey_ne_src N n w hwf.small hnN hw2 e2.symm
                simp [e1, this]
              · simp only [e1, if_false, hreqs]
                by_cases e2 : key' / 64 = n
                · simp only [e2, if_true, NodeSpec.writesOf_append, writesOf]
                  by_cases e3 : key' % 64 = w
                  · have : key' = wkey n w := key_of_parts key' n w e2 e3
                    simp [this, (parts_of_key n w hw2).2]
                  · have : key' ≠ wkey n w := fun e4 => e3 (by rw [e4]; exact (parts_of_key n w hw2).2)
                    simp [this, Ne.symm e3]
                · have : key' ≠ wkey n w := fun e4 => e2 (by rw [e4]; exact (parts_of_key n w hw2).1)
                  simp [e2, this])
            ⟨h.respOK.1, rfl⟩
          simp only [hst, putNode, route, Option.some.injEq] at hs
          subst hs
          exact ⟨_, GI_congr N links _ D0 _ _ key rfl rfl rfl rfl rfl rfl rfl rfl rfl⟩

theorem GIe_backStep (N : Nat) (links : List (Nat × List Tgt)) (hwf : GraphWF N links) (g g' : G) (n : Nat) (nd : Node)
    (w : Nat) (hw8 : w < maxW) (h : GIe N links g) (hn : getNode g.nodes n = some nd)
    (hs : backStep g n nd w = some g') : GIe N links g' := by
  obtain ⟨ss, h⟩ := h
  have hrel := h.rel n nd hn
  have hnN : n < N := (h.nodesLen n).mp (by rw [hn]; rfl)
  simp only [backStep, getWriter_eq] at hs
  cases hq : (gw g.writers (wkey n w)).queue with
  | nil => simp [hq] at hs
  | cons a rest =>
    simp only [hq] at hs
    cases hl : getL links (wkey n w) with
    | nil => have := h.wq0 _ hl; rw [hq] at this; cases this
    | cons t ts =>
      have hl1 : getL links (wkey n w) ≠ [] := by rw [hl]; simp
      have hw2 : w < 2 := by
        rcases hwf.keys (wkey n w) (by rw [hl]; simp) with e | ⟨n', w', h1, h2, e⟩
        · have := hwf.small; simp only [wkey, srcKey, srcNode, maxW] at e hw8; omega
        · simp only [wkey, maxW] at e hw8; omega
      have hwk0 := h.wk (wkey n w) hl1
      rw [pendK_wkey ss g.roots g.resp.length N n w hwf.small hnN hw2] at hwk0
      obtain ⟨q0, pend', e1, hra, hwk1⟩ := wkg_consume _ _ _ _ _ a rest hwk0 hq
      cases hm : markDone w a (ss n).reqs with
      | none => rw [NodeSpec.markDone_none w a _ hm] at e1; cases e1
      | some rs1 =>
        cases hst : Node.step nd (.answer w a) with
        | none =>
          rcases NodeSpec.sim_answer (ss n) nd g.next w a hrel with ⟨_, h2⟩ | ⟨n2, s2, ev2, h1, _, _⟩
          · simp [NodeSpec.step, hm] at h2
          · rw [hst] at h1; cases h1
        | some r =>
          obtain ⟨nd', ev⟩ := r
          obtain ⟨s', hs1, hs2⟩ := sim_some (ss n) nd nd' (.answer w a) g.next ev (NodeSpec.sim_answer (ss n) nd g.next w a hrel) hst
          simp only [NodeSpec.step, hm, Option.some.injEq, Prod.mk.injEq] at hs1
          obtain ⟨e1, e2⟩ := hs1
          subst e1; subst e2
          have key := GI_answer N links hwf ss g h n nd nd' w a rest rs1 hn hw2 hl1 hq hm hs2
          simp only [hst, Option.some.injEq] at hs
          subst hs
          exact ⟨_, key⟩

theorem GIe_settle (N : Nat) (links : List (Nat × List Tgt)) (hwf : GraphWF N links) (fuel : Nat) (g : G)
    (h : GIe N links g) : GIe N links (settle fuel g) := by
  apply settle_inv (GIe N links) _ _ fuel g h
  · intro g g' hg hs
    obtain ⟨n, nd, hn, ⟨i, hi⟩ | ⟨w, hw, hb⟩⟩ := settleStep_cases' g g' hs
    · exact GIe_threadStep N links hwf g g' n nd i hg hn hi
    · exact GIe_backStep N links hwf g g' n nd w hw hg hn hb
  · intro g ⟨ss, hg⟩
    exact ⟨ss, GI_congr N links ss D0 g _ hg rfl rfl rfl rfl rfl rfl rfl rfl rfl⟩

end Uniflow.FlowG
