/-
Lemmas about the reference dictionary `Uniflow.Dict` (Spec/Dict.lean) on lists without two `Equal` keys:
membership characterisations of `set` / `delete`, the meaning of `get`. Core Lean only.
-/
import Uniflow.Proofs.Value
import Uniflow.Spec.Dict

namespace Uniflow.Dict
open Uniflow.Value

theorem eq_refl' (a : Val) : equal a a = true :=
  (cmp_zero_iff_equal a a).mp (by have := cmp_antisymm a a; omega)

theorem eq_symm' {a b : Val} (h : equal a b = true) : equal b a = true := by
  have h1 := (cmp_zero_iff_equal a b).mpr h
  exact (cmp_zero_iff_equal b a).mp (by have := cmp_antisymm a b; omega)

theorem eq_trans' {a b c : Val} (h1 : equal a b = true) (h2 : equal b c = true) : equal a c = true := by
  have e1 := (cmp_zero_iff_equal a b).mpr h1
  have e2 := (cmp_zero_iff_equal b c).mpr h2
  apply (cmp_zero_iff_equal a c).mp
  have t1 := (cmp_T3 a b c).1
  have t2 := (cmp_T3 c b a).1
  have := cmp_antisymm a b
  have := cmp_antisymm b c
  have := cmp_antisymm a c
  omega

/-- if `a` is Equal to `k` and `b` is not Equal to `a`, then `b` is not Equal to `k` -/
theorem ne_of_eq_of_ne {a b k : Val} (h1 : equal a k = true) (h2 : equal a b = false) : equal b k = false := by
  cases h : equal b k
  · rfl
  · rw [eq_trans' h1 (eq_symm' h)] at h2; cases h2

/-- no two keys of the list are `Equal` -/
def NoDup (d : Dict) : Prop := d.Pairwise (fun p q => equal p.1 q.1 = false)

theorem nodup_unique : ∀ {d : Dict}, NoDup d → ∀ {p q}, p ∈ d → q ∈ d → equal p.1 q.1 = true → p = q
  | [], _, _, _, hp, _, _ => by cases hp
  | x :: d, hd, p, q, hp, hq, he => by
    unfold NoDup at hd
    rw [List.pairwise_cons] at hd
    rw [List.mem_cons] at hp hq
    rcases hp with rfl | hp <;> rcases hq with rfl | hq
    · rfl
    · rw [hd.1 q hq] at he; cases he
    · have := hd.1 p hp; rw [eq_symm' he] at this; cases this
    · exact nodup_unique hd.2 hp hq he

theorem nodup_nodup {d : Dict} (hd : NoDup d) : d.Nodup := by
  unfold NoDup at hd
  exact hd.imp (fun {p q} h heq => by subst heq; rw [eq_refl'] at h; cases h)

/-- `get` on a duplicate-free list: a miss means no key is Equal; a hit returns the value of the one pair whose key is Equal -/
theorem get_spec : ∀ {d : Dict}, NoDup d → ∀ k,
    (get d k = none ∧ ∀ q ∈ d, equal q.1 k = false) ∨
    (∃ k0 v, get d k = some v ∧ (k0, v) ∈ d ∧ equal k0 k = true)
  | [], _, k => .inl ⟨rfl, by simp⟩
  | (k', v') :: d, hd, k => by
    unfold NoDup at hd
    rw [List.pairwise_cons] at hd
    unfold get
    by_cases h : equal k' k = true
    · rw [if_pos h]
      exact .inr ⟨k', v', rfl, List.mem_cons_self .., h⟩
    · rw [if_neg h]
      rcases get_spec hd.2 k with ⟨h1, h2⟩ | ⟨k0, v, h1, h2, h3⟩
      · refine .inl ⟨h1, ?_⟩
        intro q hq
        rw [List.mem_cons] at hq
        rcases hq with rfl | hq
        · simpa using h
        · exact h2 q hq
      · exact .inr ⟨k0, v, h1, List.mem_cons_of_mem _ h2, h3⟩

/-- `set` on a duplicate-free list: the stored key `k0` is the existing Equal key, or `k` itself when there is none -/
theorem set_spec : ∀ {d : Dict}, NoDup d → ∀ k v,
    ∃ k0, equal k0 k = true ∧ ((k0 = k ∧ ∀ q ∈ d, equal q.1 k = false) ∨ ∃ v0, (k0, v0) ∈ d) ∧
      NoDup (set d k v) ∧ ∀ q, q ∈ set d k v ↔ (q ∈ d ∧ equal q.1 k = false) ∨ q = (k0, v)
  | [], _, k, v => ⟨k, eq_refl' k, .inl ⟨rfl, by simp⟩, by simp [set, NoDup], by simp [set]⟩
  | (k', v') :: d, hd, k, v => by
    have hd' := hd
    unfold NoDup at hd
    rw [List.pairwise_cons] at hd
    unfold set
    by_cases h : equal k' k = true
    · rw [if_pos h]
      refine ⟨k', h, .inr ⟨v', List.mem_cons_self ..⟩, ?_, ?_⟩
      · unfold NoDup; rw [List.pairwise_cons]; exact ⟨hd.1, hd.2⟩
      · intro q
        simp only [List.mem_cons]
        constructor
        · rintro (rfl | hq)
          · exact .inr rfl
          · exact .inl ⟨.inr hq, ne_of_eq_of_ne h (hd.1 q hq)⟩
        · rintro (⟨rfl | hq, hne⟩ | rfl)
          · rw [h] at hne; cases hne
          · exact .inr hq
          · exact .inl rfl
    · rw [if_neg h]
      have hf : equal k' k = false := by simpa using h
      obtain ⟨k0, he, hprov, hnd, hmem⟩ := set_spec hd.2 k v
      refine ⟨k0, he, ?_, ?_, ?_⟩
      · rcases hprov with ⟨rfl, hall⟩ | ⟨v0, hv0⟩
        · refine .inl ⟨rfl, ?_⟩
          intro q hq
          rw [List.mem_cons] at hq
          rcases hq with rfl | hq
          · exact hf
          · exact hall q hq
        · exact .inr ⟨v0, List.mem_cons_of_mem _ hv0⟩
      · unfold NoDup; rw [List.pairwise_cons]
        refine ⟨?_, hnd⟩
        intro q hq
        rcases (hmem q).mp hq with ⟨hq, _⟩ | rfl
        · exact hd.1 q hq
        · cases hx : equal k' k0
          · rfl
          · rw [eq_trans' hx he] at hf; cases hf
      · intro q
        simp only [List.mem_cons, hmem q]
        constructor
        · rintro (rfl | ⟨hq, hne⟩ | rfl)
          · exact .inl ⟨.inl rfl, hf⟩
          · exact .inl ⟨.inr hq, hne⟩
          · exact .inr rfl
        · rintro (⟨rfl | hq, hne⟩ | rfl)
          · exact .inl rfl
          · exact .inr (.inl ⟨hq, hne⟩)
          · exact .inr (.inr rfl)

/-- `delete` on a duplicate-free list removes exactly the pairs whose key is Equal to `k` -/
theorem delete_spec : ∀ {d : Dict}, NoDup d → ∀ k,
    NoDup (delete d k) ∧ ∀ q, q ∈ delete d k ↔ q ∈ d ∧ equal q.1 k = false
  | [], _, k => by simp [delete, NoDup]
  | (k', v') :: d, hd, k => by
    unfold NoDup at hd
    rw [List.pairwise_cons] at hd
    unfold delete
    by_cases h : equal k' k = true
    · rw [if_pos h]
      refine ⟨hd.2, ?_⟩
      intro q
      simp only [List.mem_cons]
      constructor
      · intro hq; exact ⟨.inr hq, ne_of_eq_of_ne h (hd.1 q hq)⟩
      · rintro ⟨rfl | hq, hne⟩
        · rw [h] at hne; cases hne
        · exact hq
    · rw [if_neg h]
      have hf : equal k' k = false := by simpa using h
      obtain ⟨hnd, hmem⟩ := delete_spec hd.2 k
      refine ⟨?_, ?_⟩
      · unfold NoDup; rw [List.pairwise_cons]
        exact ⟨fun q hq => hd.1 q ((hmem q).mp hq).1, hnd⟩
      · intro q
        simp only [List.mem_cons, hmem q]
        constructor
        · rintro (rfl | ⟨hq, hne⟩)
          · exact ⟨.inl rfl, hf⟩
          · exact ⟨.inr hq, hne⟩
        · rintro ⟨rfl | hq, hne⟩
          · exact .inl rfl
          · exact .inr ⟨hq, hne⟩

end Uniflow.Dict
