/-
C02, joint model, general links, part 3: the class (`GraphWF`: any forward links between one-to-one nodes,
a writer may feed several readers, a reader may be fed by several writers), the global invariant `GI`,
its validity in the initial state, and the equation for `gReply`.
-/
import Uniflow.Proofs.FlowG2

namespace Uniflow.FlowG
open Uniflow.Tracer Uniflow.Node Uniflow.Flow Uniflow.FlowInv
open Uniflow.NodeSpec (S EReq ESt Cur Rel curRead writesOf allIds)
open Uniflow.ATracer (getL_setOrDel getL_aset)

/-- class T2: one-to-one nodes, arbitrary forward links -/
structure GraphWF (N : Nat) (links : List (Nat × List Tgt)) : Prop where
  small : N ≤ 1000
  nodupT : ∀ key, ((getL links key).map rkeyOf).Nodup
  tnode : ∀ key m port, Tgt.node m port ∈ getL links key → m < N ∧ port = 0
  src : getL links srcKey ≠ []
  keys : ∀ key, getL links key ≠ [] → key = srcKey ∨ ∃ n w, n < N ∧ w < 2 ∧ key = wkey n w
  fwd : ∀ n w m port, n < N → w < 2 → Tgt.node m port ∈ getL links (wkey n w) → n < m

/-- of the requests reader holds (`hs`, aligned with its FIFO of feeding writers `fs`) those of writer `key` -/
def selK (key : Nat) : List Pid → List Nat → List Pid
  | h :: hs, f :: fs => if f = key then h :: selK key hs fs else selK key hs fs
  | _, _ => []

def hbOf (D : Nat → List (Pid × Ans)) (ss : Nat → S) (sk : List (Nat × List (Pid × Val)))
    (ff : List (Nat × List Nat)) (key : Nat) (t : Tgt) : List Pid :=
  selK key (heldD D ss sk t) (getL ff (rkeyOf t))

structure GI (N : Nat) (links : List (Nat × List Tgt)) (ss : Nat → S) (D : Nat → List (Pid × Ans)) (g : G) : Prop where
  glinks : g.links = links
  nodesLen : ∀ n, (getNode g.nodes n).isSome = true ↔ n < N
  rel : ∀ n nd, getNode g.nodes n = some nd → Rel (ss n) nd g.next
  dflt : ∀ n, N ≤ n → ss n = {}
  reqsOK : ∀ n, ∀ r ∈ (ss n).reqs, ReqOK g.log r
  curOK : ∀ n, CurOK g.log n (ss n).cur
  inboxOK : ∀ n, ∀ p ∈ (ss n).inbox, Unlogged g.log p.id
  ownNode : ∀ n, ∀ id ∈ heldAt ss g.sinks (.node n 0), aget g.log.owner id = some (rkeyOf (.node n 0))
  sinkOK : ∀ k, ((getL g.sinks k).map (·.1)).Nodup ∧
    ∀ c ∈ (getL g.sinks k).map (·.1), Unlogged g.log c ∧ c < g.next ∧ aget g.log.owner c = some (rkeyOf (.sink k))
  debtOK : ∀ rk, ∀ x ∈ D rk, RA g.log x.1 x.2
  wk : ∀ key, getL links key ≠ [] →
    WKG g.log (gw g.writers key) (getL links key) (pendK ss g.roots g.resp.length key) (hbOf D ss g.sinks g.fifo key)
  srcq : (gw g.writers srcKey).queue = []
  fifoLen : ∀ t, TgtOK t → (getL g.fifo (rkeyOf t)).length = (heldD D ss g.sinks t).length
  fifoKeys : ∀ t, TgtOK t → ∀ key ∈ getL g.fifo (rkeyOf t), t ∈ getL links key
  respOK : g.resp.length ≤ g.roots.length ∧ All2 (RA g.log) (g.roots.take g.resp.length) g.resp
  logBound : ∀ id, g.next ≤ id → Unlogged g.log id
  rootsB : ∀ r ∈ g.roots, r < g.next
  wq0 : ∀ key, getL links key = [] → (gw g.writers key).queue = []
  logOrd : LogOrd g.log g.next

/-! ### `selK` -/

theorem selK_nil (key : Nat) (fs : List Nat) : selK key [] fs = [] := by cases fs <;> rfl

theorem selK_snoc (key : Nat) : ∀ (hs : List Pid) (fs : List Nat) (c : Pid) (k' : Nat), hs.length = fs.length →
    selK key (hs ++ [c]) (fs ++ [k']) = selK key hs fs ++ (if k' = key then [c] else [])
  | [], [], c, k', _ => by simp [selK]
  | h :: hs, f :: fs, c, k', hl => by
    simp only [List.length_cons, Nat.add_right_cancel_iff] at hl
    simp only [List.cons_append, selK, selK_snoc key hs fs c k' hl]
    split <;> rfl
  | [], _ :: _, _, _, hl => by simp at hl
  | _ :: _, [], _, _, hl => by simp at hl

/-! ### `colOf` -/

theorem colOf_spec (t : Tgt) : ∀ (ts : List Tgt) (j : Nat), (ts.map rkeyOf).Nodup → t ∈ ts →
    ∃ i, colOf (rkeyOf t) ts j = some (j + i) ∧ ts[i]? = some t
  | [], _, _, h => by simp at h
  | t0 :: ts, j, hnd, hm => by
    simp only [List.map_cons, List.nodup_cons] at hnd
    simp only [colOf]
    by_cases e : rkeyOf t0 = rkeyOf t
    · have : t0 = t := by
        simp only [List.mem_cons] at hm
        rcases hm with h | h
        · exact h.symm
        · exact absurd (List.mem_map_of_mem (f := rkeyOf) h) (by rw [← e]; exact hnd.1)
      subst this
      exact ⟨0, by simp, by simp⟩
    · simp only [e, if_false]
      have hm' : t ∈ ts := by
        simp only [List.mem_cons] at hm
        rcases hm with h | h
        · exact absurd (by rw [h]) e
        · exact h
      obtain ⟨i, h1, h2⟩ := colOf_spec t ts (j + 1) hnd.2 hm'
      exact ⟨i + 1, by rw [h1]; congr 1; omega, by simpa using h2⟩

theorem nodup_idx_ne : ∀ (ts : List Tgt), (ts.map rkeyOf).Nodup → ∀ (i i' : Nat) (t t' : Tgt),
    ts[i]? = some t → ts[i']? = some t' → i' ≠ i → rkeyOf t' ≠ rkeyOf t
  | [], _, i, _, _, _, h, _, _ => by simp at h
  | t0 :: ts, hnd, 0, 0, _, _, _, _, hne => absurd rfl hne
  | t0 :: ts, hnd, 0, i' + 1, t, t', h, h', _ => by
    simp only [List.map_cons, List.nodup_cons] at hnd
    simp only [List.getElem?_cons_zero, Option.some.injEq, List.getElem?_cons_succ] at h h'
    subst h
    intro e
    exact hnd.1 (by rw [← e]; exact List.mem_map_of_mem (List.mem_of_getElem? h'))
  | t0 :: ts, hnd, i + 1, 0, t, t', h, h', _ => by
    simp only [List.map_cons, List.nodup_cons] at hnd
    simp only [List.getElem?_cons_zero, Option.some.injEq, List.getElem?_cons_succ] at h h'
    subst h'
    intro e
    exact hnd.1 (by rw [e]; exact List.mem_map_of_mem (List.mem_of_getElem? h))
  | t0 :: ts, hnd, i + 1, i' + 1, t, t', h, h', hne => by
    simp only [List.map_cons, List.nodup_cons] at hnd
    simp only [List.getElem?_cons_succ] at h h'
    exact nodup_idx_ne ts hnd.2 i i' t t' h h' (fun e => hne (by rw [e]))

theorem rkey_inj_ok (t t' : Tgt) (h : TgtOK t) (h' : TgtOK t') (e : rkeyOf t = rkeyOf t') : t = t' := by
  cases t with
  | node m p =>
    cases t' with
    | node m' p' =>
      simp only [TgtOK] at h h'; simp only [rkeyOf] at e
      obtain ⟨rfl, _⟩ := h; obtain ⟨rfl, _⟩ := h'
      have : m = m' := by omega
      rw [this]
    | sink k => simp only [TgtOK] at h; simp only [rkeyOf] at e; omega
  | sink k =>
    cases t' with
    | node m' p' => simp only [TgtOK] at h'; simp only [rkeyOf] at e; omega
    | sink k' => simp only [rkeyOf] at e; have : k = k' := by omega
                 rw [this]

theorem tgtOK_mem (N : Nat) (links : List (Nat × List Tgt)) (hwf : GraphWF N links) (key : Nat) (t : Tgt)
    (h : t ∈ getL links key) : TgtOK t := by
  cases t with
  | sink _ => trivial
  | node m port =>
    obtain ⟨a1, a2⟩ := hwf.tnode key m port h
    exact ⟨a2, Nat.lt_of_lt_of_le a1 hwf.small⟩

/-! ### the initial state -/

theorem wkg_empty (lg : Log) (tgts : List Tgt) (hb : Tgt → List Pid) (h : ∀ t, hb t = []) : WKG lg {} tgts [] hb :=
  ⟨[], [], rfl, trivial, rfl, fun r hr => by simp at hr, fun i t _ => by rw [h t]; rfl,
    fun r hr => by simp at hr, List.Pairwise.nil⟩

theorem GI_init (N : Nat) (links : List (Nat × List Tgt)) :
    GI N links (fun _ => {}) (fun _ => []) (initG (List.replicate N .oneToOne) links) := by
  have hg : ∀ key, gw (initG (List.replicate N .oneToOne) links).writers key = {} := fun key => rfl
  have hheld : ∀ t, heldD (fun _ => []) (fun _ => ({} : S)) (initG (List.replicate N .oneToOne) links).sinks t = [] := by
    intro t; cases t <;> simp [heldD, heldAt, curRead, initG, getL_eq]
  refine { glinks := rfl, nodesLen := ?_, rel := ?_, dflt := fun _ _ => rfl, reqsOK := ?_, curOK := fun _ => trivial,
           inboxOK := ?_, ownNode := ?_, sinkOK := ?_, debtOK := ?_, wk := ?_, srcq := rfl, fifoLen := ?_,
           fifoKeys := ?_, respOK := ⟨Nat.le_refl _, trivial⟩, logBound := fun id _ => unlogged_empty id,
           rootsB := ?_, wq0 := fun _ _ => rfl, logOrd := ?_ }
  · intro n; simp only [initG, getNode_replicate]; split <;> simp_all
  · intro n nd hn
    simp only [initG, getNode_replicate] at hn
    split at hn
    · simp only [Option.some.injEq] at hn; subst hn
      exact NodeSpec.rel_mono _ _ 0 _ NodeSpec.rel_init (Nat.zero_le _)
    · cases hn
  · intro n r hr; simp at hr
  · intro n p hp; simp at hp
  · intro n id hid; simp [heldAt, curRead] at hid
  · intro k; simp [initG, getL_eq]
  · intro rk x hx; simp at hx
  · intro key _
    rw [hg]
    have hp : pendK (fun _ => ({} : S)) (initG (List.replicate N .oneToOne) links).roots
        (initG (List.replicate N .oneToOne) links).resp.length key = [] := by
      simp only [pendK, initG]; split <;> simp [writesOf]
    rw [hp]
    exact wkg_empty _ _ _ (fun t => by simp only [hbOf, hheld, selK_nil])
  · intro t _; rw [hheld]; simp [initG, getL_eq]
  · intro t _ key hk; simp [initG, getL_eq] at hk
  · intro r hr; simp [initG] at hr
  · exact ⟨fun p cs h => (by simp [initG, aget] at h), fun p qs h => (by simp [initG, aget] at h)⟩

/-! ### `gReply`, computed -/

theorem gReply_eqG (g : G) (rk : Nat) (a : Ans) (key : Nat) (rest' : List Nat) (i : Nat)
    (row : List (Option Ans)) (rows' : List (List (Option Ans))) (fl : Bool)
    (hf : getL g.fifo rk = key :: rest') (hc : colOf rk (getL g.links key) 0 = some i)
    (hr : fillCol i a (getWriter g key).rows true = some (row :: rows', fl)) :
    gReply g rk a =
      if fl = true ∧ hasNil row = false then
        (if key = srcKey then
          { g with fifo := setOrDel g.fifo rk rest',
                   writers := aset g.writers key { getWriter g key with rows := rows' },
                   srcOut := g.srcOut ++ [joinCells row], resp := g.resp ++ [joinCells row] }
        else
          { g with fifo := setOrDel g.fifo rk rest',
                   writers := aset g.writers key { rows := rows', queue := (getWriter g key).queue ++ [joinCells row] } })
      else
        { g with fifo := setOrDel g.fifo rk rest',
                 writers := aset g.writers key { getWriter g key with rows := row :: rows' } } := by
  have hw : ∀ f : List (Nat × List Nat), getWriter { g with fifo := f } key = getWriter g key := fun _ => rfl
  simp only [gReply, hf, hc, hw, hr]
  cases fl <;> cases hn : hasNil row <;> simp [hn]

end Uniflow.FlowG
