/-
C02, joint model, general links, part 8: what the readers hold after the copies of one write were handed out.
-/
import Uniflow.Proofs.FlowG7

namespace Uniflow.FlowG
open Uniflow.Tracer Uniflow.Node Uniflow.Flow Uniflow.FlowInv
open Uniflow.NodeSpec (S EReq ESt Cur Rel curRead writesOf allIds)
open Uniflow.ATracer (getL_setOrDel getL_aset)

theorem selK_append (key k' : Nat) : ∀ (hs : List Pid) (fs : List Nat) (cs : List Pid), hs.length = fs.length →
    selK key (hs ++ cs) (fs ++ cs.map (fun _ => k')) = selK key hs fs ++ (if k' = key then cs else [])
  | [], [], cs, _ => by
    simp only [List.nil_append, selK]
    induction cs with
    | nil => simp [selK]
    | cons c cs ih =>
      simp only [List.map_cons, selK]
      by_cases e : k' = key
      · simp only [e, if_true] at ih ⊢; rw [ih]
      · simp only [e, if_false] at ih ⊢; exact ih
  | h :: hs, f :: fs, cs, hl => by
    simp only [List.length_cons, Nat.add_right_cancel_iff] at hl
    simp only [List.cons_append, selK, selK_append key k' hs fs cs hl]
    split <;> rfl
  | [], _ :: _, _, hl => by simp at hl
  | _ :: _, [], _, hl => by simp at hl

theorem tok_of_mem (N : Nat) (links : List (Nat × List Tgt)) (hwf : GraphWF N links) (key : Nat) :
    ∀ t ∈ getL links key, TOK N t := by
  intro t ht
  cases t with
  | sink _ => trivial
  | node m port => exact hwf.tnode key m port ht

theorem map_id_mk (v : Val) : ∀ (cs : List Pid), (cs.map (fun x => ({ id := x, pay := v } : Pkt))).map (·.id) = cs
  | [] => rfl
  | c :: cs => by simp only [List.map_cons, map_id_mk v cs]

theorem map_fst_mk (v : Val) : ∀ (cs : List Pid), (cs.map (fun c => ((c, v) : Pid × Val))).map (·.1) = cs
  | [] => rfl
  | c :: cs => by simp only [List.map_cons, map_fst_mk v cs]

/-- what reader `t'` holds after the copies were handed out -/
theorem push_held (N : Nat) (hN : N ≤ 1000) (key : Nat) (v : Val) (ts : List Tgt) (hts : ∀ t ∈ ts, TOK N t)
    (ss : Nat → S) (gb : G) (t' : Tgt) (htok : TgtOK t') :
    heldD D0 (pushAllS v ts ss gb.next) (pushAllG key v ts gb).sinks t' =
      heldD D0 ss gb.sinks t' ++ copyOf ts gb.next (rkeyOf t') := by
  cases t' with
  | sink j =>
    simp only [heldD, D0, heldAt, List.map_nil, List.nil_append, pushAllG_sinks N hN key v ts gb j hts,
      List.map_append, map_fst_mk]
  | node m port =>
    obtain ⟨hp, hm⟩ := htok
    subst hp
    obtain ⟨a1, a2, a3⟩ := pushAllS_spec N hN v ts ss gb.next m hm hts
    simp only [heldD, D0, heldAt, List.map_nil, List.nil_append, a1, a2, a3, List.map_append, map_id_mk,
      List.append_assoc]

/-- what reader `t'` holds for writer `key'` after the copies were handed out -/
theorem push_hb (N : Nat) (hN : N ≤ 1000) (key : Nat) (v : Val) (ts : List Tgt) (hts : ∀ t ∈ ts, TOK N t)
    (ss : Nat → S) (gb : G) (key' : Nat) (t' : Tgt) (htok : TgtOK t')
    (hlen : (getL gb.fifo (rkeyOf t')).length = (heldD D0 ss gb.sinks t').length) :
    hbOf D0 (pushAllS v ts ss gb.next) (pushAllG key v ts gb).sinks (pushAllG key v ts gb).fifo key' t' =
      hbOf D0 ss gb.sinks gb.fifo key' t' ++ (if key = key' then copyOf ts gb.next (rkeyOf t') else []) := by
  simp only [hbOf, push_held N hN key v ts hts ss gb t' htok, pushAllG_fifo]
  exact selK_append key' key _ _ _ hlen.symm

theorem copyOf_len_le (ts : List Tgt) (hnd : (ts.map rkeyOf).Nodup) (c : Pid) (rk : Nat) :
    copyOf ts c rk = [] ∨ ∃ i t, ts[i]? = some t ∧ rkeyOf t = rk ∧ copyOf ts c rk = [c + i] := by
  by_cases h : rk ∈ ts.map rkeyOf
  · right
    obtain ⟨t, ht, e⟩ := List.mem_map.mp h
    obtain ⟨i, hi, hti⟩ := List.mem_iff_getElem.mp ht
    refine ⟨i, t, ?_, e, ?_⟩
    · rw [List.getElem?_eq_getElem hi, hti]
    · rw [← e]; exact copyOf_idx ts c i t hnd (by rw [List.getElem?_eq_getElem hi, hti])
  · left; exact copyOf_none ts c rk h

end Uniflow.FlowG
