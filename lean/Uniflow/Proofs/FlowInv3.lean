/-
C02, joint model, part 3 of the invariant proof: routing all replies of a node, and the steps that
change one node only (read, link, action returns).
-/
import Uniflow.Proofs.FlowInv2

namespace Uniflow.FlowInv
open Uniflow.Tracer Uniflow.Node Uniflow.Flow
open Uniflow.NodeSpec (S EReq ESt Cur Rel curRead writesOf allIds)
open Uniflow.ATracer (getL_setOrDel getL_aset)

theorem updD_self (D : Nat → List (Pid × Ans)) (rk : Nat) : updD D rk (D rk) = D := by
  funext x; simp only [updD]; split
  · rename_i e; rw [e]
  · rfl

theorem updD_updD (D : Nat → List (Pid × Ans)) (rk : Nat) (l l' : List (Pid × Ans)) :
    updD (updD D rk l) rk l' = updD D rk l' := by
  funext x; simp only [updD]; split <;> rfl

/-- routing all replies a node has just emitted -/
theorem FI_route (N : Nat) (links : List (Nat × List Tgt)) (hwf : TreeWF N links) (ss : Nat → S) (n : Nat)
    (hn1000 : n < 1000) :
    ∀ (ds : List (Pid × Ans)) (D : Nat → List (Pid × Ans)) (g : G),
      FI N links ss D g → D (rkeyOf (.node n 0)) = ds →
      FI N links ss (updD D (rkeyOf (.node n 0)) []) (route g n (ds.map (fun x => Ev.reply 0 x.2))) := by
  intro ds
  induction ds with
  | nil =>
    intro D g h hD
    simp only [List.map_nil, route]
    rw [← hD, updD_self]; exact h
  | cons d ds ih =>
    intro D g h hD
    obtain ⟨c, a⟩ := d
    simp only [List.map_cons, route]
    have h1 := FI_gReply N links hwf ss D g (.node n 0) c a ds h ⟨rfl, hn1000⟩ hD
    have h2 := ih (updD D (rkeyOf (.node n 0)) ds) _ h1 (by simp [updD])
    rw [updD_updD] at h2
    exact h2

/-! ### helpers for changing one node -/

theorem getNode_set (g : G) (n0 : Nat) (nd0 nd' : Node) (hn : getNode g.nodes n0 = some nd0) (n : Nat) :
    getNode (setNode g.nodes n0 nd') n = if n = n0 then some nd' else getNode g.nodes n :=
  getNode_setNode g.nodes n0 n nd' (by rw [hn]; rfl)

theorem rel_upd (g : G) (ss : Nat → S) (n0 : Nat) (nd0 nd' : Node) (s' : S) (nx' : Nat)
    (hrel : ∀ n nd, getNode g.nodes n = some nd → Rel (ss n) nd g.next)
    (hn : getNode g.nodes n0 = some nd0) (hr : Rel s' nd' nx') (hle : g.next ≤ nx') :
    ∀ n nd, getNode (setNode g.nodes n0 nd') n = some nd → Rel (upd ss n0 s' n) nd nx' := by
  intro n nd hg
  rw [getNode_set g n0 nd0 nd' hn] at hg
  by_cases e : n = n0
  · simp only [e, if_true, Option.some.injEq] at hg; subst hg; simp only [upd, e, if_true]; exact hr
  · simp only [e, if_false] at hg
    simp only [upd, e, if_false]
    exact NodeSpec.rel_mono _ _ _ _ (hrel n nd hg) hle

theorem nodesLen_set (g : G) (N n0 : Nat) (nd0 nd' : Node) (hn : getNode g.nodes n0 = some nd0)
    (hl : ∀ n, (getNode g.nodes n).isSome = true ↔ n < N) :
    ∀ n, (getNode (setNode g.nodes n0 nd') n).isSome = true ↔ n < N := by
  intro n
  rw [getNode_set g n0 nd0 nd' hn]
  by_cases e : n = n0
  · simp only [e, if_true, Option.isSome_some, true_iff]; exact (hl n0).mp (by rw [hn]; rfl)
  · simp only [e, if_false]; exact hl n

def heldOf (s : S) : List Pid := s.reqs.map (·.p) ++ curRead s.cur ++ s.inbox.map (·.id)

theorem heldAt_upd (ss : Nat → S) (sk : List (Nat × List (Pid × Val))) (n0 : Nat) (s' : S) (t : Tgt) :
    heldAt (upd ss n0 s') sk t =
      match t with
      | .node m _ => if m = n0 then heldOf s' else heldAt ss sk t
      | .sink _ => heldAt ss sk t := by
  cases t with
  | node m port => simp only [heldAt, upd, heldOf]; split <;> rfl
  | sink k => rfl

theorem heldD_upd_same (D : Nat → List (Pid × Ans)) (ss : Nat → S) (sk : List (Nat × List (Pid × Val))) (n0 : Nat) (s' : S)
    (hs : heldOf s' = heldOf (ss n0)) (t : Tgt) : heldD D (upd ss n0 s') sk t = heldD D ss sk t := by
  simp only [heldD, heldAt_upd]
  cases t with
  | node m port =>
    simp only
    by_cases e : m = n0
    · subst e; simp only [if_true, heldAt]; rw [hs]; rfl
    · simp only [e, if_false]
  | sink k => rfl

/-- the ids of a node that must stay unlogged -/
def curUnl : Cur → List Pid
  | .idle => []
  | .inAction p => [p.id]
  | .toLink _ q _ => [q.id]
  | .linked _ q _ => [q.id]

def unlIds (s : S) : List Pid := curUnl s.cur ++ s.inbox.map (·.id)

theorem heldOf_sub_allIds (s : S) : ∀ x ∈ heldOf s, x ∈ allIds s := by
  intro x hx
  simp only [heldOf, List.mem_append, List.mem_map] at hx
  simp only [allIds, List.mem_append, List.mem_map]
  rcases hx with (⟨r, hr, e⟩ | hx) | hx
  · left; left
    simp only [NodeSpec.idsL, List.mem_flatMap]
    exact ⟨r, hr, e ▸ NodeSpec.p_mem_idsE r⟩
  · left; right
    cases hc : s.cur <;> simp_all [curRead, NodeSpec.idsC]
  · right; exact hx

theorem unlIds_sub_allIds (s : S) : ∀ x ∈ unlIds s, x ∈ allIds s := by
  intro x hx
  simp only [unlIds, List.mem_append, List.mem_map] at hx
  simp only [allIds, List.mem_append, List.mem_map]
  rcases hx with hx | hx
  · left; right
    cases hc : s.cur <;> simp_all [curUnl, NodeSpec.idsC]
  · right; exact hx

theorem curOK_ext (lg lg' : Log) (k : Pid) (hx : LogExt lg lg' k) (n : Nat) (c : Cur)
    (hown : ∀ id ∈ curUnl c, aget lg'.owner id = aget lg.owner id)
    (hk : k ∉ curUnl c) (h : CurOK lg n c) : CurOK lg' n c := by
  cases c with
  | idle => trivial
  | inAction p =>
    simp only [CurOK, curUnl, List.mem_singleton] at h hk ⊢
    exact unlogged_ext lg lg' k hx p.id (fun e => hk e.symm) h
  | toLink p q w =>
    simp only [CurOK, curUnl, List.mem_singleton] at h hk hown ⊢
    exact ⟨reqlogged_ext lg lg' k hx _ _ h.1, unlogged_ext lg lg' k hx q.id (fun e => hk e.symm) h.2.1, h.2.2.1,
      by rw [hown q.id rfl]; exact h.2.2.2⟩
  | linked p q w =>
    simp only [CurOK, curUnl, List.mem_singleton] at h hk hown ⊢
    exact ⟨reqlogged_ext lg lg' k hx _ _ h.1, unlogged_ext lg lg' k hx q.id (fun e => hk e.symm) h.2.1, h.2.2.1,
      by rw [hown q.id rfl]; exact h.2.2.2⟩

theorem reqOK_ext (lg lg' : Log) (k : Pid) (hx : LogExt lg lg' k) (r : EReq) (h : ReqOK lg r) : ReqOK lg' r := by
  obtain ⟨p, st⟩ := r
  cases st with
  | done a => exact ra_ext lg lg' k hx p a h
  | written q w => exact ⟨reqlogged_ext lg lg' k hx _ _ h.1, h.2⟩

/-- one node changes (same held requests, same outstanding writes), the log is extended at `k` -/
theorem FI_node_log (N : Nat) (links : List (Nat × List Tgt)) (ss : Nat → S) (D : Nat → List (Pid × Ans)) (g : G)
    (h : FI N links ss D g) (n0 : Nat) (nd0 nd' : Node) (s' : S) (lg' : Log) (nx' : Nat) (k : Pid)
    (hn0 : getNode g.nodes n0 = some nd0) (hr : Rel s' nd' nx') (hle : g.next ≤ nx')
    (hheld : heldOf s' = heldOf (ss n0)) (hw : ∀ w, writesOf s'.reqs w = writesOf (ss n0).reqs w)
    (hx : LogExt g.log lg' k) (hown : ∀ id, id < g.next → aget lg'.owner id = aget g.log.owner id)
    (hlb : ∀ id, nx' ≤ id → Unlogged lg' id)
    (hsepN : ∀ m, m ≠ n0 → k ∉ unlIds (ss m)) (hsepS : ∀ j, k ∉ (getL g.sinks j).map (·.1))
    (hreq : ∀ r ∈ s'.reqs, ReqOK lg' r) (hcur : CurOK lg' n0 s'.cur) (hinb : ∀ p ∈ s'.inbox, Unlogged lg' p.id)
    (hordk : OrdAt lg' k nx') :
    FI N links (upd ss n0 s') D { g with nodes := setNode g.nodes n0 nd', log := lg', next := nx' } := by
  have hn0N : n0 < N := (h.nodesLen n0).mp (by rw [hn0]; rfl)
  have hbound : ∀ m nd, getNode g.nodes m = some nd → ∀ x ∈ allIds (ss m), x < g.next :=
    fun m nd hm => (h.rel m nd hm).bound
  have hbm : ∀ m, ∀ x ∈ allIds (ss m), x < g.next := by
    intro m x hx'
    by_cases hm : m < N
    · cases hg : getNode g.nodes m with
      | none => have := (h.nodesLen m).mpr hm; rw [hg] at this; cases this
      | some nd => exact hbound m nd hg x hx'
    · rw [h.dflt m (Nat.le_of_not_lt hm)] at hx'; simp [allIds, NodeSpec.idsL, NodeSpec.idsC] at hx'
  have hheldD : ∀ t, heldD D (upd ss n0 s') g.sinks t = heldD D ss g.sinks t :=
    fun t => heldD_upd_same D ss g.sinks n0 s' hheld t
  refine { glinks := h.glinks, nodesLen := nodesLen_set g N n0 nd0 nd' hn0 h.nodesLen,
           rel := rel_upd g ss n0 nd0 nd' s' nx' h.rel hn0 hr hle, dflt := ?_, reqsOK := ?_, curOK := ?_,
           inboxOK := ?_, ownNode := ?_, sinkOK := ?_, debtOK := ?_, wkN := ?_, wkS := ?_, respOK := ?_,
           nofeed := ?_, logBound := hlb, rootsB := fun r hr' => Nat.lt_of_lt_of_le (h.rootsB r hr') hle,
           wq0 := h.wq0, logOrd := logOrd_ext g.log lg' k g.next nx' h.logOrd hx hle hordk }
  · intro n hn
    have : n ≠ n0 := by omega
    simp only [upd, this, if_false]; exact h.dflt n hn
  · intro n r hr'
    by_cases e : n = n0
    · simp only [upd, e, if_true] at hr'; exact hreq r hr'
    · simp only [upd, e, if_false] at hr'; exact reqOK_ext g.log lg' k hx r (h.reqsOK n r hr')
  · intro n
    by_cases e : n = n0
    · simp only [upd, e, if_true]; exact e ▸ hcur
    · simp only [upd, e, if_false]
      apply curOK_ext g.log lg' k hx n _ _ _ (h.curOK n)
      · intro id hid
        exact hown id (hbm n id (unlIds_sub_allIds _ id (by simp [unlIds, hid])))
      · intro hk; exact hsepN n e (by simp [unlIds, hk])
  · intro n p hp
    by_cases e : n = n0
    · simp only [upd, e, if_true] at hp; exact hinb p hp
    · simp only [upd, e, if_false] at hp
      exact unlogged_ext g.log lg' k hx p.id
        (fun e2 => hsepN n e (by simp only [unlIds, List.mem_append, List.mem_map]; right; exact ⟨p, hp, e2⟩))
        (h.inboxOK n p hp)
  · intro n id hid
    have hid' : id ∈ heldAt ss g.sinks (.node n 0) := by
      rw [heldAt_upd] at hid
      by_cases e : n = n0
      · simp only [e, if_true] at hid; rw [hheld] at hid; rw [e]; exact hid
      · simp only [e, if_false] at hid; exact hid
    have hlt : id < g.next := hbm n id (heldOf_sub_allIds _ id hid')
    simp only; rw [hown id hlt]; exact h.ownNode n id hid'
  · intro j
    obtain ⟨h1, h2⟩ := h.sinkOK j
    refine ⟨h1, ?_⟩
    intro c hc
    obtain ⟨u1, u2, u3⟩ := h2 c hc
    exact ⟨unlogged_ext g.log lg' k hx c (fun e => hsepS j (e ▸ hc)) u1, Nat.lt_of_lt_of_le u2 hle,
      by simp only; rw [hown c u2]; exact u3⟩
  · intro rk x hx'; exact ra_ext g.log lg' k hx x.1 x.2 (h.debtOK rk x hx')
  · intro n w t hn hw' hl
    simp only [hheldD]
    have hwo : writesOf (upd ss n0 s' n).reqs w = writesOf (ss n).reqs w := by
      by_cases e : n = n0
      · simp only [upd, e, if_true]; exact hw w
      · simp only [upd, e, if_false]
    rw [hwo]
    exact wk_ext g.log lg' k hx _ _ _ _ _ (h.wkN n w t hn hw' hl)
  · intro t hl
    simp only [hheldD]
    exact ⟨wk_ext g.log lg' k hx _ _ _ _ _ (h.wkS t hl).1, (h.wkS t hl).2⟩
  · exact ⟨h.respOK.1, all2_mono _ _ (fun p a => ra_ext g.log lg' k hx p a) _ _ h.respOK.2⟩
  · intro t htok hno; simp only [hheldD]; exact h.nofeed t htok hno

def D0 : Nat → List (Pid × Ans) := fun _ => []

/-- `FI` reads only these fields of the state -/
theorem FI_congr (N : Nat) (links : List (Nat × List Tgt)) (ss : Nat → S) (D : Nat → List (Pid × Ans)) (g g' : G)
    (h : FI N links ss D g) (e1 : g'.links = g.links) (e2 : g'.nodes = g.nodes) (e3 : g'.next = g.next)
    (e4 : g'.log = g.log) (e5 : g'.sinks = g.sinks) (e6 : g'.writers = g.writers) (e7 : g'.fifo = g.fifo)
    (e8 : g'.roots = g.roots) (e9 : g'.resp = g.resp) : FI N links ss D g' := by
  obtain ⟨a1, a2, a3, a4, a5, a6, a7, a8, a9, a10, a11, a12, a13, a14, a15, a16, a17, a18⟩ := h
  constructor
  · rw [e1]; exact a1
  · rw [e2]; exact a2
  · rw [e2, e3]; exact a3
  · exact a4
  · rw [e4]; exact a5
  · rw [e4]; exact a6
  · rw [e4]; exact a7
  · rw [e4, e5]; exact a8
  · rw [e4, e5, e3]; exact a9
  · rw [e4]; exact a10
  · rw [e4, e5, e6, e7]; exact a11
  · rw [e4, e5, e6, e7, e8, e9]; exact a12
  · rw [e4, e8, e9]; exact a13
  · rw [e5]; exact a14
  · rw [e4, e3]; exact a15
  · rw [e3, e8]; exact a16
  · rw [e6]; exact a17
  · rw [e4, e3]; exact a18

theorem live_lt (N : Nat) (links : List (Nat × List Tgt)) (ss : Nat → S) (D : Nat → List (Pid × Ans)) (g : G)
    (h : FI N links ss D g) (m : Nat) : ∀ x ∈ allIds (ss m), x < g.next := by
  intro x hx
  by_cases hm : m < N
  · cases hg : getNode g.nodes m with
    | none => have := (h.nodesLen m).mpr hm; rw [hg] at this; cases this
    | some nd => exact (h.rel m nd hg).bound x hx
  · rw [h.dflt m (Nat.le_of_not_lt hm)] at hx; simp [allIds, NodeSpec.idsL, NodeSpec.idsC] at hx

/-- the owner tag of an id that must stay unlogged in node `m` -/
theorem unl_tag (N : Nat) (links : List (Nat × List Tgt)) (ss : Nat → S) (D : Nat → List (Pid × Ans)) (g : G)
    (h : FI N links ss D g) (m : Nat) (x : Pid) (hx : x ∈ unlIds (ss m)) :
    aget g.log.owner x = some (m * 64) ∨ aget g.log.owner x = some (m * 64 + 63) := by
  simp only [unlIds, List.mem_append, List.mem_map] at hx
  have hrk : rkeyOf (.node m 0) = m * 64 := by simp [rkeyOf]
  rcases hx with hx | ⟨p, hp, e⟩
  · have hc := h.curOK m
    cases hcur : (ss m).cur with
    | idle => rw [hcur] at hx; simp [curUnl] at hx
    | inAction p =>
      rw [hcur] at hx; simp only [curUnl, List.mem_singleton] at hx
      left; rw [← hrk]
      exact h.ownNode m x (by simp [heldAt, hcur, curRead, hx])
    | toLink p q w =>
      rw [hcur] at hx hc; simp only [curUnl, List.mem_singleton] at hx
      right; rw [hx]; simpa [CurOK, qTag] using hc.2.2.2
    | linked p q w =>
      rw [hcur] at hx hc; simp only [curUnl, List.mem_singleton] at hx
      right; rw [hx]; simpa [CurOK, qTag] using hc.2.2.2
  · left; rw [← hrk]
    exact h.ownNode m x (by simp only [heldAt, List.mem_append, List.mem_map]; right; exact ⟨p, hp, e⟩)

/-- an id with a different owner tag is not among the unlogged ids of node `m` -/
theorem sep_node (N : Nat) (links : List (Nat × List Tgt)) (ss : Nat → S) (D : Nat → List (Pid × Ans)) (g : G)
    (h : FI N links ss D g) (k : Pid) (τ : Nat) (hk : aget g.log.owner k = some τ) (m : Nat)
    (h1 : τ ≠ m * 64) (h2 : τ ≠ m * 64 + 63) : k ∉ unlIds (ss m) := by
  intro hm
  rcases unl_tag N links ss D g h m k hm with e | e
  · rw [hk] at e; exact h1 (Option.some.inj e)
  · rw [hk] at e; exact h2 (Option.some.inj e)

theorem sep_sink (N : Nat) (links : List (Nat × List Tgt)) (ss : Nat → S) (D : Nat → List (Pid × Ans)) (g : G)
    (h : FI N links ss D g) (k : Pid) (τ : Nat) (hk : aget g.log.owner k = some τ) (j : Nat)
    (h1 : τ ≠ (2000 + j) * 64) : k ∉ (getL g.sinks j).map (·.1) := by
  intro hm
  have := ((h.sinkOK j).2 k hm).2.2
  rw [hk] at this
  exact h1 (by simpa [rkeyOf] using Option.some.inj this)

theorem sep_fresh_node (N : Nat) (links : List (Nat × List Tgt)) (ss : Nat → S) (D : Nat → List (Pid × Ans)) (g : G)
    (h : FI N links ss D g) (k : Pid) (hk : g.next ≤ k) (m : Nat) : k ∉ unlIds (ss m) := by
  intro hm
  exact absurd (Nat.lt_of_lt_of_le (live_lt N links ss D g h m k (unlIds_sub_allIds _ k hm)) hk) (Nat.lt_irrefl _)

theorem sep_fresh_sink (N : Nat) (links : List (Nat × List Tgt)) (ss : Nat → S) (D : Nat → List (Pid × Ans)) (g : G)
    (h : FI N links ss D g) (k : Pid) (hk : g.next ≤ k) (j : Nat) : k ∉ (getL g.sinks j).map (·.1) := by
  intro hm
  exact absurd (Nat.lt_of_lt_of_le ((h.sinkOK j).2 k hm).2.1 hk) (Nat.lt_irrefl _)

theorem logExt_refl (lg : Log) (k : Pid) (h : Unlogged lg k) : LogExt lg lg k :=
  ⟨h, fun _ _ => ⟨rfl, rfl, rfl, rfl⟩⟩

end Uniflow.FlowInv
