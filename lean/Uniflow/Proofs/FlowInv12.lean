/-
C02, joint model, part 12 of the invariant proof: every internal step of `settle` preserves the invariant.
-/
import Uniflow.Proofs.FlowInv11

namespace Uniflow.FlowInv
open Uniflow.Tracer Uniflow.Node Uniflow.Flow
open Uniflow.NodeSpec (S EReq ESt Cur Rel curRead writesOf allIds flushS flushT markDone)
open Uniflow.ATracer (getL_setOrDel getL_aset)

/-- the invariant, with the ghost state hidden -/
def FIe (N : Nat) (links : List (Nat × List Tgt)) (g : G) : Prop := ∃ ss, FI N links ss D0 g

theorem push_node (s : S) (ndm : Node) (c : Nat) (v : Val) (hr : Rel s ndm c) :
    ∃ ndm', Node.step ndm (.deliver 0 ⟨c, v⟩) = some (ndm', []) ∧
      Rel { s with inbox := s.inbox ++ [⟨c, v⟩] } ndm' (c + 1) := by
  rcases NodeSpec.sim_deliver s ndm c v hr with ⟨_, h2⟩ | ⟨n2, s2, ev2, h1, h2, h3⟩
  · simp [NodeSpec.step] at h2
  · simp only [NodeSpec.step, Option.some.injEq, Prod.mk.injEq] at h2
    obtain ⟨e1, e2⟩ := h2
    subst e1; subst e2
    exact ⟨n2, h1, h3⟩

theorem tgtOK_link (N : Nat) (links : List (Nat × List Tgt)) (hwf : TreeWF N links) (key : Nat) (t : Tgt)
    (hl : getL links key = [t]) : TgtOK t := by
  cases t with
  | sink _ => trivial
  | node m port =>
    obtain ⟨a1, a2⟩ := hwf.tnode key m port (by rw [hl]; simp)
    exact ⟨a2, Nat.lt_of_lt_of_le a1 hwf.small⟩

theorem FIe_threadStep (N : Nat) (links : List (Nat × List Tgt)) (hwf : TreeWF N links) (g g' : G) (n : Nat) (nd : Node)
    (i : Nat) (h : FIe N links g) (hn : getNode g.nodes n = some nd) (hs : threadStep g n nd i = some g') :
    FIe N links g' := by
  obtain ⟨ss, h⟩ := h
  have hrel := h.rel n nd hn
  have hnN : n < N := (h.nodesLen n).mp (by rw [hn]; rfl)
  cases hth : getThread nd.threads i with
  | none => simp [threadStep, hth] at hs
  | some th =>
    obtain ⟨e1, e2⟩ := rel_thread (ss n) nd g.next hrel i th hth
    subst e1; subst e2
    cases hc : (ss n).cur with
    | idle =>
      rw [hc] at hth
      simp only [NodeSpec.pcOf] at hth
      cases hi : (ss n).inbox with
      | nil => rw [hi] at hth; simp [threadStep, hth] at hs
      | cons p rest =>
        rw [hi] at hth
        simp only [threadStep, hth] at hs
        cases hst : Node.step nd (.read 0) with
        | none => simp [hst] at hs
        | some r =>
          obtain ⟨nd', ev⟩ := r
          obtain ⟨s', hs1, hs2⟩ := sim_some (ss n) nd nd' (.read 0) g.next ev (NodeSpec.sim_read (ss n) nd g.next hrel) hst
          simp only [NodeSpec.step, hc, hi, Option.some.injEq, Prod.mk.injEq] at hs1
          obtain ⟨e1, e2⟩ := hs1
          subst e1; subst e2
          have key := FI_read N links ss g h n nd nd' p rest hn hc hi hst hs2
          simp only [hst, putNode, route] at hs
          split at hs
          · simp only [Option.some.injEq] at hs; subst hs
            exact ⟨_, FI_congr N links _ D0 _ _ key rfl rfl rfl rfl rfl rfl rfl rfl rfl⟩
          · simp only [Option.some.injEq] at hs; subst hs
            exact ⟨_, key⟩
    | inAction p =>
      rw [hc] at hth
      simp only [NodeSpec.pcOf] at hth
      simp [threadStep, hth] at hs
    | toLink p q w =>
      rw [hc] at hth
      simp only [NodeSpec.pcOf] at hth
      simp only [threadStep, hth] at hs
      cases hst : Node.step nd (.op 0 false) with
      | none => simp [hst] at hs
      | some r =>
        obtain ⟨nd', ev⟩ := r
        obtain ⟨s', hs1, hs2⟩ := sim_some (ss n) nd nd' (.op 0 false) g.next ev (NodeSpec.sim_op (ss n) nd g.next false hrel) hst
        simp only [NodeSpec.step, hc, Option.some.injEq, Prod.mk.injEq] at hs1
        obtain ⟨e1, e2⟩ := hs1
        subst e1; subst e2
        have key := FI_link N links ss g h n nd nd' p q w hn hc hs2
        simp only [hst, putNode, route, Option.some.injEq] at hs
        subst hs
        exact ⟨_, key⟩
    | linked p q w =>
      rw [hc] at hth
      simp only [NodeSpec.pcOf] at hth
      simp only [threadStep, hth] at hs
      have hgl : g.links = links := h.glinks
      cases hl : getL links (wkey n w) with
      | nil =>
        rw [gWrite_none g _ _ _ (by rw [hgl]; exact hl)] at hs
        simp only [Bool.false_eq_true, if_false] at hs
        have e : getNode (logEcho g q).nodes n = some nd := hn
        simp only [e] at hs
        cases hst : Node.step nd (.op 0 false) with
        | none => simp [hst] at hs
        | some r =>
          obtain ⟨nd', ev⟩ := r
          obtain ⟨s', hs1, hs2⟩ := sim_some (ss n) nd nd' (.op 0 false) g.next ev (NodeSpec.sim_op (ss n) nd g.next false hrel) hst
          simp only [NodeSpec.step, hc, Bool.false_eq_true, if_false, Option.some.injEq, Prod.mk.injEq] at hs1
          obtain ⟨e1, e2⟩ := hs1
          subst e1; subst e2
          have key := FI_write_rej N links hwf ss g h n nd nd' p q w hn hc hs2
          simp only [hst, Option.some.injEq] at hs
          subst hs
          exact ⟨_, key⟩
      | cons t ts =>
        have hl1 := links_single N links hwf (wkey n w) t (by rw [hl]; simp)
        have htok := tgtOK_link N links hwf _ t hl1
        have hco := h.curOK n
        rw [hc] at hco
        have hw2 : w < 2 := hco.2.2.1
        cases t with
        | sink k =>
          rw [gWrite_sink g _ _ _ k (by rw [hgl]; exact hl1) hco.2.1.2.1] at hs
          simp only [if_true, hn] at hs
          cases hst : Node.step nd (.op 0 true) with
          | none => simp [hst] at hs
          | some r =>
            obtain ⟨nd', ev⟩ := r
            obtain ⟨s', hs1, hs2⟩ := sim_some (ss n) nd nd' (.op 0 true) g.next ev (NodeSpec.sim_op (ss n) nd g.next true hrel) hst
            simp only [NodeSpec.step, hc, if_true, Option.some.injEq, Prod.mk.injEq] at hs1
            obtain ⟨e1, e2⟩ := hs1
            subst e1; subst e2
            have key := FI_write_acc N links hwf ss ss g h n nd nd' p q w (.sink k) hl1 htok hc g.nodes _
              ⟨rfl, rfl, rfl⟩ hn (fun hf => hf) (NodeSpec.rel_mono _ _ _ _ hs2 (Nat.le_succ _))
            simp only [hst, putNode, route, Option.some.injEq] at hs
            subst hs
            exact ⟨_, FI_congr N links _ D0 _ _ key rfl rfl rfl rfl rfl rfl rfl rfl rfl⟩
        | node m port =>
          obtain ⟨hmN, hp0⟩ := hwf.tnode (wkey n w) m port (by rw [hl1]; simp)
          subst hp0
          have hnm : n < m := hwf.fwd n w m 0 hnN hw2 (by rw [hl1]; simp)
          have hne : n ≠ m := Nat.ne_of_lt hnm
          cases hm : getNode g.nodes m with
          | none => have := (h.nodesLen m).mpr hmN; rw [hm] at this; cases this
          | some ndm =>
            obtain ⟨ndm', hpst, hprel⟩ := push_node (ss m) ndm g.next q.pay (h.rel m ndm hm)
            rw [gWrite_node g _ _ _ m 0 ndm ndm' [] (by rw [hgl]; exact hl1) hm hpst hco.2.1.2.1] at hs
            have hn1 : getNode (setNode g.nodes m ndm') n = some nd := by
              rw [getNode_set g m ndm ndm' hm n]; simp only [hne, if_false]; exact hn
            simp only [if_true, hn1] at hs
            cases hst : Node.step nd (.op 0 true) with
            | none => simp [hst] at hs
            | some r =>
              obtain ⟨nd', ev⟩ := r
              obtain ⟨s', hs1, hs2⟩ := sim_some (ss n) nd nd' (.op 0 true) g.next ev (NodeSpec.sim_op (ss n) nd g.next true hrel) hst
              simp only [NodeSpec.step, hc, if_true, Option.some.injEq, Prod.mk.injEq] at hs1
              obtain ⟨e1, e2⟩ := hs1
              subst e1; subst e2
              have key := FI_write_acc N links hwf ss _ g h n nd nd' p q w (.node m 0) hl1 htok hc _ _
                ⟨ndm, ndm', hm, hprel, rfl, rfl, rfl⟩ hn1 hne (NodeSpec.rel_mono _ _ _ _ hs2 (Nat.le_succ _))
              simp only [hst, putNode, route, Option.some.injEq] at hs
              subst hs
              exact ⟨_, FI_congr N links _ D0 _ _ key rfl rfl rfl rfl rfl rfl rfl rfl rfl⟩

theorem FIe_backStep (N : Nat) (links : List (Nat × List Tgt)) (hwf : TreeWF N links) (g g' : G) (n : Nat) (nd : Node)
    (w : Nat) (hw8 : w < maxW) (h : FIe N links g) (hn : getNode g.nodes n = some nd)
    (hs : backStep g n nd w = some g') : FIe N links g' := by
  obtain ⟨ss, h⟩ := h
  have hrel := h.rel n nd hn
  have hnN : n < N := (h.nodesLen n).mp (by rw [hn]; rfl)
  simp only [backStep, getWriter_eq] at hs
  cases hq : (gw g.writers (wkey n w)).queue with
  | nil => simp [hq] at hs
  | cons a rest =>
    simp only [hq] at hs
    cases hl : getL links (wkey n w) with
    | nil => have := h.wq0 _ hl; rw [hq] at this; cases this
    | cons t ts =>
      have hl1 := links_single N links hwf (wkey n w) t (by rw [hl]; simp)
      have hw2 : w < 2 := by
        rcases hwf.keys (wkey n w) (by rw [hl]; simp) with e | ⟨n', w', h1, h2, e⟩
        · have := hwf.small; simp only [wkey, srcKey, srcNode, maxW] at e hw8; omega
        · simp only [wkey, maxW] at e hw8; omega
      have hwk0 := h.wkN n w t hnN hw2 hl1
      obtain ⟨q0, pend', e1, hra, hwk1⟩ := wk_consume _ _ _ _ _ _ a rest hwk0 hq
      cases hm : markDone w a (ss n).reqs with
      | none => rw [NodeSpec.markDone_none w a _ hm] at e1; cases e1
      | some rs1 =>
        cases hst : Node.step nd (.answer w a) with
        | none =>
          rcases NodeSpec.sim_answer (ss n) nd g.next w a hrel with ⟨_, h2⟩ | ⟨n2, s2, ev2, h1, _, _⟩
          · simp [NodeSpec.step, hm] at h2
          · rw [hst] at h1; cases h1
        | some r =>
          obtain ⟨nd', ev⟩ := r
          obtain ⟨s', hs1, hs2⟩ := sim_some (ss n) nd nd' (.answer w a) g.next ev (NodeSpec.sim_answer (ss n) nd g.next w a hrel) hst
          simp only [NodeSpec.step, hm, Option.some.injEq, Prod.mk.injEq] at hs1
          obtain ⟨e1, e2⟩ := hs1
          subst e1; subst e2
          have key := FI_answer N links hwf ss g h n nd nd' w t a rest rs1 hn hw2 hl1 hq hm hs2
          simp only [hst, Option.some.injEq] at hs
          subst hs
          exact ⟨_, key⟩

theorem FIe_settle (N : Nat) (links : List (Nat × List Tgt)) (hwf : TreeWF N links) (fuel : Nat) (g : G)
    (h : FIe N links g) : FIe N links (settle fuel g) := by
  apply settle_inv (FIe N links) _ _ fuel g h
  · intro g g' hg hs
    obtain ⟨n, nd, hn, ⟨i, hi⟩ | ⟨w, hw, hb⟩⟩ := settleStep_cases' g g' hs
    · exact FIe_threadStep N links hwf g g' n nd i hg hn hi
    · exact FIe_backStep N links hwf g g' n nd w hw hg hn hb
  · intro g ⟨ss, hg⟩
    exact ⟨ss, FI_congr N links ss D0 g _ hg rfl rfl rfl rfl rfl rfl rfl rfl rfl⟩

end Uniflow.FlowInv
