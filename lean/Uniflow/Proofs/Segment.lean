/-
Helper lemmas for Props/C12.lean: the id order of the primary tree is an invariant of every store operation, and a
rejected `segment.Store` leaves the state untouched. Core Lean only.
-/
import Uniflow.Proofs.StoreOps

namespace Uniflow.Index
open Uniflow.Value Uniflow.Store Uniflow.Plan Uniflow.Query

/-! ### every operation keeps the primary tree ascending -/

theorem Asc_segStore {s : State} (d : PList) (h : Asc s.docs) : Asc (segStore s d).1.docs := by
  unfold segStore
  simp only
  split
  · exact h
  · split
    · exact h
    · split
      · exact h
      · exact Asc_putDoc _ _ h

theorem Asc_segSwap {s : State} (d : PList) (h : Asc s.docs) : Asc (segSwap s d).1.docs := by
  unfold segSwap
  simp only
  split
  · exact h
  · split
    · exact h
    · split
      · exact h
      · exact Asc_putDoc _ _ h

theorem Asc_segDelete {s : State} (id : Val) (h : Asc s.docs) : Asc (segDelete s id).1.docs := by
  unfold segDelete
  split
  · exact h
  · exact Asc_delDoc _ h

theorem Asc_storeInsert : ∀ (ds : List PList) {s : State}, Asc s.docs → Asc (storeInsert s ds).1.docs
  | [], _, h => h
  | d :: ds, s, h => by
    have h1 := Asc_segStore d h
    simp only [storeInsert]
    split
    · next s' heq => rw [heq] at h1; exact Asc_storeInsert ds h1
    · exact h1

theorem Asc_swapAll : ∀ (ds : List PList) {s : State}, Asc s.docs → Asc (swapAll s ds).1.docs
  | [], _, h => h
  | d :: ds, s, h => by
    have h1 := Asc_segSwap d h
    simp only [swapAll]
    split
    · next s' heq => rw [heq] at h1; exact Asc_swapAll ds h1
    · exact h1

theorem Asc_deleteAll : ∀ (ds : List PList) {s : State}, Asc s.docs → Asc (deleteAll s ds).1.docs
  | [], _, h => h
  | d :: ds, s, h => by
    have h1 := Asc_segDelete (mget d keyId) h
    simp only [deleteAll]
    split
    · next s' heq => rw [heq] at h1; exact Asc_deleteAll ds h1
    · exact h1

theorem liftN_state (m : Mut) (n : Nat) : (liftN m n).1 = m.1 := by
  unfold liftN
  split <;> rfl

theorem Asc_storeUpdate {s : State} (f : Option Val) (u : PList) (up : Bool) (h : Asc s.docs) :
    Asc (storeUpdate s f u up).1.docs := by
  unfold storeUpdate
  repeat' split
  all_goals first
    | exact h
    | (rw [liftN_state]; first | exact Asc_segStore _ h | exact Asc_swapAll _ h)

theorem Asc_storeDelete {s : State} (f : Option Val) (h : Asc s.docs) : Asc (storeDelete s f).1.docs := by
  unfold storeDelete
  split
  · exact h
  · exact h
  · rw [liftN_state]; exact Asc_deleteAll _ h

theorem Asc_step {s : State} (op : Op) (h : Asc s.docs) : Asc (step s op).1.docs := by
  cases op with
  | insert ds => exact Asc_storeInsert ds h
  | update f u up => exact Asc_storeUpdate f u up h
  | delete f => exact Asc_storeDelete f h
  | find f sort skip limit => simp only [step]; split <;> exact h
  | index keys unique f =>
    simp only [step, storeIndex]
    split <;> exact h
  | unindex keys => exact h

theorem Asc_run : ∀ (ops : List Op) {s : State}, Asc s.docs → Asc (run s ops).docs
  | [], _, h => h
  | op :: ops, _, h => Asc_run ops (Asc_step op h)

end Uniflow.Index

namespace Uniflow.Index
open Uniflow.Value Uniflow.Store Uniflow.Plan Uniflow.Query

/-! ### a rejected `segment.Store` / `segment.Swap` changes nothing (in a consistent state) -/

/-- every leaf of every index names a stored document and carries that document's key tuple -/
def EntriesExact (s : State) : Prop :=
  ∀ idx ∈ s.indexes, ∀ e ∈ idx.entries, ∃ d, getDoc s.docs e.2 = some d ∧ tupCmp e.1 (idx.tuple d) = 0

/-- every stored document carries its own id (the key it is stored under) -/
def StoredIds (s : State) : Prop :=
  ∀ id d, getDoc s.docs id = some d → isNil (mget d keyId) = false ∧ cmp (mget d keyId) id = 0

theorem index_err {idx : Index} {doc : PList} {r : Res Index} (h : index idx doc = r) (hr : ∀ i, r ≠ .ok i) :
    isNil (mget doc keyId) = true ∨
      (idx.unique = true ∧ idx.admits doc = true ∧ ∃ e ∈ idx.entries, tupCmp e.1 (idx.tuple doc) = 0) := by
  unfold index at h
  simp only at h
  split at h
  · next hn => exact Or.inl hn
  · split at h
    · exact absurd h.symm (hr _)
    · next ha =>
      split at h
      · exact absurd h.symm (hr _)
      · split at h
        · next hu =>
          simp only [Bool.and_eq_true, List.any_eq_true, decide_eq_true_eq] at hu
          exact Or.inr ⟨hu.1, by simpa using ha, hu.2⟩
        · exact absurd h.symm (hr _)

theorem conflict_none {idx : Index} {doc : PList} (h : conflict idx doc = none) (hu : idx.unique = true)
    (ha : idx.admits doc = true) : ∀ e ∈ idx.entries, tupCmp e.1 (idx.tuple doc) = 0 → cmp e.2 (mget doc keyId) = 0 := by
  unfold conflict at h
  simp only [hu, ha, Bool.not_true, Bool.or_self, Bool.false_eq_true, if_false] at h
  split at h
  · exact absurd h (by simp)
  · next hc =>
    intro e he ht
    simp only [List.any_eq_true, Bool.and_eq_true, decide_eq_true_eq, bne_iff_ne, ne_eq, not_exists, not_and,
      Decidable.not_not] at hc
    exact hc e he ht

theorem firstConflict_none {doc : PList} : ∀ {idxs : List Index}, firstConflict doc idxs = none →
    ∀ idx ∈ idxs, conflict idx doc = none
  | [], _, _, hi => by simp at hi
  | i :: rest, h, idx, hi => by
    simp only [firstConflict] at h
    split at h
    · exact absurd h (by simp)
    · next hc =>
      rcases List.mem_cons.mp hi with rfl | hi
      · exact hc
      · exact firstConflict_none h idx hi

theorem mapIdx_fail {f : Index → Res Index} : ∀ {idxs r} {x : Res Unit}, mapIdx f idxs = (r, some x) →
    ∃ idx ∈ idxs, ∀ i, f idx ≠ .ok i
  | [], r, x, h => by simp [mapIdx] at h
  | i :: rest, r, x, h => by
    simp only [mapIdx] at h
    split at h
    · next idx' hf =>
      cases hm : mapIdx f rest with
      | mk r' e' =>
        rw [hm] at h
        simp only [Prod.mk.injEq] at h
        obtain ⟨idx, hi, hn⟩ := mapIdx_fail (hm.trans (by rw [h.2]))
        exact ⟨idx, by simp [hi], hn⟩
    · next e hf => exact ⟨i, by simp, fun j => by rw [hf]; simp⟩
    · next hf => exact ⟨i, by simp, fun j => by rw [hf]; simp⟩

/-- `segment.Store`: a rejected document leaves the segment exactly as it was -/
theorem segStore_reject {s s' : State} {d : PList} {r : Res Unit} (hx : EntriesExact s)
    (h : segStore s d = (s', some r)) : s' = s := by
  unfold segStore at h
  simp only at h
  split at h
  · simp only [failE, Prod.mk.injEq] at h; exact h.1.symm
  · next hid =>
    split at h
    · simp only [failE, Prod.mk.injEq] at h; exact h.1.symm
    · next hhas =>
      split at h
      · simp only [failE, Prod.mk.injEq] at h; exact h.1.symm
      · next hfc =>
        exfalso
        cases hm : mapIdx (fun idx => index idx d) s.indexes with
        | mk idxs e =>
          rw [hm] at h
          simp only [Prod.mk.injEq] at h
          obtain ⟨idx, hi, hn⟩ := mapIdx_fail (hm.trans (by rw [h.2]))
          rcases index_err rfl hn with hnil | ⟨hu, ha, e, he, ht⟩
          · simp [hnil] at hid
          · have hc := conflict_none (firstConflict_none hfc idx hi) hu ha e he ht
            obtain ⟨d', hd', _⟩ := hx idx hi e he
            rw [getDoc_congr hc] at hd'
            simp [hd'] at hhas

end Uniflow.Index

namespace Uniflow.Index
open Uniflow.Value Uniflow.Store Uniflow.Plan Uniflow.Query

theorem cmp_zero_trans {a b c : Val} (h1 : cmp a b = 0) (h2 : cmp b c = 0) : cmp a c = 0 := by
  have t1 := C14.cmp_trans a b c; have t2 := C14.cmp_trans c b a
  have := C14.cmp_antisymm a b; have := C14.cmp_antisymm b c; have := C14.cmp_antisymm a c
  omega

theorem cmp_zero_symm {a b : Val} (h : cmp a b = 0) : cmp b a = 0 := by
  have := C14.cmp_antisymm a b; omega

theorem tupCmp_antisymm : ∀ a b : List Val, tupCmp a b = -tupCmp b a
  | [], [] => by simp [tupCmp]
  | [], _ :: _ => by simp [tupCmp]
  | _ :: _, [] => by simp [tupCmp]
  | a :: as, b :: bs => by
    simp only [tupCmp]
    rw [C14.cmp_antisymm a b, tupCmp_antisymm as bs]
    exact lexStep_neg _ _

theorem tupCmp_zero_trans : ∀ {a b c : List Val}, tupCmp a b = 0 → tupCmp b c = 0 → tupCmp a c = 0
  | [], [], [], _, _ => by simp [tupCmp]
  | [], [], _ :: _, _, h => by simp [tupCmp] at h
  | [], _ :: _, _, h, _ => by simp [tupCmp] at h
  | _ :: _, [], _, h, _ => by simp [tupCmp] at h
  | _ :: _, _ :: _, [], _, h => by simp [tupCmp] at h
  | a :: as, b :: bs, c :: cs, h1, h2 => by
    simp only [tupCmp] at h1 h2 ⊢
    rw [lexStep_zero] at h1 h2 ⊢
    exact ⟨cmp_zero_trans h1.1 h2.1, tupCmp_zero_trans h1.2 h2.2⟩

/-- the index without the leaf of `old` -/
def dropLeaf (idx : Index) (old : PList) : Index :=
  { idx with entries := idx.entries.filter fun e =>
      !(decide (tupCmp e.1 (idx.tuple old) = 0) && decide (cmp e.2 (mget old keyId) = 0)) }

theorem unindex_ok {idx : Index} {old : PList} (h : isNil (mget old keyId) = false) :
    unindex idx old = .ok (dropLeaf idx old) := by
  unfold unindex dropLeaf; simp [h]

/-- `segment.Swap`: a rejected replacement leaves the segment exactly as it was -/
theorem segSwap_reject {s s' : State} {d : PList} {r : Res Unit} (hx : EntriesExact s) (hs : StoredIds s)
    (h : segSwap s d = (s', some r)) : s' = s := by
  unfold segSwap at h
  simp only at h
  split at h
  · simp only [failE, Prod.mk.injEq] at h; exact h.1.symm
  · next hid =>
    split at h
    · simp only [failE, Prod.mk.injEq] at h; exact h.1.symm
    · next old hold =>
      split at h
      · simp only [failE, Prod.mk.injEq] at h; exact h.1.symm
      · next hfc =>
        exfalso
        cases hm : mapIdx (fun idx => (unindex idx old).bind fun idx' => index idx' d) s.indexes with
        | mk idxs e =>
          rw [hm] at h
          simp only [Prod.mk.injEq] at h
          obtain ⟨idx, hi, hn⟩ := mapIdx_fail (hm.trans (by rw [h.2]))
          obtain ⟨hon, hoid⟩ := hs _ _ hold
          rw [unindex_ok hon] at hn
          simp only [Res.bind] at hn
          rcases index_err rfl hn with hnil | ⟨hu, ha, e, he, ht⟩
          · simp [hnil] at hid
          · simp only [dropLeaf, Index.admits, Index.tuple] at hu ha he ht
            have hfc' := firstConflict_none hfc idx hi
            simp only [List.mem_filter, Bool.not_eq_true', Bool.and_eq_false_iff, decide_eq_false_iff_not] at he
            have hu' : idx.unique = true := hu
            have ha' : idx.admits d = true := ha
            have hc := conflict_none hfc' hu' ha' e he.1 ht
            obtain ⟨d', hd', hd't⟩ := hx idx hi e he.1
            rw [getDoc_congr hc, hold] at hd'
            obtain rfl := Option.some.inj hd'
            have hce : cmp e.2 (mget old keyId) = 0 := cmp_zero_trans hc (cmp_zero_symm hoid)
            rcases he.2 with h1 | h2
            · exact (of_decide_eq_false h1) hd't
            · exact h2 hce

end Uniflow.Index
