/-
C02, joint model, all node kinds, part 10: forward thread `i` of a node steps without changing what the node holds
or owes (generic wrapper), `Read` – including the many-to-one `Read` – and `Link`.
-/
import Uniflow.Proofs.FlowN9

namespace Uniflow.FlowN
open Uniflow.Tracer Uniflow.Node Uniflow.Flow Uniflow.FlowInv Uniflow.FlowG Uniflow.ATracer Uniflow.FlowH Uniflow.FlowM
open Uniflow.ATracer (getL_setOrDel getL_aset)

theorem length_eq_of_getThread : ∀ (a b : List Thread),
    (∀ j, (getThread a j).isSome = (getThread b j).isSome) → a.length = b.length
  | [], [], _ => rfl
  | [], _ :: _, h => by have := h 0; simp [getThread] at this
  | _ :: _, [], h => by have := h 0; simp [getThread] at this
  | _ :: a, _ :: b, h => by
    simp only [List.length_cons]
    rw [length_eq_of_getThread a b (fun j => by have := h (j + 1); simpa [getThread] using this)]

theorem length_of_hths (nd nd' : Node) (i : Nat) (th th' : Thread) (hg : getThread nd.threads i = some th)
    (hths : ∀ j, getThread nd'.threads j = if j = i then some th' else getThread nd.threads j) :
    nd'.threads.length = nd.threads.length := by
  apply length_eq_of_getThread
  intro j
  rw [hths j]
  by_cases e : j = i
  · simp [e, hg]
  · simp [e]

theorem hths_of_set (ths : List Thread) (i : Nat) (th th' : Thread) (hg : getThread ths i = some th) :
    ∀ j, getThread (setThread ths i th') j = if j = i then some th' else getThread ths j :=
  fun j => getThread_setThread ths i j th' (by rw [hg]; rfl)

/-- thread `i` of node `n` steps; the node holds and owes what it did, the log may be extended at one key -/
theorem HI_thread_step (kinds : List Kind) (links : List (Nat × List Tgt)) (hwf : GraphWF5 kinds links) (aa : Nat → A)
    (g : G) (h : HI kinds links aa D0 g) (n : Nat) (nd nd' : Node) (i : Rid) (th th' : Thread) (a' : A) (lg' : Log)
    (nx' : Nat) (k : Pid) (hn : getNode g.nodes n = some nd) (hg : getThread nd.threads i = some th)
    (hkind : nd'.kind = nd.kind)
    (hths : ∀ j, getThread nd'.threads j = if j = i then some th' else getThread nd.threads j)
    (hjb' : JBm nd' a' nx') (hi : NLt lg' n i th' a') (hreq : ∀ y ∈ a'.reqs, y.r ≠ i → y ∈ (aa n).reqs)
    (hrdr' : ∀ x ∈ a'.reqs, x.r < nd.threads.length) (hle : g.next ≤ nx')
    (hheld : heldN nd' a' i = heldN nd (aa n) i)
    (hrd : ∀ port, port ≠ i → (a'.reqs.filter (fun x => x.r = port)).map (·.p) =
      ((aa n).reqs.filter (fun x => x.r = port)).map (·.p))
    (hwq : ∀ w, getL a'.wq w = getL (aa n).wq w)
    (hx : LogExt g.log lg' k) (hown : ∀ id, id < g.next → aget lg'.owner id = aget g.log.owner id)
    (hlb : ∀ id, nx' ≤ id → Unlogged lg' id)
    (hk : g.next ≤ k ∨ k ∈ tids th ∨ ∃ x ∈ (aa n).reqs, x.r = i ∧ k ∈ idsR x)
    (hko : g.next ≤ k ∨ ∃ τ, aget g.log.owner k = some τ ∧ τ / 64 = n)
    (hordk : OrdAt lg' k nx') :
    HI kinds links (updA aa n a') D0 { g with nodes := setNode g.nodes n nd', log := lg', next := nx' } := by
  have hnN : n < kinds.length := (h.nodesLen n).mp (by rw [hn]; rfl)
  have hlen := length_of_hths nd nd' i th th' hg hths
  apply HI_node_step kinds links aa D0 g h n nd nd' a' lg' nx' k hn hkind hjb' _ hlen hrdr' hle _ hwq hx hown hlb
    (Nat.lt_of_lt_of_le hnN hwf.small) hko hordk
  · exact nlm_step g.log lg' k (tr_of_ext g.log lg' k hx) n nd nd' (aa n) a' g.next (h.jb n nd hn) (h.nl n nd hn) i th th'
      hg hths hi hreq hk hown
  · intro port
    by_cases e : port = i
    · rw [e]; exact hheld
    · exact heldN_other nd nd' (aa n) a' i port th' e hths (hrd port e)

/-- `Read`: thread `i` takes the next request from its inbox and enters the action – or, in a many-to-one node
whose group is not complete yet, the echo program -/
theorem HI_read (kinds : List Kind) (links : List (Nat × List Tgt)) (hwf : GraphWF5 kinds links) (aa : Nat → A) (g : G)
    (h : HI kinds links aa D0 g) (n : Nat) (nd : Node) (i : Rid) (p : Pkt) (rest : List Pkt)
    (hn : getNode g.nodes n = some nd) (hg : getThread nd.threads i = some { inbox := p :: rest, pc := .idle }) :
    ∃ nd' pc', Node.step nd (.read i) = some (nd', []) ∧
      getThread nd'.threads i = some { inbox := rest, pc := pc' } ∧
      HI kinds links (updA aa n (aread (aa n) i p.id)) D0 { g with nodes := setNode g.nodes n nd' } := by
  have hjb := h.jb n nd hn
  obtain ⟨nd', pc', hst, hpc, hgi, hoth, hkind, hjb'⟩ := jbm_read nd (aa n) g.next hjb i p rest hg
  refine ⟨nd', pc', hst, hgi, ?_⟩
  have hub : Unlogged g.log g.next := h.logBound g.next (Nat.le_refl _)
  have hths : ∀ j, getThread nd'.threads j = if j = i then some { inbox := rest, pc := pc' } else getThread nd.threads j := by
    intro j
    by_cases e : j = i
    · rw [e]; simp [hgi]
    · simp [e, hoth j e]
  have key := HI_thread_step kinds links hwf aa g h n nd nd' i _ { inbox := rest, pc := pc' } (aread (aa n) i p.id) g.log
    g.next g.next hn hg hkind hths hjb' (nlt_read g.log n i (aa n) p rest pc' hpc (h.nl n nd hn i _ hg))
    (by
      intro y hy hr
      simp only [aread, List.mem_append, List.mem_singleton] at hy
      rcases hy with hy | hy
      · exact hy
      · rw [hy] at hr; exact absurd rfl hr)
    (by
      intro x hx
      simp only [aread, List.mem_append, List.mem_singleton] at hx
      rcases hx with hx | hx
      · exact h.rdr n nd hn x hx
      · rw [hx]; exact getThread_lt _ _ _ hg)
    (Nat.le_refl _)
    (by rw [heldN_of nd' _ i _ hgi, heldN_of nd _ i _ hg]; simp [aread, List.filter_append])
    (by
      intro port hp
      have : ¬ (i = port) := fun e => hp e.symm
      simp [aread, List.filter_append, this])
    (fun w => rfl) (logExt_refl g.log g.next hub) (fun _ _ => rfl) h.logBound
    (Or.inl (Nat.le_refl _)) (Or.inl (Nat.le_refl _)) (ordAt_none g.log g.next g.next hub.2.1 hub.1)
  exact HI_congr _ links _ D0 _ _ key rfl rfl rfl rfl rfl rfl rfl rfl rfl

/-- `Link`: the next derived packet of thread `i`'s current request is registered (`Link(p, p)` – the action
returned its input packet – registers nothing) -/
theorem HI_link (kinds : List Kind) (links : List (Nat × List Tgt)) (hwf : GraphWF5 kinds links) (aa : Nat → A) (g : G)
    (h : HI kinds links aa D0 g) (n : Nat) (nd : Node) (i : Rid) (inbox : List Pkt) (s t : Pid) (ops : List Op)
    (hn : getNode g.nodes n = some nd)
    (hg : getThread nd.threads i = some { inbox := inbox, pc := .emit (.link s t :: ops) }) (acc : Bool) :
    ∃ nd', Node.step nd (.op i acc) = some (nd', []) ∧
      HI kinds links (updA aa n (alink (aa n) s t)) D0 { g with nodes := setNode g.nodes n nd' } := by
  have hjb := h.jb n nd hn
  have hnl := h.nl n nd hn i _ hg
  have hi63 : i < 63 := Nat.lt_of_lt_of_le (getThread_lt _ _ _ hg) (by rw [h.thr n nd hn]; exact nIn_le _ (h.kindOK n nd hn))
  obtain ⟨hst, hjb', _⟩ := jbm_op nd (aa n) g.next hjb i inbox (.link s t) ops hg acc
  obtain ⟨cs, hX, hsh⟩ := ops_head_link (aa n).reqs i s t ops (by have := hjb.j.th i _ hg; simpa [ThOK] using this)
  have hub : Unlogged g.log g.next := h.logBound g.next (Nat.le_refl _)
  have hgi' : getThread (setThread nd.threads i { inbox := inbox, pc := nextPc ops }) i =
      some { inbox := inbox, pc := nextPc ops } := by rw [hths_of_set nd.threads i _ _ hg]; simp
  refine ⟨_, hst, ?_⟩
  rcases hsh with hst' | ⟨est, _, w, q, hops, _⟩
  · have hf := findReq_of_mem (aa n).reqs _ hjb.j.inv.nodup hX
    have hreqs : (alink (aa n) s t).reqs =
        updReq s (fun st => match st with | .cells cs => .cells (cs ++ [.linked t]) | s => s) (aa n).reqs := by
      simp only [alink, hst', if_false, hf]
      rfl
    have hfr := alink_frame (aa n) s t
    have hrdall : ∀ port, ((alink (aa n) s t).reqs.filter (fun x => x.r = port)).map (·.p) =
        ((aa n).reqs.filter (fun x => x.r = port)).map (·.p) := by
      intro port; rw [hreqs]; exact readsOf_upd (aa n).reqs s _ port
    have key := HI_thread_step kinds links hwf aa g h n nd
      { nd with tr := (tcall nd.tr (opCall acc (.link s t))).1,
                threads := setThread nd.threads i { inbox := inbox, pc := nextPc ops } } i _
      { inbox := inbox, pc := nextPc ops } (alink (aa n) s t) g.log g.next g.next hn hg rfl
      (hths_of_set nd.threads i _ _ hg) hjb'
      (nlt_link g.log n i (aa n) inbox s t ops hnl hjb.j.inv.nodup cs hX hst')
      (others_kept (aa n) ⟨s, i, .cells cs⟩ hjb.j.inv.nodup hX _ (alink (aa n) s t) (fun y hy => by rw [hreqs] at hy; exact hy))
      (by
        intro x hx
        rw [hreqs] at hx
        obtain ⟨x0, hx0, e1, _⟩ := mem_updReq_r s _ (aa n).reqs x hx
        rw [← e1]; exact h.rdr n nd hn x0 hx0)
      (Nat.le_refl _)
      (by rw [heldN_of _ _ i { inbox := inbox, pc := nextPc ops } hgi', heldN_of nd _ i _ hg, hrdall i])
      (fun port _ => hrdall port) (fun w => by rw [hfr.2])
      (logExt_refl g.log g.next hub) (fun _ _ => rfl) h.logBound
      (Or.inl (Nat.le_refl _)) (Or.inl (Nat.le_refl _)) (ordAt_none g.log g.next g.next hub.2.1 hub.1)
    exact HI_congr _ links _ D0 _ _ key rfl rfl rfl rfl rfl rfl rfl rfl rfl
  · subst est; subst hops
    have ea : alink (aa n) s s = aa n := by simp [alink]
    have hjb2 : JBm { nd with tr := (tcall nd.tr (opCall acc (.link s s))).1,
                              threads := setThread nd.threads i { inbox := inbox, pc := nextPc [.write w q] } }
        (aa n) g.next := by
      have e2 : (acall (aa n) (opCall acc (.link s s))).1 = aa n := ea
      rw [e2] at hjb'; exact hjb'
    rw [ea]
    have key := HI_thread_step kinds links hwf aa g h n nd
      { nd with tr := (tcall nd.tr (opCall acc (.link s s))).1,
                threads := setThread nd.threads i { inbox := inbox, pc := nextPc [.write w q] } } i _
      { inbox := inbox, pc := nextPc [.write w q] } (aa n) g.log g.next g.next hn hg rfl
      (hths_of_set nd.threads i _ _ hg) hjb2
      (nlt_link_self g.log n i (aa n) inbox s w q hnl) (fun y hy _ => hy) (h.rdr n nd hn) (Nat.le_refl _)
      (by rw [heldN_of _ _ i { inbox := inbox, pc := nextPc [.write w q] } hgi', heldN_of nd _ i _ hg])
      (fun _ _ => rfl) (fun _ => rfl) (logExt_refl g.log g.next hub) (fun _ _ => rfl) h.logBound
      (Or.inl (Nat.le_refl _)) (Or.inl (Nat.le_refl _)) (ordAt_none g.log g.next g.next hub.2.1 hub.1)
    exact HI_congr _ links _ D0 _ _ key rfl rfl rfl rfl rfl rfl rfl rfl rfl

end Uniflow.FlowN
