/-
Equation lemmas for the reference evaluation (Spec/Query.lean). The mutual structural definitions compile their inner
`match`es into split equations, which `simp only [refP]` cannot use safely; these lemmas restate each function by one
equation per constructor with the entry logic as a separate function. Core Lean only.
-/
import Uniflow.Spec.Query

namespace Uniflow.Query
open Uniflow.Value Uniflow.Store

/-- what one entry `k : v` of a map filter requires of the (possibly absent) value `d` -/
def entry (d : Option Val) (k v : Val) : Bool :=
  match k with
  | .str key =>
    if !dollar key then refMatch (field d k) v
    else if key = opExists then d.isSome == truthy v
    else if key = opAnd then (match v with | .slice xs => refAllL d xs | _ => false)
    else if key = opOr then (match v with | .slice xs => refAnyL d xs | _ => false)
    else (cmpOp key (valOf d) v).getD false
  | _ => false

theorem refMatch_map (d : Option Val) (ps : PList) : refMatch d (.map ps) = refP d ps := by
  conv => lhs; unfold refMatch

theorem refMatch_nonmap (d : Option Val) {f : Val} (h : ∀ ps, f ≠ .map ps) : refMatch d f = equal (valOf d) f := by
  cases f with
  | map ps => exact absurd rfl (h ps)
  | _ => conv => lhs; unfold refMatch

theorem refP_nil (d : Option Val) : refP d .nil = true := by
  conv => lhs; unfold refP

theorem refP_cons (d : Option Val) (k v : Val) (rest : PList) :
    refP d (.cons k v rest) = (entry d k v && refP d rest) := by
  conv => lhs; unfold refP
  rfl

theorem refAllL_nil (d : Option Val) : refAllL d .nil = true := by
  conv => lhs; unfold refAllL

theorem refAllL_cons (d : Option Val) (f : Val) (fs : VList) :
    refAllL d (.cons f fs) = (refMatch d f && refAllL d fs) := by
  conv => lhs; unfold refAllL

theorem refAnyL_nil (d : Option Val) : refAnyL d .nil = false := by
  conv => lhs; unfold refAnyL

theorem refAnyL_cons (d : Option Val) (f : Val) (fs : VList) :
    refAnyL d (.cons f fs) = (refMatch d f || refAnyL d fs) := by
  conv => lhs; unfold refAnyL

/-- well-formedness of one entry -/
def wfEntry (k v : Val) : Bool :=
  match k with
  | .str key =>
    if !dollar key then wf v
    else if key = opAnd || key = opOr then (match v with | .slice xs => wfL xs | _ => false)
    else key = opExists || (cmpOp key .nil .nil).isSome
  | _ => false

theorem wf_map (ps : PList) : wf (.map ps) = wfP ps := by
  conv => lhs; unfold wf

theorem wfP_nil : wfP .nil = true := by
  conv => lhs; unfold wfP

theorem wfP_cons (k v : Val) (rest : PList) : wfP (.cons k v rest) = (wfEntry k v && wfP rest) := by
  conv => lhs; unfold wfP
  rfl

theorem wfL_nil : wfL .nil = true := by
  conv => lhs; unfold wfL

theorem wfL_cons (f : Val) (fs : VList) : wfL (.cons f fs) = (wf f && wfL fs) := by
  conv => lhs; unfold wfL

end Uniflow.Query
