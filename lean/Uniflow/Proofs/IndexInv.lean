/-
The full index invariant (Props/C11.lean `index_inv`, Props/C12.lean `unique_keys`): on top of `Cons`
(Proofs/Consistent.lean) every leaf belongs to a document the index's filter admits (`AdmitInv`), every admitted stored
document has its leaf (`Complete`), and in a unique index two leaves with the same key tuple belong to the same id
(`UniqInv`). Invariant of every store operation. Core Lean only.
-/
import Uniflow.Proofs.Consistent

namespace Uniflow.Index
open Uniflow.Value Uniflow.Store Uniflow.Plan Uniflow.Query

/-! ### leaves -/

theorem tupCmp_zero_symm {a b : List Val} (h : tupCmp a b = 0) : tupCmp b a = 0 := by
  have := tupCmp_antisymm a b; omega

theorem mem_putEnt_self (x : List Val × Val) : ∀ xs : List (List Val × Val), x ∈ putEnt xs x
  | [] => by simp [putEnt]
  | y :: ys => by
    simp only [putEnt]
    split
    · simp
    · split
      · simp
      · simp [mem_putEnt_self x ys]

/-- `putEnt` keeps every leaf, up to replacing it by the (equal) inserted one -/
theorem putEnt_keep (x : List Val × Val) : ∀ (xs : List (List Val × Val)) (e : List Val × Val), e ∈ xs →
    ∃ e' ∈ putEnt xs x, tupCmp e'.1 e.1 = 0 ∧ cmp e'.2 e.2 = 0
  | [], _, h => by simp at h
  | y :: ys, e, h => by
    simp only [putEnt]
    split
    · next h0 =>
      rcases List.mem_cons.mp h with rfl | h
      · simp only [entCmp] at h0
        rw [lexStep_zero] at h0
        exact ⟨x, by simp, tupCmp_zero_symm h0.1, cmp_zero_symm h0.2⟩
      · exact ⟨e, by simp [h], tupCmp_refl _, C14.cmp_refl _⟩
    · split
      · exact ⟨e, by simp [List.mem_cons.mp h], tupCmp_refl _, C14.cmp_refl _⟩
      · rcases List.mem_cons.mp h with rfl | h
        · exact ⟨e, by simp, tupCmp_refl _, C14.cmp_refl _⟩
        · obtain ⟨e', he', h1, h2⟩ := putEnt_keep x ys e h
          exact ⟨e', by simp [he'], h1, h2⟩

/-- two index values with the same keys, uniqueness flag and filter -/
def Same (a b : Index) : Prop := a.keys = b.keys ∧ a.unique = b.unique ∧ a.filter = b.filter

theorem Same.admits {a b : Index} (h : Same a b) (d : PList) : a.admits d = b.admits d := by
  unfold Index.admits; rw [h.2.2]

theorem Same.tuple {a b : Index} (h : Same a b) (d : PList) : a.tuple d = b.tuple d := by
  unfold Index.tuple; rw [h.1]

theorem Same.trans {a b c : Index} (h1 : Same a b) (h2 : Same b c) : Same a c :=
  ⟨h1.1.trans h2.1, h1.2.1.trans h2.2.1, h1.2.2.trans h2.2.2⟩

theorem Same_dropLeaf (idx : Index) (old : PList) : Same (dropLeaf idx old) idx := ⟨rfl, rfl, rfl⟩

/-- everything `index(idx, doc)` does when it succeeds -/
theorem index_ok_full {idx idx' : Index} {doc : PList} (h : index idx doc = .ok idx') :
    Same idx' idx ∧
    (∀ e ∈ idx'.entries, e ∈ idx.entries ∨
      (e = (idx.tuple doc, mget doc keyId) ∧ idx.admits doc = true ∧ idx.keys ≠ [] ∧
        (idx.unique = true → ∀ x ∈ idx.entries, tupCmp x.1 (idx.tuple doc) ≠ 0))) ∧
    (idx.admits doc = true → idx.keys ≠ [] → (idx.tuple doc, mget doc keyId) ∈ idx'.entries) ∧
    (∀ e ∈ idx.entries, ∃ e' ∈ idx'.entries, tupCmp e'.1 e.1 = 0 ∧ cmp e'.2 e.2 = 0) := by
  have keep : ∀ e ∈ idx.entries, ∃ e' ∈ idx.entries, tupCmp e'.1 e.1 = 0 ∧ cmp e'.2 e.2 = 0 :=
    fun e he => ⟨e, he, tupCmp_refl _, C14.cmp_refl _⟩
  unfold index at h
  simp only at h
  split at h
  · simp at h
  · split at h
    · next ha =>
      simp only [Res.ok.injEq] at h; subst h
      exact ⟨⟨rfl, rfl, rfl⟩, fun e he => Or.inl he, fun ha' => by simp [ha'] at ha, keep⟩
    · split at h
      · next hk =>
        simp only [Res.ok.injEq] at h; subst h
        exact ⟨⟨rfl, rfl, rfl⟩, fun e he => Or.inl he,
          fun _ hk' => absurd (List.isEmpty_iff.mp hk) hk', keep⟩
      · next ha hk =>
        split at h
        · simp at h
        · next hu =>
          simp only [Res.ok.injEq] at h
          subst h
          have hadm : idx.admits doc = true := by simpa using ha
          have hkeys : idx.keys ≠ [] := fun h0 => hk (by simp [h0])
          refine ⟨⟨rfl, rfl, rfl⟩, fun e he => ?_, fun _ _ => mem_putEnt_self _ _, fun e he => putEnt_keep _ _ e he⟩
          rcases mem_putEnt he with rfl | he
          · refine Or.inr ⟨rfl, hadm, hkeys, fun hun x hx h0 => hu ?_⟩
            simp only [Bool.and_eq_true, List.any_eq_true, decide_eq_true_eq]
            exact ⟨hun, x, hx, h0⟩
          · exact Or.inl he

/-! ### documents -/

theorem Asc_unique : ∀ {l : List (Val × PList)}, Asc l → ∀ {a b}, a ∈ l → b ∈ l → cmp a.1 b.1 = 0 → a = b
  | [], _, _, _, ha, _, _ => by simp at ha
  | x :: rest, h, a, b, ha, hb, hc => by
    rw [Asc_cons] at h
    rcases List.mem_cons.mp ha with h1 | h1
    · rcases List.mem_cons.mp hb with h2 | h2
      · rw [h1, h2]
      · subst h1; have := h.1 b h2; omega
    · rcases List.mem_cons.mp hb with h2 | h2
      · subst h2; have := h.1 a h1; have := C14.cmp_antisymm a.1 b.1; omega
      · exact Asc_unique h.2 h1 h2 hc

theorem mem_putDoc_self (id : Val) (d : PList) : ∀ docs : List (Val × PList), (id, d) ∈ putDoc docs id d
  | [] => by simp [putDoc]
  | (i, e) :: rest => by
    simp only [putDoc]
    split
    · simp
    · split
      · simp
      · simp [mem_putDoc_self id d rest]

/-- after a put, a stored pair is the new one or an old one with another id -/
theorem mem_putDoc_split {docs : List (Val × PList)} (hasc : Asc docs) {id : Val} {d : PList} {p : Val × PList}
    (hp : p ∈ putDoc docs id d) : p = (id, d) ∨ (p ∈ docs ∧ cmp id p.1 ≠ 0) := by
  rcases mem_putDoc hp with h | h
  · exact Or.inl h
  · by_cases hc : cmp id p.1 = 0
    · exact Or.inl (Asc_unique (Asc_putDoc id d hasc) hp (mem_putDoc_self id d docs) (cmp_zero_symm hc))
    · exact Or.inr ⟨h, hc⟩

theorem mem_delDoc_ne {id : Val} : ∀ {docs : List (Val × PList)}, Asc docs → ∀ {p}, p ∈ delDoc docs id → cmp id p.1 ≠ 0
  | [], _, _, h => by simp [delDoc] at h
  | (i, e) :: rest, hasc, p, h => by
    rw [Asc_cons] at hasc
    simp only [delDoc] at h
    split at h
    · next h0 =>
      have h1 := hasc.1 p h
      have := (C14.cmp_trans_strict id i p.1).2 (by have := C14.cmp_antisymm i id; omega) h1
      omega
    · next h0 =>
      rcases List.mem_cons.mp h with rfl | h
      · intro hc; exact h0 (cmp_zero_symm hc)
      · exact mem_delDoc_ne hasc.2 h

/-! ### the invariant -/

/-- every leaf belongs to a document the index admits -/
def AdmitInv (s : State) : Prop :=
  ∀ idx ∈ s.indexes, ∀ e ∈ idx.entries, ∀ d, getDoc s.docs e.2 = some d → idx.admits d = true

/-- every admitted stored document has its leaf -/
def Complete (s : State) : Prop :=
  ∀ idx ∈ s.indexes, idx.keys ≠ [] → ∀ p ∈ s.docs, idx.admits p.2 = true →
    ∃ e ∈ idx.entries, cmp e.2 p.1 = 0 ∧ tupCmp e.1 (idx.tuple p.2) = 0

/-- in a unique index, leaves with the same key tuple have the same id -/
def UniqInv (s : State) : Prop :=
  ∀ idx ∈ s.indexes, idx.unique = true → ∀ a ∈ idx.entries, ∀ b ∈ idx.entries, tupCmp a.1 b.1 = 0 → cmp a.2 b.2 = 0

structure Full (s : State) : Prop where
  cons : Cons s
  admitted : AdmitInv s
  complete : Complete s
  uniq : UniqInv s

/-! ### what a successful segment call did -/

theorem segStore_ok {s s' : State} {d : PList} (h : segStore s d = (s', none)) :
    isNil (mget d keyId) = false ∧ getDoc s.docs (mget d keyId) = none ∧
      ∃ idxs, mapIdx (fun idx => index idx d) s.indexes = (idxs, none) ∧
        s' = { docs := putDoc s.docs (mget d keyId) d, indexes := idxs } := by
  unfold segStore at h
  simp only at h
  split at h
  · simp [failE] at h
  · next hid =>
    split at h
    · simp [failE] at h
    · next hhas =>
      split at h
      · simp [failE] at h
      · cases hm : mapIdx (fun idx => index idx d) s.indexes with
        | mk idxs e =>
          rw [hm] at h
          simp only [Prod.mk.injEq] at h
          obtain ⟨rfl, rfl⟩ := h
          refine ⟨by simpa using hid, ?_, idxs, rfl, rfl⟩
          cases hg : getDoc s.docs (mget d keyId) <;> simp [hg] at hhas ⊢

theorem segSwap_ok {s s' : State} {d : PList} (h : segSwap s d = (s', none)) :
    isNil (mget d keyId) = false ∧ ∃ old, getDoc s.docs (mget d keyId) = some old ∧
      ∃ idxs, mapIdx (fun idx => (unindex idx old).bind fun idx' => index idx' d) s.indexes = (idxs, none) ∧
        s' = { docs := putDoc s.docs (mget d keyId) d, indexes := idxs } := by
  unfold segSwap at h
  simp only at h
  split at h
  · simp [failE] at h
  · next hid =>
    split at h
    · simp [failE] at h
    · next old hold =>
      split at h
      · simp [failE] at h
      · cases hm : mapIdx (fun idx => (unindex idx old).bind fun idx' => index idx' d) s.indexes with
        | mk idxs e =>
          rw [hm] at h
          simp only [Prod.mk.injEq] at h
          obtain ⟨rfl, rfl⟩ := h
          exact ⟨by simpa using hid, old, hold, idxs, hm, rfl⟩

theorem segDelete_ok {s s' : State} {id : Val} (h : segDelete s id = (s', none)) :
    ∃ old, getDoc s.docs id = some old ∧
      ∃ idxs, mapIdx (fun idx => unindex idx old) s.indexes = (idxs, none) ∧
        s' = { docs := delDoc s.docs id, indexes := idxs } := by
  unfold segDelete at h
  split at h
  · simp [failE] at h
  · next old hold =>
    cases hm : mapIdx (fun idx => unindex idx old) s.indexes with
    | mk idxs e =>
      rw [hm] at h
      simp only [Prod.mk.injEq] at h
      obtain ⟨rfl, rfl⟩ := h
      exact ⟨old, hold, idxs, hm, rfl⟩

/-- a leaf of a consistent state whose id is not stored does not exist: an old leaf has an id other than a fresh one -/
theorem old_leaf_ne {s : State} (hc : Cons s) {idx : Index} (hi : idx ∈ s.indexes) {e : List Val × Val}
    (he : e ∈ idx.entries) {id : Val} (hfresh : getDoc s.docs id = none) : cmp id e.2 ≠ 0 := by
  intro h0
  obtain ⟨d', hd', _⟩ := hc.exact idx hi e he
  rw [← getDoc_congr h0, hfresh] at hd'
  simp at hd'

/-! ### `segment.Store` -/

theorem Full_segStore {s : State} (d : PList) (hf : Full s) : Full (segStore s d).1 := by
  have hcons := Cons_segStore d hf.cons
  cases hres : segStore s d with
  | mk s' r =>
    cases r with
    | some r => rw [segStore_reject hf.cons.exact hres]; exact hf
    | none =>
      rw [hres] at hcons
      obtain ⟨hid, hfresh, idxs, hm, rfl⟩ := segStore_ok hres
      refine ⟨hcons, ?_, ?_, ?_⟩
      · intro idx' hi' e he d' hd'
        obtain ⟨idx, hi, hok⟩ := mapIdx_ok hm idx' hi'
        obtain ⟨hsame, hnew, _, _⟩ := index_ok_full hok
        rw [hsame.admits]
        rcases hnew e he with he | ⟨rfl, hadm, _, _⟩
        · have hne := old_leaf_ne hf.cons hi he hfresh
          simp only at hd'
          rw [getDoc_putDoc_other d hne] at hd'
          exact hf.admitted idx hi e he d' hd'
        · simp only at hd'
          rw [getDoc_putDoc_same _ _ (C14.cmp_refl _)] at hd'
          obtain rfl := Option.some.inj hd'
          exact hadm
      · intro idx' hi' hk p hp hadm
        obtain ⟨idx, hi, hok⟩ := mapIdx_ok hm idx' hi'
        obtain ⟨hsame, _, hleaf, hkeep⟩ := index_ok_full hok
        rw [hsame.admits] at hadm
        rw [hsame.tuple]
        have hk' : idx.keys ≠ [] := by rw [← hsame.1]; exact hk
        rcases mem_putDoc hp with rfl | hp
        · exact ⟨_, hleaf hadm hk', C14.cmp_refl _, tupCmp_refl _⟩
        · obtain ⟨e, he, h1, h2⟩ := hf.complete idx hi hk' p hp hadm
          obtain ⟨e', he', h3, h4⟩ := hkeep e he
          exact ⟨e', he', cmp_zero_trans h4 h1, tupCmp_zero_trans h3 h2⟩
      · intro idx' hi' hu a ha b hb hab
        obtain ⟨idx, hi, hok⟩ := mapIdx_ok hm idx' hi'
        obtain ⟨hsame, hnew, _, _⟩ := index_ok_full hok
        have hu' : idx.unique = true := by rw [← hsame.2.1]; exact hu
        rcases hnew a ha with ha | ⟨rfl, _, _, hfr⟩ <;> rcases hnew b hb with hb | ⟨rfl, _, _, hfr'⟩
        · exact hf.uniq idx hi hu' a ha b hb hab
        · exact absurd (tupCmp_zero_symm hab |> tupCmp_zero_symm) (hfr' hu' a ha)
        · exact absurd (tupCmp_zero_symm hab) (hfr hu' b hb)
        · exact C14.cmp_refl _

/-! ### `segment.Swap`, `segment.Delete` -/

theorem mem_dropLeaf {idx : Index} {old : PList} {e : List Val × Val} :
    e ∈ (dropLeaf idx old).entries ↔
      e ∈ idx.entries ∧ ¬ (tupCmp e.1 (idx.tuple old) = 0 ∧ cmp e.2 (mget old keyId) = 0) := by
  simp only [dropLeaf, List.mem_filter, Bool.not_eq_true', Bool.and_eq_false_iff, decide_eq_false_iff_not, not_and]
  constructor
  · rintro ⟨h1, h2⟩
    exact ⟨h1, fun ht => by rcases h2 with h | h; exact absurd ht h; exact h⟩
  · rintro ⟨h1, h2⟩
    refine ⟨h1, ?_⟩
    by_cases ht : tupCmp e.1 (idx.tuple old) = 0
    · exact Or.inr (h2 ht)
    · exact Or.inl ht

/-- the leaf of another stored document survives the removal of `old`'s leaf -/
theorem keep_dropLeaf {s : State} (hc : Cons s) {idx : Index} {old : PList} {id : Val}
    (hold : getDoc s.docs id = some old) {e : List Val × Val} (he : e ∈ idx.entries) {x : Val}
    (hex : cmp e.2 x = 0) (hx : cmp id x ≠ 0) : e ∈ (dropLeaf idx old).entries := by
  rw [mem_dropLeaf]
  refine ⟨he, fun h => hx ?_⟩
  have hoid := (StoredM_ids hc.stored _ _ hold).2
  exact cmp_zero_trans (cmp_zero_symm hoid) (cmp_zero_trans (cmp_zero_symm h.2) hex)

theorem Full_segSwap {s : State} (d : PList) (hf : Full s) : Full (segSwap s d).1 := by
  have hcons := Cons_segSwap d hf.cons
  cases hres : segSwap s d with
  | mk s' r =>
    cases r with
    | some r => rw [segSwap_reject hf.cons.exact (StoredM_ids hf.cons.stored) hres]; exact hf
    | none =>
      rw [hres] at hcons
      obtain ⟨hid, old, hold, idxs, hm, rfl⟩ := segSwap_ok hres
      have hon := (StoredM_ids hf.cons.stored _ _ hold).1
      have src : ∀ idx' ∈ idxs, ∃ idx ∈ s.indexes, index (dropLeaf idx old) d = .ok idx' := by
        intro idx' hi'
        obtain ⟨idx, hi, hok⟩ := mapIdx_ok hm idx' hi'
        rw [unindex_ok hon] at hok
        exact ⟨idx, hi, hok⟩
      refine ⟨hcons, ?_, ?_, ?_⟩
      · intro idx' hi' e he d' hd'
        obtain ⟨idx, hi, hok⟩ := src idx' hi'
        obtain ⟨hsame, hnew, _, _⟩ := index_ok_full hok
        rw [(hsame.trans (Same_dropLeaf idx old)).admits]
        rcases hnew e he with he | ⟨rfl, hadm, _, _⟩
        · obtain ⟨hm', hne⟩ := dropLeaf_other hf.cons hi hold he
          simp only at hd'
          rw [getDoc_putDoc_other d hne] at hd'
          exact hf.admitted idx hi e hm' d' hd'
        · simp only at hd'
          rw [getDoc_putDoc_same _ _ (C14.cmp_refl _)] at hd'
          obtain rfl := Option.some.inj hd'
          rw [← (Same_dropLeaf idx old).admits]; exact hadm
      · intro idx' hi' hk p hp hadm
        obtain ⟨idx, hi, hok⟩ := src idx' hi'
        obtain ⟨hsame, _, hleaf, hkeep⟩ := index_ok_full hok
        have hs2 := hsame.trans (Same_dropLeaf idx old)
        rw [hs2.admits] at hadm
        rw [hs2.tuple]
        have hk' : idx.keys ≠ [] := by rw [← hs2.1]; exact hk
        rcases mem_putDoc_split hf.cons.asc hp with rfl | ⟨hp, hne⟩
        · exact ⟨_, hleaf (by rw [(Same_dropLeaf idx old).admits]; exact hadm) hk', C14.cmp_refl _,
            by rw [(Same_dropLeaf idx old).tuple]; exact tupCmp_refl _⟩
        · obtain ⟨e, he, h1, h2⟩ := hf.complete idx hi hk' p hp hadm
          obtain ⟨e', he', h3, h4⟩ := hkeep e (keep_dropLeaf hf.cons hold he h1 hne)
          exact ⟨e', he', cmp_zero_trans h4 h1, tupCmp_zero_trans h3 h2⟩
      · intro idx' hi' hu a ha b hb hab
        obtain ⟨idx, hi, hok⟩ := src idx' hi'
        obtain ⟨hsame, hnew, _, _⟩ := index_ok_full hok
        have hu' : idx.unique = true := by rw [← (hsame.trans (Same_dropLeaf idx old)).2.1]; exact hu
        have hu'' : (dropLeaf idx old).unique = true := hu'
        rcases hnew a ha with ha | ⟨rfl, _, _, hfr⟩ <;> rcases hnew b hb with hb | ⟨rfl, _, _, hfr'⟩
        · exact hf.uniq idx hi hu' a (mem_dropLeaf.mp ha).1 b (mem_dropLeaf.mp hb).1 hab
        · exact absurd hab (hfr' hu'' a ha)
        · exact absurd (tupCmp_zero_symm hab) (hfr hu'' b hb)
        · exact C14.cmp_refl _

theorem Full_segDelete {s : State} (id : Val) (hf : Full s) : Full (segDelete s id).1 := by
  have hcons := Cons_segDelete id hf.cons
  cases hres : segDelete s id with
  | mk s' r =>
    cases r with
    | some r => rw [segDelete_reject (StoredM_ids hf.cons.stored) hres]; exact hf
    | none =>
      rw [hres] at hcons
      obtain ⟨old, hold, idxs, hm, rfl⟩ := segDelete_ok hres
      have hon := (StoredM_ids hf.cons.stored _ _ hold).1
      have src : ∀ idx' ∈ idxs, ∃ idx ∈ s.indexes, idx' = dropLeaf idx old := by
        intro idx' hi'
        obtain ⟨idx, hi, hok⟩ := mapIdx_ok hm idx' hi'
        rw [unindex_ok hon] at hok
        exact ⟨idx, hi, (Res.ok.inj hok).symm⟩
      refine ⟨hcons, ?_, ?_, ?_⟩
      · intro idx' hi' e he d' hd'
        obtain ⟨idx, hi, rfl⟩ := src idx' hi'
        obtain ⟨hm', hne⟩ := dropLeaf_other hf.cons hi hold he
        simp only at hd'
        rw [getDoc_delDoc_other hne] at hd'
        exact hf.admitted idx hi e hm' d' hd'
      · intro idx' hi' hk p hp hadm
        obtain ⟨idx, hi, rfl⟩ := src idx' hi'
        have hne := mem_delDoc_ne hf.cons.asc hp
        obtain ⟨e, he, h1, h2⟩ := hf.complete idx hi hk p (mem_delDoc hp) hadm
        exact ⟨e, keep_dropLeaf hf.cons hold he h1 hne, h1, h2⟩
      · intro idx' hi' hu a ha b hb hab
        obtain ⟨idx, hi, rfl⟩ := src idx' hi'
        exact hf.uniq idx hi hu a (mem_dropLeaf.mp ha).1 b (mem_dropLeaf.mp hb).1 hab

/-! ### the store operations -/

theorem Full_storeInsert : ∀ (ds : List PList) {s : State}, Full s → Full (storeInsert s ds).1
  | [], _, h => h
  | d :: ds, s, h => by
    have h1 := Full_segStore d h
    simp only [storeInsert]
    split
    · next s' heq => rw [heq] at h1; exact Full_storeInsert ds h1
    · exact h1

theorem Full_swapAll : ∀ (ds : List PList) {s : State}, Full s → Full (swapAll s ds).1
  | [], _, h => h
  | d :: ds, s, h => by
    have h1 := Full_segSwap d h
    simp only [swapAll]
    split
    · next s' heq => rw [heq] at h1; exact Full_swapAll ds h1
    · exact h1

theorem Full_deleteAll : ∀ (ds : List PList) {s : State}, Full s → Full (deleteAll s ds).1
  | [], _, h => h
  | d :: ds, s, h => by
    have h1 := Full_segDelete (mget d keyId) h
    simp only [deleteAll]
    split
    · next s' heq => rw [heq] at h1; exact Full_deleteAll ds h1
    · exact h1

theorem Full_storeUpdate {s : State} (f : Option Val) (u : PList) (up : Bool) (h : Full s) :
    Full (storeUpdate s f u up).1 := by
  unfold storeUpdate
  repeat' split
  all_goals first
    | exact h
    | (rw [liftN_state]; first | exact Full_segStore _ h | exact Full_swapAll _ h)

theorem Full_storeDelete {s : State} (f : Option Val) (h : Full s) : Full (storeDelete s f).1 := by
  unfold storeDelete
  split
  · exact h
  · exact h
  · rw [liftN_state]; exact Full_deleteAll _ h

/-- "leaves with the same tuple have the same id", for one index value -/
def UniqIdx (idx : Index) : Prop :=
  idx.unique = true → ∀ a ∈ idx.entries, ∀ b ∈ idx.entries, tupCmp a.1 b.1 = 0 → cmp a.2 b.2 = 0

theorem index_ok_uniq {idx idx' : Index} {doc : PList} (h : index idx doc = .ok idx') (hu : UniqIdx idx) :
    UniqIdx idx' := by
  obtain ⟨hsame, hnew, _, _⟩ := index_ok_full h
  intro hun a ha b hb hab
  have hu' : idx.unique = true := by rw [← hsame.2.1]; exact hun
  rcases hnew a ha with ha | ⟨rfl, _, _, hfr⟩ <;> rcases hnew b hb with hb | ⟨rfl, _, _, hfr'⟩
  · exact hu hu' a ha b hb hab
  · exact absurd hab (hfr' hu' a ha)
  · exact absurd (tupCmp_zero_symm hab) (hfr hu' b hb)
  · exact C14.cmp_refl _

/-- everything the build loop of `segment.Index` does when it succeeds -/
theorem build_full : ∀ (docs : List (Val × PList)) {idx idx' : Index}, build idx docs = .ok idx' →
    Same idx' idx ∧
    (∀ e ∈ idx'.entries, e ∈ idx.entries ∨
      ∃ p ∈ docs, e = (idx.tuple p.2, mget p.2 keyId) ∧ idx.admits p.2 = true ∧ idx.keys ≠ []) ∧
    (∀ p ∈ docs, idx.admits p.2 = true → idx.keys ≠ [] →
      ∃ e ∈ idx'.entries, tupCmp e.1 (idx.tuple p.2) = 0 ∧ cmp e.2 (mget p.2 keyId) = 0) ∧
    (∀ e ∈ idx.entries, ∃ e' ∈ idx'.entries, tupCmp e'.1 e.1 = 0 ∧ cmp e'.2 e.2 = 0) ∧
    (UniqIdx idx → UniqIdx idx')
  | [], idx, idx', h => by
    simp only [build, Res.ok.injEq] at h; subst h
    exact ⟨⟨rfl, rfl, rfl⟩, fun e he => Or.inl he, fun p hp => by simp at hp,
      fun e he => ⟨e, he, tupCmp_refl _, C14.cmp_refl _⟩, id⟩
  | (i, d) :: rest, idx, idx', h => by
    simp only [build] at h
    cases hi : index idx d with
    | ok idx1 =>
      rw [hi] at h
      simp only [Res.bind] at h
      obtain ⟨hs1, hnew1, hleaf1, hkeep1⟩ := index_ok_full hi
      obtain ⟨hs2, hnew2, hcomp2, hkeep2, hu2⟩ := build_full rest h
      refine ⟨hs2.trans hs1, fun e he => ?_, fun p hp hadm hk => ?_, fun e he => ?_,
        fun hu => hu2 (index_ok_uniq hi hu)⟩
      · rcases hnew2 e he with he | ⟨p, hp, rfl, hadm, hk⟩
        · rcases hnew1 e he with he | ⟨rfl, hadm, hk, _⟩
          · exact Or.inl he
          · exact Or.inr ⟨(i, d), by simp, rfl, hadm, hk⟩
        · exact Or.inr ⟨p, by simp [hp], by rw [hs1.tuple], by rw [← hs1.admits]; exact hadm, by rw [← hs1.1]; exact hk⟩
      · rcases List.mem_cons.mp hp with rfl | hp
        · obtain ⟨e', he', h1, h2⟩ := hkeep2 _ (hleaf1 hadm hk)
          exact ⟨e', he', h1, h2⟩
        · obtain ⟨e, he, h1, h2⟩ := hcomp2 p hp (by rw [hs1.admits]; exact hadm) (by rw [hs1.1]; exact hk)
          exact ⟨e, he, by rw [← hs1.tuple]; exact h1, h2⟩
      · obtain ⟨e1, he1, h1, h2⟩ := hkeep1 e he
        obtain ⟨e2, he2, h3, h4⟩ := hkeep2 e1 he1
        exact ⟨e2, he2, tupCmp_zero_trans h3 h1, cmp_zero_trans h4 h2⟩
    | err e => rw [hi] at h; simp [Res.bind] at h
    | panic => rw [hi] at h; simp [Res.bind] at h

theorem Full_storeIndex {s : State} (keys : List Val) (unique : Bool) (filter : Option Val) (h : Full s) :
    Full (storeIndex s keys unique filter).1 := by
  have hcons := Cons_storeIndex keys unique filter h.cons
  unfold storeIndex at hcons ⊢
  split
  · next idx hb =>
    rw [hb] at hcons
    obtain ⟨hsame, hnew, hcomp, _, hu⟩ := build_full s.docs hb
    refine ⟨hcons, ?_, ?_, ?_⟩
    · intro idx' hi' e he d' hd'
      simp only [List.mem_append, List.mem_filter, List.mem_singleton] at hi'
      rcases hi' with hi' | rfl
      · exact h.admitted idx' hi'.1 e he d' hd'
      · rcases hnew e he with he | ⟨p, hp, rfl, hadm, _⟩
        · simp at he
        · have hst := h.cons.stored p hp
          simp only at hd'
          rw [getDoc_congr hst.2, mem_getDoc h.cons.asc hp] at hd'
          obtain rfl := Option.some.inj hd'
          rw [hsame.admits]; exact hadm
    · intro idx' hi' hk p hp hadm
      simp only [List.mem_append, List.mem_filter, List.mem_singleton] at hi'
      rcases hi' with hi' | rfl
      · exact h.complete idx' hi'.1 hk p hp hadm
      · have hst := h.cons.stored p hp
        obtain ⟨e, he, h1, h2⟩ := hcomp p hp (by rw [← hsame.admits]; exact hadm) (by rw [← hsame.1]; exact hk)
        exact ⟨e, he, cmp_zero_trans h2 hst.2, by rw [hsame.tuple]; exact h1⟩
    · intro idx' hi' hun a ha b hb' hab
      simp only [List.mem_append, List.mem_filter, List.mem_singleton] at hi'
      rcases hi' with hi' | rfl
      · exact h.uniq idx' hi'.1 hun a ha b hb' hab
      · exact hu (fun _ a ha => by simp at ha) hun a ha b hb' hab
  · exact h
  · exact h

theorem Full_storeUnindex {s : State} (keys : List Val) (h : Full s) : Full (storeUnindex s keys).1 := by
  refine ⟨Cons_storeUnindex keys h.cons, ?_, ?_, ?_⟩
  · intro idx hi e he d hd
    simp only [storeUnindex, List.mem_filter] at hi
    exact h.admitted idx hi.1 e he d hd
  · intro idx hi hk p hp hadm
    simp only [storeUnindex, List.mem_filter] at hi
    exact h.complete idx hi.1 hk p hp hadm
  · intro idx hi hu a ha b hb hab
    simp only [storeUnindex, List.mem_filter] at hi
    exact h.uniq idx hi.1 hu a ha b hb hab

theorem Full_step {s : State} (op : Op) (h : Full s) : Full (step s op).1 := by
  cases op with
  | insert ds => exact Full_storeInsert ds h
  | update f u up => exact Full_storeUpdate f u up h
  | delete f => exact Full_storeDelete f h
  | find f sort skip limit => simp only [step]; split <;> exact h
  | index keys unique f => exact Full_storeIndex keys unique f h
  | unindex keys => exact Full_storeUnindex keys h

theorem Full_run : ∀ (ops : List Op) {s : State}, Full s → Full (run s ops)
  | [], _, h => h
  | op :: ops, _, h => Full_run ops (Full_step op h)

theorem Full_init : Full init := by
  refine ⟨Cons_init, ?_, ?_, ?_⟩
  · intro idx hi e he
    simp [init] at hi; subst hi; simp at he
  · intro idx hi hk p hp
    simp [init] at hp
  · intro idx hi hu a ha
    simp [init] at hi; subst hi; simp at ha

end Uniflow.Index
