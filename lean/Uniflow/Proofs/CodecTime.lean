/-
`parseRFC3339 ∘ rfc3339 = id` (Model/CodecTime.lean). Core Lean only.
-/
import Uniflow.Model.CodecTime

namespace Uniflow.Codec

theorem undg_dg {x : Nat} (h : x < 10) : undg (dg x) = some x := by
  unfold undg dg
  have : 48 ≤ 48 + x ∧ 48 + x ≤ 57 := by omega
  simp [this]

theorem ym_parts (n400 n100 n4 n1 : Nat) (h100 : n100 ≤ 3) (h4 : n4 ≤ 24) (h1 : n1 ≤ 3) :
    let ym := 400 * n400 + 100 * n100 + 4 * n4 + n1
    ym / 400 = n400 ∧ ym % 400 / 100 = n100 ∧ ym % 100 / 4 = n4 ∧ ym % 4 = n1 := by
  intro ym
  have e1 : ym / 400 = n400 := by omega
  have e2 : ym % 400 = 100 * n100 + 4 * n4 + n1 := by omega
  have e3 : ym % 100 = 4 * n4 + n1 := by omega
  refine ⟨e1, by rw [e2]; omega, by rw [e3]; omega, by omega⟩

/-- the civil date determines the day number, and is a date -/
theorem civil_rt (D : Nat) :
    daysOfCivil (civilOfDays D).1 (civilOfDays D).2.1 (civilOfDays D).2.2 = D ∧
    1 ≤ (civilOfDays D).2.1 ∧ (civilOfDays D).2.1 ≤ 12 ∧ 1 ≤ (civilOfDays D).2.2 ∧ (civilOfDays D).2.2 ≤ 31 := by
  unfold civilOfDays
  simp only []
  generalize hn400 : D / 146097 = n400
  generalize hr : D % 146097 = r
  have hD : D = n400 * 146097 + r ∧ r < 146097 := by omega
  generalize hn100 : min (r / 36524) 3 = n100
  have h100 : n100 ≤ 3 ∧ n100 * 36524 ≤ r := by rw [← hn100]; omega
  generalize hr2 : r - n100 * 36524 = r2
  have hr2b : r2 ≤ 36524 ∧ r = n100 * 36524 + r2 := by
    have : n100 = 3 ∨ n100 = r / 36524 := by rw [← hn100]; omega
    omega
  generalize hn4 : r2 / 1461 = n4
  generalize hr3 : r2 % 1461 = r3
  have h4 : n4 ≤ 24 ∧ r2 = n4 * 1461 + r3 ∧ r3 < 1461 := by omega
  generalize hn1 : min (r3 / 365) 3 = n1
  have h1 : n1 ≤ 3 ∧ n1 * 365 ≤ r3 := by rw [← hn1]; omega
  generalize hdoy : r3 - n1 * 365 = doy
  have hdb : doy ≤ 365 ∧ r3 = n1 * 365 + doy := by
    have : n1 = 3 ∨ n1 = r3 / 365 := by rw [← hn1]; omega
    omega
  generalize hmp : (5 * doy + 2) / 153 = mp
  have hmpb : mp ≤ 11 ∧ 153 * mp ≤ 5 * doy + 2 ∧ 5 * doy + 2 < 153 * mp + 153 := by omega
  generalize hq : (153 * mp + 2) / 5 = q
  have hqb : q ≤ doy ∧ doy ≤ q + 30 := by omega
  obtain ⟨p1, p2, p3, p4⟩ := ym_parts n400 n100 n4 n1 h100.1 h4.1 h1.1
  by_cases c : mp < 10
  · simp only [c, if_true]
    unfold daysOfCivil
    have m1 : ¬ (mp + 3 ≤ 2) := by omega
    have m2 : mp + 3 ≥ 3 := by omega
    have m3 : mp + 3 - 3 = mp := by omega
    simp only [m1, m2, if_false, if_true, m3, hq, p1, p2, p3, p4]
    refine ⟨by omega, by omega, by omega, by omega, by omega⟩
  · simp only [c, if_false]
    unfold daysOfCivil
    have m1 : mp - 9 ≤ 2 := by omega
    have m2 : ¬ (mp - 9 ≥ 3) := by omega
    have m3 : mp - 9 + 9 = mp := by omega
    have m4 : 400 * n400 + 100 * n100 + 4 * n4 + n1 + 1 - 1 = 400 * n400 + 100 * n100 + 4 * n4 + n1 := by omega
    simp only [m1, m2, if_false, if_true, m3, m4, hq, p1, p2, p3, p4]
    refine ⟨by omega, by omega, by omega, by omega, by omega⟩


theorem takeDigits_dg {x : Nat} (h : x < 10) (r : List Nat) :
    takeDigits (dg x :: r) = (x * 10 ^ (takeDigits r).2.1 + (takeDigits r).1, (takeDigits r).2.1 + 1, (takeDigits r).2.2) := by
  simp only [takeDigits, undg_dg h]
  unfold dg; simp

theorem padN_length : ∀ k f, (padN k f).length = k
  | 0, _ => rfl
  | k + 1, f => by simp [padN, padN_length k]

/-- reading `k` padded digits followed by anything -/
theorem takeDigits_pad : ∀ (k f : Nat) (r : List Nat), f < 10 ^ k →
    takeDigits (padN k f ++ r) = (f * 10 ^ (takeDigits r).2.1 + (takeDigits r).1, k + (takeDigits r).2.1, (takeDigits r).2.2)
  | 0, f, r, h => by
    have : f = 0 := by simpa using h
    subst this; simp [padN]
  | k + 1, f, r, h => by
    have hd : f % 10 < 10 := Nat.mod_lt _ (by omega)
    have hq : f / 10 < 10 ^ k := by
      rw [Nat.pow_succ] at h; omega
    simp only [padN, List.append_assoc, List.singleton_append]
    rw [takeDigits_pad k (f / 10) _ hq, takeDigits_dg hd]
    simp only []
    generalize (takeDigits r).2.1 = n
    generalize (takeDigits r).1 = v
    refine Prod.ext ?_ (Prod.ext ?_ rfl)
    · show f / 10 * 10 ^ (n + 1) + (f % 10 * 10 ^ n + v) = f * 10 ^ n + v
      have e : f / 10 * 10 ^ (n + 1) + f % 10 * 10 ^ n = f * 10 ^ n := by
        rw [Nat.pow_succ, Nat.mul_comm (10 ^ n) 10, ← Nat.mul_assoc, ← Nat.add_mul, Nat.div_add_mod' f 10]
      omega
    · show k + (n + 1) = k + 1 + n
      omega

/-- reading the trimmed fraction digits: value, scaled back, is the fraction -/
theorem takeDigits_frac : ∀ (k f : Nat) (r : List Nat), f < 10 ^ k → f ≠ 0 → takeDigits r = (0, 0, r) →
    (takeDigits (fracDigits k f ++ r)).2.2 = r ∧ (takeDigits (fracDigits k f ++ r)).2.1 ≤ k ∧
    (takeDigits (fracDigits k f ++ r)).2.1 ≠ 0 ∧
    (takeDigits (fracDigits k f ++ r)).1 * 10 ^ (k - (takeDigits (fracDigits k f ++ r)).2.1) = f
  | 0, f, r, h, h0, _ => by
    have : f = 0 := by simpa using h
    exact absurd this h0
  | k + 1, f, r, h, h0, hr => by
    simp only [fracDigits]
    by_cases c : f % 10 = 0
    · simp only [c, if_true]
      have hq : f / 10 < 10 ^ k := by rw [Nat.pow_succ] at h; omega
      have hq0 : f / 10 ≠ 0 := by omega
      obtain ⟨i1, i2, i3, i4⟩ := takeDigits_frac k (f / 10) r hq hq0 hr
      refine ⟨i1, by omega, i3, ?_⟩
      generalize (takeDigits (fracDigits k (f / 10) ++ r)).2.1 = n at i2 i3 i4 ⊢
      generalize (takeDigits (fracDigits k (f / 10) ++ r)).1 = v at i4 ⊢
      have : k + 1 - n = (k - n) + 1 := by omega
      rw [this, Nat.pow_succ, ← Nat.mul_assoc, i4]
      omega
    · simp only [c, if_false]
      rw [takeDigits_pad (k + 1) f r h, hr]
      simp

theorem undg_none_of {c : Nat} (h : c < 48 ∨ 57 < c) : undg c = none := by
  unfold undg
  have : ¬ (48 ≤ c ∧ c ≤ 57) := by omega
  simp [this]

theorem takeDigits_zone (off : Int) : takeDigits (zoneText off) = (0, 0, zoneText off) := by
  unfold zoneText
  by_cases h : off = 0
  · simp [h, takeDigits, undg_none_of (c := 90) (by omega)]
  · simp only [h, if_false]
    by_cases n : off < 0
    · simp [n, takeDigits, undg_none_of (c := 45) (by omega)]
    · simp [n, takeDigits, undg_none_of (c := 43) (by omega)]

theorem parseZone_rt (off : Int) (h60 : off % 60 = 0) (hlo : -86400 < off) (hhi : off < 86400) :
    parseZone (zoneText off) = some off := by
  unfold zoneText
  by_cases h : off = 0
  · simp [h, parseZone]
  · simp only [h, if_false]
    have ha : off.natAbs < 86400 := by omega
    have d1 : off.natAbs / 3600 / 10 < 10 := by omega
    have d2 : off.natAbs / 3600 % 10 < 10 := by omega
    have d3 : off.natAbs % 3600 / 60 / 10 < 10 := by omega
    have d4 : off.natAbs % 3600 / 60 % 10 < 10 := by omega
    have hv : (off.natAbs / 3600 / 10 * 10 + off.natAbs / 3600 % 10) * 3600 +
        (off.natAbs % 3600 / 60 / 10 * 10 + off.natAbs % 3600 / 60 % 10) * 60 = off.natAbs := by omega
    by_cases n : off < 0
    · simp only [n, if_true, parseZone, undg_dg d1, undg_dg d2, undg_dg d3, undg_dg d4, hv]
      simp; omega
    · simp only [n, if_false, parseZone, undg_dg d1, undg_dg d2, undg_dg d3, undg_dg d4, hv]
      simp; omega


theorem zone_head (off : Int) : (zoneText off).head? ≠ some 46 := by
  unfold zoneText
  by_cases h : off = 0
  · simp [h]
  · by_cases n : off < 0 <;> simp [h, n]

/-- **`parse ∘ format = id`.** For an instant (`ms`, `sub < 10^6`) shown in a zone `off` (whole minutes, less than a
day) whose civil year is within 0 … 9999 – i.e. whenever `MarshalText` succeeds – `time.Parse(RFC3339)` of the text
returns the same instant and the same offset. -/
theorem rfc3339_rt (ms : Int) (sub : Nat) (off : Int) (text : List Nat) (hsub : sub < 1000000)
    (h60 : off % 60 = 0) (hlo : -86400 < off) (hhi : off < 86400) (h : rfc3339 ms sub off = some text) :
    parseRFC3339 text = some (ms, sub, off) := by
  unfold rfc3339 at h
  simp only [] at h
  generalize hL : ms * 1000000 + (sub : Int) + off * 1000000000 = L at h
  generalize hsecs : L / 1000000000 = secs at h
  generalize hfrac : (L % 1000000000).toNat = frac at h
  generalize hdayZ : secs / 86400 = dayZ at h
  generalize hsod : (secs % 86400).toNat = sod at h
  have hfb : frac < 1000000000 ∧ (frac : Int) = L % 1000000000 := by omega
  have hsb : sod < 86400 ∧ (sod : Int) = secs % 86400 := by omega
  by_cases hneg : dayZ + (epochShift : Int) < 0
  · simp [hneg] at h
  · simp only [hneg, if_false] at h
    have hcr := civil_rt (dayZ + (epochShift : Int)).toNat
    rcases hc : civilOfDays (dayZ + (epochShift : Int)).toNat with ⟨y400, m, d⟩
    rw [hc] at h hcr
    simp only [] at h hcr
    obtain ⟨hD, hm1, hm12, hd1, hd31⟩ := hcr
    by_cases hy : y400 < 400 ∨ y400 > 10399
    · simp [hy] at h
    · simp only [hy, if_false, Option.some.injEq] at h
      subst h
      have b : ∀ {x : Nat}, x < 10 → undg (dg x) = some x := fun hx => undg_dg hx
      have y1 : (y400 - 400) / 1000 < 10 := by omega
      have y2 : (y400 - 400) / 100 % 10 < 10 := by omega
      have y3 : (y400 - 400) / 10 % 10 < 10 := by omega
      have y4 : (y400 - 400) % 10 < 10 := by omega
      have m1 : m / 10 < 10 := by omega
      have m2 : m % 10 < 10 := by omega
      have d1 : d / 10 < 10 := by omega
      have d2 : d % 10 < 10 := by omega
      have h1 : sod / 3600 / 10 < 10 := by omega
      have h2 : sod / 3600 % 10 < 10 := by omega
      have n1 : sod % 3600 / 60 / 10 < 10 := by omega
      have n2 : sod % 3600 / 60 % 10 < 10 := by omega
      have s1 : sod % 60 / 10 < 10 := by omega
      have s2 : sod % 60 % 10 < 10 := by omega
      have ey : (((y400 - 400) / 1000 * 10 + (y400 - 400) / 100 % 10) * 10 + (y400 - 400) / 10 % 10) * 10
          + (y400 - 400) % 10 + 400 = y400 := by omega
      have em : m / 10 * 10 + m % 10 = m := by omega
      have ed : d / 10 * 10 + d % 10 = d := by omega
      have es : (sod / 3600 / 10 * 10 + sod / 3600 % 10) * 3600 + (sod % 3600 / 60 / 10 * 10 + sod % 3600 / 60 % 10) * 60
          + (sod % 60 / 10 * 10 + sod % 60 % 10) = sod := by omega
      have hmd : ¬ (m = 0 ∨ m > 12 ∨ d = 0) := by omega
      have hDi : ((dayZ + (epochShift : Int)).toNat : Int) = dayZ + epochShift := by omega
      -- the tail: fraction and zone
      have tail : ∀ rest, rest = (if frac = 0 then [] else 46 :: fracDigits 9 frac) ++ zoneText off →
          (if rest.head? = some 46 then
            (if (takeDigits rest.tail).2.1 = 0 ∨ (takeDigits rest.tail).2.1 > 9 then none
             else some ((takeDigits rest.tail).1 * 10 ^ (9 - (takeDigits rest.tail).2.1), (takeDigits rest.tail).2.2))
           else some (0, rest)) = some (frac, zoneText off) := by
        intro rest hr
        by_cases f0 : frac = 0
        · simp only [f0, if_true, List.nil_append] at hr
          subst hr
          simp [zone_head off, f0]
        · simp only [f0, if_false, List.cons_append] at hr
          subst hr
          obtain ⟨t1, t2, t3, t4⟩ := takeDigits_frac 9 frac (zoneText off) (by omega) f0 (takeDigits_zone off)
          have ng : ¬ ((takeDigits (fracDigits 9 frac ++ zoneText off)).2.1 = 0 ∨
              (takeDigits (fracDigits 9 frac ++ zoneText off)).2.1 > 9) := by omega
          simp [ng, t1, t4]
      simp only [List.cons_append, List.nil_append, List.append_assoc, parseRFC3339,
        b y1, b y2, b y3, b y4, b m1, b m2, b d1, b d2, b h1, b h2, b n1, b n2, b s1, b s2]
      rw [tail _ rfl]
      simp only [parseZone_rt off h60 hlo hhi, ey, em, ed, es, hmd, if_false, hD]
      simp only [Option.some.injEq, Prod.mk.injEq]
      rw [hDi]
      refine ⟨?_, ?_, trivial⟩
      · omega
      · omega

end Uniflow.Codec
