/-
C02, joint model, one-in-port node kinds, part 17: the forward thread's steps – `Read` and `Link`.
-/
import Uniflow.Proofs.FlowH16

namespace Uniflow.FlowH
open Uniflow.Tracer Uniflow.Node Uniflow.Flow Uniflow.FlowInv Uniflow.FlowG Uniflow.ATracer
open Uniflow.ATracer (getL_setOrDel getL_aset)

/-- `Read`: the thread takes the next request from its inbox and enters the action -/
theorem HI_read (kinds : List Kind) (links : List (Nat × List Tgt)) (aa : Nat → A) (g : G)
    (h : HI kinds links aa D0 g) (n : Nat) (nd : Node) (p : Pkt) (rest : List Pkt)
    (hn : getNode g.nodes n = some nd) (ht : nd.threads = [{ inbox := p :: rest, pc := .idle }]) :
    ∃ nd', Node.step nd (.read 0) = some (nd', []) ∧ nd'.threads = [{ inbox := rest, pc := .action p [p] }] ∧
      HI kinds links (updA aa n (aread (aa n) 0 p.id)) D0 { g with nodes := setNode g.nodes n nd' } := by
  have hjb := h.jb n nd hn
  have hk : ∀ k, nd.kind ≠ .manyToOne k := by
    intro k e; have := h.kindOK n nd hn; rw [e] at this; exact this
  obtain ⟨hst, hjb'⟩ := jb_read nd (aa n) g.next hjb p rest ht hk
  refine ⟨_, hst, rfl, ?_⟩
  have hub : Unlogged g.log g.next := h.logBound g.next (Nat.le_refl _)
  have key := HI_node_step kinds links aa D0 g h n nd
    { nd with tr := Tracer.read nd.tr 0 p.id, threads := [{ inbox := rest, pc := .action p [p] }] }
    (aread (aa n) 0 p.id) g.log g.next g.next hn rfl hjb'
    (by
      intro th hth
      simp only [List.cons.injEq, and_true] at hth
      subst hth
      exact nl_read g.log n (aa n) p rest (h.nl n nd _ hn ht))
    (Nat.le_refl _)
    (by simp [heldN, ht, aread]) (fun w => rfl) (logExt_refl g.log g.next hub) (fun _ _ => rfl) h.logBound
    (Or.inl (Nat.le_refl _)) (ordAt_none g.log g.next g.next hub.2.1 hub.1)
  exact HI_congr _ links _ D0 _ _ key rfl rfl rfl rfl rfl rfl rfl rfl rfl

/-- `Link`: the next derived packet of the current request is registered -/
theorem HI_link (kinds : List Kind) (links : List (Nat × List Tgt)) (aa : Nat → A) (g : G)
    (h : HI kinds links aa D0 g) (n : Nat) (nd : Node) (inbox : List Pkt) (s t : Pid) (ops : List Op)
    (hn : getNode g.nodes n = some nd) (ht : nd.threads = [{ inbox := inbox, pc := .emit (.link s t :: ops) }])
    (acc : Bool) :
    ∃ nd', Node.step nd (.op 0 acc) = some (nd', []) ∧
      HI kinds links (updA aa n (alink (aa n) s t)) D0 { g with nodes := setNode g.nodes n nd' } := by
  have hjb := h.jb n nd hn
  have hnl := h.nl n nd _ hn ht
  obtain ⟨hst, hjb', _⟩ := jb_op nd (aa n) g.next hjb inbox (.link s t) ops ht acc
  have hg : getThread nd.threads 0 = some { inbox := inbox, pc := .emit (.link s t :: ops) } := by rw [ht]; rfl
  obtain ⟨cs, hX⟩ := ops_head_link (aa n).reqs s t ops (by have := hjb.j.th 0 _ hg; simpa [ThOK] using this)
  have hst' : s ≠ t := by
    intro e
    have hr : ReqA g.log n (.emit (.link s t :: ops)) ⟨s, 0, .cells cs⟩ := by
      rcases hnl.req _ hX with hr | ⟨v, _, _, e3⟩
      · exact hr
      · simp [remFor, remOps] at e3
    simp only [ReqA, remFor, remOps, if_true] at hr
    obtain ⟨_, _, _, _, _, _, _, a7⟩ := hr
    have h1 := (a7 t (by simp)).2
    have h2 := hnl.own _ hX
    simp only at h2
    rw [e, h1] at h2
    simp only [qTag, Option.some.injEq] at h2; omega
  refine ⟨_, hst, ?_⟩
  have hub : Unlogged g.log g.next := h.logBound g.next (Nat.le_refl _)
  have hfr := alink_frame (aa n) s t
  have key := HI_node_step kinds links aa D0 g h n nd
    { nd with tr := (tcall nd.tr (opCall acc (.link s t))).1, threads := [{ inbox := inbox, pc := nextPc ops }] }
    (alink (aa n) s t) g.log g.next g.next hn rfl hjb'
    (by
      intro th hth
      simp only [List.cons.injEq, and_true] at hth
      subst hth
      exact nl_link g.log n (aa n) inbox s t ops hnl hjb.j.inv.nodup cs hX hst')
    (Nat.le_refl _)
    (by simp only [heldN, hfr.1, ht]; rfl) (fun w => by rw [hfr.2])
    (logExt_refl g.log g.next hub) (fun _ _ => rfl) h.logBound
    (Or.inl (Nat.le_refl _)) (ordAt_none g.log g.next g.next hub.2.1 hub.1)
  exact HI_congr _ links _ D0 _ _ key rfl rfl rfl rfl rfl rfl rfl rfl rfl

end Uniflow.FlowH
