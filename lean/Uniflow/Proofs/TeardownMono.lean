/-
C03: no step of anybody increases the measure of a torn-down writer.

`mu c = 2·rows + buffered + held-back drop notices + answers in flight + responses owed + [pump
running]` (Proofs/Teardown.lean).  For a component whose writer is torn down (closed itself, or
every linked reader closed) every component step except a `steal` (a second consumer) and a `link`
(re-wiring the writer to a new reader un-tears it down: it accepts writes again) leaves `mu` where
it is or lower and leaves the writer torn down; the fair steps, when enabled, lower it strictly.
-/
import Uniflow.Proofs.TeardownNode

namespace Uniflow.TeardownProofs
open Uniflow Uniflow.Writer Uniflow.Teardown Uniflow.WriterProofs Uniflow.WriterSpec

theorem sum_sublist_le {l' l : List RId} (hs : l'.Sublist l) (f' f : RId → Nat) (hf : ∀ x ∈ l', f' x ≤ f x) :
    (l'.map f').sum ≤ (l.map f).sum := by
  induction hs with
  | slnil => simp
  | cons a _ ih =>
    simp only [List.map_cons, List.sum_cons]
    have := ih hf
    omega
  | cons_cons a _ ih =>
    simp only [List.map_cons, List.sum_cons]
    have h1 := hf a (by simp)
    have := ih (fun x hx => hf x (by simp [hx]))
    omega

/-- what the sums need: the readers only shrink, and on what is left nothing grows -/
theorem sums_of (m m' : W) (hs : m'.readers.Sublist m.readers)
    (hd : ∀ x ∈ m'.readers, (m'.drops x).length ≤ (m.drops x).length)
    (hf : ∀ x ∈ m'.readers, (m'.flight x).length ≤ (m.flight x).length) :
    dropSum m' ≤ dropSum m ∧ flightSum m' ≤ flightSum m ∧ ∀ x ∈ m'.readers, x ∈ m.readers :=
  ⟨sum_sublist_le hs _ _ hd, sum_sublist_le hs _ _ hf, fun _ hx => hs.subset hx⟩

theorem sums_same (m m' : W) (h1 : m'.readers = m.readers) (h2 : m'.drops = m.drops) (h3 : m'.flight = m.flight) :
    dropSum m' ≤ dropSum m ∧ flightSum m' ≤ flightSum m ∧ ∀ x ∈ m'.readers, x ∈ m.readers := by
  apply sums_of
  · rw [h1]; exact List.Sublist.refl _
  · intro x _; rw [h2]; exact Nat.le_refl _
  · intro x _; rw [h3]; exact Nat.le_refl _

/-- One critical section – other than a `link` on a writer that is not closed (on a closed one `Link`
refuses) – on a writer all of whose linked readers are closed
and owe nothing: the held-back drop notices and the answers in flight of the linked readers do
not grow, the set of linked readers does not grow. -/
theorem wstep_sums (m : W) (st : Writer.Step) (hl : m.done = true ∨ ∀ r, st ≠ .link r)
    (hcl : ∀ r ∈ m.readers, m.closed r = true) (hpc : ∀ r ∈ m.readers, m.pend r = []) :
    dropSum (Writer.step m st).1 ≤ dropSum m ∧ flightSum (Writer.step m st).1 ≤ flightSum m ∧
    ∀ x ∈ (Writer.step m st).1.readers, x ∈ m.readers := by
  have same : dropSum m ≤ dropSum m ∧ flightSum m ≤ flightSum m ∧ ∀ x ∈ m.readers, x ∈ m.readers :=
    ⟨Nat.le_refl _, Nat.le_refl _, fun _ h => h⟩
  cases st with
  | link r =>
    rcases hl with hd | hl
    · simp only [Writer.step, stepWith, hd, if_true]; exact same
    · exact absurd rfl (hl r)
  | unlink r =>
    simp only [Writer.step, stepWith]
    split
    · exact same
    split
    · exact same
    split
    · exact same
    · apply sums_of
      · exact List.eraseIdx_sublist _ _
      · intro x _; exact Nat.le_refl _
      · intro x _; exact Nat.le_refl _
  | write v =>
    simp only [Writer.step, stepWith]
    split
    · exact same
    split
    · exact same
    split
    · exact same
    split <;> exact sums_same _ _ rfl rfl rfl
  | answer r a =>
    simp only [Writer.step, stepWith]
    split
    · exact same
    · rename_i g rest _
      obtain ⟨h1, h2, _, h4⟩ := receive_rd { m with pend := fun x => if x = r then rest else m.pend x } a r g.1 g.2
      exact sums_same _ _ h1 h2 h4
  | pop r a =>
    simp only [Writer.step, stepWith]
    split
    · exact same
    · rename_i g rest hp
      have hr : r ∉ m.readers := fun hin => by rw [hpc r hin] at hp; cases hp
      apply sums_of
      · exact List.Sublist.refl _
      · intro x _; exact Nat.le_refl _
      · intro x hx
        have : x ≠ r := fun e => hr (e ▸ hx)
        simp [this]
  | deliver r k =>
    simp only [Writer.step, stepWith]
    split
    · exact same
    · rename_i e _
      obtain ⟨h1, h2, _, h4⟩ := receive_rd { m with flight := fun x => if x = r then (m.flight r).eraseIdx k else m.flight x } e.1 r e.2.1 e.2.2
      apply sums_of
      · rw [h1]; exact List.Sublist.refl _
      · intro x _; rw [h2]; exact Nat.le_refl _
      · intro x _
        rw [h4]
        simp only
        split
        · rename_i hx; subst hx; exact List.length_eraseIdx_le _ _
        · exact Nat.le_refl _
  | closeR r =>
    simp only [Writer.step, stepWith]
    split
    · exact same
    · rename_i hc
      have hr : r ∉ m.readers := fun hin => hc (hcl r hin)
      apply sums_of
      · exact List.Sublist.refl _
      · intro x hx
        have : x ≠ r := fun e => hr (e ▸ hx)
        simp [this]
      · intro x _; exact Nat.le_refl _
  | deliverDrop r =>
    simp only [Writer.step, stepWith]
    split
    · exact same
    · rename_i g rest hp
      obtain ⟨h1, h2, _, h4⟩ := receive_rd { m with drops := fun x => if x = r then rest else m.drops x } Ans.dropped r g.1 g.2
      apply sums_of
      · show (receive _ _ _ _ _).1.readers.Sublist m.readers
        rw [h1]; exact List.Sublist.refl _
      · intro x _
        show ((receive _ _ _ _ _).1.drops x).length ≤ _
        rw [h2]
        simp only
        split
        · rename_i hx; subst hx; rw [hp]; simp
        · exact Nat.le_refl _
      · intro x _
        show ((receive _ _ _ _ _).1.flight x).length ≤ _
        rw [h4]; exact Nat.le_refl _
  | closeW =>
    simp only [Writer.step, stepWith]
    split
    · exact same
    · apply sums_of
      · exact List.nil_sublist _
      · intro x hx; cases hx
      · intro x hx; cases hx

/-- component steps of other threads that are allowed: no second consumer, no re-wiring -/
def Safe (x : CStep) : Prop := x ≠ .steal ∧ ∀ r, x ≠ .w (.link r)

/-- … relative to a component: on a closed writer `Link` refuses, so it is harmless there. -/
def SafeAt (c : Comp) (x : CStep) : Prop := x ≠ .steal ∧ (c.w.done = true ∨ ∀ r, x ≠ .w (.link r))

theorem Safe.at {x : CStep} (h : Safe x) (c : Comp) : SafeAt c x := ⟨h.1, Or.inr h.2⟩

theorem torn_facts (c : Comp) (hb : Backed c) (ht : TornDown c) :
    (∀ r ∈ c.w.readers, c.w.closed r = true) ∧ (∀ r ∈ c.w.readers, c.w.pend r = []) := by
  obtain ⟨s, hR⟩ := hb
  have hcl : ∀ r ∈ c.w.readers, c.w.closed r = true := by
    rcases ht with hd | h
    · have : s.linked = [] := hR.inv.fin (by rw [← hR.done]; exact hd)
      intro r hr; rw [hR.readers, this] at hr; cases hr
    · exact h
  exact ⟨hcl, fun r hr => hR.pendClosed r (hcl r hr)⟩

theorem torn_not_accepted (m : W) (st : Writer.Step) (hd : m.done = true ∨ ∀ r ∈ m.readers, m.closed r = true) :
    accepts st (Writer.step m st).2 = false := by
  cases st with
  | write v =>
    simp only [Writer.step, stepWith]
    rcases hd with hd | hc
    · simp [hd, accepts]
    · split
      · simp [accepts]
      · split
        · simp [accepts]
        · have hacc : accepting m.closed m.readers = [] := by
            simp only [accepting, List.filter_eq_nil_iff]
            intro r hr; simp [hc r hr]
          split <;> simp [hacc, accepts]
  | link r => rfl
  | unlink r => rfl
  | answer r a => rfl
  | pop r a => rfl
  | deliver r k => rfl
  | closeR r => rfl
  | deliverDrop r => rfl
  | closeW => rfl

/-- **No step of anybody increases the measure of a torn-down writer** (component level): any
component step other than a second consumer's `steal` and a re-wiring `link` on a writer that is
not closed leaves `mu` where it
is or lower, and leaves the writer torn down. -/
theorem mu_step_le (c : Comp) (x : CStep) (hi : CInv c) (hb : Backed c) (ht : TornDown c) (hs : SafeAt c x) :
    mu (applyC .discard c x).1 ≤ mu c ∧ TornDown (applyC .discard c x).1 := by
  cases x with
  | steal => exact absurd rfl hs.1
  | recv =>
    simp only [applyC]
    split
    · rename_i hg
      cases hb' : c.p.buf with
      | cons a rest =>
        have hr : Pump.recv c.p = .got a := by simp [Pump.recv, hb']
        simp only [hr, mu, dropSum, flightSum, Pump.stepR, hb', List.length_cons, Comp.outstanding, List.length_append, List.length_nil]
        exact ⟨by omega, ht⟩
      | nil =>
        cases he : c.p.exited with
        | false =>
          have hr : Pump.recv c.p = .blocked := by simp [Pump.recv, hb', he]
          simp only [hr]; exact ⟨Nat.le_refl _, ht⟩
        | true =>
          have hr : Pump.recv c.p = .closed := by simp [Pump.recv, hb', he]
          simp only [hr, mu, dropSum, flightSum, Comp.outstanding, List.length_append, List.length_cons, List.length_nil]
          exact ⟨by omega, ht⟩
    · exact ⟨Nat.le_refl _, ht⟩
  | pumpExit =>
    simp only [applyC, Pump.stepR]
    split
    · refine ⟨?_, ht⟩
      simp only [mu, dropSum, flightSum, Comp.outstanding, List.length_nil, if_true]
      omega
    · exact ⟨Nat.le_refl _, ht⟩
  | w st =>
    have hl : c.w.done = true ∨ ∀ r, st ≠ .link r := hs.2.imp id (fun h r e => h r (by rw [e]))
    obtain ⟨hcl, hpc⟩ := torn_facts c hb ht
    obtain ⟨hds, hfs, hrd⟩ := wstep_sums c.w st hl hcl hpc
    obtain ⟨_, _, f3⟩ := step_facts c.w st hi.head
    have hna : accepts st (Writer.step c.w st).2 = false := torn_not_accepted c.w st ht
    rw [← accepts_eq, hna] at f3
    simp only [Bool.false_eq_true, if_false, Nat.add_zero] at f3
    have htd : TornDown (applyC .discard c (.w st)).1 := by
      simp only [applyC, TornDown]
      by_cases hd : c.w.done = true
      · exact Or.inl (done_quiet c.w st hd (hi.doneRows hd)).2.2
      · refine Or.inr (fun r hr => wstep_closed_mono c.w st r (hcl r (hrd r hr)))
    refine ⟨?_, htd⟩
    by_cases hd : c.w.done = true
    · -- closed writer: nothing is pushed
      obtain ⟨q1, _, _⟩ := done_quiet c.w st hd (hi.doneRows hd)
      have hbuf : (if isClose st then Pump.stepR .discard (enqAll .discard c.p (Writer.step c.w st).2.emits) .closeIn
          else enqAll .discard c.p (Writer.step c.w st).2.emits).buf = c.p.buf ∧
          (if isClose st then Pump.stepR .discard (enqAll .discard c.p (Writer.step c.w st).2.emits) .closeIn
          else enqAll .discard c.p (Writer.step c.w st).2.emits).exited = c.p.exited := by
        rw [q1, enqAll_nil]
        split <;> simp [Pump.stepR]
      simp only [applyC, mu, hna, Bool.false_eq_true, if_false, Nat.add_zero, Comp.outstanding, hbuf.1, hbuf.2]
      rw [q1] at f3
      simp only [List.length_nil, Nat.zero_add] at f3
      omega
    · have hd' : c.w.done = false := by simpa using hd
      have hic : c.p.inClosed = false := by rw [hi.closed]; exact hd'
      obtain ⟨e1, _, _, _, e5⟩ := enqAll_open .discard c.p (Writer.step c.w st).2.emits hic
      have hbuf : (if isClose st then Pump.stepR .discard (enqAll .discard c.p (Writer.step c.w st).2.emits) .closeIn
          else enqAll .discard c.p (Writer.step c.w st).2.emits).buf = c.p.buf ++ (Writer.step c.w st).2.emits ∧
          (if isClose st then Pump.stepR .discard (enqAll .discard c.p (Writer.step c.w st).2.emits) .closeIn
          else enqAll .discard c.p (Writer.step c.w st).2.emits).exited = c.p.exited := by
        split <;> simp [Pump.stepR, e1, e5]
      simp only [applyC, mu, hna, Bool.false_eq_true, if_false, Nat.add_zero, Comp.outstanding, hbuf.1, hbuf.2, List.length_append]
      omega

/-! ### Fair steps that are enabled, and counting them -/

/-- `x` is one of the fair steps (`IsFair`) and it is enabled in `c`: the requester is owed
something and a packet is buffered or the channel is closed (`recv`); the writer is closed and its
pump goroutine has not returned yet (`pumpExit`); a held-back drop notice / an answer in flight
of a linked reader of a writer that is not closed (`deliverDrop r` / `deliver r 0`). -/
def fairEnabled (c : Comp) : CStep → Bool
  | .recv => decide (c.outstanding > 0) && (!c.p.buf.isEmpty || c.p.exited)
  | .pumpExit => c.p.inClosed && !c.p.exited
  | .w (.deliverDrop r) => decide (r ∈ c.w.readers) && !c.w.done && decide ((c.w.drops r).length > 0)
  | .w (.deliver r k) => decide (k = 0) && decide (r ∈ c.w.readers) && !c.w.done && decide ((c.w.flight r).length > 0)
  | _ => false

theorem fairEnabled_fair (c : Comp) (x : CStep) (h : fairEnabled c x = true) : IsFair x ∧ Safe x := by
  cases x with
  | recv => exact ⟨Or.inl rfl, by simp [Safe]⟩
  | pumpExit => exact ⟨Or.inr (Or.inl rfl), by simp [Safe]⟩
  | steal => simp [fairEnabled] at h
  | w st =>
    cases st with
    | deliverDrop r => exact ⟨Or.inr (Or.inr (Or.inl ⟨r, rfl⟩)), by simp [Safe]⟩
    | deliver r k =>
      simp only [fairEnabled, Bool.and_eq_true, decide_eq_true_eq] at h
      obtain ⟨⟨⟨hk, _⟩, _⟩, _⟩ := h
      subst hk
      exact ⟨Or.inr (Or.inr (Or.inr ⟨r, rfl⟩)), by simp [Safe]⟩
    | link r => simp [fairEnabled] at h
    | unlink r => simp [fairEnabled] at h
    | write v => simp [fairEnabled] at h
    | answer r a => simp [fairEnabled] at h
    | pop r a => simp [fairEnabled] at h
    | closeR r => simp [fairEnabled] at h
    | closeW => simp [fairEnabled] at h

/-- **Every enabled fair step strictly decreases the measure.** -/
theorem fair_decreases (c : Comp) (x : CStep) (hi : CInv c) (hb : Backed c) (h : fairEnabled c x = true) :
    mu (applyC .discard c x).1 < mu c := by
  cases x with
  | recv =>
    simp only [fairEnabled, Bool.and_eq_true, decide_eq_true_eq, Bool.or_eq_true, Bool.not_eq_true', List.isEmpty_eq_false_iff] at h
    exact (recv_decreases c hi h.1 h.2).1
  | pumpExit =>
    simp only [fairEnabled, Bool.and_eq_true, Bool.not_eq_true'] at h
    exact (exit_decreases c h.1 h.2).1
  | steal => simp [fairEnabled] at h
  | w st =>
    cases st with
    | deliverDrop r =>
      simp only [fairEnabled, Bool.and_eq_true, decide_eq_true_eq, Bool.not_eq_true'] at h
      exact (drop_decreases c hi hb r h.1.1 h.1.2 h.2).1
    | deliver r k =>
      simp only [fairEnabled, Bool.and_eq_true, decide_eq_true_eq, Bool.not_eq_true'] at h
      obtain ⟨⟨⟨hk, hr⟩, hd⟩, hf⟩ := h
      subst hk
      exact (deliver_decreases c hi hb r hr hd hf).1
    | link r => simp [fairEnabled] at h
    | unlink r => simp [fairEnabled] at h
    | write v => simp [fairEnabled] at h
    | answer r a => simp [fairEnabled] at h
    | pop r a => simp [fairEnabled] at h
    | closeR r => simp [fairEnabled] at h
    | closeW => simp [fairEnabled] at h

/-- **Progress**: while the requester of a torn-down writer is owed anything, a fair step is
enabled. -/
theorem fair_progress (c : Comp) (hi : CInv c) (hb : Backed c) (ht : TornDown c) (ho : c.outstanding > 0) :
    ∃ x, fairEnabled c x = true := by
  rcases enabled c hi hb ht ho with h | h | ⟨hd, r, hr, h | h⟩
  · refine ⟨.recv, ?_⟩
    cases hb' : c.p.buf with
    | nil => exact absurd hb' h
    | cons a l => simp [fairEnabled, ho, hb']
  · exact ⟨.recv, by simp [fairEnabled, ho, h]⟩
  · exact ⟨.w (.deliverDrop r), by simp [fairEnabled, hr, hd, h]⟩
  · exact ⟨.w (.deliver r 0), by simp [fairEnabled, hr, hd, h]⟩

/-- What is carried along: the component invariant, backing by a C01 specification state, torn
down – and closed, if it was closed at teardown time (`d`). -/
structure Torn (d : Bool) (c : Comp) : Prop where
  inv : CInv c
  backed : Backed c
  torn : TornDown c
  done : d = true → c.w.done = true

/-- The steps allowed after the teardown: no second consumer; no `link` unless the writer was
closed (`d = true`). -/
def SafeD (d : Bool) (x : CStep) : Prop := x ≠ .steal ∧ (d = false → ∀ r, x ≠ .w (.link r))

theorem SafeD.at {d : Bool} {x : CStep} {c : Comp} (h : SafeD d x) (hd : d = true → c.w.done = true) : SafeAt c x := by
  refine ⟨h.1, ?_⟩
  cases d with
  | true => exact Or.inl (hd rfl)
  | false => exact Or.inr (h.2 rfl)

theorem internal_safeD (d : Bool) (x : CStep) (h : Internal x) : SafeD d x := by
  cases x with
  | recv => simp [SafeD]
  | steal => exact absurd h (by simp [Internal])
  | pumpExit => exact absurd h (by simp [Internal])
  | w st => cases st <;> first | (simp [SafeD]; done) | exact absurd h (by simp [Internal])

theorem applyC_done (c : Comp) (x : CStep) (hi : CInv c) (hd : c.w.done = true) :
    (applyC .discard c x).1.w.done = true := by
  cases x with
  | w s => exact (done_quiet c.w s hd (hi.doneRows hd)).2.2
  | recv =>
    simp only [applyC]
    split
    · split <;> exact hd
    · exact hd
  | steal => exact hd
  | pumpExit => exact hd

theorem torn_applyC (d : Bool) (c : Comp) (x : CStep) (h : Torn d c) (hs : SafeD d x) :
    mu (applyC .discard c x).1 ≤ mu c ∧ Torn d (applyC .discard c x).1 := by
  obtain ⟨hm, ht⟩ := mu_step_le c x h.inv h.backed h.torn (hs.at h.done)
  refine ⟨hm, cinv_step c x h.inv hs.1, backed_applyC .discard c x h.backed, ht, ?_⟩
  intro hd
  exact applyC_done c x h.inv (h.done hd)

theorem torn_runC (d : Bool) (cs : List CStep) : ∀ c : Comp, Torn d c → (∀ x ∈ cs, SafeD d x) →
    mu (runC .discard c cs) ≤ mu c ∧ Torn d (runC .discard c cs) := by
  induction cs with
  | nil => intro c h _; exact ⟨Nat.le_refl _, h⟩
  | cons x rest ih =>
    intro c h hs
    obtain ⟨h1, h2⟩ := torn_applyC d c x h (hs x (List.mem_cons_self ..))
    obtain ⟨h3, h4⟩ := ih _ h2 (fun y hy => hs y (List.mem_cons_of_mem _ hy))
    exact ⟨Nat.le_trans h3 h1, h4⟩

/-! ### System level -/

/-- The steps of a history allowed after the teardown of writer `w` (closed: `d = true`; only its
readers closed: `d = false`): nobody else consumes from a `Receive()` channel (as everywhere in
C03), and – `d = false` – `w` is not wired to another reader.  Everything else is allowed: every
critical section of every thread on every writer and reader (on `w` too), node loop iterations,
sink answers, further teardown actions. -/
def After (w : WId) (d : Bool) : WId → CStep → Prop :=
  fun x c => c ≠ .steal ∧ (x = w → d = false → ∀ r, c ≠ .w (.link r))

theorem after_internal (w : WId) (d : Bool) : ∀ x c, Internal c → After w d x c := by
  intro x c h
  exact ⟨(internal_safeD d c h).1, fun _ => (internal_safeD d c h).2⟩

/-- `st` is an enabled fair step of writer `w` in state `s`. -/
def fairStepOf (w : WId) (s : Sys) : Teardown.Step → Bool
  | .prim x c => decide (x = w) && fairEnabled (s.comp w) c
  | _ => false

/-- The number of enabled fair steps of `w` a history takes from `s`. -/
def fairTaken (t : Topo) (w : WId) : Sys → List Teardown.Step → Nat
  | _, [] => 0
  | s, st :: rest => (if fairStepOf w s st then 1 else 0) + fairTaken t w (Teardown.step .discard t s st).1 rest

/-- **One step of anybody**: the measure of the torn-down writer `w` does not increase, `w` stays
torn down; if the step is an enabled fair step of `w` the measure strictly decreases. -/
theorem sys_step_le (t : Topo) (s : Sys) (w : WId) (d : Bool) (st : Teardown.Step)
    (hg : Torn d (s.comp w)) (hst : StepQ (After w d) st) :
    (if fairStepOf w s st then 1 else 0) + mu ((Teardown.step .discard t s st).1.comp w) ≤ mu (s.comp w) ∧
    Torn d ((Teardown.step .discard t s st).1.comp w) := by
  obtain ⟨cs, hq, e⟩ := (step_evolvesQ .discard (After w d) (after_internal w d) t s st hst).1 w
  have hq' : ∀ x ∈ cs, SafeD d x := fun x hx => ⟨(hq x hx).1, (hq x hx).2 rfl⟩
  obtain ⟨hm, hT⟩ := torn_runC d cs _ hg hq'
  rw [← e] at hm hT
  refine ⟨?_, hT⟩
  cases hf : fairStepOf w s st with
  | false => simpa using hm
  | true =>
    cases st with
    | prim x c =>
      simp only [fairStepOf, Bool.and_eq_true, decide_eq_true_eq] at hf
      obtain ⟨hx, hf⟩ := hf
      subst hx
      have hc : (Teardown.step .discard t s (.prim x c)).1.comp x = (applyC .discard (s.comp x) c).1 := by
        show (applyPrim .discard t s x c).1.comp x = _
        rw [applyPrim_comp]; simp
      rw [hc]
      have := fair_decreases (s.comp x) c hg.inv hg.backed hf
      simp only [if_true]; omega
    | fwd _ _ => simp [fairStepOf] at hf
    | bwd _ => simp [fairStepOf] at hf
    | fwdEnd _ _ => simp [fairStepOf] at hf
    | sinkAnswer _ _ => simp [fairStepOf] at hf
    | bwdLate _ => simp [fairStepOf] at hf
    | down _ => simp [fairStepOf] at hf

/-- **Any continuation**: along every history of allowed steps – any interleaving of anybody's
steps – the enabled fair steps of `w` that are taken plus the measure at the end are bounded by
the measure at the start, and `w` stays torn down. -/
theorem sys_run_le (t : Topo) (w : WId) (d : Bool) (h' : List Teardown.Step) : ∀ s : Sys,
    Torn d (s.comp w) → RunQ (After w d) h' →
    fairTaken t w s h' + mu ((Teardown.run .discard t s h').comp w) ≤ mu (s.comp w) ∧
    Torn d ((Teardown.run .discard t s h').comp w) := by
  induction h' with
  | nil => intro s hg _; exact ⟨by simp [fairTaken, Teardown.run], hg⟩
  | cons st rest ih =>
    intro s hg hq
    obtain ⟨h1, h2⟩ := sys_step_le t s w d st hg (hq st (List.mem_cons_self ..))
    obtain ⟨h3, h4⟩ := ih _ h2 (fun y hy => hq y (List.mem_cons_of_mem _ hy))
    refine ⟨?_, h4⟩
    simp only [fairTaken, Teardown.run]
    omega

end Uniflow.TeardownProofs
