/-
Fuel sufficiency for the four queue / stack loops of the symbol-table model: with the fuel the
model computes (`bfsFuel`, `kahnFuel`, `actFuel`) none of them runs out, so `Ret.panic` is
unreachable.
-/
import Uniflow.Props.C06

namespace Uniflow.Table

/-! ### weight of the not yet visited keys of a Go map -/

def sumUnvis {β : Type} (w : β → Nat) (vis : List Nat) (l : List (Nat × β)) : Nat :=
  ((l.filter (fun p => decide (p.1 ∉ vis))).map (fun p => w p.2)).sum

theorem sumUnvis_mono {β : Type} (w : β → Nat) (vis : List Nat) (k : Nat) (l : List (Nat × β)) :
    sumUnvis w (k :: vis) l ≤ sumUnvis w vis l := by
  induction l with
  | nil => simp [sumUnvis]
  | cons p l ih =>
    unfold sumUnvis at ih ⊢
    simp only [List.filter_cons]
    by_cases h1 : p.1 ∈ vis
    · have h2 : p.1 ∈ k :: vis := List.mem_cons_of_mem _ h1
      simp only [h1, h2, not_true_eq_false, decide_false, Bool.false_eq_true, ↓reduceIte]
      exact ih
    · by_cases h2 : p.1 = k
      · have h3 : p.1 ∈ k :: vis := by rw [h2]; simp
        simp only [h1, h3, not_true_eq_false, not_false_eq_true, decide_false, decide_true, if_true, Bool.false_eq_true, ↓reduceIte,
          List.map_cons, List.sum_cons]
        omega
      · have h3 : p.1 ∉ k :: vis := by simp [h1, h2]
        simp only [h1, h3, not_false_eq_true, decide_true, if_true, List.map_cons, List.sum_cons]
        omega

theorem sumUnvis_cons {β : Type} (w : β → Nat) (vis : List Nat) (l : List (Nat × β)) (k : Nat) (v : β)
    (hm : (k, v) ∈ l) (hk : k ∉ vis) : sumUnvis w (k :: vis) l + w v ≤ sumUnvis w vis l := by
  induction l with
  | nil => cases hm
  | cons p l ih =>
    have hmono := sumUnvis_mono w vis k l
    unfold sumUnvis at ih hmono ⊢
    simp only [List.filter_cons]
    rcases List.mem_cons.mp hm with e | hin
    · subst e
      have h3 : k ∈ k :: vis := by simp
      simp only [hk, h3, not_true_eq_false, not_false_eq_true, decide_false, decide_true, if_true, Bool.false_eq_true, ↓reduceIte,
        List.map_cons, List.sum_cons]
      omega
    · have := ih hin
      by_cases h1 : p.1 ∈ vis
      · have h2 : p.1 ∈ k :: vis := List.mem_cons_of_mem _ h1
        simp only [h1, h2, not_true_eq_false, decide_false, Bool.false_eq_true, ↓reduceIte]
        exact this
      · by_cases h2 : p.1 = k
        · have h3 : p.1 ∈ k :: vis := by rw [h2]; simp
          simp only [h1, h3, not_true_eq_false, not_false_eq_true, decide_false, decide_true, if_true, Bool.false_eq_true, ↓reduceIte,
            List.map_cons, List.sum_cons]
          omega
        · have h3 : p.1 ∉ k :: vis := by simp [h1, h2]
          simp only [h1, h3, not_false_eq_true, decide_true, if_true, List.map_cons, List.sum_cons]
          omega

theorem sumUnvis_nil_vis {β : Type} (w : β → Nat) (l : List (Nat × β)) :
    sumUnvis w [] l = (l.map (fun p => w p.2)).sum := by
  induction l with
  | nil => rfl
  | cons p l ih =>
    unfold sumUnvis at ih ⊢
    simp only [List.not_mem_nil, not_false_eq_true, decide_true] at ih
    simp [List.filter_cons, ih]

theorem length_flatMap_perm {α β : Type} {l l' : List α} (h : l'.Perm l) (f : α → List β) :
    (l'.flatMap f).length = (l.map (fun x => (f x).length)).sum := by
  rw [List.length_flatMap]
  exact (h.map _).sum_nat

/-! ### `isActivated` -/

theorem pushRefs_fold_len (st : State) (hk : KeyId st) (c : Sym) (rs : List Ref) (stk stk' : List Sym)
    (h : rs.foldl (pushRefs st c) (some stk) = some stk') (hl : ∀ s ∈ stk, aget s.id st.symbols = some s) :
    stk'.length = stk.length + rs.length ∧ ∀ s ∈ stk', aget s.id st.symbols = some s := by
  induction rs generalizing stk with
  | nil => simp at h; subst h; exact ⟨rfl, hl⟩
  | cons r rs ih =>
    simp only [List.foldl_cons] at h
    cases hr : aget (resolve st c.ns r) st.symbols with
    | none =>
      have : pushRefs st c (some stk) r = none := by simp [pushRefs, hr]
      rw [this] at h
      have hn : ∀ (l : List Ref), l.foldl (pushRefs st c) none = none := by
        intro l; induction l with
        | nil => rfl
        | cons a l ih => simpa [pushRefs] using ih
      rw [hn] at h; cases h
    | some t =>
      by_cases hns : t.ns = c.ns
      · have : pushRefs st c (some stk) r = some (t :: stk) := by simp [pushRefs, hr, hns]
        rw [this] at h
        have hl' : ∀ s ∈ t :: stk, aget s.id st.symbols = some s := by
          intro s hs
          rcases List.mem_cons.mp hs with e | hs
          · subst e; rw [hk _ _ hr]; exact hr
          · exact hl s hs
        obtain ⟨h1, h2⟩ := ih (t :: stk) h hl'
        exact ⟨by rw [h1]; simp; omega, h2⟩
      · have : pushRefs st c (some stk) r = none := by simp [pushRefs, hr, hns]
        rw [this] at h
        have hn : ∀ (l : List Ref), l.foldl (pushRefs st c) none = none := by
          intro l; induction l with
          | nil => rfl
          | cons a l ih => simpa [pushRefs] using ih
        rw [hn] at h; cases h

theorem actLoop_fuel (o : Ord) (ho : o.Valid) (st : State) (hk : KeyId st) (f : Nat) (stack : List Sym)
    (vis : List Nat) (hl : ∀ s ∈ stack, aget s.id st.symbols = some s)
    (hf : stack.length + sumUnvis refsLen vis st.symbols ≤ f) : actLoop o st f stack vis ≠ none := by
  induction f generalizing stack vis with
  | zero =>
    cases stack with
    | nil => simp [actLoop]
    | cons c s => simp at hf
  | succ f ih =>
    cases stack with
    | nil => simp [actLoop]
    | cons c stk =>
      simp only [actLoop]
      have hlstk : ∀ s ∈ stk, aget s.id st.symbols = some s := fun s hs => hl s (List.mem_cons_of_mem _ hs)
      split
      · exact ih stk vis hlstk (by simp at hf; omega)
      · rename_i hv
        split
        · simp
        · split
          · simp
          · rename_i stk' hsome
            obtain ⟨h1, h2⟩ := pushRefs_fold_len st hk c _ stk stk' hsome hlstk
            refine ih stk' (c.id :: vis) h2 ?_
            have hlen : ((o.ports (2000 + f) c.ports).flatMap (·.2)).length = refsLen c :=
              length_flatMap_perm (ho.2.1 _ _) _
            have hc := sumUnvis_cons refsLen vis st.symbols c.id c (mem_of_aget (hl c (by simp))) hv
            rw [h1, hlen]
            simp at hf
            omega

theorem isActivated_ne_none (o : Ord) (ho : o.Valid) (st : State) (hk : KeyId st) (sb : Sym) :
    isActivated o st sb ≠ none := by
  unfold isActivated actFuel
  have e : 2 + refsLen sb + specCount st.symbols = (1 + refsLen sb + specCount st.symbols) + 1 := by omega
  rw [e]
  simp only [actLoop, List.not_mem_nil, if_false]
  split
  · simp
  · split
    · simp
    · rename_i stk' hsome
      obtain ⟨h1, h2⟩ := pushRefs_fold_len st hk sb _ [] stk' hsome (by simp)
      refine actLoop_fuel o ho st hk _ stk' [sb.id] h2 ?_
      have hlen : ((o.ports (2000 + (1 + refsLen sb + specCount st.symbols)) sb.ports).flatMap (·.2)).length
          = refsLen sb := length_flatMap_perm (ho.2.1 _ _) _
      have hm := sumUnvis_mono refsLen [] sb.id st.symbols
      rw [sumUnvis_nil_vis] at hm
      rw [h1, hlen]
      unfold specCount
      simp only [List.length_nil] 
      unfold refsLen at hm ⊢
      omega


/-! ### first queue loop of `linked` -/

def cntMap (m : PortMap) : Nat := (m.map (fun q => q.2.length)).sum

theorem refCount_eq (refs : List (Nat × PortMap)) : refCount refs = sumUnvis cntMap [] refs := by
  rw [sumUnvis_nil_vis]; rfl

theorem entries_length (o : Ord) (ho : o.Valid) (tag : Nat) (st : State) (id : Nat) :
    (entries o tag st id).length =
      match aget id st.references with | none => 0 | some m => cntMap m := by
  unfold entries
  cases aget id st.references with
  | none => rfl
  | some m => exact length_flatMap_perm (ho.2.1 _ _) _

theorem referrers_length_le (o : Ord) (tag : Nat) (st : State) (c : Sym) :
    (referrers o tag st c).length ≤ (entries o tag st c.id).length := by
  unfold referrers; exact List.length_filterMap_le _ _

theorem bfs_fuel (o : Ord) (ho : o.Valid) (st : State) (f : Nat) (q : List Sym) (vis : List Nat) (deg : Deg)
    (hf : q.length + sumUnvis cntMap vis st.references ≤ f) : bfs o st f q vis deg ≠ none := by
  induction f generalizing q vis deg with
  | zero =>
    cases q with
    | nil => simp [bfs]
    | cons c s => simp at hf
  | succ f ih =>
    cases q with
    | nil => simp [bfs]
    | cons c q =>
      simp only [bfs]
      split
      · exact ih q vis deg (by simp at hf; omega)
      · rename_i hv
        apply ih
        have h1 := referrers_length_le o (10 + f) st c
        rw [entries_length o ho] at h1
        simp only [List.length_append]
        simp at hf
        cases ha : aget c.id st.references with
        | none =>
          rw [ha] at h1
          simp only at h1
          have := sumUnvis_mono cntMap vis c.id st.references
          omega
        | some m =>
          rw [ha] at h1
          have := sumUnvis_cons cntMap vis st.references c.id m (mem_of_aget ha) hv
          simp only at h1
          omega

/-! ### the Kahn queue loop -/

theorem degSum_aset (d : Deg) (k : Nat) (s : Sym) (v : Int) :
    degSum (aset k (s, v) d) + (dget d k).toNat = degSum d + v.toNat := by
  induction d with
  | nil => simp [aset, degSum, dget, aget]
  | cons p d ih =>
    obtain ⟨a, b, c⟩ := p
    by_cases h : a = k
    · subst h; simp [aset, degSum, dget, aget]; omega
    · have e : dget ((a, b, c) :: d) k = dget d k := by simp [dget, aget, h]
      rw [e]
      simp only [aset, h, if_false, degSum, List.map_cons, List.sum_cons] at ih ⊢
      omega

theorem kahnStep_pot (acc : Deg × List Sym) (n : Sym) :
    (kahnStep acc n).2.length + degSum (kahnStep acc n).1 ≤ acc.2.length + degSum acc.1 := by
  have h := degSum_aset acc.1 n.id n (dget acc.1 n.id + -1)
  unfold kahnStep
  simp only [dget_dadd_self]
  unfold dadd
  split
  · rename_i h0
    simp only [List.length_append, List.length_cons, List.length_nil]
    have h1 : dget acc.1 n.id = 1 := by omega
    rw [h1] at h ⊢
    have e1 : (1 : Int).toNat = 1 := rfl
    have e2 : ((1 : Int) + -1).toNat = 0 := rfl
    rw [e1, e2] at h
    omega
  · simp only
    have : (dget acc.1 n.id + -1).toNat ≤ (dget acc.1 n.id).toNat := by omega
    omega

theorem kahnStep_fold_pot (ns : List Sym) (acc : Deg × List Sym) :
    (ns.foldl kahnStep acc).2.length + degSum (ns.foldl kahnStep acc).1 ≤ acc.2.length + degSum acc.1 := by
  induction ns generalizing acc with
  | nil => exact Nat.le_refl _
  | cons n ns ih => exact Nat.le_trans (ih _) (kahnStep_pot acc n)

theorem kahn_fuel (succ : Nat → Sym → List Sym) (f : Nat) (q out : List Sym) (deg : Deg)
    (hf : q.length + degSum deg ≤ f) : kahn succ f q out deg ≠ none := by
  induction f generalizing q out deg with
  | zero =>
    cases q with
    | nil => simp [kahn]
    | cons c s => simp at hf
  | succ f ih =>
    cases q with
    | nil => simp [kahn]
    | cons c q =>
      simp only [kahn]
      split
      · exact ih q out deg (by simp at hf; omega)
      · apply ih
        have := kahnStep_fold_pot (succ f c) (deg, q)
        simp at hf this ⊢
        omega

theorem linked_ne_none (o : Ord) (ho : o.Valid) (st : State) (sb : Sym) : linked o st sb ≠ none := by
  unfold linked
  have hb := bfs_fuel o ho st (bfsFuel st) [sb] [] [] (by
    unfold bfsFuel; rw [refCount_eq]; simp)
  cases h : bfs o st (bfsFuel st) [sb] [] [] with
  | none => exact absurd h hb
  | some deg =>
    simp only
    have hk := kahn_fuel (fun f c => referrers o (1000 + f) st c) (kahnFuel [sb] deg) [sb] [] deg
      (Nat.le_refl _)
    cases h2 : kahn (fun f c => referrers o (1000 + f) st c) (kahnFuel [sb] deg) [sb] [] deg with
    | none => exact absurd h2 hk
    | some r => obtain ⟨a, b⟩ := r; simp

theorem closeOrder_ne_none (o : Ord) (st : State) : closeOrder o st ≠ none := by
  unfold closeOrder
  simp only
  generalize (o.syms 2 st.symbols).foldl _ [] = deg0
  have hk := kahn_fuel (targetsOf o st)
    (kahnFuel (((o.deg 2 deg0).filter (fun p => p.2.2 = 0)).map (·.2.1)) deg0)
    (((o.deg 2 deg0).filter (fun p => p.2.2 = 0)).map (·.2.1)) [] deg0 (Nat.le_refl _)
  cases h2 : kahn (targetsOf o st)
    (kahnFuel (((o.deg 2 deg0).filter (fun p => p.2.2 = 0)).map (·.2.1)) deg0)
    (((o.deg 2 deg0).filter (fun p => p.2.2 = 0)).map (·.2.1)) [] deg0 with
  | none => exact absurd h2 hk
  | some r => obtain ⟨a, b⟩ := r; simp


/-! ### no operation returns `panic` -/

theorem loadLoop_ne_panic (o : Ord) (ho : o.Valid) (st : State) (hk : KeyId st) (l : List Sym) :
    (loadLoop o st l).2 ≠ .panic := by
  induction l generalizing st with
  | nil => simp [loadLoop]
  | cons x xs ih =>
    unfold loadLoop
    have hn := isActivated_ne_none o ho st hk x
    cases ha : isActivated o st x with
    | none => exact absurd ha hn
    | some b =>
      cases b with
      | false => exact ih st hk
      | true =>
        simp only
        obtain ⟨evs, hst, hres⟩ := notify_spec st x .init .begin Event.load
        have hu : isUnl Phase.init = false := rfl
        rw [hu] at hst hres
        cases hnf : notify st x false .init .begin Event.load with
        | mk st1 r =>
          rw [hnf] at hst hres
          simp only at hst hres
          rcases hres with ⟨hok, _⟩ | ⟨es, herr, _⟩
          · subst hok; subst hst
            exact ih _ (fun k s h => hk k s h)
          · subst herr; simp

theorem unloadLoop_ne_panic (o : Ord) (ho : o.Valid) (st : State) (hk : KeyId st) (l : List Sym) :
    (unloadLoop o st l).2 ≠ .panic := by
  induction l generalizing st with
  | nil => simp [unloadLoop]
  | cons x xs ih =>
    unfold unloadLoop
    have hn := isActivated_ne_none o ho st hk x
    cases ha : isActivated o st x with
    | none => exact absurd ha hn
    | some b =>
      cases b with
      | false => exact ih st hk
      | true =>
        simp only
        obtain ⟨evs, hst, hres⟩ := notify_spec st x .term .final Event.unload
        have hu : isUnl Phase.term = true := rfl
        rw [hu] at hst hres
        cases hnf : notify st x true .term .final Event.unload with
        | mk st1 r =>
          rw [hnf] at hst hres
          simp only at hst hres
          rcases hres with ⟨hok, _⟩ | ⟨es, herr, _⟩
          · subst hok; subst hst
            exact ih _ (fun k s h => hk k s h)
          · subst herr; simp

theorem load_ne_panic (o : Ord) (ho : o.Valid) (st : State) (hk : KeyId st) (sb : Sym) :
    (load o st sb).2 ≠ .panic := by
  unfold load
  have := linked_ne_none o ho st sb
  cases h : linked o st sb with
  | none => exact absurd h this
  | some l => exact loadLoop_ne_panic o ho st hk l

theorem unload_ne_panic (o : Ord) (ho : o.Valid) (st : State) (hk : KeyId st) (sb : Sym) :
    (unload o st sb).2 ≠ .panic := by
  unfold unload
  have := linked_ne_none o ho st sb
  cases h : linked o st sb with
  | none => exact absurd h this
  | some l => exact unloadLoop_ne_panic o ho st hk l.reverse

theorem free_ne_panic (o : Ord) (ho : o.Valid) (st : State) (hk : KeyId st) (id : Nat) :
    (free o st id).2.1 ≠ .panic := by
  rw [free_eq]
  cases aget id st.symbols with
  | none => simp
  | some sb =>
    simp only
    split
    · simp
    · exact unload_ne_panic o ho st hk sb

theorem insert_ne_panic (o : Ord) (ho : o.Valid) (st : State) (hk : KeyId st) (sb : Sym) :
    (insert o st sb).2 ≠ .panic := by
  have hk' : KeyId (insert o st sb).1 := keyId_insert o st sb hk
  unfold insert
  apply load_ne_panic o ho
  intro k s h
  have : aget k (insert o st sb).1.symbols = some s := by
    rw [insert_symbols]
    split at h <;> exact h
  exact hk' k s this

theorem freeAll_ne_panic (o : Ord) (ho : o.Valid) (st : State) (hk : KeyId st) (l : List Sym) :
    (freeAll o st l).2 ≠ .panic := by
  induction l generalizing st with
  | nil => simp [freeAll]
  | cons x xs ih =>
    unfold freeAll
    have h1 := free_ne_panic o ho st hk x.id
    have h2 := keyId_free o st x.id hk
    cases hf : free o st x.id with
    | mk st1 rb =>
      obtain ⟨r, b⟩ := rb
      rw [hf] at h1 h2
      cases r with
      | ok => exact ih st1 h2
      | err es => simp
      | panic => exact absurd rfl h1

theorem step_ne_panic (o : Ord) (ho : o.Valid) (st : State) (hk : KeyId st) (op : Op) :
    (step o st op).2.1 ≠ .panic := by
  cases op with
  | insert sb =>
    rw [step_insert_eq]
    split
    · exact insert_ne_panic o ho _ (keyId_free o st sb.id hk) sb
    · exact free_ne_panic o ho st hk sb.id
  | free id => exact free_ne_panic o ho st hk id
  | close =>
    rw [step_close_eq]
    have := closeOrder_ne_none o st
    cases h : closeOrder o st with
    | none => exact absurd h this
    | some l => exact freeAll_ne_panic o ho st hk l

end Uniflow.Table
