/-
Helper lemmas about `Uniflow.MapHeap` (Model/MapHeap.lean) used by Props/C15.lean. Core Lean only.
-/
import Uniflow.Proofs.Value
import Uniflow.Model.MapHeap
import Uniflow.Proofs.Dict
namespace Uniflow.MapHeap
open Uniflow.Value

/-- buckets are strictly sorted by `Compare` of their keys -/
def BSorted (b : Bucket) : Prop := b.Pairwise (fun p q => cmp p.1 q.1 < 0)

theorem cmp_lt_trans {a b c : Val} (h1 : cmp a b < 0) (h2 : cmp b c < 0) : cmp a c < 0 :=
  (cmp_T3 a b c).2.1 h1 (Int.le_of_lt h2)

theorem cmp_gt_of_lt {a b : Val} (h : cmp a b < 0) : cmp b a > 0 := by
  have := cmp_antisymm a b; omega

theorem cmp_lt_of_gt {a b : Val} (h : cmp a b > 0) : cmp b a < 0 := by
  have := cmp_antisymm a b; omega

theorem split_at {b : Bucket} {i : Nat} {p : Val × Val} (h : b[i]? = some p) :
    b = b.take i ++ p :: b.drop (i + 1) := by
  have hi : i < b.length := by
    rcases Nat.lt_or_ge i b.length with h' | h'
    · exact h'
    · rw [List.getElem?_eq_none h'] at h; cases h
  have hp : b[i] = p := by
    rw [List.getElem?_eq_getElem hi] at h; exact Option.some.inj h
  rw [← hp, List.getElem_cons_drop, List.take_append_drop]

theorem take_succ_of {b : Bucket} {i : Nat} {p : Val × Val} (h : b[i]? = some p) :
    b.take (i + 1) = b.take i ++ [p] := by
  rw [List.take_add_one, h]; rfl

theorem drop_of {b : Bucket} {i : Nat} {p : Val × Val} (h : b[i]? = some p) :
    b.drop i = p :: b.drop (i + 1) := by
  have hi : i < b.length := by
    rcases Nat.lt_or_ge i b.length with h' | h'
    · exact h'
    · rw [List.getElem?_eq_none h'] at h; cases h
  have hp : b[i] = p := by
    rw [List.getElem?_eq_getElem hi] at h; exact Option.some.inj h
  rw [← hp, List.getElem_cons_drop]

theorem sorted_before {b : Bucket} (hs : BSorted b) {i : Nat} {p : Val × Val} (h : b[i]? = some p) :
    ∀ q ∈ b.take i, cmp q.1 p.1 < 0 := by
  intro q hq
  have hb := split_at h
  unfold BSorted at hs
  rw [hb, List.pairwise_append] at hs
  exact hs.2.2 q hq p (List.mem_cons_self ..)

theorem sorted_after {b : Bucket} (hs : BSorted b) {i : Nat} {p : Val × Val} (h : b[i]? = some p) :
    ∀ q ∈ b.drop (i + 1), cmp p.1 q.1 < 0 := by
  intro q hq
  have hb := split_at h
  unfold BSorted at hs
  rw [hb, List.pairwise_append, List.pairwise_cons] at hs
  exact hs.2.1.1 q hq

/-- what a search result means in a sorted bucket -/
def SROk (b : Bucket) (key : Val) : SR → Prop
  | .found i p => b[i]? = some p ∧ cmp p.1 key = 0
  | .absent l => l ≤ b.length ∧ (∀ p ∈ b.take l, cmp p.1 key < 0) ∧ (∀ p ∈ b.drop l, cmp p.1 key > 0)
  | .panic => False

theorem bsearch_ok (b : Bucket) (key : Val) (hs : BSorted b) :
    ∀ fuel lo hi, lo ≤ hi → hi ≤ b.length → hi - lo < fuel →
      (∀ p ∈ b.take lo, cmp p.1 key < 0) → (∀ p ∈ b.drop hi, cmp p.1 key > 0) →
      SROk b key (bsearch b key fuel lo hi) := by
  intro fuel
  induction fuel with
  | zero => intro lo hi _ _ h; omega
  | succ fuel ih =>
    intro lo hi hle hlen hfuel hlo hhi
    unfold bsearch
    by_cases hlt : lo < hi
    · simp only [hlt, ite_true]
      have hmid : lo + (hi - 1 - lo) / 2 < b.length := by omega
      generalize hm : lo + (hi - 1 - lo) / 2 = mid at *
      have hget : b[mid]? = some b[mid] := List.getElem?_eq_getElem hmid
      rw [hget]
      simp only
      by_cases hd0 : cmp b[mid].1 key = 0
      · simp only [hd0, ite_true]; exact ⟨hget, hd0⟩
      · simp only [hd0, ite_false]
        by_cases hdn : cmp b[mid].1 key < 0
        · simp only [hdn, ite_true]
          apply ih (mid + 1) hi (by omega) hlen (by omega) _ hhi
          intro q hq
          rw [take_succ_of hget, List.mem_append] at hq
          rcases hq with hq | hq
          · exact cmp_lt_trans (sorted_before hs hget q hq) hdn
          · simp at hq; subst hq; exact hdn
        · simp only [hdn, ite_false]
          have hdp : cmp b[mid].1 key > 0 := by omega
          apply ih lo mid (by omega) (by omega) (by omega) hlo
          intro q hq
          rw [drop_of hget, List.mem_cons] at hq
          rcases hq with hq | hq
          · subst hq; exact hdp
          · exact cmp_gt_of_lt (cmp_lt_trans (cmp_lt_of_gt hdp) (sorted_after hs hget q hq))
    · simp only [hlt, ite_false]
      have : lo = hi := by omega
      subst this
      exact ⟨hlen, hlo, hhi⟩

theorem search_ok (b : Bucket) (key : Val) (hs : BSorted b) : SROk b key (search b key) := by
  unfold search
  apply bsearch_ok b key hs _ 0 b.length (Nat.zero_le _) (Nat.le_refl _) (by omega)
  · intro p hp; simp at hp
  · intro p hp; simp at hp

/-! ### buckets: insertion, overwrite, removal keep the order -/

theorem sorted_cross {b : Bucket} (hs : BSorted b) {i j : Nat} (hij : i ≤ j) :
    ∀ a ∈ b.take i, ∀ c ∈ b.drop j, cmp a.1 c.1 < 0 := by
  intro a ha c hc
  unfold BSorted at hs
  rw [← List.take_append_drop i b, List.pairwise_append] at hs
  apply hs.2.2 a ha c
  have : b.drop j = (b.drop i).drop (j - i) := by rw [List.drop_drop]; congr 1; omega
  rw [this] at hc
  exact List.mem_of_mem_drop hc

theorem sorted_splice {b : Bucket} (hs : BSorted b) {i j : Nat} (hij : i ≤ j) (x : Val × Val)
    (h1 : ∀ q ∈ b.take i, cmp q.1 x.1 < 0) (h2 : ∀ q ∈ b.drop j, cmp x.1 q.1 < 0) :
    BSorted (b.take i ++ x :: b.drop j) := by
  unfold BSorted
  rw [List.pairwise_append, List.pairwise_cons]
  refine ⟨hs.sublist (List.take_sublist _ _), ⟨h2, hs.sublist (List.drop_sublist _ _)⟩, ?_⟩
  intro a ha c hc
  rw [List.mem_cons] at hc
  rcases hc with rfl | hc
  · exact h1 a ha
  · exact sorted_cross hs hij a ha c hc

theorem sorted_remove {b : Bucket} (hs : BSorted b) (i : Nat) : BSorted (b.take i ++ b.drop (i + 1)) := by
  unfold BSorted
  rw [List.pairwise_append]
  exact ⟨hs.sublist (List.take_sublist _ _), hs.sublist (List.drop_sublist _ _),
    sorted_cross hs (Nat.le_succ i)⟩

theorem equal_false_of_cmp_ne {a b : Val} (h : cmp a b ≠ 0) : equal a b = false := by
  cases he : equal a b
  · rfl
  · exact absurd ((cmp_zero_iff_equal a b).mpr he) h

theorem equal_true_of_cmp_zero {a b : Val} (h : cmp a b = 0) : equal a b = true :=
  (cmp_zero_iff_equal a b).mp h

/-- in a sorted bucket, everything except the found entry is not Equal to the key -/
theorem found_others {b : Bucket} (hs : BSorted b) {key : Val} {i : Nat} {p : Val × Val}
    (hg : b[i]? = some p) (hc : cmp p.1 key = 0) :
    ∀ q ∈ b.take i ++ b.drop (i + 1), equal q.1 key = false := by
  intro q hq
  apply equal_false_of_cmp_ne
  rw [List.mem_append] at hq
  have hkp : cmp key p.1 = 0 := by have := cmp_antisymm key p.1; omega
  rcases hq with hq | hq
  · have h1 := sorted_before hs hg q hq
    have := (cmp_T3 q.1 p.1 key).2.1 h1 (by omega)
    omega
  · have h1 := sorted_after hs hg q hq
    have := (cmp_T3 key p.1 q.1).2.2 (by omega) h1
    have := cmp_antisymm key q.1
    omega

theorem mem_split {b : Bucket} {i : Nat} {p : Val × Val} (hg : b[i]? = some p) (q : Val × Val) :
    q ∈ b ↔ q ∈ b.take i ++ b.drop (i + 1) ∨ q = p := by
  conv => lhs; rw [split_at hg]
  simp only [List.mem_append, List.mem_cons]
  constructor
  · rintro (h | h | h)
    · exact .inl (.inl h)
    · exact .inr h
    · exact .inl (.inr h)
  · rintro ((h | h) | h)
    · exact .inl h
    · exact .inr (.inr h)
    · exact .inr (.inl h)

theorem absent_all {b : Bucket} {key : Val} {l : Nat}
    (h1 : ∀ p ∈ b.take l, cmp p.1 key < 0) (h2 : ∀ p ∈ b.drop l, cmp p.1 key > 0) :
    ∀ q ∈ b, equal q.1 key = false := by
  intro q hq
  rw [← List.take_append_drop l b, List.mem_append] at hq
  apply equal_false_of_cmp_ne
  rcases hq with hq | hq
  · have := h1 q hq; omega
  · have := h2 q hq; omega

/-! ### one Go map: `bucketOf`, `put`, `erase` -/

/-- at most one entry per hash (a Go map) -/
def Uniq (t : Table) : Prop := t.Pairwise (fun e e' => e.1 ≠ e'.1)

/-- a bucket is sorted, non-empty and holds only keys of its hash -/
def BOk (e : UInt64 × Bucket) : Prop := BSorted e.2 ∧ e.2 ≠ [] ∧ ∀ p ∈ e.2, hash p.1 = e.1

/-- the representation invariant of a table (`buckets_sorted` and what goes with it) -/
def TInv (t : Table) : Prop := Uniq t ∧ ∀ e ∈ t, BOk e

/-- the table holds the key/value pair `p` -/
def Holds (t : Table) (p : Val × Val) : Prop := ∃ e ∈ t, p ∈ e.2

theorem bucketOf_some : ∀ {t : Table} {h : UInt64} {b : Bucket}, bucketOf t h = some b → (h, b) ∈ t
  | [], _, _, hb => by simp [bucketOf] at hb
  | (h', b') :: t, h, b, hb => by
    unfold bucketOf at hb
    split at hb
    · rename_i heq; cases hb; subst heq; exact List.mem_cons_self ..
    · exact List.mem_cons_of_mem _ (bucketOf_some hb)

theorem bucketOf_none : ∀ {t : Table} {h : UInt64}, bucketOf t h = none → ∀ e ∈ t, e.1 ≠ h
  | [], _, _, e, he => by simp at he
  | (h', b') :: t, h, hb, e, he => by
    unfold bucketOf at hb
    split at hb
    · cases hb
    · rename_i hne
      rw [List.mem_cons] at he
      rcases he with rfl | he
      · exact hne
      · exact bucketOf_none hb e he

theorem bucketOf_of_mem : ∀ {t : Table} {h : UInt64} {b : Bucket}, Uniq t → (h, b) ∈ t → bucketOf t h = some b
  | [], _, _, _, hm => by simp at hm
  | (h', b') :: t, h, b, hu, hm => by
    unfold Uniq at hu
    rw [List.pairwise_cons] at hu
    unfold bucketOf
    rw [List.mem_cons] at hm
    rcases hm with hm | hm
    · cases hm; simp
    · split
      · rename_i heq; subst heq
        exact absurd rfl (hu.1 (h', b) hm)
      · exact bucketOf_of_mem hu.2 hm

theorem mem_put : ∀ {t : Table} {h : UInt64} {b : Bucket}, Uniq t →
    ∀ e, e ∈ put t h b ↔ (e ∈ t ∧ e.1 ≠ h) ∨ e = (h, b)
  | [], h, b, _, e => by simp [put]
  | (h', b') :: t, h, b, hu, e => by
    unfold Uniq at hu
    rw [List.pairwise_cons] at hu
    unfold put
    split
    · rename_i heq; subst heq
      simp only [List.mem_cons]
      constructor
      · rintro (rfl | he)
        · exact .inr rfl
        · exact .inl ⟨.inr he, fun h => hu.1 e he h.symm⟩
      · rintro (⟨rfl | he, hne⟩ | rfl)
        · exact absurd rfl hne
        · exact .inr he
        · exact .inl rfl
    · rename_i hne
      simp only [List.mem_cons, mem_put (t := t) hu.2 e]
      constructor
      · rintro (rfl | ⟨he, h1⟩ | rfl)
        · exact .inl ⟨.inl rfl, hne⟩
        · exact .inl ⟨.inr he, h1⟩
        · exact .inr rfl
      · rintro (⟨rfl | he, h1⟩ | rfl)
        · exact .inl rfl
        · exact .inr (.inl ⟨he, h1⟩)
        · exact .inr (.inr rfl)

theorem uniq_put : ∀ {t : Table} {h : UInt64} {b : Bucket}, Uniq t → Uniq (put t h b)
  | [], h, b, _ => by simp [put, Uniq]
  | (h', b') :: t, h, b, hu => by
    have hu' := hu
    unfold Uniq at hu
    rw [List.pairwise_cons] at hu
    unfold put
    split
    · rename_i heq; subst heq
      unfold Uniq; rw [List.pairwise_cons]; exact ⟨hu.1, hu.2⟩
    · rename_i hne
      unfold Uniq; rw [List.pairwise_cons]
      refine ⟨?_, uniq_put hu.2⟩
      intro e he
      rw [mem_put hu.2] at he
      rcases he with ⟨he, _⟩ | rfl
      · exact hu.1 e he
      · exact hne

theorem mem_erase : ∀ {t : Table} {h : UInt64}, Uniq t → ∀ e, e ∈ erase t h ↔ e ∈ t ∧ e.1 ≠ h
  | [], h, _, e => by simp [erase]
  | (h', b') :: t, h, hu, e => by
    unfold Uniq at hu
    rw [List.pairwise_cons] at hu
    unfold erase
    split
    · rename_i heq; subst heq
      simp only [List.mem_cons]
      constructor
      · intro he; exact ⟨.inr he, fun h => hu.1 e he h.symm⟩
      · rintro ⟨rfl | he, hne⟩
        · exact absurd rfl hne
        · exact he
    · rename_i hne
      simp only [List.mem_cons, mem_erase (t := t) hu.2 e]
      constructor
      · rintro (rfl | ⟨he, h1⟩)
        · exact ⟨.inl rfl, hne⟩
        · exact ⟨.inr he, h1⟩
      · rintro ⟨rfl | he, h1⟩
        · exact .inl rfl
        · exact .inr ⟨he, h1⟩

theorem uniq_erase {t : Table} {h : UInt64} (hu : Uniq t) : Uniq (erase t h) := by
  induction t with
  | nil => simp [erase, Uniq]
  | cons e t ih =>
    unfold Uniq at hu
    rw [List.pairwise_cons] at hu
    unfold erase
    split
    · exact hu.2
    · unfold Uniq; rw [List.pairwise_cons]
      refine ⟨?_, ih hu.2⟩
      intro e' he'
      rw [mem_erase hu.2] at he'
      exact hu.1 e' he'.1

/-! ### bucket-level effect of Set / Delete -/

theorem found_split_iff {b : Bucket} (hs : BSorted b) {key : Val} {i : Nat} {p : Val × Val}
    (hg : b[i]? = some p) (hc : cmp p.1 key = 0) (q : Val × Val) :
    q ∈ b.take i ++ b.drop (i + 1) ↔ q ∈ b ∧ equal q.1 key = false := by
  constructor
  · intro hq
    exact ⟨(mem_split hg q).mpr (.inl hq), found_others hs hg hc q hq⟩
  · rintro ⟨hq, hne⟩
    rcases (mem_split hg q).mp hq with h | rfl
    · exact h
    · rw [equal_true_of_cmp_zero hc] at hne; cases hne

/-- what the new bucket built by `Set` contains, by search outcome -/
def SetOk (b : Bucket) (key val : Val) : SR → Prop
  | .found i p =>
    BSorted (b.take i ++ (p.1, val) :: b.drop (i + 1)) ∧ equal p.1 key = true ∧ p ∈ b ∧
      ∀ q, q ∈ b.take i ++ (p.1, val) :: b.drop (i + 1) ↔ (q ∈ b ∧ equal q.1 key = false) ∨ q = (p.1, val)
  | .absent l =>
    BSorted (b.take l ++ (key, val) :: b.drop l) ∧ (∀ q ∈ b, equal q.1 key = false) ∧
      ∀ q, q ∈ b.take l ++ (key, val) :: b.drop l ↔ (q ∈ b ∧ equal q.1 key = false) ∨ q = (key, val)
  | .panic => False

theorem bucket_set {b : Bucket} (hs : BSorted b) (key val : Val) : SetOk b key val (search b key) := by
  have h := search_ok b key hs
  cases hsr : search b key with
  | found i p =>
    rw [hsr] at h
    obtain ⟨hg, hc⟩ := h
    refine ⟨sorted_splice hs (Nat.le_succ i) (p.1, val) (fun q hq => sorted_before hs hg q hq)
        (fun q hq => sorted_after hs hg q hq),
      equal_true_of_cmp_zero hc, List.mem_of_getElem? hg, ?_⟩
    intro q
    rw [← found_split_iff hs hg hc q]
    simp only [List.mem_append, List.mem_cons]
    constructor
    · rintro (h | h | h)
      · exact .inl (.inl h)
      · exact .inr h
      · exact .inl (.inr h)
    · rintro ((h | h) | h)
      · exact .inl h
      · exact .inr (.inr h)
      · exact .inr (.inl h)
  | absent l =>
    rw [hsr] at h
    obtain ⟨_, h1, h2⟩ := h
    have hall := absent_all h1 h2
    refine ⟨sorted_splice hs (Nat.le_refl l) (key, val) h1 (fun q hq => cmp_lt_of_gt (h2 q hq)), hall, ?_⟩
    intro q
    have hm : q ∈ b ↔ q ∈ b.take l ∨ q ∈ b.drop l := by
      conv => lhs; rw [← List.take_append_drop l b]
      exact List.mem_append
    simp only [List.mem_append, List.mem_cons]
    constructor
    · rintro (h | h | h)
      · exact .inl ⟨hm.mpr (.inl h), hall q (hm.mpr (.inl h))⟩
      · exact .inr h
      · exact .inl ⟨hm.mpr (.inr h), hall q (hm.mpr (.inr h))⟩
    · rintro (⟨h, _⟩ | h)
      · rcases hm.mp h with h | h
        · exact .inl h
        · exact .inr (.inr h)
      · exact .inr (.inl h)
  | panic => rw [hsr] at h; exact h

/-- what `Delete` leaves of the bucket, by search outcome -/
def DelOk (b : Bucket) (key : Val) : SR → Prop
  | .found i _ =>
    BSorted (b.take i ++ b.drop (i + 1)) ∧
      ∀ q, q ∈ b.take i ++ b.drop (i + 1) ↔ q ∈ b ∧ equal q.1 key = false
  | .absent _ => ∀ q ∈ b, equal q.1 key = false
  | .panic => False

theorem bucket_delete {b : Bucket} (hs : BSorted b) (key : Val) : DelOk b key (search b key) := by
  have h := search_ok b key hs
  cases hsr : search b key with
  | found i p =>
    rw [hsr] at h
    exact ⟨sorted_remove hs i, found_split_iff hs h.1 h.2⟩
  | absent l =>
    rw [hsr] at h
    exact absent_all h.2.1 h.2.2
  | panic => rw [hsr] at h; exact h

/-! ### table-level dictionary laws -/

theorem not_equal_of_hash_ne {a b : Val} (h : hash a ≠ hash b) : equal a b = false := by
  cases he : equal a b
  · rfl
  · exact absurd (equal_hash a b he) h

theorem uniq_same {t : Table} (hu : Uniq t) {e e' : UInt64 × Bucket} (he : e ∈ t) (he' : e' ∈ t)
    (h : e.1 = e'.1) : e = e' := by
  have h1 := bucketOf_of_mem (h := e.1) (b := e.2) hu he
  have h2 := bucketOf_of_mem (h := e'.1) (b := e'.2) hu he'
  rw [h, h2] at h1
  cases e; cases e'; simp at h h1 ⊢; exact ⟨h, h1.symm⟩

/-- the bucket `Set`/`Delete`/`Get` work on: `m.value[hash]` (nil when absent) -/
theorem cur_bucket {t : Table} (hi : TInv t) (h : UInt64) :
    BSorted ((bucketOf t h).getD []) ∧ (∀ p ∈ (bucketOf t h).getD [], hash p.1 = h) ∧
      ∀ q, q ∈ (bucketOf t h).getD [] ↔ ∃ e ∈ t, e.1 = h ∧ q ∈ e.2 := by
  cases hb : bucketOf t h with
  | none =>
    refine ⟨by simp [BSorted], by simp, ?_⟩
    intro q
    simp only [Option.getD_none, List.not_mem_nil, false_iff]
    rintro ⟨e, he, h1, _⟩
    exact bucketOf_none hb e he h1
  | some b =>
    have hm := bucketOf_some hb
    have hok := hi.2 _ hm
    refine ⟨hok.1, hok.2.2, ?_⟩
    intro q
    simp only [Option.getD_some]
    constructor
    · intro hq; exact ⟨_, hm, rfl, hq⟩
    · rintro ⟨e, he, h1, hq⟩
      have := uniq_same hi.1 he hm h1
      subst this; exact hq

theorem holds_other {t : Table} (hi : TInv t) {key : Val} {q : Val × Val} {e : UInt64 × Bucket}
    (he : e ∈ t) (hq : q ∈ e.2) (hne : e.1 ≠ hash key) : equal q.1 key = false := by
  apply not_equal_of_hash_ne
  rw [(hi.2 e he).2.2 q hq]; exact hne

/-- `Get`/`Has` answer exactly as a dictionary keyed by `Equal` over the pairs the table holds, and never panic. -/
theorem tLook_spec {t : Table} (hi : TInv t) (key : Val) :
    (tLook t key = .miss ∧ ∀ q, Holds t q → equal q.1 key = false) ∨
    (∃ k0 v, tLook t key = .hit v ∧ Holds t (k0, v) ∧ equal k0 key = true ∧
      ∀ q, Holds t q → q ≠ (k0, v) → equal q.1 key = false) := by
  unfold tLook
  cases hb : bucketOf t (hash key) with
  | none =>
    left
    refine ⟨rfl, ?_⟩
    rintro q ⟨e, he, hq⟩
    exact holds_other hi he hq (bucketOf_none hb e he)
  | some b =>
    have hm := bucketOf_some hb
    have hok := hi.2 _ hm
    have hso := search_ok b key hok.1
    simp only
    cases hsr : search b key with
    | found i p =>
      rw [hsr] at hso
      right
      refine ⟨p.1, p.2, rfl, ⟨_, hm, List.mem_of_getElem? hso.1⟩, equal_true_of_cmp_zero hso.2, ?_⟩
      rintro q ⟨e, he, hq⟩ hne
      by_cases h1 : e.1 = hash key
      · have := uniq_same hi.1 he hm h1
        subst this
        rcases (mem_split hso.1 q).mp hq with h | h
        · exact found_others hok.1 hso.1 hso.2 q h
        · exact absurd h hne
      · exact holds_other hi he hq h1
    | absent l =>
      rw [hsr] at hso
      left
      refine ⟨rfl, ?_⟩
      rintro q ⟨e, he, hq⟩
      by_cases h1 : e.1 = hash key
      · have := uniq_same hi.1 he hm h1
        subst this
        exact absent_all hso.2.1 hso.2.2 q hq
      · exact holds_other hi he hq h1
    | panic => rw [hsr] at hso; exact hso.elim

theorem holds_put {t : Table} (hi : TInv t) (h : UInt64) (b' : Bucket) (q : Val × Val) :
    Holds (put t h b') q ↔ (∃ e ∈ t, e.1 ≠ h ∧ q ∈ e.2) ∨ q ∈ b' := by
  unfold Holds
  constructor
  · rintro ⟨e, he, hq⟩
    rcases (mem_put hi.1 e).mp he with ⟨he, hne⟩ | rfl
    · exact .inl ⟨e, he, hne, hq⟩
    · exact .inr hq
  · rintro (⟨e, he, hne, hq⟩ | hq)
    · exact ⟨e, (mem_put hi.1 e).mpr (.inl ⟨he, hne⟩), hq⟩
    · exact ⟨(h, b'), (mem_put hi.1 _).mpr (.inr rfl), hq⟩

theorem tinv_put {t : Table} (hi : TInv t) {h : UInt64} {b' : Bucket} (hb : BOk (h, b')) : TInv (put t h b') := by
  refine ⟨uniq_put hi.1, ?_⟩
  intro e he
  rcases (mem_put hi.1 e).mp he with ⟨he, _⟩ | rfl
  · exact hi.2 e he
  · exact hb

/-- shared tail of the Set/Delete proofs: membership in the rebuilt table -/
theorem holds_rebuild {t : Table} (hi : TInv t) (key : Val) (b' : Bucket) (extra : Val × Val → Prop)
    (hb' : ∀ q, q ∈ b' ↔ (q ∈ (bucketOf t (hash key)).getD [] ∧ equal q.1 key = false) ∨ extra q) (q : Val × Val) :
    ((∃ e ∈ t, e.1 ≠ hash key ∧ q ∈ e.2) ∨ q ∈ b') ↔ (Holds t q ∧ equal q.1 key = false) ∨ extra q := by
  have hc := cur_bucket hi (hash key)
  rw [hb' q, hc.2.2 q]
  constructor
  · rintro (⟨e, he, hne, hq⟩ | ⟨⟨e, he, _, hq⟩, hf⟩ | hx)
    · exact .inl ⟨⟨e, he, hq⟩, holds_other hi he hq hne⟩
    · exact .inl ⟨⟨e, he, hq⟩, hf⟩
    · exact .inr hx
  · rintro (⟨⟨e, he, hq⟩, hf⟩ | hx)
    · by_cases h1 : e.1 = hash key
      · exact .inr (.inl ⟨⟨e, he, h1, hq⟩, hf⟩)
      · exact .inl ⟨e, he, h1, hq⟩
    · exact .inr (.inr hx)

/-- `Set` keeps the invariant and acts as dictionary update keyed by `Equal` (the stored key `k0` is kept on overwrite). -/
theorem tSet_spec {t : Table} (hi : TInv t) (key val : Val) :
    ∃ t' k0, tSet t key val = some t' ∧ TInv t' ∧ equal k0 key = true ∧
      ((k0 = key ∧ ∀ q, Holds t q → equal q.1 key = false) ∨ ∃ v0, Holds t (k0, v0)) ∧
      ∀ q, Holds t' q ↔ (Holds t q ∧ equal q.1 key = false) ∨ q = (k0, val) := by
  have hc := cur_bucket hi (hash key)
  have hbs := bucket_set hc.1 key val
  unfold tSet
  simp only
  cases hsr : search ((bucketOf t (hash key)).getD []) key with
  | found i p =>
    rw [hsr] at hbs
    obtain ⟨hs', heq, hp, hmem⟩ := hbs
    refine ⟨_, p.1, rfl, tinv_put hi ⟨hs', by simp, ?_⟩, heq,
      .inr ⟨p.2, (hc.2.2 p).mp hp |>.elim fun e he => ⟨e, he.1, he.2.2⟩⟩, ?_⟩
    · intro q hq
      rcases (hmem q).mp hq with ⟨hq, _⟩ | rfl
      · exact hc.2.1 q hq
      · exact hc.2.1 p hp
    · intro q
      rw [holds_put hi]
      exact holds_rebuild hi key _ (fun q => q = (p.1, val)) hmem q
  | absent l =>
    rw [hsr] at hbs
    obtain ⟨hs', hall, hmem⟩ := hbs
    refine ⟨_, key, rfl, tinv_put hi ⟨hs', by simp, ?_⟩, (cmp_zero_iff_equal key key).mp (by have := cmp_antisymm key key; omega),
      .inl ⟨rfl, ?_⟩, ?_⟩
    · intro q hq
      rcases (hmem q).mp hq with ⟨hq, _⟩ | rfl
      · exact hc.2.1 q hq
      · rfl
    · rintro q ⟨e, he, hq⟩
      by_cases h1 : e.1 = hash key
      · exact hall q ((hc.2.2 q).mpr ⟨e, he, h1, hq⟩)
      · exact holds_other hi he hq h1
    · intro q
      rw [holds_put hi]
      exact holds_rebuild hi key _ (fun q => q = (key, val)) hmem q
  | panic => rw [hsr] at hbs; exact hbs.elim

theorem holds_erase {t : Table} (hi : TInv t) (h : UInt64) (q : Val × Val) :
    Holds (erase t h) q ↔ ∃ e ∈ t, e.1 ≠ h ∧ q ∈ e.2 := by
  unfold Holds
  constructor
  · rintro ⟨e, he, hq⟩
    have := (mem_erase hi.1 e).mp he
    exact ⟨e, this.1, this.2, hq⟩
  · rintro ⟨e, he, hne, hq⟩
    exact ⟨e, (mem_erase hi.1 e).mpr ⟨he, hne⟩, hq⟩

theorem tinv_erase {t : Table} (hi : TInv t) (h : UInt64) : TInv (erase t h) :=
  ⟨uniq_erase hi.1, fun e he => hi.2 e ((mem_erase hi.1 e).mp he).1⟩

/-- `Delete` keeps the invariant and removes exactly the pairs whose key is `Equal` to `key`. -/
theorem tDelete_spec {t : Table} (hi : TInv t) (key : Val) :
    ∃ t', tDelete t key = some t' ∧ TInv t' ∧ ∀ q, Holds t' q ↔ Holds t q ∧ equal q.1 key = false := by
  unfold tDelete
  simp only
  cases hb : bucketOf t (hash key) with
  | none =>
    refine ⟨t, rfl, hi, ?_⟩
    intro q
    constructor
    · rintro ⟨e, he, hq⟩
      exact ⟨⟨e, he, hq⟩, holds_other hi he hq (bucketOf_none hb e he)⟩
    · exact fun h => h.1
  | some b =>
    have hc := cur_bucket hi (hash key)
    rw [hb] at hc
    simp only [Option.getD_some] at hc
    have hbd := bucket_delete hc.1 key
    simp only
    cases hsr : search b key with
    | found i p =>
      rw [hsr] at hbd
      obtain ⟨hs', hmem⟩ := hbd
      have hmem' : ∀ q, q ∈ b.take i ++ b.drop (i + 1) ↔
          (q ∈ (bucketOf t (hash key)).getD [] ∧ equal q.1 key = false) ∨ False := by
        intro q; rw [hb]; simp only [Option.getD_some, or_false]; exact hmem q
      simp only
      split
      · rename_i hlen
        refine ⟨_, rfl, tinv_put hi ⟨hs', ?_, ?_⟩, ?_⟩
        · intro h0; simp only at h0; rw [h0] at hlen; simp at hlen
        · intro q hq; exact hc.2.1 q ((hmem q).mp hq).1
        · intro q
          rw [holds_put hi]
          have := holds_rebuild hi key _ (fun _ => False) hmem' q
          simpa using this
      · rename_i hlen
        have hnil : b.take i ++ b.drop (i + 1) = [] := by
          cases h0 : b.take i ++ b.drop (i + 1) with
          | nil => rfl
          | cons x xs => rw [h0] at hlen; simp at hlen
        refine ⟨_, rfl, tinv_erase hi _, ?_⟩
        intro q
        rw [holds_erase hi]
        have := holds_rebuild hi key [] (fun _ => False) (by intro q; rw [← hmem' q, hnil]) q
        simpa using this
    | absent l =>
      rw [hsr] at hbd
      refine ⟨t, rfl, hi, ?_⟩
      intro q
      constructor
      · rintro ⟨e, he, hq⟩
        refine ⟨⟨e, he, hq⟩, ?_⟩
        by_cases h1 : e.1 = hash key
        · exact hbd q ((hc.2.2 q).mpr ⟨e, he, h1, hq⟩)
        · exact holds_other hi he hq h1
      · exact fun h => h.1
    | panic => rw [hsr] at hbd; exact hbd.elim

theorem tinv_nil : TInv [] := ⟨by simp [Uniq], by simp⟩

theorem mem_tPairs : ∀ {t : Table} {q : Val × Val}, q ∈ tPairs t ↔ Holds t q
  | [], q => by simp [tPairs, Holds]
  | (h, b) :: t, q => by
    simp only [tPairs, List.mem_append, mem_tPairs (t := t), Holds, List.mem_cons]
    constructor
    · rintro (hq | ⟨e, he, hq⟩)
      · exact ⟨(h, b), .inl rfl, hq⟩
      · exact ⟨e, .inr he, hq⟩
    · rintro ⟨e, rfl | he, hq⟩
      · exact .inl hq
      · exact .inr ⟨e, he, hq⟩

theorem tLen_eq : ∀ t : Table, tLen t = (tPairs t).length
  | [] => rfl
  | (_, b) :: t => by simp [tLen, tPairs, tLen_eq t]


/-! ### Range is a permutation of the pairs -/

theorem insertByHash_perm (e : UInt64 × Bucket) : ∀ t : Table, (insertByHash e t).Perm (e :: t)
  | [] => List.Perm.refl _
  | e' :: t => by
    unfold insertByHash
    split
    · exact List.Perm.refl _
    · exact ((insertByHash_perm e t).cons e').trans (List.Perm.swap e e' t)

theorem sortByHash_perm : ∀ t : Table, (sortByHash t).Perm t
  | [] => List.Perm.refl _
  | e :: t => (insertByHash_perm e (sortByHash t)).trans ((sortByHash_perm t).cons e)

theorem holds_perm {t t' : Table} (hp : t.Perm t') (q : Val × Val) : Holds t q ↔ Holds t' q := by
  unfold Holds
  constructor
  · rintro ⟨e, he, hq⟩; exact ⟨e, hp.subset he, hq⟩
  · rintro ⟨e, he, hq⟩; exact ⟨e, hp.symm.subset he, hq⟩

theorem tLen_perm {t t' : Table} (hp : t.Perm t') : tLen t = tLen t' := by
  induction hp with
  | nil => rfl
  | cons e _ ih => cases e; simp [tLen, ih]
  | swap e e' t => cases e; cases e'; simp [tLen]; omega
  | trans _ _ ih1 ih2 => exact ih1.trans ih2


open Uniflow.Dict in
section

/-! ### refinement of one table to the reference dictionary -/

/-- the table `t` represents the association list `d`: same pairs, no two Equal keys -/
def Rep (t : Table) (d : Dict) : Prop := TInv t ∧ NoDup d ∧ ∀ q, Holds t q ↔ q ∈ d

theorem rep_nil : Rep [] [] := ⟨tinv_nil, by simp [NoDup], by simp [Holds]⟩

theorem rep_set {t : Table} {d : Dict} (h : Rep t d) (k v : Val) :
    ∃ t', tSet t k v = some t' ∧ Rep t' (Dict.set d k v) := by
  obtain ⟨hi, hd, hm⟩ := h
  obtain ⟨t', k0, hset, hi', he, hprov, hmem⟩ := tSet_spec hi k v
  obtain ⟨k0', he', hprov', hnd, hmem'⟩ := set_spec hd k v
  have hk : k0 = k0' := by
    rcases hprov with ⟨rfl, hall⟩ | ⟨v0, hv0⟩ <;> rcases hprov' with ⟨rfl, hall'⟩ | ⟨v0', hv0'⟩
    · rfl
    · have := hall _ ((hm _).mpr hv0'); rw [he'] at this; cases this
    · have := hall' _ ((hm _).mp hv0); rw [he] at this; cases this
    · have := nodup_unique hd ((hm _).mp hv0) hv0' (eq_trans' he (eq_symm' he'))
      exact congrArg Prod.fst this
  subst hk
  refine ⟨t', hset, hi', hnd, ?_⟩
  intro q
  rw [hmem q, hmem' q, hm q]

theorem rep_delete {t : Table} {d : Dict} (h : Rep t d) (k : Val) :
    ∃ t', tDelete t k = some t' ∧ Rep t' (Dict.delete d k) := by
  obtain ⟨hi, hd, hm⟩ := h
  obtain ⟨t', hdel, hi', hmem⟩ := tDelete_spec hi k
  obtain ⟨hnd, hmem'⟩ := delete_spec hd k
  refine ⟨t', hdel, hi', hnd, ?_⟩
  intro q
  rw [hmem q, hmem' q, hm q]

/-- `Look` as an optional value -/
def Look.toOption : Look → Option Val
  | .hit v => some v
  | _ => none

theorem rep_look {t : Table} {d : Dict} (h : Rep t d) (k : Val) :
    tLook t k ≠ .panic ∧ (tLook t k).toOption = Dict.get d k := by
  obtain ⟨hi, hd, hm⟩ := h
  rcases tLook_spec hi k with ⟨hl, hall⟩ | ⟨k0, v, hl, hh, he, _⟩
  · rw [hl]
    refine ⟨by simp, ?_⟩
    rcases get_spec hd k with ⟨hg, _⟩ | ⟨k0, v, _, hin, he⟩
    · rw [hg]; rfl
    · have := hall _ ((hm _).mpr hin); rw [he] at this; cases this
  · rw [hl]
    refine ⟨by simp, ?_⟩
    rcases get_spec hd k with ⟨_, hall⟩ | ⟨k0', v', hg, hin, he'⟩
    · have := hall _ ((hm _).mp hh); rw [he] at this; cases this
    · have := nodup_unique hd ((hm _).mp hh) hin (eq_trans' he (eq_symm' he'))
      rw [hg]
      simp only [Look.toOption]
      exact congrArg some (congrArg Prod.snd this)

theorem sorted_nodup {b : Bucket} (hs : BSorted b) : NoDup b := by
  unfold BSorted at hs
  exact hs.imp (fun {p q} h => equal_false_of_cmp_ne (by omega))

/-- the pairs of a well-formed table have pairwise non-Equal keys -/
theorem pairs_nodup : ∀ {t : Table}, TInv t → NoDup (tPairs t)
  | [], _ => by simp [tPairs, NoDup]
  | (h, b) :: t, hi => by
    have hu := hi.1
    unfold Uniq at hu
    rw [List.pairwise_cons] at hu
    have hi' : TInv t := ⟨hu.2, fun e he => hi.2 e (List.mem_cons_of_mem _ he)⟩
    have hb := hi.2 (h, b) (List.mem_cons_self ..)
    unfold NoDup tPairs
    rw [List.pairwise_append]
    refine ⟨sorted_nodup hb.1, pairs_nodup hi', ?_⟩
    intro p hp q hq
    obtain ⟨e, he, hqe⟩ := mem_tPairs.mp hq
    apply not_equal_of_hash_ne
    rw [hb.2.2 p hp, (hi'.2 e he).2.2 q hqe]
    exact hu.1 e he

theorem rep_perm {t : Table} {d : Dict} (h : Rep t d) : (tPairs t).Perm d := by
  obtain ⟨hi, hd, hm⟩ := h
  rw [List.perm_ext_iff_of_nodup (nodup_nodup (pairs_nodup hi)) (nodup_nodup hd)]
  intro q
  rw [mem_tPairs, hm q]

theorem tPairs_perm {t t' : Table} (hp : t.Perm t') : (tPairs t).Perm (tPairs t') := by
  induction hp with
  | nil => exact List.Perm.refl _
  | cons e _ ih => cases e; simp only [tPairs]; exact List.Perm.append_left _ ih
  | swap e e' t =>
    cases e; cases e'; simp only [tPairs]
    rw [← List.append_assoc, ← List.append_assoc]
    exact List.Perm.append_right _ List.perm_append_comm
  | trans _ _ ih1 ih2 => exact ih1.trans ih2

theorem rep_range {t : Table} {d : Dict} (h : Rep t d) : (tRange t).Perm d :=
  (tPairs_perm (sortByHash_perm t)).trans (rep_perm h)

theorem rep_len {t : Table} {d : Dict} (h : Rep t d) : tLen t = d.length := by
  rw [tLen_eq]; exact (rep_perm h).length_eq


end

end Uniflow.MapHeap
