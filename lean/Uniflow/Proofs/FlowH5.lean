/-
C02, joint model, one-in-port node kinds, part 5: transporting the node's log invariant along a log change at
one key; cells under `markWritten` / `fillCell`; the reference answer of a complete request.
-/
import Uniflow.Proofs.FlowH4

namespace Uniflow.FlowH
open Uniflow.Tracer Uniflow.Node Uniflow.Flow Uniflow.FlowInv Uniflow.FlowG Uniflow.ATracer

/-- `lg'` agrees with `lg` away from key `k`, and keeps reference answers -/
structure Tr (lg lg' : Log) (k : Pid) : Prop where
  unl : ∀ id, id ≠ k → Unlogged lg id → Unlogged lg' id
  ra : ∀ q b, RA lg q b → RA lg' q b
  same : ∀ id, id ≠ k → aget lg'.acts id = aget lg.acts id ∧ aget lg'.echo id = aget lg.echo id ∧
    aget lg'.sinkAns id = aget lg.sinkAns id ∧ aget lg'.dels id = aget lg.dels id

theorem tr_refl (lg : Log) (k : Pid) : Tr lg lg k := ⟨fun _ _ h => h, fun _ _ h => h, fun _ _ => ⟨rfl, rfl, rfl, rfl⟩⟩

theorem tr_of_ext (lg lg' : Log) (k : Pid) (hx : LogExt lg lg' k) : Tr lg lg' k :=
  ⟨fun id hne h => unlogged_ext lg lg' k hx id hne h, fun q b h => ra_ext lg lg' k hx q b h,
   fun id hne => by obtain ⟨s1, s2, s3, s4⟩ := hx.2 id hne; exact ⟨s1, s3, s4, s2⟩⟩

theorem cellA_tr (lg lg' : Log) (k : Pid) (t : Tr lg lg' k) (n : Nat) (q : Pid) (c : Cell)
    (hk : ∀ q', c = .linked q' → q' ≠ k ∧ aget lg'.owner q' = aget lg.owner q')
    (h : CellA lg n q c) : CellA lg' n q c := by
  cases c with
  | linked q' =>
    obtain ⟨e, hu, hw⟩ := h
    subst e
    exact ⟨rfl, t.unl q' (hk q' rfl).1 hu, by rw [(hk q' rfl).2]; exact hw⟩
  | written q' w => exact h
  | filled a => exact t.ra q a h

theorem all2_cellA_tr (lg lg' : Log) (k : Pid) (t : Tr lg lg' k) (n : Nat) : ∀ (qs : List Pid) (cs : List Cell),
    (∀ q' ∈ linkedIds cs, q' ≠ k ∧ aget lg'.owner q' = aget lg.owner q') →
    All2 (CellA lg n) qs cs → All2 (CellA lg' n) qs cs
  | [], [], _, _ => trivial
  | q :: qs, c :: cs, hk, h => by
    refine ⟨cellA_tr lg lg' k t n q c ?_ h.1, all2_cellA_tr lg lg' k t n qs cs ?_ h.2⟩
    · intro q' e; subst e; exact hk q' (by simp [linkedIds])
    · intro q' hq'
      apply hk q'
      cases c <;> simp [linkedIds, hq']
  | [], _ :: _, _, h => absurd h (by simp [All2])
  | _ :: _, [], _, h => absurd h (by simp [All2])

/-- `Write` accepted: the linked cell of `k` becomes `written` -/
theorem all2_markWritten (lg lg' : Log) (k : Pid) (t : Tr lg lg' k) (n : Nat) (w : Wid) :
    ∀ (qs : List Pid) (cs : List Cell), (openIds cs).Nodup →
    (∀ q' ∈ linkedIds cs, q' ≠ k → aget lg'.owner q' = aget lg.owner q') →
    All2 (CellA lg n) qs cs → All2 (CellA lg' n) qs (markWritten k w cs)
  | [], [], _, _, _ => trivial
  | q :: qs, c :: cs, hnd, ho, h => by
    cases c with
    | linked q' =>
      simp only [openIds, List.nodup_cons] at hnd
      simp only [markWritten]
      by_cases e : q' = k
      · rw [if_pos e]
        refine ⟨h.1.1, all2_cellA_tr lg lg' k t n qs cs ?_ h.2⟩
        intro q2 hq2
        have hne : q2 ≠ k := fun e2 => hnd.1 (by rw [e, ← e2]; exact linkedIds_sub_open cs q2 hq2)
        exact ⟨hne, ho q2 (by simp [linkedIds, hq2]) hne⟩
      · rw [if_neg e]
        refine ⟨cellA_tr lg lg' k t n q _ (fun q2 e2 => by
          simp only [Cell.linked.injEq] at e2; subst e2; exact ⟨e, ho q' (by simp [linkedIds]) e⟩) h.1, ?_⟩
        exact all2_markWritten lg lg' k t n w qs cs hnd.2 (fun q2 hq2 => ho q2 (by simp [linkedIds, hq2])) h.2
    | written q' w' =>
      simp only [openIds, List.nodup_cons] at hnd
      exact ⟨h.1, all2_markWritten lg lg' k t n w qs cs hnd.2 (fun q2 hq2 => ho q2 (by simpa [linkedIds] using hq2)) h.2⟩
    | filled b =>
      simp only [openIds] at hnd
      exact ⟨t.ra q b h.1, all2_markWritten lg lg' k t n w qs cs hnd (fun q2 hq2 => ho q2 (by simpa [linkedIds] using hq2)) h.2⟩
  | [], _ :: _, _, _, h => absurd h (by simp [All2])
  | _ :: _, [], _, _, h => absurd h (by simp [All2])

/-- the answer to packet `k` arrives: its cell becomes `filled` -/
theorem all2_fillCell (lg lg' : Log) (k : Pid) (t : Tr lg lg' k) (n : Nat) (ans : Ans) (hra : RA lg' k ans) :
    ∀ (qs : List Pid) (cs : List Cell), (openIds cs).Nodup →
    (∀ q' ∈ linkedIds cs, q' ≠ k → aget lg'.owner q' = aget lg.owner q') →
    All2 (CellA lg n) qs cs → All2 (CellA lg' n) qs (fillCell k ans cs)
  | [], [], _, _, _ => trivial
  | q :: qs, c :: cs, hnd, ho, h => by
    have rest_tr : (openIds cs).Nodup → k ∉ openIds cs → All2 (CellA lg' n) qs cs := by
      intro _ hk
      apply all2_cellA_tr lg lg' k t n qs cs _ h.2
      intro q2 hq2
      have hne : q2 ≠ k := fun e2 => hk (e2 ▸ linkedIds_sub_open cs q2 hq2)
      exact ⟨hne, ho q2 (by cases c <;> simp [linkedIds, hq2]) hne⟩
    cases c with
    | linked q' =>
      simp only [openIds, List.nodup_cons] at hnd
      simp only [fillCell]
      by_cases e : q' = k
      · rw [if_pos e]
        exact ⟨by show RA lg' q ans; rw [← h.1.1, e]; exact hra, rest_tr hnd.2 (e ▸ hnd.1)⟩
      · rw [if_neg e]
        refine ⟨cellA_tr lg lg' k t n q _ (fun q2 e2 => by
          simp only [Cell.linked.injEq] at e2; subst e2; exact ⟨e, ho q' (by simp [linkedIds]) e⟩) h.1, ?_⟩
        exact all2_fillCell lg lg' k t n ans hra qs cs hnd.2 (fun q2 hq2 => ho q2 (by simp [linkedIds, hq2])) h.2
    | written q' w' =>
      simp only [openIds, List.nodup_cons] at hnd
      simp only [fillCell]
      by_cases e : q' = k
      · rw [if_pos e]
        have hq : q' = q := h.1
        exact ⟨by show RA lg' q ans; rw [← hq, e]; exact hra, rest_tr hnd.2 (e ▸ hnd.1)⟩
      · rw [if_neg e]
        exact ⟨h.1, all2_fillCell lg lg' k t n ans hra qs cs hnd.2 (fun q2 hq2 => ho q2 (by simpa [linkedIds] using hq2)) h.2⟩
    | filled b =>
      simp only [openIds] at hnd
      simp only [fillCell]
      exact ⟨t.ra q b h.1, all2_fillCell lg lg' k t n ans hra qs cs hnd (fun q2 hq2 => ho q2 (by simpa [linkedIds] using hq2)) h.2⟩
  | [], _ :: _, _, _, h => absurd h (by simp [All2])
  | _ :: _, [], _, _, h => absurd h (by simp [All2])

/-- a request that does not own `k` keeps its invariant along the log change -/
theorem reqA_tr (lg lg' : Log) (k : Pid) (t : Tr lg lg' k) (n : Nat) (pc pc' : PC) (y : Req)
    (hpc : remFor pc' y.p = remFor pc y.p) (hne : y.p ≠ k)
    (hl : ∀ q' ∈ linkedIds (cellsOfSt y.st), q' ≠ k ∧ aget lg'.owner q' = aget lg.owner q')
    (hr : ∀ q' ∈ remFor pc y.p, q' ≠ k ∧ aget lg'.owner q' = aget lg.owner q')
    (h : ReqA lg n pc y) : ReqA lg' n pc' y := by
  simp only [ReqA] at h ⊢
  rw [hpc]
  obtain ⟨s1, s2, s3, s4⟩ := t.same y.p hne
  cases hst : y.st with
  | direct w => rw [hst] at h; exact h
  | cells cs =>
    rw [hst] at h hl
    obtain ⟨qs, a1, a2, a3, a4, a5, a6, a7⟩ := h
    refine ⟨qs, all2_cellA_tr lg lg' k t n qs cs hl a1, by rw [s1]; exact a2, by rw [s2]; exact a3,
      by rw [s3]; exact a4, by rw [s4]; exact a5, a6, ?_⟩
    intro q' hq'
    obtain ⟨u, o⟩ := a7 q' hq'
    exact ⟨t.unl q' (hr q' hq').1 u, by rw [(hr q' hq').2]; exact o⟩

theorem reqB_tr (lg lg' : Log) (k : Pid) (t : Tr lg lg' k) (n : Nat) (pc pc' : PC) (y : Req)
    (hpc : remFor pc' y.p = remFor pc y.p) (hne : y.p ≠ k)
    (hl : ∀ q' ∈ linkedIds (cellsOfSt y.st), q' ≠ k ∧ aget lg'.owner q' = aget lg.owner q')
    (hr : ∀ q' ∈ remFor pc y.p, q' ≠ k ∧ aget lg'.owner q' = aget lg.owner q')
    (h : ReqB lg n pc y) : ReqB lg' n pc' y := by
  rcases h with h | ⟨v, e1, e2, e3⟩
  · exact Or.inl (reqA_tr lg lg' k t n pc pc' y hpc hne hl hr h)
  · exact Or.inr ⟨v, e1, by rw [(t.same y.p hne).2.1]; exact e2, by rw [hpc]; exact e3⟩

end Uniflow.FlowH
