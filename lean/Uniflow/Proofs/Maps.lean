/-
Lemmas about maps in `Range` order (Model/Store.lean: `mfind`, `mget`, `mhas`, `mset`, `mdel`): a map is a dictionary
keyed by `equal`. Core Lean only.
-/
import Uniflow.Model.Store
import Uniflow.Props.C14

namespace Uniflow.Store
open Uniflow.Value

theorem equal_comm (a b : Val) : equal a b = equal b a := C14.equal_symm a b

theorem equal_left_congr {a b : Val} (h : equal a b = true) (x : Val) : equal a x = equal b x := by
  cases hb : equal b x with
  | true => exact C14.equal_trans a b x h hb
  | false =>
    cases ha : equal a x with
    | false => rfl
    | true =>
      have := C14.equal_trans b a x (by rw [equal_comm]; exact h) ha
      rw [this] at hb; cases hb

theorem equal_right_congr {a b : Val} (h : equal a b = true) (x : Val) : equal x a = equal x b := by
  rw [equal_comm x a, equal_comm x b]; exact equal_left_congr h x

theorem mfind_mset (k v x : Val) : ∀ ps : PList, mfind (mset ps k v) x = if equal k x then some v else mfind ps x
  | .nil => by simp [mset, mfind]
  | .cons k' v' ps => by
    simp only [mset]
    by_cases h1 : equal k' k = true
    · simp only [h1, if_true, mfind, equal_left_congr h1 x]
      split <;> simp_all
    · simp only [h1, Bool.false_eq_true, if_false]
      split
      · simp [mfind]
      · simp only [mfind, mfind_mset k v x ps]
        by_cases h2 : equal k' x = true
        · have : equal k x = false := by
            cases h3 : equal k x with
            | false => rfl
            | true =>
              have := C14.equal_trans k' x k h2 (by rw [equal_comm]; exact h3)
              exact absurd this h1
          simp [h2, this]
        · simp [h2]

/-- lookups of a key other than the deleted one are unchanged -/
theorem mfind_mdel_other {k x : Val} (h : equal k x = false) : ∀ ps : PList, mfind (mdel ps k) x = mfind ps x
  | .nil => by simp [mdel]
  | .cons k' v' ps => by
    simp only [mdel]
    by_cases h1 : equal k' k = true
    · have : equal k' x = false := by rw [equal_left_congr h1 x]; exact h
      simp [h1, mfind, this]
    · simp only [h1, Bool.false_eq_true, if_false, mfind, mfind_mdel_other h ps]

/-- no two keys of the map are `equal` (true of every map Go can build) -/
def DistinctKeys : PList → Prop
  | .nil => True
  | .cons k _ ps => mfind ps k = none ∧ DistinctKeys ps

theorem mfind_congr_key {a b : Val} (h : equal a b = true) : ∀ ps : PList, mfind ps a = mfind ps b
  | .nil => rfl
  | .cons k' v' ps => by simp only [mfind, equal_right_congr h k', mfind_congr_key h ps]

theorem mfind_mdel_same {k x : Val} (h : equal k x = true) : ∀ {ps : PList}, DistinctKeys ps → mfind (mdel ps k) x = none
  | .nil, _ => by simp [mdel, mfind]
  | .cons k' v' ps, hd => by
    simp only [mdel]
    by_cases h1 : equal k' k = true
    · simp only [h1, if_true]
      have : equal k' x = true := by rw [equal_left_congr h1 x]; exact h
      rw [← mfind_congr_key this]; exact hd.1
    · have : equal k' x = false := by
        cases h3 : equal k' x with
        | false => rfl
        | true => exact absurd (C14.equal_trans k' x k h3 (by rw [equal_comm]; exact h)) h1
      simp only [h1, Bool.false_eq_true, if_false, mfind, this, mfind_mdel_same h hd.2]

end Uniflow.Store
