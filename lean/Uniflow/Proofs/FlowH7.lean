/-
C02, joint model, one-in-port node kinds, part 7: the answer to a derived packet arrives (a refused `Write`
answered with the packet itself, or a downstream answer) – the cell is filled and the complete prefix of the
reader's requests is answered, each with the reference answer of its packet.
-/
import Uniflow.Proofs.FlowH6

namespace Uniflow.FlowH
open Uniflow.Tracer Uniflow.Node Uniflow.Flow Uniflow.FlowInv Uniflow.FlowG Uniflow.ATracer

def ansOf (x : Req) : List (Pid × Ans) :=
  match reply x.st with
  | some b => [(x.p, b)]
  | none => []

theorem filter_r0 : ∀ (rs : List Req), (∀ x ∈ rs, x.r = 0) → rs.filter (fun x => x.r = 0) = rs
  | [], _ => rfl
  | x :: xs, h => by
    simp only [List.filter_cons, h x List.mem_cons_self, decide_true, if_true]
    rw [filter_r0 xs (fun y hy => h y (List.mem_cons_of_mem _ hy))]

theorem updReq_r0 (p : Pid) (f : RSt → RSt) : ∀ (rs : List Req), (∀ x ∈ rs, x.r = 0) → ∀ y ∈ updReq p f rs, y.r = 0
  | [], _, y, hy => by simp [updReq] at hy
  | z :: zs, h, y, hy => by
    simp only [updReq] at hy
    split at hy
    · simp only [List.mem_cons] at hy
      rcases hy with e | hy
      · rw [e]; exact h z List.mem_cons_self
      · exact h y (List.mem_cons_of_mem _ hy)
    · simp only [List.mem_cons] at hy
      rcases hy with e | hy
      · rw [e]; exact h z List.mem_cons_self
      · exact updReq_r0 p f zs (fun x hx => h x (List.mem_cons_of_mem _ hx)) y hy

theorem replyEv_ansOf : ∀ (pre : List Req), pre.flatMap (replyEv 0) = (pre.flatMap ansOf).map (fun d => Ev.reply 0 d.2)
  | [] => rfl
  | x :: xs => by
    simp only [List.flatMap_cons, List.map_append, replyEv_ansOf xs]
    congr 1
    simp only [replyEv, ansOf]
    cases reply x.st <;> rfl

theorem ansOf_fst : ∀ (pre : List Req), (∀ x ∈ pre, ∃ b, reply x.st = some b) →
    (pre.flatMap ansOf).map (·.1) = pre.map (·.p)
  | [], _ => rfl
  | x :: xs, h => by
    obtain ⟨b, hb⟩ := h x List.mem_cons_self
    simp only [List.flatMap_cons, List.map_append, List.map_cons, ansOf, hb, List.map_nil,
      ansOf_fst xs (fun y hy => h y (List.mem_cons_of_mem _ hy))]
    rfl

/-- `flushR 0` on a one-reader node: a complete prefix leaves, one reply each -/
theorem flush_ds (rs : List Req) (hr0 : ∀ x ∈ rs, x.r = 0) :
    ∃ pre, rs = pre ++ (flushR 0 rs).1 ∧ (flushR 0 rs).2 = (pre.flatMap ansOf).map (fun d => Ev.reply 0 d.2) ∧
      (∀ x ∈ pre, ∃ b, reply x.st = some b) := by
  obtain ⟨pre, h1, h2, h3, _⟩ := flushR_spec 0 rs
  have hr0' : ∀ x ∈ (flushR 0 rs).1, x.r = 0 := fun x hx => hr0 x ((flushR_sublist 0 rs).subset hx)
  rw [filter_r0 rs hr0, filter_r0 _ hr0'] at h1
  exact ⟨pre, h1, by rw [h3, replyEv_ansOf], h2⟩

theorem nl_fill (lg lg' : Log) (n : Nat) (inbox : List Pkt) (pc pc' : PC) (a : A) (k : Pid) (ans : Ans)
    (h : NL lg n { inbox := inbox, pc := pc } a) (hpc : ∀ p', remFor pc' p' = remFor pc p')
    (hact : ∀ pk grp, pc = .action pk grp → pc' = .action pk grp)
    (hact2 : ∀ q', pc = .emit [.write none q'] → pc' = pc ∨ q'.id = k) (hwb' : wOK pc')
    (hnd : (ids a.reqs).Nodup) (hr0 : ∀ x ∈ a.reqs, x.r = 0)
    (p : Pid) (cs : List Cell) (hX : (⟨p, 0, .cells cs⟩ : Req) ∈ a.reqs) (hk : k ∈ openIds cs)
    (hrem0 : remFor pc p = []) (t : Tr lg lg' k) (hki : ∀ x ∈ inbox, x.id ≠ k)
    (hkr : ∀ y ∈ a.reqs, k ∉ remFor pc y.p)
    (ho : ∀ id ∈ nlIds { inbox := inbox, pc := pc } a, aget lg'.owner id = aget lg.owner id)
    (hra : RA lg' k ans) :
    ∃ ds : List (Pid × Ans), NL lg' n { inbox := inbox, pc := pc' } (afill a k ans).1 ∧
      (afill a k ans).2 = ds.map (fun d => Ev.reply 0 d.2) ∧ (∀ d ∈ ds, RA lg' d.1 d.2) ∧
      a.reqs.map (·.p) = ds.map (·.1) ++ (afill a k ans).1.reqs.map (·.p) ∧ (afill a k ans).1.wq = a.wq := by
  have hf := findReq_of_mem a.reqs _ hnd hX
  have hown := ownerOf_of_mem k a.reqs _ cs hnd hX rfl hk
  have hfk := findReq_cell_none a.reqs _ k hnd hX (by simpa [cellsOfSt] using hk)
  have ho1 : ∀ x ∈ inbox, aget lg'.owner x.id = aget lg.owner x.id :=
    fun x hx => ho x.id (by simp only [nlIds, List.mem_append]; left; left; left; exact List.mem_map_of_mem hx)
  have ho2 : ∀ x ∈ a.reqs, aget lg'.owner x.p = aget lg.owner x.p :=
    fun x hx' => ho x.p (by simp only [nlIds, List.mem_append]; left; left; right; exact List.mem_map_of_mem hx')
  have ho3 : ∀ x ∈ a.reqs, ∀ cs', x.st = .cells cs' → ∀ q' ∈ linkedIds cs', aget lg'.owner q' = aget lg.owner q' :=
    fun x hx' cs' hst q' hq' => ho q' (by
      simp only [nlIds, List.mem_append]; left; right; exact mem_linkedAll a x cs' hx' hst q' hq')
  have ho4 : ∀ x ∈ a.reqs, ∀ q' ∈ remFor pc x.p, aget lg'.owner q' = aget lg.owner q' :=
    fun x hx' q' hq' => ho q' (by
      simp only [nlIds, List.mem_append]; right; exact List.mem_flatMap.mpr ⟨x, hx', hq'⟩)
  have hpne : p ≠ k := fun e => (open_nodup_of_mem a.reqs p 0 cs hnd hX).1 (e ▸ hk)
  -- the updated list
  have hcases := mem_updReq_cases p (fillSt k ans) a.reqs
  have hA : ∀ y ∈ updReq p (fillSt k ans) a.reqs, ReqB lg' n pc' y ∧ aget lg'.owner y.p = some (n * 64) := by
    intro y hy
    rcases hcases y (nodup_p _ hnd) hy with ⟨h1, h2⟩ | ⟨x, h1, h2, h3⟩
    · refine ⟨?_, by rw [ho2 y h1]; exact h.own y h1⟩
      apply reqB_tr lg lg' k t n _ _ y (hpc y.p) _ _ _ (h.req y h1)
      · intro e
        have := mem_unique a.reqs y _ k hnd h1 hX (by simp [idsR, e]) (by simp [idsR, cellsOfSt, hk])
        rw [this] at h2; exact h2 rfl
      · intro q' hq'
        cases hst : y.st with
        | direct w' => rw [hst] at hq'; simp [cellsOfSt, linkedIds] at hq'
        | cells cs' =>
          rw [hst] at hq'
          refine ⟨fun e => ?_, ho3 y h1 cs' hst q' hq'⟩
          have := mem_unique a.reqs y _ k hnd h1 hX (e ▸ linked_in_idsR y cs' hst q' hq')
            (by simp [idsR, cellsOfSt, hk])
          rw [this] at h2; exact h2 rfl
      · intro q' hq'
        exact ⟨fun e => hkr y h1 (e ▸ hq'), ho4 y h1 q' hq'⟩
    · have hxe : x = ⟨p, 0, .cells cs⟩ := mem_unique a.reqs x _ p hnd h1 hX (by simp [idsR, h2]) (by simp [idsR])
      subst hxe
      subst h3
      refine ⟨?_, by show aget lg'.owner p = _; rw [ho2 _ h1]; exact h.own _ h1⟩
      rcases h.req _ h1 with hr | ⟨v, e1, _, _⟩
      rotate_left
      · simp only [RSt.cells.injEq] at e1; rw [e1] at hk; simp [openIds] at hk
      left
      simp only [ReqA, fillSt] at hr ⊢
      rw [hpc, hrem0] at *
      obtain ⟨qs, a1, a2, a3, a4, a5, _, _⟩ := hr
      obtain ⟨s1, s2, s3, s4⟩ := t.same p hpne
      refine ⟨qs, ?_, by rw [s1]; exact a2, by rw [s2]; exact a3, by rw [s3]; exact a4, by rw [s4]; exact a5,
        Or.inl rfl, by simp⟩
      exact all2_fillCell lg lg' k t n ans hra qs cs (open_nodup_of_mem a.reqs p 0 cs hnd hX).2
        (fun q' hq' _ => ho3 _ h1 cs rfl q' hq') a1
  have hZ : ∀ y ∈ updReq p (fillSt k ans) a.reqs, y.st = .cells [] →
      remFor pc' y.p ≠ [] ∨ (∃ pk grp, pc' = .action pk grp ∧ pk.id = y.p) ∨
      ∃ q, pc' = .emit [.write none q] ∧ q.id = y.p := by
    intro y hy hst
    rcases hcases y (nodup_p _ hnd) hy with ⟨h1, h2⟩ | ⟨x, h1, h2, h3⟩
    · rcases h.nz y h1 hst with e | ⟨pk, grp, e, e2⟩ | ⟨q', e, e2⟩
      · left; rw [hpc]; exact e
      · exact Or.inr (Or.inl ⟨pk, grp, hact pk grp e, e2⟩)
      · rcases hact2 q' e with e3 | e3
        · exact Or.inr (Or.inr ⟨q', by rw [e3]; exact e, e2⟩)
        · exfalso
          have : k ∈ idsR y := by simp [idsR, ← e3, e2]
          have := mem_unique a.reqs y _ k hnd h1 hX this (by simp [idsR, cellsOfSt, hk])
          rw [this] at h2; exact h2 rfl
    · have hxe : x = ⟨p, 0, .cells cs⟩ := mem_unique a.reqs x _ p hnd h1 hX (by simp [idsR, h2]) (by simp [idsR])
      subst hxe
      rw [h3] at hst
      simp only [fillSt, RSt.cells.injEq] at hst
      cases cs with
      | nil => simp [openIds] at hk
      | cons c cs' => cases c <;> simp [fillCell] at hst <;> split at hst <;> simp at hst
  have hinb : ∀ x ∈ inbox, Unlogged lg' x.id ∧ aget lg'.owner x.id = some (n * 64) := by
    intro x hx
    obtain ⟨u, o⟩ := h.inb x hx
    exact ⟨t.unl x.id (hki x hx) u, by rw [ho1 x hx]; exact o⟩
  have hf1 : findReq p (updReq p (fillSt k ans) a.reqs) = some ⟨p, 0, fillSt k ans (.cells cs)⟩ :=
    findReq_upd a.reqs p _ _ hf
  have hr1 : ∀ y ∈ updReq p (fillSt k ans) a.reqs, y.r = 0 := updReq_r0 p _ a.reqs hr0
  have hmp : (updReq p (fillSt k ans) a.reqs).map (·.p) = a.reqs.map (·.p) := updReq_map_p _ _ _
  simp only [afill, hfk, hown, afterFill, hf1]
  cases hrep : reply (fillSt k ans (.cells cs)) with
  | none =>
    refine ⟨[], ⟨hinb, fun y hy => (hA y hy).2, fun y hy => (hA y hy).1, hZ, hwb'⟩, rfl, by simp, by simp [hmp], rfl⟩
  | some b =>
    obtain ⟨pre, e1, e2, e3⟩ := flush_ds _ hr1
    have hsub := flushR_sublist 0 (updReq p (fillSt k ans) a.reqs)
    refine ⟨pre.flatMap ansOf, ⟨hinb, fun y hy => (hA y (hsub.subset hy)).2, fun y hy => (hA y (hsub.subset hy)).1,
        fun y hy => hZ y (hsub.subset hy), hwb'⟩,
      e2, ?_, ?_, rfl⟩
    · intro d hd
      simp only [List.mem_flatMap, ansOf] at hd
      obtain ⟨x, hx, hd⟩ := hd
      cases hb : reply x.st with
      | none => rw [hb] at hd; simp at hd
      | some b' =>
        rw [hb] at hd
        simp only [List.mem_singleton] at hd
        subst hd
        have hxm : x ∈ updReq p (fillSt k ans) a.reqs := by rw [e1]; exact List.mem_append_left _ hx
        exact ra_of_reqA lg' n pc' x b' (hA x hxm).1 hb
    · rw [ansOf_fst pre e3, ← hmp]
      conv => lhs; rw [e1]
      simp

theorem nl_wq (lg : Log) (n : Nat) (th : Thread) (a : A) (wq : List (Wid × List Pid)) (h : NL lg n th a) :
    NL lg n th { a with wq := wq } := ⟨h.inb, h.own, h.req, h.nz, h.wb⟩

theorem allLinked_no_written : ∀ (cs : List Cell) (k : Pid) (w : Wid), allLinked cs = true → Cell.written k w ∉ cs
  | [], _, _, _ => by simp
  | c :: cs, k, w, h => by
    cases c with
    | linked q =>
      simp only [allLinked, Bool.true_and] at h
      simp only [List.mem_cons, not_or]
      exact ⟨by simp, allLinked_no_written cs k w h⟩
    | written q w' => simp [allLinked] at h
    | filled b => simp [allLinked] at h

/-- a downstream answer for the oldest packet owed on writer `w` -/
theorem nl_answer (lg : Log) (n : Nat) (inbox : List Pkt) (pc : PC) (a : A) (w : Wid) (ans : Ans) (k : Pid)
    (rest : List Pid) (h : NL lg n { inbox := inbox, pc := pc } a) (hinv : Inv a) (hr0 : ∀ x ∈ a.reqs, x.r = 0)
    (hq : getL a.wq w = k :: rest) (hra : RA lg k ans) (hki : ∀ x ∈ inbox, x.id ≠ k)
    (hkr : ∀ y ∈ a.reqs, k ∉ remFor pc y.p) :
    ∃ ds : List (Pid × Ans), NL lg n { inbox := inbox, pc := pc } (aanswer a w ans).1 ∧
      (aanswer a w ans).2 = ds.map (fun d => Ev.reply 0 d.2) ∧ (∀ d ∈ ds, RA lg d.1 d.2) ∧
      a.reqs.map (·.p) = ds.map (·.1) ++ (aanswer a w ans).1.reqs.map (·.p) ∧
      (aanswer a w ans).1.wq = setOrDel a.wq w rest := by
  obtain ⟨x, hx, hcase⟩ := hinv.owed w k (by rw [hq]; simp)
  have hrqB := h.req x hx
  rcases hcase with ⟨_, hst⟩ | ⟨cs, hst, hm⟩
  · rcases hrqB with hrq | ⟨v, e1, _, _⟩
    · simp only [ReqA, hst] at hrq
    · rw [hst] at e1; cases e1
  · have hxe : x = ⟨x.p, 0, .cells cs⟩ := by
      cases x with
      | mk xp xr xst => simp only at hst; subst hst; have := hr0 _ hx; simp only at this; subst this; rfl
    rw [hxe] at hx
    have hrq : ReqA lg n pc x := reqB_A lg n pc x hrqB (by
      intro v e; rw [hst] at e; simp only [RSt.cells.injEq] at e; rw [e] at hm; simp at hm)
    have hrem0 : remFor pc x.p = [] := by
      simp only [ReqA, hst] at hrq
      obtain ⟨_, _, _, _, _, _, a6, _⟩ := hrq
      rcases a6 with e | e
      · exact e
      · exact absurd hm (allLinked_no_written cs k w e)
    have hN : NL lg n { inbox := inbox, pc := pc } { a with wq := setOrDel a.wq w rest } := nl_wq lg n _ a _ h
    obtain ⟨ds, d1, d2, d3, d4, d5⟩ := nl_fill lg lg n inbox pc pc { a with wq := setOrDel a.wq w rest } k ans hN
      (fun _ => rfl) (fun _ _ e => e) (fun _ _ => Or.inl rfl) h.wb hinv.nodup hr0 x.p cs hx (written_mem_open cs k w hm) hrem0 (tr_refl lg k) hki hkr
      (fun _ _ => rfl) hra
    have he : aanswer a w ans = afill { a with wq := setOrDel a.wq w rest } k ans := by
      simp only [aanswer, hq]
    rw [he]
    exact ⟨ds, d1, d2, d3, d4, d5⟩

/-- a `Write` nobody accepts: the packet is its own answer -/
theorem nl_write_rej (lg lg' : Log) (n : Nat) (a : A) (inbox : List Pkt) (w : Option Wid) (q : Pkt) (ops : List Op)
    (h : NL lg n { inbox := inbox, pc := .emit (.write w q :: ops) } a) (hnd : (ids a.reqs).Nodup)
    (hr0 : ∀ x ∈ a.reqs, x.r = 0)
    (p : Pid) (cs : List Cell) (rest : List Pid) (hX : (⟨p, 0, .cells cs⟩ : Req) ∈ a.reqs)
    (hl : linkedIds cs = q.id :: rest) (hrem0 : remFor (.emit (.write w q :: ops)) p = [])
    (hx : LogExt lg lg' q.id) (hecho : aget lg'.echo q.id = some q.pay)
    (hki : ∀ x ∈ inbox, x.id ≠ q.id)
    (hkr : ∀ y ∈ a.reqs, q.id ∉ remFor (.emit (.write w q :: ops)) y.p)
    (ho : ∀ id ∈ nlIds { inbox := inbox, pc := .emit (.write w q :: ops) } a,
      aget lg'.owner id = aget lg.owner id) :
    ∃ ds : List (Pid × Ans),
      NL lg' n { inbox := inbox, pc := nextPc ops } (awrite a w q.id (.pay q.pay) false).1 ∧
      (awrite a w q.id (.pay q.pay) false).2 = ds.map (fun d => Ev.reply 0 d.2) ∧ (∀ d ∈ ds, RA lg' d.1 d.2) ∧
      a.reqs.map (·.p) = ds.map (·.1) ++ (awrite a w q.id (.pay q.pay) false).1.reqs.map (·.p) ∧
      (awrite a w q.id (.pay q.pay) false).1.wq = a.wq := by
  have he : awrite a w q.id (.pay q.pay) false = afill a q.id (.pay q.pay) := by
    cases w <;> rfl
  rw [he]
  have hko : q.id ∈ openIds cs := linkedIds_sub_open cs q.id (by rw [hl]; simp)
  exact nl_fill lg lg' n inbox _ (nextPc ops) a q.id (.pay q.pay) h
    (fun p' => by rw [remFor_next]; rfl) (fun _ _ e => by cases e)
    (fun q' e => by
      simp only [PC.emit.injEq, List.cons.injEq, Op.write.injEq] at e
      exact Or.inr (by rw [← e.1.2])) (wOK_next _ ops h.wb) hnd hr0 p cs hX hko hrem0 (tr_of_ext lg lg' q.id hx) hki hkr ho
    (ra_echo lg' q.id q.pay hecho)

end Uniflow.FlowH
