/-
C02, joint model, all node kinds, part 3: routing all replies a node emitted for one of its in-readers; keeping the
log invariant of the threads that do not take part in a step (other nodes: by owner tag; other threads of the
stepping node: their ids are disjoint from the stepping thread's); the readers of the requests after a call.
-/
import Uniflow.Proofs.FlowN2

namespace Uniflow.FlowN
open Uniflow.Tracer Uniflow.Node Uniflow.Flow Uniflow.FlowInv Uniflow.FlowG Uniflow.ATracer Uniflow.FlowH Uniflow.FlowM
open Uniflow.ATracer (getL_setOrDel getL_aset)

/-- routing all replies a node has just emitted for its in-reader `r` -/
theorem HI_route (kinds : List Kind) (links : List (Nat × List Tgt)) (hwf : GraphWF5 kinds links) (aa : Nat → A) (n r : Nat)
    (hn1000 : n < 1000) (hr : r < 63) :
    ∀ (ds : List (Pid × Ans)) (D : Nat → List (Pid × Ans)) (g : G),
      HI kinds links aa D g → D (rkeyOf (.node n r)) = ds →
      HI kinds links aa (updD D (rkeyOf (.node n r)) []) (route g n (ds.map (fun x => Ev.reply r x.2))) := by
  intro ds
  induction ds with
  | nil =>
    intro D g h hD
    simp only [List.map_nil, route]
    rw [← hD, updD_self]; exact h
  | cons d ds ih =>
    intro D g h hD
    obtain ⟨c, a⟩ := d
    simp only [List.map_cons, route]
    have h1 := HI_gReply kinds links hwf aa D g (.node n r) c a ds h ⟨hr, hn1000⟩ hD
    have h2 := ih (updD D (rkeyOf (.node n r)) ds) _ h1 (by simp [updD])
    rw [updD_updD] at h2
    exact h2

/-- a node that takes no part in a step keeps its log invariant: the key the log is extended at carries the tag of
another node, or is new -/
theorem nlm_keep (lg lg' : Log) (k : Pid) (hx : LogExt lg lg' k) (m : Nat) (nd : Node) (a : A) (nx : Nat)
    (hjb : JBm nd a nx) (hlen : nd.threads.length ≤ 63) (hnl : NLm lg m nd a)
    (hown : ∀ id, id < nx → aget lg'.owner id = aget lg.owner id)
    (hk : nx ≤ k ∨ ∃ τ, aget lg.owner k = some τ ∧ τ / 64 ≠ m) : NLm lg' m nd a := by
  intro j th hg
  have hlt := nlIdsT_lt nd a nx hjb j th hg
  have hj : j < 63 := Nat.lt_of_lt_of_le (getThread_lt _ j th hg) hlen
  apply nlt_frame lg lg' k (tr_of_ext lg lg' k hx) m j th a a (hnl j th hg) (fun y hy _ => hy) _
    (fun id hid => hown id (hlt id hid))
  intro hmem
  rcases hk with hk | ⟨τ, h1, h2⟩
  · exact Nat.lt_irrefl _ (Nat.lt_of_lt_of_le (hlt k hmem) hk)
  · rcases nlt_tag lg m j th a (hnl j th hg) k hmem with e | e
    · rw [h1] at e; have := Option.some.inj e; omega
    · rw [h1] at e; have := Option.some.inj e; simp only [qTag] at this; omega

/-- thread `i` of a node steps: the other threads keep their log invariant – the key the log changes at is new, or
an id waiting in thread `i`, or an id of one of reader `i`'s requests -/
theorem nlm_step (lg lg' : Log) (k : Pid) (t : Tr lg lg' k) (n : Nat) (nd nd' : Node) (a a' : A) (nx : Nat)
    (hjb : JBm nd a nx) (hnl : NLm lg n nd a) (i : Rid) (th th' : Thread)
    (hg : getThread nd.threads i = some th)
    (hths : ∀ j, getThread nd'.threads j = if j = i then some th' else getThread nd.threads j)
    (hi : NLt lg' n i th' a')
    (hreq : ∀ y ∈ a'.reqs, y.r ≠ i → y ∈ a.reqs)
    (hk : nx ≤ k ∨ k ∈ tids th ∨ ∃ x ∈ a.reqs, x.r = i ∧ k ∈ idsR x)
    (hown : ∀ id, id < nx → aget lg'.owner id = aget lg.owner id) : NLm lg' n nd' a' := by
  intro j thj hgj
  rw [hths j] at hgj
  by_cases e : j = i
  · simp only [e, if_true, Option.some.injEq] at hgj
    subst hgj; rw [e]; exact hi
  · simp only [e, if_false] at hgj
    have hlt := nlIdsT_lt nd a nx hjb j thj hgj
    apply nlt_frame lg lg' k t n j thj a a' (hnl j thj hgj) (fun y hy hr => hreq y hy (by rw [hr]; exact e)) _
      (fun id hid => hown id (hlt id hid))
    intro hmem
    rcases hk with hk | hk | ⟨x, hx, hxr, hkx⟩
    · exact Nat.lt_irrefl _ (Nat.lt_of_lt_of_le (hlt k hmem) hk)
    · rcases nlIdsT_sub j thj a k hmem with ⟨y, hy, _, hm⟩ | hm
      · exact jbm_disj nd a nx hjb i th hg k (mem_ids_of_mem hy hm) hk
      · exact jbm_disj_th nd a nx hjb i j e th thj hg hgj k hk hm
    · rcases nlIdsT_sub j thj a k hmem with ⟨y, hy, hyr, hm⟩ | hm
      · have := mem_unique a.reqs x y k hjb.j.inv.nodup hx hy hkx hm
        rw [this] at hxr; exact e (hyr.symm.trans hxr)
      · exact jbm_disj nd a nx hjb j thj hgj k (mem_ids_of_mem hx hkx) hm

/-- the readers of the requests after a call: those of before, and the reader a `Read` registers -/
theorem rdr_acall (a : A) (c : Call) (P : Rid → Prop) (h : ∀ x ∈ a.reqs, P x.r) (hc : ∀ r, newReads c r ≠ [] → P r) :
    ∀ y ∈ (acall a c).1.reqs, P y.r := by
  intro y hy
  obtain ⟨popped, _, _, h3⟩ := acall_answers a c
  have h4 := h3 y.r
  have hm : y ∈ (acall a c).1.reqs.filter (fun x => x.r = y.r) := List.mem_filter.mpr ⟨hy, by simp⟩
  by_cases hn : newReads c y.r = []
  · rw [hn, List.append_nil] at h4
    cases hf : a.reqs.filter (fun x => x.r = y.r) with
    | nil =>
      rw [hf] at h4
      have h5 := congrArg List.length h4
      simp only [List.map_nil, List.length_nil, List.length_append, List.length_map] at h5
      have : ((acall a c).1.reqs.filter (fun x => x.r = y.r)).length = 0 := by omega
      rw [List.eq_nil_of_length_eq_zero this] at hm; simp at hm
    | cons x xs =>
      have hx : x ∈ a.reqs.filter (fun x => x.r = y.r) := by rw [hf]; simp
      obtain ⟨hx1, hx2⟩ := List.mem_filter.mp hx
      simp only [decide_eq_true_eq] at hx2
      rw [← hx2]; exact h x hx1
  · exact hc y.r hn

end Uniflow.FlowN
