/-
Kahn correctness for `linked` (second pass of `(*Table).linked`): the counting invariant
`degree[y] = number of reference entries, in the index of the visited and not yet listed symbols,
that name y`, and "acyclic ⇒ the left-over loop adds nothing".  Result: `linked_pairwise`.
-/
import Uniflow.Props.C07

namespace Uniflow.Table

/-! ### Kahn's counting invariant -/

/-- ids of the entries of `references[v]` (all ports), independent of iteration order. -/
def rids (st : State) (v : Nat) : List Nat :=
  (match aget v st.references with
    | none => ([] : List Ref)
    | some m => m.flatMap (fun (q : Nat × List Ref) => q.2)).map (fun (e : Ref) => e.id)

/-- how many entries of `references[v]` belong to the symbol with id `k`. -/
def cntTo (st : State) (v k : Nat) : Nat := (rids st v).count k

theorem filterMap_ids {g : Ref → Option Sym} (L : List Ref)
    (h : ∀ e ∈ L, ∃ S, g e = some S ∧ S.id = e.id) :
    (L.filterMap g).map (fun s => s.id) = L.map (fun e => e.id) := by
  induction L with
  | nil => rfl
  | cons e L ih =>
    obtain ⟨S, h1, h2⟩ := h e (by simp)
    simp only [List.filterMap_cons, h1, List.map_cons, h2]
    rw [ih (fun e he => h e (List.mem_cons_of_mem _ he))]

theorem referrers_ids_count (o : Ord) (ho : o.Valid) (tag : Nat) (st : State) (h : RInv st) (c : Sym)
    (k : Nat) : ((referrers o tag st c).map (fun s => s.id)).count k = cntTo st c.id k := by
  unfold referrers
  rw [filterMap_ids]
  · unfold cntTo rids entries
    cases aget c.id st.references with
    | none => rfl
    | some m =>
      exact ((List.Perm.flatMap_right (fun (q : Nat × List Ref) => q.2) (ho.2.1 tag m)).map (fun (e : Ref) => e.id)).count_eq k
  · intro e he
    obtain ⟨i, hi⟩ := (mem_entries o ho tag st h.inner c.id e).mp he
    obtain ⟨S, T, a1, _⟩ := (h.refs c.id i e).mp hi
    have hS0 : e.id ≠ 0 := by have := (h.wf _ _ a1).1; rw [h.keyId _ _ a1] at this; exact this
    refine ⟨S, ?_, h.keyId _ _ a1⟩
    have : resolve st c.ns e = e.id := by simp [resolve, hS0]
    rw [this]; exact a1

theorem dget_dadd_ne (d : Deg) (s : Sym) (v : Int) (k : Nat) (h : k ≠ s.id) : dget (dadd d s v) k = dget d k := by
  unfold dget dadd; rw [aget_aset_ne h]

theorem dget_fold_dadd (ns : List Sym) (d : Deg) (k : Nat) :
    dget (ns.foldl (fun d n => dadd d n 1) d) k = dget d k + ((ns.map (fun s => s.id)).count k : Nat) := by
  induction ns generalizing d with
  | nil => simp
  | cons n ns ih =>
    simp only [List.foldl_cons, ih, List.map_cons, List.count_cons]
    by_cases hk : n.id = k
    · subst hk; rw [dget_dadd_self]; simp; omega
    · have hk' : k ≠ n.id := fun e => hk e.symm
      rw [dget_dadd_ne _ _ _ _ hk']; simp [hk]

theorem kahnStep_fst (acc : Deg × List Sym) (n : Sym) : (kahnStep acc n).1 = dadd acc.1 n (-1) := by
  unfold kahnStep; simp only; split <;> rfl

theorem dget_fold_kahn (ns : List Sym) (acc : Deg × List Sym) (k : Nat) :
    dget (ns.foldl kahnStep acc).1 k = dget acc.1 k - ((ns.map (fun s => s.id)).count k : Nat) := by
  induction ns generalizing acc with
  | nil => simp
  | cons n ns ih =>
    simp only [List.foldl_cons, ih, List.map_cons, List.count_cons, kahnStep_fst]
    by_cases hk : n.id = k
    · subst hk; rw [dget_dadd_self]; simp; omega
    · have hk' : k ≠ n.id := fun e => hk e.symm
      rw [dget_dadd_ne _ _ _ _ hk']; simp [hk]

/-- entries naming `k` in the index of the symbols `V` that are not in `ids`. -/
def pend (st : State) (V ids : List Nat) (k : Nat) : Nat :=
  ((V.filter (fun v => decide (v ∉ ids))).map (fun v => cntTo st v k)).sum

theorem pend_congr (st : State) (V ids ids' : List Nat) (k : Nat) (h : ∀ v, v ∈ ids ↔ v ∈ ids') :
    pend st V ids k = pend st V ids' k := by
  unfold pend
  congr 2
  apply List.filter_congr
  intro v _
  simp [h v]

theorem sum_filter_split (w : Nat → Nat) (p q : Nat → Bool) (c : Nat) (V : List Nat) (hn : V.Nodup)
    (hc : c ∈ V) (hpc : p c = true) (hqc : q c = false) (hpq : ∀ v, v ≠ c → q v = p v) :
    ((V.filter p).map w).sum = ((V.filter q).map w).sum + w c := by
  induction V with
  | nil => cases hc
  | cons v V ih =>
    simp only [List.nodup_cons] at hn
    by_cases hv : v = c
    · subst hv
      have hsame : V.filter q = V.filter p := by
        apply List.filter_congr
        intro u hu
        exact hpq u (fun e => hn.1 (e ▸ hu))
      simp only [List.filter_cons, hpc, hqc, if_true, Bool.false_eq_true, if_false, List.map_cons,
        List.sum_cons, hsame]
      omega
    · have hc' : c ∈ V := by
        rcases List.mem_cons.mp hc with e | h
        · exact absurd e.symm hv
        · exact h
      have := ih hn.2 hc'
      simp only [List.filter_cons, hpq v hv]
      cases p v with
      | true => simp only [if_true, List.map_cons, List.sum_cons]; omega
      | false => simpa using this

theorem pend_cons (st : State) (V ids : List Nat) (c k : Nat) (hn : V.Nodup) (hc : c ∈ V) (hi : c ∉ ids) :
    pend st V ids k = pend st V (c :: ids) k + cntTo st c k := by
  unfold pend
  apply sum_filter_split (fun v => cntTo st v k) _ _ c V hn hc
  · simp [hi]
  · simp
  · intro v hv; simp [hv]

theorem sum_eq_zero_all (l : List Nat) (h : l.sum = 0) : ∀ x ∈ l, x = 0 := by
  induction l with
  | nil => simp
  | cons a l ih =>
    simp only [List.sum_cons] at h
    intro x hx
    rcases List.mem_cons.mp hx with e | hx
    · omega
    · exact ih (by omega) x hx

theorem exists_pos_of_sum_pos (l : List Nat) (h : 0 < l.sum) : ∃ x ∈ l, 0 < x := by
  induction l with
  | nil => simp at h
  | cons a l ih =>
    simp only [List.sum_cons] at h
    by_cases ha : 0 < a
    · exact ⟨a, by simp, ha⟩
    · obtain ⟨x, hx, hp⟩ := ih (by omega)
      exact ⟨x, List.mem_cons_of_mem _ hx, hp⟩

theorem pend_zero (st : State) (V ids : List Nat) (k : Nat) (h : pend st V ids k = 0) :
    ∀ v ∈ V, v ∉ ids → cntTo st v k = 0 := by
  intro v hv hi
  apply sum_eq_zero_all _ h
  exact List.mem_map.mpr ⟨v, List.mem_filter.mpr ⟨hv, by simp [hi]⟩, rfl⟩

theorem pend_pos (st : State) (V ids : List Nat) (k : Nat) (h : 0 < pend st V ids k) :
    ∃ v ∈ V, v ∉ ids ∧ 0 < cntTo st v k := by
  obtain ⟨x, hx, hp⟩ := exists_pos_of_sum_pos _ h
  obtain ⟨v, hv, e⟩ := List.mem_map.mp hx
  obtain ⟨h1, h2⟩ := List.mem_filter.mp hv
  exact ⟨v, h1, by simpa using h2, by rw [e]; exact hp⟩


def sumV (st : State) (V : List Nat) (k : Nat) : Nat := (V.map (fun v => cntTo st v k)).sum

theorem pend_nil (st : State) (V : List Nat) (k : Nat) : pend st V [] k = sumV st V k := by
  unfold pend sumV
  have : V.filter (fun v => decide (v ∉ ([] : List Nat))) = V := by
    apply List.filter_eq_self.mpr; intro a _; simp
  rw [this]

/-- `bfs` with the counting invariant: the degree of `k` is the number of entries naming `k` in
the index of the visited symbols. -/
theorem bfs_count (o : Ord) (ho : o.Valid) (st : State) (h : RInv st) (sb : Sym) (f : Nat) (q : List Sym)
    (vis : List Nat) (deg deg' : Deg) (hb : bfs o st f q vis deg = some deg') (inv : BInv st sb q vis deg)
    (hn : vis.Nodup) (hs : ∀ k, dget deg k = (sumV st vis k : Nat)) :
    ∃ V, V.Nodup ∧ BInv st sb [] V deg' ∧ ∀ k, dget deg' k = (sumV st V k : Nat) := by
  induction f generalizing q vis deg with
  | zero =>
    cases q with
    | nil => simp [bfs] at hb; subst hb; exact ⟨vis, hn, inv, hs⟩
    | cons c q => simp [bfs] at hb
  | succ f ih =>
    cases q with
    | nil => simp [bfs] at hb; subst hb; exact ⟨vis, hn, inv, hs⟩
    | cons c q =>
      simp only [bfs] at hb
      obtain ⟨hcP, hcK⟩ := inv.hq c (by simp)
      split at hb
      · rename_i hv
        refine ih q vis deg hb ⟨fun s hs => inv.hq s (List.mem_cons_of_mem _ hs), ?_, ?_, inv.hd⟩ hn hs
        · intro v hvv
          obtain ⟨s, h1, h2, h3, h4⟩ := inv.hv v hvv
          refine ⟨s, h1, h2, h3, ?_⟩
          intro x hl he
          rcases h4 x hl he with h | h
          · exact Or.inl h
          · rcases List.mem_cons.mp h with e | h
            · subst e; exact Or.inl hv
            · exact Or.inr h
        · rcases inv.hr with h | h
          · exact Or.inl h
          · rcases List.mem_cons.mp h with e | h
            · rw [e]; exact Or.inl hv
            · exact Or.inr h
      · rename_i hv
        have hmem := fun x => mem_referrers o ho (10 + f) st h c hcP.1 x
        obtain ⟨d1, d2, d3, d4⟩ := fold_dadd_spec (referrers o (10 + f) st c) deg
        have hnsP : ∀ n ∈ referrers o (10 + f) st c, TRef st sb n := by
          intro n hn
          obtain ⟨hl, he⟩ := (hmem n).mp hn
          exact ⟨hl, RReach.step hcP.2 he⟩
        refine ih _ _ _ hb ⟨?_, ?_, ?_, ?_⟩ (List.nodup_cons.mpr ⟨hv, hn⟩) ?_
        · intro s hs
          rcases List.mem_append.mp hs with hs | hs
          · obtain ⟨a, b⟩ := inv.hq s (List.mem_cons_of_mem _ hs)
            exact ⟨a, b.imp id (d2 _)⟩
          · exact ⟨hnsP s hs, Or.inr (d3 s hs)⟩
        · intro v hvv
          rcases List.mem_cons.mp hvv with e | hvv
          · subst e
            refine ⟨c, hcP, rfl, hcK.imp id (d2 _), ?_⟩
            intro x hl he
            exact Or.inr (List.mem_append_right _ ((hmem x).mpr ⟨hl, he⟩))
          · obtain ⟨s, h1, h2, h3, h4⟩ := inv.hv v hvv
            refine ⟨s, h1, h2, h3.imp id (d2 _), ?_⟩
            intro x hl he
            rcases h4 x hl he with h | h
            · exact Or.inl (List.mem_cons_of_mem _ h)
            · rcases List.mem_cons.mp h with e | h
              · subst e; exact Or.inl (by simp)
              · exact Or.inr (List.mem_append_left _ h)
        · rcases inv.hr with h | h
          · exact Or.inl (List.mem_cons_of_mem _ h)
          · rcases List.mem_cons.mp h with e | h
            · rw [e]; exact Or.inl (by simp)
            · exact Or.inr (List.mem_append_left _ h)
        · intro p hp
          have h1 := d4 (fun p hp => (inv.hd p hp).2.2) p hp
          rcases d1 p hp with hold | ⟨n, hn, e1, e2⟩
          · exact ⟨(inv.hd p hold).1, (inv.hd p hold).2.1, h1⟩
          · rw [e2]; exact ⟨hnsP n hn, e1.symm, h1⟩
        · intro k
          rw [dget_fold_dadd, hs k, referrers_ids_count o ho _ st h c k]
          unfold sumV
          simp only [List.map_cons, List.sum_cons]
          omega

/-! ### the fold of `kahnStep` -/

theorem kahnStep_fold_mem (ns : List Sym) (acc : Deg × List Sym) :
    (∀ x ∈ (ns.foldl kahnStep acc).2, x ∈ acc.2 ∨ (x ∈ ns ∧ dget (ns.foldl kahnStep acc).1 x.id ≤ 0)) ∧
    (∀ x ∈ acc.2, x ∈ (ns.foldl kahnStep acc).2) := by
  induction ns generalizing acc with
  | nil => exact ⟨fun x h => Or.inl h, fun x h => h⟩
  | cons n ns ih =>
    obtain ⟨i1, i2⟩ := ih (kahnStep acc n)
    simp only [List.foldl_cons]
    have hmono : ∀ k, dget (ns.foldl kahnStep (kahnStep acc n)).1 k ≤ dget (kahnStep acc n).1 k := by
      intro k; rw [dget_fold_kahn]; omega
    constructor
    · intro x hx
      rcases i1 x hx with h | ⟨h1, h2⟩
      · unfold kahnStep at h
        simp only at h
        split at h
        · rename_i h0
          rcases List.mem_append.mp h with h | h
          · exact Or.inl h
          · simp at h; subst h
            right
            refine ⟨by simp, ?_⟩
            have := hmono x.id
            rw [kahnStep_fst] at this
            omega
        · exact Or.inl h
      · exact Or.inr ⟨List.mem_cons_of_mem _ h1, h2⟩
    · intro x hx
      apply i2
      unfold kahnStep; simp only; split
      · exact List.mem_append_left _ hx
      · exact hx

theorem kahnStep_fold_keep (ns : List Sym) (acc : Deg × List Sym) (v : Nat)
    (hnp : ∀ s ∈ (ns.foldl kahnStep acc).2, s.id ≠ v) (h1 : 1 ≤ dget acc.1 v) :
    1 ≤ dget (ns.foldl kahnStep acc).1 v := by
  induction ns generalizing acc with
  | nil => exact h1
  | cons n ns ih =>
    simp only [List.foldl_cons] at hnp ⊢
    apply ih _ hnp
    rw [kahnStep_fst]
    by_cases hk : n.id = v
    · subst hk
      rw [dget_dadd_self]
      have hne : dget (dadd acc.1 n (-1)) n.id ≠ 0 := by
        intro h0
        have hin : n ∈ (kahnStep acc n).2 := by
          unfold kahnStep; simp only; rw [if_pos h0]; simp
        exact hnp n ((kahnStep_fold_mem ns (kahnStep acc n)).2 n hin) rfl
      rw [dget_dadd_self] at hne
      omega
    · have hk' : v ≠ n.id := fun e => hk e.symm
      rw [dget_dadd_ne _ _ _ _ hk']; exact h1


/-! ### the second pass of `linked` lists a symbol after the listed symbols it references -/

theorem edge_cnt (o : Ord) (ho : o.Valid) (st : State) (h : RInv st) (a c : Sym) (ha : Live st a)
    (hc : Live st c) : Edge st a c ↔ 0 < cntTo st c.id a.id := by
  rw [← referrers_ids_count o ho 0 st h c a.id, List.count_pos_iff]
  constructor
  · intro he
    exact List.mem_map.mpr ⟨a, (mem_referrers o ho 0 st h c hc a).mpr ⟨ha, he⟩, rfl⟩
  · intro hm
    obtain ⟨n, hn, e⟩ := List.mem_map.mp hm
    obtain ⟨hl, he⟩ := (mem_referrers o ho 0 st h c hc n).mp hn
    have : n = a := live_inj hl ha e
    subst this; exact he

/-- The reference graph of the present symbols is acyclic: a rank strictly decreases along references. -/
def Ranked (st : State) (rank : Nat → Nat) : Prop :=
  ∀ x y, Live st x → Live st y → Edge st y x → rank x.id < rank y.id

theorem rank_reach {st : State} (hk : KeyId st) {rank : Nat → Nat} (hr : Ranked st rank) {x y : Sym}
    (hx : Live st x) (h : Reach st x y) : rank y.id ≤ rank x.id := by
  induction h with
  | refl => exact Nat.le_refl _
  | @step t u hrt he ih =>
    have ht : Live st t := reach_live hk hx hrt
    have hu : Live st u := live_of_edge hk he
    have := hr u t hu ht he
    omega

structure KS (st : State) (sb : Sym) (V : List Nat) (q out : List Sym) (deg : Deg) : Prop where
  hq : ∀ s ∈ q, TRef st sb s
  ho : ∀ s ∈ out, TRef st sb s
  hsum : ∀ k, dget deg k = (pend st V (out.map (fun s => s.id)) k : Nat)
  hO : ∀ a, (a ∈ out ∨ a ∈ q) → a = sb ∨ ∀ v ∈ V, 0 < cntTo st v a.id → v ∈ out.map (fun s => s.id)
  hord : out.Pairwise (fun a b => ¬ Edge st a b)
  hZ : ∀ v ∈ V, v ≠ sb.id → v ∉ out.map (fun s => s.id) → (∀ s ∈ q, s.id ≠ v) → 1 ≤ dget deg v

theorem kahn_ks (o : Ord) (ho : o.Valid) (st : State) (h : RInv st) (sb : Sym) (V : List Nat)
    (hVn : V.Nodup) (hV1 : ∀ x, TRef st sb x → x.id ∈ V) (rank : Nat → Nat) (hrank : Ranked st rank)
    (f : Nat) (q out : List Sym) (deg : Deg) (res : List Sym × Deg)
    (hr : kahn (fun f c => referrers o (1000 + f) st c) f q out deg = some res)
    (inv : KS st sb V q out deg) : KS st sb V [] res.1 res.2 := by
  induction f generalizing q out deg with
  | zero =>
    cases q with
    | nil => simp [kahn] at hr; subst hr; exact inv
    | cons c q => simp [kahn] at hr
  | succ f ih =>
    cases q with
    | nil => simp [kahn] at hr; subst hr; exact inv
    | cons c q =>
      simp only [kahn] at hr
      have hcP := inv.hq c (by simp)
      split at hr
      · -- already listed
        rename_i hany
        have hcin : c.id ∈ out.map (fun s => s.id) := by
          simp only [List.any_eq_true, decide_eq_true_eq] at hany
          obtain ⟨s, hs, e⟩ := hany
          exact List.mem_map.mpr ⟨s, hs, e⟩
        refine ih q out deg hr ⟨fun s hs => inv.hq s (List.mem_cons_of_mem _ hs), inv.ho, inv.hsum, ?_, inv.hord, ?_⟩
        · intro a ha
          exact inv.hO a (ha.imp id (List.mem_cons_of_mem _))
        · intro v hv h1 h2 h3
          apply inv.hZ v hv h1 h2
          intro s hs
          rcases List.mem_cons.mp hs with e | hs
          · subst e; intro e'; exact h2 (e' ▸ hcin)
          · exact h3 s hs
      · rename_i hany
        have hcout : c.id ∉ out.map (fun s => s.id) := by
          intro hm
          apply hany
          obtain ⟨s, hs, e⟩ := List.mem_map.mp hm
          simp only [List.any_eq_true, decide_eq_true_eq]
          exact ⟨s, hs, e⟩
        have hcV : c.id ∈ V := hV1 c hcP
        obtain ⟨m1, m2⟩ := kahnStep_fold_mem (referrers o (1000 + f) st c) (deg, q)
        have hids : ∀ v, v ∈ (out ++ [c]).map (fun s => s.id) ↔ v ∈ c.id :: out.map (fun s => s.id) := by
          intro v; simp [or_comm]
        have hsum' : ∀ k, dget ((referrers o (1000 + f) st c).foldl kahnStep (deg, q)).1 k =
            (pend st V ((out ++ [c]).map (fun s => s.id)) k : Nat) := by
          intro k
          rw [dget_fold_kahn, referrers_ids_count o ho _ st h c k, inv.hsum k,
            pend_congr st V _ _ k hids, pend_cons st V _ c.id k hVn hcV hcout]
          omega
        have hnsP : ∀ n ∈ referrers o (1000 + f) st c, TRef st sb n := by
          intro n hn
          obtain ⟨hl, he⟩ := (mem_referrers o ho _ st h c hcP.1 n).mp hn
          exact ⟨hl, RReach.step hcP.2 he⟩
        refine ih _ _ _ hr ⟨?_, ?_, hsum', ?_, ?_, ?_⟩
        · intro s hs
          rcases m1 s hs with h' | ⟨h', _⟩
          · exact inv.hq s (List.mem_cons_of_mem _ h')
          · exact hnsP s h'
        · intro s hs
          rcases List.mem_append.mp hs with h' | h'
          · exact inv.ho s h'
          · simp at h'; subst h'; exact hcP
        · intro a ha
          have hmono : ∀ v, v ∈ out.map (fun s => s.id) → v ∈ (out ++ [c]).map (fun s => s.id) := by
            intro v hv; rw [List.map_append]; exact List.mem_append_left _ hv
          have hold : (a ∈ out ∨ a ∈ c :: q) → a = sb ∨ ∀ v ∈ V, 0 < cntTo st v a.id →
              v ∈ (out ++ [c]).map (fun s => s.id) := by
            intro h'
            rcases inv.hO a h' with e | h''
            · exact Or.inl e
            · exact Or.inr (fun v hv hp => hmono v (h'' v hv hp))
          rcases ha with ha | ha
          · rcases List.mem_append.mp ha with h' | h'
            · exact hold (Or.inl h')
            · simp at h'; subst h'; exact hold (Or.inr (by simp))
          · rcases m1 a ha with h' | ⟨_, h0⟩
            · exact hold (Or.inr (List.mem_cons_of_mem _ h'))
            · right
              intro v hv hp
              have hz : pend st V ((out ++ [c]).map (fun s => s.id)) a.id = 0 := by
                have := hsum' a.id; omega
              by_cases hin : v ∈ (out ++ [c]).map (fun s => s.id)
              · exact hin
              · have := pend_zero st V _ a.id hz v hv hin; omega
        · rw [List.pairwise_append]
          refine ⟨inv.hord, by simp, ?_⟩
          intro a ha b hb
          simp at hb; subst hb
          intro he
          have haP := inv.ho a ha
          rcases inv.hO a (Or.inl ha) with e | h'
          · subst e
            have h1 := hrank b a hcP.1 haP.1 he
            have h2 := rank_reach h.keyId hrank hcP.1 (rreach_iff.mp hcP.2)
            omega
          · have hp := (edge_cnt o ho st h a b haP.1 hcP.1).mp he
            exact hcout (h' b.id hcV hp)
        · intro v hv h1 h2 h3
          have h2' : v ∉ out.map (fun s => s.id) := by
            intro hm; apply h2; rw [List.map_append]; exact List.mem_append_left _ hm
          have hvc : c.id ≠ v := by
            intro e; apply h2; rw [List.map_append, ← e]; simp
          have hold := inv.hZ v hv h1 h2' (by
            intro s hs
            rcases List.mem_cons.mp hs with e | hs
            · subst e; exact hvc
            · exact h3 s (m2 s hs))
          exact kahnStep_fold_keep _ (deg, q) v h3 hold


theorem binv_nil_mem {st : State} (hk : KeyId st) {sb : Sym} {V : List Nat} {deg : Deg}
    (inv : BInv st sb [] V deg) (x : Sym) (hx : TRef st sb x) : x.id ∈ V := by
  have hall : ∀ y, RReach st sb y → Live st y → y.id ∈ V := by
    intro y hy
    induction hy with
    | refl => intro _; rcases inv.hr with h | h; exact h; cases h
    | @step x' y' hr he ih =>
      intro hl
      have hly : Live st y' := live_of_edge hk he
      obtain ⟨s, hs, e, _, hcl⟩ := inv.hv _ (ih hly)
      have : s = y' := live_inj hs.1 hly e
      subst this
      rcases hcl x' hl he with h | h; exact h; cases h
  exact hall x hx.2 hx.1

theorem exists_min (f : Nat → Nat) (W : List Nat) (hW : W ≠ []) : ∃ w ∈ W, ∀ u ∈ W, f w ≤ f u := by
  induction W with
  | nil => exact absurd rfl hW
  | cons a W ih =>
    by_cases hW' : W = []
    · subst hW'; exact ⟨a, by simp, by simp⟩
    · obtain ⟨w, hw, hmin⟩ := ih hW'
      by_cases h : f a ≤ f w
      · refine ⟨a, by simp, ?_⟩
        intro u hu
        rcases List.mem_cons.mp hu with e | hu
        · rw [e]; exact Nat.le_refl _
        · exact Nat.le_trans h (hmin u hu)
      · refine ⟨w, List.mem_cons_of_mem _ hw, ?_⟩
        intro u hu
        rcases List.mem_cons.mp hu with e | hu
        · rw [e]; omega
        · exact hmin u hu

/-- **Kahn correctness.** For an acyclic reference graph `linked(sb)` never lists a symbol before
a symbol it references, and its left-over loop adds nothing. -/
theorem linked_pairwise (o : Ord) (ho : o.Valid) (st : State) (h : RInv st) (sb : Sym) (hsb : Live st sb)
    (rank : Nat → Nat) (hrank : Ranked st rank) (l : List Sym) (hl : linked o st sb = some l) :
    l.Pairwise (fun a b => ¬ Edge st a b) := by
  unfold linked at hl
  cases hb : bfs o st (bfsFuel st) [sb] [] [] with
  | none => rw [hb] at hl; cases hl
  | some deg =>
    rw [hb] at hl
    simp only at hl
    have hP0 : TRef st sb sb := ⟨hsb, RReach.refl⟩
    obtain ⟨V, hVn, bI, hsV⟩ := bfs_count o ho st h sb _ _ _ _ _ hb
      ⟨by intro s hs; simp at hs; subst hs; exact ⟨hP0, Or.inl rfl⟩, by simp, Or.inr (by simp), by simp⟩
      (by simp) (by intro k; simp [dget, aget, sumV])
    have hV1 := binv_nil_mem h.keyId bI
    have hdw : DegWF deg := degWF_bfs o st _ _ _ _ _ hb ⟨by simp [keys], by simp⟩
    cases hk : kahn (fun f c => referrers o (1000 + f) st c) (kahnFuel [sb] deg) [sb] [] deg with
    | none => rw [hk] at hl; cases hl
    | some res =>
      obtain ⟨out, deg'⟩ := res
      rw [hk] at hl
      simp only [Option.some.injEq] at hl
      have hks0 : KS st sb V [sb] [] deg := by
        refine ⟨by intro s hs; simp at hs; subst hs; exact hP0, by simp, ?_, ?_, List.Pairwise.nil, ?_⟩
        · intro k; rw [hsV k]; simp [pend_nil]
        · intro a ha; rcases ha with ha | ha
          · cases ha
          · simp at ha; exact Or.inl ha
        · intro v hv h1 _ _
          obtain ⟨x, hx, e, hk', _⟩ := bI.hv v hv
          rcases hk' with e' | hk'
          · subst e'; exact absurd e.symm h1
          · obtain ⟨p, hp, e2⟩ := List.mem_map.mp hk'
            have h1p := (bI.hd p hp).2.2
            have : aget v deg = some p.2 := by
              apply aget_of_mem hdw.1
              rw [← e2]; exact hp
            unfold dget; rw [this]; exact h1p
      have hks := kahn_ks o ho st h sb V hVn hV1 rank hrank _ _ _ _ _ hk hks0
      simp only at hks
      obtain ⟨p1, p2⟩ := kahn_pred (TRef st sb) _ (by
          intro f c hc n hn
          obtain ⟨hl', he⟩ := (mem_referrers o ho _ st h c hc.1 n).mp hn
          exact ⟨hl', RReach.step hc.2 he⟩) _ _ _ _ _ hk
        (by intro s hs; simp at hs; subst hs; exact hP0) (by simp) (fun p hp => (bI.hd p hp).1)
      obtain ⟨hdw', _⟩ := kahn_nodup _ _ _ _ _ _ hk hdw (by simp)
      obtain ⟨q1, _⟩ := kahn_q_sub _ _ _ _ _ _ hk
      simp only at p1 p2 hdw' q1
      have hsbout : sb.id ∈ out.map (fun s => s.id) := by
        obtain ⟨s', hs', e⟩ := q1 sb (by simp)
        exact List.mem_map.mpr ⟨s', hs', e⟩
      -- acyclic: every visited symbol is listed by the queue loop
      have hall : ∀ v ∈ V, v ∈ out.map (fun s => s.id) := by
        have hW : V.filter (fun v => decide (v ∉ out.map (fun s => s.id))) = [] := by
          cases hWe : V.filter (fun v => decide (v ∉ out.map (fun s => s.id))) with
          | nil => rfl
          | cons w0 W0 =>
            exfalso
            obtain ⟨w, hw, hmin⟩ := exists_min rank
              (V.filter (fun v => decide (v ∉ out.map (fun s => s.id)))) (by rw [hWe]; simp)
            obtain ⟨hwV, hwo⟩ := List.mem_filter.mp hw
            have hwo' : w ∉ out.map (fun s => s.id) := by simpa using hwo
            have hwsb : w ≠ sb.id := fun e => hwo' (e ▸ hsbout)
            have h1 := hks.hZ w hwV hwsb hwo' (by simp)
            have hpos : 0 < pend st V (out.map (fun s => s.id)) w := by
              have := hks.hsum w; omega
            obtain ⟨u, huV, huo, hcnt⟩ := pend_pos st V _ w hpos
            obtain ⟨xw, hxw, ew, _⟩ := bI.hv w hwV
            obtain ⟨xu, hxu, eu, _⟩ := bI.hv u huV
            have he : Edge st xw xu := by
              rw [edge_cnt o ho st h xw xu hxw.1 hxu.1, eu, ew]; exact hcnt
            have hr := hrank xu xw hxu.1 hxw.1 he
            have hu : u ∈ V.filter (fun v => decide (v ∉ out.map (fun s => s.id))) :=
              List.mem_filter.mpr ⟨huV, by simpa using huo⟩
            have := hmin u hu
            rw [eu, ew] at hr
            omega
        intro v hv
        by_cases hin : v ∈ out.map (fun s => s.id)
        · exact hin
        · have : v ∈ V.filter (fun v => decide (v ∉ out.map (fun s => s.id))) :=
            List.mem_filter.mpr ⟨hv, by simpa using hin⟩
          rw [hW] at this; cases this
      -- so the left-over loop adds nothing
      have hleft : (o.deg 1 deg').filter
          (fun p => p.2.2 ≠ 0 && !(out.any (fun s => s.id = p.1))) = [] := by
        rw [List.filter_eq_nil_iff]
        intro p hp hf
        have hp' := (ho.2.2 1 deg').mem_iff.mp hp
        have hPp := p2 p hp'
        have hid : p.2.1.id = p.1 := hdw'.2 p hp'
        have hv := hall _ (hV1 _ hPp)
        rw [hid] at hv
        obtain ⟨s, hs, e⟩ := List.mem_map.mp hv
        simp only [Bool.and_eq_true, Bool.not_eq_true', List.any_eq_false, decide_eq_true_eq] at hf
        exact hf.2 s hs e
      rw [hleft] at hl
      simp only [List.map_nil, List.append_nil] at hl
      subst hl
      exact hks.hord

end Uniflow.Table
