/-
C02, joint model, general links, part 10: a node completes requests (refused `Write`, downstream answer) and
its replies are routed; a sink answers (ported from the forest case).
-/
import Uniflow.Proofs.FlowG9

namespace Uniflow.FlowG
open Uniflow.Tracer Uniflow.Node Uniflow.Flow Uniflow.FlowInv
open Uniflow.NodeSpec (S EReq ESt Cur Rel curRead writesOf allIds flushS flushT markDone)
open Uniflow.ATracer (getL_setOrDel getL_aset)


theorem GI_debt_node (N : Nat) (links : List (Nat × List Tgt)) (hwf : GraphWF N links) (ss : Nat → S) (g : G)
    (h : GI N links ss D0 g) (n : Nat) (nd0 nd' : Node) (rs1 : List EReq) (cur' : Cur) (lg' : Log) (k : Pid)
    (ws' : List (Nat × Flow.Writer))
    (hn : getNode g.nodes n = some nd0)
    (hr' : Rel ⟨(ss n).inbox, (flushS rs1).1, cur'⟩ nd' g.next)
    (hheld : rs1.map (·.p) ++ curRead cur' ++ (ss n).inbox.map (·.id) = heldOf (ss n))
    (hx : LogExt g.log lg' k) (ho : lg'.owner = g.log.owner)
    (hlb : ∀ id, g.next ≤ id → Unlogged lg' id)
    (hsepN : ∀ m, m ≠ n → k ∉ unlIds (ss m)) (hsepS : ∀ j, k ∉ (getL g.sinks j).map (·.1))
    (hreq : ∀ r ∈ rs1, ReqOK lg' r) (hcur : CurOK lg' n cur') (hinb : ∀ p ∈ (ss n).inbox, Unlogged lg' p.id)
    (hsq : (gw ws' srcKey).queue = []) (hwq0 : ∀ key, getL links key = [] → (gw ws' key).queue = [])
    (hwk : ∀ key, getL links key ≠ [] → WKG lg' (gw ws' key) (getL links key)
      (if key = srcKey then g.roots.drop g.resp.length
       else if key / 64 = n then writesOf rs1 (key % 64) else writesOf (ss (key / 64)).reqs (key % 64))
      (hbOf D0 ss g.sinks g.fifo key))
    (hordk : OrdAt lg' k g.next) :
    GI N links (upd ss n ⟨(ss n).inbox, (flushS rs1).1, cur'⟩)
      (updD D0 (rkeyOf (.node n 0)) (flushT rs1).2)
      { g with nodes := setNode g.nodes n nd', log := lg', writers := ws' } := by
  have hnN : n < N := (h.nodesLen n).mp (by rw [hn]; rfl)
  let s' : S := ⟨(ss n).inbox, (flushS rs1).1, cur'⟩
  let D' := updD D0 (rkeyOf (.node n 0)) (flushT rs1).2
  let g' : G := { g with nodes := setNode g.nodes n nd', log := lg', writers := ws' }
  show GI N links (upd ss n s') D' g'
  have herase := NodeSpec.flushT_erase rs1
  have horder := NodeSpec.flushT_order rs1
  -- held lists
  have hheldn : (D' (rkeyOf (.node n 0))).map (·.1) ++ heldOf s' = heldOf (ss n) := by
    have e1 : heldOf s' = (flushS rs1).1.map (·.p) ++ curRead cur' ++ (ss n).inbox.map (·.id) := rfl
    rw [e1, ← hheld, ← horder, herase.1]
    simp [D', updD, List.append_assoc]
  have hheldD : ∀ t, TgtOK t → heldD D' (upd ss n s') g'.sinks t = heldD D0 ss g.sinks t := by
    intro t htok
    cases t with
    | sink j =>
      have : rkeyOf (.sink j) ≠ rkeyOf (.node n 0) := by simp only [rkeyOf]; have := hwf.small; omega
      simp [heldD, heldAt, D', updD, this, D0, g']
    | node m port =>
      have hp0 := htok.1
      subst hp0
      by_cases e : m = n
      · subst e
        simp only [heldD, heldAt_upd, if_true]
        rw [hheldn]; simp [heldAt, heldOf, D0]
      · have : rkeyOf (.node m 0) ≠ rkeyOf (.node n 0) := by simp only [rkeyOf]; omega
        simp [heldD, heldAt, D', updD, this, D0, upd, e]
  apply GI_build N links hwf ss (upd ss n s') D0 D' g g' h k (fun m => m = n) rfl
    (nodesLen_set g N n nd0 nd' hn h.nodesLen) (rel_upd g ss n nd0 nd' s' g.next h.rel hn hr' (Nat.le_refl _))
  · intro m hm; simp only [upd, hm, if_false]
  · intro m hm; rw [hm]; exact hnN
  · exact hx
  · intro id _; show aget lg'.owner id = _; rw [ho]
  · exact Nat.le_refl _
  · exact hlb
  · intro m hm; exact hsepN m hm
  · intro m hm r hr
    subst hm
    simp only [upd, if_true, s'] at hr
    exact hreq r ((NodeSpec.flush_sublist rs1).subset hr)
  · intro m hm; subst hm; simp only [upd, if_true, s']; exact hcur
  · intro m hm x hxi; subst hm; simp only [upd, if_true, s'] at hxi; exact hinb x hxi
  · intro m hm id hid
    subst hm
    have hid' : id ∈ heldOf (ss m) := by
      rw [← hheldn]
      simp only [heldAt_upd, if_true] at hid
      exact List.mem_append_right _ hid
    show aget lg'.owner id = _
    rw [ho]; exact h.ownNode m id (by simpa [heldAt, heldOf] using hid')
  · intro j
    obtain ⟨h1, h2⟩ := h.sinkOK j
    refine ⟨h1, fun c hc => ?_⟩
    obtain ⟨u1, u2, u3⟩ := h2 c hc
    exact ⟨unlogged_ext g.log lg' k hx c (fun e => hsepS j (e ▸ hc)) u1, u2, by show aget lg'.owner c = _; rw [ho]; exact u3⟩
  · exact h.rootsB
  · intro rk x hx'
    simp only [D', updD] at hx'
    split at hx'
    · have := NodeSpec.flushT_content rs1 x hx'
      exact hreq _ this
    · simp [D0] at hx'
  · intro key hl
    have hk := hwk key hl
    have hp : pendK (upd ss n s') g'.roots g'.resp.length key =
        (if key = srcKey then g.roots.drop g.resp.length
         else if key / 64 = n then writesOf rs1 (key % 64) else writesOf (ss (key / 64)).reqs (key % 64)) := by
      simp only [pendK, g']
      by_cases e : key = srcKey
      · simp [e]
      · simp only [e, if_false]
        by_cases e2 : key / 64 = n
        · simp only [e2, if_true, upd, s', NodeSpec.writesOf_flush]
        · simp only [e2, if_false, upd]
    rw [hp]
    apply wkg_congr lg' _ _ _ _ _ hk
    intro i t ht
    have htok := tgtOK_mem N links hwf key t (List.mem_of_getElem? ht)
    show hbOf D' (upd ss n s') g'.sinks g.fifo key t = _
    simp only [hbOf, hheldD t htok]
  · exact hsq
  · intro t htok; rw [hheldD t htok]; exact h.fifoLen t htok
  · exact h.fifoKeys
  · exact ⟨h.respOK.1, all2_mono _ _ (fun p a => ra_ext g.log lg' k hx p a) _ _ h.respOK.2⟩
  · exact hwq0
  · exact hordk



/-- `GI_debt_node` followed by the routing of the replies -/
theorem GI_debt_route (N : Nat) (links : List (Nat × List Tgt)) (hwf : GraphWF N links) (ss : Nat → S) (g : G)
    (h : GI N links ss D0 g) (n : Nat) (nd0 nd' : Node) (rs1 : List EReq) (cur' : Cur) (lg' : Log) (k : Pid)
    (ws' : List (Nat × Flow.Writer))
    (hn : getNode g.nodes n = some nd0)
    (hr' : Rel ⟨(ss n).inbox, (flushS rs1).1, cur'⟩ nd' g.next)
    (hheld : rs1.map (·.p) ++ curRead cur' ++ (ss n).inbox.map (·.id) = heldOf (ss n))
    (hx : LogExt g.log lg' k) (ho : lg'.owner = g.log.owner)
    (hlb : ∀ id, g.next ≤ id → Unlogged lg' id)
    (hsepN : ∀ m, m ≠ n → k ∉ unlIds (ss m)) (hsepS : ∀ j, k ∉ (getL g.sinks j).map (·.1))
    (hreq : ∀ r ∈ rs1, ReqOK lg' r) (hcur : CurOK lg' n cur') (hinb : ∀ p ∈ (ss n).inbox, Unlogged lg' p.id)
    (hsq : (gw ws' srcKey).queue = []) (hwq0 : ∀ key, getL links key = [] → (gw ws' key).queue = [])
    (hwk : ∀ key, getL links key ≠ [] → WKG lg' (gw ws' key) (getL links key)
      (if key = srcKey then g.roots.drop g.resp.length
       else if key / 64 = n then writesOf rs1 (key % 64) else writesOf (ss (key / 64)).reqs (key % 64))
      (hbOf D0 ss g.sinks g.fifo key))
    (hordk : OrdAt lg' k g.next) :
    GI N links (upd ss n ⟨(ss n).inbox, (flushS rs1).1, cur'⟩) D0
      (putNode { g with log := lg', writers := ws' } n nd' (flushS rs1).2) := by
  have h1 := GI_debt_node N links hwf ss g h n nd0 nd' rs1 cur' lg' k ws' hn hr' hheld hx ho hlb hsepN hsepS
    hreq hcur hinb hsq hwq0 hwk hordk
  have hnN : n < N := (h.nodesLen n).mp (by rw [hn]; rfl)
  have h2 := GI_route N links hwf _ n (Nat.lt_of_lt_of_le hnN hwf.small) (flushT rs1).2 _ _ h1 (by simp [updD])
  rw [updD_updD, updD_D0] at h2
  rw [← (NodeSpec.flushT_erase rs1).2]
  exact h2

/-- a `Write` on a writer without reader: the packet is its own answer -/
theorem GI_write_rej (N : Nat) (links : List (Nat × List Tgt)) (hwf : GraphWF N links) (ss : Nat → S) (g : G)
    (h : GI N links ss D0 g) (n : Nat) (nd nd' : Node) (p q : Pkt) (w : Wid)
    (hn : getNode g.nodes n = some nd) (hc : (ss n).cur = .linked p q w)
    (hr' : Rel ⟨(ss n).inbox, (flushS ((ss n).reqs ++ [⟨p.id, .done (.pay q.pay)⟩])).1, .idle⟩ nd' g.next) :
    GI N links (upd ss n ⟨(ss n).inbox, (flushS ((ss n).reqs ++ [⟨p.id, .done (.pay q.pay)⟩])).1, .idle⟩) D0
      (putNode (logEcho g q) n nd' (flushS ((ss n).reqs ++ [⟨p.id, .done (.pay q.pay)⟩])).2) := by
  have hnN : n < N := (h.nodesLen n).mp (by rw [hn]; rfl)
  have hrel := h.rel n nd hn
  have hco := h.curOK n
  rw [hc] at hco
  obtain ⟨hrl, hqu, hw2, hqo⟩ := hco
  let lg' : Log := { g.log with echo := aset g.log.echo q.id q.pay }
  have hx : LogExt g.log lg' q.id := by
    refine ⟨hqu, fun x hxne => ⟨rfl, rfl, ?_, rfl⟩⟩
    show aget (aset g.log.echo q.id q.pay) x = _
    rw [aget_aset]; simp [hxne]
  have hqlt : q.id < g.next := hrel.bound q.id (by simp [allIds, hc, NodeSpec.idsC])
  apply GI_debt_route N links hwf ss g h n nd nd' _ .idle lg' q.id g.writers hn hr' _ hx rfl
  · intro id hid
    exact unlogged_ext g.log lg' q.id hx id (fun e => by rw [e] at hid; exact Nat.lt_irrefl _ (Nat.lt_of_lt_of_le hqlt hid))
      (h.logBound id hid)
  · intro m hm
    apply sep_node N links ss D0 g h q.id (qTag n) hqo m
    · simp only [qTag]; omega
    · simp only [qTag]; omega
  · intro j
    apply sep_sink N links ss D0 g h q.id (qTag n) hqo j
    simp only [qTag]; have := hwf.small; omega
  · intro r hr
    rw [List.mem_append] at hr
    rcases hr with hr | hr
    · exact reqOK_ext g.log lg' q.id hx r (h.reqsOK n r hr)
    · simp only [List.mem_singleton] at hr
      subst hr
      show RA lg' p.id (.pay q.pay)
      apply ra_of_reqlogged lg' p.id q.id _ (reqlogged_ext g.log lg' q.id hx _ _ hrl)
      apply ra_echo
      show aget (aset g.log.echo q.id q.pay) q.id = _
      rw [aget_aset]; simp
  · trivial
  · intro x hxi
    apply unlogged_ext g.log lg' q.id hx x.id _ (h.inboxOK n x hxi)
    intro e
    exact rel_nodup_ne (ss n) nd g.next hrel q.id x.id (by simp [hc, NodeSpec.idsC]) (List.mem_map.mpr ⟨x, hxi, rfl⟩) e.symm
  · exact h.srcq
  · exact h.wq0
  · intro key hl
    have hk := wkg_ext g.log lg' q.id hx _ _ _ _ (h.wk key hl)
    have : pendK ss g.roots g.resp.length key =
        (if key = srcKey then g.roots.drop g.resp.length
         else if key / 64 = n then writesOf ((ss n).reqs ++ [⟨p.id, .done (.pay q.pay)⟩]) (key % 64)
         else writesOf (ss (key / 64)).reqs (key % 64)) := by
      simp only [pendK]
      by_cases e : key = srcKey
      · simp [e]
      · simp only [e, if_false]
        by_cases e2 : key / 64 = n
        · simp only [e2, if_true, NodeSpec.writesOf_append, writesOf, List.append_nil]
        · simp only [e2, if_false]
    rw [← this]; exact hk
  · exact ordAt_none lg' q.id g.next hqu.2.1 hqu.1
  · simp [heldOf, hc, curRead]

/-- the writer `w` of node `n` hands the node the oldest answer in its queue -/
theorem GI_answer (N : Nat) (links : List (Nat × List Tgt)) (hwf : GraphWF N links) (ss : Nat → S) (g : G)
    (h : GI N links ss D0 g) (n : Nat) (nd nd' : Node) (w : Wid) (a : Ans) (rest : List Ans)
    (rs1 : List EReq)
    (hn : getNode g.nodes n = some nd) (hw : w < 2) (hl : getL links (wkey n w) ≠ [])
    (hq : (gw g.writers (wkey n w)).queue = a :: rest)
    (hm : markDone w a (ss n).reqs = some rs1)
    (hr' : Rel ⟨(ss n).inbox, (flushS rs1).1, (ss n).cur⟩ nd' g.next) :
    GI N links (upd ss n ⟨(ss n).inbox, (flushS rs1).1, (ss n).cur⟩) D0
      (putNode { g with writers := aset g.writers (wkey n w) { gw g.writers (wkey n w) with queue := rest } } n nd'
        (flushS rs1).2) := by
  have hnN : n < N := (h.nodesLen n).mp (by rw [hn]; rfl)
  have hrel := h.rel n nd hn
  obtain ⟨p, q, m1, m2, m3, m4, m5⟩ := markDone_mem w a (ss n).reqs rs1 hm
  have hwk0 := h.wk (wkey n w) hl
  rw [pendK_wkey ss g.roots g.resp.length N n w hwf.small hnN hw] at hwk0
  obtain ⟨q0, pend', e1, hra, hwk1⟩ := wkg_consume _ _ _ _ _ a rest hwk0 hq
  rw [m2] at e1
  simp only [List.cons.injEq] at e1
  obtain ⟨e1, e2⟩ := e1
  subst e1
  have hub : Unlogged g.log g.next := h.logBound g.next (Nat.le_refl _)
  have hsrc : wkey n w ≠ srcKey := wkey_ne_src N n w hwf.small hnN hw
  let ws' := aset g.writers (wkey n w) { gw g.writers (wkey n w) with queue := rest }
  have hput : (putNode { g with writers := ws' } n nd' (flushS rs1).2) =
      (putNode { g with log := g.log, writers := ws' } n nd' (flushS rs1).2) := rfl
  show GI N links _ D0 (putNode { g with writers := ws' } n nd' (flushS rs1).2)
  rw [hput]
  apply GI_debt_route N links hwf ss g h n nd nd' rs1 (ss n).cur g.log g.next ws' hn hr' _
    (logExt_refl g.log g.next hub) rfl h.logBound
  · intro m _ hmem
    exact Nat.lt_irrefl _ (live_lt N links ss D0 g h m g.next (unlIds_sub_allIds (ss m) g.next hmem))
  · intro j hmem
    exact Nat.lt_irrefl _ ((h.sinkOK j).2 g.next hmem).2.1
  · intro r hr
    rcases m5 r hr with hr | hr
    · exact h.reqsOK n r hr
    · subst hr
      have := h.reqsOK n _ m1
      exact ra_of_reqlogged g.log p q a this.1 hra
  · exact h.curOK n
  · exact h.inboxOK n
  · simp only [ws', gw_aset, Ne.symm hsrc, if_false]
    exact h.srcq
  · intro key hk
    have : key ≠ wkey n w := by intro e; rw [e] at hk; exact hl hk
    simp only [ws', gw_aset, this, if_false]
    exact h.wq0 key hk
  · intro key hl'
    by_cases e : key = wkey n w
    · subst e
      obtain ⟨k1, k2⟩ := parts_of_key n w hw
      simp only [ws', gw_aset, if_true, hsrc, if_false, k1, k2]
      rw [e2]; exact hwk1
    · have hk := h.wk key hl'
      simp only [ws', gw_aset, e, if_false]
      have : pendK ss g.roots g.resp.length key =
          (if key = srcKey then g.roots.drop g.resp.length
           else if key / 64 = n then writesOf rs1 (key % 64) else writesOf (ss (key / 64)).reqs (key % 64)) := by
        simp only [pendK]
        by_cases e1 : key = srcKey
        · simp [e1]
        · simp only [e1, if_false]
          by_cases e2 : key / 64 = n
          · simp only [e2, if_true]
            have : key % 64 ≠ w := fun e3 => e (key_of_parts key n w e2 e3)
            rw [m3 _ this]
          · simp only [e2, if_false]
      rw [← this]; exact hk
  · exact ordAt_none g.log g.next g.next hub.2.1 hub.1
  · simp only [heldOf, m4]



theorem GI_sinkAns (N : Nat) (links : List (Nat × List Tgt)) (hwf : GraphWF N links) (ss : Nat → S) (g : G)
    (h : GI N links ss D0 g) (j : Nat) (c : Pid) (v : Val) (rest : List (Pid × Val)) (a : Ans)
    (hs : getL g.sinks j = (c, v) :: rest) :
    GI N links ss D0
      (gReply { g with sinks := setOrDel g.sinks j rest,
                       log := { g.log with sinkAns := aset g.log.sinkAns c a } } (rkeyOf (.sink j)) a) := by
  let lg' : Log := { g.log with sinkAns := aset g.log.sinkAns c a }
  let g' : G := { g with sinks := setOrDel g.sinks j rest, log := lg' }
  let D' := updD D0 (rkeyOf (.sink j)) [(c, a)]
  obtain ⟨hnd, hall⟩ := h.sinkOK j
  have hcm : c ∈ (getL g.sinks j).map (·.1) := by rw [hs]; simp
  obtain ⟨hcu, hclt, hco⟩ := hall c hcm
  have hx : LogExt g.log lg' c := by
    refine ⟨hcu, fun x hxne => ⟨rfl, rfl, rfl, ?_⟩⟩
    show aget (aset g.log.sinkAns c a) x = _
    rw [aget_aset]; simp [hxne]
  have hsk : ∀ j', getL g'.sinks j' = if j' = j then rest else getL g.sinks j' := by
    intro j'; show getL (setOrDel g.sinks j rest) j' = _; rw [getL_setOrDel]
  have hheld : ∀ t, TgtOK t → heldD D' ss g'.sinks t = heldD D0 ss g.sinks t := by
    intro t htok
    cases t with
    | node m port =>
      simp only [TgtOK] at htok
      have : rkeyOf (.node m port) ≠ rkeyOf (.sink j) := by
        simp only [rkeyOf]; omega
      simp [heldD, heldAt, D', updD, this, D0]
    | sink j' =>
      by_cases e : j' = j
      · subst e
        simp [heldD, heldAt, D', updD, D0, hsk, hs]
      · have : rkeyOf (.sink j') ≠ rkeyOf (.sink j) := by simp only [rkeyOf]; omega
        simp [heldD, heldAt, D', updD, this, D0, hsk, e]
  have h1 : GI N links ss D' g' := by
    apply GI_build N links hwf ss ss D0 D' g g' h c (fun _ => False) rfl h.nodesLen h.rel
      (fun _ _ => rfl) (fun _ hf => hf.elim) hx (fun _ _ => rfl) (Nat.le_refl _)
    · intro id hid
      exact unlogged_ext g.log lg' c hx id (fun e => by rw [e] at hid; exact Nat.lt_irrefl _ (Nat.lt_of_lt_of_le hclt hid))
        (h.logBound id hid)
    · intro m _
      by_cases hm : m < N
      · apply sep_node N links ss D0 g h c _ hco m
        · simp only [rkeyOf]; have := hwf.small; omega
        · simp only [rkeyOf]; have := hwf.small; omega
      · rw [h.dflt m (Nat.le_of_not_lt hm)]; simp [unlIds, curUnl]
    · intro _ hf; exact hf.elim
    · intro _ hf; exact hf.elim
    · intro _ hf; exact hf.elim
    · intro _ hf; exact hf.elim
    · intro j'
      rw [hsk j']
      by_cases e : j' = j
      · subst e
        simp only [if_true]
        rw [hs] at hnd hall
        simp only [List.map_cons, List.nodup_cons] at hnd
        refine ⟨hnd.2, fun x hxm => ?_⟩
        obtain ⟨u1, u2, u3⟩ := hall x (by simp [hxm])
        refine ⟨unlogged_ext g.log lg' c hx x (fun e => hnd.1 (e ▸ hxm)) u1, u2, u3⟩
      · simp only [e, if_false]
        obtain ⟨n1, n2⟩ := h.sinkOK j'
        refine ⟨n1, fun x hxm => ?_⟩
        obtain ⟨u1, u2, u3⟩ := n2 x hxm
        refine ⟨unlogged_ext g.log lg' c hx x ?_ u1, u2, u3⟩
        intro e2; subst e2
        rw [hco] at u3
        simp only [rkeyOf, Option.some.injEq] at u3; omega
    · exact h.rootsB
    · intro rk x hxm
      simp only [D', updD] at hxm
      split at hxm
      · simp only [List.mem_singleton] at hxm
        subst hxm
        apply ra_sink
        · exact hcu.2.2.1
        · show aget (aset g.log.sinkAns c a) c = _
          rw [aget_aset]; simp
      · simp [D0] at hxm
    · intro key hl
      apply wkg_congr lg' _ _ _ _ _ (wkg_ext g.log lg' c hx _ _ _ _ (h.wk key hl))
      intro i t ht
      have htok := tgtOK_mem N links hwf key t (List.mem_of_getElem? ht)
      show hbOf D' ss g'.sinks g.fifo key t = _
      simp only [hbOf, hheld t htok]
    · exact h.srcq
    · intro t htok; rw [hheld t htok]; exact h.fifoLen t htok
    · exact h.fifoKeys
    · exact ⟨h.respOK.1, all2_mono _ _ (fun p a => ra_ext g.log lg' c hx p a) _ _ h.respOK.2⟩
    · exact h.wq0
    · exact ordAt_none lg' c g.next hcu.2.1 hcu.1
  have h2 := GI_gReply N links hwf ss D' g' (.sink j) c a [] h1 True.intro (by simp [D', updD])
  rw [updD_updD, updD_D0] at h2
  exact h2

end Uniflow.FlowG
