/-
Invariants of the small-step machine `Uniflow.Local` (model of pkg/process/local.go) and their
preservation by every step of the fixed code (`pinned = false`). Used by `Props/C05.lean`.

* `ResInv`   – a value present for `p` has a witness that some `Delete(p)` is still owed
* `NoPin`    – no thread is at a program point of the pre-fix `Store`
* `MuInv`    – the owner field of `l.mu` agrees with the program counters
* `WfInv`    – lazy objects: ids in range, owner field agrees with the program counters,
               a thread inside the initialiser sees `done = false`
* `CountInv` – `created p ≤ 1 + deletes p`, and `created p ≤ deletes p` when nothing is stored or pending
* `InitInv`  – `inits p + #(unrun lazies of p) = created p`
-/
import Uniflow.Model.Local

namespace Uniflow.Local

@[simp] theorem upd_same {β : Type} (f : Nat → β) (k : Nat) (v : β) : upd f k v k = v := by simp [upd]
theorem upd_other {β : Type} (f : Nat → β) (k : Nat) (v : β) (i : Nat) (h : i ≠ k) : upd f k v i = f i := by simp [upd, h]

def pendsOn (p : Pid) : Pc → Bool
  | .gap _ q _ _ => q = p
  | .want (.del q _) => q = p
  | .hold (.del q _) => q = p
  | .exitRun q hs => q = p && hs.contains .del
  | _ => false

def Witness (s : State) (p : Pid) : Prop :=
  (s.term p = false ∧ HK.del ∈ s.hooks p) ∨ ∃ t, pendsOn p (s.thr t) = true

def ResInv (s : State) : Prop := ∀ p, s.eager p ≠ none → Witness s p

theorem witness_frame (s s' : State) (t : Tid) (p : Pid)
    (hterm : s'.term = s.term) (hhooks : s'.hooks = s.hooks)
    (hthr : ∀ t', t' ≠ t → s'.thr t' = s.thr t')
    (hself : pendsOn p (s.thr t) = true → pendsOn p (s'.thr t) = true)
    (w : Witness s p) : Witness s' p := by
  rcases w with ⟨h1, h2⟩ | ⟨t', ht'⟩
  · left; rw [hterm, hhooks]; exact ⟨h1, h2⟩
  · right
    by_cases e : t' = t
    · subst e; exact ⟨t', hself ht'⟩
    · exact ⟨t', by rw [hthr t' e]; exact ht'⟩

theorem witness_self (s : State) (t : Tid) (p : Pid) (h : pendsOn p (s.thr t) = true) : Witness s p :=
  Or.inr ⟨t, h⟩

/-- Steps that only move thread `t` to `pc'` and leave everything the invariant reads alone. -/
theorem resInv_move (s : State) (t : Tid) (pc' : Pc) (s' : State) (h : ResInv s)
    (he : s'.eager = s.eager) (hterm : s'.term = s.term) (hhooks : s'.hooks = s.hooks)
    (hthr : s'.thr = upd s.thr t pc')
    (hself : ∀ p, pendsOn p (s.thr t) = true → pendsOn p pc' = true) : ResInv s' := by
  intro p hp
  rw [he] at hp
  refine witness_frame s s' t p hterm hhooks (fun t' ht' => by rw [hthr, upd_other _ _ _ _ ht']) ?_ (h p hp)
  intro hh; rw [hthr, upd_same]; exact hself p hh

theorem resInv_rd (s : State) (t : Tid) (r : Rd) (hpc : s.thr t = .rd r) (h : ResInv s) : ResInv (rdStep s t r).1 := by
  cases r with
  | load p => exact resInv_move s t _ _ h rfl rfl rfl rfl (by intro p; rw [hpc]; simp [pendsOn])
  | keys => exact resInv_move s t _ _ h rfl rfl rfl rfl (by intro p; rw [hpc]; simp [pendsOn])
  | los1 p v f =>
    simp only [rdStep]
    split
    · exact resInv_move s t _ _ h rfl rfl rfl rfl (by intro p; rw [hpc]; simp [pendsOn])
    · exact resInv_move s t _ _ h rfl rfl rfl rfl (by intro p; rw [hpc]; simp [pendsOn])

theorem witness_other (s s' : State) (t : Tid) (p : Pid)
    (hterm : s'.term = s.term) (hhooks : s'.hooks = s.hooks)
    (hthr : ∀ t', t' ≠ t → s'.thr t' = s.thr t')
    (hself : pendsOn p (s.thr t) = false)
    (w : Witness s p) : Witness s' p :=
  witness_frame s s' t p hterm hhooks hthr (by rw [hself]; intro h; cases h) w

theorem resInv_crit (s : State) (t : Tid) (c : Crit) (hpc : s.thr t = .hold c) (h : ResInv s) :
    ResInv (crit false s t c).1 := by
  have hth : ∀ (pc' : Pc) (t' : Tid), t' ≠ t → upd s.thr t pc' t' = s.thr t' := fun pc' t' ht' => upd_other _ _ _ _ ht'
  cases c with
  | store p v =>
    simp only [crit, Bool.false_and, Bool.false_eq_true, if_false]
    intro q hq
    by_cases hqp : q = p
    · subst hqp
      cases hok : s.eager q with
      | none => exact witness_self _ t q (by simp [pendsOn])
      | some x =>
        refine witness_other s _ t q rfl rfl (hth _) (by rw [hpc]; rfl) (h q (by simp [hok]))
    · simp only [upd_other _ _ _ _ hqp] at hq
      exact witness_other s _ t q rfl rfl (hth _) (by rw [hpc]; rfl) (h q hq)
  | del p k =>
    simp only [crit]
    intro q hq
    by_cases hqp : q = p
    · subst hqp; simp at hq
    · simp only [upd_other _ _ _ _ hqp] at hq
      exact witness_other s _ t q rfl rfl (hth _) (by rw [hpc]; simp [pendsOn]; exact fun e => hqp e.symm) (h q hq)
  | los2 p v f =>
    simp only [crit]
    split
    · exact resInv_move s t _ _ h rfl rfl rfl rfl (by intro p; rw [hpc]; simp [pendsOn])
    · split
      · exact resInv_move s t _ _ h rfl rfl rfl rfl (by intro p; rw [hpc]; simp [pendsOn])
      · exact resInv_move s t _ _ h rfl rfl rfl rfl (by intro p; rw [hpc]; simp [pendsOn])
  | los3 p x =>
    simp only [crit]
    intro q hq
    by_cases hqp : q = p
    · subst hqp; exact witness_self _ t q (by simp [pendsOn])
    · simp only [upd_other _ _ _ _ hqp] at hq
      exact witness_other s _ t q rfl rfl (hth _) (by rw [hpc]; rfl) (h q hq)
  | ash p hk =>
    simp only [crit]
    split
    · exact resInv_move s t _ _ h rfl rfl rfl rfl (by intro p; rw [hpc]; simp [pendsOn])
    · split
      · exact resInv_move s t _ _ h rfl rfl rfl rfl (by intro p; rw [hpc]; simp [pendsOn])
      · exact resInv_move s t _ _ h rfl rfl rfl rfl (by intro p; rw [hpc]; simp [pendsOn])
  | ashRe => exact resInv_move s t _ _ h rfl rfl rfl rfl (by intro p; rw [hpc]; simp [pendsOn])
  | close => intro q hq; simp [crit] at hq

theorem resInv_step (s s' : State) (t : Tid) (e : Ev) (h : ResInv s)
    (hs : step false s t = some (s', e)) : ResInv s' := by
  cases hpc : s.thr t with
  | idle => simp [step, hpc] at hs
  | want c =>
    simp only [step, hpc] at hs
    split at hs
    · cases hs
      refine resInv_move s t (.hold c) _ h rfl rfl rfl rfl ?_
      intro p; rw [hpc]; cases c <;> simp [pendsOn]
    · cases hs
  | rd r =>
    simp only [step, hpc] at hs
    split at hs
    · have e1 : s' = (rdStep s t r).1 := by rw [Option.some.inj hs]
      subst e1; exact resInv_rd s t r hpc h
    · cases hs
  | hold c =>
    simp only [step, hpc] at hs
    have e1 : s' = (crit false s t c).1 := by rw [Option.some.inj hs]
    subst e1; exact resInv_crit s t c hpc h
  | gap site p hl x =>
    simp only [step, hpc] at hs
    split at hs
    · cases hs
      exact resInv_move s t _ _ h rfl rfl rfl rfl (by intro q; rw [hpc]; simp [pendsOn])
    · rename_i hterm
      cases hs
      intro q hq
      have hq' : s.eager q ≠ none := hq
      rcases h q hq' with ⟨h1, h2⟩ | ⟨t', ht'⟩
      · left; refine ⟨h1, ?_⟩
        show HK.del ∈ upd s.hooks p (HK.del :: s.hooks p) q
        by_cases e : q = p
        · subst e; simp
        · rw [upd_other _ _ _ _ e]; exact h2
      · by_cases e : t' = t
        · subst e
          rw [hpc] at ht'
          simp [pendsOn] at ht'
          subst ht'
          left
          exact ⟨by simpa using hterm, by show HK.del ∈ upd s.hooks p (HK.del :: s.hooks p) p; simp⟩
        · right; exact ⟨t', by show pendsOn q (upd s.thr t _ t') = true; rw [upd_other _ _ _ _ e]; exact ht'⟩
  | lzWant p L =>
    simp only [step, hpc] at hs
    split at hs
    · cases hs
      exact resInv_move s t _ _ h rfl rfl rfl rfl (by intro q; rw [hpc]; simp [pendsOn])
    · cases hs
  | lzFn p L =>
    simp only [step, hpc] at hs
    cases hs
    exact resInv_move s t _ _ h rfl rfl rfl rfl (by intro q; rw [hpc]; simp [pendsOn])
  | lzRel p L =>
    simp only [step, hpc] at hs
    split at hs
    · cases hs
      exact resInv_move s t _ _ h rfl rfl rfl rfl (by intro q; rw [hpc]; simp [pendsOn])
    · cases hs
      exact resInv_move s t _ _ h rfl rfl rfl rfl (by intro q; rw [hpc]; simp [pendsOn])
  | cb hs' x =>
    simp only [step, hpc] at hs
    cases hs
    exact resInv_move s t _ _ h rfl rfl rfl rfl (by intro q; rw [hpc]; simp [pendsOn])
  | ashCb hk x =>
    simp only [step, hpc] at hs
    cases hs
    exact resInv_move s t _ _ h rfl rfl rfl rfl (by intro q; rw [hpc]; simp [pendsOn])
  | exitFlip p =>
    simp only [step, hpc] at hs
    split at hs
    · cases hs
      exact resInv_move s t _ _ h rfl rfl rfl rfl (by intro q; rw [hpc]; simp [pendsOn])
    · rename_i hterm
      cases hs
      intro q hq
      have hq' : s.eager q ≠ none := hq
      rcases h q hq' with ⟨h1, h2⟩ | ⟨t', ht'⟩
      · by_cases e : q = p
        · subst e
          right; exact ⟨t, by show pendsOn q (upd s.thr t _ t) = true; simp [pendsOn]; exact h2⟩
        · left
          show upd s.term p true q = false ∧ HK.del ∈ upd s.hooks p [] q
          rw [upd_other _ _ _ _ e, upd_other _ _ _ _ e]; exact ⟨h1, h2⟩
      · by_cases e : t' = t
        · subst e; rw [hpc] at ht'; simp [pendsOn] at ht'
        · right; exact ⟨t', by show pendsOn q (upd s.thr t _ t') = true; rw [upd_other _ _ _ _ e]; exact ht'⟩
  | exitRun p hks =>
    match hks with
    | [] =>
      simp only [step, hpc] at hs
      cases hs
      exact resInv_move s t _ _ h rfl rfl rfl rfl (by intro q; rw [hpc]; simp [pendsOn])
    | .del :: rest =>
      simp only [step, hpc] at hs
      cases hs
      exact resInv_move s t _ _ h rfl rfl rfl rfl (by intro q; rw [hpc]; simp [pendsOn])
    | .park :: rest =>
      simp only [step, hpc] at hs
      cases hs
      exact resInv_move s t _ _ h rfl rfl rfl rfl (by intro q; rw [hpc]; simp [pendsOn])
  | addHk p =>
    simp only [step, hpc] at hs
    split at hs
    · cases hs
      exact resInv_move s t _ _ h rfl rfl rfl rfl (by intro q; rw [hpc]; simp [pendsOn])
    · cases hs
      intro q hq
      have hq' : s.eager q ≠ none := hq
      rcases h q hq' with ⟨h1, h2⟩ | ⟨t', ht'⟩
      · left; refine ⟨h1, ?_⟩
        show HK.del ∈ upd s.hooks p (HK.park :: s.hooks p) q
        by_cases e : q = p
        · subst e; simp [h2]
        · rw [upd_other _ _ _ _ e]; exact h2
      · by_cases e : t' = t
        · subst e; rw [hpc] at ht'; simp [pendsOn] at ht'
        · right; exact ⟨t', by show pendsOn q (upd s.thr t _ t') = true; rw [upd_other _ _ _ _ e]; exact ht'⟩
  | pinAdd p v => simp [step, hpc] at hs
  | pinRest p v => simp [step, hpc] at hs
  | pinDel p v => simp [step, hpc] at hs

/-! ### shape of a step: only thread `t`'s pc changes -/

def holdsMu : Pc → Bool
  | .hold _ => true
  | .pinAdd _ _ => true
  | .pinRest _ _ => true
  | .pinDel _ _ => true
  | _ => false

def isPin : Pc → Bool
  | .pinAdd _ _ => true
  | .pinRest _ _ => true
  | .pinDel _ _ => true
  | _ => false

def holdsLz (L : Lid) : Pc → Bool
  | .lzFn _ L' => L' = L
  | .lzRel _ L' => L' = L
  | _ => false

/-- What the critical section leaves: `l.mu` free, only `t` moved, to a pc that holds nothing. -/
theorem crit_shape (s : State) (t : Tid) (c : Crit) :
    (crit false s t c).1.mu = none ∧
    ∃ pc', (crit false s t c).1.thr = upd s.thr t pc' ∧ holdsMu pc' = false ∧ isPin pc' = false ∧
      ∀ L, holdsLz L pc' = false := by
  cases c with
  | store p v =>
    simp only [crit, Bool.false_and, Bool.false_eq_true, if_false]
    refine ⟨trivial, _, rfl, ?_⟩
    split <;> simp [holdsMu, isPin, holdsLz]
  | del p k =>
    simp only [crit]
    refine ⟨trivial, _, rfl, ?_⟩
    cases k <;> simp [Kont.next, holdsMu, isPin, holdsLz]
  | los2 p v f =>
    simp only [crit]
    split
    · exact ⟨rfl, _, rfl, by simp [holdsMu, isPin, holdsLz]⟩
    · split
      · exact ⟨rfl, _, rfl, by simp [holdsMu, isPin, holdsLz]⟩
      · exact ⟨rfl, _, rfl, by simp [holdsMu, isPin, holdsLz]⟩
  | los3 p x => exact ⟨rfl, _, rfl, by simp [holdsMu, isPin, holdsLz]⟩
  | ash p h =>
    simp only [crit]
    split
    · exact ⟨rfl, _, rfl, by simp [holdsMu, isPin, holdsLz]⟩
    · split
      · exact ⟨rfl, _, rfl, by simp [holdsMu, isPin, holdsLz]⟩
      · exact ⟨rfl, _, rfl, by simp [holdsMu, isPin, holdsLz]⟩
  | ashRe => exact ⟨rfl, _, rfl, by simp [holdsMu, isPin, holdsLz]⟩
  | close => exact ⟨rfl, _, rfl, by simp [holdsMu, isPin, holdsLz]⟩

/-- Every step moves only its own thread; the new pc is a pin pc never (fixed code), and holds
`l.mu` exactly when the step was the `Lock`. -/
theorem step_shape (s s' : State) (t : Tid) (e : Ev) (hs : step false s t = some (s', e)) :
    ∃ pc', s'.thr = upd s.thr t pc' ∧ isPin pc' = false ∧
      ((holdsMu pc' = holdsMu (s.thr t) ∧ s'.mu = s.mu) ∨
       (holdsMu (s.thr t) = false ∧ holdsMu pc' = true ∧ s.mu = none ∧ s'.mu = some t) ∨
       (holdsMu (s.thr t) = true ∧ holdsMu pc' = false ∧ s'.mu = none)) := by
  cases hpc : s.thr t with
  | idle => simp [step, hpc] at hs
  | want c =>
    simp only [step, hpc] at hs
    split at hs
    · rename_i hfree
      cases hs
      exact ⟨_, rfl, rfl, Or.inr (Or.inl ⟨rfl, rfl, hfree, rfl⟩)⟩
    · cases hs
  | hold c =>
    simp only [step, hpc] at hs
    have e1 : s' = (crit false s t c).1 := by rw [Option.some.inj hs]
    subst e1
    obtain ⟨h1, pc', h2, h3, h4, _⟩ := crit_shape s t c
    exact ⟨pc', h2, h4, Or.inr (Or.inr ⟨rfl, h3, h1⟩)⟩
  | rd r =>
    simp only [step, hpc] at hs
    split at hs
    · have e1 : s' = (rdStep s t r).1 := by rw [Option.some.inj hs]
      subst e1
      cases r with
      | load p => exact ⟨_, rfl, rfl, Or.inl ⟨rfl, rfl⟩⟩
      | keys => exact ⟨_, rfl, rfl, Or.inl ⟨rfl, rfl⟩⟩
      | los1 p v f =>
        simp only [rdStep]
        split
        · exact ⟨_, rfl, rfl, Or.inl ⟨rfl, rfl⟩⟩
        · exact ⟨_, rfl, rfl, Or.inl ⟨rfl, rfl⟩⟩
    · cases hs
  | gap site p hl x =>
    simp only [step, hpc] at hs
    split at hs
    · cases hs; exact ⟨_, rfl, rfl, Or.inl ⟨rfl, rfl⟩⟩
    · cases hs; exact ⟨_, rfl, rfl, Or.inl ⟨rfl, rfl⟩⟩
  | lzWant p L =>
    simp only [step, hpc] at hs
    split at hs
    · cases hs
      refine ⟨_, rfl, ?_, Or.inl ⟨?_, rfl⟩⟩ <;> split <;> rfl
    · cases hs
  | lzFn p L =>
    simp only [step, hpc] at hs
    cases hs; exact ⟨_, rfl, rfl, Or.inl ⟨rfl, rfl⟩⟩
  | lzRel p L =>
    simp only [step, hpc] at hs
    split at hs
    · cases hs; exact ⟨_, rfl, rfl, Or.inl ⟨rfl, rfl⟩⟩
    · cases hs; exact ⟨_, rfl, rfl, Or.inl ⟨rfl, rfl⟩⟩
  | cb hl x =>
    simp only [step, hpc] at hs
    cases hs; exact ⟨_, rfl, rfl, Or.inl ⟨rfl, rfl⟩⟩
  | ashCb hk x =>
    simp only [step, hpc] at hs
    cases hs; exact ⟨_, rfl, rfl, Or.inl ⟨rfl, rfl⟩⟩
  | exitFlip p =>
    simp only [step, hpc] at hs
    split at hs
    · cases hs; exact ⟨_, rfl, rfl, Or.inl ⟨rfl, rfl⟩⟩
    · cases hs; exact ⟨_, rfl, rfl, Or.inl ⟨rfl, rfl⟩⟩
  | exitRun p hks =>
    match hks with
    | [] => simp only [step, hpc] at hs; cases hs; exact ⟨_, rfl, rfl, Or.inl ⟨rfl, rfl⟩⟩
    | .del :: rest => simp only [step, hpc] at hs; cases hs; exact ⟨_, rfl, rfl, Or.inl ⟨rfl, rfl⟩⟩
    | .park :: rest => simp only [step, hpc] at hs; cases hs; exact ⟨_, rfl, rfl, Or.inl ⟨rfl, rfl⟩⟩
  | addHk p =>
    simp only [step, hpc] at hs
    split at hs
    · cases hs; exact ⟨_, rfl, rfl, Or.inl ⟨rfl, rfl⟩⟩
    · cases hs; exact ⟨_, rfl, rfl, Or.inl ⟨rfl, rfl⟩⟩
  | pinAdd p v => simp [step, hpc] at hs
  | pinRest p v => simp [step, hpc] at hs
  | pinDel p v => simp [step, hpc] at hs

/-! ### NoPin and MuInv -/

def NoPin (s : State) : Prop := ∀ t, isPin (s.thr t) = false

def MuInv (s : State) : Prop := ∀ t, holdsMu (s.thr t) = true ↔ s.mu = some t

theorem noPin_step (s s' : State) (t : Tid) (e : Ev) (h : NoPin s)
    (hs : step false s t = some (s', e)) : NoPin s' := by
  obtain ⟨pc', h1, h2, _⟩ := step_shape s s' t e hs
  intro t'
  rw [h1]
  by_cases e : t' = t
  · subst e; simpa using h2
  · rw [upd_other _ _ _ _ e]; exact h t'

theorem muInv_step (s s' : State) (t : Tid) (e : Ev) (h : MuInv s)
    (hs : step false s t = some (s', e)) : MuInv s' := by
  obtain ⟨pc', h1, _, h3⟩ := step_shape s s' t e hs
  intro t'
  rw [h1]
  by_cases e : t' = t
  · subst e
    rw [upd_same]
    rcases h3 with ⟨a, b⟩ | ⟨_, a, _, b⟩ | ⟨_, a, b⟩
    · rw [a, b]; exact h t'
    · rw [a, b]; simp
    · rw [a, b]; simp
  · rw [upd_other _ _ _ _ e]
    rcases h3 with ⟨_, b⟩ | ⟨_, _, a, b⟩ | ⟨a, _, b⟩
    · rw [b]; exact h t'
    · rw [b]
      have := h t'
      rw [a] at this
      constructor
      · intro hh; exact absurd (this.mp hh) (by simp)
      · intro hh; injection hh with hh; exact absurd hh.symm e
    · rw [b]
      have ht := (h t).mp a
      constructor
      · intro hh
        have := (h t').mp hh
        rw [ht] at this; injection this with this; exact absurd this.symm e
      · intro hh; cases hh


/-! ### WfInv: lazy objects -/

def lzOf : Pc → Option (Pid × Lid)
  | .lzWant p L => some (p, L)
  | .lzFn p L => some (p, L)
  | .lzRel p L => some (p, L)
  | _ => none

theorem holdsLz_lzOf (L : Lid) (pc : Pc) (h : holdsLz L pc = true) : ∃ p, lzOf pc = some (p, L) := by
  cases pc <;> simp_all [holdsLz, lzOf]

theorem lzOf_none_holds (L : Lid) (pc : Pc) (h : lzOf pc = none) : holdsLz L pc = false := by
  cases pc <;> simp_all [holdsLz, lzOf]

structure WfInv (s : State) : Prop where
  thr_ok : ∀ t p L, lzOf (s.thr t) = some (p, L) → L < s.nlz ∧ (s.lz L).proc = p
  map_ok : ∀ p L, s.lazy p = some L → L < s.nlz ∧ (s.lz L).proc = p
  own : ∀ L t, holdsLz L (s.thr t) = true ↔ (s.lz L).owner = some t
  fn_fresh : ∀ t p L, s.thr t = .lzFn p L → (s.lz L).done = false

/-- Thread `t` moves between pcs that have nothing to do with a lazy object; lazy objects are
untouched and the lazy map only loses entries. -/
theorem wf_move (s s' : State) (t : Tid) (pc' : Pc) (h : WfInv s)
    (hlz : s'.lz = s.lz) (hn : s'.nlz = s.nlz)
    (hmap : ∀ p L, s'.lazy p = some L → s.lazy p = some L)
    (hthr : s'.thr = upd s.thr t pc') (h0 : lzOf (s.thr t) = none) (h1 : lzOf pc' = none) : WfInv s' := by
  have hpc : ∀ t', t' ≠ t → s'.thr t' = s.thr t' := fun t' ht' => by rw [hthr, upd_other _ _ _ _ ht']
  have hpt : s'.thr t = pc' := by rw [hthr, upd_same]
  refine ⟨?_, ?_, ?_, ?_⟩
  · intro t' p L hl
    rw [hlz, hn]
    by_cases e : t' = t
    · subst e; rw [hpt, h1] at hl; cases hl
    · rw [hpc t' e] at hl; exact h.thr_ok t' p L hl
  · intro p L hl; rw [hlz, hn]; exact h.map_ok p L (hmap p L hl)
  · intro L t'
    rw [hlz]
    by_cases e : t' = t
    · subst e
      rw [hpt, lzOf_none_holds L pc' h1]
      have := h.own L t'
      rw [lzOf_none_holds L _ h0] at this
      exact this
    · rw [hpc t' e]; exact h.own L t'
  · intro t' p L hl
    rw [hlz]
    by_cases e : t' = t
    · subst e; rw [hpt] at hl; rw [hl] at h1; simp [lzOf] at h1
    · rw [hpc t' e] at hl; exact h.fn_fresh t' p L hl

theorem wf_crit (s : State) (t : Tid) (c : Crit) (hpc : s.thr t = .hold c) (h : WfInv s) :
    WfInv (crit false s t c).1 := by
  have h0 : lzOf (s.thr t) = none := by rw [hpc]; rfl
  cases c with
  | store p v =>
    simp only [crit, Bool.false_and, Bool.false_eq_true, if_false]
    exact wf_move s _ t _ h rfl rfl (fun _ _ a => a) rfl h0 (by split <;> rfl)
  | del p k =>
    simp only [crit]
    exact wf_move s _ t _ h rfl rfl (fun _ _ a => a) rfl h0 (by cases k <;> rfl)
  | los2 p v f =>
    simp only [crit]
    split
    · exact wf_move s _ t _ h rfl rfl (fun _ _ a => a) rfl h0 rfl
    · split
      · rename_i L hL
        -- an existing lazy
        obtain ⟨hb, hp⟩ := h.map_ok p L hL
        refine ⟨?_, ?_, ?_, ?_⟩
        · intro t' q L' hl
          by_cases e : t' = t
          · subst e
            simp only [upd_same, lzOf, Option.some.injEq, Prod.mk.injEq] at hl
            obtain ⟨rfl, rfl⟩ := hl; exact ⟨hb, hp⟩
          · simp only [upd_other _ _ _ _ e] at hl; exact h.thr_ok t' q L' hl
        · exact h.map_ok
        · intro L' t'
          by_cases e : t' = t
          · subst e
            have := h.own L' t'
            rw [hpc] at this
            simpa [holdsLz] using this
          · simp only [upd_other _ _ _ _ e]; exact h.own L' t'
        · intro t' q L' hl
          by_cases e : t' = t
          · subst e; simp at hl
          · simp only [upd_other _ _ _ _ e] at hl; exact h.fn_fresh t' q L' hl
      · -- a fresh lazy at index nlz
        refine ⟨?_, ?_, ?_, ?_⟩
        · intro t' q L' hl
          by_cases e : t' = t
          · subst e
            simp only [upd_same, lzOf, Option.some.injEq, Prod.mk.injEq] at hl
            obtain ⟨rfl, rfl⟩ := hl
            simp
          · simp only [upd_other _ _ _ _ e] at hl
            obtain ⟨a, b⟩ := h.thr_ok t' q L' hl
            have : L' ≠ s.nlz := Nat.ne_of_lt a
            simp only [upd_other _ _ _ _ this]
            exact ⟨Nat.lt_succ_of_lt a, b⟩
        · intro q L' hl
          by_cases e : q = p
          · subst e
            simp only [upd_same, Option.some.injEq] at hl
            subst hl; simp
          · simp only [upd_other _ _ _ _ e] at hl
            obtain ⟨a, b⟩ := h.map_ok q L' hl
            have : L' ≠ s.nlz := Nat.ne_of_lt a
            simp only [upd_other _ _ _ _ this]
            exact ⟨Nat.lt_succ_of_lt a, b⟩
        · intro L' t'
          by_cases eL : L' = s.nlz
          · subst eL
            simp only [upd_same]
            constructor
            · intro hh
              by_cases e : t' = t
              · subst e; simp [holdsLz] at hh
              · simp only [upd_other _ _ _ _ e] at hh
                obtain ⟨q, hq⟩ := holdsLz_lzOf _ _ hh
                exact absurd (h.thr_ok t' q _ hq).1 (Nat.lt_irrefl _)
            · intro hh; cases hh
          · simp only [upd_other _ _ _ _ eL]
            by_cases e : t' = t
            · subst e
              have := h.own L' t'
              rw [hpc] at this
              simpa [holdsLz] using this
            · simp only [upd_other _ _ _ _ e]; exact h.own L' t'
        · intro t' q L' hl
          by_cases e : t' = t
          · subst e; simp at hl
          · simp only [upd_other _ _ _ _ e] at hl
            have a := (h.thr_ok t' q L' (by rw [hl]; rfl)).1
            have : L' ≠ s.nlz := Nat.ne_of_lt a
            simp only [upd_other _ _ _ _ this]
            exact h.fn_fresh t' q L' hl
  | los3 p x =>
    refine wf_move s _ t _ h rfl rfl ?_ rfl h0 rfl
    intro q L hl
    simp only [crit] at hl
    by_cases e : q = p
    · subst e; simp at hl
    · simpa [upd_other _ _ _ _ e] using hl
  | ash p hk =>
    simp only [crit]
    split
    · exact wf_move s _ t _ h rfl rfl (fun _ _ a => a) rfl h0 rfl
    · split
      · exact wf_move s _ t _ h rfl rfl (fun _ _ a => a) rfl h0 rfl
      · exact wf_move s _ t _ h rfl rfl (fun _ _ a => a) rfl h0 rfl
  | ashRe => exact wf_move s _ t _ h rfl rfl (fun _ _ a => a) rfl h0 rfl
  | close => exact wf_move s _ t _ h rfl rfl (fun _ _ a => by simp [crit] at a) rfl h0 rfl

theorem wf_step (s s' : State) (t : Tid) (e : Ev) (h : WfInv s)
    (hs : step false s t = some (s', e)) : WfInv s' := by
  cases hpc : s.thr t with
  | idle => simp [step, hpc] at hs
  | want c =>
    simp only [step, hpc] at hs
    split at hs
    · cases hs; exact wf_move s _ t _ h rfl rfl (fun _ _ a => a) rfl (by rw [hpc]; rfl) rfl
    · cases hs
  | hold c =>
    simp only [step, hpc] at hs
    have e1 : s' = (crit false s t c).1 := by rw [Option.some.inj hs]
    subst e1; exact wf_crit s t c hpc h
  | rd r =>
    simp only [step, hpc] at hs
    split at hs
    · have e1 : s' = (rdStep s t r).1 := by rw [Option.some.inj hs]
      subst e1
      cases r with
      | load p => exact wf_move s _ t _ h rfl rfl (fun _ _ a => a) rfl (by rw [hpc]; rfl) rfl
      | keys => exact wf_move s _ t _ h rfl rfl (fun _ _ a => a) rfl (by rw [hpc]; rfl) rfl
      | los1 p v f =>
        simp only [rdStep]
        split
        · exact wf_move s _ t _ h rfl rfl (fun _ _ a => a) rfl (by rw [hpc]; rfl) rfl
        · exact wf_move s _ t _ h rfl rfl (fun _ _ a => a) rfl (by rw [hpc]; rfl) rfl
    · cases hs
  | gap site p hl x =>
    simp only [step, hpc] at hs
    split at hs
    · cases hs; exact wf_move s _ t _ h rfl rfl (fun _ _ a => a) rfl (by rw [hpc]; rfl) rfl
    · cases hs; exact wf_move s _ t _ h rfl rfl (fun _ _ a => a) rfl (by rw [hpc]; rfl) rfl
  | lzWant p L =>
    simp only [step, hpc] at hs
    split at hs
    · rename_i hfree
      cases hs
      obtain ⟨hb, hp⟩ := h.thr_ok t p L (by rw [hpc]; rfl)
      have hproc : ∀ L', (upd s.lz L { s.lz L with owner := some t } L').proc = (s.lz L').proc := by
        intro L'; by_cases eL : L' = L
        · subst eL; simp
        · rw [upd_other _ _ _ _ eL]
      have hdone : ∀ L', (upd s.lz L { s.lz L with owner := some t } L').done = (s.lz L').done := by
        intro L'; by_cases eL : L' = L
        · subst eL; simp
        · rw [upd_other _ _ _ _ eL]
      have hlz : lzOf (if (s.lz L).done = true then Pc.lzRel p L else Pc.lzFn p L) = some (p, L) := by
        split <;> rfl
      have hh : ∀ L', holdsLz L' (if (s.lz L).done = true then Pc.lzRel p L else Pc.lzFn p L) = decide (L = L') := by
        intro L'; split <;> rfl
      refine ⟨?_, ?_, ?_, ?_⟩
      · intro t' q L' hl
        simp only [hproc]
        by_cases e : t' = t
        · subst e
          simp only [upd_same, hlz, Option.some.injEq, Prod.mk.injEq] at hl
          obtain ⟨rfl, rfl⟩ := hl; exact ⟨hb, hp⟩
        · simp only [upd_other _ _ _ _ e] at hl; exact h.thr_ok t' q L' hl
      · intro q L' hl; simp only [hproc]; exact h.map_ok q L' hl
      · intro L' t'
        by_cases eL : L' = L
        · subst eL
          simp only [upd_same]
          by_cases e : t' = t
          · subst e; simp [hh]
          · simp only [upd_other _ _ _ _ e]
            constructor
            · intro hx; have := (h.own L' t').mp hx; rw [hfree] at this; cases this
            · intro hx; injection hx with hx; exact absurd hx.symm e
        · simp only [upd_other _ _ _ _ eL]
          by_cases e : t' = t
          · subst e
            simp only [upd_same, hh]
            have := h.own L' t'
            rw [hpc] at this
            simp only [holdsLz] at this
            constructor
            · intro hx; simp at hx; exact absurd hx.symm eL
            · intro hx; exact absurd (this.mpr hx) (by simp)
          · simp only [upd_other _ _ _ _ e]; exact h.own L' t'
      · intro t' q L' hl
        simp only [hdone]
        by_cases e : t' = t
        · subst e
          simp only [upd_same] at hl
          split at hl
          · cases hl
          · rename_i hd
            injection hl with h1 h2; subst h2
            simpa using hd
        · simp only [upd_other _ _ _ _ e] at hl; exact h.fn_fresh t' q L' hl
    · cases hs
  | lzFn p L =>
    simp only [step, hpc] at hs
    cases hs
    have hown : (s.lz L).owner = some t := (h.own L t).mp (by rw [hpc]; simp [holdsLz])
    have hproc : ∀ L', (upd s.lz L { s.lz L with done := true } L').proc = (s.lz L').proc := by
      intro L'; by_cases eL : L' = L
      · subst eL; simp
      · rw [upd_other _ _ _ _ eL]
    have hownr : ∀ L', (upd s.lz L { s.lz L with done := true } L').owner = (s.lz L').owner := by
      intro L'; by_cases eL : L' = L
      · subst eL; simp
      · rw [upd_other _ _ _ _ eL]
    refine ⟨?_, ?_, ?_, ?_⟩
    · intro t' q L' hl
      simp only [hproc]
      by_cases e : t' = t
      · subst e
        simp only [upd_same, lzOf, Option.some.injEq, Prod.mk.injEq] at hl
        obtain ⟨rfl, rfl⟩ := hl; exact h.thr_ok t' p L (by rw [hpc]; rfl)
      · simp only [upd_other _ _ _ _ e] at hl; exact h.thr_ok t' q L' hl
    · intro q L' hl; simp only [hproc]; exact h.map_ok q L' hl
    · intro L' t'
      simp only [hownr]
      by_cases e : t' = t
      · subst e
        have := h.own L' t'
        rw [hpc] at this
        simpa [holdsLz] using this
      · simp only [upd_other _ _ _ _ e]; exact h.own L' t'
    · intro t' q L' hl
      by_cases e : t' = t
      · subst e; simp at hl
      · simp only [upd_other _ _ _ _ e] at hl
        have hne : L' ≠ L := by
          intro eL; subst eL
          have := (h.own L' t').mp (by rw [hl]; simp [holdsLz])
          rw [hown] at this; injection this with this; exact e this.symm
        simp only [upd_other _ _ _ _ hne]
        exact h.fn_fresh t' q L' hl
  | lzRel p L =>
    have hown : (s.lz L).owner = some t := (h.own L t).mp (by rw [hpc]; simp [holdsLz])
    have hproc : ∀ L', (upd s.lz L { s.lz L with owner := none } L').proc = (s.lz L').proc := by
      intro L'; by_cases eL : L' = L
      · subst eL; simp
      · rw [upd_other _ _ _ _ eL]
    have hdone : ∀ L', (upd s.lz L { s.lz L with owner := none } L').done = (s.lz L').done := by
      intro L'; by_cases eL : L' = L
      · subst eL; simp
      · rw [upd_other _ _ _ _ eL]
    -- both branches: release, then a pc that has nothing to do with a lazy
    have key : ∀ pc', lzOf pc' = none →
        WfInv { s with lz := upd s.lz L { s.lz L with owner := none }, thr := upd s.thr t pc' } := by
      intro pc' hpc'
      refine ⟨?_, ?_, ?_, ?_⟩
      · intro t' q L' hl
        simp only [hproc]
        by_cases e : t' = t
        · subst e; simp only [upd_same, hpc'] at hl; cases hl
        · simp only [upd_other _ _ _ _ e] at hl; exact h.thr_ok t' q L' hl
      · intro q L' hl; simp only [hproc]; exact h.map_ok q L' hl
      · intro L' t'
        by_cases e : t' = t
        · subst e
          simp only [upd_same, lzOf_none_holds L' pc' hpc']
          by_cases eL : L' = L
          · subst eL; simp
          · simp only [upd_other _ _ _ _ eL]
            have := h.own L' t'
            rw [hpc] at this
            simp only [holdsLz] at this
            constructor
            · intro hx; cases hx
            · intro hx; have := this.mpr hx; simp at this; exact absurd this.symm eL
        · simp only [upd_other _ _ _ _ e]
          by_cases eL : L' = L
          · subst eL
            simp only [upd_same]
            constructor
            · intro hx
              have := (h.own L' t').mp hx
              rw [hown] at this; injection this with this; exact absurd this.symm e
            · intro hx; cases hx
          · simp only [upd_other _ _ _ _ eL]; exact h.own L' t'
      · intro t' q L' hl
        simp only [hdone]
        by_cases e : t' = t
        · subst e; simp only [upd_same] at hl; rw [hl] at hpc'; simp [lzOf] at hpc'
        · simp only [upd_other _ _ _ _ e] at hl; exact h.fn_fresh t' q L' hl
    simp only [step, hpc] at hs
    split at hs
    · cases hs; exact key _ rfl
    · cases hs; exact key _ rfl
  | cb hl x =>
    simp only [step, hpc] at hs
    cases hs; exact wf_move s _ t _ h rfl rfl (fun _ _ a => a) rfl (by rw [hpc]; rfl) rfl
  | ashCb hk x =>
    simp only [step, hpc] at hs
    cases hs; exact wf_move s _ t _ h rfl rfl (fun _ _ a => a) rfl (by rw [hpc]; rfl) rfl
  | exitFlip p =>
    simp only [step, hpc] at hs
    split at hs
    · cases hs; exact wf_move s _ t _ h rfl rfl (fun _ _ a => a) rfl (by rw [hpc]; rfl) rfl
    · cases hs; exact wf_move s _ t _ h rfl rfl (fun _ _ a => a) rfl (by rw [hpc]; rfl) rfl
  | exitRun p hks =>
    match hks with
    | [] => simp only [step, hpc] at hs; cases hs; exact wf_move s _ t _ h rfl rfl (fun _ _ a => a) rfl (by rw [hpc]; rfl) rfl
    | .del :: rest => simp only [step, hpc] at hs; cases hs; exact wf_move s _ t _ h rfl rfl (fun _ _ a => a) rfl (by rw [hpc]; rfl) rfl
    | .park :: rest => simp only [step, hpc] at hs; cases hs; exact wf_move s _ t _ h rfl rfl (fun _ _ a => a) rfl (by rw [hpc]; rfl) rfl
  | addHk p =>
    simp only [step, hpc] at hs
    split at hs
    · cases hs; exact wf_move s _ t _ h rfl rfl (fun _ _ a => a) rfl (by rw [hpc]; rfl) rfl
    · cases hs; exact wf_move s _ t _ h rfl rfl (fun _ _ a => a) rfl (by rw [hpc]; rfl) rfl
  | pinAdd p v => simp [step, hpc] at hs
  | pinRest p v => simp [step, hpc] at hs
  | pinDel p v => simp [step, hpc] at hs


/-! ### CountInv -/

structure CountInv (s : State) : Prop where
  c1 : ∀ p, s.created p ≤ 1 + s.deletes p
  c2 : ∀ p, s.eager p = none → s.lazy p = none → s.created p ≤ s.deletes p

theorem count_same (s s' : State) (h : CountInv s) (h1 : s'.eager = s.eager) (h2 : s'.lazy = s.lazy)
    (h3 : s'.created = s.created) (h4 : s'.deletes = s.deletes) : CountInv s' :=
  ⟨by rw [h3, h4]; exact h.c1, by rw [h1, h2, h3, h4]; exact h.c2⟩

theorem count_crit (s : State) (t : Tid) (c : Crit) (h : CountInv s) : CountInv (crit false s t c).1 := by
  cases c with
  | store p v =>
    simp only [crit, Bool.false_and, Bool.false_eq_true, if_false]
    refine ⟨h.c1, ?_⟩
    intro q hq hl
    by_cases e : q = p
    · subst e; simp at hq
    · simp only [upd_other _ _ _ _ e] at hq; exact h.c2 q hq hl
  | del p k =>
    simp only [crit]
    refine ⟨?_, ?_⟩
    · intro q
      by_cases e : q = p
      · subst e; simp only [upd_same]; have := h.c1 q; omega
      · simp only [upd_other _ _ _ _ e]; exact h.c1 q
    · intro q hq hl
      by_cases e : q = p
      · subst e
        simp only [upd_same]
        cases hv : s.eager q with
        | none => have := h.c2 q hv hl; simp; exact this
        | some x => have := h.c1 q; simp; omega
      · simp only [upd_other _ _ _ _ e] at hq ⊢; exact h.c2 q hq hl
  | los2 p v f =>
    simp only [crit]
    split
    · exact count_same s _ h rfl rfl rfl rfl
    · split
      · exact count_same s _ h rfl rfl rfl rfl
      · rename_i _ he _ hl
        refine ⟨?_, ?_⟩
        · intro q
          by_cases e : q = p
          · subst e; simp only [upd_same]; have := h.c2 q he hl; omega
          · simp only [upd_other _ _ _ _ e]; exact h.c1 q
        · intro q hq hl'
          by_cases e : q = p
          · subst e; simp at hl'
          · simp only [upd_other _ _ _ _ e] at hl' ⊢; exact h.c2 q hq hl'
  | los3 p x =>
    simp only [crit]
    refine ⟨h.c1, ?_⟩
    intro q hq hl
    by_cases e : q = p
    · subst e; simp at hq
    · simp only [upd_other _ _ _ _ e] at hq hl; exact h.c2 q hq hl
  | ash p hk =>
    simp only [crit]
    split
    · exact count_same s _ h rfl rfl rfl rfl
    · split
      · exact count_same s _ h rfl rfl rfl rfl
      · exact count_same s _ h rfl rfl rfl rfl
  | ashRe => exact count_same s _ h rfl rfl rfl rfl
  | close =>
    simp only [crit]
    refine ⟨?_, ?_⟩
    · intro q; have := h.c1 q; simp only; omega
    · intro q _ _
      simp only
      cases hv : s.eager q with
      | some x => have := h.c1 q; simp; omega
      | none =>
        cases hl : s.lazy q with
        | some L => have := h.c1 q; simp; omega
        | none => have := h.c2 q hv hl; simp; exact this

/-- Steps other than a critical section leave the maps and the create/delete counters alone. -/
theorem step_frame (s s' : State) (t : Tid) (e : Ev) (hs : step false s t = some (s', e))
    (hn : ∀ c, s.thr t ≠ .hold c) :
    s'.eager = s.eager ∧ s'.lazy = s.lazy ∧ s'.created = s.created ∧ s'.deletes = s.deletes ∧ s'.nlz = s.nlz := by
  cases hpc : s.thr t with
  | idle => simp [step, hpc] at hs
  | want c =>
    simp only [step, hpc] at hs
    split at hs
    · cases hs; exact ⟨rfl, rfl, rfl, rfl, rfl⟩
    · cases hs
  | hold c => exact absurd hpc (hn c)
  | rd r =>
    simp only [step, hpc] at hs
    split at hs
    · have e1 : s' = (rdStep s t r).1 := by rw [Option.some.inj hs]
      subst e1
      cases r with
      | load p => exact ⟨rfl, rfl, rfl, rfl, rfl⟩
      | keys => exact ⟨rfl, rfl, rfl, rfl, rfl⟩
      | los1 p v f => simp only [rdStep]; split <;> exact ⟨rfl, rfl, rfl, rfl, rfl⟩
    · cases hs
  | gap site p hl x =>
    simp only [step, hpc] at hs
    split at hs <;> (cases hs; exact ⟨rfl, rfl, rfl, rfl, rfl⟩)
  | lzWant p L =>
    simp only [step, hpc] at hs
    split at hs
    · cases hs; exact ⟨rfl, rfl, rfl, rfl, rfl⟩
    · cases hs
  | lzFn p L => simp only [step, hpc] at hs; cases hs; exact ⟨rfl, rfl, rfl, rfl, rfl⟩
  | lzRel p L =>
    simp only [step, hpc] at hs
    split at hs <;> (cases hs; exact ⟨rfl, rfl, rfl, rfl, rfl⟩)
  | cb hl x => simp only [step, hpc] at hs; cases hs; exact ⟨rfl, rfl, rfl, rfl, rfl⟩
  | ashCb hk x => simp only [step, hpc] at hs; cases hs; exact ⟨rfl, rfl, rfl, rfl, rfl⟩
  | exitFlip p =>
    simp only [step, hpc] at hs
    split at hs <;> (cases hs; exact ⟨rfl, rfl, rfl, rfl, rfl⟩)
  | exitRun p hks =>
    match hks with
    | [] => simp only [step, hpc] at hs; cases hs; exact ⟨rfl, rfl, rfl, rfl, rfl⟩
    | .del :: rest => simp only [step, hpc] at hs; cases hs; exact ⟨rfl, rfl, rfl, rfl, rfl⟩
    | .park :: rest => simp only [step, hpc] at hs; cases hs; exact ⟨rfl, rfl, rfl, rfl, rfl⟩
  | addHk p =>
    simp only [step, hpc] at hs
    split at hs <;> (cases hs; exact ⟨rfl, rfl, rfl, rfl, rfl⟩)
  | pinAdd p v => simp [step, hpc] at hs
  | pinRest p v => simp [step, hpc] at hs
  | pinDel p v => simp [step, hpc] at hs

theorem count_step (s s' : State) (t : Tid) (e : Ev) (h : CountInv s)
    (hs : step false s t = some (s', e)) : CountInv s' := by
  by_cases hh : ∃ c, s.thr t = .hold c
  · obtain ⟨c, hpc⟩ := hh
    simp only [step, hpc] at hs
    have e1 : s' = (crit false s t c).1 := by rw [Option.some.inj hs]
    subst e1; exact count_crit s t c h
  · obtain ⟨h1, h2, h3, h4, _⟩ := step_frame s s' t e hs (fun c hc => hh ⟨c, hc⟩)
    exact count_same s s' h h1 h2 h3 h4

/-! ### InitInv: every initialiser run is paid for by a created lazy -/

def cnt : Nat → (Nat → Nat) → Nat
  | 0, _ => 0
  | n + 1, f => cnt n f + f n

theorem cnt_congr (n : Nat) (f g : Nat → Nat) (h : ∀ i, i < n → f i = g i) : cnt n f = cnt n g := by
  induction n with
  | zero => rfl
  | succ n ih =>
    simp only [cnt]
    rw [ih (fun i hi => h i (Nat.lt_succ_of_lt hi)), h n (Nat.lt_succ_self n)]

theorem cnt_change (n k : Nat) (f g : Nat → Nat) (hk : k < n) (h : ∀ i, i ≠ k → g i = f i) :
    cnt n g + f k = cnt n f + g k := by
  induction n with
  | zero => omega
  | succ n ih =>
    simp only [cnt]
    by_cases e : k = n
    · subst e
      have := cnt_congr k g f (fun i hi => h i (Nat.ne_of_lt hi))
      omega
    · have := ih (by omega)
      have := h n (fun x => e x.symm)
      omega

def unrun (lz : Lid → LazyObj) (p : Pid) (L : Lid) : Nat :=
  if (lz L).proc = p ∧ (lz L).done = false then 1 else 0

def InitInv (s : State) : Prop := ∀ p, s.inits p + cnt s.nlz (unrun s.lz p) = s.created p

theorem init_same (s s' : State) (h : InitInv s) (h1 : s'.inits = s.inits) (h2 : s'.created = s.created)
    (h3 : s'.nlz = s.nlz) (h4 : ∀ L, (s'.lz L).proc = (s.lz L).proc ∧ (s'.lz L).done = (s.lz L).done) : InitInv s' := by
  intro p
  rw [h1, h2, h3]
  have : cnt s.nlz (unrun s'.lz p) = cnt s.nlz (unrun s.lz p) :=
    cnt_congr _ _ _ (fun L _ => by simp only [unrun, (h4 L).1, (h4 L).2])
  rw [this]; exact h p

/-- Steps other than a critical section and the initialiser run keep `inits` and every lazy
object's `proc` / `done`. -/
theorem step_frame_lz (s s' : State) (t : Tid) (e : Ev) (hs : step false s t = some (s', e))
    (hn : ∀ c, s.thr t ≠ .hold c) (hf : ∀ p L, s.thr t ≠ .lzFn p L) :
    s'.inits = s.inits ∧ ∀ L, (s'.lz L).proc = (s.lz L).proc ∧ (s'.lz L).done = (s.lz L).done := by
  cases hpc : s.thr t with
  | idle => simp [step, hpc] at hs
  | want c =>
    simp only [step, hpc] at hs
    split at hs
    · cases hs; exact ⟨rfl, fun _ => ⟨rfl, rfl⟩⟩
    · cases hs
  | hold c => exact absurd hpc (hn c)
  | rd r =>
    simp only [step, hpc] at hs
    split at hs
    · have e1 : s' = (rdStep s t r).1 := by rw [Option.some.inj hs]
      subst e1
      cases r with
      | load p => exact ⟨rfl, fun _ => ⟨rfl, rfl⟩⟩
      | keys => exact ⟨rfl, fun _ => ⟨rfl, rfl⟩⟩
      | los1 p v f => simp only [rdStep]; split <;> exact ⟨rfl, fun _ => ⟨rfl, rfl⟩⟩
    · cases hs
  | gap site p hl x =>
    simp only [step, hpc] at hs
    split at hs <;> (cases hs; exact ⟨rfl, fun _ => ⟨rfl, rfl⟩⟩)
  | lzWant p L =>
    simp only [step, hpc] at hs
    split at hs
    · cases hs
      refine ⟨rfl, fun L' => ?_⟩
      by_cases eL : L' = L
      · subst eL; simp
      · simp [upd_other _ _ _ _ eL]
    · cases hs
  | lzFn p L => exact absurd hpc (hf p L)
  | lzRel p L =>
    simp only [step, hpc] at hs
    split at hs <;>
    · cases hs
      refine ⟨rfl, fun L' => ?_⟩
      by_cases eL : L' = L
      · subst eL; simp
      · simp [upd_other _ _ _ _ eL]
  | cb hl x => simp only [step, hpc] at hs; cases hs; exact ⟨rfl, fun _ => ⟨rfl, rfl⟩⟩
  | ashCb hk x => simp only [step, hpc] at hs; cases hs; exact ⟨rfl, fun _ => ⟨rfl, rfl⟩⟩
  | exitFlip p =>
    simp only [step, hpc] at hs
    split at hs <;> (cases hs; exact ⟨rfl, fun _ => ⟨rfl, rfl⟩⟩)
  | exitRun p hks =>
    match hks with
    | [] => simp only [step, hpc] at hs; cases hs; exact ⟨rfl, fun _ => ⟨rfl, rfl⟩⟩
    | .del :: rest => simp only [step, hpc] at hs; cases hs; exact ⟨rfl, fun _ => ⟨rfl, rfl⟩⟩
    | .park :: rest => simp only [step, hpc] at hs; cases hs; exact ⟨rfl, fun _ => ⟨rfl, rfl⟩⟩
  | addHk p =>
    simp only [step, hpc] at hs
    split at hs <;> (cases hs; exact ⟨rfl, fun _ => ⟨rfl, rfl⟩⟩)
  | pinAdd p v => simp [step, hpc] at hs
  | pinRest p v => simp [step, hpc] at hs
  | pinDel p v => simp [step, hpc] at hs

theorem init_crit (s : State) (t : Tid) (c : Crit) (h : InitInv s) : InitInv (crit false s t c).1 := by
  cases c with
  | store p v =>
    simp only [crit, Bool.false_and, Bool.false_eq_true, if_false]
    exact init_same s _ h rfl rfl rfl (fun _ => ⟨rfl, rfl⟩)
  | del p k => exact init_same s _ h rfl rfl rfl (fun _ => ⟨rfl, rfl⟩)
  | los2 p v f =>
    simp only [crit]
    split
    · exact init_same s _ h rfl rfl rfl (fun _ => ⟨rfl, rfl⟩)
    · split
      · exact init_same s _ h rfl rfl rfl (fun _ => ⟨rfl, rfl⟩)
      · intro q
        simp only [cnt]
        have hc : cnt s.nlz (unrun (upd s.lz s.nlz ⟨p, v, f, false, none⟩) q) = cnt s.nlz (unrun s.lz q) :=
          cnt_congr _ _ _ (fun L hL => by simp only [unrun, upd_other _ _ _ _ (Nat.ne_of_lt hL)])
        rw [hc]
        have := h q
        by_cases e : q = p
        · subst e; simp only [unrun, upd_same, and_self, if_true]; omega
        · have e' : ¬ p = q := fun x => e x.symm
          simp only [unrun, upd_same, upd_other _ _ _ _ e, e', false_and, if_false]; omega
  | los3 p x => exact init_same s _ h rfl rfl rfl (fun _ => ⟨rfl, rfl⟩)
  | ash p hk =>
    simp only [crit]
    split
    · exact init_same s _ h rfl rfl rfl (fun _ => ⟨rfl, rfl⟩)
    · split
      · exact init_same s _ h rfl rfl rfl (fun _ => ⟨rfl, rfl⟩)
      · exact init_same s _ h rfl rfl rfl (fun _ => ⟨rfl, rfl⟩)
  | ashRe => exact init_same s _ h rfl rfl rfl (fun _ => ⟨rfl, rfl⟩)
  | close => exact init_same s _ h rfl rfl rfl (fun _ => ⟨rfl, rfl⟩)

theorem init_step (s s' : State) (t : Tid) (e : Ev) (h : InitInv s) (hw : WfInv s)
    (hs : step false s t = some (s', e)) : InitInv s' := by
  by_cases hh : ∃ c, s.thr t = .hold c
  · obtain ⟨c, hpc⟩ := hh
    simp only [step, hpc] at hs
    have e1 : s' = (crit false s t c).1 := by rw [Option.some.inj hs]
    subst e1; exact init_crit s t c h
  · by_cases hf : ∃ p L, s.thr t = .lzFn p L
    · obtain ⟨p, L, hpc⟩ := hf
      simp only [step, hpc] at hs
      cases hs
      obtain ⟨hb, hp⟩ := hw.thr_ok t p L (by rw [hpc]; rfl)
      have hd := hw.fn_fresh t p L hpc
      intro q
      show upd s.inits p (s.inits p + 1) q + cnt s.nlz (unrun (upd s.lz L { s.lz L with done := true }) q) = s.created q
      have hc := cnt_change s.nlz L (unrun s.lz q) (unrun (upd s.lz L { s.lz L with done := true }) q) hb
        (fun i hi => by simp only [unrun, upd_other _ _ _ _ hi])
      have hg : unrun (upd s.lz L { s.lz L with done := true }) q L = 0 := by simp [unrun]
      dsimp only at hc hg
      have := h q
      by_cases e : q = p
      · subst e
        have hfL : unrun s.lz q L = 1 := by simp [unrun, hp, hd]
        simp only [upd_same]; omega
      · have hfL : unrun s.lz q L = 0 := by
          have : ¬ (s.lz L).proc = q := by rw [hp]; exact fun x => e x.symm
          simp [unrun, this]
        simp only [upd_other _ _ _ _ e]; omega
    · obtain ⟨_, _, h3, _, h5⟩ := step_frame s s' t e hs (fun c hc => hh ⟨c, hc⟩)
      obtain ⟨h6, h7⟩ := step_frame_lz s s' t e hs (fun c hc => hh ⟨c, hc⟩) (fun p L hc => hf ⟨p, L, hc⟩)
      exact init_same s s' h h6 h3 h5 h7


/-! ### all invariants, for every schedule -/

structure AllInv (s : State) : Prop where
  res : ResInv s
  nopin : NoPin s
  mu : MuInv s
  wf : WfInv s
  count : CountInv s
  ini : InitInv s

theorem cnt_zero (n : Nat) : cnt n (fun _ => 0) = 0 := by
  induction n with
  | zero => rfl
  | succ n ih => simp [cnt, ih]

theorem allInv_init : AllInv init := by
  refine ⟨?_, ?_, ?_, ?_, ?_, ?_⟩
  · intro p hp; simp [init] at hp
  · intro t; rfl
  · intro t; simp [init, holdsMu]
  · refine ⟨?_, ?_, ?_, ?_⟩
    · intro t p L h; simp [init, lzOf] at h
    · intro p L h; simp [init] at h
    · intro L t; simp [init, holdsLz]
    · intro t p L h; simp [init] at h
  · exact ⟨fun p => by simp [init], fun p _ _ => by simp [init]⟩
  · intro p; simp [init, cnt]

theorem entry_plain (c : Call) :
    isPin c.entry = false ∧ holdsMu c.entry = false ∧ lzOf c.entry = none := by
  cases c <;> simp [Call.entry, isPin, holdsMu, lzOf]

theorem allInv_call (s : State) (t : Tid) (c : Call) (h : AllInv s) : AllInv (apply false s (.call t c)) := by
  simp only [apply]
  split
  · rename_i hidle
    obtain ⟨e1, e2, e3⟩ := entry_plain c
    refine ⟨?_, ?_, ?_, ?_, ?_, ?_⟩
    · exact resInv_move s t _ _ h.res rfl rfl rfl rfl (by intro p; rw [hidle]; simp [pendsOn])
    · intro t'
      show isPin (upd s.thr t c.entry t') = false
      by_cases e : t' = t
      · subst e; rw [upd_same]; exact e1
      · rw [upd_other _ _ _ _ e]; exact h.nopin t'
    · intro t'
      show holdsMu (upd s.thr t c.entry t') = true ↔ s.mu = some t'
      by_cases e : t' = t
      · subst e
        rw [upd_same, e2]
        have := h.mu t'
        rw [hidle] at this
        simpa [holdsMu] using this
      · rw [upd_other _ _ _ _ e]; exact h.mu t'
    · exact wf_move s _ t _ h.wf rfl rfl (fun _ _ a => a) rfl (by rw [hidle]; rfl) e3
    · exact count_same s _ h.count rfl rfl rfl rfl
    · exact init_same s _ h.ini rfl rfl rfl (fun _ => ⟨rfl, rfl⟩)
  · exact h

theorem allInv_apply (s : State) (a : Act) (h : AllInv s) : AllInv (apply false s a) := by
  cases a with
  | call t c => exact allInv_call s t c h
  | step t =>
    simp only [apply]
    split
    · rename_i s' e hs
      exact ⟨resInv_step s s' t e h.res hs, noPin_step s s' t e h.nopin hs, muInv_step s s' t e h.mu hs,
        wf_step s s' t e h.wf hs, count_step s s' t e h.count hs, init_step s s' t e h.ini h.wf hs⟩
    · exact h

theorem allInv_run (s : State) (sched : List Act) (h : AllInv s) : AllInv (run false s sched) := by
  induction sched generalizing s with
  | nil => exact h
  | cons a as ih => exact ih _ (allInv_apply s a h)

theorem allInv_reach (sched : List Act) : AllInv (run false init sched) := allInv_run init sched allInv_init

/-! ### NoDelInv: nobody ever asked for a deletion on `p` -/

def delFree (p : Pid) : Pc → Bool
  | .want (.del q _) => q ≠ p
  | .hold (.del q _) => q ≠ p
  | .want .close => false
  | .hold .close => false
  | .exitFlip q => q ≠ p
  | .exitRun q _ => q ≠ p
  | _ => true

def Call.delFree (p : Pid) : Call → Bool
  | .delete q => q ≠ p
  | .close => false
  | .exit q => q ≠ p
  | _ => true

def Act.delFree (p : Pid) : Act → Bool
  | .call _ c => c.delFree p
  | .step _ => true

structure NoDelInv (s : State) (p : Pid) : Prop where
  d : s.deletes p = 0
  tm : s.term p = false
  thr : ∀ t, delFree p (s.thr t) = true

theorem noDel_move (s s' : State) (p : Pid) (t : Tid) (pc' : Pc) (h : NoDelInv s p)
    (hd : s'.deletes p = s.deletes p) (ht : s'.term p = s.term p) (hthr : s'.thr = upd s.thr t pc')
    (hpc : delFree p pc' = true) : NoDelInv s' p := by
  refine ⟨by rw [hd]; exact h.d, by rw [ht]; exact h.tm, ?_⟩
  intro t'
  rw [hthr]
  by_cases e : t' = t
  · subst e; rw [upd_same]; exact hpc
  · rw [upd_other _ _ _ _ e]; exact h.thr t'

theorem noDel_crit (s : State) (p : Pid) (t : Tid) (c : Crit) (hpc : s.thr t = .hold c) (h : NoDelInv s p) :
    NoDelInv (crit false s t c).1 p := by
  have hf := h.thr t
  rw [hpc] at hf
  cases c with
  | store q v =>
    simp only [crit, Bool.false_and, Bool.false_eq_true, if_false]
    exact noDel_move s _ p t _ h rfl rfl rfl (by split <;> rfl)
  | del q k =>
    have hq : q ≠ p := by simpa [delFree] using hf
    simp only [crit]
    refine noDel_move s _ p t _ h ?_ rfl rfl ?_
    · show upd s.deletes q _ p = s.deletes p
      rw [upd_other _ _ _ _ (fun x => hq x.symm)]
    · cases k <;> simp [Kont.next, delFree, hq]
  | los2 q v f =>
    simp only [crit]
    split
    · exact noDel_move s _ p t _ h rfl rfl rfl rfl
    · split
      · exact noDel_move s _ p t _ h rfl rfl rfl rfl
      · exact noDel_move s _ p t _ h rfl rfl rfl rfl
  | los3 q x => exact noDel_move s _ p t _ h rfl rfl rfl rfl
  | ash q hk =>
    simp only [crit]
    split
    · exact noDel_move s _ p t _ h rfl rfl rfl rfl
    · split
      · exact noDel_move s _ p t _ h rfl rfl rfl rfl
      · exact noDel_move s _ p t _ h rfl rfl rfl rfl
  | ashRe => exact noDel_move s _ p t _ h rfl rfl rfl rfl
  | close => simp [delFree] at hf

theorem noDel_step (s s' : State) (p : Pid) (t : Tid) (e : Ev) (h : NoDelInv s p)
    (hs : step false s t = some (s', e)) : NoDelInv s' p := by
  have hf := h.thr t
  cases hpc : s.thr t with
  | idle => simp [step, hpc] at hs
  | want c =>
    simp only [step, hpc] at hs
    split at hs
    · cases hs
      refine noDel_move s _ p t _ h rfl rfl rfl ?_
      rw [hpc] at hf
      cases c <;> simp_all [delFree]
    · cases hs
  | hold c =>
    simp only [step, hpc] at hs
    have e1 : s' = (crit false s t c).1 := by rw [Option.some.inj hs]
    subst e1; exact noDel_crit s p t c hpc h
  | rd r =>
    simp only [step, hpc] at hs
    split at hs
    · have e1 : s' = (rdStep s t r).1 := by rw [Option.some.inj hs]
      subst e1
      cases r with
      | load q => exact noDel_move s _ p t _ h rfl rfl rfl rfl
      | keys => exact noDel_move s _ p t _ h rfl rfl rfl rfl
      | los1 q v f => simp only [rdStep]; split <;> exact noDel_move s _ p t _ h rfl rfl rfl rfl
    · cases hs
  | gap site q hl x =>
    simp only [step, hpc] at hs
    split at hs
    · rename_i htq
      cases hs
      have hq : q ≠ p := by intro e; subst e; rw [h.tm] at htq; cases htq
      exact noDel_move s _ p t _ h rfl rfl rfl (by simp [delFree, hq])
    · cases hs; exact noDel_move s _ p t _ h rfl rfl rfl rfl
  | lzWant q L =>
    simp only [step, hpc] at hs
    split at hs
    · cases hs; exact noDel_move s _ p t _ h rfl rfl rfl (by split <;> rfl)
    · cases hs
  | lzFn q L => simp only [step, hpc] at hs; cases hs; exact noDel_move s _ p t _ h rfl rfl rfl rfl
  | lzRel q L =>
    simp only [step, hpc] at hs
    split at hs <;> (cases hs; exact noDel_move s _ p t _ h rfl rfl rfl rfl)
  | cb hl x => simp only [step, hpc] at hs; cases hs; exact noDel_move s _ p t _ h rfl rfl rfl rfl
  | ashCb hk x => simp only [step, hpc] at hs; cases hs; exact noDel_move s _ p t _ h rfl rfl rfl rfl
  | exitFlip q =>
    rw [hpc] at hf
    have hq : q ≠ p := by simpa [delFree] using hf
    simp only [step, hpc] at hs
    split at hs
    · cases hs; exact noDel_move s _ p t _ h rfl rfl rfl (by simp [delFree, hq])
    · cases hs
      refine noDel_move s _ p t _ h rfl ?_ rfl (by simp [delFree, hq])
      show upd s.term q true p = s.term p
      rw [upd_other _ _ _ _ (fun x => hq x.symm)]
  | exitRun q hks =>
    rw [hpc] at hf
    have hq : q ≠ p := by simpa [delFree] using hf
    match hks with
    | [] => simp only [step, hpc] at hs; cases hs; exact noDel_move s _ p t _ h rfl rfl rfl rfl
    | .del :: _ => simp only [step, hpc] at hs; cases hs; exact noDel_move s _ p t _ h rfl rfl rfl (by simp [delFree, hq])
    | .park :: _ => simp only [step, hpc] at hs; cases hs; exact noDel_move s _ p t _ h rfl rfl rfl (by simp [delFree, hq])
  | addHk q =>
    simp only [step, hpc] at hs
    split at hs
    · rename_i htq
      cases hs
      have hq : q ≠ p := by intro e; subst e; rw [h.tm] at htq; cases htq
      exact noDel_move s _ p t _ h rfl rfl rfl (by simp [delFree, hq])
    · cases hs; exact noDel_move s _ p t _ h rfl rfl rfl rfl
  | pinAdd q v => simp [step, hpc] at hs
  | pinRest q v => simp [step, hpc] at hs
  | pinDel q v => simp [step, hpc] at hs

theorem noDel_apply (s : State) (p : Pid) (a : Act) (h : NoDelInv s p) (ha : a.delFree p = true) :
    NoDelInv (apply false s a) p := by
  cases a with
  | call t c =>
    simp only [apply]
    split
    · refine noDel_move s _ p t _ h rfl rfl rfl ?_
      cases c <;> simp_all [Act.delFree, Call.delFree, Call.entry, delFree]
    · exact h
  | step t =>
    simp only [apply]
    cases hst : step false s t with
    | none => exact h
    | some pr => obtain ⟨s', e⟩ := pr; exact noDel_step s s' p t e h hst

theorem noDel_run (s : State) (p : Pid) (sched : List Act) (h : NoDelInv s p)
    (ha : ∀ a ∈ sched, a.delFree p = true) : NoDelInv (run false s sched) p := by
  induction sched generalizing s with
  | nil => exact h
  | cons a as ih =>
    exact ih _ (noDel_apply s p a h (ha a (List.mem_cons_self))) (fun b hb => ha b (List.mem_cons_of_mem _ hb))

theorem noDel_init (p : Pid) : NoDelInv init p := ⟨rfl, rfl, fun _ => rfl⟩

/-! ### the pinned Store: wedged for good -/

/-- A thread sits in `pinDel` holding `l.mu`, and nobody else believes to hold it. -/
def Wedged (s : State) (t : Tid) (p : Pid) (v : Val) : Prop :=
  s.thr t = .pinDel p v ∧ s.mu = some t ∧ ∀ t', t' ≠ t → holdsMu (s.thr t') = false

theorem wedged_move (s : State) (t t' : Tid) (p : Pid) (v : Val) (pc' : Pc) (s' : State)
    (h : Wedged s t p v) (hne : t' ≠ t) (hmu : s'.mu = s.mu) (hthr : s'.thr = upd s.thr t' pc')
    (hpc' : holdsMu pc' = false) : Wedged s' t p v := by
  obtain ⟨h1, h2, h3⟩ := h
  refine ⟨by rw [hthr, upd_other _ _ _ _ (fun x => hne x.symm)]; exact h1, by rw [hmu]; exact h2, ?_⟩
  intro t'' hne'
  rw [hthr]
  by_cases e2 : t'' = t'
  · subst e2; rw [upd_same]; exact hpc'
  · rw [upd_other _ _ _ _ e2]; exact h3 t'' hne'

theorem wedged_step (s s' : State) (t t' : Tid) (p : Pid) (v : Val) (e : Ev)
    (h : Wedged s t p v) (hs : step true s t' = some (s', e)) : Wedged s' t p v := by
  by_cases hne : t' = t
  · subst hne; simp [step, h.1] at hs
  · have hnh := h.2.2 t' hne
    have hmu := h.2.1
    cases hpc : s.thr t' with
    | idle => simp [step, hpc] at hs
    | want c => simp [step, hpc, hmu] at hs
    | hold c => rw [hpc] at hnh; cases hnh
    | rd r => simp [step, hpc, hmu] at hs
    | gap site q hl x =>
      simp only [step, hpc] at hs
      split at hs <;> (cases hs; exact wedged_move s t t' p v _ _ h hne rfl rfl rfl)
    | lzWant q L =>
      simp only [step, hpc] at hs
      split at hs
      · cases hs; exact wedged_move s t t' p v _ _ h hne rfl rfl (by split <;> rfl)
      · cases hs
    | lzFn q L => simp only [step, hpc] at hs; cases hs; exact wedged_move s t t' p v _ _ h hne rfl rfl rfl
    | lzRel q L =>
      simp only [step, hpc] at hs
      split at hs <;> (cases hs; exact wedged_move s t t' p v _ _ h hne rfl rfl rfl)
    | cb hl x => simp only [step, hpc] at hs; cases hs; exact wedged_move s t t' p v _ _ h hne rfl rfl rfl
    | ashCb hk x => simp only [step, hpc] at hs; cases hs; exact wedged_move s t t' p v _ _ h hne rfl rfl rfl
    | exitFlip q =>
      simp only [step, hpc] at hs
      split at hs <;> (cases hs; exact wedged_move s t t' p v _ _ h hne rfl rfl rfl)
    | exitRun q hks =>
      match hks with
      | [] => simp only [step, hpc] at hs; cases hs; exact wedged_move s t t' p v _ _ h hne rfl rfl rfl
      | .del :: _ => simp only [step, hpc] at hs; cases hs; exact wedged_move s t t' p v _ _ h hne rfl rfl rfl
      | .park :: _ => simp only [step, hpc] at hs; cases hs; exact wedged_move s t t' p v _ _ h hne rfl rfl rfl
    | addHk q =>
      simp only [step, hpc] at hs
      split at hs <;> (cases hs; exact wedged_move s t t' p v _ _ h hne rfl rfl rfl)
    | pinAdd q w => rw [hpc] at hnh; cases hnh
    | pinRest q w => rw [hpc] at hnh; cases hnh
    | pinDel q w => rw [hpc] at hnh; cases hnh


end Uniflow.Local
