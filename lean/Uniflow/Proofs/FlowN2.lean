/-
C02, joint model, all node kinds, part 9: routing one reply (`gReply`) preserves the invariant (the link
layer is the one of the general-links proof, `FlowG4`).
-/
import Uniflow.Proofs.FlowN1

namespace Uniflow.FlowN
open Uniflow.Tracer Uniflow.Node Uniflow.Flow Uniflow.FlowInv Uniflow.FlowG Uniflow.ATracer Uniflow.FlowH Uniflow.FlowM
open Uniflow.ATracer (getL_setOrDel getL_aset)

theorem heldDH_updD_ne (D : Nat → List (Pid × Ans)) (aa : Nat → A) (nodes : List Node)
    (sk : List (Nat × List (Pid × Val))) (rk : Nat) (l : List (Pid × Ans)) (t : Tgt)
    (h : rkeyOf t ≠ rk) : heldDH (updD D rk l) aa nodes sk t = heldDH D aa nodes sk t := by
  simp [heldDH, updD, h]

/-- routing one reply: the reader with key `rkeyOf t` answers the request `c` it has held longest -/
theorem HI_gReply (kinds : List Kind) (links : List (Nat × List Tgt)) (hwf : GraphWF5 kinds links) (aa : Nat → A)
    (D : Nat → List (Pid × Ans)) (g : G) (t : Tgt) (c : Pid) (a : Ans) (rest : List (Pid × Ans))
    (h : HI kinds links aa D g) (htok : TgtOK t) (hD : D (rkeyOf t) = (c, a) :: rest) :
    HI kinds links aa (updD D (rkeyOf t) rest) (gReply g (rkeyOf t) a) := by
  have hra : RA g.log c a := h.debtOK (rkeyOf t) (c, a) (by rw [hD]; simp)
  have hheld : heldDH D aa g.nodes g.sinks t = c :: (rest.map (·.1) ++ heldAtH aa g.nodes g.sinks t) := by simp [heldDH, hD]
  have hD' : heldDH (updD D (rkeyOf t) rest) aa g.nodes g.sinks t = rest.map (·.1) ++ heldAtH aa g.nodes g.sinks t := by
    simp [heldDH, updD]
  have hfl := h.fifoLen t htok
  rw [hheld] at hfl
  cases hfifo : getL g.fifo (rkeyOf t) with
  | nil => rw [hfifo] at hfl; simp at hfl
  | cons key F' =>
  rw [hfifo] at hfl
  simp only [List.length_cons, Nat.add_right_cancel_iff] at hfl
  have hkt : t ∈ getL links key := h.fifoKeys t htok key (by rw [hfifo]; simp)
  have hlne : getL links key ≠ [] := by intro e; rw [e] at hkt; simp at hkt
  obtain ⟨i, hcol, hti⟩ := colOf_spec t (getL links key) 0 (hwf.nodupT key) hkt
  rw [Nat.zero_add] at hcol
  have hwk := h.wk key hlne
  have hhb : hbOfH D aa g.nodes g.sinks g.fifo key t = c :: selK key (rest.map (·.1) ++ heldAtH aa g.nodes g.sinks t) F' := by
    simp only [hbOfH, hheld, hfifo, selK, if_true]
  obtain ⟨qs, prs, prs', fl, f_pend, f_qs, f_fill, f_q, f_rows, f_coli, f_colo, f_hb, _, f_ne, f_cm, f_nct, f_nch⟩ :=
    wkg_fill g.log _ _ _ _ hwk i t hti c _ a hhb hra
  cases prs' with
  | nil => exact absurd rfl f_ne
  | cons r0 tl =>
  have heq := gReply_eqG g (rkeyOf t) a key F' i (rowOf r0) (tl.map rowOf) fl hfifo
    (by rw [h.glinks]; exact hcol) (by rw [getWriter_eq]; exact f_fill)
  -- the new FIFO table and what the readers hold for each writer afterwards
  have hne_t : ∀ t', TgtOK t' → t' ≠ t → rkeyOf t' ≠ rkeyOf t :=
    fun t' h' hne e => hne (rkey_inj_ok t' t h' htok e)
  have hheld_o : ∀ t', rkeyOf t' ≠ rkeyOf t →
      heldDH (updD D (rkeyOf t) rest) aa g.nodes g.sinks t' = heldDH D aa g.nodes g.sinks t' :=
    fun t' hne => heldDH_updD_ne D aa g.nodes g.sinks _ rest t' hne
  have hff_t : getL (setOrDel g.fifo (rkeyOf t) F') (rkeyOf t) = F' := by rw [getL_setOrDel]; simp
  have hff_o : ∀ t', rkeyOf t' ≠ rkeyOf t → getL (setOrDel g.fifo (rkeyOf t) F') (rkeyOf t') = getL g.fifo (rkeyOf t') := by
    intro t' hne; rw [getL_setOrDel]; simp [hne]
  have hb_t : ∀ key', hbOfH (updD D (rkeyOf t) rest) aa g.nodes g.sinks (setOrDel g.fifo (rkeyOf t) F') key' t =
      selK key' (rest.map (·.1) ++ heldAtH aa g.nodes g.sinks t) F' := by
    intro key'; simp only [hbOfH, hD', hff_t]
  have hb_o : ∀ key' t', rkeyOf t' ≠ rkeyOf t →
      hbOfH (updD D (rkeyOf t) rest) aa g.nodes g.sinks (setOrDel g.fifo (rkeyOf t) F') key' t' = hbOfH D aa g.nodes g.sinks g.fifo key' t' := by
    intro key' t' hne; simp only [hbOfH, hheld_o t' hne, hff_o t' hne]
  have hb_tk : ∀ key', key' ≠ key →
      hbOfH (updD D (rkeyOf t) rest) aa g.nodes g.sinks (setOrDel g.fifo (rkeyOf t) F') key' t = hbOfH D aa g.nodes g.sinks g.fifo key' t := by
    intro key' hne
    rw [hb_t key']
    simp only [hbOfH, hheld, hfifo, selK, Ne.symm hne, if_false]
  -- the generic constructor for the three shapes of the result
  have mk : ∀ (wr' : Flow.Writer) (resp' so' : List Ans),
      WKG g.log wr' (getL links key) (pendH aa g.roots resp'.length key)
        (hbOfH (updD D (rkeyOf t) rest) aa g.nodes g.sinks (setOrDel g.fifo (rkeyOf t) F') key) →
      (key = srcKey → wr'.queue = []) → (getL links key = [] → wr'.queue = []) →
      (resp'.length ≤ g.roots.length ∧ All2 (RA g.log) (g.roots.take resp'.length) resp') →
      (resp' = g.resp ∨ key = srcKey) →
      HI kinds links aa (updD D (rkeyOf t) rest)
        { g with fifo := setOrDel g.fifo (rkeyOf t) F', writers := aset g.writers key wr', srcOut := so', resp := resp' } := by
    intro wr' resp' so' hk hq hq0 hresp hpk
    refine { glinks := h.glinks, nodesLen := h.nodesLen, kindOK := h.kindOK, kindEq := h.kindEq, thr := h.thr, rdr := h.rdr, jb := h.jb, nl := h.nl,
             dflt := h.dflt, sinkOK := h.sinkOK,
             debtOK := ?_, wk := ?_, srcq := ?_, fifoLen := ?_, fifoKeys := ?_, respOK := hresp,
             logBound := h.logBound, rootsB := h.rootsB, wq0 := ?_, logOrd := h.logOrd }
    · intro rk x hx
      simp only [updD] at hx
      split at hx
      · exact h.debtOK (rkeyOf t) x (by rw [hD]; simp [hx])
      · exact h.debtOK rk x hx
    · intro key' hl'
      by_cases e : key' = key
      · subst e
        simp only [gw_aset, if_true]
        exact hk
      · simp only [gw_aset, e, if_false]
        have hp : pendH aa g.roots resp'.length key' = pendH aa g.roots g.resp.length key' := by
          rcases hpk with hpk | hpk
          · rw [hpk]
          · exact pendH_ne_src aa g.roots _ _ key' (fun e2 => e (by rw [e2, hpk]))
        rw [hp]
        apply wkg_congr g.log _ _ _ _ _ (h.wk key' hl')
        intro i' t' ht'
        have ht'm : t' ∈ getL links key' := List.mem_of_getElem? ht'
        by_cases et : t' = t
        · subst et; exact hb_tk key' e
        · exact hb_o key' t' (hne_t t' (tgtOK_mem5 kinds links hwf key' t' ht'm) et)
    · by_cases e : srcKey = key
      · subst e; simp only [gw_aset, if_true]; exact hq rfl
      · simp only [gw_aset, e, if_false]; exact h.srcq
    · intro t' htok'
      by_cases et : t' = t
      · subst et; show (getL (setOrDel g.fifo _ F') _).length = _; rw [hff_t, hD']; exact hfl
      · have hne := hne_t t' htok' et
        show (getL (setOrDel g.fifo _ F') _).length = _
        rw [hff_o t' hne, hheld_o t' hne]; exact h.fifoLen t' htok'
    · intro t' htok' key' hk'
      by_cases et : t' = t
      · subst et
        have : key' ∈ getL (setOrDel g.fifo (rkeyOf t') F') (rkeyOf t') := hk'
        rw [hff_t] at this
        exact h.fifoKeys t' htok' key' (by rw [hfifo]; exact List.mem_cons_of_mem _ this)
      · have hne := hne_t t' htok' et
        have : key' ∈ getL (setOrDel g.fifo (rkeyOf t) F') (rkeyOf t') := hk'
        rw [hff_o t' hne] at this
        exact h.fifoKeys t' htok' key' this
    · intro key' hl'
      by_cases e : key' = key
      · subst e; simp only [gw_aset, if_true]; exact hq0 hl'
      · simp only [gw_aset, e, if_false]; exact h.wq0 key' hl'
  -- the columns after the fill
  have hcols : ∀ (i' : Nat) t', (getL links key)[i']? = some t' →
      hbOfH (updD D (rkeyOf t) rest) aa g.nodes g.sinks (setOrDel g.fifo (rkeyOf t) F') key t' = colPend i' (r0 :: tl) := by
    intro i' t' ht'
    by_cases ei : i' = i
    · subst ei
      rw [hti] at ht'; simp only [Option.some.injEq] at ht'; subst ht'
      rw [hb_t key, f_coli]
    · have hne := nodup_idx_ne (getL links key) (hwf.nodupT key) i i' t t' hti ht' ei
      rw [hb_o key t' hne, f_hb i' t' ht', f_colo i' ei]
  rw [heq]
  by_cases hp : fl = true ∧ hasNil (rowOf r0) = false
  · -- row 0 is complete: it leaves the writer
    simp only [hp, and_self, if_true]
    have hr0 : RowOK g.log (getL links key).length r0 := f_rows r0 List.mem_cons_self
    have hraq : RA g.log r0.q (joinCells (rowOf r0)) := ra_of_row g.log _ r0 hr0 hp.2
    have hcols' : ∀ (i' : Nat) t', (getL links key)[i']? = some t' →
        hbOfH (updD D (rkeyOf t) rest) aa g.nodes g.sinks (setOrDel g.fifo (rkeyOf t) F') key t' = colPend i' tl := by
      intro i' t' ht'; rw [hcols i' t' ht', colPend_cons_complete i' r0 tl hp.2]
    have hpq : prs.map (·.q) = r0.q :: tl.map (·.q) := by rw [← f_q]; rfl
    by_cases hs : key = srcKey
    · subst hs
      simp only [if_true]
      have hq0 := h.srcq
      have hqs : qs = [] := by
        rw [hq0] at f_qs; cases qs with
        | nil => rfl
        | cons _ _ => simp [All2] at f_qs
      subst hqs
      have e1 : g.roots.drop g.resp.length = r0.q :: tl.map (·.q) := by
        have := f_pend; rw [pendH_src, hpq] at this; simpa using this
      have hlen : g.resp.length < g.roots.length := by
        have : (g.roots.drop g.resp.length).length = (r0.q :: tl.map (·.q)).length := by rw [e1]
        simp only [List.length_drop, List.length_cons] at this; omega
      have htake : g.roots.take (g.resp.length + 1) = g.roots.take g.resp.length ++ [r0.q] := by
        have hq : g.roots[g.resp.length]? = some r0.q := by
          have := congrArg List.head? e1
          simpa [List.head?_drop] using this
        rw [List.take_succ, hq]; rfl
      have hdrop : g.roots.drop (g.resp.length + 1) = tl.map (·.q) := by
        have := congrArg List.tail e1
        simpa [List.tail_drop] using this
      apply mk { getWriter g srcKey with rows := tl.map rowOf } (g.resp ++ [joinCells (rowOf r0)]) _
      · refine ⟨[], tl, ?_, ?_, rfl, fun r hr => f_rows r (List.mem_cons_of_mem _ hr), hcols', f_nct,
          (List.pairwise_cons.mp f_cm).2⟩
        · rw [pendH_src]; simp only [List.length_append, List.length_cons, List.length_nil, List.nil_append]
          exact hdrop
        · show All2 (RA g.log) [] (gw g.writers srcKey).queue; rw [hq0]; trivial
      · intro _; exact hq0
      · intro e; exact absurd e hlne
      · simp only [List.length_append, List.length_cons, List.length_nil]
        refine ⟨hlen, ?_⟩
        rw [htake]
        exact all2_append _ _ _ _ _ h.respOK.2 hraq
      · exact Or.inr rfl
    · simp only [hs, if_false]
      apply mk { rows := tl.map rowOf, queue := (getWriter g key).queue ++ [joinCells (rowOf r0)] } g.resp g.srcOut
      · refine ⟨qs ++ [r0.q], tl, ?_, all2_append _ _ _ _ _ f_qs hraq, rfl,
          fun r hr => f_rows r (List.mem_cons_of_mem _ hr), hcols', f_nct, (List.pairwise_cons.mp f_cm).2⟩
        rw [f_pend, hpq]; simp
      · intro e; exact absurd e hs
      · intro e; exact absurd e hlne
      · exact h.respOK
      · exact Or.inl rfl
  · simp only [hp, if_false]
    apply mk { getWriter g key with rows := rowOf r0 :: tl.map rowOf } g.resp g.srcOut
    · refine ⟨qs, r0 :: tl, by rw [f_pend, f_q], f_qs, rfl, f_rows, hcols, ?_, f_cm⟩
      intro x hx
      simp only [List.mem_cons] at hx
      rcases hx with hx | hx
      · subst hx
        cases hfl : fl with
        | false => exact f_nch hfl x (by simp)
        | true =>
          cases hn : hasNil (rowOf x) with
          | true => rfl
          | false => exact absurd ⟨hfl, hn⟩ hp
      · exact f_nct x hx
    · intro e; subst e; exact h.srcq
    · intro e; exact absurd e hlne
    · exact h.respOK
    · exact Or.inl rfl

end Uniflow.FlowN
