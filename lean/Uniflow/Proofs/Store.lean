/-
Helper lemmas for Props/C10.lean: `match` (Model/Store.lean) computes the reference evaluation (Spec/Query.lean) on
well-formed filters, and `validate` decides well-formedness. Core Lean only.
-/
import Uniflow.Model.Store
import Uniflow.Proofs.Query
import Uniflow.Props.C14

namespace Uniflow.Store
open Uniflow.Value Uniflow.Query

/-! ### equation lemmas (see Proofs/Query.lean for why) -/

theorem matchV_map (doc : Val) (ex : Bool) (ps : PList) : matchV doc ex (.map ps) = matchP doc ex ps := by
  conv => lhs; unfold matchV

theorem matchV_nonmap (doc : Val) (ex : Bool) {f : Val} (h : ∀ ps, f ≠ .map ps) :
    matchV doc ex f = .ok (equal doc f) := by
  cases f with
  | map ps => exact absurd rfl (h ps)
  | _ => conv => lhs; unfold matchV

/-- the field a filter entry descends into: value (nil when absent or the parent is no map) and presence -/
def childOf (doc k : Val) : Val := match doc with | .map d => mget d k | _ => .nil
def hasOf (doc k : Val) : Bool := match doc with | .map d => mhas d k | _ => false

/-- one iteration of the loop of `match` over an entry with a string key, given how the rest of the loop ends -/
def matchStep (doc : Val) (ex : Bool) (k : Val) (key : Bytes) (value : Val) (rest : Res Bool) : Res Bool :=
  if !dollar key then
    match matchV (childOf doc k) (hasOf doc k) value with
    | .ok true => rest
    | r => r
  else if key = opExists then
    if ex != truthy value then .ok false else rest
  else if key = opAnd then
    match value with
    | .slice xs =>
      match matchAll doc ex xs with
      | .ok true => rest
      | r => r
    | _ => .err .unsupportedType
  else if key = opOr then
    match value with
    | .slice xs =>
      match matchAny doc ex xs with
      | .ok true => rest
      | r => r
    | _ => .err .unsupportedType
  else
    match cmpOp key doc value with
    | some true => rest
    | some false => .ok false
    | none => .err .unsupportedOperation

theorem matchP_nil (doc : Val) (ex : Bool) : matchP doc ex .nil = .ok true := by
  conv => lhs; unfold matchP

theorem matchP_cons_str (doc : Val) (ex : Bool) (key : Bytes) (value : Val) (rest : PList) :
    matchP doc ex (.cons (.str key) value rest) = matchStep doc ex (.str key) key value (matchP doc ex rest) := by
  conv => lhs; unfold matchP
  rfl

theorem matchP_cons_nonstr (doc : Val) (ex : Bool) {k : Val} (value : Val) (rest : PList) (h : ∀ key, k ≠ .str key) :
    matchP doc ex (.cons k value rest) = .err .unsupportedType := by
  cases k with
  | str key => exact absurd rfl (h key)
  | _ => conv => lhs; unfold matchP

theorem matchAll_nil (doc : Val) (ex : Bool) : matchAll doc ex .nil = .ok true := by
  conv => lhs; unfold matchAll

theorem matchAll_cons (doc : Val) (ex : Bool) (f : Val) (fs : VList) :
    matchAll doc ex (.cons f fs) = (match matchV doc ex f with | .ok true => matchAll doc ex fs | r => r) := by
  conv => lhs; unfold matchAll
  rfl

theorem matchAny_nil (doc : Val) (ex : Bool) : matchAny doc ex .nil = .ok false := by
  conv => lhs; unfold matchAny

theorem matchAny_cons (doc : Val) (ex : Bool) (f : Val) (fs : VList) :
    matchAny doc ex (.cons f fs) = (match matchV doc ex f with | .ok false => matchAny doc ex fs | r => r) := by
  conv => lhs; unfold matchAny
  rfl

/-! ### absent fields -/

theorem childOf_valOf (d : Option Val) (k : Val) : childOf (valOf d) k = valOf (field d k) := by
  cases d with
  | none => simp [valOf, childOf, field]
  | some v => cases v <;> simp [valOf, childOf, field, mget]

theorem hasOf_valOf (d : Option Val) (k : Val) : hasOf (valOf d) k = (field d k).isSome := by
  cases d with
  | none => simp [valOf, hasOf, field]
  | some v => cases v <;> simp [valOf, hasOf, field, mhas]

/-- whether `match` knows a comparison operator does not depend on the operands -/
theorem cmpOp_isSome (key : Bytes) (a b : Val) : (cmpOp key a b).isSome = (cmpOp key .nil .nil).isSome := by
  unfold cmpOp
  repeat' split
  all_goals rfl

/-! ### `match` = reference on well-formed filters -/

mutual
  theorem matchV_ref : ∀ (f : Val), wf f = true → ∀ d : Option Val, matchV (valOf d) d.isSome f = .ok (refMatch d f)
    | .map ps, h, d => by
      rw [wf_map] at h
      rw [matchV_map, refMatch_map]
      exact matchP_ref ps h d
    | .nil, _, d => by rw [matchV_nonmap _ _ (by intro ps; simp), refMatch_nonmap _ (by intro ps; simp)]
    | .bin _, _, d => by rw [matchV_nonmap _ _ (by intro ps; simp), refMatch_nonmap _ (by intro ps; simp)]
    | .bool _, _, d => by rw [matchV_nonmap _ _ (by intro ps; simp), refMatch_nonmap _ (by intro ps; simp)]
    | .err _, _, d => by rw [matchV_nonmap _ _ (by intro ps; simp), refMatch_nonmap _ (by intro ps; simp)]
    | .int _ _, _, d => by rw [matchV_nonmap _ _ (by intro ps; simp), refMatch_nonmap _ (by intro ps; simp)]
    | .uint _ _, _, d => by rw [matchV_nonmap _ _ (by intro ps; simp), refMatch_nonmap _ (by intro ps; simp)]
    | .f32 _, _, d => by rw [matchV_nonmap _ _ (by intro ps; simp), refMatch_nonmap _ (by intro ps; simp)]
    | .f64 _, _, d => by rw [matchV_nonmap _ _ (by intro ps; simp), refMatch_nonmap _ (by intro ps; simp)]
    | .str _, _, d => by rw [matchV_nonmap _ _ (by intro ps; simp), refMatch_nonmap _ (by intro ps; simp)]
    | .slice _, _, d => by rw [matchV_nonmap _ _ (by intro ps; simp), refMatch_nonmap _ (by intro ps; simp)]
  theorem matchP_ref : ∀ (ps : PList), wfP ps = true → ∀ d : Option Val, matchP (valOf d) d.isSome ps = .ok (refP d ps)
    | .nil, _, d => by rw [matchP_nil, refP_nil]
    | .cons k v rest, h, d => by
      rw [wfP_cons] at h
      simp only [Bool.and_eq_true] at h
      have ihr := matchP_ref rest h.2 d
      rw [refP_cons]
      cases k with
      | str key =>
        rw [matchP_cons_str, ihr]
        have hw := h.1
        unfold matchStep
        unfold wfEntry at hw
        unfold entry
        by_cases hd : dollar key = true
        · simp only [hd, Bool.not_true, Bool.false_eq_true, if_false] at hw ⊢
          by_cases he : key = opExists
          · subst he
            simp only [if_true]
            cases hx : (d.isSome != truthy v) <;> cases hy : (d.isSome == truthy v) <;> simp_all
          · simp only [he, if_false]
            by_cases ha : key = opAnd
            · subst ha
              simp only [if_true] at hw ⊢
              cases v with
              | slice xs =>
                simp only at hw ⊢
                rw [matchAll_ref xs hw d]
                cases refAllL d xs <;> simp
              | _ => simp at hw
            · simp only [ha, if_false]
              by_cases ho : key = opOr
              · subst ho
                simp only [if_true] at hw ⊢
                cases v with
                | slice xs =>
                  simp only at hw ⊢
                  rw [matchAny_ref xs hw d]
                  cases refAnyL d xs <;> simp
                | _ => simp at hw
              · simp only [ho, if_false, ha, he, Bool.or_self, decide_false, Bool.false_or] at hw ⊢
                have hs := cmpOp_isSome key (valOf d) v
                simp only [Bool.false_eq_true, if_false] at hw
                rw [hw] at hs
                cases hc : cmpOp key (valOf d) v with
                | none => simp [hc] at hs
                | some b => cases b <;> simp
        · simp only [Bool.not_eq_true] at hd
          simp only [hd, Bool.not_false, if_true] at hw ⊢
          rw [childOf_valOf, hasOf_valOf, matchV_ref v hw (field d (.str key))]
          cases refMatch (field d (.str key)) v <;> simp
      | _ => simp [wfEntry] at h
  theorem matchAll_ref : ∀ (xs : VList), wfL xs = true → ∀ d : Option Val, matchAll (valOf d) d.isSome xs = .ok (refAllL d xs)
    | .nil, _, d => by rw [matchAll_nil, refAllL_nil]
    | .cons f fs, h, d => by
      rw [wfL_cons] at h
      simp only [Bool.and_eq_true] at h
      rw [matchAll_cons, refAllL_cons, matchV_ref f h.1 d, matchAll_ref fs h.2 d]
      cases refMatch d f <;> simp
  theorem matchAny_ref : ∀ (xs : VList), wfL xs = true → ∀ d : Option Val, matchAny (valOf d) d.isSome xs = .ok (refAnyL d xs)
    | .nil, _, d => by rw [matchAny_nil, refAnyL_nil]
    | .cons f fs, h, d => by
      rw [wfL_cons] at h
      simp only [Bool.and_eq_true] at h
      rw [matchAny_cons, refAnyL_cons, matchV_ref f h.1 d, matchAny_ref fs h.2 d]
      cases refMatch d f <;> simp
end

/-! ### `validate` decides well-formedness -/

theorem validate_map (ps : PList) : validate (.map ps) = validateP ps := by
  conv => lhs; unfold validate

theorem validate_nonmap {f : Val} (h : ∀ ps, f ≠ .map ps) : validate f = none := by
  cases f with
  | map ps => exact absurd rfl (h ps)
  | _ => conv => lhs; unfold validate

def validateStep (key : Bytes) (value : Val) (rest : Option Err) : Option Err :=
  if !dollar key then
    match validate value with
    | none => rest
    | e => e
  else if key = opAnd || key = opOr then
    match value with
    | .slice xs =>
      match validateL xs with
      | none => rest
      | e => e
    | _ => some .unsupportedType
  else if key = opExists || (cmpOp key .nil .nil).isSome then rest
  else some .unsupportedOperation

theorem validateP_nil : validateP .nil = none := by
  conv => lhs; unfold validateP

theorem validateP_cons_str (key : Bytes) (value : Val) (rest : PList) :
    validateP (.cons (.str key) value rest) = validateStep key value (validateP rest) := by
  conv => lhs; unfold validateP
  rfl

theorem validateP_cons_nonstr {k : Val} (value : Val) (rest : PList) (h : ∀ key, k ≠ .str key) :
    validateP (.cons k value rest) = some .unsupportedType := by
  cases k with
  | str key => exact absurd rfl (h key)
  | _ => conv => lhs; unfold validateP

theorem validateL_nil : validateL .nil = none := by
  conv => lhs; unfold validateL

theorem validateL_cons (f : Val) (fs : VList) :
    validateL (.cons f fs) = (match validate f with | none => validateL fs | e => e) := by
  conv => lhs; unfold validateL
  rfl

mutual
  theorem validate_wf : ∀ f : Val, (validate f).isNone = wf f
    | .map ps => by rw [validate_map, wf_map]; exact validateP_wf ps
    | .nil => by rw [validate_nonmap (by intro ps; simp)]; rfl
    | .bin _ => by rw [validate_nonmap (by intro ps; simp)]; rfl
    | .bool _ => by rw [validate_nonmap (by intro ps; simp)]; rfl
    | .err _ => by rw [validate_nonmap (by intro ps; simp)]; rfl
    | .int _ _ => by rw [validate_nonmap (by intro ps; simp)]; rfl
    | .uint _ _ => by rw [validate_nonmap (by intro ps; simp)]; rfl
    | .f32 _ => by rw [validate_nonmap (by intro ps; simp)]; rfl
    | .f64 _ => by rw [validate_nonmap (by intro ps; simp)]; rfl
    | .str _ => by rw [validate_nonmap (by intro ps; simp)]; rfl
    | .slice _ => by rw [validate_nonmap (by intro ps; simp)]; rfl
  theorem validateP_wf : ∀ ps : PList, (validateP ps).isNone = wfP ps
    | .nil => by rw [validateP_nil, wfP_nil]; rfl
    | .cons k v rest => by
      have ihr := validateP_wf rest
      rw [wfP_cons]
      cases k with
      | str key =>
        rw [validateP_cons_str]
        unfold validateStep wfEntry
        by_cases hd : dollar key = true
        · simp only [hd, Bool.not_true, Bool.false_eq_true, if_false]
          by_cases ha : (key = opAnd || key = opOr) = true
          · simp only [ha, if_true]
            cases v with
            | slice xs =>
              have := validateL_wf xs
              simp only
              cases hv : validateL xs <;> simp [hv] at this ⊢ <;> simp [this, ihr]
            | _ => simp
          · simp only [ha, Bool.false_eq_true, if_false]
            by_cases hc : (decide (key = opExists) || (cmpOp key .nil .nil).isSome) = true
            · simp [hc, ihr]
            · simp [hc]
        · simp only [Bool.not_eq_true] at hd
          simp only [hd, Bool.not_false, if_true]
          have := validate_wf v
          cases hv : validate v <;> simp [hv] at this ⊢ <;> simp [this, ihr]
      | _ => rw [validateP_cons_nonstr _ _ (by intro key; simp)]; simp [wfEntry]
  theorem validateL_wf : ∀ xs : VList, (validateL xs).isNone = wfL xs
    | .nil => by rw [validateL_nil, wfL_nil]; rfl
    | .cons f fs => by
      rw [validateL_cons, wfL_cons]
      have := validate_wf f
      have ih := validateL_wf fs
      cases hv : validate f <;> simp [hv] at this ⊢ <;> simp [this, ih]
end

end Uniflow.Store
