/-
C02, joint model, nodes with SEVERAL in-ports (many-to-one), part 1: the node's log invariant per forward thread /
in-reader (`NLt`: thread `i` serves reader `i`; owner tag `n*64+i`), the frame lemma for the threads that do not
take part in a step, and the steps `deliver` and `Read` – a many-to-one `Read` that does not complete a group
goes straight to the echo program `Write(nil, in)`.
-/
import Uniflow.Proofs.FlowH4

namespace Uniflow.FlowM
open Uniflow.Tracer Uniflow.Node Uniflow.Flow Uniflow.FlowInv Uniflow.FlowG Uniflow.ATracer Uniflow.FlowH

/-- forward thread `i` of node `n` (serving in-reader `i`) agrees with the ghost log -/
structure NLt (lg : Log) (n : Nat) (i : Rid) (th : Thread) (a : A) : Prop where
  inb : ∀ p ∈ th.inbox, Unlogged lg p.id ∧ aget lg.owner p.id = some (n * 64 + i)
  own : ∀ x ∈ a.reqs, x.r = i → aget lg.owner x.p = some (n * 64 + i)
  req : ∀ x ∈ a.reqs, x.r = i → ReqB lg n th.pc x
  nz : ∀ x ∈ a.reqs, x.r = i → x.st = .cells [] →
    remFor th.pc x.p ≠ [] ∨ (∃ pk grp, th.pc = .action pk grp ∧ pk.id = x.p) ∨
    ∃ w q, (th.pc = .emit [.write w q] ∨ th.pc = .emit [.link x.p x.p, .write w q]) ∧ q.id = x.p
  wb : wOK th.pc

/-- every forward thread of the node agrees with the ghost log -/
def NLm (lg : Log) (n : Nat) (nd : Node) (a : A) : Prop :=
  ∀ i th, getThread nd.threads i = some th → NLt lg n i th a

/-- the ids thread `i`'s invariant speaks about -/
def nlIdsT (i : Rid) (th : Thread) (a : A) : List Pid :=
  th.inbox.map (·.id) ++ (a.reqs.filter (fun x => x.r = i)).map (·.p) ++
    (a.reqs.filter (fun x => x.r = i)).flatMap (fun x => linkedIds (cellsOfSt x.st)) ++
    (a.reqs.filter (fun x => x.r = i)).flatMap (fun x => remFor th.pc x.p)

/-- a thread that takes no part in a step: its requests are still there (possibly fewer: nothing of it is touched),
the log changes at a key it does not speak about -/
theorem nlt_frame (lg lg' : Log) (k : Pid) (t : Tr lg lg' k) (n : Nat) (j : Rid) (th : Thread) (a a' : A)
    (h : NLt lg n j th a) (hreq : ∀ y ∈ a'.reqs, y.r = j → y ∈ a.reqs)
    (hk : k ∉ nlIdsT j th a) (ho : ∀ id ∈ nlIdsT j th a, aget lg'.owner id = aget lg.owner id) :
    NLt lg' n j th a' := by
  have mem1 : ∀ p ∈ th.inbox, p.id ∈ nlIdsT j th a := fun p hp => by
    simp only [nlIdsT, List.mem_append]; left; left; left; exact List.mem_map_of_mem hp
  have mem2 : ∀ x ∈ a.reqs, x.r = j → x.p ∈ nlIdsT j th a := fun x hx hr => by
    simp only [nlIdsT, List.mem_append]; left; left; right
    exact List.mem_map_of_mem (List.mem_filter.mpr ⟨hx, by simp [hr]⟩)
  have mem3 : ∀ x ∈ a.reqs, x.r = j → ∀ q ∈ linkedIds (cellsOfSt x.st), q ∈ nlIdsT j th a := fun x hx hr q hq => by
    simp only [nlIdsT, List.mem_append]; left; right
    exact List.mem_flatMap.mpr ⟨x, List.mem_filter.mpr ⟨hx, by simp [hr]⟩, hq⟩
  have mem4 : ∀ x ∈ a.reqs, x.r = j → ∀ q ∈ remFor th.pc x.p, q ∈ nlIdsT j th a := fun x hx hr q hq => by
    simp only [nlIdsT, List.mem_append]; right
    exact List.mem_flatMap.mpr ⟨x, List.mem_filter.mpr ⟨hx, by simp [hr]⟩, hq⟩
  refine ⟨?_, ?_, ?_, ?_, h.wb⟩
  · intro p hp
    obtain ⟨u, o⟩ := h.inb p hp
    exact ⟨t.unl p.id (fun e => hk (e ▸ mem1 p hp)) u, by rw [ho _ (mem1 p hp)]; exact o⟩
  · intro x hx hr
    have hx0 := hreq x hx hr
    rw [ho _ (mem2 x hx0 hr)]; exact h.own x hx0 hr
  · intro x hx hr
    have hx0 := hreq x hx hr
    apply reqB_tr lg lg' k t n th.pc th.pc x rfl (fun e => hk (e ▸ mem2 x hx0 hr)) _ _ (h.req x hx0 hr)
    · intro q hq; exact ⟨fun e => hk (e ▸ mem3 x hx0 hr q hq), ho _ (mem3 x hx0 hr q hq)⟩
    · intro q hq; exact ⟨fun e => hk (e ▸ mem4 x hx0 hr q hq), ho _ (mem4 x hx0 hr q hq)⟩
  · intro x hx hr hst
    exact h.nz x (hreq x hx hr) hr hst

/-- a copy is delivered to in-port `i` -/
theorem nlt_deliver (lg : Log) (n : Nat) (i : Rid) (th : Thread) (a : A) (h : NLt lg n i th a) (c : Pid) (v : Val)
    (hu : Unlogged lg c) (ho : aget lg.owner c = some (n * 64 + i)) :
    NLt lg n i { th with inbox := th.inbox ++ [⟨c, v⟩] } a := by
  refine ⟨?_, h.own, h.req, h.nz, h.wb⟩
  intro p hp
  simp only [List.mem_append, List.mem_singleton] at hp
  rcases hp with hp | hp
  · exact h.inb p hp
  · subst hp; exact ⟨hu, ho⟩

/-- `Read` on reader `i`: the request enters the tracer; the thread enters the action (`pc' = action`) or – a
many-to-one read that does not complete a group – the echo program (`pc' = emit [Write(nil, in)]`) -/
theorem nlt_read (lg : Log) (n : Nat) (i : Rid) (a : A) (p : Pkt) (rest : List Pkt) (pc' : PC)
    (hpc : (∃ g, pc' = .action p g) ∨ pc' = .emit [.write none p])
    (h : NLt lg n i { inbox := p :: rest, pc := .idle } a) :
    NLt lg n i { inbox := rest, pc := pc' } (aread a i p.id) := by
  obtain ⟨hu, ho⟩ := h.inb p (by simp)
  have hrem : ∀ p', remFor pc' p' = [] := by
    intro p'; rcases hpc with ⟨g, e⟩ | e <;> subst e <;> rfl
  refine ⟨fun q hq => h.inb q (by simp [hq]), ?_, ?_, ?_, ?_⟩
  · intro x hx hr
    simp only [aread, List.mem_append, List.mem_singleton] at hx
    rcases hx with hx | hx
    · exact h.own x hx hr
    · subst hx; exact ho
  · intro x hx hr
    simp only [aread, List.mem_append, List.mem_singleton] at hx
    rcases hx with hx | hx
    · rcases h.req x hx hr with this | ⟨v, e1, e2, _⟩
      · left
        simp only [ReqA, hrem] at this ⊢
        simpa [remFor] using this
      · exact Or.inr ⟨v, e1, e2, hrem _⟩
    · subst hx
      left
      simp only [ReqA, hrem]
      exact ⟨[], trivial, by simpa [optl] using hu.1, hu.2.2.1, hu.2.2.2, hu.2.1, by simp, by simp⟩
  · intro x hx hr hst
    simp only [aread, List.mem_append, List.mem_singleton] at hx
    rcases hx with hx | hx
    · rcases h.nz x hx hr hst with e | ⟨pk, grp, e, _⟩ | ⟨w, q, e | e, _⟩
      · simp [remFor] at e
      · cases e
      · cases e
      · cases e
    · subst hx
      rcases hpc with ⟨g, e⟩ | e
      · exact Or.inr (Or.inl ⟨p, g, e, rfl⟩)
      · exact Or.inr (Or.inr ⟨none, p, Or.inl e, rfl⟩)
  · rcases hpc with ⟨g, e⟩ | e <;> subst e
    · trivial
    · intro w q hm; simp at hm

end Uniflow.FlowM
