/-
Helper lemmas for C09 about `Uniflow.Runtime` (model of pkg/runtime/runtime.go):
association-list maps, `least` / `resolve` / `bindEnv`, the two loops of `Load`.
-/
import Uniflow.Model.Runtime

namespace Uniflow.Runtime
open Keyed

/-! ### association lists -/

section Assoc
variable {α : Type} [Keyed α]

theorem lookup_key {l : List α} {i : Nat} {a : α} (h : lookup l i = some a) : key a = i := by
  have := List.find?_some h
  simpa using this

theorem lookup_mem {l : List α} {i : Nat} {a : α} (h : lookup l i = some a) : a ∈ l :=
  List.mem_of_find?_eq_some h

theorem lookup_cons (a : α) (l : List α) (j : Nat) :
    lookup (a :: l) j = if key a = j then some a else lookup l j := by
  unfold lookup
  rw [List.find?_cons]
  by_cases h : key a = j
  · simp [h]
  · have hb : (key a == j) = false := by simp [h]
    simp [h, hb]

theorem lookup_erase (l : List α) (i j : Nat) :
    lookup (erase l i) j = if j = i then none else lookup l j := by
  induction l with
  | nil => simp [erase, lookup]
  | cons a l ih =>
    by_cases hai : key a = i
    · have : erase (a :: l) i = erase l i := by simp [erase, hai]
      rw [this, ih, lookup_cons]
      by_cases hj : j = i
      · simp [hj]
      · have : ¬ key a = j := by rw [hai]; exact fun e => hj e.symm
        simp [hj, this]
    · have : erase (a :: l) i = a :: erase l i := by simp [erase, hai]
      rw [this, lookup_cons, ih, lookup_cons]
      by_cases haj : key a = j
      · have : ¬ j = i := by rw [← haj]; exact hai
        simp [haj, this]
      · simp [haj]

theorem lookup_put (l : List α) (a : α) (j : Nat) :
    lookup (put l a) j = if key a = j then some a else lookup l j := by
  unfold put
  rw [lookup_cons, lookup_erase]
  by_cases h : key a = j
  · simp [h]
  · have : ¬ j = key a := fun e => h e.symm
    simp [h, this]

theorem mem_enum {l : List α} {a : α} : a ∈ enum l ↔ lookup l (key a) = some a := by
  unfold enum
  rw [List.mem_filterMap]
  constructor
  · rintro ⟨i, _, hi⟩
    have := lookup_key hi
    rw [this]; exact hi
  · intro h
    exact ⟨key a, List.mem_map_of_mem (lookup_mem h), h⟩

end Assoc

/-! ### `least` -/

theorem least_none {l : List Value} : least l = none ↔ l = [] := by
  cases l with
  | nil => simp [least]
  | cons v vs =>
    simp only [least]
    cases least vs with
    | none => simp
    | some u => by_cases h : v.id ≤ u.id <;> simp [h]

theorem least_mem {l : List Value} {v : Value} (h : least l = some v) : v ∈ l := by
  induction l generalizing v with
  | nil => simp [least] at h
  | cons a l ih =>
    simp only [least] at h
    cases hl : least l with
    | none => rw [hl] at h; simp at h; simp [h]
    | some u =>
      rw [hl] at h
      by_cases hc : a.id ≤ u.id
      · simp [hc] at h; simp [h]
      · simp [hc] at h
        subst h
        exact List.mem_cons_of_mem _ (ih hl)

theorem least_le {l : List Value} {v : Value} (h : least l = some v) : ∀ u ∈ l, v.id ≤ u.id := by
  induction l generalizing v with
  | nil => intro u hu; cases hu
  | cons a l ih =>
    simp only [least] at h
    intro u hu
    cases hl : least l with
    | none =>
      rw [hl] at h
      have hnil := least_none.mp hl
      subst hnil
      simp at h hu
      subst h; subst hu
      exact Nat.le_refl _
    | some m =>
      rw [hl] at h
      have hm := ih hl
      by_cases hc : a.id ≤ m.id
      · simp [hc] at h
        subst h
        rcases List.mem_cons.mp hu with rfl | hu
        · exact Nat.le_refl _
        · exact Nat.le_trans hc (hm u hu)
      · simp [hc] at h
        subst h
        rcases List.mem_cons.mp hu with rfl | hu
        · omega
        · exact hm u hu

theorem least_eq_some {l : List Value} {v : Value}
    (inj : ∀ u ∈ l, ∀ u' ∈ l, u.id = u'.id → u = u')
    (hm : v ∈ l) (hle : ∀ u ∈ l, v.id ≤ u.id) : least l = some v := by
  cases h : least l with
  | none => rw [least_none.mp h] at hm; cases hm
  | some m =>
    have h1 := least_mem h
    have h2 := least_le h v hm
    have h3 := hle m h1
    have : m = v := inj m h1 v hm (by omega)
    rw [this]

/-! ### `resolve` over an enumerated map -/

theorem mem_cands {vs : List Value} {ns : Nat} {r : Ref} {v : Value} :
    v ∈ (enum vs).filter (r.matches ns) ↔ lookup vs v.id = some v ∧ r.matches ns v = true := by
  rw [List.mem_filter, mem_enum]
  rfl

theorem cands_inj (vs : List Value) (ns : Nat) (r : Ref) :
    ∀ u ∈ (enum vs).filter (r.matches ns), ∀ u' ∈ (enum vs).filter (r.matches ns), u.id = u'.id → u = u' := by
  intro u hu u' hu' hid
  have h1 := (mem_cands.mp hu).1
  have h2 := (mem_cands.mp hu').1
  rw [hid, h2] at h1
  exact (Option.some.inj h1).symm

/-- If `r` resolves to `v` in map `a`, `v` is still in map `b`, and every candidate of `b` is a
candidate of `a`, then `r` resolves to `v` in `b`. -/
theorem resolve_some_of {a b : List Value} {ns : Nat} {r : Ref} {v : Value}
    (h : resolve (enum a) ns r = some v) (hv : lookup b v.id = some v)
    (hsub : ∀ u, r.matches ns u = true → lookup b u.id = some u → lookup a u.id = some u) :
    resolve (enum b) ns r = some v := by
  unfold resolve at h ⊢
  have hm := mem_cands.mp (least_mem h)
  apply least_eq_some (cands_inj b ns r)
  · exact mem_cands.mpr ⟨hv, hm.2⟩
  · intro u hu
    have hu' := mem_cands.mp hu
    exact least_le h u (mem_cands.mpr ⟨hsub u hu'.2 hu'.1, hu'.2⟩)

theorem resolve_none_of {a b : List Value} {ns : Nat} {r : Ref}
    (h : resolve (enum a) ns r = none)
    (hsub : ∀ u, r.matches ns u = true → lookup b u.id = some u → lookup a u.id = some u) :
    resolve (enum b) ns r = none := by
  unfold resolve at h ⊢
  rw [least_none] at h ⊢
  apply List.eq_nil_iff_forall_not_mem.mpr
  intro u hu
  have hu' := mem_cands.mp hu
  have : u ∈ (enum a).filter (r.matches ns) := mem_cands.mpr ⟨hsub u hu'.2 hu'.1, hu'.2⟩
  rw [h] at this
  cases this

theorem resolve_congr {a b : List Value} {ns : Nat} {r : Ref}
    (h : ∀ u, r.matches ns u = true → (lookup a u.id = some u ↔ lookup b u.id = some u)) :
    resolve (enum a) ns r = resolve (enum b) ns r := by
  cases ha : resolve (enum a) ns r with
  | none => exact (resolve_none_of ha (fun u hu hb => (h u hu).mpr hb)).symm
  | some v =>
    have hm := mem_cands.mp (least_mem ha)
    exact (resolve_some_of ha ((h v hm.2).mp hm.1) (fun u hu hb => (h u hu).mpr hb)).symm

/-! ### `bindEnv` -/

theorem bindEnv_congr {A B : List Value} {ns : Nat} {es : List EnvEntry}
    (h : ∀ e ∈ es, resolve A ns e.ref = resolve B ns e.ref) : bindEnv A ns es = bindEnv B ns es := by
  induction es with
  | nil => rfl
  | cons e es ih =>
    simp only [bindEnv, bindEntry]
    rw [h e (List.mem_cons_self ..), ih (fun e' he' => h e' (List.mem_cons_of_mem _ he'))]

theorem matches_ns {r : Ref} {ns : Nat} {v : Value} (h : r.matches ns v = true) : v.ns = ns := by
  unfold Ref.matches at h
  simp only [Bool.and_eq_true, beq_iff_eq] at h
  exact h.1

/-! ### the loops of `Load` -/

theorem mem_found {st : St} {f : Filter} {s : Spec} :
    s ∈ found st f ↔ lookup st.specs s.id = some s ∧ s.ns = st.ns ∧ f.matches s.id = true := by
  unfold found
  rw [List.mem_filter, mem_enum]
  simp only [Bool.and_eq_true, beq_iff_eq]
  rfl

theorem needed_of {fd : List Spec} {s : Spec} {e : EnvEntry} {v : Value}
    (hs : s ∈ fd) (he : e ∈ s.env) (hm : e.ref.matches s.ns v = true) : needed fd v = true := by
  unfold needed
  rw [List.any_eq_true]
  refine ⟨s, hs, ?_⟩
  rw [List.any_eq_true]
  exact ⟨e, he, hm⟩

theorem compile_congr {A B : List Value} {s : Spec}
    (h : bindEnv A s.ns s.env = bindEnv B s.ns s.env) : compile A s = compile B s := by
  unfold compile
  rw [h]

theorem compile_fetched {st : St} {f : Filter} {s : Spec} (hs : s ∈ found st f) :
    compile (fetched st f) s = compile (enum st.vals) s := by
  apply compile_congr
  apply bindEnv_congr
  intro e he
  unfold resolve fetched
  rw [List.filter_filter]
  congr 1
  apply List.filter_congr
  intro v _
  by_cases hm : e.ref.matches s.ns v = true
  · simp [hm, needed_of hs he hm]
  · simp [hm]

theorem insertSym_lookup (t : List Sym) (l : List Note) (sym : Sym) (j : Nat) :
    lookup (insertSym t l sym).1 j = if sym.spec.id = j then some sym else lookup t j := by
  unfold insertSym
  exact lookup_put t sym j

theorem loop1_other (F : List Value) (ss : List Spec) (t : List Sym) (l : List Note) (i : Nat)
    (h : ∀ s ∈ ss, s.id ≠ i) : lookup (loop1 F ss (t, l)).1 i = lookup t i := by
  induction ss generalizing t l with
  | nil => rfl
  | cons s ss ih =>
    have hs : s.id ≠ i := h s (List.mem_cons_self ..)
    have hss : ∀ s ∈ ss, s.id ≠ i := fun s' h' => h s' (List.mem_cons_of_mem _ h')
    simp only [loop1]
    split
    · exact ih t l hss
    · rw [show insertSym t l (compile F s) = ((insertSym t l (compile F s)).1, (insertSym t l (compile F s)).2) from rfl,
        ih _ _ hss, insertSym_lookup]
      simp [compile, hs]

theorem loop1_at (F : List Value) (ss : List Spec) (t : List Sym) (l : List Note) (s0 : Spec)
    (hin : s0 ∈ ss) (huniq : ∀ s ∈ ss, s.id = s0.id → s = s0) :
    lookup (loop1 F ss (t, l)).1 s0.id = some (compile F s0) := by
  induction ss generalizing t l with
  | nil => cases hin
  | cons s ss ih =>
    have huniq' : ∀ s' ∈ ss, s'.id = s0.id → s' = s0 := fun s' h' => huniq s' (List.mem_cons_of_mem _ h')
    simp only [loop1]
    by_cases hin' : s0 ∈ ss
    · split
      · exact ih t l hin' huniq'
      · rw [show insertSym t l (compile F s) = ((insertSym t l (compile F s)).1, (insertSym t l (compile F s)).2) from rfl]
        exact ih _ _ hin' huniq'
    · have hs : s = s0 := by
        rcases List.mem_cons.mp hin with h | h
        · exact h.symm
        · exact absurd h hin'
      subst hs
      have hne : ∀ s' ∈ ss, s'.id ≠ s.id := by
        intro s' h' e
        exact hin' (huniq' s' h' e ▸ h')
      split
      · rename_i heq
        rw [loop1_other F ss t l s.id hne]; exact heq
      · rw [show insertSym t l (compile F s) = ((insertSym t l (compile F s)).1, (insertSym t l (compile F s)).2) from rfl,
          loop1_other F ss _ _ s.id hne, insertSym_lookup]
        simp [compile]

theorem loop1_noop (F : List Value) (ss : List Spec) (t : List Sym) (l : List Note)
    (h : ∀ s ∈ ss, lookup t s.id = some (compile F s)) : loop1 F ss (t, l) = (t, l) := by
  induction ss with
  | nil => rfl
  | cons s ss ih =>
    simp only [loop1]
    rw [if_pos (h s (List.mem_cons_self ..))]
    exact ih (fun s' h' => h s' (List.mem_cons_of_mem _ h'))

/-- The condition under which the second loop frees the symbol stored under `j`. -/
def dead (ns : Nat) (f : Filter) (fd : List Spec) (t : List Sym) (j : Nat) : Bool :=
  match lookup t j with
  | some sb => (sb.spec.ns == ns && f.matches sb.spec.id) && !(fd.any fun s => s.id == j)
  | none => false

theorem freeSym_lookup (t : List Sym) (l : List Note) (i j : Nat) :
    lookup (freeSym t l i).1 j = if j = i then none else lookup t j := by
  unfold freeSym
  cases h : lookup t i with
  | none =>
    by_cases hj : j = i
    · simp [hj, h]
    · simp [hj]
  | some sb => exact lookup_erase t i j

theorem loop2_lookup (ns : Nat) (f : Filter) (fd : List Spec) (is : List Nat) (t : List Sym) (l : List Note)
    (j : Nat) :
    lookup (loop2 ns f fd is (t, l)).1 j = if j ∈ is ∧ dead ns f fd t j = true then none else lookup t j := by
  induction is generalizing t l with
  | nil => simp [loop2]
  | cons i is ih =>
    simp only [loop2]
    cases hi : lookup t i with
    | none =>
      simp only []
      rw [ih]
      by_cases hji : j = i
      · subst hji
        simp [dead, hi]
      · simp [hji]
    | some sb =>
      simp only []
      split
      · rename_i hc
        rw [show freeSym t l i = ((freeSym t l i).1, (freeSym t l i).2) from rfl, ih]
        by_cases hji : j = i
        · subst hji
          have hd : dead ns f fd t j = true := by simp only [dead, hi]; exact hc
          have : lookup (freeSym t l j).1 j = none := by rw [freeSym_lookup]; simp
          simp [hd, this]
        · have h1 : lookup (freeSym t l i).1 j = lookup t j := by rw [freeSym_lookup]; simp [hji]
          have h2 : dead ns f fd (freeSym t l i).1 j = dead ns f fd t j := by simp only [dead, h1]
          rw [h1, h2]
          simp [hji]
      · rename_i hc
        rw [ih]
        by_cases hji : j = i
        · subst hji
          have hd : dead ns f fd t j = false := by
            simp only [dead, hi]
            cases hx : ((sb.spec.ns == ns && f.matches sb.spec.id) && !(fd.any fun s => s.id == j)) with
            | true => exact absurd hx hc
            | false => rfl
          simp [hd]
        · simp [hji]

theorem loop2_noop (ns : Nat) (f : Filter) (fd : List Spec) (is : List Nat) (t : List Sym) (l : List Note)
    (h : ∀ j ∈ is, dead ns f fd t j = false) : loop2 ns f fd is (t, l) = (t, l) := by
  induction is with
  | nil => rfl
  | cons i is ih =>
    have hi := h i (List.mem_cons_self ..)
    have his : ∀ j ∈ is, dead ns f fd t j = false := fun j hj => h j (List.mem_cons_of_mem _ hj)
    simp only [loop2]
    cases hl : lookup t i with
    | none => exact ih his
    | some sb =>
      simp only []
      simp only [dead, hl] at hi
      rw [if_neg (by rw [hi]; simp)]
      exact ih his

/-! ### `Load` as a whole -/

/-- Every symbol of the table belongs to the runtime's namespace (it came out of `Find`). -/
def TabNs (st : St) : Prop := ∀ i sb, lookup st.table i = some sb → sb.spec.ns = st.ns

theorem target_some {st : St} {i : Nat} {sb : Sym} (h : st.target i = some sb) :
    ∃ s, lookup st.specs i = some s ∧ s.ns = st.ns ∧ sb = compile (enum st.vals) s := by
  unfold St.target targetAt at h
  cases hs : lookup st.specs i with
  | none => simp [hs] at h
  | some s =>
    simp only [hs] at h
    by_cases hn : s.ns = st.ns
    · simp [hn] at h; exact ⟨s, rfl, hn, h.symm⟩
    · simp [hn] at h

theorem load_table (st : St) (f : Filter) (hns : TabNs st) (i : Nat) :
    lookup (load st f).table i = if f.matches i = true then st.target i else lookup st.table i := by
  unfold load
  simp only []
  rw [show loop1 (fetched st f) (found st f) (st.table, st.log) =
      ((loop1 (fetched st f) (found st f) (st.table, st.log)).1, (loop1 (fetched st f) (found st f) (st.table, st.log)).2) from rfl,
    loop2_lookup]
  -- what the first loop leaves under i
  by_cases hfound : ∃ s, lookup st.specs i = some s ∧ s.ns = st.ns ∧ f.matches i = true
  · obtain ⟨s, hs, hn, hf⟩ := hfound
    have hid : s.id = i := lookup_key hs
    have hin : s ∈ found st f := mem_found.mpr ⟨by rw [hid]; exact hs, hn, by rw [hid]; exact hf⟩
    have huniq : ∀ s' ∈ found st f, s'.id = s.id → s' = s := by
      intro s' hs' e
      have h1 := (mem_found.mp hs').1
      rw [e, hid, hs] at h1
      exact (Option.some.inj h1).symm
    have h1 := loop1_at (fetched st f) (found st f) st.table st.log s hin huniq
    rw [hid, compile_fetched hin] at h1
    have hd : dead st.ns f (found st f) (loop1 (fetched st f) (found st f) (st.table, st.log)).1 i = false := by
      simp only [dead, h1]
      have : (found st f).any (fun s => s.id == i) = true := by
        rw [List.any_eq_true]; exact ⟨s, hin, by simp [hid]⟩
      simp [this]
    rw [hd, h1]
    simp [hf, St.target, targetAt, hs, hn]
  · have hno : ∀ s ∈ found st f, s.id ≠ i := by
      intro s hs e
      have := mem_found.mp hs
      exact hfound ⟨s, by rw [← e]; exact this.1, this.2.1, by rw [← e]; exact this.2.2⟩
    have h1 := loop1_other (fetched st f) (found st f) st.table st.log i hno
    have hany : (found st f).any (fun s => s.id == i) = false := by
      rw [List.any_eq_false]
      intro s hs
      simp [hno s hs]
    by_cases hf : f.matches i = true
    · have htarget : st.target i = none := by
        unfold St.target targetAt
        cases hs : lookup st.specs i with
        | none => rfl
        | some s =>
          simp only []
          by_cases hn : s.ns = st.ns
          · exact absurd ⟨s, hs, hn, hf⟩ hfound
          · simp [hn]
      rw [hf, htarget]
      cases ht : lookup st.table i with
      | none =>
        rw [ht] at h1
        simp [h1]
      | some sb =>
        rw [ht] at h1
        have hk : sb.spec.id = i := lookup_key ht
        have hd : dead st.ns f (found st f) (loop1 (fetched st f) (found st f) (st.table, st.log)).1 i = true := by
          simp only [dead, h1]
          simp [hns i sb ht, hk, hf, hany]
        have hmem : i ∈ (loop1 (fetched st f) (found st f) (st.table, st.log)).1.map key :=
          hk ▸ List.mem_map_of_mem (lookup_mem h1)
        simp [hd, hmem]
    · have hd : dead st.ns f (found st f) (loop1 (fetched st f) (found st f) (st.table, st.log)).1 i = false := by
        simp only [dead, h1]
        cases ht : lookup st.table i with
        | none => rfl
        | some sb =>
          have hk : sb.spec.id = i := lookup_key ht
          simp only []
          rw [hk]
          simp [hf]
      rw [hd, h1]
      simp [hf]

theorem load_noop (st : St) (f : Filter)
    (h : ∀ i, f.matches i = true → lookup st.table i = st.target i) : load st f = st := by
  have h1 : loop1 (fetched st f) (found st f) (st.table, st.log) = (st.table, st.log) := by
    apply loop1_noop
    intro s hs
    have hm := mem_found.mp hs
    rw [h s.id hm.2.2, compile_fetched hs]
    simp [St.target, targetAt, hm.1, hm.2.1]
  have h2 : loop2 st.ns f (found st f) (st.table.map key) (st.table, st.log) = (st.table, st.log) := by
    apply loop2_noop
    intro j _
    simp only [dead]
    cases ht : lookup st.table j with
    | none => rfl
    | some sb =>
      simp only []
      have hk : sb.spec.id = j := lookup_key ht
      by_cases hf : f.matches j = true
      · have := h j hf
        rw [ht] at this
        obtain ⟨s, hs, hn, _⟩ := target_some this.symm
        have hid : s.id = j := lookup_key hs
        have hin : s ∈ found st f := mem_found.mpr ⟨by rw [hid]; exact hs, hn, by rw [hid]; exact hf⟩
        have : (found st f).any (fun s => s.id == j) = true := by
          rw [List.any_eq_true]; exact ⟨s, hin, by simp [hid]⟩
        simp [this]
      · rw [hk]; simp [hf]
  unfold load
  simp only []
  rw [h1]
  simp only []
  rw [h2]

theorem load_fields (st : St) (f : Filter) :
    (load st f).ns = st.ns ∧ (load st f).specs = st.specs ∧ (load st f).vals = st.vals ∧
    (load st f).watching = st.watching ∧ (load st f).specEv = st.specEv ∧ (load st f).valEv = st.valEv := by
  simp [load]

theorem load_tabNs (st : St) (f : Filter) (hns : TabNs st) : TabNs (load st f) := by
  intro i sb h
  rw [load_table st f hns] at h
  rw [(load_fields st f).1]
  by_cases hf : f.matches i = true
  · rw [if_pos hf] at h
    obtain ⟨s, _, hn, rfl⟩ := target_some h
    exact hn
  · rw [if_neg hf] at h
    exact hns i sb h

/-! ### a value event that does not select a symbol cannot change what the symbol is bound to -/

/-- `b` is the map `a` with the entry of `w` replaced by the current one (`cur`). -/
def Patched (a b : List Value) (w : Nat) (cur : Option Value) : Prop :=
  ∀ k, lookup b k = if k = w then cur else lookup a k

def probesOf (cur : Option Value) (w : Nat) : List Probe :=
  (match cur with
    | some v => [v.probe]
    | none => []) ++ [⟨w, none, none⟩]

theorem probes_eq (vals : List Value) (w : Nat) : probes vals w = probesOf (lookup vals w) w := rfl

theorem hit_false_pseudo {ns : Nat} {cur : Option Value} {w : Nat} {oid onm}
    (h : hit ns (probesOf cur w) oid onm = false) : oid ≠ some w := by
  intro e
  subst e
  unfold hit probesOf at h
  rw [List.any_eq_false] at h
  have := h ⟨w, none, none⟩ (by simp)
  simp at this

theorem hit_false_cur {ns : Nat} {u : Value} {w : Nat} {oid onm}
    (h : hit ns (probesOf (some u) w) oid onm = false) :
    oid ≠ some u.id ∧ ¬ (u.ns = ns ∧ ∃ n, onm = some n ∧ u.name = some n) := by
  unfold hit probesOf at h
  rw [List.any_eq_false] at h
  have := h u.probe (by simp)
  simp only [Value.probe, Bool.or_eq_true, not_or] at this
  constructor
  · intro e; subst e; simp at this
  · rintro ⟨hns, n, hn, hun⟩
    subst hn
    simp [hns, hun] at this

/-- Entry-level core: a resolved entry whose bound form is not hit keeps its resolution. -/
theorem resolve_patched_some {a b : List Value} {w : Nat} {cur : Option Value} {ns : Nat} {r : Ref} {v : Value}
    (hp : Patched a b w cur)
    (h : resolve (enum a) ns r = some v)
    (hh : hit ns (probesOf cur w) (some v.id) v.name = false) :
    resolve (enum b) ns r = some v := by
  have hm := mem_cands.mp (least_mem h)
  have hvw : v.id ≠ w := fun e => hit_false_pseudo hh (by rw [e])
  apply resolve_some_of h
  · rw [hp v.id]; simp [hvw, hm.1]
  · intro u hu hb
    rw [hp u.id] at hb
    by_cases huw : u.id = w
    · rw [if_pos huw] at hb
      exfalso
      rw [hb] at hh
      have hc := hit_false_cur hh
      have hmv := hm.2
      unfold Ref.matches at hu hmv
      cases r with
      | id i =>
        simp only [Bool.and_eq_true, beq_iff_eq] at hu hmv
        exact hc.1 (by rw [hmv.2, hu.2])
      | name n =>
        simp only [Bool.and_eq_true, beq_iff_eq] at hu hmv
        exact hc.2 ⟨hu.1, n, hmv.2, hu.2⟩
    · rw [if_neg huw] at hb; exact hb

theorem resolve_patched_none {a b : List Value} {w : Nat} {cur : Option Value} {ns : Nat} {e : EnvEntry}
    (hp : Patched a b w cur)
    (h : resolve (enum a) ns e.ref = none)
    (hh : hitRef ns (probesOf cur w) e = false) :
    resolve (enum b) ns e.ref = none := by
  apply resolve_none_of h
  intro u hu hb
  rw [hp u.id] at hb
  by_cases huw : u.id = w
  · rw [if_pos huw] at hb
    exfalso
    unfold hitRef at hh
    unfold Ref.matches at hu
    cases hr : e.ref with
    | id i =>
      rw [hr] at hh hu
      simp only [Bool.and_eq_true, beq_iff_eq] at hu
      exact hit_false_pseudo hh (by rw [← hu.2, huw])
    | name n =>
      rw [hr] at hh hu
      simp only [Bool.and_eq_true, beq_iff_eq] at hu
      rw [hb] at hh
      exact (hit_false_cur hh).2 ⟨hu.1, n, rfl, hu.2⟩
  · rw [if_neg huw] at hb; exact hb

theorem bindEnv_patched_some {a b : List Value} {w : Nat} {cur : Option Value} {ns : Nat}
    (hp : Patched a b w cur)
    (es : List EnvEntry) (bs : List Bound)
    (h : bindEnv (enum a) ns es = some bs)
    (hh : ∀ x ∈ bs, hitBound ns (probesOf cur w) x = false) :
    bindEnv (enum b) ns es = some bs := by
  induction es generalizing bs with
  | nil => simpa [bindEnv] using h
  | cons e es ih =>
    simp only [bindEnv, bindEntry] at h ⊢
    cases hr : resolve (enum a) ns e.ref with
    | none => simp [hr] at h
    | some v =>
      cases hb : bindEnv (enum a) ns es with
      | none => simp [hr, hb] at h
      | some bs' =>
        simp only [hr, hb] at h
        injection h with h
        subst h
        have h1 := resolve_patched_some hp hr (hh _ (List.mem_cons_self ..))
        have h2 := ih bs' hb (fun x hx => hh x (List.mem_cons_of_mem _ hx))
        simp [h1, h2]

theorem bindEnv_patched_none {a b : List Value} {w : Nat} {cur : Option Value} {ns : Nat}
    (hp : Patched a b w cur)
    (es : List EnvEntry)
    (h : bindEnv (enum a) ns es = none)
    (hh : ∀ e ∈ es, hitRef ns (probesOf cur w) e = false) :
    bindEnv (enum b) ns es = none := by
  induction es with
  | nil => simp [bindEnv] at h
  | cons e es ih =>
    simp only [bindEnv, bindEntry] at h ⊢
    cases hr : resolve (enum a) ns e.ref with
    | none =>
      have h1 := resolve_patched_none hp hr (hh e (List.mem_cons_self ..))
      simp [h1]
    | some v =>
      cases hb : bindEnv (enum a) ns es with
      | none =>
        have h2 := ih hb (fun e' he' => hh e' (List.mem_cons_of_mem _ he'))
        rw [h2]
        split <;> simp_all
      | some bs' => simp [hr, hb] at h

/-- A symbol compiled against `a` that the value consumer does not select for `w` is also what
compiling against the patched map gives. -/
theorem compile_patched {a b : List Value} {w : Nat} {cur : Option Value} (s : Spec)
    (hp : Patched a b w cur)
    (hsel : isBound (compile (enum a) s) (probesOf cur w) = false) :
    compile (enum b) s = compile (enum a) s := by
  apply compile_congr
  unfold compile isBound at hsel
  cases hb : bindEnv (enum a) s.ns s.env with
  | none =>
    simp only [hb] at hsel
    rw [List.any_eq_false] at hsel
    exact bindEnv_patched_none hp s.env hb (fun e he => by simpa using hsel e he)
  | some bs =>
    simp only [hb] at hsel
    rw [List.any_eq_false] at hsel
    exact bindEnv_patched_some hp s.env bs hb (fun x hx => by simpa using hsel x hx)

/-! ### the convergence invariant -/

/-- The part of a value-store entry that matters to a runtime of namespace `ns`. -/
def rel (ns : Nat) (o : Option Value) : Option Value :=
  match o with
  | some v => if v.ns = ns then some v else none
  | none => none

/-- Two value maps agree (as far as namespace `ns` can see) outside the ids in `D`. -/
def Agree (D : List Nat) (ns : Nat) (a b : List Value) : Prop :=
  ∀ k, k ∉ D → rel ns (lookup a k) = rel ns (lookup b k)

/-- Every id without a pending spec event holds exactly what the stores demanded at some moment
whose value store differs from the current one only in values that have a pending event. -/
def Cov (st : St) : Prop :=
  ∀ j, j ∉ st.specEv → ∃ vals0, Agree st.valEv st.ns vals0 st.vals ∧
    lookup st.table j = targetAt st.specs vals0 st.ns j

def Good (st : St) : Prop := st.watching = true ∧ TabNs st ∧ Cov st

theorem rel_iff {ns : Nat} {x y : Option Value} (h : rel ns x = rel ns y) {v : Value} (hv : v.ns = ns) :
    x = some v ↔ y = some v := by
  unfold rel at h
  cases x with
  | none =>
    cases y with
    | none => simp
    | some b =>
      by_cases hb : b.ns = ns
      · simp [hb] at h
      · simp only [hb, if_false] at h
        constructor
        · intro e; cases e
        · intro e; injection e with e; subst e; exact absurd hv hb
  | some a =>
    cases y with
    | none =>
      by_cases ha : a.ns = ns
      · simp [ha] at h
      · constructor
        · intro e; injection e with e; subst e; exact absurd hv ha
        · intro e; cases e
    | some b =>
      by_cases ha : a.ns = ns <;> by_cases hb : b.ns = ns
      · simp [ha, hb] at h; subst h; rfl
      · simp [ha, hb] at h
      · simp [ha, hb] at h
      · constructor
        · intro e; injection e with e; subst e; exact absurd hv ha
        · intro e; injection e with e; subst e; exact absurd hv hb

theorem compile_agree {a b : List Value} (s : Spec)
    (h : ∀ k, rel s.ns (lookup a k) = rel s.ns (lookup b k)) :
    compile (enum a) s = compile (enum b) s := by
  apply compile_congr
  apply bindEnv_congr
  intro e _
  apply resolve_congr
  intro u hu
  exact rel_iff (h u.id) (matches_ns hu)

theorem targetAt_agree {specs : List Spec} {a b : List Value} {ns : Nat}
    (h : ∀ k, rel ns (lookup a k) = rel ns (lookup b k)) (j : Nat) :
    targetAt specs a ns j = targetAt specs b ns j := by
  unfold targetAt
  cases lookup specs j with
  | none => rfl
  | some s =>
    simp only []
    by_cases hn : s.ns = ns
    · simp only [hn, if_true]
      rw [compile_agree s (by rw [hn]; exact h)]
    · simp [hn]

/-- At quiescence the invariant is the statement. -/
theorem cov_quiescent {st : St} (h : Cov st) (h1 : st.specEv = []) (h2 : st.valEv = []) (j : Nat) :
    lookup st.table j = st.target j := by
  obtain ⟨vals0, ha, ht⟩ := h j (by rw [h1]; exact List.not_mem_nil)
  rw [ht]
  exact targetAt_agree (fun k => ha k (by rw [h2]; exact List.not_mem_nil)) j

/-- A change of the spec store at id `i` that either queues an event for `i` or is invisible to
the runtime's namespace. -/
theorem cov_spec_change {st : St} (specs' : List Spec) (ev' : List Nat) (i : Nat)
    (hev : ∀ j, j ∉ ev' → j ∉ st.specEv)
    (hother : ∀ j, j ≠ i → lookup specs' j = lookup st.specs j)
    (hi : i ∉ ev' → ∀ vs, targetAt specs' vs st.ns i = targetAt st.specs vs st.ns i)
    (h : Cov st) : Cov { st with specs := specs', specEv := ev' } := by
  intro j hj
  obtain ⟨vals0, ha, ht⟩ := h j (hev j hj)
  refine ⟨vals0, ha, ?_⟩
  show lookup st.table j = targetAt specs' vals0 st.ns j
  rw [ht]
  by_cases hji : j = i
  · subst hji; exact (hi hj vals0).symm
  · unfold targetAt; rw [hother j hji]

/-- A change of the value store at id `w` that either queues an event for `w` or is invisible to
the runtime's namespace. -/
theorem cov_val_change {st : St} (vals' : List Value) (ev' : List Nat) (w : Nat)
    (hev : ∀ k, k ∉ ev' → k ∉ st.valEv)
    (hother : ∀ k, k ≠ w → lookup vals' k = lookup st.vals k)
    (hw : w ∉ ev' → rel st.ns (lookup vals' w) = rel st.ns (lookup st.vals w))
    (h : Cov st) : Cov { st with vals := vals', valEv := ev' } := by
  intro j hj
  obtain ⟨vals0, ha, ht⟩ := h j hj
  refine ⟨vals0, ?_, ht⟩
  intro k hk
  show rel st.ns (lookup vals0 k) = rel st.ns (lookup vals' k)
  rw [ha k (hev k hk)]
  by_cases hkw : k = w
  · subst hkw; exact (hw hk).symm
  · rw [hother k hkw]

theorem cov_load {st : St} (f : Filter) (hns : TabNs st)
    (h : ∀ j, j ∉ st.specEv → f.matches j = false → ∃ vals0, Agree st.valEv st.ns vals0 st.vals ∧
      lookup st.table j = targetAt st.specs vals0 st.ns j) : Cov (load st f) := by
  intro j hj
  obtain ⟨e1, e2, e3, _, e5, e6⟩ := load_fields st f
  rw [e5] at hj
  rw [e1, e2, e3, e6, load_table st f hns]
  by_cases hf : f.matches j = true
  · rw [if_pos hf]
    exact ⟨st.vals, fun _ _ => rfl, rfl⟩
  · rw [if_neg hf]
    exact h j hj (by simpa using hf)

theorem mem_emit {watching : Bool} {ns rns i : Nat} {ev : List Nat} (hw : watching = true) (j : Nat) :
    j ∉ (if watching && ns == rns then ev ++ [i] else ev) → j ∉ ev ∧ (j = i → ns ≠ rns) := by
  intro h
  by_cases hn : ns = rns
  · simp [hw, hn] at h
    exact ⟨h.1, fun e => absurd e h.2⟩
  · simp [hn] at h
    exact ⟨h, fun _ => hn⟩

theorem targetAt_other_ns {specs : List Spec} {vs : List Value} {ns i : Nat}
    (h : ∀ s, lookup specs i = some s → s.ns ≠ ns) : targetAt specs vs ns i = none := by
  unfold targetAt
  cases hs : lookup specs i with
  | none => rfl
  | some s => simp [h s hs]

theorem good_step_mut (st : St) (o : Op) (hg : Good st)
    (hmut : match o with
      | .insSpec _ | .updSpec _ | .delSpec _ | .insVal _ | .updVal _ | .delVal _ => True
      | _ => False) : Good (step st o).1 := by
  obtain ⟨hw, hns, hc⟩ := hg
  cases o with
  | watch => cases hmut
  | load f => cases hmut
  | consumeSpec => cases hmut
  | consumeVal => cases hmut
  | insSpec s =>
    simp only [step]
    cases hl : lookup st.specs s.id with
    | some _ => exact ⟨hw, hns, hc⟩
    | none =>
      refine ⟨hw, hns, ?_⟩
      apply cov_spec_change (put st.specs s) (emitSpec st s.ns s.id) s.id _ _ _ hc
      · intro j hj; exact (mem_emit hw j hj).1
      · intro j hj; rw [lookup_put]; simp [show ¬ key s = j from fun e => hj e.symm]
      · intro hi vs
        have hne := (mem_emit hw s.id hi).2 rfl
        rw [targetAt_other_ns (by intro s' hs'; rw [lookup_put] at hs'; simp [show key s = s.id from rfl] at hs'; subst hs'; exact hne),
          targetAt_other_ns (by intro s' hs'; rw [hl] at hs'; cases hs')]
  | updSpec s =>
    simp only [step]
    cases hl : lookup st.specs s.id with
    | none => exact ⟨hw, hns, hc⟩
    | some old =>
      simp only []
      by_cases hon : old.ns = s.ns
      · rw [if_pos hon]
        refine ⟨hw, hns, ?_⟩
        apply cov_spec_change (put st.specs s) (emitSpec st s.ns s.id) s.id _ _ _ hc
        · intro j hj; exact (mem_emit hw j hj).1
        · intro j hj; rw [lookup_put]; simp [show ¬ key s = j from fun e => hj e.symm]
        · intro hi vs
          have hne := (mem_emit hw s.id hi).2 rfl
          rw [targetAt_other_ns (by intro s' hs'; rw [lookup_put] at hs'; simp [show key s = s.id from rfl] at hs'; subst hs'; exact hne),
            targetAt_other_ns (by intro s' hs'; rw [hl] at hs'; injection hs' with hs'; subst hs'; rw [hon]; exact hne)]
      · rw [if_neg hon]; exact ⟨hw, hns, hc⟩
  | delSpec i =>
    simp only [step]
    cases hl : lookup st.specs i with
    | none => exact ⟨hw, hns, hc⟩
    | some old =>
      refine ⟨hw, hns, ?_⟩
      apply cov_spec_change (erase st.specs i) (emitSpec st old.ns i) i _ _ _ hc
      · intro j hj; exact (mem_emit hw j hj).1
      · intro j hj; rw [lookup_erase]; simp [hj]
      · intro hi vs
        have hne := (mem_emit hw i hi).2 rfl
        rw [targetAt_other_ns (by intro s' hs'; rw [lookup_erase] at hs'; simp at hs'),
          targetAt_other_ns (by intro s' hs'; rw [hl] at hs'; injection hs' with hs'; subst hs'; exact hne)]
  | insVal v =>
    simp only [step]
    cases hl : lookup st.vals v.id with
    | some _ => exact ⟨hw, hns, hc⟩
    | none =>
      refine ⟨hw, hns, ?_⟩
      apply cov_val_change (put st.vals v) (emitVal st v.ns v.id) v.id _ _ _ hc
      · intro k hk; exact (mem_emit hw k hk).1
      · intro k hk; rw [lookup_put]; simp [show ¬ key v = k from fun e => hk e.symm]
      · intro hi
        have hne := (mem_emit hw v.id hi).2 rfl
        rw [lookup_put, hl]
        simp [rel, show key v = v.id from rfl, hne]
  | updVal v =>
    simp only [step]
    cases hl : lookup st.vals v.id with
    | none => exact ⟨hw, hns, hc⟩
    | some old =>
      simp only []
      by_cases hon : old.ns = v.ns
      · rw [if_pos hon]
        refine ⟨hw, hns, ?_⟩
        apply cov_val_change (put st.vals v) (emitVal st v.ns v.id) v.id _ _ _ hc
        · intro k hk; exact (mem_emit hw k hk).1
        · intro k hk; rw [lookup_put]; simp [show ¬ key v = k from fun e => hk e.symm]
        · intro hi
          have hne := (mem_emit hw v.id hi).2 rfl
          rw [lookup_put, hl]
          simp [rel, show key v = v.id from rfl, hne, hon]
      · rw [if_neg hon]; exact ⟨hw, hns, hc⟩
  | delVal i =>
    simp only [step]
    cases hl : lookup st.vals i with
    | none => exact ⟨hw, hns, hc⟩
    | some old =>
      refine ⟨hw, hns, ?_⟩
      apply cov_val_change (erase st.vals i) (emitVal st old.ns i) i _ _ _ hc
      · intro k hk; exact (mem_emit hw k hk).1
      · intro k hk; rw [lookup_erase]; simp [hk]
      · intro hi
        have hne := (mem_emit hw i hi).2 rfl
        rw [lookup_erase, hl]
        simp [rel, hne]

theorem good_load (st : St) (f : Filter) (hg : Good st) : Good (load st f) := by
  obtain ⟨hw, hns, hc⟩ := hg
  refine ⟨by rw [(load_fields st f).2.2.2.1]; exact hw, load_tabNs st f hns, ?_⟩
  exact cov_load f hns (fun j hj _ => hc j hj)

theorem good_consumeSpec (st : St) (hg : Good st) : Good (consumeSpec st) := by
  obtain ⟨hw, hns, hc⟩ := hg
  unfold consumeSpec
  cases he : st.specEv with
  | nil => simp only []; exact ⟨hw, hns, hc⟩
  | cons i rest =>
    simp only []
    have hns1 : TabNs { st with specEv := rest } := hns
    refine ⟨by rw [(load_fields _ _).2.2.2.1]; exact hw, load_tabNs _ _ hns1, ?_⟩
    apply cov_load _ hns1
    intro j hj hf
    have hji : j ≠ i := by
      intro e; subst e
      simp [Filter.matches] at hf
    exact hc j (by rw [he]; simp [hji]; exact hj)

theorem selected_false {st : St} {w j : Nat} {sb : Sym} (hl : lookup st.table j = some sb)
    (hsel : j ∉ selected st w) : isBound sb (probes st.vals w) = false := by
  cases hb : isBound sb (probes st.vals w) with
  | false => rfl
  | true =>
    exfalso
    apply hsel
    unfold selected
    have hk : key sb = j := lookup_key hl
    rw [← hk]
    apply List.mem_map_of_mem
    rw [List.mem_filter]
    exact ⟨mem_enum.mpr (by rw [hk]; exact hl), hb⟩

/-- The map `a` with the entry of `w` replaced by the one of `vals`. -/
def patch (a vals : List Value) (w : Nat) : List Value :=
  match lookup vals w with
  | some v => put a v
  | none => erase a w

theorem patched_patch (a vals : List Value) (w : Nat) : Patched a (patch a vals w) w (lookup vals w) := by
  intro k
  unfold patch
  cases h : lookup vals w with
  | none => simp only []; rw [lookup_erase]
  | some v =>
    simp only []
    have hk : key v = w := lookup_key h
    rw [lookup_put, hk]
    by_cases hkw : k = w
    · simp [hkw]
    · simp [hkw, show ¬ w = k from fun e => hkw e.symm]

theorem good_consumeVal (st : St) (hg : Good st) : Good (consumeVal st) := by
  obtain ⟨hw, hns, hc⟩ := hg
  unfold consumeVal
  cases he : st.valEv with
  | nil => simp only []; exact ⟨hw, hns, hc⟩
  | cons w rest =>
    simp only []
    -- what the invariant says about an id the consumer does not select
    have key_fact : ∀ j, j ∉ st.specEv → j ∉ selected { st with valEv := rest } w →
        ∃ vals0, Agree rest st.ns vals0 st.vals ∧ lookup st.table j = targetAt st.specs vals0 st.ns j := by
      intro j hj hsel
      obtain ⟨vals0, ha, ht⟩ := hc j hj
      rw [he] at ha
      by_cases hwr : w ∈ rest
      · refine ⟨vals0, ?_, ht⟩
        intro k hk
        exact ha k (by simp only [List.mem_cons, not_or]; exact ⟨fun e => hk (e ▸ hwr), hk⟩)
      · refine ⟨patch vals0 st.vals w, ?_, ?_⟩
        · intro k hk
          rw [patched_patch vals0 st.vals w k]
          by_cases hkw : k = w
          · simp [hkw]
          · rw [if_neg hkw]
            exact ha k (by simp only [List.mem_cons, not_or]; exact ⟨hkw, hk⟩)
        · rw [ht]
          unfold targetAt
          cases hs : lookup st.specs j with
          | none => rfl
          | some s =>
            simp only []
            by_cases hn : s.ns = st.ns
            · simp only [hn, if_true]
              have hl : lookup st.table j = some (compile (enum vals0) s) := by
                rw [ht]; simp [targetAt, hs, hn]
              have hb := selected_false (st := { st with valEv := rest }) hl hsel
              rw [probes_eq] at hb
              rw [compile_patched s (patched_patch vals0 st.vals w) hb]
            · simp [hn]
    have hns1 : TabNs { st with valEv := rest } := hns
    split
    · rename_i hempty
      refine ⟨hw, hns1, ?_⟩
      intro j hj
      apply key_fact j hj
      have : selected { st with valEv := rest } w = [] := by simpa using hempty
      rw [this]; exact List.not_mem_nil
    · refine ⟨by rw [(load_fields _ _).2.2.2.1]; exact hw, load_tabNs _ _ hns1, ?_⟩
      apply cov_load _ hns1
      intro j hj hf
      apply key_fact j hj
      intro hin
      simp [Filter.matches, hin] at hf

/-- Histories without `watch` (which replaces the streams and forgets their pending events). -/
def NoWatch : List Op → Prop
  | [] => True
  | .watch :: _ => False
  | _ :: os => NoWatch os

theorem good_step (st : St) (o : Op) (hg : Good st) (ho : ∀ (h : o = .watch), False) : Good (step st o).1 := by
  cases o with
  | watch => exact absurd rfl (fun h => ho h)
  | load f => exact good_load st f hg
  | consumeSpec => exact good_consumeSpec st hg
  | consumeVal => exact good_consumeVal st hg
  | insSpec s => exact good_step_mut st _ hg trivial
  | updSpec s => exact good_step_mut st _ hg trivial
  | delSpec i => exact good_step_mut st _ hg trivial
  | insVal v => exact good_step_mut st _ hg trivial
  | updVal v => exact good_step_mut st _ hg trivial
  | delVal i => exact good_step_mut st _ hg trivial

theorem good_run (st : St) (os : List Op) (hg : Good st) (hn : NoWatch os) : Good (run st os) := by
  induction os generalizing st with
  | nil => exact hg
  | cons o os ih =>
    simp only [run]
    cases o with
    | watch => cases hn
    | load f => exact ih _ (good_step st _ hg (fun h => by cases h)) hn
    | consumeSpec => exact ih _ (good_step st _ hg (fun h => by cases h)) hn
    | consumeVal => exact ih _ (good_step st _ hg (fun h => by cases h)) hn
    | insSpec s => exact ih _ (good_step st _ hg (fun h => by cases h)) hn
    | updSpec s => exact ih _ (good_step st _ hg (fun h => by cases h)) hn
    | delSpec i => exact ih _ (good_step st _ hg (fun h => by cases h)) hn
    | insVal v => exact ih _ (good_step st _ hg (fun h => by cases h)) hn
    | updVal v => exact ih _ (good_step st _ hg (fun h => by cases h)) hn
    | delVal i => exact ih _ (good_step st _ hg (fun h => by cases h)) hn

end Uniflow.Runtime
