/-
Helper lemmas for C01 (`Uniflow/Props/C01.lean`): list facts about the writer model's index
arithmetic and the simulation between the index-addressed model and the id-keyed specification.
Core Lean only.
-/
import Uniflow.Model.Writer
import Uniflow.Spec.Writer

namespace Uniflow.WriterProofs
open Uniflow.Writer Uniflow.WriterSpec

/-! ### `indexOf` -/

theorem indexOf_none {r : RId} {l : List RId} : indexOf r l = none ↔ r ∉ l := by
  induction l with
  | nil => simp [indexOf]
  | cons x xs ih =>
    simp only [indexOf]
    split
    · rename_i h; simp [h]
    · rename_i h
      simp only [Option.map_eq_none_iff, ih, List.mem_cons, not_or]
      constructor
      · intro h'; exact ⟨fun e => h e.symm, h'⟩
      · intro h'; exact h'.2

theorem indexOf_lt {r : RId} {l : List RId} {i : Nat} (h : indexOf r l = some i) : i < l.length := by
  induction l generalizing i with
  | nil => simp [indexOf] at h
  | cons x xs ih =>
    simp only [indexOf] at h
    split at h
    · simp at h; simp [← h]
    · simp only [Option.map_eq_some_iff] at h
      obtain ⟨j, hj, rfl⟩ := h
      have := ih hj
      simp; omega

theorem indexOf_get {r : RId} {l : List RId} {i : Nat} (h : indexOf r l = some i) : l[i]? = some r := by
  induction l generalizing i with
  | nil => simp [indexOf] at h
  | cons x xs ih =>
    simp only [indexOf] at h
    split at h
    · rename_i hx; simp at h; simp [← h, hx]
    · simp only [Option.map_eq_some_iff] at h
      obtain ⟨j, hj, rfl⟩ := h
      simpa using ih hj

/-- `indexOf` in a prefix of a list: same index when the prefix is long enough. -/
theorem indexOf_append {r : RId} {p t : List RId} {i : Nat} (h : indexOf r (p ++ t) = some i)
    (hnd : (p ++ t).Nodup) :
    indexOf r p = if i < p.length then some i else none := by
  induction p generalizing i with
  | nil => simp [indexOf]
  | cons x xs ih =>
    simp only [List.cons_append, indexOf] at h ⊢
    split at h
    · rename_i hx
      injection h with h; subst h
      simp [hx]
    · rename_i hx
      simp only [Option.map_eq_some_iff] at h
      obtain ⟨j, hj, rfl⟩ := h
      simp only [List.cons_append, List.nodup_cons] at hnd
      rw [if_neg hx, ih hj hnd.2]
      by_cases hl : j < xs.length <;> simp [hl]

theorem indexOf_prefix {r : RId} {p l : List RId} {i : Nat} (hp : p <+: l) (h : indexOf r l = some i)
    (hnd : l.Nodup) : indexOf r p = if i < p.length then some i else none := by
  obtain ⟨t, rfl⟩ := hp
  exact indexOf_append h hnd

theorem filter_ne_eq_eraseIdx {r : RId} {l : List RId} {i : Nat} (h : indexOf r l = some i) (hnd : l.Nodup) :
    l.filter (· ≠ r) = l.eraseIdx i := by
  induction l generalizing i with
  | nil => simp [indexOf] at h
  | cons x xs ih =>
    simp only [indexOf] at h
    simp only [List.nodup_cons] at hnd
    split at h
    · rename_i hx
      simp at h; subst h; subst hx
      simp only [List.eraseIdx_zero, List.tail_cons]
      rw [List.filter_cons_of_neg (by simp)]
      apply List.filter_eq_self.2
      intro a ha; simp; intro e; exact hnd.1 (e ▸ ha)
    · rename_i hx
      simp only [Option.map_eq_some_iff] at h
      obtain ⟨j, hj, rfl⟩ := h
      rw [List.filter_cons_of_pos (by simpa using hx)]
      have := ih hj hnd.2
      simpa using this

/-! ### One row: slots (id-keyed) against cells (index-addressed) -/

abbrev Slots := List (RId × Cell)

def owesS (slots : Slots) (r : RId) : Bool := slots.any fun p => p.1 == r && p.2.isNone

/-- The model's test on one row in `indexOfHead`: the row covers column `i` and the cell is nil. -/
def cellNil (row : Row) (i : Nat) : Bool :=
  match row[i]? with
  | some none => true
  | _ => false

theorem owesS_not_mem {slots : Slots} {r : RId} (h : r ∉ slots.map Prod.fst) : owesS slots r = false := by
  induction slots with
  | nil => rfl
  | cons p ps ih =>
    simp only [List.map_cons, List.mem_cons, not_or] at h
    simp only [owesS, List.any_cons, Bool.or_eq_false_iff]
    refine ⟨?_, ih h.2⟩
    have : (p.1 == r) = false := by simpa using fun e => h.1 e.symm
    simp [this]

theorem owesS_index {slots : Slots} {r : RId} {i : Nat} (hnd : (slots.map Prod.fst).Nodup)
    (hi : indexOf r (slots.map Prod.fst) = some i) : owesS slots r = cellNil (slots.map Prod.snd) i := by
  induction slots generalizing i with
  | nil => simp [indexOf] at hi
  | cons p ps ih =>
    simp only [List.map_cons, indexOf] at hi
    simp only [List.map_cons, List.nodup_cons] at hnd
    split at hi
    · rename_i hx
      injection hi with hi; subst hi
      have hr : r ∉ ps.map Prod.fst := hx ▸ hnd.1
      have := owesS_not_mem hr
      simp only [owesS] at this
      simp only [owesS, List.any_cons, this, Bool.or_false, cellNil, List.map_cons, List.getElem?_cons_zero, hx]
      cases p.2 <;> simp
    · rename_i hx
      simp only [Option.map_eq_some_iff] at hi
      obtain ⟨j, hj, rfl⟩ := hi
      have := ih hnd.2 hj
      simp only [owesS] at this
      have hx' : (p.1 == r) = false := by simpa using hx
      simp [owesS, List.any_cons, hx', this, cellNil]

theorem owesS_none {slots : Slots} {r : RId} (hi : indexOf r (slots.map Prod.fst) = none) :
    owesS slots r = false := owesS_not_mem (indexOf_none.1 hi)

theorem cellNil_of_le {row : Row} {i : Nat} (h : row.length ≤ i) : cellNil row i = false := by
  simp [cellNil, List.getElem?_eq_none h]

/-- Filling r's slot = setting column i. -/
theorem fill_cells {slots : Slots} {r : RId} {i : Nat} (a : Fill) (hnd : (slots.map Prod.fst).Nodup)
    (hi : indexOf r (slots.map Prod.fst) = some i) :
    (slots.map fun p => if p.1 = r then (p.1, some a) else p).map Prod.snd = (slots.map Prod.snd).set i (some a) := by
  induction slots generalizing i with
  | nil => simp [indexOf] at hi
  | cons p ps ih =>
    simp only [List.map_cons, indexOf] at hi
    simp only [List.map_cons, List.nodup_cons] at hnd
    split at hi
    · rename_i hx
      injection hi with hi; subst hi
      have hr : r ∉ ps.map Prod.fst := hx ▸ hnd.1
      simp only [List.map_cons, hx, if_true, List.set_cons_zero, List.cons.injEq, true_and]
      congr 1
      refine (List.map_congr_left (g := id) ?_).trans (List.map_id ps)
      intro q hq
      have : q.1 ≠ r := fun e => hr (e ▸ List.mem_map_of_mem hq)
      simp [this]
    · rename_i hx
      simp only [Option.map_eq_some_iff] at hi
      obtain ⟨j, hj, rfl⟩ := hi
      simp [hx, ih hnd.2 hj]

theorem fill_readers (slots : Slots) (r : RId) (a : Fill) :
    (slots.map fun p => if p.1 = r then (p.1, some a) else p).map Prod.fst = slots.map Prod.fst := by
  induction slots with
  | nil => rfl
  | cons p ps ih => simp only [List.map_cons, ih]; split <;> rfl

theorem fill_owes_self (slots : Slots) (r : RId) (a : Fill) :
    owesS (slots.map fun p => if p.1 = r then (p.1, some a) else p) r = false := by
  induction slots with
  | nil => rfl
  | cons p ps ih =>
    simp only [owesS] at ih
    simp only [owesS, List.map_cons, List.any_cons, ih, Bool.or_false]
    split
    · simp
    · rename_i h; simp [h]

theorem fill_owes_other (slots : Slots) {r r' : RId} (a : Fill) (h : r' ≠ r) :
    owesS (slots.map fun p => if p.1 = r then (p.1, some a) else p) r' = owesS slots r' := by
  induction slots with
  | nil => rfl
  | cons p ps ih =>
    simp only [owesS] at ih
    simp only [owesS, List.map_cons, List.any_cons, ih]
    split
    · rename_i hp
      have : (p.1 == r') = false := by simpa [hp] using fun e => h e.symm
      simp [this]
    · rfl

/-- Removing r's slot = deleting column i (when the row covers it). -/
theorem drop_cells {slots : Slots} {r : RId} {i : Nat} (hnd : (slots.map Prod.fst).Nodup)
    (hi : indexOf r (slots.map Prod.fst) = some i) :
    (slots.filter fun p => p.1 ≠ r).map Prod.snd = (slots.map Prod.snd).eraseIdx i := by
  induction slots generalizing i with
  | nil => simp [indexOf] at hi
  | cons p ps ih =>
    simp only [List.map_cons, indexOf] at hi
    simp only [List.map_cons, List.nodup_cons] at hnd
    split at hi
    · rename_i hx
      injection hi with hi; subst hi
      have hr : r ∉ ps.map Prod.fst := hx ▸ hnd.1
      rw [List.filter_cons_of_neg (by simp [hx])]
      simp only [List.map_cons, List.eraseIdx_zero, List.tail_cons]
      congr 1
      apply List.filter_eq_self.2
      intro q hq
      have : q.1 ≠ r := fun e => hr (e ▸ List.mem_map_of_mem hq)
      simpa using this
    · rename_i hx
      simp only [Option.map_eq_some_iff] at hi
      obtain ⟨j, hj, rfl⟩ := hi
      rw [List.filter_cons_of_pos (by simpa using hx)]
      have := ih hnd.2 hj
      simpa using this

theorem drop_none {slots : Slots} {r : RId} (hi : indexOf r (slots.map Prod.fst) = none) :
    (slots.filter fun p => p.1 ≠ r) = slots := by
  apply List.filter_eq_self.2
  intro q hq
  have hr := indexOf_none.1 hi
  have : q.1 ≠ r := fun e => hr (e ▸ List.mem_map_of_mem hq)
  simpa using this

theorem drop_readers (slots : Slots) (r : RId) :
    (slots.filter fun p => p.1 ≠ r).map Prod.fst = (slots.map Prod.fst).filter (· ≠ r) := by
  induction slots with
  | nil => rfl
  | cons p ps ih =>
    by_cases h : p.1 = r
    · rw [List.filter_cons_of_neg (by simp [h])]
      simp only [List.map_cons]
      rw [List.filter_cons_of_neg (by simp [h])]
      exact ih
    · rw [List.filter_cons_of_pos (by simpa using h)]
      simp only [List.map_cons, ih]
      rw [List.filter_cons_of_pos (by simpa using h)]

theorem drop_owes_other (slots : Slots) {r r' : RId} (h : r' ≠ r) :
    owesS (slots.filter fun p => p.1 ≠ r) r' = owesS slots r' := by
  induction slots with
  | nil => rfl
  | cons p ps ih =>
    simp only [owesS] at ih
    by_cases hp : p.1 = r
    · rw [List.filter_cons_of_neg (by simp [hp])]
      have : (p.1 == r') = false := by simpa [hp] using fun e => h e.symm
      simp only [owesS, List.any_cons, this, Bool.false_and, Bool.false_or]
      exact ih
    · rw [List.filter_cons_of_pos (by simpa using hp)]
      simp only [owesS, List.any_cons, ih]

/-! ### The model's `indexOfHead` / `setCell` as one recursive fill -/

theorem indexOfHead_cons (i : Nat) (row : Row) (rest : List Row) :
    indexOfHead i (row :: rest) = if cellNil row i then .found 0 else (indexOfHead i rest).succ := by
  simp only [indexOfHead]
  by_cases h : row.length ≤ i
  · simp [h, cellNil_of_le h]
  · have hlt : i < row.length := by omega
    simp only [h, if_false, cellNil, List.getElem?_eq_getElem hlt]
    cases row[i] <;> simp

theorem cellNil_lt {row : Row} {i : Nat} (h : cellNil row i = true) : i < row.length := by
  by_cases hl : row.length ≤ i
  · simp [cellNil_of_le hl] at h
  · omega

/-- Fill column `i` of the first row whose cell there is nil. -/
def mfill (i : Nat) (a : Fill) : List Row → Option (List Row)
  | [] => none
  | row :: rest => if cellNil row i then some (row.set i (some a) :: rest) else (mfill i a rest).map (row :: ·)

theorem indexOfHead_ne_panic (i : Nat) (rows : List Row) : indexOfHead i rows ≠ .panic := by
  induction rows with
  | nil => simp [indexOfHead]
  | cons row rest ih =>
    rw [indexOfHead_cons]
    split
    · simp
    · cases h : indexOfHead i rest <;> simp_all [Find.succ]

theorem indexOfHead_notFound {i : Nat} {rows : List Row} (a : Fill) (h : indexOfHead i rows = .notFound) :
    mfill i a rows = none := by
  induction rows with
  | nil => rfl
  | cons row rest ih =>
    rw [indexOfHead_cons] at h
    split at h
    · simp at h
    · rename_i hc
      cases h' : indexOfHead i rest <;> simp_all [Find.succ, mfill]

theorem setCell_succ (row : Row) (rest : List Row) (h i : Nat) (a : Fill) :
    setCell (row :: rest) (h + 1) i a = (setCell rest h i a).map (row :: ·) := by
  simp only [setCell, List.getElem?_cons_succ]
  cases rest[h]? with
  | none => rfl
  | some r => simp only; split <;> simp

theorem indexOfHead_found {i h : Nat} {rows : List Row} (a : Fill) (hf : indexOfHead i rows = .found h) :
    ∃ rows', setCell rows h i a = some rows' ∧ mfill i a rows = some rows' ∧
      (h ≠ 0 → ∃ row rest rest', rows = row :: rest ∧ cellNil row i = false ∧ rows' = row :: rest') := by
  induction rows generalizing h with
  | nil => simp [indexOfHead] at hf
  | cons row rest ih =>
    rw [indexOfHead_cons] at hf
    split at hf
    · rename_i hc
      injection hf with hf; subst hf
      refine ⟨row.set i (some a) :: rest, ?_, ?_, fun h => absurd rfl h⟩
      · simp [setCell, cellNil_lt hc]
      · simp [mfill, hc]
    · rename_i hc
      cases h' : indexOfHead i rest with
      | found k =>
        simp only [h', Find.succ] at hf
        injection hf with hf; subst hf
        obtain ⟨rows', h1, h2, _⟩ := ih h'
        refine ⟨row :: rows', ?_, ?_, fun _ => ⟨row, rest, rows', rfl, by simpa using hc, rfl⟩⟩
        · rw [setCell_succ, h1]; rfl
        · simp [mfill, hc, h2]
      | notFound => simp [h', Find.succ] at hf
      | panic => simp [h', Find.succ] at hf

/-! ### Rows of the specification -/

theorem owes_def (row : SRow) (r : RId) : row.owes r = owesS row.slots r := rfl

/-- Write ids of the rows that still owe an answer of `r`, in row order. -/
def owedBy (rows : List SRow) (r : RId) : List Nat := (rows.filter (·.owes r)).map (·.wid)

/-- Fill r's slot in the first row that owes one. -/
def cfirst (r : RId) (a : Fill) : List SRow → Option (List SRow)
  | [] => none
  | row :: rest => if row.owes r then some (row.fill r a :: rest) else (cfirst r a rest).map (row :: ·)

theorem owes_eq_cellNil {row : SRow} {linked : List RId} {r : RId} {i : Nat}
    (hp : row.readers <+: linked) (hnd : linked.Nodup) (hi : indexOf r linked = some i) :
    row.owes r = cellNil row.cells i := by
  have hnd' : row.readers.Nodup := hnd.sublist hp.sublist
  have := indexOf_prefix hp hi hnd
  rw [owes_def]
  by_cases hl : i < row.readers.length
  · rw [if_pos hl] at this
    exact owesS_index hnd' this
  · rw [if_neg hl] at this
    rw [owesS_none this, cellNil_of_le]
    simp only [SRow.cells, SRow.readers, List.length_map] at hl ⊢
    omega

theorem mfill_cfirst {srows : List SRow} {linked : List RId} {r : RId} {i : Nat} (a : Fill)
    (hp : ∀ p ∈ srows.map SRow.readers, p <+: linked) (hnd : linked.Nodup) (hi : indexOf r linked = some i) :
    mfill i a (srows.map SRow.cells) = (cfirst r a srows).map (·.map SRow.cells) := by
  induction srows with
  | nil => rfl
  | cons row rest ih =>
    have hrow : row.readers <+: linked := hp _ (by simp)
    have hrest : ∀ p ∈ rest.map SRow.readers, p <+: linked := fun p hp' => hp p (by simp at hp' ⊢; exact Or.inr hp')
    simp only [List.map_cons, mfill, cfirst, ← owes_eq_cellNil hrow hnd hi]
    split
    · rename_i ho
      have hnd' : row.readers.Nodup := hnd.sublist hrow.sublist
      have hix := indexOf_prefix hrow hi hnd
      have hl : i < row.readers.length := by
        rw [owes_eq_cellNil hrow hnd hi] at ho
        have := cellNil_lt ho
        simpa [SRow.cells, SRow.readers] using this
      rw [if_pos hl] at hix
      simp only [Option.map_some, List.map_cons, Option.some.injEq, List.cons.injEq, and_true]
      exact (fill_cells a hnd' hix).symm
    · rw [ih hrest]
      cases cfirst r a rest <;> simp

theorem owedBy_cons (row : SRow) (rest : List SRow) (r : RId) :
    owedBy (row :: rest) r = if row.owes r then row.wid :: owedBy rest r else owedBy rest r := by
  simp only [owedBy, List.filter_cons]
  split <;> simp

theorem owedBy_sub (rows : List SRow) (r : RId) : ∀ w ∈ owedBy rows r, w ∈ rows.map (·.wid) := by
  intro w hw
  simp only [owedBy, List.mem_map, List.mem_filter] at hw ⊢
  obtain ⟨row, ⟨hm, _⟩, rfl⟩ := hw
  exact ⟨row, hm, rfl⟩

theorem credit_eq_cfirst {srows : List SRow} {r : RId} {w : Nat} {rest : List Nat} (a : Fill)
    (hw : (srows.map (·.wid)).Pairwise (· < ·)) (ho : owedBy srows r = w :: rest) :
    credit w r a srows = cfirst r a srows := by
  induction srows with
  | nil => simp [owedBy] at ho
  | cons row tl ih =>
    rw [owedBy_cons] at ho
    simp only [List.map_cons, List.pairwise_cons] at hw
    simp only [credit, cfirst]
    split at ho
    · rename_i hr
      injection ho with h1 _
      simp [h1, hr]
    · rename_i hr
      have hmem : w ∈ tl.map (·.wid) := owedBy_sub tl r w (by simp [ho])
      have hne : row.wid ≠ w := Nat.ne_of_lt (hw.1 w hmem)
      simp only [hne, if_false, hr, Bool.false_eq_true]
      rw [ih hw.2 ho]

theorem credit_none_of_owedBy_nil {srows : List SRow} {r : RId} (w : Nat) (a : Fill)
    (ho : owedBy srows r = []) : credit w r a srows = none ∧ cfirst r a srows = none := by
  induction srows with
  | nil => simp [credit, cfirst]
  | cons row tl ih =>
    rw [owedBy_cons] at ho
    split at ho
    · simp at ho
    · rename_i hr
      have := ih ho
      simp only [credit, cfirst, hr, Bool.false_eq_true, if_false, this.1, this.2, Option.map_none]
      split <;> simp

theorem fill_readers' (row : SRow) (r : RId) (a : Fill) : (row.fill r a).readers = row.readers :=
  fill_readers row.slots r a

theorem cfirst_effect {srows rows' : List SRow} {r : RId} {a : Fill} (h : cfirst r a srows = some rows') :
    owedBy rows' r = (owedBy srows r).tail ∧ (∀ r', r' ≠ r → owedBy rows' r' = owedBy srows r') ∧
    rows'.map SRow.readers = srows.map SRow.readers ∧ rows'.map (·.wid) = srows.map (·.wid) := by
  induction srows generalizing rows' with
  | nil => simp [cfirst] at h
  | cons row tl ih =>
    simp only [cfirst] at h
    split at h
    · rename_i hr
      injection h with h; subst h
      refine ⟨?_, ?_, ?_, ?_⟩
      · rw [owedBy_cons, owedBy_cons, if_pos hr]
        have : (row.fill r a).owes r = false := fill_owes_self row.slots r a
        simp [this]
      · intro r' hne
        rw [owedBy_cons, owedBy_cons]
        have : (row.fill r a).owes r' = row.owes r' := fill_owes_other row.slots a hne
        rw [this]; rfl
      · simp [fill_readers']
      · simp [SRow.fill]
    · rename_i hr
      cases hc : cfirst r a tl with
      | none => simp [hc] at h
      | some tl' =>
        simp only [hc, Option.map_some, Option.some.injEq] at h; subst h
        obtain ⟨h1, h2, h3, h4⟩ := ih hc
        refine ⟨?_, ?_, ?_, ?_⟩
        · rw [owedBy_cons, owedBy_cons]; simp [hr, h1]
        · intro r' hne
          rw [owedBy_cons, owedBy_cons, h2 r' hne]
        · simp [h3]
        · simp [h4]

/-! ### Flushing -/

theorem flush_spec (srows : List SRow) :
    ∃ pre, srows = pre ++ (WriterSpec.flush srows).1 ∧ (∀ row ∈ pre, hasNil row.cells = false) ∧
      (WriterSpec.flush srows).2.2 = pre.map (·.wid) ∧
      (∀ row rest, (WriterSpec.flush srows).1 = row :: rest → hasNil row.cells = true) := by
  induction srows with
  | nil => exact ⟨[], by simp [WriterSpec.flush]⟩
  | cons row tl ih =>
    simp only [WriterSpec.flush]
    split
    · rename_i h
      refine ⟨[], by simp, by simp, by simp, ?_⟩
      intro row' rest' he
      injection he with h1 _
      exact h1 ▸ h
    · rename_i h
      obtain ⟨pre, h1, h2, h3, h4⟩ := ih
      refine ⟨row :: pre, ?_, ?_, ?_, h4⟩
      · simp only [List.cons_append, List.cons.injEq, true_and]; exact h1
      · intro x hx
        simp only [List.mem_cons] at hx
        rcases hx with rfl | hx
        · simpa using h
        · exact h2 x hx
      · simp [h3]

theorem answers_eq (row : SRow) : row.answers = accepted row.cells := by
  simp only [SRow.answers, accepted, SRow.cells]
  induction row.slots with
  | nil => rfl
  | cons p ps ih =>
    obtain ⟨r, c⟩ := p
    cases c with
    | none => simpa using ih
    | some f =>
      cases f with
      | none => simpa using ih
      | some a => simp [ih]

/-- The specification's response (join of the answers of the accepting readers still linked,
`dropped` if there is none) is what `joinAccepted` computes from the row's cells. -/
theorem response_eq (row : SRow) : row.response = respOf row.cells := by
  simp only [SRow.response, respOf, answers_eq]

theorem mflush_eq (srows : List SRow) :
    Writer.flush (srows.map SRow.cells) =
      ((WriterSpec.flush srows).1.map SRow.cells, (WriterSpec.flush srows).2.1) := by
  induction srows with
  | nil => rfl
  | cons row tl ih =>
    simp only [List.map_cons, Writer.flush, WriterSpec.flush]
    split
    · simp
    · simp [ih, response_eq]

theorem owes_false_of_complete {row : SRow} (h : hasNil row.cells = false) (r : RId) : row.owes r = false := by
  rw [owes_def]
  simp only [hasNil, SRow.cells, List.any_map, List.any_eq_false] at h
  simp only [owesS, List.any_eq_false]
  intro p hp
  have := h p hp
  simp only [Function.comp] at this
  simp [this]

theorem owedBy_append (pre rest : List SRow) (r : RId) : owedBy (pre ++ rest) r = owedBy pre r ++ owedBy rest r := by
  simp [owedBy]

theorem owedBy_complete {pre : List SRow} (h : ∀ row ∈ pre, hasNil row.cells = false) (r : RId) : owedBy pre r = [] := by
  simp only [owedBy, List.map_eq_nil_iff, List.filter_eq_nil_iff]
  intro row hr
  simp [owes_false_of_complete (h row hr) r]

theorem owedBy_flush (srows : List SRow) (r : RId) : owedBy (WriterSpec.flush srows).1 r = owedBy srows r := by
  obtain ⟨pre, h1, h2, _, _⟩ := flush_spec srows
  conv => rhs; rw [h1]
  rw [owedBy_append, owedBy_complete h2]; rfl

/-- Facts about the pending rows that depend only on their reader lists and write ids. -/
structure RowsOK (linked : List RId) (nextW : Nat) (rows : List SRow) : Prop where
  pref : ∀ p ∈ rows.map SRow.readers, p <+: linked
  chain : (rows.map SRow.readers).Pairwise (· <+: ·)
  wids : (rows.map (·.wid)).Pairwise (· < ·)
  widlt : ∀ w ∈ rows.map (·.wid), w < nextW

theorem RowsOK.of_map_eq {linked : List RId} {nextW : Nat} {rows rows' : List SRow}
    (h : RowsOK linked nextW rows) (h1 : rows'.map SRow.readers = rows.map SRow.readers)
    (h2 : rows'.map (·.wid) = rows.map (·.wid)) : RowsOK linked nextW rows' :=
  ⟨h1 ▸ h.pref, h1 ▸ h.chain, h2 ▸ h.wids, h2 ▸ h.widlt⟩

theorem RowsOK.suffix {linked : List RId} {nextW : Nat} {pre rows : List SRow}
    (h : RowsOK linked nextW (pre ++ rows)) : RowsOK linked nextW rows := by
  refine ⟨fun p hp => h.pref p ?_, ?_, ?_, fun w hw => h.widlt w ?_⟩
  · simp only [List.map_append, List.mem_append]; exact Or.inr hp
  · have := h.chain; simp only [List.map_append, List.pairwise_append] at this; exact this.2.1
  · have := h.wids; simp only [List.map_append, List.pairwise_append] at this; exact this.2.1
  · simp only [List.map_append, List.mem_append]; exact Or.inr hw

theorem RowsOK.flush {linked : List RId} {nextW : Nat} {rows : List SRow}
    (h : RowsOK linked nextW rows) : RowsOK linked nextW (WriterSpec.flush rows).1 := by
  obtain ⟨pre, h1, _, _, _⟩ := flush_spec rows
  rw [h1] at h
  exact h.suffix

theorem flush_head (rows : List SRow) :
    ∀ row rest, (WriterSpec.flush rows).1 = row :: rest → hasNil row.cells = true := by
  obtain ⟨_, _, _, _, h⟩ := flush_spec rows
  exact h

theorem flush_of_head {row : SRow} {rest : List SRow} (h : hasNil row.cells = true) :
    WriterSpec.flush (row :: rest) = (row :: rest, [], []) := by
  simp [WriterSpec.flush, h]

/-- With the rows' reader lists forming a chain of prefixes and an incomplete head row, no row is empty. -/
theorem all_nonempty {rows : List SRow} (hc : (rows.map SRow.readers).Pairwise (· <+: ·))
    (hh : ∀ row rest, rows = row :: rest → hasNil row.cells = true) : ∀ row ∈ rows, row.cells ≠ [] := by
  cases rows with
  | nil => simp
  | cons row rest =>
    have h0 := hh row rest rfl
    have hne : row.slots ≠ [] := by
      intro e
      simp [hasNil, SRow.cells, e] at h0
    simp only [List.map_cons, List.pairwise_cons] at hc
    intro x hx
    simp only [List.mem_cons] at hx
    rcases hx with rfl | hx
    · simpa [SRow.cells] using hne
    · have := hc.1 x.readers (List.mem_map_of_mem hx)
      have hl := this.length_le
      simp only [SRow.readers, List.length_map] at hl
      intro e
      simp only [SRow.cells, List.map_eq_nil_iff] at e
      have : row.slots = [] := by simp [e] at hl; exact hl
      exact hne this

/-! ### Numbered writes: `indexOfHead(index, write)` / `setCell` as one recursive fill, against `credit` -/

/-- Fill column `i` of the row of write `w` if its cell there is nil. -/
def wfill (i w : Nat) (a : Fill) : List Nat → List Row → Option (List Row)
  | _, [] => none
  | [], _ :: _ => none
  | w' :: ws, row :: rest =>
    if w' ≠ w ∨ row.length ≤ i then (wfill i w a ws rest).map (row :: ·)
    else if cellNil row i then some (row.set i (some a) :: rest)
    else (wfill i w a ws rest).map (row :: ·)

theorem indexOfWrite_cons (i w w' : Nat) (ws : List Nat) (row : Row) (rest : List Row) :
    indexOfWrite i w (w' :: ws) (row :: rest) =
      if w' ≠ w ∨ row.length ≤ i then (indexOfWrite i w ws rest).succ
      else if cellNil row i then .found 0 else (indexOfWrite i w ws rest).succ := by
  simp only [indexOfWrite]
  by_cases h : w' ≠ w ∨ row.length ≤ i
  · simp [h]
  · have hlt : i < row.length := by
      have := fun hh => h (Or.inr hh)
      omega
    simp only [h, if_false, cellNil, List.getElem?_eq_getElem hlt]
    cases row[i] <;> simp

theorem indexOfWrite_ne_panic (i w : Nat) (ws : List Nat) (rows : List Row) (hl : ws.length = rows.length) :
    indexOfWrite i w ws rows ≠ .panic := by
  induction rows generalizing ws with
  | nil => cases ws <;> simp [indexOfWrite]
  | cons row rest ih =>
    cases ws with
    | nil => simp at hl
    | cons w' ws =>
      rw [indexOfWrite_cons]
      have := ih ws (by simpa using hl)
      split
      · cases h : indexOfWrite i w ws rest <;> simp_all [Find.succ]
      · split
        · simp
        · cases h : indexOfWrite i w ws rest <;> simp_all [Find.succ]

theorem indexOfWrite_notFound {i w : Nat} {ws : List Nat} {rows : List Row} (a : Fill)
    (h : indexOfWrite i w ws rows = .notFound) : wfill i w a ws rows = none := by
  induction rows generalizing ws with
  | nil => cases ws <;> rfl
  | cons row rest ih =>
    cases ws with
    | nil => rfl
    | cons w' ws =>
      rw [indexOfWrite_cons] at h
      simp only [wfill]
      split at h
      · rename_i hc
        rw [if_pos hc]
        cases h' : indexOfWrite i w ws rest <;> simp_all [Find.succ]
      · rename_i hc
        rw [if_neg hc]
        split at h
        · simp at h
        · rename_i hn
          simp only [hn, Bool.false_eq_true, if_false]
          cases h' : indexOfWrite i w ws rest <;> simp_all [Find.succ]

theorem indexOfWrite_found {i w h : Nat} {ws : List Nat} {rows : List Row} (a : Fill)
    (hf : indexOfWrite i w ws rows = .found h) :
    ∃ rows', setCell rows h i a = some rows' ∧ wfill i w a ws rows = some rows' ∧
      (h ≠ 0 → ∃ row rest rest', rows = row :: rest ∧ rows' = row :: rest') := by
  induction rows generalizing ws h with
  | nil => cases ws <;> simp [indexOfWrite] at hf
  | cons row rest ih =>
    cases ws with
    | nil => simp [indexOfWrite] at hf
    | cons w' ws =>
      rw [indexOfWrite_cons] at hf
      simp only [wfill]
      have hrec : (indexOfWrite i w ws rest).succ = .found h →
          ∃ rows', setCell (row :: rest) h i a = some rows' ∧
            (wfill i w a ws rest).map (row :: ·) = some rows' ∧
            (h ≠ 0 → ∃ row' rest0 rest', row :: rest = row' :: rest0 ∧ rows' = row' :: rest') := by
        intro hs
        cases h' : indexOfWrite i w ws rest with
        | found k =>
          simp only [h', Find.succ] at hs
          injection hs with hs; subst hs
          obtain ⟨rows', h1, h2, _⟩ := ih h'
          exact ⟨row :: rows', by rw [setCell_succ, h1]; rfl, by simp [h2], fun _ => ⟨row, rest, rows', rfl, rfl⟩⟩
        | notFound => simp [h', Find.succ] at hs
        | panic => simp [h', Find.succ] at hs
      split at hf
      · rename_i hc
        rw [if_pos hc]; exact hrec hf
      · rename_i hc
        rw [if_neg hc]
        split at hf
        · rename_i hn
          injection hf with hf; subst hf
          refine ⟨row.set i (some a) :: rest, ?_, by simp [hn], fun h => absurd rfl h⟩
          simp [setCell, cellNil_lt hn]
        · rename_i hn
          simp only [hn, Bool.false_eq_true, if_false]
          exact hrec hf

theorem wfill_none_of_ne {i w : Nat} {a : Fill} {ws : List Nat} {rows : List Row} (h : ∀ w' ∈ ws, w' ≠ w) :
    wfill i w a ws rows = none := by
  induction rows generalizing ws with
  | nil => cases ws <;> rfl
  | cons row rest ih =>
    cases ws with
    | nil => rfl
    | cons w' ws =>
      simp only [wfill]
      have h1 : w' ≠ w := h w' (by simp)
      rw [if_pos (Or.inl h1), ih (fun x hx => h x (by simp [hx]))]
      rfl

/-- The model's fill by write number and column is the specification's `credit` by write id and
reader id. -/
theorem wfill_credit {srows : List SRow} {linked : List RId} {r : RId} {i : Nat} (w : Nat) (a : Fill)
    (hp : ∀ p ∈ srows.map SRow.readers, p <+: linked) (hnd : linked.Nodup) (hi : indexOf r linked = some i)
    (hw : (srows.map (·.wid)).Pairwise (· < ·)) :
    wfill i w a (srows.map (·.wid)) (srows.map SRow.cells) = (credit w r a srows).map (·.map SRow.cells) := by
  induction srows with
  | nil => rfl
  | cons row rest ih =>
    have hrow : row.readers <+: linked := hp _ (by simp)
    have hrest : ∀ p ∈ rest.map SRow.readers, p <+: linked := fun p hp' => hp p (by simp at hp' ⊢; exact Or.inr hp')
    simp only [List.map_cons, List.pairwise_cons] at hw
    have ihr := ih hrest hw.2
    simp only [List.map_cons, wfill, credit]
    by_cases hwid : row.wid = w
    · have hnone : wfill i w a (rest.map (·.wid)) (rest.map SRow.cells) = none :=
        wfill_none_of_ne (fun w' hw' => by have := hw.1 w' hw'; omega)
      have howes := owes_eq_cellNil hrow hnd hi
      rw [if_pos hwid]
      by_cases hlen : row.cells.length ≤ i
      · have hc : cellNil row.cells i = false := cellNil_of_le hlen
        rw [if_pos (Or.inr hlen), hnone, howes, hc]; rfl
      · have hcond : ¬ (row.wid ≠ w ∨ row.cells.length ≤ i) := by
          intro h; rcases h with h | h
          · exact h hwid
          · exact hlen h
        rw [if_neg hcond, howes]
        by_cases hc : cellNil row.cells i = true
        · have hnd' : row.readers.Nodup := hnd.sublist hrow.sublist
          have hix := indexOf_prefix hrow hi hnd
          have hl : i < row.readers.length := by
            have := cellNil_lt hc
            simpa [SRow.cells, SRow.readers] using this
          rw [if_pos hl] at hix
          simp only [hc, if_true, Option.map_some, List.map_cons, Option.some.injEq, List.cons.injEq, and_true]
          exact (fill_cells a hnd' hix).symm
        · have hc' : cellNil row.cells i = false := by simpa using hc
          simp [hc', hnone]
    · rw [if_pos (Or.inl hwid), if_neg hwid, ihr]
      cases credit w r a rest <;> simp

theorem credit_shape {w : Nat} {r : RId} {a : Fill} {rows rows' : List SRow} (h : credit w r a rows = some rows') :
    rows'.map SRow.readers = rows.map SRow.readers ∧ rows'.map (·.wid) = rows.map (·.wid) ∧
    ∃ row ∈ rows, row.wid = w ∧ row.owes r = true := by
  induction rows generalizing rows' with
  | nil => simp [credit] at h
  | cons row tl ih =>
    simp only [credit] at h
    split at h
    · rename_i hw
      split at h
      · rename_i ho
        injection h with h; subst h
        exact ⟨by simp [fill_readers'], by simp [SRow.fill], row, by simp, hw, ho⟩
      · simp at h
    · cases hc : credit w r a tl with
      | none => simp [hc] at h
      | some tl' =>
        simp only [hc, Option.map_some, Option.some.injEq] at h; subst h
        obtain ⟨h1, h2, row', hm, h3, h4⟩ := ih hc
        exact ⟨by simp [h1], by simp [h2], row', by simp [hm], h3, h4⟩

end Uniflow.WriterProofs
