/-
C02, joint model, general links, part 9: an accepted write (the source's or a node's) – one new row, one
copy per linked reader – preserves the invariant. The writing node's own change is a parameter.
-/
import Uniflow.Proofs.FlowG8

namespace Uniflow.FlowG
open Uniflow.Tracer Uniflow.Node Uniflow.Flow Uniflow.FlowInv
open Uniflow.NodeSpec (S EReq ESt Cur Rel curRead writesOf allIds)
open Uniflow.ATracer (getL_setOrDel getL_aset)

theorem S_ext (s s' : S) (h1 : s.inbox = s'.inbox) (h2 : s.reqs = s'.reqs) (h3 : s.cur = s'.cur) : s = s' := by
  cases s; cases s'; simp_all

/-- the ghost log after packet `qid` was written and its copies handed out -/
def pushedLog (gb : G) (key : Nat) (v : Val) (ts : List Tgt) (qid : Pid) : Log :=
  { (pushAllG key v ts gb).log with
    dels := aset (pushAllG key v ts gb).log.dels qid (List.range' gb.next ts.length) }

theorem GI_pushed (N : Nat) (links : List (Nat × List Tgt)) (hwf : GraphWF N links) (ss : Nat → S) (g : G)
    (h : GI N links ss D0 g) (key : Nat) (v : Val) (htne : getL links key ≠ [])
    (gb : G) (e_nodes : gb.nodes = g.nodes) (e_sinks : gb.sinks = g.sinks) (e_fifo : gb.fifo = g.fifo)
    (e_log : gb.log = g.log) (e_links : gb.links = g.links) (e_resp : gb.resp = g.resp)
    (e_wr : gb.writers = aset g.writers key
      ⟨(gw g.writers key).rows ++ [List.replicate (getL links key).length none], (gw g.writers key).queue⟩)
    (hle : g.next ≤ gb.next) (hroots : ∀ r ∈ gb.roots, r < gb.next)
    (qid : Pid) (hqU : Unlogged g.log qid) (hqlt : qid < gb.next)
    (chW : Nat → Prop) (ssF : Nat → S) (nodesF : List Node)
    (hlenF : ∀ n, (getNode nodesF n).isSome = true ↔ n < N)
    (hrelF : ∀ n nd, getNode nodesF n = some nd → Rel (ssF n) nd (gb.next + (getL links key).length))
    (hsameF : ∀ n, ¬ chW n → ssF n = pushAllS v (getL links key) ss gb.next n)
    (hchWN : ∀ n, chW n → n < N) (hchWT : ∀ n, chW n → ∀ port, Tgt.node n port ∉ getL links key)
    (hheldW : ∀ n, chW n → heldOf (ssF n) = heldOf (ss n))
    (hreqW : ∀ n, chW n → ∀ r ∈ (ssF n).reqs, ReqOK (pushedLog gb key v (getL links key) qid) r)
    (hcurW : ∀ n, chW n → CurOK (pushedLog gb key v (getL links key) qid) n (ssF n).cur)
    (hinbW : ∀ n, chW n → ∀ p ∈ (ssF n).inbox, Unlogged (pushedLog gb key v (getL links key) qid) p.id)
    (hsepN : ∀ m, ¬ chW m → qid ∉ unlIds (ss m)) (hsepS : ∀ j, qid ∉ (getL g.sinks j).map (·.1))
    (hpend : ∀ key', pendK ssF gb.roots gb.resp.length key' =
      if key' = key then pendK ss g.roots g.resp.length key' ++ [qid] else pendK ss g.roots g.resp.length key')
    (hrt : g.resp.length ≤ gb.roots.length ∧ gb.roots.take g.resp.length = g.roots.take g.resp.length) :
    GI N links ssF D0
      { pushAllG key v (getL links key) gb with nodes := nodesF, log := pushedLog gb key v (getL links key) qid } := by
  have hN := hwf.small
  let ts := getL links key
  have hts : ∀ t ∈ ts, TOK N t := tok_of_mem N links hwf key
  have hnd : (ts.map rkeyOf).Nodup := hwf.nodupT key
  obtain ⟨f_next, f_links, f_wr, f_roots, f_resp, f_acts, f_dels, f_echo, f_sa⟩ := pushAllG_frame key v ts gb
  let P := pushAllG key v ts gb
  let lg' := pushedLog gb key v ts qid
  let g' : G := { P with nodes := nodesF, log := lg' }
  show GI N links ssF D0 g'
  have hcpb : ∀ rk, ∀ x ∈ copyOf ts gb.next rk, g.next ≤ x ∧ x < gb.next + ts.length ∧ x ≠ qid := by
    intro rk x hx
    obtain ⟨b1, b2⟩ := copyOf_bound ts gb.next rk x hx
    exact ⟨Nat.le_trans hle b1, b2, fun e => by rw [e] at b1; exact Nat.lt_irrefl _ (Nat.lt_of_lt_of_le hqlt b1)⟩
  -- the log
  have hx : LogExt g.log lg' qid := by
    refine ⟨hqU, fun p hp => ⟨?_, ?_, ?_, ?_⟩⟩
    · show aget P.log.acts p = _; rw [f_acts, e_log]
    · show aget (aset P.log.dels qid _) p = _; rw [aget_aset, f_dels, e_log]; simp [hp]
    · show aget P.log.echo p = _; rw [f_echo, e_log]
    · show aget P.log.sinkAns p = _; rw [f_sa, e_log]
  have hownO : ∀ id, id < g.next → aget lg'.owner id = aget g.log.owner id := by
    intro id hid
    show aget P.log.owner id = _
    rw [pushAllG_owner_old key v ts gb id (Nat.lt_of_lt_of_le hid hle), e_log]
  have hownNw : ∀ rk, ∀ x ∈ copyOf ts gb.next rk, aget lg'.owner x = some rk :=
    fun rk x hx => pushAllG_owner_new key v ts gb rk x hx
  have hUnew : ∀ id, g.next ≤ id → id ≠ qid → Unlogged lg' id :=
    fun id hid hne => unlogged_ext g.log lg' qid hx id hne (h.logBound id hid)
  -- held lists
  have hcpW : ∀ n, chW n → copyOf ts gb.next (rkeyOf (.node n 0)) = [] := by
    intro n hn
    apply copyOf_none
    intro hm
    obtain ⟨t, ht, e⟩ := List.mem_map.mp hm
    have := rkey_node_of_tok N hN t (hts t ht) n (Nat.lt_of_lt_of_le (hchWN n hn) hN) e
    subst this
    exact hchWT n hn 0 ht
  have hssW : ∀ n, chW n → pushAllS v ts ss gb.next n = ss n := by
    intro n hn
    have hn1 : n < 1000 := Nat.lt_of_lt_of_le (hchWN n hn) hN
    obtain ⟨a1, a2, a3⟩ := pushAllS_spec N hN v ts ss gb.next n hn1 hts
    rw [hcpW n hn] at a3
    exact S_ext _ _ (by simpa using a3) a1 a2
  have hheldF : ∀ t', TgtOK t' → heldD D0 ssF g'.sinks t' = heldD D0 ss g.sinks t' ++ copyOf ts gb.next (rkeyOf t') := by
    intro t' htok
    have hph := push_held N hN key v ts hts ss gb t' htok
    rw [e_sinks] at hph
    rw [← hph]
    cases t' with
    | sink j => rfl
    | node m port =>
      simp only [heldD, heldAt]
      by_cases hc : chW m
      · have e1 := hheldW m hc
        simp only [heldOf] at e1
        rw [hssW m hc]; simp only [List.append_assoc] at e1 ⊢; rw [e1]
      · rw [hsameF m hc]
  have hfifoF : ∀ rk, getL g'.fifo rk = getL g.fifo rk ++ (copyOf ts gb.next rk).map (fun _ => key) := by
    intro rk; show getL P.fifo rk = _; rw [pushAllG_fifo, e_fifo]
  have hhbF : ∀ key' t', TgtOK t' → hbOf D0 ssF g'.sinks g'.fifo key' t' =
      hbOf D0 ss g.sinks g.fifo key' t' ++ (if key = key' then copyOf ts gb.next (rkeyOf t') else []) := by
    intro key' t' htok
    simp only [hbOf, hheldF t' htok, hfifoF]
    exact selK_append key' key _ _ _ (h.fifoLen t' htok).symm
  have hcp1 : ∀ rk, copyOf ts gb.next rk ≠ [] → ∃ t ∈ ts, rkeyOf t = rk := by
    intro rk hne
    apply Classical.byContradiction
    intro hno
    apply hne
    apply copyOf_none
    intro hm
    obtain ⟨t, ht, e⟩ := List.mem_map.mp hm
    exact hno ⟨t, ht, e⟩
  have hwrF : ∀ key', gw g'.writers key' = if key' = key then
      ⟨(gw g.writers key).rows ++ [List.replicate ts.length none], (gw g.writers key).queue⟩ else gw g.writers key' := by
    intro key'; show gw P.writers key' = _; rw [f_wr, e_wr, gw_aset]
  have hnextF : g'.next = gb.next + ts.length := f_next
  have hsameN : ∀ n, ¬ (chW n ∨ Tgt.node n 0 ∈ ts) → ssF n = ss n := by
    intro n hn
    simp only [not_or] at hn
    rw [hsameF n hn.1]
    by_cases hnN : n < N
    · obtain ⟨a1, a2, a3⟩ := pushAllS_spec N hN v ts ss gb.next n (Nat.lt_of_lt_of_le hnN hN) hts
      have : copyOf ts gb.next (rkeyOf (.node n 0)) = [] := by
        apply copyOf_none
        intro hm
        obtain ⟨t, ht, e⟩ := List.mem_map.mp hm
        have := rkey_node_of_tok N hN t (hts t ht) n (Nat.lt_of_lt_of_le hnN hN) e
        subst this; exact hn.2 ht
      rw [this] at a3
      exact S_ext _ _ (by simpa using a3) a1 a2
    · exact pushAllS_dflt N v ts ss gb.next n (Nat.le_of_not_lt hnN) hts
  -- a target node that is not the writing node
  have htgtN : ∀ n, ¬ chW n → Tgt.node n 0 ∈ ts →
      (ssF n).reqs = (ss n).reqs ∧ (ssF n).cur = (ss n).cur ∧
      (ssF n).inbox = (ss n).inbox ++ (copyOf ts gb.next (rkeyOf (.node n 0))).map (fun x => ⟨x, v⟩) := by
    intro n hc hm
    rw [hsameF n hc]
    exact pushAllS_spec N hN v ts ss gb.next n (Nat.lt_of_lt_of_le (hts _ hm).1 hN) hts
  apply GI_build N links hwf ss ssF D0 D0 g g' h qid (fun n => chW n ∨ Tgt.node n 0 ∈ ts)
    (by show P.links = g.links; rw [f_links, e_links]) hlenF (by intro n nd hn; rw [hnextF]; exact hrelF n nd hn)
    hsameN
  · intro n hn
    rcases hn with hn | hn
    · exact hchWN n hn
    · exact (hts _ hn).1
  · exact hx
  · exact hownO
  · rw [hnextF]; exact Nat.le_trans hle (Nat.le_add_right _ _)
  · intro id hid
    rw [hnextF] at hid
    have h1 : gb.next ≤ id := Nat.le_trans (Nat.le_add_right _ _) hid
    exact hUnew id (Nat.le_trans hle h1) (fun e => by rw [e] at h1; exact Nat.lt_irrefl _ (Nat.lt_of_lt_of_le hqlt h1))
  · intro m hm
    simp only [not_or] at hm
    exact hsepN m hm.1
  · intro n hn r hr
    by_cases hc : chW n
    · exact hreqW n hc r hr
    · have hm : Tgt.node n 0 ∈ ts := by rcases hn with hn | hn; exact absurd hn hc; exact hn
      rw [(htgtN n hc hm).1] at hr
      exact reqOK_ext g.log lg' qid hx r (h.reqsOK n r hr)
  · intro n hn
    by_cases hc : chW n
    · exact hcurW n hc
    · have hm : Tgt.node n 0 ∈ ts := by rcases hn with hn | hn; exact absurd hn hc; exact hn
      rw [(htgtN n hc hm).2.1]
      apply curOK_ext g.log lg' qid hx n _ _ _ (h.curOK n)
      · intro id hid
        exact hownO id (live_lt N links ss D0 g h n id (unlIds_sub_allIds _ id (by simp [unlIds, hid])))
      · intro hk; exact hsepN n hc (by simp [unlIds, hk])
  · intro n hn p hp
    by_cases hc : chW n
    · exact hinbW n hc p hp
    · have hm : Tgt.node n 0 ∈ ts := by rcases hn with hn | hn; exact absurd hn hc; exact hn
      rw [(htgtN n hc hm).2.2, List.mem_append] at hp
      rcases hp with hp | hp
      · exact unlogged_ext g.log lg' qid hx p.id
          (fun e2 => hsepN n hc (by simp only [unlIds, List.mem_append, List.mem_map]; right; exact ⟨p, hp, e2⟩))
          (h.inboxOK n p hp)
      · obtain ⟨x, hx', e⟩ := List.mem_map.mp hp
        subst e
        obtain ⟨b1, _, b3⟩ := hcpb _ x hx'
        exact hUnew x b1 b3
  · intro n hn id hid
    have hn1 : n < 1000 := by
      rcases hn with hn | hn
      · exact Nat.lt_of_lt_of_le (hchWN n hn) hN
      · exact Nat.lt_of_lt_of_le (hts _ hn).1 hN
    have := hheldF (.node n 0) ⟨rfl, hn1⟩
    simp only [heldD, D0, List.map_nil, List.nil_append] at this
    rw [this, List.mem_append] at hid
    rcases hid with hid | hid
    · have hlt : id < g.next := live_lt N links ss D0 g h n id (heldOf_sub_allIds _ id hid)
      rw [hownO id hlt]; exact h.ownNode n id hid
    · exact hownNw _ id hid
  · intro j
    have := hheldF (.sink j) trivial
    simp only [heldD, D0, List.map_nil, List.nil_append, heldAt] at this
    rw [this]
    obtain ⟨n1, n2⟩ := h.sinkOK j
    refine ⟨?_, ?_⟩
    · rw [List.nodup_append]
      refine ⟨n1, ?_, ?_⟩
      · rcases copyOf_len_le ts hnd gb.next (rkeyOf (.sink j)) with e | ⟨i, t, _, _, e⟩ <;> rw [e] <;> simp
      · intro a ha b hb e
        subst e
        exact Nat.lt_irrefl _ (Nat.lt_of_lt_of_le (n2 a ha).2.1 (hcpb _ a hb).1)
    · intro c hc
      rw [List.mem_append] at hc
      rcases hc with hc | hc
      · obtain ⟨u1, u2, u3⟩ := n2 c hc
        refine ⟨unlogged_ext g.log lg' qid hx c (fun e => hsepS j (e ▸ hc)) u1, ?_, by rw [hownO c u2]; exact u3⟩
        rw [hnextF]; exact Nat.lt_of_lt_of_le u2 (Nat.le_trans hle (Nat.le_add_right _ _))
      · obtain ⟨b1, b2, b3⟩ := hcpb _ c hc
        exact ⟨hUnew c b1 b3, by rw [hnextF]; exact b2, hownNw _ c hc⟩
  · intro r hr
    have : r ∈ gb.roots := by have : r ∈ P.roots := hr; rw [f_roots] at this; exact this
    rw [hnextF]; exact Nat.lt_of_lt_of_le (hroots r this) (Nat.le_add_right _ _)
  · intro rk x hx'; simp [D0] at hx'
  · intro key' hl'
    have hroots' : g'.roots = gb.roots := f_roots
    have hresp' : g'.resp = gb.resp := f_resp
    rw [hwrF, hroots', hresp', hpend]
    have hold := wkg_ext g.log lg' qid hx _ _ _ _ (h.wk key' hl')
    by_cases e : key' = key
    · subst e
      simp only [if_true]
      apply wkg_push lg' _ _ _ _ _ qid (List.range' gb.next ts.length) hold (by rw [List.length_range']) hl'
      · show aget P.log.echo qid = none; rw [f_echo, e_log]; exact hqU.2.2.1
      · show aget P.log.sinkAns qid = none; rw [f_sa, e_log]; exact hqU.2.2.2
      · show aget (aset P.log.dels qid _) qid = _; rw [aget_aset]; simp
      · intro i t c hti hci
        have htm : t ∈ getL links key' := List.mem_of_getElem? hti
        rw [hhbF key' t (tgtOK_mem N links hwf key' t htm)]
        simp only [if_true]
        rw [copyOf_idx ts gb.next i t hnd hti]
        have hi : i < ts.length := by
          rcases Nat.lt_or_ge i ts.length with h | h
          · exact h
          · rw [List.getElem?_eq_none h] at hti; cases hti
        have : (List.range' gb.next ts.length)[i]? = some (gb.next + i) := by simp [hi]
        rw [this] at hci
        simp only [Option.some.injEq] at hci
        rw [hci]
    · simp only [e, if_false]
      apply wkg_congr lg' _ _ _ _ _ hold
      intro i t hti
      have htm : t ∈ getL links key' := List.mem_of_getElem? hti
      rw [hhbF key' t (tgtOK_mem N links hwf key' t htm)]
      simp [Ne.symm e]
  · rw [hwrF]
    by_cases e : srcKey = key
    · simp only [e, if_true]; rw [← e]; exact h.srcq
    · simp only [e, if_false]; exact h.srcq
  · intro t' htok
    rw [hfifoF, hheldF t' htok]
    simp only [List.length_append, List.length_map, h.fifoLen t' htok]
  · intro t' htok key' hk
    rw [hfifoF, List.mem_append] at hk
    rcases hk with hk | hk
    · exact h.fifoKeys t' htok key' hk
    · obtain ⟨x, hx', e⟩ := List.mem_map.mp hk
      subst e
      obtain ⟨t, ht, e2⟩ := hcp1 (rkeyOf t') (by intro e3; rw [e3] at hx'; simp at hx')
      have : t = t' := rkey_inj_ok t t' (tgtOK_mem N links hwf key t ht) htok e2
      subst this; exact ht
  · have hroots' : g'.roots = gb.roots := f_roots
    have hresp' : g'.resp = g.resp := by show P.resp = _; rw [f_resp, e_resp]
    rw [hroots', hresp']
    refine ⟨hrt.1, ?_⟩
    rw [hrt.2]
    exact all2_mono _ _ (fun p a => ra_ext g.log lg' qid hx p a) _ _ h.respOK.2
  · intro key' hl'
    have : key' ≠ key := by intro e; rw [e] at hl'; exact htne hl'
    rw [hwrF]; simp only [this, if_false]; exact h.wq0 key' hl'
  · refine ⟨fun cs hcs => ?_, fun qs hqs => ?_⟩
    · have : aget lg'.dels qid = some (List.range' gb.next ts.length) := by
        show aget (aset P.log.dels qid _) qid = _; rw [aget_aset]; simp
      rw [this] at hcs
      simp only [Option.some.injEq] at hcs
      subst hcs
      intro c hc
      rw [List.mem_range'_1] at hc
      exact ⟨Nat.lt_of_lt_of_le hqlt hc.1, by rw [hnextF]; exact hc.2⟩
    · have : aget lg'.acts qid = none := by show aget P.log.acts qid = none; rw [f_acts, e_log]; exact hqU.1
      rw [this] at hqs; cases hqs

end Uniflow.FlowG
