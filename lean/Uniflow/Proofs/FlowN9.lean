/-
C02, joint model, all node kinds, part 9: the shape of a thread's remaining program (from `J`), the frame of the
invariant, `gWrite` computed, helper facts for the internal steps.
-/
import Uniflow.Proofs.FlowN8

namespace Uniflow.FlowN
open Uniflow.Tracer Uniflow.Node Uniflow.Flow Uniflow.FlowInv Uniflow.FlowG Uniflow.ATracer Uniflow.FlowH Uniflow.FlowM
open Uniflow.ATracer (getL_setOrDel getL_aset)

theorem ops_head_link (rs : List Req) (i : Rid) (s t : Pid) (ops : List Op) (h : OpsOK rs i (.link s t :: ops)) :
    ∃ cs, (⟨s, i, .cells cs⟩ : Req) ∈ rs ∧
      (s ≠ t ∨ (s = t ∧ cs = [] ∧ ∃ w q, ops = [Op.write w q] ∧ q.id = s)) := by
  obtain ⟨p, cs, hX, hsh⟩ := h
  rcases hsh with ⟨hcs, w, q, e | e, hq⟩ | ⟨lk, wr, e, _, _, _, hp⟩
  · simp at e
  · simp only [List.cons.injEq, Op.link.injEq] at e
    obtain ⟨⟨rfl, rfl⟩, rfl⟩ := e
    exact ⟨cs, hX, Or.inr ⟨rfl, hcs, w, q, rfl, hq⟩⟩
  · cases lk with
    | nil =>
      simp only [mkOps, List.map_nil, List.nil_append] at e
      cases wr with
      | nil => simp at e
      | cons x xs => simp at e
    | cons t' lk' =>
      simp only [mkOps, List.map_cons, List.cons_append, List.cons.injEq, Op.link.injEq] at e
      rw [e.1.1]
      refine ⟨cs, hX, Or.inl ?_⟩
      intro e2
      exact hp (by rw [e2, e.1.2]; simp)

theorem ops_head_write (rs : List Req) (i : Rid) (w : Option Wid) (q : Pkt) (ops : List Op)
    (h : OpsOK rs i (.write w q :: ops)) :
    ∃ p cs, (⟨p, i, .cells cs⟩ : Req) ∈ rs ∧
      ((cs = [] ∧ q.id = p ∧ ops = []) ∨
       ∃ rest, linkedIds cs = q.id :: rest ∧ remOps p (.write w q :: ops) = []) := by
  obtain ⟨p, cs, hX, hsh⟩ := h
  refine ⟨p, cs, hX, ?_⟩
  rcases hsh with ⟨e0, w', q', e | e, e2⟩ | ⟨lk, wr, e, e2, _, _⟩
  · left
    simp only [List.cons.injEq, Op.write.injEq] at e
    exact ⟨e0, by rw [e.1.2]; exact e2, e.2⟩
  · simp at e
  · right
    cases lk with
    | cons t' lk' => simp [mkOps] at e
    | nil =>
      simp only [mkOps, List.map_nil, List.nil_append] at e
      cases wr with
      | nil => simp at e
      | cons x xs =>
        simp only [List.map_cons, List.cons.injEq, Op.write.injEq] at e
        simp only [List.map_cons, List.append_nil] at e2
        refine ⟨xs.map (·.2.id), ?_, ?_⟩
        · rw [← e2, e.1.2]
        · simp only [remOps]; rw [e.2]; exact remOps_writes p xs

/-- `HI` reads only these fields of the state -/
theorem HI_congr (kinds : List Kind) (links : List (Nat × List Tgt)) (aa : Nat → A) (D : Nat → List (Pid × Ans)) (g g' : G)
    (h : HI kinds links aa D g) (e1 : g'.links = g.links) (e2 : g'.nodes = g.nodes) (e3 : g'.next = g.next)
    (e4 : g'.log = g.log) (e5 : g'.sinks = g.sinks) (e6 : g'.writers = g.writers) (e7 : g'.fifo = g.fifo)
    (e8 : g'.roots = g.roots) (e9 : g'.resp = g.resp) : HI kinds links aa D g' := by
  obtain ⟨a1, a2, a3, a4, b1, b2, a5, a6, a7, a8, a9, a10, a11, a12, a13, a14, a15, a16, a17, a18⟩ := h
  constructor
  · rw [e1]; exact a1
  · rw [e2]; exact a2
  · rw [e2]; exact a3
  · rw [e2]; exact a4
  · rw [e2]; exact b1
  · rw [e2]; exact b2
  · rw [e2, e3]; exact a5
  · rw [e2, e4]; exact a6
  · exact a7
  · rw [e4, e5, e3]; exact a8
  · rw [e4]; exact a9
  · rw [e4, e5, e6, e7, e8, e9, e2]; exact a10
  · rw [e6]; exact a11
  · rw [e5, e7, e2]; exact a12
  · rw [e7]; exact a13
  · rw [e4, e8, e9]; exact a14
  · rw [e4, e3]; exact a15
  · rw [e3, e8]; exact a16
  · rw [e6]; exact a17
  · rw [e4, e3]; exact a18

theorem gWrite_eqH (kinds : List Kind) (hN : kinds.length ≤ 1000) (hK : ∀ k ∈ kinds, KindOK k) (aa : Nat → A) (g : G)
    (key : Nat) (qid : Pid) (v : Val)
    (hni : NIH kinds aa g.nodes g.next) (hl : getL g.links key ≠ []) (hts : ∀ t ∈ getL g.links key, TOK kinds t)
    (hd : aget g.log.dels qid = none) :
    gWrite g key qid v =
      ({ pushAllG key v (getL g.links key) (rowPush g key) with
          log := pushedLog (rowPush g key) key v (getL g.links key) qid }, true) := by
  obtain ⟨e1, _, _⟩ := deliverAll_eqH kinds hN hK aa key v (getL g.links key) (rowPush g key) hni hts
  obtain ⟨_, _, _, _, _, _, f_dels, _, _⟩ := pushAllG_frame key v (getL g.links key) (rowPush g key)
  have hd' : getL (pushAllG key v (getL g.links key) (rowPush g key)).log.dels qid = [] := by
    rw [f_dels]; show getL g.log.dels qid = []; simp [getL, hd]
  cases hL : getL g.links key with
  | nil => exact absurd hL hl
  | cons t ts =>
    rw [hL] at e1 hd'
    have hrp : rowPush g key = { g with writers := aset g.writers key (newRow g key (t :: ts).length) } := by
      simp only [rowPush, hL]
    simp only [gWrite, hL, getWriter_eq]
    simp only [newRow] at hrp
    rw [← hrp, e1]
    simp only [pushedLog, hd', List.nil_append]

/-- the invariant, with the ghost state hidden -/
def HIe (kinds : List Kind) (links : List (Nat × List Tgt)) (g : G) : Prop := ∃ aa, HI kinds links aa D0 g

theorem nih_of (kinds : List Kind) (links : List (Nat × List Tgt)) (aa : Nat → A) (g : G) (h : HI kinds links aa D0 g) :
    NIH kinds aa g.nodes g.next := ⟨h.nodesLen, h.kindEq, h.thr, h.jb⟩

/-- a request for which nothing was registered and nothing is pending has no log entry yet -/
theorem req_unlogged (lg : Log) (n : Nat) (i : Rid) (th : Thread) (a : A) (p : Pid) (hnl : NLt lg n i th a)
    (hX : (⟨p, i, .cells []⟩ : Req) ∈ a.reqs) (hrem : remFor th.pc p = []) : Unlogged lg p := by
  have hr : ReqA lg n th.pc ⟨p, i, .cells []⟩ := reqB_A _ _ _ _ (hnl.req _ hX rfl) (by intro v e; cases e)
  simp only [ReqA, hrem] at hr
  obtain ⟨qs, a1, a2, a3, a4, a5, _, _⟩ := hr
  have : qs = [] := by cases qs with | nil => rfl | cons _ _ => simp [All2] at a1
  subst this
  exact ⟨by simpa [optl] using a2, a5, a3, a4⟩

/-- the in-port of thread `i` when only that thread's inbox and the tracer's requests matter -/
theorem heldN_of (nd : Node) (a : A) (port : Nat) (th : Thread) (hg : getThread nd.threads port = some th) :
    heldN nd a port = (a.reqs.filter (fun x => x.r = port)).map (·.p) ++ th.inbox.map (·.id) := by
  simp only [heldN, inboxOf, hg]

/-- thread `i` was replaced: the in-ports of the other threads hold what they held when the other readers'
requests are unchanged -/
theorem heldN_other (nd nd' : Node) (a a' : A) (i port : Nat) (th' : Thread) (hp : port ≠ i)
    (hths : ∀ j, getThread nd'.threads j = if j = i then some th' else getThread nd.threads j)
    (hreq : (a'.reqs.filter (fun x => x.r = port)).map (·.p) = (a.reqs.filter (fun x => x.r = port)).map (·.p)) :
    heldN nd' a' port = heldN nd a port := by
  simp only [heldN, inboxOf, hths port, hp, if_false, hreq]

theorem tag_reader (n i : Nat) (hi : i < 63) : (n * 64 + i) / 64 = n := by omega

theorem tag_q (n : Nat) : qTag n / 64 = n := by simp only [qTag]; omega

end Uniflow.FlowN
