/-
C02, joint model, part 6 of the invariant proof: handing a copy to a linked reader (a node's in-port
or a sink) – the facts about the reader after the delivery.
-/
import Uniflow.Proofs.FlowInv5

namespace Uniflow.FlowInv
open Uniflow.Tracer Uniflow.Node Uniflow.Flow
open Uniflow.NodeSpec (S EReq ESt Cur Rel curRead writesOf allIds)
open Uniflow.ATracer (getL_setOrDel getL_aset)

/-- the result of handing the copy `⟨c, v⟩` to reader `t` -/
def TgtPush (ss : Nat → S) (g : G) (t : Tgt) (c : Pid) (v : Val) (ss1 : Nat → S) (nodes1 : List Node)
    (sinks1 : List (Nat × List (Pid × Val))) : Prop :=
  match t with
  | .sink j => ss1 = ss ∧ nodes1 = g.nodes ∧ sinks1 = aset g.sinks j (getL g.sinks j ++ [(c, v)])
  | .node m _ =>
    ∃ ndm ndm', getNode g.nodes m = some ndm ∧
      Rel { (ss m) with inbox := (ss m).inbox ++ [⟨c, v⟩] } ndm' (c + 1) ∧
      ss1 = upd ss m { (ss m) with inbox := (ss m).inbox ++ [⟨c, v⟩] } ∧
      nodes1 = setNode g.nodes m ndm' ∧ sinks1 = g.sinks

/-- the node that changes when a copy is handed to `t` -/
def tgtNode : Tgt → Nat → Prop
  | .sink _, _ => False
  | .node m _, n => n = m

theorem rkey_link_inj (N : Nat) (links : List (Nat × List Tgt)) (hwf : TreeWF N links) (key key' : Nat) (t t' : Tgt)
    (hl : getL links key = [t]) (hl' : getL links key' = [t']) (e : rkeyOf t' = rkeyOf t) : t' = t := by
  have hk := hwf.feeder key' key t' t (by rw [hl']; simp) (by rw [hl]; simp) e
  subst hk; rw [hl] at hl'; simp at hl'; exact hl'.symm

theorem tgtPush_held (N : Nat) (links : List (Nat × List Tgt)) (hwf : TreeWF N links) (ss ss1 : Nat → S) (g : G)
    (K : Nat) (t : Tgt) (hl : getL links K = [t]) (c : Pid) (v : Val) (nodes1 : List Node)
    (sinks1 : List (Nat × List (Pid × Val))) (hp : TgtPush ss g t c v ss1 nodes1 sinks1) :
    ∀ key t', getL links key = [t'] → heldD D0 ss1 sinks1 t' =
      if rkeyOf t' = rkeyOf t then heldD D0 ss g.sinks t' ++ [c] else heldD D0 ss g.sinks t' := by
  intro key t' hl'
  by_cases e : rkeyOf t' = rkeyOf t
  · have ett := rkey_link_inj N links hwf K key t t' hl hl' e
    subst ett
    simp only [if_true]
    cases t' with
    | sink j =>
      obtain ⟨e1, _, e3⟩ := hp
      subst e1; subst e3
      simp [heldD, heldAt, D0, getL_aset]
    | node m port =>
      obtain ⟨ndm, ndm', _, _, e3, _, e5⟩ := hp
      subst e3; subst e5
      simp [heldD, heldAt, D0, upd, List.append_assoc]
  · simp only [e, if_false]
    cases t with
    | sink j =>
      obtain ⟨e1, _, e3⟩ := hp
      subst e1; subst e3
      cases t' with
      | sink j' =>
        have : j' ≠ j := by intro e2; subst e2; exact e rfl
        simp [heldD, heldAt, getL_aset, this]
      | node m' port' => simp [heldD, heldAt]
    | node m port =>
      obtain ⟨ndm, ndm', _, _, e3, _, e5⟩ := hp
      subst e3; subst e5
      cases t' with
      | sink j' => simp [heldD, heldAt]
      | node m' port' =>
        have hp0 := (hwf.tnode K m port (by rw [hl]; simp)).2
        have hp0' := (hwf.tnode key m' port' (by rw [hl']; simp)).2
        subst hp0; subst hp0'
        have : m' ≠ m := by intro e2; subst e2; exact e rfl
        simp [heldD, heldAt, upd, this]

theorem tgtPush_nofeed (N : Nat) (links : List (Nat × List Tgt)) (hwf : TreeWF N links) (ss ss1 : Nat → S) (g : G)
    (h : FI N links ss D0 g)
    (K : Nat) (t : Tgt) (hl : getL links K = [t]) (c : Pid) (v : Val) (nodes1 : List Node)
    (sinks1 : List (Nat × List (Pid × Val))) (hp : TgtPush ss g t c v ss1 nodes1 sinks1) :
    ∀ t', TgtOK t' → (∀ key, t' ∉ getL links key) → heldD D0 ss1 sinks1 t' = [] := by
  intro t' htok hno
  have hold := h.nofeed t' htok hno
  have hne : t' ≠ t := by intro e; subst e; exact hno K (by rw [hl]; simp)
  cases t with
  | sink j =>
    obtain ⟨e1, _, e3⟩ := hp
    subst e1; subst e3
    cases t' with
    | sink j' =>
      have : j' ≠ j := by intro e2; subst e2; exact hne rfl
      simpa [heldD, heldAt, getL_aset, this] using hold
    | node m' port' => simpa [heldD, heldAt] using hold
  | node m port =>
    obtain ⟨ndm, ndm', _, _, e3, _, e5⟩ := hp
    subst e3; subst e5
    have hp0 := (hwf.tnode K m port (by rw [hl]; simp)).2
    subst hp0
    cases t' with
    | sink j' => simpa [heldD, heldAt] using hold
    | node m' port' =>
      simp only [TgtOK] at htok; obtain ⟨htok, _⟩ := htok; subst htok
      have : m' ≠ m := by intro e2; subst e2; exact hne rfl
      simpa [heldD, heldAt, upd, this] using hold

theorem rel_upd' (nodes : List Node) (ss : Nat → S) (n0 : Nat) (nd0 nd' : Node) (s' : S) (nx nx' : Nat)
    (hrel : ∀ n nd, getNode nodes n = some nd → Rel (ss n) nd nx)
    (hn : getNode nodes n0 = some nd0) (hr : Rel s' nd' nx') (hle : nx ≤ nx') :
    ∀ n nd, getNode (setNode nodes n0 nd') n = some nd → Rel (upd ss n0 s' n) nd nx' := by
  intro n nd hg
  rw [getNode_setNode nodes n0 n nd' (by rw [hn]; rfl)] at hg
  by_cases e : n = n0
  · simp only [e, if_true, Option.some.injEq] at hg; subst hg; simp only [upd, e, if_true]; exact hr
  · simp only [e, if_false] at hg
    simp only [upd, e, if_false]
    exact NodeSpec.rel_mono _ _ _ _ (hrel n nd hg) hle

theorem nodesLen_set' (nodes : List Node) (N n0 : Nat) (nd0 nd' : Node) (hn : getNode nodes n0 = some nd0)
    (hl : ∀ n, (getNode nodes n).isSome = true ↔ n < N) :
    ∀ n, (getNode (setNode nodes n0 nd') n).isSome = true ↔ n < N := by
  intro n
  rw [getNode_setNode nodes n0 n nd' (by rw [hn]; rfl)]
  by_cases e : n = n0
  · simp only [e, if_true, Option.isSome_some, true_iff]; exact (hl n0).mp (by rw [hn]; rfl)
  · simp only [e, if_false]; exact hl n

/-- nodes after a delivery -/
theorem tgtPush_nodes (N : Nat) (links : List (Nat × List Tgt)) (ss ss1 : Nat → S) (g : G) (h : FI N links ss D0 g)
    (t : Tgt) (c : Pid) (v : Val) (hc : g.next ≤ c) (nodes1 : List Node) (sinks1 : List (Nat × List (Pid × Val)))
    (hp : TgtPush ss g t c v ss1 nodes1 sinks1) :
    (∀ n, (getNode nodes1 n).isSome = true ↔ n < N) ∧
    (∀ n nd, getNode nodes1 n = some nd → Rel (ss1 n) nd (c + 1)) ∧
    (∀ n, ¬ tgtNode t n → ss1 n = ss n) ∧ (∀ n, tgtNode t n → getNode g.nodes n ≠ none) := by
  cases t with
  | sink j =>
    obtain ⟨e1, e2, _⟩ := hp
    subst e1; subst e2
    exact ⟨h.nodesLen, fun n nd hn => NodeSpec.rel_mono _ _ _ _ (h.rel n nd hn) (Nat.le_succ_of_le hc),
      fun _ _ => rfl, fun n hn => absurd hn (by simp [tgtNode])⟩
  | node m port =>
    obtain ⟨ndm, ndm', h1, h2, e3, e4, _⟩ := hp
    subst e3; subst e4
    refine ⟨nodesLen_set' g.nodes N m ndm ndm' h1 h.nodesLen,
      rel_upd' g.nodes ss m ndm ndm' _ g.next (c + 1) h.rel h1 h2 (Nat.le_succ_of_le hc), ?_, ?_⟩
    · intro n hn; simp only [tgtNode] at hn; simp [upd, hn]
    · intro n hn; simp only [tgtNode] at hn; subst hn; rw [h1]; simp

/-- the sinks after a delivery, in the log extended at `qid` -/
theorem tgtPush_sinks (N : Nat) (links : List (Nat × List Tgt)) (ss ss1 : Nat → S) (g : G) (h : FI N links ss D0 g)
    (t : Tgt) (c : Pid) (v : Val) (hc : g.next ≤ c) (nodes1 : List Node) (sinks1 : List (Nat × List (Pid × Val)))
    (hp : TgtPush ss g t c v ss1 nodes1 sinks1) (lg1 : Log) (qid : Pid)
    (hx : LogExt g.log lg1 qid) (hqs : ∀ j, qid ∉ (getL g.sinks j).map (·.1))
    (hown : ∀ id, id < g.next → aget lg1.owner id = aget g.log.owner id)
    (hownc : aget lg1.owner c = some (rkeyOf t)) (hcU : Unlogged lg1 c) :
    ∀ j, ((getL sinks1 j).map (·.1)).Nodup ∧ ∀ x ∈ (getL sinks1 j).map (·.1),
      Unlogged lg1 x ∧ x < c + 1 ∧ aget lg1.owner x = some (rkeyOf (.sink j)) := by
  have hold : ∀ j, ∀ x ∈ (getL g.sinks j).map (·.1),
      Unlogged lg1 x ∧ x < c + 1 ∧ aget lg1.owner x = some (rkeyOf (.sink j)) := by
    intro j x hx'
    obtain ⟨u1, u2, u3⟩ := (h.sinkOK j).2 x hx'
    exact ⟨unlogged_ext g.log lg1 qid hx x (fun e => hqs j (e ▸ hx')) u1,
      Nat.lt_succ_of_lt (Nat.lt_of_lt_of_le u2 hc), by rw [hown x u2]; exact u3⟩
  cases t with
  | node m port =>
    obtain ⟨_, _, _, _, _, _, e5⟩ := hp
    subst e5
    exact fun j => ⟨(h.sinkOK j).1, hold j⟩
  | sink j0 =>
    obtain ⟨_, _, e3⟩ := hp
    subst e3
    intro j
    by_cases e : j = j0
    · subst e
      simp only [getL_aset, if_true, List.map_append, List.map_cons, List.map_nil]
      refine ⟨?_, ?_⟩
      · rw [List.nodup_append]
        refine ⟨(h.sinkOK j).1, by simp, ?_⟩
        intro a ha b hb hab
        simp at hb; subst hb; subst hab
        exact absurd (Nat.lt_of_lt_of_le ((h.sinkOK j).2 a ha).2.1 hc) (Nat.lt_irrefl _)
      · intro x hx'
        simp only [List.mem_append, List.mem_singleton] at hx'
        rcases hx' with hx' | hx'
        · exact hold j x hx'
        · subst hx'; exact ⟨hcU, Nat.lt_succ_self _, hownc⟩
    · simp only [getL_aset, e, if_false]
      exact ⟨(h.sinkOK j).1, hold j⟩

/-- the clauses of the node that received the copy -/
theorem tgtPush_nodeM (N : Nat) (links : List (Nat × List Tgt)) (ss ss1 : Nat → S) (g : G) (h : FI N links ss D0 g)
    (t : Tgt) (htok : TgtOK t) (c : Pid) (v : Val) (hc : g.next ≤ c) (nodes1 : List Node)
    (sinks1 : List (Nat × List (Pid × Val)))
    (hp : TgtPush ss g t c v ss1 nodes1 sinks1) (lg1 : Log) (qid : Pid)
    (hx : LogExt g.log lg1 qid)
    (hown : ∀ id, id < g.next → aget lg1.owner id = aget g.log.owner id)
    (hownc : aget lg1.owner c = some (rkeyOf t)) (hcU : Unlogged lg1 c) (m : Nat) (hm : tgtNode t m)
    (hqm : qid ∉ unlIds (ss m)) :
    (∀ r ∈ (ss1 m).reqs, ReqOK lg1 r) ∧ CurOK lg1 m (ss1 m).cur ∧ (∀ p ∈ (ss1 m).inbox, Unlogged lg1 p.id) ∧
    (∀ id ∈ heldAt ss1 sinks1 (.node m 0), aget lg1.owner id = some (rkeyOf (.node m 0))) := by
  cases t with
  | sink j => simp [tgtNode] at hm
  | node m0 port =>
    simp only [tgtNode] at hm; subst hm
    simp only [TgtOK] at htok; obtain ⟨htok, _⟩ := htok; subst htok
    obtain ⟨ndm, ndm', h1, h2, e3, e4, e5⟩ := hp
    subst e3; subst e5
    have hss1 : upd ss m { (ss m) with inbox := (ss m).inbox ++ [⟨c, v⟩] } m =
        { (ss m) with inbox := (ss m).inbox ++ [⟨c, v⟩] } := by simp [upd]
    rw [hss1]
    refine ⟨?_, ?_, ?_, ?_⟩
    · intro r hr; exact reqOK_ext g.log lg1 qid hx r (h.reqsOK m r hr)
    · apply curOK_ext g.log lg1 qid hx m _ _ _ (h.curOK m)
      · intro id hid
        exact hown id (live_lt N links ss D0 g h m id (unlIds_sub_allIds _ id (by simp [unlIds, hid])))
      · intro hk; exact hqm (by simp [unlIds, hk])
    · intro p hp'
      simp only [List.mem_append, List.mem_singleton] at hp'
      rcases hp' with hp' | hp'
      · exact unlogged_ext g.log lg1 qid hx p.id
          (fun e2 => hqm (by simp only [unlIds, List.mem_append, List.mem_map]; right; exact ⟨p, hp', e2⟩))
          (h.inboxOK m p hp')
      · subst hp'; exact hcU
    · intro id hid
      simp only [heldAt, hss1, List.map_append, List.map_cons, List.map_nil, List.mem_append, List.mem_singleton] at hid
      have hold : id ∈ heldAt ss g.sinks (.node m 0) → aget lg1.owner id = some (rkeyOf (.node m 0)) := by
        intro hid'
        have hlt : id < g.next := live_lt N links ss D0 g h m id (heldOf_sub_allIds _ id hid')
        rw [hown id hlt]; exact h.ownNode m id hid'
      rcases hid with (hid | hid) | hid | hid
      · exact hold (by simp only [heldAt, List.mem_append]; left; left; exact hid)
      · exact hold (by simp only [heldAt, List.mem_append]; left; right; exact hid)
      · exact hold (by simp only [heldAt, List.mem_append, List.mem_map]; right; simpa using hid)
      · subst hid; exact hownc

end Uniflow.FlowInv
