/-
C02, joint model, one-in-port node kinds, part 13: `deliverAll` for the abstract-tracer ghost – the nodes behind
the linked readers get the copies into their inbox, nothing else changes.
-/
import Uniflow.Proofs.FlowH12

namespace Uniflow.FlowH
open Uniflow.Tracer Uniflow.Node Uniflow.Flow Uniflow.FlowInv Uniflow.FlowG Uniflow.ATracer
open Uniflow.ATracer (getL_setOrDel getL_aset)

/-- the node part of the invariant -/
structure NIH (N : Nat) (aa : Nat → A) (nodes : List Node) (nx : Nat) : Prop where
  len : ∀ n, (getNode nodes n).isSome = true ↔ n < N
  jb : ∀ n nd, getNode nodes n = some nd → JB nd (aa n) nx

def addInbox (nd : Node) (ps : List Pkt) : Node :=
  { nd with threads := nd.threads.map (fun th => { th with inbox := th.inbox ++ ps }) }

theorem addInbox_nil (nd : Node) : addInbox nd [] = nd := by
  have : nd.threads.map (fun th => ({ th with inbox := th.inbox ++ [] } : Thread)) = nd.threads := by
    induction nd.threads with
    | nil => rfl
    | cons t ts ih => simp [ih]
  simp only [addInbox, this]

theorem addInbox_add (nd : Node) (ps ps' : List Pkt) : addInbox (addInbox nd ps) ps' = addInbox nd (ps ++ ps') := by
  simp only [addInbox, List.map_map]
  congr 1
  apply List.map_congr_left
  intro th _
  simp [List.append_assoc]

theorem deliver_eqH (N : Nat) (hN : N ≤ 1000) (aa : Nat → A) (g : G) (key : Nat) (v : Val) (t : Tgt)
    (h : NIH N aa g.nodes g.next) (ht : TOK N t) :
    deliver g key v t = pushG g key v t ∧ NIH N aa (pushG g key v t).nodes (g.next + 1) ∧
    (∀ m nd, getNode g.nodes m = some nd →
      getNode (pushG g key v t).nodes m =
        some (addInbox nd (if rkeyOf t = rkeyOf (.node m 0) then [⟨g.next, v⟩] else []))) := by
  cases t with
  | sink j =>
    refine ⟨rfl, ⟨h.len, fun n nd hn => jb_mono _ _ _ _ (h.jb n nd hn) (Nat.le_succ _)⟩, ?_⟩
    intro m nd hm
    have : rkeyOf (.sink j) ≠ rkeyOf (.node m 0) := by
      have := (h.len m).mp (by rw [hm]; rfl)
      simp only [rkeyOf]; omega
    simp only [this, if_false, addInbox_nil]; exact hm
  | node m' port =>
    obtain ⟨hm', hp⟩ := ht
    subst hp
    cases hg : getNode g.nodes m' with
    | none => have := (h.len m').mpr hm'; rw [hg] at this; cases this
    | some ndm =>
      have hjb := h.jb m' ndm hg
      obtain ⟨th, hth⟩ := threads_one ndm hjb.one
      obtain ⟨hst, hjb'⟩ := jb_deliver ndm (aa m') g.next hjb th hth g.next v (Nat.le_refl _)
      have hadd : ({ ndm with threads := [{ th with inbox := th.inbox ++ [⟨g.next, v⟩] }] } : Node) =
          addInbox ndm [⟨g.next, v⟩] := by simp [addInbox, hth]
      refine ⟨?_, ⟨?_, ?_⟩, ?_⟩
      · simp only [deliver, hg, hst, pushG, pushNodes, pushSinks]
      · simp only [pushG, pushNodes, hg, hst]
        exact nodesLen_set' g.nodes N m' ndm _ hg h.len
      · intro n nd hn
        simp only [pushG, pushNodes, hg, hst] at hn
        rw [getNode_setNode g.nodes m' n _ (by rw [hg]; rfl)] at hn
        by_cases e : n = m'
        · simp only [e, if_true, Option.some.injEq] at hn; subst hn; rw [e]; exact hjb'
        · simp only [e, if_false] at hn; exact jb_mono _ _ _ _ (h.jb n nd hn) (Nat.le_succ _)
      · intro m nd hm
        simp only [pushG, pushNodes, hg, hst]
        rw [getNode_setNode g.nodes m' m _ (by rw [hg]; rfl)]
        by_cases e : m = m'
        · subst e
          rw [hg] at hm; simp only [Option.some.injEq] at hm; subst hm
          simp only [if_true, hadd]
        · have : rkeyOf (.node m' 0) ≠ rkeyOf (.node m 0) := by simp only [rkeyOf]; omega
          simp only [e, if_false, this, addInbox_nil]; exact hm

theorem deliverAll_eqH (N : Nat) (hN : N ≤ 1000) (aa : Nat → A) (key : Nat) (v : Val) : ∀ (ts : List Tgt) (g : G),
    NIH N aa g.nodes g.next → (∀ t ∈ ts, TOK N t) →
    deliverAll key v ts g = (pushAllG key v ts g, List.range' g.next ts.length) ∧
    NIH N aa (pushAllG key v ts g).nodes (g.next + ts.length) ∧
    (∀ m nd, getNode g.nodes m = some nd →
      getNode (pushAllG key v ts g).nodes m =
        some (addInbox nd ((copyOf ts g.next (rkeyOf (.node m 0))).map (fun c => ⟨c, v⟩))))
  | [], g, h, _ => ⟨rfl, h, fun m nd hm => by simp [pushAllG, copyOf, addInbox_nil, hm]⟩
  | t :: ts, g, h, ht => by
    obtain ⟨e1, h1, n1⟩ := deliver_eqH N hN aa g key v t h (ht t List.mem_cons_self)
    obtain ⟨e2, h2, n2⟩ := deliverAll_eqH N hN aa key v ts (pushG g key v t) h1
      (fun t' ht' => ht t' (List.mem_cons_of_mem _ ht'))
    refine ⟨?_, ?_, ?_⟩
    · simp only [deliverAll, e1, e2, pushAllG, List.length_cons, List.range'_succ]; rfl
    · simp only [pushAllG, List.length_cons]
      have : (pushG g key v t).next = g.next + 1 := rfl
      rw [this] at h2
      have e : g.next + (ts.length + 1) = g.next + 1 + ts.length := by
        rw [Nat.add_comm ts.length 1, Nat.add_assoc]
      rw [e]; exact h2
    · intro m nd hm
      simp only [pushAllG, copyOf]
      rw [n2 m _ (n1 m nd hm), addInbox_add]
      have : (pushG g key v t).next = g.next + 1 := rfl
      rw [this]
      congr 2
      by_cases e : rkeyOf t = rkeyOf (.node m 0)
      · simp [e]
      · simp [e]

theorem heldN_addInbox (nd : Node) (a : A) (ps : List Pkt) (th : Thread) (ht : nd.threads = [th]) :
    heldN (addInbox nd ps) a = heldN nd a ++ ps.map (·.id) := by
  simp [heldN, addInbox, ht, List.append_assoc]

end Uniflow.FlowH
