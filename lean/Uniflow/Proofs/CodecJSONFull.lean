/-
The JSON path for every well-formed type: structs in statically typed positions (via the generalised struct lemmas
of Proofs/CodecStructG.lean with `φ = jd`) and `any` (Props/C16.lean: roundtrip_json). Core Lean only.
-/
import Uniflow.Proofs.CodecStructG
import Uniflow.Proofs.CodecJSON

namespace Uniflow.Codec
open Uniflow.Value

/-- the JSON form as a total function (null where there is none) -/
def jd (x : Val) : Val := (jsonForm x).getD .nil

def mapL (f : Val → Val) : VList → VList
  | .nil => .nil
  | .cons x xs => .cons (f x) (mapL f xs)

mutual
  /-- JSON documents: what `jsonForm` produces (null, booleans, finite float64, valid text, lists, maps with valid
  string keys in Range order) -/
  def jdoc : Val → Bool
    | .nil => true
    | .bool _ => true
    | .f64 b => finite64 b
    | .str s => validUTF8 s
    | .slice xs => jdocL xs
    | .map ps => sortedP ps && jdocP ps
    | _ => false
  def jdocL : VList → Bool
    | .nil => true
    | .cons x xs => jdoc x && jdocL xs
  def jdocP : PList → Bool
    | .nil => true
    | .cons (.str k) v ps => validUTF8 k && jdoc v && jdocP ps
    | .cons _ _ _ => false
end

mutual
  theorem jdoc_fix : (j : Val) → jdoc j = true → jsonForm j = some j
    | .nil, _ => rfl
    | .bool _, _ => rfl
    | .f64 b, h => by simp only [jdoc] at h; simp [jsonForm, h]
    | .str s, h => by simp only [jdoc] at h; simp [jsonForm, h]
    | .slice xs, h => by simp only [jdoc] at h; simp [jsonForm, jdocL_fix xs h]
    | .map ps, h => by simp only [jdoc, Bool.and_eq_true] at h; simp [jsonForm, jdocP_fix ps h.2]
    | .bin _, h | .err _, h | .int _ _, h | .uint _ _, h | .f32 _, h => by simp [jdoc] at h
  theorem jdocL_fix : (xs : VList) → jdocL xs = true → jsonFormL xs = some xs
    | .nil, _ => rfl
    | .cons x xs, h => by
      simp only [jdocL, Bool.and_eq_true] at h
      simp [jsonFormL, jdoc_fix x h.1, jdocL_fix xs h.2]
  theorem jdocP_fix : (ps : PList) → jdocP ps = true → jsonFormP ps = some ps
    | .nil, _ => rfl
    | .cons k v ps, h => by
      cases k <;> simp only [jdocP, Bool.and_eq_true] at h <;> try (cases h; done)
      simp [jsonFormP, h.1.1, jdoc_fix v h.1.2, jdocP_fix ps h.2]
end

mutual
  theorem jdoc_gen : (j : Val) → jdoc j = true → genDoc j = true
    | .nil, _ | .bool _, _ | .f64 _, _ | .str _, _ => by simp [genDoc]
    | .slice xs, h => by simp only [jdoc] at h; simp [genDoc, jdocL_gen xs h]
    | .map ps, h => by simp only [jdoc, Bool.and_eq_true] at h; simp [genDoc, h.1, jdocP_gen ps h.2]
    | .bin _, h | .err _, h | .int _ _, h | .uint _ _, h | .f32 _, h => by simp [jdoc] at h
  theorem jdocL_gen : (xs : VList) → jdocL xs = true → genDocL xs = true
    | .nil, _ => rfl
    | .cons x xs, h => by
      simp only [jdocL, Bool.and_eq_true] at h
      simp [genDocL, jdoc_gen x h.1, jdocL_gen xs h.2]
  theorem jdocP_gen : (ps : PList) → jdocP ps = true → genDocP ps = true
    | .nil, _ => rfl
    | .cons k v ps, h => by
      cases k <;> simp only [jdocP, Bool.and_eq_true] at h <;> try (cases h; done)
      simp [genDocP, jdoc_gen v h.1.2, jdocP_gen ps h.2]
end

/-- the value has a JSON form and that form is a JSON document -/
def okDoc (x : Val) : Bool :=
  match jsonForm x with
  | some j => jdoc j
  | none => false

theorem okDoc_spec {x : Val} (h : okDoc x = true) : jsonForm x = some (jd x) ∧ jdoc (jd x) = true := by
  unfold okDoc at h
  cases hj : jsonForm x with
  | none => simp [hj] at h
  | some j => simp [hj] at h; simp [jd, hj, h]

theorem okDoc_of {x j : Val} (hj : jsonForm x = some j) (hd : jdoc j = true) : okDoc x = true := by
  simp [okDoc, hj, hd]

def okL : VList → Bool
  | .nil => true
  | .cons x xs => okDoc x && okL xs

def okP : PList → Bool
  | .nil => true
  | .cons (.str k) v ps => validUTF8 k && okDoc v && okP ps
  | .cons _ _ _ => false

theorem jsonFormL_ok : ∀ l : VList, okL l = true → jsonFormL l = some (mapL jd l) ∧ jdocL (mapL jd l) = true
  | .nil, _ => ⟨rfl, rfl⟩
  | .cons x xs, h => by
    simp only [okL, Bool.and_eq_true] at h
    have hx := okDoc_spec h.1
    have hr := jsonFormL_ok xs h.2
    simp [jsonFormL, mapL, jdocL, hx.1, hx.2, hr.1, hr.2]

theorem jsonFormP_ok : ∀ m : PList, okP m = true → jsonFormP m = some (mapVals jd m) ∧ jdocP (mapVals jd m) = true
  | .nil, _ => ⟨rfl, rfl⟩
  | .cons k v ps, h => by
    cases k <;> simp only [okP, Bool.and_eq_true] at h <;> try (cases h; done)
    have hx := okDoc_spec h.1.2
    have hr := jsonFormP_ok ps h.2
    simp [jsonFormP, mapVals, jdocP, h.1.1, hx.1, hx.2, hr.1, hr.2]

theorem okDoc_slice {l : VList} (h : okL l = true) : okDoc (.slice l) = true ∧ jd (.slice l) = .slice (mapL jd l) := by
  have := jsonFormL_ok l h
  exact ⟨okDoc_of (j := .slice (mapL jd l)) (by simp [jsonForm, this.1]) (by simp [jdoc, this.2]),
    by simp [jd, jsonForm, this.1]⟩

theorem okDoc_map {m : PList} (h : okP m = true) (hs : sortedP m = true) :
    okDoc (.map m) = true ∧ jd (.map m) = .map (mapVals jd m) := by
  have := jsonFormP_ok m h
  exact ⟨okDoc_of (j := .map (mapVals jd m)) (by simp [jsonForm, this.1]) (by simp [jdoc, this.2, sorted_mapVals, hs]),
    by simp [jd, jsonForm, this.1]⟩

theorem okP_set (k : Bytes) (x : Val) (hk : validUTF8 k = true) (hx : okDoc x = true) :
    ∀ m : PList, okP m = true → okP (mapSet m k x) = true
  | .nil, _ => by simp [mapSet, okP, hk, hx]
  | .cons k0 v0 rest, h => by
    cases k0 <;> simp only [okP, Bool.and_eq_true] at h <;> try (cases h; done)
    simp only [mapSet]
    split
    · simp [okP, h.1.1, hx, h.2]
    · split
      · simp [okP, hk, hx, h.1.1, h.1.2, h.2]
      · simp [okP, h.1.1, h.1.2, okP_set k x hk hx rest h.2]

theorem okDoc_of_find : ∀ (m : PList) (k : Bytes) (x : Val), okP m = true → mapFind m k = some x →
    validUTF8 k = true ∧ okDoc x = true
  | .nil, _, _, _, hf => by simp [mapFind] at hf
  | .cons k0 v0 rest, k, x, h, hf => by
    cases k0 <;> simp only [okP, Bool.and_eq_true] at h <;> try (cases h; done)
    rename_i k0'
    simp only [mapFind] at hf
    by_cases e : k = k0'
    · simp [e] at hf; subst hf; subst e; exact ⟨h.1.1, h.1.2⟩
    · simp [e] at hf; exact okDoc_of_find rest k x h.2 hf


/-! ## every guarded value's encoding has a JSON document -/

theorem okDoc_b64 (bs : Bytes) (h : bytesOk bs = true) : okDoc (.bin bs) = true :=
  okDoc_of (j := .str (b64enc bs)) (by simp [jsonForm])
    (by simp only [jdoc]; exact validUTF8_ascii _ (b64enc_ascii bs (bytesOk_lt h)))

theorem okDoc_int (w : Width) (v : Int) (g : in53 v = true) : okDoc (.int w v) = true := by
  obtain ⟨b, hb, _, hf⟩ := f64_int_rt v (in53_iff.mp g).1 (in53_iff.mp g).2
  exact okDoc_of (j := .f64 b) (by simp [jsonForm, hb]) (by simp [jdoc, hf])

mutual
  theorem jd_enc : (v : GoVal) → ∀ t : GoType, hasType t v = true → jsonOK t v = true → okDoc (encode t v) = true
    | .int v, t, h, g => by
      cases t <;> simp [hasType] at h
      simp only [jsonOK] at g; simpa [encode] using okDoc_int _ v g
    | .uint v, t, h, g => by
      cases t <;> simp [hasType] at h
      simp only [jsonOK, decide_eq_true_eq] at g
      obtain ⟨b, hb, _, _, hf⟩ := f64_nat_rt v g
      exact okDoc_of (j := .f64 b) (by simp [encode, jsonForm, hb]) (by simp [jdoc, hf])
    | .f32 b, t, h, g => by
      cases t <;> simp [hasType] at h
      simp [jsonOK] at g
    | .f64 b, t, h, g => by
      cases t <;> simp [hasType] at h
      simp only [jsonOK] at g
      exact okDoc_of (j := .f64 b) (by simp [encode, jsonForm, g]) (by simp [jdoc, g])
    | .str s, t, h, g => by
      cases t <;> simp [hasType] at h
      simp only [jsonOK] at g
      exact okDoc_of (j := .str s) (by simp [encode, jsonForm, g]) (by simp [jdoc, g])
    | .bool b, t, h, _ => by
      cases t <;> simp [hasType] at h
      exact okDoc_of (j := .bool b) (by simp [encode, jsonForm]) (by simp [jdoc])
    | .bytesNil, t, h, _ => by
      cases t <;> simp [hasType] at h
      simpa [encode] using okDoc_b64 [] (by simp [bytesOk])
    | .bytes bs, t, h, _ => by
      cases t <;> simp [hasType] at h
      simpa [encode] using okDoc_b64 bs h
    | .barr bs, t, h, _ => by
      cases t <;> simp [hasType] at h
      simpa [encode] using okDoc_b64 bs h.2
    | .time ms lost, t, h, g => by
      cases t <;> simp [hasType] at h
      simp only [jsonOK] at g; simpa [encode] using okDoc_int .w64 ms g
    | .dur ns, t, h, g => by
      cases t <;> simp [hasType] at h
      simp only [jsonOK] at g; simpa [encode] using okDoc_int .w64 (durMs ns) g
    | .uuid bs, t, h, _ => by
      cases t <;> simp [hasType] at h
      exact okDoc_of (j := .str (uuidText bs)) (by simp [encode, jsonForm, uuidText_valid bs h.2])
        (by simp [jdoc, uuidText_valid bs h.2])
    | .ptrNil, t, h, _ => by
      cases t <;> simp [hasType] at h
      exact okDoc_of (j := .nil) (by simp [encode, jsonForm]) (by simp [jdoc])
    | .ptr v, t, h, g => by
      cases t <;> simp [hasType] at h
      simp only [jsonOK] at g
      simpa [encode] using jd_enc v _ h g
    | .sliceNil, t, h, _ => by
      cases t <;> simp [hasType] at h
      simpa [encode] using (okDoc_slice (l := .nil) rfl).1
    | .slice xs, t, h, g => by
      cases t <;> simp [hasType] at h
      simp only [jsonOK] at g
      simpa [encode] using (okDoc_slice (jd_encL xs _ h g)).1
    | .arr xs, t, h, g => by
      cases t <;> simp [hasType] at h
      simp only [jsonOK] at g
      simpa [encode] using (okDoc_slice (jd_encL xs _ h.2 g)).1
    | .mapNil, t, h, _ => by
      cases t <;> simp [hasType] at h
      simpa [encode] using (okDoc_map (m := .nil) rfl rfl).1
    | .map kvs, t, h, g => by
      cases t <;> simp [hasType] at h
      rename_i t'
      simp only [jsonOK] at g
      simpa [encode] using (okDoc_map (jd_encKV kvs t' .nil h.1 g rfl) (encodeKV_spec t' [] kvs .nil rfl).1).1
    | .struct vs, t, h, g => by
      cases t <;> try (simp [hasType] at h; done)
      rename_i fs
      simp only [hasType, Bool.and_eq_true] at h
      simp only [jsonOK] at g
      simpa [encode] using (okDoc_map (jd_encF vs fs .nil h.1 g rfl) (encodeFields_spec [] fs vs .nil rfl).1).1
    | .anyNil, t, h, _ => by
      cases t <;> simp [hasType] at h
      exact okDoc_of (j := .nil) (by simp [encode, jsonForm]) (by simp [jdoc])
    | .any t' v, t, h, g => by
      cases t <;> simp [hasType] at h
      simp only [jsonOK] at g
      simpa [encode] using jd_enc v t' h.2 g
  theorem jd_encL : (xs : GoVals) → ∀ t : GoType, hasTypeL t xs = true → jsonOKL t xs = true → okL (encodeL t xs) = true
    | .nil, _, _, _ => rfl
    | .cons v vs, t, h, g => by
      simp only [hasTypeL, Bool.and_eq_true] at h
      simp only [jsonOKL, Bool.and_eq_true] at g
      simp [encodeL, okL, jd_enc v t h.1 g.1, jd_encL vs t h.2 g.2]
  theorem jd_encKV : (kvs : GoKVs) → ∀ (t : GoType) (acc : PList), hasTypeKV t kvs = true → jsonOKKV t kvs = true →
      okP acc = true → okP (encodeKV t kvs acc) = true
    | .nil, _, _, _, _, ha => by simpa [encodeKV] using ha
    | .cons k v kvs, t, acc, h, g, ha => by
      simp only [hasTypeKV, Bool.and_eq_true] at h
      simp only [jsonOKKV, Bool.and_eq_true] at g
      simp only [encodeKV]
      exact jd_encKV kvs t _ h.2 g.2 (okP_set k _ g.1.1 (jd_enc v t h.1.2 g.1.2) acc ha)
  theorem jd_encF : (vs : GoVals) → ∀ (fs : Fields) (acc : PList), hasTypeF fs vs = true → jsonOKF fs vs = true →
      okP acc = true → okP (encodeFields fs vs acc) = true
    | .nil, fs, acc, _, _, ha => by cases fs <;> simpa [encodeFields] using ha
    | .cons v vs, .nil, acc, _, _, ha => by simpa [encodeFields] using ha
    | .cons v vs, .cons md a t rest, acc, h, g, ha => by
      simp only [hasTypeF, Bool.and_eq_true] at h
      cases md
      · simp only [jsonOKF, Bool.and_eq_true] at g
        simp only [encodeFields]
        exact jd_encF vs rest _ h.2 g.2 (okP_set a _ g.1.1 (jd_enc v t h.1 g.1.2) acc ha)
      · simp only [jsonOKF, Bool.and_eq_true] at g
        simp only [encodeFields]
        split
        · exact jd_encF vs rest _ h.2 g.2 ha
        · exact jd_encF vs rest _ h.2 g.2 (okP_set a _ g.1.1 (jd_enc v t h.1 g.1.2) acc ha)
      · simp only [jsonOKF, Bool.and_eq_true] at g
        cases t <;> cases v <;> simp only [encodeFields] <;> (try (simp [hasType] at h; done)) <;>
          first
          | exact jd_encF vs rest _ h.2 g.2 ha
          | (simp only [hasType, Bool.and_eq_true] at h; simp only [jsonOK] at g
             exact jd_encF vs rest _ h.2 g.2 (jd_encKV _ _ acc h.1.1 g.1 ha))
          | (simp only [hasType, Bool.and_eq_true] at h; simp only [jsonOK] at g
             exact jd_encF vs rest _ h.2 g.2 (jd_encF _ _ acc h.1.1 g.1 ha))
      · simp only [jsonOKF] at g
        simp only [encodeFields]
        exact jd_encF vs rest _ h.2 g ha
end


/-! ## what a JSON round trip of one value yields -/

def isSimpleOpen : GoType → Bool
  | .any => true | .ptr _ => true | .slice _ => true | .map _ => true
  | _ => false

/-- types for which "encodes like the zero value" is shown to be preserved by the JSON round trip: closed types,
and `any`, pointers, slices and maps of anything -/
def soc (t : GoType) : Bool := closed t || isSimpleOpen t

mutual
  /-- the static-type condition of the JSON theorem: an omitempty field whose type contains `any` is itself an
  `any`, a pointer, a slice or a map (not an array or struct with an open component) -/
  def jtOK : GoType → Bool
    | .ptr t => jtOK t | .slice t => jtOK t | .arr _ t => jtOK t | .map t => jtOK t
    | .struct fs => jtOKF fs
    | _ => true
  def jtOKF : Fields → Bool
    | .nil => true
    | .cons .omit _ t rest => soc t && jtOK t && jtOKF rest
    | .cons .ignored _ _ rest => jtOKF rest
    | .cons _ _ t rest => jtOK t && jtOKF rest
end

/-- the outcome of sending one value through JSON -/
def RJ (t : GoType) (v : GoVal) : Prop :=
  ∃ w, decode t (jd (encode t v)) = .ok w ∧ jd (encode t w) = jd (encode t v) ∧ okDoc (encode t w) = true ∧
    (closed t = true → w = canon t v) ∧
    equal (encode t w) (zeroDoc t) = equal (encode t v) (zeroDoc t)

/-- the same for a document entry `x` -/
def RJx (t : GoType) (x : Val) : Prop :=
  okDoc x = true ∧ ∃ w, decode t (jd x) = .ok w ∧ jd (encode t w) = jd x ∧ okDoc (encode t w) = true

theorem jd_nil_iff {x : Val} (h : okDoc x = true) : jd x = .nil ↔ x = .nil := by
  constructor
  · intro e
    have := (okDoc_spec h).1
    rw [e] at this
    exact jsonForm_nil this
  · intro e; subst e; rfl

theorem decodeField_ne_nil {d : Val → Res GoVal} {z : GoVal} {x : Val} (h : x ≠ .nil) : decodeField d z x = d x := by
  cases x <;> first | rfl | exact absurd rfl h

theorem map_or {α β : Type} (f : α → β) (a b : Option α) : (a.or b).map f = (a.map f).or (b.map f) := by
  cases a <;> simp

/-- decoding a sorted document pair by pair: which entries the result has -/
theorem decodeP_sorted_G (t : GoType) : ∀ q : PList, sortedP q = true →
    (∀ k y, mapFind q k = some y → ∃ w, decode t y = .ok w) →
    ∃ kvs', decodeP (decode t) q = .ok kvs' ∧ ∀ k,
      (mapFind q k = none → lastKV t kvs' k = none) ∧
      (∀ y, mapFind q k = some y → ∃ w, decode t y = .ok w ∧ lastKV t kvs' k = some (encode t w))
  | .nil, _, _ => ⟨.nil, by simp [decodeP], by intro k; simp [lastKV, mapFind]⟩
  | .cons k0 x0 rest, hs, hv => by
    obtain ⟨k0', rfl, hl, hr⟩ := sorted_cons hs
    obtain ⟨w0, hd0⟩ := hv k0' x0 (by simp [mapFind])
    have hrest : ∀ k y, mapFind rest k = some y → ∃ w, decode t y = .ok w := by
      intro k y hf
      apply hv k y
      have : k ≠ k0' := by intro e; subst e; rw [find_none_of_ltAll rest hl] at hf; cases hf
      simp [mapFind, this, hf]
    obtain ⟨kvs, hd, hk⟩ := decodeP_sorted_G t rest hr hrest
    refine ⟨.cons k0' w0 kvs, by simp [decodeP, hd0, hd, Res.bind, Res.map], ?_⟩
    intro k
    by_cases e : k = k0'
    · subst e
      have hn := (hk k).1 (find_none_of_ltAll rest hl)
      constructor
      · intro h; simp [mapFind] at h
      · intro y hy
        simp [mapFind] at hy; subst hy
        exact ⟨w0, hd0, by simp [lastKV, hn]⟩
    · constructor
      · intro h
        have : mapFind rest k = none := by simpa [mapFind, e] using h
        simp [lastKV, (hk k).1 this, e]
      · intro y hy
        have : mapFind rest k = some y := by simpa [mapFind, e] using hy
        obtain ⟨w, h1, h2⟩ := (hk k).2 y this
        exact ⟨w, h1, by simp [lastKV, h2, e]⟩

theorem okP_of_finds : ∀ m : PList, sortedP m = true →
    (∀ k x, mapFind m k = some x → validUTF8 k = true ∧ okDoc x = true) → okP m = true
  | .nil, _, _ => rfl
  | .cons k0 x0 rest, hs, h => by
    obtain ⟨k0', rfl, hl, hr⟩ := sorted_cons hs
    have h0 := h k0' x0 (by simp [mapFind])
    have hrest : ∀ k x, mapFind rest k = some x → validUTF8 k = true ∧ okDoc x = true := by
      intro k x hf
      apply h k x
      have : k ≠ k0' := by intro e; subst e; rw [find_none_of_ltAll rest hl] at hf; cases hf
      simp [mapFind, this, hf]
    simp [okP, h0.1, h0.2, okP_of_finds rest hr hrest]

/-- a re-encoded document whose entries have the same JSON forms as the original's has the same JSON form -/
theorem reenc_doc (m' m : PList) (hs' : sortedP m' = true) (hs : sortedP m = true) (hok : okP m = true)
    (ha : ∀ k, (mapFind m' k).map jd = (mapFind m k).map jd)
    (hb : ∀ k x, mapFind m' k = some x → okDoc x = true) :
    okDoc (.map m') = true ∧ jd (.map m') = jd (.map m) := by
  have hok' : okP m' = true := by
    apply okP_of_finds m' hs'
    intro k x hf
    refine ⟨?_, hb k x hf⟩
    have := ha k
    rw [hf] at this
    cases hm : mapFind m k with
    | none => simp [hm] at this
    | some x0 => exact (okDoc_of_find m k x0 hok hm).1
  have e : mapVals jd m' = mapVals jd m := by
    apply sorted_ext _ _ (by rw [sorted_mapVals]; exact hs') (by rw [sorted_mapVals]; exact hs)
    intro k; rw [find_mapVals, find_mapVals]; exact ha k
  exact ⟨(okDoc_map hok' hs').1, by rw [(okDoc_map hok' hs').2, (okDoc_map hok hs).2, e]⟩

theorem enc_canon {t : GoType} {v : GoVal} (hc : closed t = true) (hw : t.wf = true) (h : hasType t v = true) :
    encode t (canon t v) = encode t v := by
  obtain ⟨v', hd, he⟩ := rt_all v t hw h
  rw [co v t hc hw h] at hd
  cases hd; exact he

/-- one named / omitempty field through JSON -/
theorem field_J {t : GoType} {v w : GoVal} (hw : t.wf = true) (ht : hasType t v = true)
    (hok : okDoc (encode t v) = true) (hr : RJ t v)
    (hd : decodeField (decode t) (zero t) (jd (encode t v)) = .ok w) :
    jd (encode t w) = jd (encode t v) ∧ okDoc (encode t w) = true ∧ (closed t = true → w = canon t v) ∧
      equal (encode t w) (zeroDoc t) = equal (encode t v) (zeroDoc t) := by
  by_cases hn : jd (encode t v) = .nil
  · have he : encode t v = .nil := (jd_nil_iff hok).mp hn
    rw [hn] at hd; simp only [decodeField] at hd; cases hd
    have hz : encode t (zero t) = encode t v := by rw [zeroDoc_eq, enc_nil_ty ht he, he]
    exact ⟨by rw [hz], by rw [hz]; exact hok, fun hc => (canon_nil hc ht he).symm, by rw [hz]⟩
  · rw [decodeField_ne_nil hn] at hd
    obtain ⟨w0, h1, h2, h3, h4, h5⟩ := hr
    rw [h1] at hd; cases hd
    exact ⟨h2, h3, h4, h5⟩


/-! ## maps and structs through JSON -/

def MapIHJ (t' : GoType) (kvs : GoKVs) : Prop :=
  (∀ k x, lastKV t' kvs k = some x → RJx t' x) ∧
  (closed t' = true → decodeP (decode t') (mapVals jd (encodeKV t' kvs .nil)) = .ok (canonKV t' kvs .nil))

def FieldsIHJ : Fields → GoVals → Prop
  | .cons m _ t rest, .cons v vs =>
    (match m, t, v with
     | .named, _, _ => okDoc (encode t v) = true ∧ RJ t v
     | .omit, _, _ => okDoc (encode t v) = true ∧ RJ t v
     | .inline, .struct fs', .struct vs' => FieldsIHJ fs' vs'
     | .inline, .map t', .map kvs => MapIHJ t' kvs
     | _, _, _ => True) ∧ FieldsIHJ rest vs
  | _, _ => True

theorem map_rj (t' : GoType) (kvs : GoKVs) (h : ∀ k x, lastKV t' kvs k = some x → RJx t' x) :
    ∃ kvs', decodeP (decode t') (mapVals jd (encodeKV t' kvs .nil)) = .ok kvs' ∧
      (∀ k, (lastKV t' kvs' k).map jd = (lastKV t' kvs k).map jd) ∧
      (∀ k x, lastKV t' kvs' k = some x → okDoc x = true) := by
  have sp := fun k => encodeKV_spec t' k kvs .nil rfl
  have hq : ∀ k, mapFind (mapVals jd (encodeKV t' kvs .nil)) k = (lastKV t' kvs k).map jd := by
    intro k; rw [find_mapVals, (sp k).2]; simp [mapFind]
  obtain ⟨kvs', hd, hk⟩ := decodeP_sorted_G t' (mapVals jd (encodeKV t' kvs .nil))
    (by rw [sorted_mapVals]; exact (sp []).1) (by
      intro k y hf
      rw [hq k] at hf
      cases hl : lastKV t' kvs k with
      | none => simp [hl] at hf
      | some x =>
        simp [hl] at hf; subst hf
        obtain ⟨_, w, h1, _, _⟩ := h k x hl
        exact ⟨w, h1⟩)
  refine ⟨kvs', hd, ?_, ?_⟩
  · intro k
    cases hf : mapFind (mapVals jd (encodeKV t' kvs .nil)) k with
    | none => rw [(hk k).1 hf, ← hq k, hf]; rfl
    | some y =>
      obtain ⟨w, h1, h2⟩ := (hk k).2 y hf
      rw [hq k] at hf
      cases hl : lastKV t' kvs k with
      | none => simp [hl] at hf
      | some x =>
        simp [hl] at hf; subst hf
        obtain ⟨_, w0, h3, h4, _⟩ := h k x hl
        rw [h3] at h1; cases h1
        simp [h2, h4]
  · intro k x' hx'
    cases hf : mapFind (mapVals jd (encodeKV t' kvs .nil)) k with
    | none => rw [(hk k).1 hf] at hx'; cases hx'
    | some y =>
      obtain ⟨w, h1, h2⟩ := (hk k).2 y hf
      rw [hq k] at hf
      cases hl : lastKV t' kvs k with
      | none => simp [hl] at hf
      | some x =>
        simp [hl] at hf; subst hf
        obtain ⟨_, w0, h3, _, h5⟩ := h k x hl
        rw [h3] at h1; cases h1
        rw [h2] at hx'; cases hx'; exact h5

theorem ihj_to_g : (fs : Fields) → (vs : GoVals) → Fields.wf fs = true → hasTypeF fs vs = true →
    FieldsIHJ fs vs → FieldsIHG jd fs vs
  | .nil, vs, _, _, _ => by cases vs <;> simp [FieldsIHG]
  | .cons md a t rest, .nil, _, ht, _ => by simp [hasTypeF] at ht
  | .cons md a t rest, .cons v vs, hw, ht, h => by
    have sh := fshape hw ht
    simp only [hasTypeF, Bool.and_eq_true] at ht
    cases sh with
    | nam =>
      simp only [Fields.wf, Bool.and_eq_true] at hw
      simp only [FieldsIHJ] at h; simp only [FieldsIHG]
      obtain ⟨w, h1, _⟩ := h.1.2
      exact ⟨⟨w, h1⟩, ihj_to_g rest vs hw.2 ht.2 h.2⟩
    | omi =>
      simp only [Fields.wf, Bool.and_eq_true] at hw
      simp only [FieldsIHJ] at h; simp only [FieldsIHG]
      obtain ⟨w, h1, _⟩ := h.1.2
      exact ⟨⟨w, h1⟩, ihj_to_g rest vs hw.2 ht.2 h.2⟩
    | ign =>
      simp only [Fields.wf, Bool.and_eq_true] at hw
      simp only [FieldsIHJ] at h; simp only [FieldsIHG]
      exact ⟨trivial, ihj_to_g rest vs hw.2 ht.2 h.2⟩
    | istruct fs' vs' =>
      simp only [Fields.wf, Bool.and_eq_true] at hw
      simp only [hasType, Bool.and_eq_true] at ht
      simp only [FieldsIHJ] at h; simp only [FieldsIHG]
      exact ⟨ihj_to_g fs' vs' hw.1.1 ht.1.1 h.1, ihj_to_g rest vs hw.2 ht.2 h.2⟩
    | imap t' kvs =>
      simp only [Fields.wf, Bool.and_eq_true] at hw
      simp only [FieldsIHJ] at h; simp only [FieldsIHG]
      obtain ⟨kvs', hd, _⟩ := map_rj t' kvs h.1.1
      exact ⟨⟨kvs', hd⟩, ihj_to_g rest vs hw.2 ht.2 h.2⟩
    | imapNil t' =>
      simp only [Fields.wf, Bool.and_eq_true] at hw
      simp only [FieldsIHJ] at h; simp only [FieldsIHG]
      exact ⟨trivial, ihj_to_g rest vs hw.2 ht.2 h.2⟩

/-- what the decoded struct re-encodes to, field by field -/
theorem dec_J : (fs : Fields) → (vs ws : GoVals) → Fields.wf fs = true → hasTypeF fs vs = true →
    DecG jd true fs vs ws → FieldsIHJ fs vs →
    (∀ k, (lastF fs ws k).map jd = (lastF fs vs k).map jd) ∧
    (∀ k x, lastF fs ws k = some x → okDoc x = true) ∧
    (closedF fs = true → ws = canonF fs vs)
  | .nil, .nil, .nil, _, _, _, _ => ⟨fun _ => rfl, by intro k x h; simp [lastF] at h, fun _ => by simp [canonF]⟩
  | .nil, .nil, .cons _ _, _, _, hd, _ => by simp [DecG] at hd
  | .nil, .cons _ _, _, _, ht, _, _ => by simp [hasTypeF] at ht
  | .cons md a t rest, .nil, _, _, ht, _, _ => by simp [hasTypeF] at ht
  | .cons md a t rest, .cons v vs, .nil, _, _, hd, _ => by simp [DecG] at hd
  | .cons md a t rest, .cons v vs, .cons w ws, hw, ht, hd, hih => by
    have sh := fshape hw ht
    simp only [hasTypeF, Bool.and_eq_true] at ht
    cases sh with
    | nam =>
      simp only [Fields.wf, Bool.and_eq_true] at hw
      simp only [DecG] at hd
      simp only [FieldsIHJ] at hih
      obtain ⟨ia, ib, ic⟩ := dec_J rest vs ws hw.2 ht.2 hd.2 hih.2
      obtain ⟨f1, f2, f3, _⟩ := field_J hw.1 ht.1 hih.1.1 hih.1.2 hd.1
      refine ⟨?_, ?_, ?_⟩
      · intro k; simp only [lastF, map_or, ia k]
        by_cases e : k = a <;> simp [e, f1]
      · intro k x hx
        simp only [lastF] at hx
        cases hr : lastF rest ws k with
        | some x' => rw [hr] at hx; simp at hx; subst hx; exact ib k x' hr
        | none =>
          rw [hr] at hx
          by_cases e : k = a
          · simp [e] at hx; subst hx; exact f2
          · simp [e] at hx
      · intro hc
        simp only [closedF, Bool.and_eq_true] at hc
        simp [canonF, f3 hc.1, ic hc.2]
    | omi =>
      simp only [Fields.wf, Bool.and_eq_true] at hw
      simp only [DecG] at hd
      simp only [FieldsIHJ] at hih
      obtain ⟨ia, ib, ic⟩ := dec_J rest vs ws hw.2 ht.2 hd.2 hih.2
      by_cases z : equal (encode t v) (zeroDoc t) = true
      · have hd1 := hd.1
        simp only [z, if_true, decodeField] at hd1
        cases hd1
        have zw : equal (encode t (zero t)) (zeroDoc t) = true := by rw [zeroDoc_eq]; exact equal_refl' _
        refine ⟨?_, ?_, ?_⟩
        · intro k; simp [lastF, z, zw, ia k]
        · intro k x hx; simp only [lastF, zw, if_true] at hx; exact ib k x hx
        · intro hc
          simp only [closedF, Bool.and_eq_true] at hc
          simp [canonF, z, ic hc.2]
      · have z' : equal (encode t v) (zeroDoc t) = false := by simpa using z
        have hd1 := hd.1
        simp only [z', Bool.false_eq_true, if_false] at hd1
        obtain ⟨f1, f2, f3, f4⟩ := field_J hw.1 ht.1 hih.1.1 hih.1.2 hd1
        have zw : equal (encode t w) (zeroDoc t) = false := by rw [f4]; exact z'
        refine ⟨?_, ?_, ?_⟩
        · intro k; simp only [lastF, z', zw, Bool.false_eq_true, if_false, map_or, ia k]
          by_cases e : k = a <;> simp [e, f1]
        · intro k x hx
          simp only [lastF, zw, Bool.false_eq_true, if_false] at hx
          cases hr : lastF rest ws k with
          | some x' => rw [hr] at hx; simp at hx; subst hx; exact ib k x' hr
          | none =>
            rw [hr] at hx
            by_cases e : k = a
            · simp [e] at hx; subst hx; exact f2
            · simp [e] at hx
        · intro hc
          simp only [closedF, Bool.and_eq_true] at hc
          simp [canonF, z', f3 hc.1, ic hc.2]
    | ign =>
      simp only [Fields.wf, Bool.and_eq_true] at hw
      simp only [DecG] at hd
      simp only [FieldsIHJ] at hih
      obtain ⟨ia, ib, ic⟩ := dec_J rest vs ws hw.2 ht.2 hd.2 hih.2
      refine ⟨by intro k; simp [lastF, ia k], by intro k x hx; simp only [lastF] at hx; exact ib k x hx, ?_⟩
      intro hc
      simp only [closedF] at hc
      simp [canonF, hd.1, ic hc]
    | istruct fs' vs' =>
      simp only [Fields.wf, Bool.and_eq_true, decide_eq_true_eq] at hw
      simp only [DecG] at hd
      simp only [FieldsIHJ] at hih
      simp only [hasType, Bool.and_eq_true] at ht
      obtain ⟨⟨ws', rfl, hd'⟩, hdr⟩ := hd
      obtain ⟨ia, ib, ic⟩ := dec_J rest vs ws hw.2 ht.2 hdr hih.2
      obtain ⟨ja, jb, jc⟩ := dec_J fs' vs' ws' hw.1.1 ht.1.1 hd' hih.1
      refine ⟨by intro k; simp [lastF, map_or, ia k, ja k], ?_, ?_⟩
      · intro k x hx
        simp only [lastF] at hx
        cases hr : lastF rest ws k with
        | some x' => rw [hr] at hx; simp at hx; subst hx; exact ib k x' hr
        | none => rw [hr] at hx; simp at hx; exact jb k x hx
      · intro hc
        simp only [closedF, closed, Bool.and_eq_true] at hc
        simp [canonF, jc hc.1, ic hc.2]
    | imap t' kvs =>
      simp only [Fields.wf, Bool.and_eq_true] at hw
      simp only [DecG] at hd
      simp only [FieldsIHJ] at hih
      obtain ⟨⟨kvs', rfl, hdk⟩, hdr⟩ := hd
      obtain ⟨ia, ib, ic⟩ := dec_J rest vs ws hw.2 ht.2 hdr hih.2
      obtain ⟨kvs'', hdk', ka, kb⟩ := map_rj t' kvs hih.1.1
      simp only [kvsOf] at hdk
      rw [hdk'] at hdk; cases hdk
      refine ⟨by intro k; simp [lastF, map_or, ia k, ka k], ?_, ?_⟩
      · intro k x hx
        simp only [lastF] at hx
        cases hr : lastF rest ws k with
        | some x' => rw [hr] at hx; simp at hx; subst hx; exact ib k x' hr
        | none => rw [hr] at hx; simp at hx; exact kb k x hx
      · intro hc
        simp only [closedF, closed, Bool.and_eq_true] at hc
        have := hih.1.2 hc.1
        rw [hdk'] at this; cases this
        simp [canonF, ic hc.2]
    | imapNil t' =>
      simp only [Fields.wf, Bool.and_eq_true] at hw
      simp only [DecG] at hd
      simp only [FieldsIHJ] at hih
      obtain ⟨⟨kvs', rfl, hdk⟩, hdr⟩ := hd
      simp only [kvsOf, encodeKV, mapVals, decodeP] at hdk
      cases hdk
      obtain ⟨ia, ib, ic⟩ := dec_J rest vs ws hw.2 ht.2 hdr hih.2
      refine ⟨by intro k; simp [lastF, lastKV, ia k], ?_, ?_⟩
      · intro k x hx; simp only [lastF, lastKV, Option.or_none] at hx; exact ib k x hx
      · intro hc
        simp only [closedF, closed, Bool.and_eq_true] at hc
        simp [canonF, ic hc.2]


/-! ## `Equal` with the zero value's encoding -/

theorem equal_slice (a b : VList) : equal (.slice a) (.slice b) = equalL a b := by
  cases h : equalL a b with
  | false => simp [equal, h]
  | true => simp [equal, h, equalL_hash a b h]

theorem equal_map (p q : PList) : equal (.map p) (.map q) = equalP p q := by
  cases h : equalP p q with
  | false => simp [equal, h]
  | true => simp [equal, h, equalP_hash p q h]

/-- two sorted documents with the same keys compare alike with a third one if their entries do -/
theorem equalP_congr : ∀ (p p' q : PList), sortedP p = true → sortedP p' = true → sortedP q = true →
    (∀ k, (mapFind p k).isSome = (mapFind p' k).isSome) →
    (∀ k v v' z, mapFind p k = some v → mapFind p' k = some v' → mapFind q k = some z → equal v z = equal v' z) →
    equalP p q = equalP p' q
  | .nil, .nil, _, _, _, _, _, _ => rfl
  | .nil, .cons k v r, _, _, hs', _, hp, _ => by
    obtain ⟨k', rfl, _, _⟩ := sorted_cons hs'
    have := hp k'; simp [mapFind] at this
  | .cons k v r, .nil, _, hs, _, _, hp, _ => by
    obtain ⟨k', rfl, _, _⟩ := sorted_cons hs
    have := hp k'; simp [mapFind] at this
  | .cons k v r, .cons k' v' r', q, hs, hs', hq, hp, hv => by
    obtain ⟨a, rfl, hla, hra⟩ := sorted_cons hs
    obtain ⟨b, rfl, hlb, hrb⟩ := sorted_cons hs'
    have hk : a = b := by
      apply klt_total
      · cases l : klt a b with
        | false => rfl
        | true =>
          have h1 := hp a
          have : keyLtAll a (.cons (.str b) v' r') = true := by simp [keyLtAll, l, ltAll_trans l r' hlb]
          rw [find_none_of_ltAll _ this] at h1
          simp [mapFind] at h1
      · cases l : klt b a with
        | false => rfl
        | true =>
          have h1 := hp b
          have : keyLtAll b (.cons (.str a) v r) = true := by simp [keyLtAll, l, ltAll_trans l r hla]
          rw [find_none_of_ltAll _ this] at h1
          simp [mapFind] at h1
    subst hk
    have hpr : ∀ k, (mapFind r k).isSome = (mapFind r' k).isSome := by
      intro k
      by_cases e : k = a
      · subst e; rw [find_none_of_ltAll r hla, find_none_of_ltAll r' hlb]
      · have := hp k; simpa [mapFind, e] using this
    cases q with
    | nil => simp [equalP]
    | cons kq z rq =>
      obtain ⟨c, rfl, hlc, hrc⟩ := sorted_cons hq
      simp only [equalP]
      by_cases e : a = c
      · subst e
        have h0 : equal v z = equal v' z := hv a v v' z (by simp [mapFind]) (by simp [mapFind]) (by simp [mapFind])
        have ih := equalP_congr r r' rq hra hrb hrc hpr (by
          intro k x x' y h1 h2 h3
          have ne : k ≠ a := by intro e; subst e; rw [find_none_of_ltAll r hla] at h1; cases h1
          exact hv k x x' y (by simp [mapFind, ne, h1]) (by simp [mapFind, ne, h2]) (by simp [mapFind, ne, h3]))
        rw [h0, ih]
      · simp [equal, e]

/-- the entry the zero value's encoding has under key `k` -/
def zlast : Fields → Bytes → Option Val
  | .nil, _ => none
  | .cons .named a t rest, k => (zlast rest k).or (if k = a then some (zeroDoc t) else none)
  | .cons .inline _ (.struct fs') rest, k => (zlast rest k).or (zlast fs' k)
  | .cons _ _ _ rest, k => zlast rest k

theorem zeroDocF_spec (k : Bytes) : ∀ (fs : Fields) (acc : PList), sortedP acc = true →
    sortedP (zeroDocF fs acc) = true ∧ mapFind (zeroDocF fs acc) k = (zlast fs k).or (mapFind acc k)
  | .nil, acc, h => by simp [zeroDocF, zlast, h]
  | .cons md a t rest, acc, h => by
    cases md
    · have ih := zeroDocF_spec k rest (mapSet acc a (zeroDoc t)) (sorted_set _ _ acc h)
      simp only [zeroDocF, zlast]
      refine ⟨ih.1, ?_⟩
      rw [ih.2, find_set _ _ _ acc h]
      by_cases e : k = a <;> simp [e, Option.or_assoc]
    · simp only [zeroDocF, zlast]; exact zeroDocF_spec k rest acc h
    · cases t
      case struct fs' =>
        have i1 := zeroDocF_spec k fs' acc h
        have i2 := zeroDocF_spec k rest _ i1.1
        simp only [zeroDocF, zlast]
        exact ⟨i2.1, by rw [i2.2, i1.2, Option.or_assoc]⟩
      all_goals (simp only [zeroDocF, zlast]; exact zeroDocF_spec k rest acc h)
    · simp only [zeroDocF, zlast]; exact zeroDocF_spec k rest acc h

theorem zlast_none (k : Bytes) : ∀ fs : Fields, k ∉ aliases fs → zlast fs k = none
  | .nil, _ => rfl
  | .cons md a t rest, h => by
    cases md
    · simp only [aliases, List.mem_cons, not_or] at h
      simp [zlast, zlast_none k rest h.2, h.1]
    · simp only [aliases, List.mem_cons, not_or] at h
      simp [zlast, zlast_none k rest h.2]
    · cases t
      case struct fs' =>
        simp only [aliases, List.mem_append, not_or] at h
        simp [zlast, zlast_none k rest h.2, zlast_none k fs' h.1]
      all_goals (simp only [aliases] at h; simp [zlast, zlast_none k rest h])
    · simp only [aliases] at h
      simp [zlast, zlast_none k rest h]

theorem none_of_map_jd {a b : Option Val} (h : a.map jd = b.map jd) (hb : b = none) : a = none := by
  subst hb; cases a <;> simp_all

/-- entry by entry, the re-encoded struct compares with the zero value's encoding as the original does -/
theorem dec_Z : (fs : Fields) → (vs ws : GoVals) → Fields.wf fs = true → hasTypeF fs vs = true →
    (aliases fs).Nodup → (∀ k ∈ inlineKeys fs vs, k ∉ aliases fs) →
    DecG jd true fs vs ws → FieldsIHJ fs vs →
    ∀ k v v' z, lastF fs ws k = some v → lastF fs vs k = some v' → zlast fs k = some z → equal v z = equal v' z
  | .nil, .nil, .nil, _, _, _, _, _, _, k, v, v', z, h1, _, _ => by simp [lastF] at h1
  | .nil, .nil, .cons _ _, _, _, _, _, hd, _, _, _, _, _, _, _, _ => by simp [DecG] at hd
  | .nil, .cons _ _, _, _, ht, _, _, _, _, _, _, _, _, _, _, _ => by simp [hasTypeF] at ht
  | .cons md a t rest, .nil, _, _, ht, _, _, _, _, _, _, _, _, _, _, _ => by simp [hasTypeF] at ht
  | .cons md a t rest, .cons v0 vs, .nil, _, _, _, _, hd, _, _, _, _, _, _, _, _ => by simp [DecG] at hd
  | .cons md a t rest, .cons v0 vs, .cons w0 ws, hw, ht, hnd, hdj, hd, hih, k, v, v', z, h1, h2, h3 => by
    have sh := fshape hw ht
    simp only [hasTypeF, Bool.and_eq_true] at ht
    cases sh with
    | nam =>
      simp only [Fields.wf, Bool.and_eq_true] at hw
      simp only [aliases, List.nodup_cons] at hnd
      simp only [inlineKeys, aliases, List.mem_cons, not_or] at hdj
      simp only [DecG] at hd
      simp only [FieldsIHJ] at hih
      have ia := (dec_J rest vs ws hw.2 ht.2 hd.2 hih.2).1
      obtain ⟨_, _, _, f4⟩ := field_J hw.1 ht.1 hih.1.1 hih.1.2 hd.1
      by_cases e : k = a
      · subst e
        have hrv : lastF rest vs k = none := lastF_none k rest vs hw.2 ht.2 hnd.1 (fun hk => (hdj k hk).1 rfl)
        have hrw : lastF rest ws k = none := none_of_map_jd (ia k) hrv
        have hz : zlast rest k = none := zlast_none k rest hnd.1
        simp [lastF, hrw] at h1; simp [lastF, hrv] at h2; simp [zlast, hz] at h3
        subst h1; subst h2; subst h3; exact f4
      · simp [lastF, e] at h1 h2; simp [zlast, e] at h3
        exact dec_Z rest vs ws hw.2 ht.2 hnd.2 (fun k hk => (hdj k hk).2) hd.2 hih.2 k v v' z h1 h2 h3
    | omi =>
      simp only [Fields.wf, Bool.and_eq_true] at hw
      simp only [aliases, List.nodup_cons] at hnd
      simp only [inlineKeys, aliases, List.mem_cons, not_or] at hdj
      simp only [DecG] at hd
      simp only [FieldsIHJ] at hih
      simp only [zlast] at h3
      by_cases e : k = a
      · subst e; rw [zlast_none k rest hnd.1] at h3; cases h3
      · have e1 : lastF rest ws k = some v := by
          simp only [lastF] at h1; split at h1
          · exact h1
          · simpa [e] using h1
        have e2 : lastF rest vs k = some v' := by
          simp only [lastF] at h2; split at h2
          · exact h2
          · simpa [e] using h2
        exact dec_Z rest vs ws hw.2 ht.2 hnd.2 (fun k hk => (hdj k hk).2) hd.2 hih.2 k v v' z e1 e2 h3
    | ign =>
      simp only [Fields.wf, Bool.and_eq_true] at hw
      simp only [aliases] at hnd hdj
      simp only [inlineKeys] at hdj
      simp only [DecG] at hd
      simp only [FieldsIHJ] at hih
      simp only [lastF] at h1 h2; simp only [zlast] at h3
      exact dec_Z rest vs ws hw.2 ht.2 hnd hdj hd.2 hih.2 k v v' z h1 h2 h3
    | istruct fs' vs' =>
      simp only [Fields.wf, Bool.and_eq_true, decide_eq_true_eq] at hw
      simp only [aliases, List.nodup_append] at hnd
      simp only [inlineKeys, aliases, List.mem_append, not_or] at hdj
      simp only [DecG] at hd
      simp only [FieldsIHJ] at hih
      simp only [hasType, Bool.and_eq_true] at ht
      obtain ⟨⟨ws', rfl, hd'⟩, hdr⟩ := hd
      have hik : inlineKeys fs' vs' = [] := inlineKeys_nil fs' vs' hw.1.2
      have ia := (dec_J rest vs ws hw.2 ht.2 hdr hih.2).1
      have ja := (dec_J fs' vs' ws' hw.1.1 ht.1.1 hd' hih.1).1
      simp only [lastF] at h1 h2; simp only [zlast] at h3
      by_cases e : k ∈ aliases fs'
      · have hrv : lastF rest vs k = none :=
          lastF_none k rest vs hw.2 ht.2 (fun hr => hnd.2.2 k e k hr rfl) (fun hk => (hdj k hk).1 e)
        have hrw : lastF rest ws k = none := none_of_map_jd (ia k) hrv
        have hz : zlast rest k = none := zlast_none k rest (fun hr => hnd.2.2 k e k hr rfl)
        simp [hrw] at h1; simp [hrv] at h2; simp [hz] at h3
        exact dec_Z fs' vs' ws' hw.1.1 ht.1.1 hnd.1 (by rw [hik]; simp) hd' hih.1 k v v' z h1 h2 h3
      · have hfv : lastF fs' vs' k = none := lastF_none k fs' vs' hw.1.1 ht.1.1 e (by rw [hik]; simp)
        have hfw : lastF fs' ws' k = none := none_of_map_jd (ja k) hfv
        have hz : zlast fs' k = none := zlast_none k fs' e
        simp [hfw] at h1; simp [hfv] at h2; simp [hz] at h3
        exact dec_Z rest vs ws hw.2 ht.2 hnd.2.1 (fun k hk => (hdj k hk).2) hdr hih.2 k v v' z h1 h2 h3
    | imap t' kvs =>
      simp only [Fields.wf, Bool.and_eq_true] at hw
      simp only [aliases] at hnd
      simp only [inlineKeys, aliases, List.mem_append] at hdj
      simp only [DecG] at hd
      simp only [FieldsIHJ] at hih
      obtain ⟨⟨kvs', rfl, hdk⟩, hdr⟩ := hd
      obtain ⟨kvs'', hdk', ka, _⟩ := map_rj t' kvs hih.1.1
      simp only [kvsOf] at hdk
      rw [hdk'] at hdk; cases hdk
      simp only [lastF] at h1 h2; simp only [zlast] at h3
      have hmem : k ∈ aliases rest := by
        by_cases m : k ∈ aliases rest
        · exact m
        · rw [zlast_none k rest m] at h3; cases h3
      have hkv : lastKV t' kvs k = none := lastKV_none_of_not_mem t' k kvs (fun hk => hdj k (Or.inl hk) hmem)
      have hkw : lastKV t' kvs' k = none := none_of_map_jd (ka k) hkv
      simp [hkw] at h1; simp [hkv] at h2
      exact dec_Z rest vs ws hw.2 ht.2 hnd (fun k hk => hdj k (Or.inr hk)) hdr hih.2 k v v' z h1 h2 h3
    | imapNil t' =>
      simp only [Fields.wf, Bool.and_eq_true] at hw
      simp only [aliases] at hnd hdj
      simp only [inlineKeys] at hdj
      simp only [DecG] at hd
      simp only [FieldsIHJ] at hih
      obtain ⟨⟨kvs', rfl, hdk⟩, hdr⟩ := hd
      simp only [kvsOf, encodeKV, mapVals, decodeP] at hdk
      cases hdk
      simp only [lastF, lastKV, Option.or_none] at h1 h2; simp only [zlast] at h3
      exact dec_Z rest vs ws hw.2 ht.2 hnd hdj hdr hih.2 k v v' z h1 h2 h3

/-- the struct decoder on the JSON form of a struct encoding -/
theorem struct_rj (fs : Fields) (vs : GoVals) (hw : (GoType.struct fs).wf = true)
    (ht : hasType (.struct fs) (.struct vs) = true) (hok : okP (encodeFields fs vs .nil) = true)
    (hih : FieldsIHJ fs vs) :
    ∃ ws, decode (.struct fs) (.map (mapVals jd (encodeFields fs vs .nil))) = .ok (.struct ws) ∧
      okDoc (.map (encodeFields fs ws .nil)) = true ∧
      jd (.map (encodeFields fs ws .nil)) = jd (.map (encodeFields fs vs .nil)) ∧
      (closedF fs = true → ws = canonF fs vs) ∧
      equal (.map (encodeFields fs ws .nil)) (.map (zeroDocF fs .nil)) =
        equal (.map (encodeFields fs vs .nil)) (.map (zeroDocF fs .nil)) := by
  simp only [GoType.wf, Bool.and_eq_true, decide_eq_true_eq] at hw
  simp only [hasType, Bool.and_eq_true, List.all_eq_true, Bool.not_eq_true', List.contains_eq_mem, decide_eq_false_iff_not] at ht
  obtain ⟨⟨hfw, hn1⟩, hnd⟩ := hw
  obtain ⟨htf, hdj⟩ := ht
  have sp := fun k => encodeFields_spec k fs vs .nil rfl
  have hfm : ∀ k, mapFind (mapVals jd (encodeFields fs vs .nil)) k = (lastF fs vs k).map jd := by
    intro k; rw [find_mapVals, (sp k).2]; simp [mapFind]
  have hig := ihj_to_g fs vs hfw htf hih
  obtain ⟨ws1, m1, hp1, hs1, hf1, hd1⟩ := phase1_okG jd fs vs (mapVals jd (encodeFields fs vs .nil)) hfw htf
    (by rw [sorted_mapVals]; exact (sp []).1) hnd (fun k hk => hdj k hk) (fun a _ => hfm a) hig
  have hm1 : m1 = mapVals jd (inlDoc fs vs) := by
    apply sorted_ext _ _ hs1 (by rw [sorted_mapVals]; exact inlDoc_sorted fs vs)
    intro k
    rw [hf1 k, find_mapVals jd k (inlDoc fs vs)]
    by_cases e : k ∈ aliases fs
    · simp only [e, if_true]
      rw [inlDoc_none k fs vs hfw htf (fun hk => hdj k hk e)]; rfl
    · simp only [e, if_false]
      rw [hfm k, lastF_inl k fs vs hfw htf hn1 e]
  subst hm1
  obtain ⟨ws2, m2, hp2, hd2⟩ := phase2_okG jd fs vs ws1 hfw htf hn1 hd1 hig
  obtain ⟨ja, jb, jc⟩ := dec_J fs vs ws2 hfw htf hd2 hih
  have sp2 := fun k => encodeFields_spec k fs ws2 .nil rfl
  have hre := reenc_doc (encodeFields fs ws2 .nil) (encodeFields fs vs .nil) (sp2 []).1 (sp []).1 hok
    (by intro k; rw [(sp2 k).2, (sp k).2]; simpa [mapFind] using ja k)
    (by intro k x hx; rw [(sp2 k).2] at hx; simp only [mapFind, Option.or_none] at hx; exact jb k x hx)
  have hz := dec_Z fs vs ws2 hfw htf hnd (fun k hk => hdj k hk) hd2 hih
  have spz := fun k => zeroDocF_spec k fs .nil rfl
  have heq : equalP (encodeFields fs ws2 .nil) (zeroDocF fs .nil) = equalP (encodeFields fs vs .nil) (zeroDocF fs .nil) := by
    apply equalP_congr _ _ _ (sp2 []).1 (sp []).1 (spz []).1
    · intro k
      rw [(sp2 k).2, (sp k).2]
      simp only [mapFind, Option.or_none]
      have := ja k
      cases h1 : lastF fs ws2 k <;> cases h2 : lastF fs vs k <;> simp_all
    · intro k v v' z h1 h2 h3
      rw [(sp2 k).2] at h1; rw [(sp k).2] at h2; rw [(spz k).2] at h3
      simp only [mapFind, Option.or_none] at h1 h2 h3
      exact hz k v v' z h1 h2 h3
  exact ⟨ws2, by simp [decode, hp1, hp2, Res.bind, Res.map], hre.1, hre.2, jc, by rw [equal_map, equal_map, heq]⟩

/-! ## the main induction -/

theorem equal_nil_false {a : Val} (h : a ≠ .nil) : equal a .nil = false := by
  cases a <;> first | exact absurd rfl h | simp [equal]

theorem equal_slice_nil (a : VList) : equal (.slice a) (.slice .nil) = (match a with | .nil => true | _ => false) := by
  cases a <;> simp [equal, equalL]

theorem equal_map_nil (ps : PList) : equal (.map ps) (.map .nil) = (match ps with | .nil => true | _ => false) := by
  cases ps <;> simp [equal, equalP]

theorem mapL_length (f : Val → Val) : ∀ l : VList, (mapL f l).length = l.length
  | .nil => rfl
  | .cons _ xs => by simp [mapL, VList.length, mapL_length f xs]

theorem jd_ok {x j : Val} (h : jsonForm x = some j) : jd x = j := by simp [jd, h]

theorem rj_of_cj {t : GoType} {v : GoVal} (hc : closed t = true) (hs : noStruct t = true) (hw : t.wf = true)
    (h : hasType t v = true) (g : jsonOK t v = true) : RJ t v := by
  obtain ⟨j, hj, hd⟩ := cj v t hc hs hw h g
  have he := enc_canon hc hw h
  exact ⟨canon t v, by rw [jd_ok hj]; exact hd, by rw [he], by rw [he]; exact jd_enc v t h g, fun _ => rfl,
    by rw [he]⟩

theorem doc_nil_iff (m' m : PList) (hs' : sortedP m' = true) (hs : sortedP m = true)
    (ha : ∀ k, (mapFind m' k).map jd = (mapFind m k).map jd) : m' = .nil ↔ m = .nil := by
  constructor
  · intro e; subst e
    apply sorted_ext _ _ hs rfl
    intro k
    have h1 := ha k
    cases hm : mapFind m k with
    | none => rfl
    | some x => rw [hm] at h1; cases h1
  · intro e; subst e
    apply sorted_ext _ _ hs' rfl
    intro k
    have h1 := ha k
    cases hm : mapFind m' k with
    | none => rfl
    | some x => rw [hm] at h1; cases h1

mutual
  theorem rj : (v : GoVal) → ∀ t : GoType, t.wf = true → hasType t v = true → jsonOK t v = true → RJ t v
    | .int v, t, hw, h, g | .uint v, t, hw, h, g | .f32 v, t, hw, h, g | .f64 v, t, hw, h, g
    | .str v, t, hw, h, g | .bool v, t, hw, h, g | .bytesNil, t, hw, h, g | .bytes v, t, hw, h, g
    | .barr v, t, hw, h, g | .time v _, t, hw, h, g | .dur v, t, hw, h, g | .uuid v, t, hw, h, g => by
      have h0 := h
      cases t <;> simp [hasType] at h <;> exact rj_of_cj rfl rfl hw h0 g
    | .ptrNil, t, _, h, _ => by
      cases t <;> simp [hasType] at h
      exact ⟨.ptrNil, by simp [encode, jd, jsonForm, decode], by simp [encode], by simp [encode, okDoc, jsonForm, jdoc],
        fun _ => by simp [canon], by simp [encode]⟩
    | .ptr v, t, hw, h, g => by
      cases t <;> simp [hasType] at h
      rename_i t'
      simp only [GoType.wf, Bool.and_eq_true] at hw
      simp only [jsonOK] at g
      have okx := jd_enc v t' h g
      obtain ⟨w', d1, d2, d3, d4, _⟩ := rj v t' hw.2 h g
      by_cases hx : encode t' v = .nil
      · exact ⟨.ptrNil, by simp [encode, hx, jd, jsonForm, decode], by simp [encode, hx],
          by simp [encode, okDoc, jsonForm, jdoc], fun _ => by simp [canon, hx, isNilDoc], by simp [encode, hx]⟩
      · have hjn : jd (encode t' v) ≠ .nil := fun e => hx ((jd_nil_iff okx).mp e)
        have hwn : encode t' w' ≠ .nil := by
          intro e; rw [e] at d2; exact hjn (by rw [← d2]; rfl)
        have hin : isNilDoc (encode t' v) = false := by
          cases hh : isNilDoc (encode t' v) with
          | false => rfl
          | true => exact absurd (isNilDoc_iff.mp hh) hx
        refine ⟨.ptr w', ?_, by simpa [encode] using d2, by simpa [encode] using d3,
          fun hc => by simp only [closed] at hc; simp [canon, hin, d4 hc],
          by simp [encode, zeroDoc, equal_nil_false hx, equal_nil_false hwn]⟩
        simp only [encode]
        cases hjx : jd (encode t' v) <;> first | exact absurd hjx hjn | (rw [hjx] at d1; simp [decode, d1, Res.map])
    | .sliceNil, t, _, h, _ => by
      cases t <;> simp [hasType] at h
      have e := (okDoc_slice (l := .nil) rfl)
      exact ⟨.slice .nil, by simp [encode, encodeL, e.2, mapL, decode, decodeL, Res.map], by simp [encode, encodeL],
        by simpa [encode, encodeL] using e.1, fun _ => by simp [canon], by simp [encode, encodeL]⟩
    | .slice xs, t, hw, h, g => by
      cases t <;> simp [hasType] at h
      rename_i t'
      simp only [GoType.wf, Bool.and_eq_true] at hw
      simp only [jsonOK] at g
      obtain ⟨ws, l1, l2, l3, l4, l5, _⟩ := rjL xs t' hw.2 h g
      have e1 := okDoc_slice (jd_encL xs t' h g)
      have e2 := okDoc_slice l3
      refine ⟨.slice ws, by simp [encode, e1.2, decode, l1, Res.map], by simp [encode, e1.2, e2.2, l2],
        by simpa [encode] using e2.1, fun hc => by simp only [closed] at hc; simp [canon, l5 hc], ?_⟩
      simp only [encode, zeroDoc, equal_slice_nil]
      cases xs <;> cases ws <;> simp [GoVals.length] at l4 <;> simp [encodeL]
    | .arr xs, t, hw, h, g => by
      cases t <;> simp [hasType] at h
      rename_i n t'
      simp only [GoType.wf, Bool.and_eq_true] at hw
      simp only [jsonOK] at g
      obtain ⟨ws, l1, l2, l3, l4, l5, l6⟩ := rjL xs t' hw.2 h.2 g
      have e1 := okDoc_slice (jd_encL xs t' h.2 g)
      have e2 := okDoc_slice l3
      have hlen : ¬ (mapL jd (encodeL t' xs)).length > n := by rw [mapL_length, encodeL_length]; omega
      have hcl : closed (.arr n t') = true → GoVal.arr ws = canon (.arr n t') (.arr xs) := by
        intro hc; simp only [closed] at hc; simp [canon, l5 hc]
      refine ⟨.arr ws, by simp [encode, e1.2, decode, hlen, l1, Res.map, padTo_full _ n ws (by omega)],
        by simp [encode, e1.2, e2.2, l2], by simpa [encode] using e2.1, hcl, ?_⟩
      simp only [encode, zeroDoc, equal_slice]
      exact l6 n
    | .mapNil, t, _, h, _ => by
      cases t <;> simp [hasType] at h
      have e := (okDoc_map (m := .nil) rfl rfl)
      exact ⟨.map .nil, by simp [encode, e.2, mapVals, decode, decodeP, Res.map], by simp [encode, encodeKV],
        by simpa [encode, encodeKV] using e.1, fun _ => by simp [canon], by simp [encode, encodeKV]⟩
    | .map kvs, t, hw, h, g => by
      cases t <;> simp [hasType] at h
      rename_i t'
      simp only [GoType.wf] at hw
      simp only [jsonOK] at g
      have sp := fun k => encodeKV_spec t' k kvs .nil rfl
      have hok := jd_encKV kvs t' .nil h.1 g rfl
      have e1 := okDoc_map hok (sp []).1
      obtain ⟨kvs', hd, ka, kb⟩ := map_rj t' kvs (rjKV kvs t' hw h.1 g)
      have sp2 := fun k => encodeKV_spec t' k kvs' .nil rfl
      have hfa : ∀ k, (mapFind (encodeKV t' kvs' .nil) k).map jd = (mapFind (encodeKV t' kvs .nil) k).map jd := by
        intro k; rw [(sp2 k).2, (sp k).2]; simpa [mapFind] using ka k
      have hre := reenc_doc (encodeKV t' kvs' .nil) (encodeKV t' kvs .nil) (sp2 []).1 (sp []).1 hok hfa
        (by intro k x hx; rw [(sp2 k).2] at hx; simp only [mapFind, Option.or_none] at hx; exact kb k x hx)
      refine ⟨.map kvs', by simp [encode, e1.2, decode, hd, Res.map], by simpa [encode] using hre.2,
        by simpa [encode] using hre.1, ?_, ?_⟩
      · intro hc
        simp only [closed] at hc
        have := rjKVc kvs t' hc hw h.1 g .nil .nil (by simp [mapVals, decodeP])
        rw [this] at hd; cases hd
        simp [canon]
      · simp only [encode, zeroDoc, equal_map_nil]
        have hiff := doc_nil_iff _ _ (sp2 []).1 (sp []).1 hfa
        cases h1 : encodeKV t' kvs' .nil with
        | nil => rw [hiff.mp h1]
        | cons a b c =>
          cases h2 : encodeKV t' kvs .nil with
          | nil => rw [hiff.mpr h2] at h1; cases h1
          | cons a' b' c' => rfl
    | .struct vs, t, hw, h, g => by
      cases t <;> try (simp [hasType] at h; done)
      rename_i fs
      have hfw : Fields.wf fs = true := by
        simp only [GoType.wf, Bool.and_eq_true] at hw; exact hw.1.1
      have htf : hasTypeF fs vs = true := by
        simp only [hasType, Bool.and_eq_true] at h; exact h.1
      simp only [jsonOK] at g
      have hok := jd_encF vs fs .nil htf g rfl
      have e1 := okDoc_map hok (encodeFields_spec [] fs vs .nil rfl).1
      obtain ⟨ws, hd, h3, h2, h4, h5⟩ := struct_rj fs vs hw h hok (rjF vs fs hfw htf g)
      have hcl : closed (.struct fs) = true → GoVal.struct ws = canon (.struct fs) (.struct vs) := by
        intro hc; simp only [closed] at hc; simp [canon, h4 hc]
      refine ⟨.struct ws, by simp only [encode]; rw [e1.2]; exact hd, by simpa [encode] using h2,
        by simpa [encode] using h3, hcl, ?_⟩
      simpa [encode, zeroDoc] using h5
    | .anyNil, t, _, h, _ => by
      cases t <;> simp [hasType] at h
      exact ⟨.anyNil, by simp [encode, jd, jsonForm, dec_any, generic], by simp [encode],
        by simp [encode, okDoc, jsonForm, jdoc], fun hc => by simp [closed] at hc, by simp [encode]⟩
    | .any t' v, t, _, h, g => by
      cases t <;> simp [hasType] at h
      simp only [jsonOK] at g
      have okx := jd_enc v t' h.2 g
      have hjd := (okDoc_spec okx).2
      have hne : ∀ m, jd (encode t' v) ≠ .err m := by
        intro m e; rw [e] at hjd; simp [jdoc] at hjd
      have hgen := enc_generic _ (jdoc_gen _ hjd)
      have hfix := jd_ok (jdoc_fix _ hjd)
      refine ⟨generic (jd (encode t' v)), by simp [encode, dec_any _ hne], by simp only [encode]; rw [hgen, hfix],
        by rw [hgen]; exact okDoc_of (jdoc_fix _ hjd) hjd,
        fun hc => by simp [closed] at hc, ?_⟩
      simp only [encode]
      rw [hgen, zeroDoc]
      by_cases hx : encode t' v = .nil
      · rw [hx]; rfl
      · have : jd (encode t' v) ≠ .nil := fun e => hx ((jd_nil_iff okx).mp e)
        rw [equal_nil_false hx, equal_nil_false this]
  theorem rjL : (xs : GoVals) → ∀ t : GoType, t.wf = true → hasTypeL t xs = true → jsonOKL t xs = true →
      ∃ ws, decodeL (decode t) (mapL jd (encodeL t xs)) = .ok ws ∧ mapL jd (encodeL t ws) = mapL jd (encodeL t xs) ∧
        okL (encodeL t ws) = true ∧ ws.length = xs.length ∧ (closed t = true → ws = canonL t xs) ∧
        (∀ n, equalL (encodeL t ws) (VList.replicate n (zeroDoc t)) = equalL (encodeL t xs) (VList.replicate n (zeroDoc t)))
    | .nil, _, _, _, _ => ⟨.nil, by simp [encodeL, mapL, decodeL], rfl, rfl, rfl, fun _ => rfl, fun _ => rfl⟩
    | .cons v vs, t, hw, h, g => by
      simp only [hasTypeL, Bool.and_eq_true] at h
      simp only [jsonOKL, Bool.and_eq_true] at g
      obtain ⟨w, d1, d2, d3, d4, d5⟩ := rj v t hw h.1 g.1
      obtain ⟨ws, l1, l2, l3, l4, l5, l6⟩ := rjL vs t hw h.2 g.2
      exact ⟨.cons w ws, by simp [encodeL, mapL, decodeL, d1, l1, Res.bind, Res.map], by simp [encodeL, mapL, d2, l2],
        by simp [encodeL, okL, d3, l3], by simp [GoVals.length, l4], fun hc => by simp [canonL, d4 hc, l5 hc],
        fun n => by cases n <;> simp [encodeL, VList.replicate, equalL, d5, l6]⟩
  theorem rjKV : (kvs : GoKVs) → ∀ t : GoType, t.wf = true → hasTypeKV t kvs = true → jsonOKKV t kvs = true →
      ∀ k x, lastKV t kvs k = some x → RJx t x
    | .nil, _, _, _, _, k, x, hf => by simp [lastKV] at hf
    | .cons k0 v kvs, t, hw, h, g, k, x, hf => by
      simp only [hasTypeKV, Bool.and_eq_true] at h
      simp only [jsonOKKV, Bool.and_eq_true] at g
      simp only [lastKV] at hf
      cases hl : lastKV t kvs k with
      | some x' =>
        rw [hl] at hf; simp at hf; subst hf
        exact rjKV kvs t hw h.2 g.2 k x' hl
      | none =>
        rw [hl] at hf
        by_cases e : k = k0
        · simp [e] at hf; subst hf
          obtain ⟨w, d1, d2, d3, _, _⟩ := rj v t hw h.1.2 g.1.2
          exact ⟨jd_enc v t h.1.2 g.1.2, w, d1, d2, d3⟩
        · simp [e] at hf
  theorem rjKVc : (kvs : GoKVs) → ∀ t : GoType, closed t = true → t.wf = true → hasTypeKV t kvs = true →
      jsonOKKV t kvs = true → ∀ (acc : PList) (akv : GoKVs),
      decodeP (decode t) (mapVals jd acc) = .ok akv →
      decodeP (decode t) (mapVals jd (encodeKV t kvs acc)) = .ok (canonKV t kvs akv)
    | .nil, _, _, _, _, _, acc, akv, ha => by simpa [encodeKV, canonKV] using ha
    | .cons k v kvs, t, hc, hw, h, g, acc, akv, ha => by
      simp only [hasTypeKV, Bool.and_eq_true] at h
      simp only [jsonOKKV, Bool.and_eq_true] at g
      obtain ⟨w, d1, _, _, d4, _⟩ := rj v t hw h.1.2 g.1.2
      simp only [encodeKV, canonKV]
      apply rjKVc kvs t hc hw h.2 g.2
      rw [mapVals_set]
      exact decodeP_set (decode t) k _ _ (by rw [d1, d4 hc]) _ akv ha
  theorem rjF : (vs : GoVals) → ∀ fs : Fields, Fields.wf fs = true → hasTypeF fs vs = true → jsonOKF fs vs = true →
      FieldsIHJ fs vs
    | .nil, fs, _, _, _ => by cases fs <;> simp [FieldsIHJ]
    | .cons v vs, .nil, _, _, _ => by simp [FieldsIHJ]
    | .cons v vs, .cons md a t rest, hw, ht, g => by
      simp only [hasTypeF, Bool.and_eq_true] at ht
      cases md
      · simp only [Fields.wf, jsonOKF, Bool.and_eq_true] at hw g
        simp only [FieldsIHJ]
        exact ⟨⟨jd_enc v t ht.1 g.1.2, rj v t hw.1 ht.1 g.1.2⟩, rjF vs rest hw.2 ht.2 g.2⟩
      · simp only [Fields.wf, jsonOKF, Bool.and_eq_true] at hw g
        simp only [FieldsIHJ]
        exact ⟨⟨jd_enc v t ht.1 g.1.2, rj v t hw.1 ht.1 g.1.2⟩, rjF vs rest hw.2 ht.2 g.2⟩
      · cases t <;> try (simp [Fields.wf] at hw; done)
        case map t' =>
          simp only [Fields.wf, jsonOKF, Bool.and_eq_true] at hw g
          cases v <;> try (simp [hasType] at ht; done)
          case mapNil => simp only [FieldsIHJ]; exact ⟨trivial, rjF vs rest hw.2 ht.2 g.2⟩
          case map kvs =>
            simp only [hasType, Bool.and_eq_true] at ht
            simp only [jsonOK] at g
            simp only [FieldsIHJ]
            exact ⟨⟨rjKV kvs t' hw.1 ht.1.1 g.1,
              fun hc => rjKVc kvs t' hc hw.1 ht.1.1 g.1 .nil .nil (by simp [mapVals, decodeP])⟩,
              rjF vs rest hw.2 ht.2 g.2⟩
        case struct fs' =>
          simp only [Fields.wf, jsonOKF, Bool.and_eq_true] at hw g
          cases v <;> try (simp [hasType] at ht; done)
          case struct vs' =>
            simp only [hasType, Bool.and_eq_true] at ht
            simp only [jsonOK] at g
            simp only [FieldsIHJ]
            exact ⟨rjF vs' fs' hw.1.1 ht.1.1 g.1, rjF vs rest hw.2 ht.2 g.2⟩
      · simp only [Fields.wf, jsonOKF, Bool.and_eq_true] at hw g
        simp only [FieldsIHJ]
        exact ⟨trivial, rjF vs rest hw.2 ht.2 g⟩
end

end Uniflow.Codec
