/-
C02: the tracer model refines the abstract tracer (`Uniflow.ATracer`) – the relation `TRel`, the
invariant `Inv`, and one lemma per operation.
-/
import Uniflow.Spec.ATracer
import Uniflow.Proofs.Node

namespace Uniflow.ATracer
open Uniflow.Tracer Uniflow.Node
open Uniflow.NodeSpec (PInfo optL)

def recvOfSt : RSt → Option (List (Option Ans))
  | .cells [] => none
  | .cells cs => some (cs.map cellVal)
  | .direct _ => some [none]

def tgtOfSt : RSt → Option (List Pid)
  | .cells cs => optL (openIds cs)
  | .direct _ => none

def infoCells (p : Pid) : List Cell → Pid → Option PInfo
  | [], _ => none
  | .linked q :: cs, k => if k = q then some ⟨none, some [p], none, none⟩ else infoCells p cs k
  | .written q _ :: cs, k => if k = q then some ⟨some [none], some [p], none, none⟩ else infoCells p cs k
  | .filled _ :: cs, k => infoCells p cs k

def infoR (x : Req) (k : Pid) : Option PInfo :=
  if k = x.p then some ⟨recvOfSt x.st, none, tgtOfSt x.st, some x.r⟩
  else infoCells x.p (cellsOfSt x.st) k

def infoL : List Req → Pid → Option PInfo
  | [], _ => none
  | x :: xs, k =>
    match infoR x k with
    | some i => some i
    | none => infoL xs k

def info (a : A) (k : Pid) : PInfo :=
  match infoL a.reqs k with
  | some i => i
  | none => {}


/-- the tracer holds exactly what the abstract state says -/
structure TRel (a : A) (t : T) : Prop where
  panic : t.panic = false
  hooks : t.hooks = []
  recv : ∀ k, aget t.receives k = (info a k).recv
  src : ∀ k, aget t.sources k = (info a k).src
  tgt : ∀ k, aget t.targets k = (info a k).tgt
  rdr : ∀ k, aget t.reader k = (info a k).rdr
  reads : ∀ r, aget t.reads r = optL (readsOf a r)
  writes : ∀ w, aget t.writes w = aget a.wq w

/-- `k` is owed an answer on `w` -/
def Owed (rs : List Req) (k : Pid) (w : Wid) : Prop :=
  ∃ x ∈ rs, (x.p = k ∧ x.st = .direct w) ∨ (∃ cs, x.st = .cells cs ∧ Cell.written k w ∈ cs)

structure Inv (a : A) : Prop where
  nodup : (ids a.reqs).Nodup
  owed : ∀ w k, k ∈ getL a.wq w → Owed a.reqs k w
  wnodup : ∀ w, (getL a.wq w).Nodup
  wdisj : ∀ w w' k, k ∈ getL a.wq w → k ∈ getL a.wq w' → w = w'
  good : a.bad = false

theorem infoCells_none (p : Pid) (cs : List Cell) (k : Pid) (h : k ∉ openIds cs) : infoCells p cs k = none := by
  induction cs with
  | nil => rfl
  | cons c cs ih =>
    cases c with
    | linked q => simp [openIds] at h; simp [infoCells, h.1, ih h.2]
    | written q w => simp [openIds] at h; simp [infoCells, h.1, ih h.2]
    | filled a => simp [openIds] at h; simp [infoCells, ih h]

theorem infoR_none (x : Req) (k : Pid) (h : k ∉ idsR x) : infoR x k = none := by
  simp [idsR] at h
  simp [infoR, h.1, infoCells_none _ _ _ h.2]

theorem infoL_none (rs : List Req) (k : Pid) (h : k ∉ ids rs) : infoL rs k = none := by
  induction rs with
  | nil => rfl
  | cons x xs ih =>
    simp [ids, List.flatMap_cons] at h
    have h1 : infoR x k = none := infoR_none x k h.1
    simp only [infoL, h1]
    exact ih (by simpa [ids] using h.2)

theorem infoL_append (rs : List Req) (x : Req) (k : Pid) :
    infoL (rs ++ [x]) k = match infoL rs k with | some i => some i | none => infoR x k := by
  induction rs with
  | nil => simp [infoL]; cases infoR x k <;> rfl
  | cons r0 rs ih =>
    simp only [List.cons_append, infoL]
    cases infoR r0 k with
    | some i => rfl
    | none => simpa using ih

theorem ids_append (rs : List Req) (x : Req) : ids (rs ++ [x]) = ids rs ++ idsR x := by simp [ids]

theorem findReq_mem (p : Pid) (rs : List Req) (x : Req) (h : findReq p rs = some x) : x ∈ rs ∧ x.p = p := by
  induction rs with
  | nil => simp [findReq] at h
  | cons y ys ih =>
    simp only [findReq] at h
    by_cases e : y.p = p
    · simp [e] at h; subst h; exact ⟨by simp, e⟩
    · simp [e] at h; have := ih h; exact ⟨by simp [this.1], this.2⟩

theorem findReq_none (p : Pid) (rs : List Req) (h : p ∉ ids rs) : findReq p rs = none := by
  induction rs with
  | nil => rfl
  | cons y ys ih =>
    have h1 : p ∉ idsR y := fun hh => h (by simp only [ids, List.flatMap_cons, List.mem_append]; left; exact hh)
    have h2 : p ∉ ids ys := fun hh => h (by simp only [ids, List.flatMap_cons, List.mem_append]; right; exact hh)
    have : ¬ y.p = p := fun e => h1 (by simp [idsR, e])
    simp only [findReq, this, if_false]
    exact ih h2

theorem mem_ids_of_mem {rs : List Req} {x : Req} (hx : x ∈ rs) {k : Pid} (hk : k ∈ idsR x) : k ∈ ids rs := by
  simp only [ids, List.mem_flatMap]; exact ⟨x, hx, hk⟩

theorem infoR_some (x : Req) (k : Pid) (h : k ∈ idsR x) : ∃ i, infoR x k = some i := by
  simp only [idsR, List.mem_cons] at h
  by_cases e : k = x.p
  · simp only [infoR, e, if_true]; exact ⟨_, rfl⟩
  · have hk : k ∈ openIds (cellsOfSt x.st) := by rcases h with h | h; exact absurd h e; exact h
    simp only [infoR, e, if_false]
    generalize cellsOfSt x.st = cs at hk
    induction cs with
    | nil => simp [openIds] at hk
    | cons c cs ih =>
      cases c with
      | linked q =>
        simp only [openIds, List.mem_cons] at hk
        by_cases e2 : k = q
        · simp only [infoCells, e2, if_true]; exact ⟨_, rfl⟩
        · simp only [infoCells, e2, if_false]; exact ih (by rcases hk with h | h; exact absurd h e2; exact h)
      | written q w =>
        simp only [openIds, List.mem_cons] at hk
        by_cases e2 : k = q
        · simp only [infoCells, e2, if_true]; exact ⟨_, rfl⟩
        · simp only [infoCells, e2, if_false]; exact ih (by rcases hk with h | h; exact absurd h e2; exact h)
      | filled a => simp only [openIds] at hk; simp only [infoCells]; exact ih hk

/-- updating one request: the lookup changes only at the ids of the old and the new version -/
theorem infoL_upd (rs : List Req) (p : Pid) (f : RSt → RSt) (x : Req) (hnd : (ids rs).Nodup)
    (hx : findReq p rs = some x)
    (hnew : ∀ k ∈ idsR { x with st := f x.st }, k ∈ idsR x ∨ k ∉ ids rs) (k : Pid) :
    infoL (updReq p f rs) k =
      if k ∈ idsR x ∨ k ∈ idsR { x with st := f x.st } then infoR { x with st := f x.st } k else infoL rs k := by
  induction rs with
  | nil => simp [findReq] at hx
  | cons y ys ih =>
    simp only [ids, List.flatMap_cons] at hnd
    rw [List.nodup_append] at hnd
    obtain ⟨hy, hys, hdisj⟩ := hnd
    simp only [findReq] at hx
    by_cases e : y.p = p
    · subst e
      simp only [if_true, Option.some.injEq] at hx; subst hx
      simp only [updReq, if_true, infoL]
      by_cases hk : k ∈ idsR y ∨ k ∈ idsR { y with st := f y.st }
      · simp only [hk, if_true]
        have htail : infoL ys k = none := by
          apply infoL_none
          rcases hk with hk | hk
          · exact fun h => hdisj k hk k h rfl
          · rcases hnew k hk with h | h
            · exact fun h2 => hdisj k h k h2 rfl
            · exact fun h2 => h (by simp only [ids, List.flatMap_cons, List.mem_append]; right; exact h2)
        rw [htail]; cases infoR { y with st := f y.st } k <;> rfl
      · simp only [hk, if_false]
        have h1 : infoR { y with st := f y.st } k = none := infoR_none _ _ (fun h => hk (Or.inr h))
        have h2 : infoR y k = none := infoR_none _ _ (fun h => hk (Or.inl h))
        simp [h1, h2]
    · simp only [e, if_false] at hx
      have hxm := findReq_mem p ys x hx
      simp only [updReq, e, if_false, infoL]
      have hnew' : ∀ k ∈ idsR { x with st := f x.st }, k ∈ idsR x ∨ k ∉ ids ys := by
        intro k hk; rcases hnew k hk with h | h
        · exact Or.inl h
        · exact Or.inr (fun h2 => h (by simp only [ids, List.flatMap_cons, List.mem_append]; right; exact h2))
      rw [ih hys hx hnew']
      by_cases hk : k ∈ idsR x ∨ k ∈ idsR { x with st := f x.st }
      · have : infoR y k = none := by
          apply infoR_none
          intro hky
          rcases hk with hk | hk
          · exact hdisj k hky k (mem_ids_of_mem hxm.1 hk) rfl
          · rcases hnew k hk with h | h
            · exact hdisj k hky k (mem_ids_of_mem hxm.1 h) rfl
            · exact h (by simp only [ids, List.flatMap_cons, List.mem_append]; left; exact hky)
        simp [hk, this]
      · simp [hk]

theorem ids_upd_sub (rs : List Req) (p : Pid) (f : RSt → RSt) (x : Req) (hx : findReq p rs = some x) :
    ∀ k ∈ ids (updReq p f rs), k ∈ ids rs ∨ k ∈ idsR { x with st := f x.st } := by
  induction rs with
  | nil => simp [findReq] at hx
  | cons y ys ih =>
    simp only [findReq] at hx
    by_cases e : y.p = p
    · subst e
      simp only [if_true, Option.some.injEq] at hx; subst hx
      intro k hk
      simp only [updReq, if_true, ids, List.flatMap_cons, List.mem_append] at hk ⊢
      rcases hk with hk | hk
      · right; exact hk
      · left; right; exact hk
    · simp only [e, if_false] at hx
      intro k hk
      simp only [updReq, e, if_false, ids, List.flatMap_cons, List.mem_append] at hk ⊢
      rcases hk with hk | hk
      · left; left; exact hk
      · rcases ih hx k hk with h | h
        · left; right; exact h
        · right; exact h

theorem nodup_upd (rs : List Req) (p : Pid) (f : RSt → RSt) (x : Req) (hnd : (ids rs).Nodup)
    (hx : findReq p rs = some x) (hxn : (idsR { x with st := f x.st }).Nodup)
    (hnew : ∀ k ∈ idsR { x with st := f x.st }, k ∈ idsR x ∨ k ∉ ids rs) :
    (ids (updReq p f rs)).Nodup := by
  induction rs with
  | nil => simp [findReq] at hx
  | cons y ys ih =>
    simp only [ids, List.flatMap_cons] at hnd
    rw [List.nodup_append] at hnd
    obtain ⟨hy, hys, hdisj⟩ := hnd
    simp only [findReq] at hx
    by_cases e : y.p = p
    · subst e
      simp only [if_true, Option.some.injEq] at hx; subst hx
      simp only [updReq, if_true, ids, List.flatMap_cons]
      rw [List.nodup_append]
      refine ⟨hxn, hys, ?_⟩
      intro a ha b hb hab; subst hab
      rcases hnew a ha with h | h
      · exact hdisj a h a hb rfl
      · exact h (by simp only [ids, List.flatMap_cons, List.mem_append]; right; exact hb)
    · simp only [e, if_false] at hx
      have hxm := findReq_mem p ys x hx
      simp only [updReq, e, if_false, ids, List.flatMap_cons]
      rw [List.nodup_append]
      have hnew' : ∀ k ∈ idsR { x with st := f x.st }, k ∈ idsR x ∨ k ∉ ids ys := by
        intro k hk; rcases hnew k hk with h | h
        · exact Or.inl h
        · exact Or.inr (fun h2 => h (by simp only [ids, List.flatMap_cons, List.mem_append]; right; exact h2))
      refine ⟨hy, ih hys hx hnew', ?_⟩
      intro a ha b hb hab; subst hab
      rcases ids_upd_sub ys p f x hx a hb with h | h
      · exact hdisj a ha a h rfl
      · rcases hnew a h with h2 | h2
        · exact hdisj a ha a (mem_ids_of_mem hxm.1 h2) rfl
        · exact h2 (by simp only [ids, List.flatMap_cons, List.mem_append]; left; exact ha)

theorem readsOf_upd (rs : List Req) (p : Pid) (f : RSt → RSt) (r : Rid) :
    ((updReq p f rs).filter (fun x => x.r = r)).map (·.p) = (rs.filter (fun x => x.r = r)).map (·.p) := by
  induction rs with
  | nil => rfl
  | cons y ys ih =>
    simp only [updReq]
    by_cases e : y.p = p
    · simp only [e, if_true, List.filter_cons]; split <;> simp [e]
    · simp only [e, if_false, List.filter_cons]; split <;> simp [ih]

theorem getL_of_optL {β : Type} (m : List (Nat × List β)) (k : Nat) (l : List β)
    (h : aget m k = optL l) : getL m k = l := by
  simp only [getL_eq, h, optL]; split <;> simp_all

theorem recvOfSt_cells (cs : List Cell) : (match recvOfSt (.cells cs) with | some l => l | none => []) = cs.map cellVal := by
  cases cs <;> simp [recvOfSt]

theorem recvOfSt_ne (cs : List Cell) (h : cs ≠ []) : recvOfSt (.cells cs) = some (cs.map cellVal) := by
  cases cs with
  | nil => exact absurd rfl h
  | cons c cs => rfl

theorem infoL_self (rs : List Req) (x : Req) (k : Pid) (hnd : (ids rs).Nodup) (hx : x ∈ rs)
    (hk : k ∈ idsR x) : infoL rs k = infoR x k := by
  induction rs with
  | nil => simp at hx
  | cons y ys ih =>
    simp only [ids, List.flatMap_cons] at hnd
    rw [List.nodup_append] at hnd
    rcases List.mem_cons.mp hx with e | hx'
    · subst e
      obtain ⟨i, hi⟩ := infoR_some x k hk
      simp [infoL, hi]
    · have : infoR y k = none := infoR_none y k (fun h => hnd.2.2 k h k (mem_ids_of_mem hx' hk) rfl)
      simp only [infoL, this]
      exact ih hnd.2.1 hx'

theorem reply_spec (st : RSt) (a : Ans) (h : reply st = some a) :
    ∃ cs, recvOfSt st = some cs ∧ hasNil cs = false ∧ a = joinCells cs ∧ openIds (cellsOfSt st) = [] := by
  cases st with
  | direct w => simp [reply] at h
  | cells cs =>
    cases cs with
    | nil => simp [reply] at h
    | cons c cs =>
      simp only [reply] at h
      by_cases hn : hasNil ((c :: cs).map cellVal) = true
      · rw [if_pos hn] at h; cases h
      · rw [if_neg hn] at h
        refine ⟨(c :: cs).map cellVal, rfl, by simpa using hn, by simpa using h.symm, ?_⟩
        simp only [cellsOfSt]
        generalize c :: cs = l at hn
        induction l with
        | nil => rfl
        | cons d l ih =>
          cases d with
          | linked q => simp [cellVal, hasNil] at hn
          | written q w => simp [cellVal, hasNil] at hn
          | filled b => simp only [List.map_cons, cellVal, hasNil] at hn; simp [openIds, ih hn]

theorem reply_none (st : RSt) (h : reply st = none) :
    recvOfSt st = none ∨ ∃ cs, recvOfSt st = some cs ∧ hasNil cs = true := by
  cases st with
  | direct w => right; exact ⟨[none], rfl, rfl⟩
  | cells cs =>
    cases cs with
    | nil => left; rfl
    | cons c cs =>
      right
      simp only [reply] at h
      by_cases hn : hasNil ((c :: cs).map cellVal) = true
      · exact ⟨_, rfl, hn⟩
      · rw [if_neg hn] at h; cases h

def poppedR (r : Rid) : List Req → List Pid
  | [] => []
  | x :: xs =>
    if x.r = r then
      match reply x.st with
      | some _ => x.p :: poppedR r xs
      | none => []
    else poppedR r xs

theorem flush_specR (r : Rid) (rs : List Req) (t : T)
    (hr : ∀ x ∈ rs, x.r = r → aget t.receives x.p = recvOfSt x.st)
    (hnd : (rs.map (·.p)).Nodup) :
    ∃ t', flush true r ((rs.filter (fun x => x.r = r)).map (·.p)) t =
        ((((flushR r rs).1).filter (fun x => x.r = r)).map (·.p), t', (flushR r rs).2)
      ∧ t'.hooks = t.hooks ∧ t'.sources = t.sources ∧ t'.targets = t.targets ∧ t'.reads = t.reads
      ∧ t'.writes = t.writes ∧ t'.panic = t.panic
      ∧ (∀ k, aget t'.receives k = if k ∈ poppedR r rs then none else aget t.receives k)
      ∧ (∀ k, aget t'.reader k = if k ∈ poppedR r rs then none else aget t.reader k) := by
  induction rs generalizing t with
  | nil => exact ⟨t, by simp [flush, flushR], rfl, rfl, rfl, rfl, rfl, rfl, by simp [poppedR], by simp [poppedR]⟩
  | cons x xs ih =>
    simp only [List.map_cons, List.nodup_cons] at hnd
    by_cases hxr : x.r = r
    · have hp := hr x (by simp) hxr
      cases hrep : reply x.st with
      | none =>
        refine ⟨t, ?_, rfl, rfl, rfl, rfl, rfl, rfl, by simp [poppedR, hxr, hrep], by simp [poppedR, hxr, hrep]⟩
        rcases reply_none x.st hrep with h | ⟨cs, h1, h2⟩
        · simp [flushR, hxr, hrep, flush, hp, h]
        · simp [flushR, hxr, hrep, flush, hp, h1, h2]
      | some a =>
        obtain ⟨cs, h1, h2, h3, _⟩ := reply_spec x.st a hrep
        let t1 : T := { t with reader := adel t.reader x.p, receives := adel t.receives x.p }
        have hr1 : ∀ y ∈ xs, y.r = r → aget t1.receives y.p = recvOfSt y.st := by
          intro y hy hyr
          have : y.p ≠ x.p := fun e => hnd.1 (e ▸ List.mem_map_of_mem hy)
          simp only [t1, aget_adel, this, if_false]; exact hr y (by simp [hy]) hyr
        obtain ⟨t', hfl, g1, g2, g3, g4, g5, g6, g7, g8⟩ := ih t1 hr1 hnd.2
        refine ⟨t', ?_, g1, g2, g3, g4, g5, g6, ?_, ?_⟩
        · simp only [List.filter_cons, hxr, decide_true, if_true, List.map_cons, flush, hp, h1, h2, flushR, hrep]
          simp only [t1] at hfl
          simp [hfl, h3]
        · intro k; rw [g7 k]; simp only [poppedR, hxr, if_true, hrep, List.mem_cons, t1, aget_adel]
          by_cases hk : k = x.p <;> simp [hk]
        · intro k; rw [g8 k]; simp only [poppedR, hxr, if_true, hrep, List.mem_cons, t1, aget_adel]
          by_cases hk : k = x.p <;> simp [hk]
    · have hr1 : ∀ y ∈ xs, y.r = r → aget t.receives y.p = recvOfSt y.st :=
        fun y hy hyr => hr y (by simp [hy]) hyr
      obtain ⟨t', hfl, g1, g2, g3, g4, g5, g6, g7, g8⟩ := ih t hr1 hnd.2
      refine ⟨t', ?_, g1, g2, g3, g4, g5, g6, ?_, ?_⟩
      · simp only [List.filter_cons, hxr, decide_false, flushR, if_false]
        simpa using hfl
      · intro k; rw [g7 k]; simp [poppedR, hxr]
      · intro k; rw [g8 k]; simp [poppedR, hxr]

theorem poppedR_mem (r : Rid) (rs : List Req) (k : Pid) (h : k ∈ poppedR r rs) :
    ∃ x ∈ rs, x.p = k ∧ x.r = r ∧ ∃ a, reply x.st = some a := by
  induction rs with
  | nil => simp [poppedR] at h
  | cons x xs ih =>
    simp only [poppedR] at h
    by_cases hxr : x.r = r
    · simp only [hxr, if_true] at h
      cases hrep : reply x.st with
      | none => simp [hrep] at h
      | some a =>
        simp only [hrep, List.mem_cons] at h
        rcases h with e | h
        · exact ⟨x, by simp, e.symm, hxr, a, hrep⟩
        · obtain ⟨y, hy, h1⟩ := ih h; exact ⟨y, by simp [hy], h1⟩
    · simp only [hxr, if_false] at h
      obtain ⟨y, hy, h1⟩ := ih h; exact ⟨y, by simp [hy], h1⟩

theorem idsR_complete (x : Req) (a : Ans) (h : reply x.st = some a) : idsR x = [x.p] := by
  obtain ⟨_, _, _, _, h4⟩ := reply_spec x.st a h
  simp [idsR, h4]

theorem infoL_flushR (r : Rid) (rs : List Req) (k : Pid) (hnd : (ids rs).Nodup) :
    infoL (flushR r rs).1 k = if k ∈ poppedR r rs then none else infoL rs k := by
  induction rs with
  | nil => simp [flushR, poppedR]
  | cons x xs ih =>
    simp only [ids, List.flatMap_cons] at hnd
    rw [List.nodup_append] at hnd
    have ih' := ih hnd.2.1
    by_cases hxr : x.r = r
    · cases hrep : reply x.st with
      | none => simp [flushR, poppedR, hxr, hrep]
      | some a =>
        simp only [flushR, poppedR, hxr, if_true, hrep, List.mem_cons]
        rw [ih']
        have hid := idsR_complete x a hrep
        by_cases hk : k = x.p
        · have hn : x.p ∉ ids xs := fun h => hnd.2.2 x.p (by rw [hid]; simp) x.p h rfl
          have : x.p ∉ poppedR r xs := by
            intro h; obtain ⟨y, hy, h1, _⟩ := poppedR_mem r xs x.p h
            exact hn (mem_ids_of_mem hy (by simp [idsR, h1]))
          simp [hk, this, infoL_none xs x.p hn]
        · have : infoR x k = none := infoR_none x k (by rw [hid]; simpa using hk)
          simp [hk, infoL, this]
    · simp only [flushR, poppedR, hxr, if_false, infoL]
      rw [ih']
      by_cases hk : k ∈ poppedR r xs
      · obtain ⟨y, hy, h1, _, a, h3⟩ := poppedR_mem r xs k hk
        have : infoR x k = none := infoR_none x k (fun h => hnd.2.2 k h k (mem_ids_of_mem hy (by simp [idsR, h1])) rfl)
        simp [hk, this]
      · simp [hk]

theorem flushR_sublist (r : Rid) (rs : List Req) : (flushR r rs).1.Sublist rs := by
  induction rs with
  | nil => simp [flushR]
  | cons x xs ih =>
    simp only [flushR]
    by_cases hxr : x.r = r
    · simp only [hxr, if_true]
      cases reply x.st with
      | none => simp
      | some a => exact List.Sublist.cons _ ih
    · simp only [hxr, if_false]; exact List.Sublist.cons_cons _ ih

theorem ids_sublist {rs rs' : List Req} (h : rs'.Sublist rs) : (ids rs').Sublist (ids rs) := by
  induction h with
  | slnil => simp [ids]
  | cons a h ih =>
    simp only [ids, List.flatMap_cons] at ih ⊢
    exact List.Sublist.trans ih (List.sublist_append_right _ _)
  | cons_cons a h ih =>
    simp only [ids, List.flatMap_cons] at ih ⊢
    exact List.Sublist.append (List.Sublist.refl _) ih

theorem filter_flushR_other (r r' : Rid) (rs : List Req) (h : r' ≠ r) :
    (flushR r rs).1.filter (fun x => x.r = r') = rs.filter (fun x => x.r = r') := by
  induction rs with
  | nil => simp [flushR]
  | cons x xs ih =>
    simp only [flushR]
    by_cases hxr : x.r = r
    · simp only [hxr, if_true]
      cases reply x.st with
      | none => rfl
      | some a =>
        have : ¬ x.r = r' := fun e => h (by rw [← e, hxr])
        simp only [List.filter_cons, this, decide_false]; simpa using ih
    · simp only [hxr, if_false, List.filter_cons]; split <;> simp [ih]

theorem written_hasNil (cs : List Cell) (k : Pid) (w : Wid) (hm : Cell.written k w ∈ cs) :
    hasNil (cs.map cellVal) = true := by
  induction cs with
  | nil => simp at hm
  | cons c cs ih =>
    rcases List.mem_cons.mp hm with e | hm'
    · subst e; simp [cellVal, hasNil]
    · cases c <;> simp [cellVal, hasNil, ih hm']

theorem owed_flushR (r : Rid) (rs : List Req) (k : Pid) (w : Wid) (h : Owed rs k w) :
    Owed (flushR r rs).1 k w := by
  induction rs with
  | nil => obtain ⟨x, hx, _⟩ := h; simp at hx
  | cons x xs ih =>
    obtain ⟨y, hy, hyo⟩ := h
    simp only [flushR]
    by_cases hxr : x.r = r
    · simp only [hxr, if_true]
      cases hrep : reply x.st with
      | none => exact ⟨y, hy, hyo⟩
      | some a =>
        rcases List.mem_cons.mp hy with e | hy'
        · subst e
          obtain ⟨cs, h1, h2, _, _⟩ := reply_spec y.st a hrep
          rcases hyo with ⟨_, hd⟩ | ⟨cs', hc, hm⟩
          · rw [hd] at hrep; simp [reply] at hrep
          · exfalso
            rw [hc] at h1
            have hne : cs' ≠ [] := by intro e; simp [e] at hm
            rw [recvOfSt_ne cs' hne] at h1
            simp only [Option.some.injEq] at h1; subst h1
            rw [written_hasNil cs' k w hm] at h2; cases h2
        · exact ih ⟨y, hy', hyo⟩
    · simp only [hxr, if_false]
      rcases List.mem_cons.mp hy with e | hy'
      · subst e; exact ⟨y, by simp, hyo⟩
      · obtain ⟨z, hz, hzo⟩ := ih ⟨y, hy', hyo⟩
        exact ⟨z, by simp [hz], hzo⟩

theorem slot_fill (k : Pid) (j : Ans) (cs : List Cell) (hk : k ∈ openIds cs) :
    slot k j (cs.map cellVal) (openIds cs) =
      some ((fillCell k j cs).map cellVal, openIds (fillCell k j cs)) := by
  induction cs with
  | nil => simp [openIds] at hk
  | cons c cs ih =>
    cases c with
    | linked q =>
      simp only [openIds, List.mem_cons] at hk
      by_cases e : q = k
      · simp [slot, cellVal, openIds, fillCell, e]
      · have hk' : k ∈ openIds cs := by rcases hk with h | h; exact absurd h.symm e; exact h
        simp [slot, cellVal, openIds, fillCell, e, ih hk']
    | written q w =>
      simp only [openIds, List.mem_cons] at hk
      by_cases e : q = k
      · simp [slot, cellVal, openIds, fillCell, e]
      · have hk' : k ∈ openIds cs := by rcases hk with h | h; exact absurd h.symm e; exact h
        simp [slot, cellVal, openIds, fillCell, e, ih hk']
    | filled b =>
      simp only [openIds] at hk
      cases ho : openIds cs with
      | nil => rw [ho] at hk; simp at hk
      | cons tg tgs =>
        have := ih hk
        rw [ho] at this
        simp only [List.map_cons, cellVal, openIds, fillCell, ho, slot, this]

theorem resolve_leaf (f : Nat) (t : T) (p : Pid) (r : Rid) (a : Ans)
    (hh : t.hooks = []) (hrp : aget t.receives p = some [some a])
    (hsp : aget t.sources p = none) (hdp : aget t.reader p = some r)
    (L' : List Pid) (t2 : T) (ev : List Ev)
    (hfl : flush true r (getL t.reads r) t = (L', t2, ev)) :
    resolve true (f + 1) t p = ({ t2 with reads := setOrDel t2.reads r L' }, ev) := by
  have hhp : aget t.hooks p = none := by rw [hh]; rfl
  simp only [getL_eq] at hfl
  simp only [resolve, getL_eq, hrp, hasNil, hhp, hsp, hdp, hfl, Bool.false_eq_true, if_false,
    List.nil_append]

theorem resolve_chainG_incomplete (f : Nat) (t : T) (p k : Pid) (r : Rid) (a : Ans) (cs : List Cell)
    (hh : t.hooks = []) (hpk : p ≠ k)
    (hrk : aget t.receives k = some [some a]) (hsk : aget t.sources k = some [p])
    (hdk : aget t.reader k = none)
    (hrp : aget t.receives p = some (cs.map cellVal)) (htp : aget t.targets p = some (openIds cs))
    (hk : k ∈ openIds cs)
    (hinc : hasNil ((fillCell k a cs).map cellVal) = true) :
    resolve true (f + 2) t k =
      ({ t with sources := adel t.sources k,
                receives := adel (aset t.receives p ((fillCell k a cs).map cellVal)) k,
                targets := setOrDel t.targets p (openIds (fillCell k a cs)) }, []) := by
  have hkp : k ≠ p := fun e => hpk e.symm
  have hhk : aget t.hooks k = none := by rw [hh]; rfl
  simp only [resolve, getL_eq, hrk, hasNil, hhk, hsk, List.foldl_cons, List.foldl_nil,
    fillSource, joinCells, cellsOf, join, hrp, htp, slot_fill k a cs hk, aget_aset, if_true, hinc,
    hdk, Bool.false_eq_true, if_false, List.nil_append, List.append_nil]

theorem resolve_chainG_complete (f : Nat) (t : T) (p k : Pid) (r : Rid) (a : Ans) (cs : List Cell)
    (hh : t.hooks = []) (hpk : p ≠ k)
    (hrk : aget t.receives k = some [some a]) (hsk : aget t.sources k = some [p])
    (hrp : aget t.receives p = some (cs.map cellVal)) (htp : aget t.targets p = some (openIds cs))
    (hk : k ∈ openIds cs)
    (hsp : aget t.sources p = none) (hdp : aget t.reader p = some r)
    (hc : hasNil ((fillCell k a cs).map cellVal) = false)
    (L' : List Pid) (t2 : T) (ev : List Ev)
    (hfl : flush true r (getL t.reads r)
      { t with sources := adel t.sources k,
               receives := aset t.receives p ((fillCell k a cs).map cellVal),
               targets := setOrDel t.targets p (openIds (fillCell k a cs)) } = (L', t2, ev))
    (hq2 : aget t2.reader k = none) :
    resolve true (f + 2) t k =
      ({ t2 with reads := setOrDel t2.reads r L', receives := adel t2.receives k }, ev) := by
  have hkp : k ≠ p := fun e => hpk e.symm
  have hhk : aget t.hooks k = none := by rw [hh]; rfl
  have hhp : aget t.hooks p = none := by rw [hh]; rfl
  simp only [getL_eq] at hfl
  simp only [resolve, getL_eq, hrk, hasNil, hhk, hhp, hsk, List.foldl_cons, List.foldl_nil,
    fillSource, joinCells, cellsOf, join, hrp, htp, slot_fill k a cs hk, aget_aset, aget_adel, if_true, hc,
    hsp, hdp, hpk, hkp, hfl, hq2, Bool.false_eq_true, if_false, List.nil_append, List.append_nil]

theorem optL_append_ne {β : Type} (l : List β) (x : β) : optL (l ++ [x]) = some (l ++ [x]) := by
  simp [optL]

theorem owed_append (rs : List Req) (x : Req) (k : Pid) (w : Wid) (h : Owed rs k w) : Owed (rs ++ [x]) k w := by
  obtain ⟨y, hy, ho⟩ := h; exact ⟨y, by simp [hy], ho⟩

theorem trel_aread (a : A) (t : T) (r : Rid) (p : Pid) (h : TRel a t) (hf : p ∉ ids a.reqs) :
    TRel (aread a r p) (Tracer.read t r p) := by
  have hn := infoL_none _ _ hf
  have hi : ∀ k, info (aread a r p) k = if k = p then ⟨none, none, none, some r⟩ else info a k := by
    intro k
    simp only [info, aread, infoL_append, infoR, recvOfSt, tgtOfSt, openIds, cellsOfSt, infoCells]
    by_cases hk : k = p
    · subst hk; simp [hn, optL]
    · simp [hk]; cases infoL a.reqs k <;> rfl
  constructor
  · exact h.panic
  · exact h.hooks
  · intro k; simp only [Tracer.read]; rw [h.recv k, hi k]; split
    · rename_i e; subst e; simp [info, hn]
    · rfl
  · intro k; simp only [Tracer.read]; rw [h.src k, hi k]; split
    · rename_i e; subst e; simp [info, hn]
    · rfl
  · intro k; simp only [Tracer.read]; rw [h.tgt k, hi k]; split
    · rename_i e; subst e; simp [info, hn]
    · rfl
  · intro k; simp only [Tracer.read, aget_aset]; rw [hi k]; split
    · rfl
    · exact h.rdr k
  · intro r'
    simp only [Tracer.read, aget_aset, getL_of_optL _ _ _ (h.reads r)]
    by_cases hr : r' = r
    · subst hr; simp [readsOf, aread, List.filter_append, optL]
    · have : ¬ r = r' := fun e => hr e.symm
      simp [hr, readsOf, aread, List.filter_append, this]; exact h.reads r'
  · intro w; exact h.writes w

theorem inv_aread (a : A) (r : Rid) (p : Pid) (hi : Inv a) (hf : p ∉ ids a.reqs) : Inv (aread a r p) := by
  constructor
  · simp only [aread, ids_append, idsR, cellsOfSt, openIds]
    rw [List.nodup_append]
    exact ⟨hi.nodup, by simp, by intro x hx y hy; simp at hy; subst hy; exact fun e => hf (e ▸ hx)⟩
  · intro w k hk; exact owed_append _ _ _ _ (hi.owed w k hk)
  · exact hi.wnodup
  · exact hi.wdisj
  · exact hi.good

theorem infoL_upd_same (rs : List Req) (p : Pid) (f : RSt → RSt) (x : Req) (hnd : (ids rs).Nodup)
    (hx : findReq p rs = some x)
    (hnew : ∀ k ∈ idsR { x with st := f x.st }, k ∈ idsR x ∨ k ∉ ids rs) (k : Pid)
    (hsame : infoR { x with st := f x.st } k = infoR x k) :
    infoL (updReq p f rs) k = infoL rs k := by
  rw [infoL_upd rs p f x hnd hx hnew k]
  have hxm := findReq_mem p rs x hx
  by_cases h1 : k ∈ idsR x
  · rw [if_pos (Or.inl h1), hsame]; exact (infoL_self rs x k hnd hxm.1 h1).symm
  · by_cases h2 : k ∈ idsR { x with st := f x.st }
    · rw [if_pos (Or.inr h2), hsame]
      rcases hnew k h2 with h | h
      · exact absurd h h1
      · rw [infoL_none rs k h, infoR_none x k h1]
    · rw [if_neg (by intro h; rcases h with h | h; exact h1 h; exact h2 h)]

theorem openIds_append (cs cs' : List Cell) : openIds (cs ++ cs') = openIds cs ++ openIds cs' := by
  induction cs with
  | nil => rfl
  | cons c cs ih => cases c <;> simp [openIds, ih]

theorem infoCells_append (p : Pid) (cs cs' : List Cell) (k : Pid) :
    infoCells p (cs ++ cs') k = match infoCells p cs k with | some i => some i | none => infoCells p cs' k := by
  induction cs with
  | nil => simp [infoCells]
  | cons c cs ih =>
    cases c with
    | linked q => simp only [List.cons_append, infoCells]; split <;> simp [ih]
    | written q w => simp only [List.cons_append, infoCells]; split <;> simp [ih]
    | filled a => simpa [infoCells] using ih

theorem info_self (a : A) (x : Req) (hnd : (ids a.reqs).Nodup) (hx : x ∈ a.reqs) :
    info a x.p = ⟨recvOfSt x.st, none, tgtOfSt x.st, some x.r⟩ := by
  simp [info, infoL_self a.reqs x x.p hnd hx (by simp [idsR]), infoR]

theorem info_fresh (a : A) (k : Pid) (h : k ∉ ids a.reqs) : info a k = {} := by
  simp [info, infoL_none _ _ h]

theorem owed_upd (rs : List Req) (p : Pid) (f : RSt → RSt) (x : Req) (k : Pid) (w : Wid)
    (hx : findReq p rs = some x)
    (hf : (x.st = .direct w → f x.st = .direct w) ∧
      (∀ cs, x.st = .cells cs → Cell.written k w ∈ cs → ∃ cs', f x.st = .cells cs' ∧ Cell.written k w ∈ cs'))
    (h : Owed rs k w) : Owed (updReq p f rs) k w := by
  induction rs with
  | nil => obtain ⟨y, hy, _⟩ := h; simp at hy
  | cons y ys ih =>
    obtain ⟨z, hz, ho⟩ := h
    simp only [findReq] at hx
    simp only [updReq]
    by_cases e : y.p = p
    · rw [if_pos e] at hx ⊢
      simp only [Option.some.injEq] at hx; subst hx
      rcases List.mem_cons.mp hz with e2 | hz'
      · subst e2
        rcases ho with ⟨h1, h2⟩ | ⟨cs, h1, h2⟩
        · exact ⟨_, List.mem_cons_self, Or.inl ⟨h1, hf.1 h2⟩⟩
        · obtain ⟨cs', h3, h4⟩ := hf.2 cs h1 h2
          exact ⟨_, List.mem_cons_self, Or.inr ⟨cs', h3, h4⟩⟩
      · exact ⟨z, by simp [hz'], ho⟩
    · rw [if_neg e] at hx ⊢
      rcases List.mem_cons.mp hz with e2 | hz'
      · subst e2; exact ⟨z, by simp, ho⟩
      · obtain ⟨u, hu, huo⟩ := ih hx ⟨z, hz', ho⟩
        exact ⟨u, by simp [hu], huo⟩

theorem trel_alink (a : A) (t : T) (p q : Pid) (x : Req) (cs : List Cell) (h : TRel a t) (hi : Inv a)
    (hx : findReq p a.reqs = some x) (hst : x.st = .cells cs) (hq : q ∉ ids a.reqs) (hpq : p ≠ q) :
    TRel (alink a p q) (link t p q) ∧ Inv (alink a p q) := by
  obtain ⟨xp, xr, xst⟩ := x
  simp only at hst; subst hst
  have hxm := findReq_mem p a.reqs _ hx
  have hxp : xp = p := hxm.2
  subst hxp
  let f : RSt → RSt := fun st => match st with | .cells cs => .cells (cs ++ [.linked q]) | s => s
  have ha : alink a xp q = { a with reqs := updReq xp f a.reqs } := by
    simp only [alink, hpq, if_false, hx]; rfl
  have hidx' : idsR { p := xp, r := xr, st := f (.cells cs) } = xp :: (openIds cs ++ [q]) := by
    simp [idsR, f, cellsOfSt, openIds_append, openIds]
  have hnew : ∀ k ∈ idsR { p := xp, r := xr, st := f (.cells cs) },
      k ∈ idsR (⟨xp, xr, .cells cs⟩ : Req) ∨ k ∉ ids a.reqs := by
    intro k hk; rw [hidx'] at hk
    simp only [List.mem_cons, List.mem_append, List.not_mem_nil, or_false] at hk
    rcases hk with hk | hk | hk
    · left; simp [idsR, hk]
    · left; simp [idsR, cellsOfSt, hk]
    · right; rw [hk]; exact hq
  have hqo : q ∉ openIds cs := fun hh => hq (mem_ids_of_mem hxm.1 (by simp [idsR, cellsOfSt, hh]))
  have hinfo : ∀ k, info (alink a xp q) k =
      if k = xp then ⟨some (cs.map cellVal ++ [none]), none, some (openIds cs ++ [q]), some xr⟩
      else if k = q then ⟨none, some [xp], none, none⟩ else info a k := by
    intro k
    rw [ha]
    by_cases hk : k = xp
    · subst hk
      simp only [info, infoL_upd a.reqs k f _ hi.nodup hx hnew k, idsR, List.mem_cons, true_or, if_true, infoR,
        f, recvOfSt_ne (cs ++ [Cell.linked q]) (by simp), tgtOfSt, openIds_append, openIds, optL_append_ne,
        List.map_append, List.map_cons, List.map_nil, cellVal]
    · by_cases hk2 : k = q
      · subst hk2
        have : infoCells xp (cs ++ [Cell.linked k]) k = some ⟨none, some [xp], none, none⟩ := by
          rw [infoCells_append, infoCells_none xp cs k hqo]; simp [infoCells]
        have hin : k ∈ idsR (⟨xp, xr, .cells cs⟩ : Req) ∨ k ∈ idsR { p := xp, r := xr, st := f (.cells cs) } := by
          right; rw [hidx']; simp
        simp only [info, infoL_upd a.reqs xp f _ hi.nodup hx hnew k, if_pos hin, infoR, hk, if_false, f, cellsOfSt, this]
        simp
      · simp only [hk, hk2, if_false, info]
        rw [infoL_upd_same a.reqs xp f _ hi.nodup hx hnew k]
        simp only [infoR, hk, if_false, f, cellsOfSt, infoCells_append]
        cases infoCells xp cs k with
        | some i => rfl
        | none => simp [infoCells, hk2]
  have hself : info a xp = ⟨recvOfSt (.cells cs), none, tgtOfSt (.cells cs), some xr⟩ := info_self a _ hi.nodup hxm.1
  have e1 : getL t.sources q = [] := by simp [getL_eq, h.src q, info_fresh a q hq]
  have e2 : getL t.targets xp = openIds cs := getL_of_optL _ _ _ (by rw [h.tgt xp, hself]; rfl)
  have e3 : getL t.receives xp = cs.map cellVal := by
    rw [getL_eq, h.recv xp, hself]; cases cs <;> simp [recvOfSt]
  refine ⟨?_, ?_⟩
  · simp only [link, hpq, if_false, e1, e2, e3, List.nil_append]
    constructor
    · exact h.panic
    · exact h.hooks
    · intro k; simp only [aget_aset]; rw [hinfo k]
      by_cases hk : k = xp
      · simp [hk]
      · by_cases hk2 : k = q
        · subst hk2; simp [hk]; rw [h.recv k, info_fresh a k hq]
        · simp [hk, hk2]; exact h.recv k
    · intro k; simp only [aget_aset]; rw [hinfo k]
      by_cases hk : k = xp
      · subst hk; have : ¬ k = q := hpq
        simp [this]; rw [h.src k, hself]
      · by_cases hk2 : k = q
        · have : ¬ q = xp := fun e => hpq e.symm
          simp [hk2, this]
        · simp [hk, hk2]; exact h.src k
    · intro k; simp only [aget_aset]; rw [hinfo k]
      by_cases hk : k = xp
      · simp [hk]
      · by_cases hk2 : k = q
        · subst hk2; simp [hk]; rw [h.tgt k, info_fresh a k hq]
        · simp [hk, hk2]; exact h.tgt k
    · intro k; rw [hinfo k]
      by_cases hk : k = xp
      · subst hk; simp; rw [h.rdr k, hself]
      · by_cases hk2 : k = q
        · subst hk2; simp [hk]; rw [h.rdr k, info_fresh a k hq]
        · simp [hk, hk2]; exact h.rdr k
    · intro r; rw [h.reads r, ha]; simp [readsOf, readsOf_upd]
    · intro w; rw [ha]; exact h.writes w
  · rw [ha]
    constructor
    · apply nodup_upd a.reqs xp f _ hi.nodup hx _ hnew
      rw [hidx']
      have hn := List.Nodup.sublist (ids_sublist (List.singleton_sublist.mpr hxm.1)) hi.nodup
      simp only [ids, List.flatMap_cons, List.flatMap_nil, List.append_nil, idsR, cellsOfSt, List.nodup_cons] at hn
      simp only [List.nodup_cons, List.mem_append, List.mem_singleton, not_or]
      refine ⟨⟨hn.1, hpq⟩, ?_⟩
      rw [List.nodup_append]
      exact ⟨hn.2, by simp, by intro u hu v hv; simp at hv; subst hv; exact fun e => hqo (e ▸ hu)⟩
    · intro w k hk
      apply owed_upd _ _ _ _ _ _ hx _ (hi.owed w k hk)
      refine ⟨fun e => by simp at e, ?_⟩
      intro cs0 e hm; simp only [RSt.cells.injEq] at e; subst e
      exact ⟨cs ++ [.linked q], rfl, by simp [hm]⟩
    · exact hi.wnodup
    · exact hi.wdisj
    · exact hi.good

theorem mem_unique (rs : List Req) (x y : Req) (k : Pid) (hnd : (ids rs).Nodup) (hx : x ∈ rs) (hy : y ∈ rs)
    (hkx : k ∈ idsR x) (hky : k ∈ idsR y) : x = y := by
  induction rs with
  | nil => simp at hx
  | cons z zs ih =>
    simp only [ids, List.flatMap_cons] at hnd
    rw [List.nodup_append] at hnd
    rcases List.mem_cons.mp hx with e1 | hx' <;> rcases List.mem_cons.mp hy with e2 | hy'
    · rw [e1, e2]
    · subst e1; exact absurd rfl (hnd.2.2 k hkx k (mem_ids_of_mem hy' hky))
    · subst e2; exact absurd rfl (hnd.2.2 k hky k (mem_ids_of_mem hx' hkx))
    · exact ih hnd.2.1 hx' hy'

theorem findReq_of_mem (rs : List Req) (x : Req) (hnd : (ids rs).Nodup) (hx : x ∈ rs) : findReq x.p rs = some x := by
  cases h : findReq x.p rs with
  | none =>
    exfalso
    induction rs with
    | nil => simp at hx
    | cons z zs ih =>
      simp only [findReq] at h
      by_cases e : z.p = x.p
      · simp [e] at h
      · simp only [e, if_false] at h
        simp only [ids, List.flatMap_cons] at hnd
        rw [List.nodup_append] at hnd
        rcases List.mem_cons.mp hx with e1 | hx'
        · exact e (by rw [e1])
        · exact ih hnd.2.1 hx' h
  | some y =>
    have hy := findReq_mem x.p rs y h
    rw [mem_unique rs x y x.p hnd hx hy.1 (by simp [idsR]) (by simp [idsR, hy.2])]

theorem ownerOf_spec (k : Pid) (rs : List Req) (x : Req) (h : ownerOf k rs = some x) :
    x ∈ rs ∧ ∃ cs, x.st = .cells cs ∧ k ∈ openIds cs := by
  induction rs with
  | nil => simp [ownerOf] at h
  | cons y ys ih =>
    simp only [ownerOf] at h
    cases hst : y.st with
    | direct w => simp only [hst] at h; have := ih h; exact ⟨by simp [this.1], this.2⟩
    | cells cs =>
      simp only [hst] at h
      by_cases hk : k ∈ openIds cs
      · simp only [hk, if_true, Option.some.injEq] at h; subst h; exact ⟨by simp, cs, hst, hk⟩
      · simp only [hk, if_false] at h; have := ih h; exact ⟨by simp [this.1], this.2⟩

theorem ownerOf_of_mem (k : Pid) (rs : List Req) (x : Req) (cs : List Cell) (hnd : (ids rs).Nodup)
    (hx : x ∈ rs) (hst : x.st = .cells cs) (hk : k ∈ openIds cs) : ownerOf k rs = some x := by
  cases h : ownerOf k rs with
  | none =>
    exfalso
    induction rs with
    | nil => simp at hx
    | cons y ys ih =>
      simp only [ids, List.flatMap_cons] at hnd
      rw [List.nodup_append] at hnd
      simp only [ownerOf] at h
      rcases List.mem_cons.mp hx with e1 | hx'
      · subst e1; simp [hst, hk] at h
      · cases hy : y.st with
        | direct w => simp only [hy] at h; exact ih hnd.2.1 hx' h
        | cells cs' =>
          simp only [hy] at h
          by_cases hk' : k ∈ openIds cs'
          · simp [hk'] at h
          · simp only [hk', if_false] at h; exact ih hnd.2.1 hx' h
  | some y =>
    obtain ⟨hy, cs', hst', hk'⟩ := ownerOf_spec k rs y h
    rw [mem_unique rs x y k hnd hx hy (by simp [idsR, hst, cellsOfSt, hk]) (by simp [idsR, hst', cellsOfSt, hk'])]

theorem written_mem_open (cs : List Cell) (k : Pid) (w : Wid) (h : Cell.written k w ∈ cs) : k ∈ openIds cs := by
  induction cs with
  | nil => simp at h
  | cons c cs ih =>
    rcases List.mem_cons.mp h with e | h'
    · subst e; simp [openIds]
    · cases c <;> simp [openIds, ih h']

theorem owed_recv (a : A) (k : Pid) (w : Wid) (hnd : (ids a.reqs).Nodup) (h : Owed a.reqs k w) :
    (info a k).recv = some [none] := by
  obtain ⟨x, hx, ho⟩ := h
  rcases ho with ⟨h1, h2⟩ | ⟨cs, h1, h2⟩
  · rw [← h1, info_self a x hnd hx, h2]; rfl
  · have hk : k ∈ openIds cs := written_mem_open cs k w h2
    have hne : k ≠ x.p := by
      intro e
      have hn := List.Nodup.sublist (ids_sublist (List.singleton_sublist.mpr hx)) hnd
      simp only [ids, List.flatMap_cons, List.flatMap_nil, List.append_nil, idsR, h1, cellsOfSt, List.nodup_cons] at hn
      exact hn.1 (e ▸ hk)
    have hnd' : (openIds cs).Nodup := by
      have hn := List.Nodup.sublist (ids_sublist (List.singleton_sublist.mpr hx)) hnd
      simp only [ids, List.flatMap_cons, List.flatMap_nil, List.append_nil, idsR, h1, cellsOfSt, List.nodup_cons] at hn
      exact hn.2
    simp only [info, infoL_self a.reqs x k hnd hx (by simp [idsR, h1, cellsOfSt, hk]), infoR, hne, if_false, h1, cellsOfSt]
    clear h1 hk
    induction cs with
    | nil => simp at h2
    | cons c cs ih =>
      rcases List.mem_cons.mp h2 with e | h2'
      · subst e; simp [infoCells]
      · have hk' : k ∈ openIds cs := written_mem_open cs k w h2'
        cases c with
        | linked q =>
          simp only [openIds, List.nodup_cons] at hnd'
          have : k ≠ q := fun e => hnd'.1 (e ▸ hk')
          simp only [infoCells, this, if_false]; exact ih h2' hnd'.2
        | written q w' =>
          simp only [openIds, List.nodup_cons] at hnd'
          have : k ≠ q := fun e => hnd'.1 (e ▸ hk')
          simp only [infoCells, this, if_false]; exact ih h2' hnd'.2
        | filled b => simp only [openIds] at hnd'; simp only [infoCells]; exact ih h2' hnd'

theorem getL_of_aget {β : Type} (m m' : List (Nat × List β)) (k : Nat) (h : aget m k = aget m' k) :
    getL m k = getL m' k := by simp [getL_eq, h]

theorem owes_ids (y : Req) (k : Pid) (w : Wid)
    (ho : (y.p = k ∧ y.st = .direct w) ∨ (∃ cs, y.st = .cells cs ∧ Cell.written k w ∈ cs)) : k ∈ idsR y := by
  rcases ho with ⟨h1, _⟩ | ⟨cs, h1, h2⟩
  · simp [idsR, h1]
  · simp [idsR, h1, cellsOfSt, written_mem_open cs k w h2]

theorem owed_upd_ne (rs : List Req) (p : Pid) (f : RSt → RSt) (x : Req) (k : Pid) (w : Wid)
    (hx : findReq p rs = some x) (hk : k ∉ idsR x) (h : Owed rs k w) : Owed (updReq p f rs) k w := by
  induction rs with
  | nil => obtain ⟨y, hy, _⟩ := h; simp at hy
  | cons z zs ih =>
    obtain ⟨y, hy, ho⟩ := h
    simp only [findReq] at hx
    simp only [updReq]
    by_cases e : z.p = p
    · rw [if_pos e] at hx ⊢
      simp only [Option.some.injEq] at hx; subst hx
      rcases List.mem_cons.mp hy with e2 | hy'
      · subst e2; exact absurd (owes_ids y k w ho) hk
      · exact ⟨y, by simp [hy'], ho⟩
    · rw [if_neg e] at hx ⊢
      rcases List.mem_cons.mp hy with e2 | hy'
      · subst e2; exact ⟨y, by simp, ho⟩
      · obtain ⟨u, hu, huo⟩ := ih hx ⟨y, hy', ho⟩
        exact ⟨u, by simp [hu], huo⟩

theorem mem_updReq (rs : List Req) (p : Pid) (f : RSt → RSt) (x : Req) (hx : findReq p rs = some x) :
    ({ x with st := f x.st } : Req) ∈ updReq p f rs := by
  induction rs with
  | nil => simp [findReq] at hx
  | cons z zs ih =>
    simp only [findReq] at hx
    simp only [updReq]
    by_cases e : z.p = p
    · rw [if_pos e] at hx ⊢; simp only [Option.some.injEq] at hx; subst hx; simp
    · rw [if_neg e] at hx ⊢; simp [ih hx]

theorem getL_aset {β : Type} (m : List (Nat × List β)) (k k' : Nat) (v : List β) :
    getL (aset m k v) k' = if k' = k then v else getL m k' := by
  simp only [getL_eq, aget_aset]; by_cases e : k' = k <;> simp [e]

theorem wdisj_push (wq : List (Wid × List Pid)) (w : Wid) (k : Pid)
    (hd : ∀ w w' k, k ∈ getL wq w → k ∈ getL wq w' → w = w') (hk : ∀ w', k ∉ getL wq w') :
    ∀ w1 w2 k1, k1 ∈ getL (aset wq w (getL wq w ++ [k])) w1 → k1 ∈ getL (aset wq w (getL wq w ++ [k])) w2 → w1 = w2 := by
  intro w1 w2 k1 h1 h2
  rw [getL_aset] at h1 h2
  by_cases e1 : w1 = w <;> by_cases e2 : w2 = w
  · rw [e1, e2]
  · simp only [e1, if_true, e2, if_false, List.mem_append, List.mem_singleton] at h1 h2
    rcases h1 with h1 | h1
    · exact absurd (hd w w2 k1 h1 h2).symm e2
    · exact absurd (h1 ▸ h2) (hk w2)
  · simp only [e1, if_false, e2, if_true, List.mem_append, List.mem_singleton] at h1 h2
    rcases h2 with h2 | h2
    · exact absurd (hd w1 w k1 h1 h2) e1
    · exact absurd (h2 ▸ h1) (hk w1)
  · simp only [e1, e2, if_false] at h1 h2; exact hd w1 w2 k1 h1 h2

theorem trel_awrite_direct (a : A) (t : T) (w : Wid) (k : Pid) (r : Rid) (pay : Ans) (h : TRel a t) (hi : Inv a)
    (hx : findReq k a.reqs = some ⟨k, r, .cells []⟩) :
    ∃ a' t', awrite a (some w) k pay true = (a', []) ∧ write true t (some w) k pay true = (t', []) ∧
      TRel a' t' ∧ Inv a' ∧ (∀ k' ∈ ids a'.reqs, k' ∈ ids a.reqs) := by
  have hxm := findReq_mem k a.reqs _ hx
  let f : RSt → RSt := fun _ => .direct w
  refine ⟨{ a with reqs := updReq k f a.reqs, wq := aset a.wq w (getL a.wq w ++ [k]) }, _, ?_, rfl, ?_, ?_, ?_⟩
  · simp only [awrite, hx]; rfl
  · have hnew : ∀ k' ∈ idsR { p := k, r := r, st := f (.cells []) },
        k' ∈ idsR (⟨k, r, .cells []⟩ : Req) ∨ k' ∉ ids a.reqs := by
      intro k' hk'; left; simpa [idsR, f, cellsOfSt, openIds] using hk'
    have hself : info a k = ⟨none, none, none, some r⟩ := by
      have := info_self a _ hi.nodup hxm.1; simpa [recvOfSt, tgtOfSt, openIds, optL] using this
    have hinfo : ∀ k', info { a with reqs := updReq k f a.reqs, wq := aset a.wq w (getL a.wq w ++ [k]) } k' =
        if k' = k then ⟨some [none], none, none, some r⟩ else info a k' := by
      intro k'
      by_cases hk : k' = k
      · subst hk
        simp only [info, infoL_upd a.reqs k' f _ hi.nodup hx hnew k', idsR, List.mem_cons, true_or, if_true, infoR, f,
          recvOfSt, tgtOfSt]
      · simp only [hk, if_false, info]
        rw [infoL_upd_same a.reqs k f _ hi.nodup hx hnew k']
        simp [infoR, hk, f, cellsOfSt, infoCells]
    have e3 : getL t.receives k = [] := by simp [getL_eq, h.recv k, hself]
    simp only [write, e3, List.nil_append]
    constructor
    · exact h.panic
    · exact h.hooks
    · intro k'; simp only [aget_aset]; rw [hinfo k']; split
      · rfl
      · exact h.recv k'
    · intro k'; rw [hinfo k']; split
      · rename_i e; subst e; rw [h.src k', hself]
      · exact h.src k'
    · intro k'; rw [hinfo k']; split
      · rename_i e; subst e; rw [h.tgt k', hself]
      · exact h.tgt k'
    · intro k'; rw [hinfo k']; split
      · rename_i e; subst e; rw [h.rdr k', hself]
      · exact h.rdr k'
    · intro r'; rw [h.reads r']; simp [readsOf, readsOf_upd]
    · intro w'; simp only [aget_aset, getL_of_aget _ _ w (h.writes w)]; split
      · rfl
      · exact h.writes w'
  · have hnew : ∀ k' ∈ idsR { p := k, r := r, st := f (.cells []) },
        k' ∈ idsR (⟨k, r, .cells []⟩ : Req) ∨ k' ∉ ids a.reqs := by
      intro k' hk'; left; simpa [idsR, f, cellsOfSt, openIds] using hk'
    have hkw : k ∉ getL a.wq w := by
      intro hm
      have := owed_recv a k w hi.nodup (hi.owed w k hm)
      rw [info_self a _ hi.nodup hxm.1] at this; simp [recvOfSt] at this
    constructor
    · exact nodup_upd a.reqs k f _ hi.nodup hx (by simp [idsR, f, cellsOfSt, openIds]) hnew
    · intro w' k' hk'
      simp only [getL_eq, aget_aset] at hk'
      by_cases hw : w' = w
      · subst hw
        simp only [if_true, List.mem_append, List.mem_singleton] at hk'
        rcases hk' with hk' | hk'
        · have hne : k' ≠ k := fun e => hkw (e ▸ (by simpa [getL_eq] using hk'))
          exact owed_upd_ne _ _ _ _ _ _ hx (by simpa [idsR, cellsOfSt, openIds] using hne)
            (hi.owed w' k' (by simpa [getL_eq] using hk'))
        · subst hk'; exact ⟨_, mem_updReq a.reqs k' f _ hx, Or.inl ⟨rfl, rfl⟩⟩
      · simp only [hw, if_false] at hk'
        have hk2 : k' ∈ getL a.wq w' := by simpa [getL_eq] using hk'
        have hne : k' ≠ k := by
          intro e; subst e
          have := owed_recv a k' w' hi.nodup (hi.owed w' k' hk2)
          rw [info_self a _ hi.nodup hxm.1] at this; simp [recvOfSt] at this
        exact owed_upd_ne _ _ _ _ _ _ hx (by simpa [idsR, cellsOfSt, openIds] using hne) (hi.owed w' k' hk2)
    · intro w'
      simp only [getL_eq, aget_aset]
      by_cases hw : w' = w
      · subst hw; simp only [if_true]
        rw [List.nodup_append]
        exact ⟨by simpa [getL_eq] using hi.wnodup w', by simp,
          by intro u hu v hv; simp at hv; subst hv; exact fun e => hkw (e ▸ (by simpa [getL_eq] using hu))⟩
      · simp only [hw, if_false]; simpa [getL_eq] using hi.wnodup w'
    · apply wdisj_push a.wq w k hi.wdisj
      intro w' hm
      have := owed_recv a k w' hi.nodup (hi.owed w' k hm)
      rw [info_self a _ hi.nodup hxm.1] at this; simp [recvOfSt] at this
    · exact hi.good
  · intro k' hk'
    rcases ids_upd_sub a.reqs k f _ hx k' hk' with h1 | h1
    · exact h1
    · simp only [idsR, f, cellsOfSt, openIds, List.mem_singleton] at h1
      rw [h1]; exact mem_ids_of_mem hxm.1 (by simp [idsR])

theorem isLinked_open (k : Pid) (cs : List Cell) (h : isLinked k cs = true) : k ∈ openIds cs := by
  induction cs with
  | nil => simp [isLinked] at h
  | cons c cs ih =>
    cases c with
    | linked q =>
      simp only [isLinked, Bool.or_eq_true, decide_eq_true_eq] at h
      rcases h with h | h
      · simp [openIds, h]
      · simp [openIds, ih h]
    | written q w => simp only [isLinked] at h; simp [openIds, ih h]
    | filled a => simp only [isLinked] at h; simp [openIds, ih h]

theorem openIds_markWritten (k : Pid) (w : Wid) (cs : List Cell) : openIds (markWritten k w cs) = openIds cs := by
  induction cs with
  | nil => rfl
  | cons c cs ih =>
    cases c with
    | linked q => simp only [markWritten]; split <;> simp [openIds, ih]
    | written q w' => simp [markWritten, openIds, ih]
    | filled a => simp [markWritten, openIds, ih]

theorem map_markWritten (k : Pid) (w : Wid) (cs : List Cell) :
    (markWritten k w cs).map cellVal = cs.map cellVal := by
  induction cs with
  | nil => rfl
  | cons c cs ih =>
    cases c with
    | linked q => simp only [markWritten]; split <;> simp [cellVal, ih]
    | written q w' => simp [markWritten, cellVal, ih]
    | filled a => simp [markWritten, cellVal, ih]

theorem infoCells_markWritten (p k : Pid) (w : Wid) (cs : List Cell) (hl : isLinked k cs = true)
    (hnd : (openIds cs).Nodup) (k' : Pid) :
    infoCells p (markWritten k w cs) k' =
      if k' = k then some ⟨some [none], some [p], none, none⟩ else infoCells p cs k' := by
  induction cs with
  | nil => simp [isLinked] at hl
  | cons c cs ih =>
    cases c with
    | linked q =>
      simp only [openIds, List.nodup_cons] at hnd
      simp only [isLinked, Bool.or_eq_true, decide_eq_true_eq] at hl
      by_cases e : q = k
      · subst e; simp only [markWritten, if_true, infoCells]; split <;> rfl
      · have hl' : isLinked k cs = true := by rcases hl with h | h; exact absurd h e; exact h
        simp only [markWritten, e, if_false, infoCells, ih hl' hnd.2]
        by_cases e2 : k' = q
        · have : ¬ k' = k := fun e3 => e (e2 ▸ e3 ▸ rfl)
          simp [e2, e]
        · simp [e2]
    | written q w' =>
      simp only [openIds, List.nodup_cons] at hnd
      simp only [isLinked] at hl
      have hne : q ≠ k := fun e => hnd.1 (e ▸ isLinked_open k cs hl)
      simp only [markWritten, infoCells, ih hl hnd.2]
      by_cases e2 : k' = q
      · have : ¬ k' = k := fun e3 => hne (e2 ▸ e3)
        simp [e2, hne]
      · simp [e2]
    | filled b =>
      simp only [openIds] at hnd; simp only [isLinked] at hl
      simp only [markWritten, infoCells, ih hl hnd]

theorem infoCells_linked (p k : Pid) (cs : List Cell) (hl : isLinked k cs = true) (hnd : (openIds cs).Nodup) :
    infoCells p cs k = some ⟨none, some [p], none, none⟩ := by
  induction cs with
  | nil => simp [isLinked] at hl
  | cons c cs ih =>
    cases c with
    | linked q =>
      simp only [openIds, List.nodup_cons] at hnd
      simp only [isLinked, Bool.or_eq_true, decide_eq_true_eq] at hl
      by_cases e : q = k
      · simp [infoCells, e]
      · have hl' : isLinked k cs = true := by rcases hl with h | h; exact absurd h e; exact h
        have : ¬ k = q := fun e2 => e e2.symm
        simp only [infoCells, this, if_false]; exact ih hl' hnd.2
    | written q w' =>
      simp only [openIds, List.nodup_cons] at hnd
      simp only [isLinked] at hl
      have hne : ¬ k = q := fun e => hnd.1 (e ▸ isLinked_open k cs hl)
      simp only [infoCells, hne, if_false]; exact ih hl hnd.2
    | filled b =>
      simp only [openIds] at hnd; simp only [isLinked] at hl
      simp only [infoCells]; exact ih hl hnd

theorem written_markWritten (k : Pid) (w : Wid) (cs : List Cell) (k' : Pid) (w' : Wid)
    (h : Cell.written k' w' ∈ cs) : Cell.written k' w' ∈ markWritten k w cs := by
  induction cs with
  | nil => simp at h
  | cons c cs ih =>
    rcases List.mem_cons.mp h with e | h'
    · subst e; simp [markWritten]
    · cases c with
      | linked q => simp only [markWritten]; split <;> simp [h', ih h']
      | written q w2 => simp [markWritten, ih h']
      | filled a => simp [markWritten, ih h']

theorem markWritten_mem (k : Pid) (w : Wid) (cs : List Cell) (hl : isLinked k cs = true) :
    Cell.written k w ∈ markWritten k w cs := by
  induction cs with
  | nil => simp [isLinked] at hl
  | cons c cs ih =>
    cases c with
    | linked q =>
      simp only [isLinked, Bool.or_eq_true, decide_eq_true_eq] at hl
      by_cases e : q = k
      · simp [markWritten, e]
      · have hl' : isLinked k cs = true := by rcases hl with h | h; exact absurd h e; exact h
        simp [markWritten, e, ih hl']
    | written q w2 => simp only [isLinked] at hl; simp [markWritten, ih hl]
    | filled a => simp only [isLinked] at hl; simp [markWritten, ih hl]

theorem idsR_nodup (rs : List Req) (x : Req) (hnd : (ids rs).Nodup) (hx : x ∈ rs) : (idsR x).Nodup := by
  have hn := List.Nodup.sublist (ids_sublist (List.singleton_sublist.mpr hx)) hnd
  simpa [ids] using hn

theorem findReq_cell_none (rs : List Req) (x : Req) (k : Pid) (hnd : (ids rs).Nodup) (hx : x ∈ rs)
    (hk : k ∈ openIds (cellsOfSt x.st)) : findReq k rs = none := by
  cases h : findReq k rs with
  | none => rfl
  | some y =>
    exfalso
    have hy := findReq_mem k rs y h
    have e := mem_unique rs x y k hnd hx hy.1 (by simp [idsR, hk]) (by simp [idsR, hy.2])
    subst e
    have := idsR_nodup rs x hnd hx
    simp only [idsR, List.nodup_cons] at this
    exact this.1 (hy.2 ▸ hk)

theorem trel_awrite_cell (a : A) (t : T) (w : Wid) (k : Pid) (pay : Ans) (x : Req) (cs : List Cell)
    (h : TRel a t) (hi : Inv a) (hxm : x ∈ a.reqs) (hst : x.st = .cells cs) (hl : isLinked k cs = true) :
    ∃ a' t', awrite a (some w) k pay true = (a', []) ∧ write true t (some w) k pay true = (t', []) ∧
      TRel a' t' ∧ Inv a' ∧ (∀ k' ∈ ids a'.reqs, k' ∈ ids a.reqs) := by
  obtain ⟨xp, xr, xst⟩ := x
  simp only at hst; subst hst
  have hko := isLinked_open k cs hl
  have hx : findReq xp a.reqs = some ⟨xp, xr, .cells cs⟩ := findReq_of_mem a.reqs _ hi.nodup hxm
  have hown : ownerOf k a.reqs = some ⟨xp, xr, .cells cs⟩ := ownerOf_of_mem k a.reqs _ cs hi.nodup hxm rfl hko
  have hfk : findReq k a.reqs = none := findReq_cell_none a.reqs _ k hi.nodup hxm (by simpa [cellsOfSt] using hko)
  have hndx := idsR_nodup a.reqs _ hi.nodup hxm
  simp only [idsR, cellsOfSt, List.nodup_cons] at hndx
  have hkp : k ≠ xp := fun e => hndx.1 (e ▸ hko)
  let f : RSt → RSt := fun st => match st with | .cells cs => .cells (markWritten k w cs) | s => s
  have hidx' : idsR { p := xp, r := xr, st := f (.cells cs) } = idsR (⟨xp, xr, .cells cs⟩ : Req) := by
    simp [idsR, f, cellsOfSt, openIds_markWritten]
  have hnew : ∀ k' ∈ idsR { p := xp, r := xr, st := f (.cells cs) },
      k' ∈ idsR (⟨xp, xr, .cells cs⟩ : Req) ∨ k' ∉ ids a.reqs := by
    intro k' hk'; left; rw [hidx'] at hk'; exact hk'
  refine ⟨{ a with reqs := updReq xp f a.reqs, wq := aset a.wq w (getL a.wq w ++ [k]) }, _, ?_, rfl, ?_, ?_, ?_⟩
  · simp only [awrite, hfk, hown, hl, if_true]; rfl
  · have hinfo : ∀ k', info { a with reqs := updReq xp f a.reqs, wq := aset a.wq w (getL a.wq w ++ [k]) } k' =
        if k' = k then ⟨some [none], some [xp], none, none⟩ else info a k' := by
      intro k'
      by_cases hk : k' = k
      · subst hk
        have hin : k' ∈ idsR (⟨xp, xr, .cells cs⟩ : Req) ∨ k' ∈ idsR { p := xp, r := xr, st := f (.cells cs) } := by
          left; simp [idsR, cellsOfSt, hko]
        simp only [info, infoL_upd a.reqs xp f _ hi.nodup hx hnew k', if_pos hin, infoR, hkp, if_false, f, cellsOfSt,
          infoCells_markWritten xp k' w cs hl hndx.2 k', if_true]
      · simp only [hk, if_false, info]
        rw [infoL_upd_same a.reqs xp f _ hi.nodup hx hnew k']
        simp only [infoR, f, cellsOfSt, tgtOfSt, openIds_markWritten, infoCells_markWritten xp k w cs hl hndx.2 k', hk,
          if_false]
        by_cases e : k' = xp
        · simp only [e, if_true]
          cases cs with
          | nil => simp [isLinked] at hl
          | cons c cs' =>
            have : markWritten k w (c :: cs') ≠ [] := by cases c <;> simp [markWritten] <;> split <;> simp
            rw [recvOfSt_ne _ this, recvOfSt_ne _ (by simp), map_markWritten]
        · simp [e]
    have hik : info a k = ⟨none, some [xp], none, none⟩ := by
      simp only [info, infoL_self a.reqs _ k hi.nodup hxm (by simp [idsR, cellsOfSt, hko]), infoR, hkp, if_false, cellsOfSt,
        infoCells_linked xp k cs hl hndx.2]
    have e3 : getL t.receives k = [] := by simp [getL_eq, h.recv k, hik]
    simp only [write, e3, List.nil_append]
    constructor
    · exact h.panic
    · exact h.hooks
    · intro k'; simp only [aget_aset]; rw [hinfo k']; split
      · rfl
      · exact h.recv k'
    · intro k'; rw [hinfo k']; split
      · rename_i e; subst e; rw [h.src k', hik]
      · exact h.src k'
    · intro k'; rw [hinfo k']; split
      · rename_i e; subst e; rw [h.tgt k', hik]
      · exact h.tgt k'
    · intro k'; rw [hinfo k']; split
      · rename_i e; subst e; rw [h.rdr k', hik]
      · exact h.rdr k'
    · intro r'; rw [h.reads r']; simp [readsOf, readsOf_upd]
    · intro w'; simp only [aget_aset, getL_of_aget _ _ w (h.writes w)]; split
      · rfl
      · exact h.writes w'
  · have hik : info a k = ⟨none, some [xp], none, none⟩ := by
      simp only [info, infoL_self a.reqs _ k hi.nodup hxm (by simp [idsR, cellsOfSt, hko]), infoR, hkp, if_false, cellsOfSt,
        infoCells_linked xp k cs hl hndx.2]
    have hknot : ∀ w', k ∉ getL a.wq w' := by
      intro w' hm
      have := owed_recv a k w' hi.nodup (hi.owed w' k hm)
      rw [hik] at this; simp at this
    have hpres : ∀ k' w', Owed a.reqs k' w' → Owed (updReq xp f a.reqs) k' w' := by
      intro k' w' ho
      apply owed_upd a.reqs xp f _ k' w' hx _ ho
      refine ⟨fun e => by simp at e, ?_⟩
      intro cs0 e hm; simp only [RSt.cells.injEq] at e; subst e
      exact ⟨markWritten k w cs, rfl, written_markWritten k w cs k' w' hm⟩
    constructor
    · apply nodup_upd a.reqs xp f _ hi.nodup hx _ hnew
      rw [hidx']; exact idsR_nodup a.reqs _ hi.nodup hxm
    · intro w' k' hk'
      simp only [getL_eq, aget_aset] at hk'
      by_cases hw : w' = w
      · subst hw
        simp only [if_true, List.mem_append, List.mem_singleton] at hk'
        rcases hk' with hk' | hk'
        · exact hpres k' w' (hi.owed w' k' (by simpa [getL_eq] using hk'))
        · subst hk'
          exact ⟨_, mem_updReq a.reqs xp f _ hx, Or.inr ⟨markWritten k' w' cs, rfl, markWritten_mem k' w' cs hl⟩⟩
      · simp only [hw, if_false] at hk'
        exact hpres k' w' (hi.owed w' k' (by simpa [getL_eq] using hk'))
    · intro w'
      simp only [getL_eq, aget_aset]
      by_cases hw : w' = w
      · subst hw; simp only [if_true]
        rw [List.nodup_append]
        exact ⟨by simpa [getL_eq] using hi.wnodup w', by simp,
          by intro u hu v hv; simp at hv; subst hv; exact fun e => hknot w' (e ▸ (by simpa [getL_eq] using hu))⟩
      · simp only [hw, if_false]; simpa [getL_eq] using hi.wnodup w'
    · exact wdisj_push a.wq w k hi.wdisj hknot
    · exact hi.good
  · intro k' hk'
    rcases ids_upd_sub a.reqs xp f _ hx k' hk' with h1 | h1
    · exact h1
    · rw [hidx'] at h1; exact mem_ids_of_mem hxm h1

theorem map_p_sublist (rs : List Req) : (rs.map (·.p)).Sublist (ids rs) := by
  induction rs with
  | nil => simp [ids]
  | cons x xs ih =>
    simp only [ids, List.flatMap_cons, List.map_cons, idsR, List.cons_append] at ih ⊢
    exact List.Sublist.cons_cons _ (List.Sublist.trans ih (List.sublist_append_right _ _))

theorem aget_optL_setOrDel {β : Type} (m : List (Nat × List β)) (k k' : Nat) (l : List β) :
    aget (setOrDel m k l) k' = if k' = k then optL l else aget m k' := by
  rw [aget_setOrDel]; simp [optL]

theorem flush_final (a1 : A) (t1 : T) (r : Rid) (stale : List Pid)
    (hp : t1.panic = false) (hh : t1.hooks = [])
    (hnd : (ids a1.reqs).Nodup) (hst : ∀ k ∈ stale, k ∉ ids a1.reqs)
    (hrecv : ∀ k, k ∉ stale → aget t1.receives k = (info a1 k).recv)
    (hsrc : ∀ k, aget t1.sources k = (info a1 k).src)
    (htgt : ∀ k, aget t1.targets k = (info a1 k).tgt)
    (hrdr : ∀ k, aget t1.reader k = (info a1 k).rdr)
    (hreads : ∀ r, aget t1.reads r = optL (readsOf a1 r))
    (hwrites : ∀ w, aget t1.writes w = aget a1.wq w) :
    ∃ t2 L', flush true r (getL t1.reads r) t1 = (L', t2, (flushR r a1.reqs).2) ∧
      (∀ k ∈ stale, aget t2.reader k = none) ∧
      ∀ rcv', (∀ k, aget rcv' k = if k ∈ stale then none else aget t2.receives k) →
        TRel { a1 with reqs := (flushR r a1.reqs).1 }
          { t2 with reads := setOrDel t2.reads r L', receives := rcv' } := by
  have hL : getL t1.reads r = (a1.reqs.filter (fun x => x.r = r)).map (·.p) := getL_of_optL _ _ _ (hreads r)
  have hr : ∀ x ∈ a1.reqs, x.r = r → aget t1.receives x.p = recvOfSt x.st := by
    intro x hx _
    have : x.p ∉ stale := fun hm => hst _ hm (mem_ids_of_mem hx (by simp [idsR]))
    rw [hrecv _ this, info_self a1 x hnd hx]
  obtain ⟨t2, hfl, g1, g2, g3, g4, g5, g6, g7, g8⟩ :=
    flush_specR r a1.reqs t1 hr (List.Nodup.sublist (map_p_sublist _) hnd)
  have hpop : ∀ k ∈ poppedR r a1.reqs, k ∈ ids a1.reqs ∧ (info a1 k).src = none ∧ (info a1 k).tgt = none := by
    intro k hk
    obtain ⟨x, hx, h1, _, b, h3⟩ := poppedR_mem r a1.reqs k hk
    obtain ⟨_, _, _, _, h4⟩ := reply_spec x.st b h3
    refine ⟨mem_ids_of_mem hx (by simp [idsR, h1]), ?_, ?_⟩
    · rw [← h1, info_self a1 x hnd hx]
    · rw [← h1, info_self a1 x hnd hx]
      cases hs : x.st with
      | direct w => rfl
      | cells cs => rw [hs] at h4; simp [tgtOfSt, cellsOfSt] at h4 ⊢; simp [h4, optL]
  have hinfo : ∀ k, info { a1 with reqs := (flushR r a1.reqs).1 } k =
      if k ∈ poppedR r a1.reqs then {} else info a1 k := by
    intro k; simp only [info, infoL_flushR r a1.reqs k hnd]
    by_cases hk : k ∈ poppedR r a1.reqs <;> simp [hk]
  refine ⟨t2, _, by rw [hL]; exact hfl, ?_, ?_⟩
  · intro k hk; rw [g8 k]; split
    · rfl
    · rw [hrdr k, info_fresh a1 k (hst k hk)]
  · intro rcv' hrcv
    constructor
    · simp [g6, hp]
    · simp [g1, hh]
    · intro k; simp only; rw [hrcv k, hinfo k]
      by_cases hs : k ∈ stale
      · have : k ∉ poppedR r a1.reqs := fun h => hst k hs (hpop k h).1
        simp [hs, this, info_fresh a1 k (hst k hs)]
      · simp only [hs, if_false, g7 k]; split
        · rfl
        · exact hrecv k hs
    · intro k; simp only [g2]; rw [hsrc k, hinfo k]; split
      · rename_i hk; exact (hpop k hk).2.1
      · rfl
    · intro k; simp only [g3]; rw [htgt k, hinfo k]; split
      · rename_i hk; exact (hpop k hk).2.2
      · rfl
    · intro k; simp only; rw [g8 k, hinfo k]; split
      · rfl
      · exact hrdr k
    · intro r'; simp only [aget_optL_setOrDel, g4]
      by_cases e : r' = r
      · subst e; simp [readsOf]
      · simp only [e, if_false]; rw [hreads r']; simp [readsOf, filter_flushR_other r r' a1.reqs e]
    · intro w; simp only [g5]; exact hwrites w

theorem openIds_fillCell_sub (k : Pid) (a : Ans) (cs : List Cell) : (openIds (fillCell k a cs)).Sublist (openIds cs) := by
  induction cs with
  | nil => simp [fillCell, openIds]
  | cons c cs ih =>
    cases c with
    | linked q => simp only [fillCell]; split <;> simp [openIds, ih]
    | written q w => simp only [fillCell]; split <;> simp [openIds, ih]
    | filled b => simpa [fillCell, openIds] using ih

theorem openIds_fillCell_mem (k : Pid) (a : Ans) (cs : List Cell) (hnd : (openIds cs).Nodup) (k' : Pid) :
    k' ∈ openIds (fillCell k a cs) ↔ k' ∈ openIds cs ∧ k' ≠ k := by
  induction cs with
  | nil => simp [fillCell, openIds]
  | cons c cs ih =>
    cases c with
    | linked q =>
      simp only [openIds, List.nodup_cons] at hnd
      simp only [fillCell]
      by_cases e : q = k
      · subst e; simp only [if_true, openIds, List.mem_cons]
        constructor
        · intro h; exact ⟨Or.inr h, fun e => hnd.1 (e ▸ h)⟩
        · rintro ⟨h | h, hne⟩; exact absurd h hne; exact h
      · simp only [e, if_false, openIds, List.mem_cons, ih hnd.2]
        constructor
        · rintro (h | ⟨h, hne⟩); exact ⟨Or.inl h, fun e2 => e (h ▸ e2)⟩; exact ⟨Or.inr h, hne⟩
        · rintro ⟨h | h, hne⟩; exact Or.inl h; exact Or.inr ⟨h, hne⟩
    | written q w =>
      simp only [openIds, List.nodup_cons] at hnd
      simp only [fillCell]
      by_cases e : q = k
      · subst e; simp only [if_true, openIds, List.mem_cons]
        constructor
        · intro h; exact ⟨Or.inr h, fun e => hnd.1 (e ▸ h)⟩
        · rintro ⟨h | h, hne⟩; exact absurd h hne; exact h
      · simp only [e, if_false, openIds, List.mem_cons, ih hnd.2]
        constructor
        · rintro (h | ⟨h, hne⟩); exact ⟨Or.inl h, fun e2 => e (h ▸ e2)⟩; exact ⟨Or.inr h, hne⟩
        · rintro ⟨h | h, hne⟩; exact Or.inl h; exact Or.inr ⟨h, hne⟩
    | filled b => simp only [openIds] at hnd; simpa [fillCell, openIds] using ih hnd

theorem infoCells_fillCell (p k : Pid) (a : Ans) (cs : List Cell) (hnd : (openIds cs).Nodup) (k' : Pid) :
    infoCells p (fillCell k a cs) k' = if k' = k then none else infoCells p cs k' := by
  induction cs with
  | nil => simp [fillCell, infoCells]
  | cons c cs ih =>
    cases c with
    | linked q =>
      simp only [openIds, List.nodup_cons] at hnd
      simp only [fillCell]
      by_cases e : q = k
      · subst e; simp only [if_true, infoCells]
        by_cases e2 : k' = q
        · simp [e2, infoCells_none p cs q hnd.1]
        · simp [e2]
      · simp only [e, if_false, infoCells, ih hnd.2]
        by_cases e2 : k' = q
        · have : ¬ k' = k := fun e3 => e (e2 ▸ e3)
          simp [e2, e]
        · simp [e2]
    | written q w =>
      simp only [openIds, List.nodup_cons] at hnd
      simp only [fillCell]
      by_cases e : q = k
      · subst e; simp only [if_true, infoCells]
        by_cases e2 : k' = q
        · simp [e2, infoCells_none p cs q hnd.1]
        · simp [e2]
      · simp only [e, if_false, infoCells, ih hnd.2]
        by_cases e2 : k' = q
        · simp [e2, e]
        · simp [e2]
    | filled b => simp only [openIds] at hnd; simp only [fillCell, infoCells, ih hnd]

theorem infoCells_open (p k : Pid) (cs : List Cell) (hk : k ∈ openIds cs) (hnd : (openIds cs).Nodup) :
    infoCells p cs k = some ⟨none, some [p], none, none⟩ ∨ infoCells p cs k = some ⟨some [none], some [p], none, none⟩ := by
  induction cs with
  | nil => simp [openIds] at hk
  | cons c cs ih =>
    cases c with
    | linked q =>
      simp only [openIds, List.nodup_cons, List.mem_cons] at hnd hk
      by_cases e : k = q
      · left; simp [infoCells, e]
      · simp only [infoCells, e, if_false]; exact ih (by rcases hk with h | h; exact absurd h e; exact h) hnd.2
    | written q w =>
      simp only [openIds, List.nodup_cons, List.mem_cons] at hnd hk
      by_cases e : k = q
      · right; simp [infoCells, e]
      · simp only [infoCells, e, if_false]; exact ih (by rcases hk with h | h; exact absurd h e; exact h) hnd.2
    | filled b => simp only [openIds] at hnd hk; simp only [infoCells]; exact ih hk hnd

theorem fillCell_ne_nil (k : Pid) (a : Ans) (cs : List Cell) (h : cs ≠ []) : fillCell k a cs ≠ [] := by
  cases cs with
  | nil => exact absurd rfl h
  | cons c cs => cases c <;> simp [fillCell] <;> split <;> simp

theorem written_fillCell (k : Pid) (a : Ans) (cs : List Cell) (k' : Pid) (w' : Wid) (hne : k' ≠ k)
    (h : Cell.written k' w' ∈ cs) : Cell.written k' w' ∈ fillCell k a cs := by
  induction cs with
  | nil => simp at h
  | cons c cs ih =>
    rcases List.mem_cons.mp h with e | h'
    · subst e; simp [fillCell, hne]
    · cases c with
      | linked q => simp only [fillCell]; split <;> simp [h', ih h']
      | written q w2 => simp only [fillCell]; split <;> simp [h', ih h']
      | filled b => simp [fillCell, ih h']

theorem findReq_upd (rs : List Req) (p : Pid) (f : RSt → RSt) (x : Req) (hx : findReq p rs = some x) :
    findReq p (updReq p f rs) = some { x with st := f x.st } := by
  induction rs with
  | nil => simp [findReq] at hx
  | cons z zs ih =>
    simp only [findReq] at hx
    simp only [updReq]
    by_cases e : z.p = p
    · rw [if_pos e] at hx ⊢; simp only [Option.some.injEq] at hx; subst hx; simp [findReq, e]
    · rw [if_neg e] at hx ⊢; simp [findReq, e, ih hx]

/-- what a fill step guarantees (used by rejected writes and by answers) -/
structure FillOK (a a' : A) (k : Pid) : Prop where
  nodup : (ids a'.reqs).Nodup
  sub : ∀ k' ∈ ids a'.reqs, k' ∈ ids a.reqs
  owed : ∀ k' w', Owed a.reqs k' w' → k' ≠ k → Owed a'.reqs k' w'
  wq : a'.wq = a.wq
  bad : a'.bad = a.bad

theorem trel_afill_req (a : A) (t : T) (k : Pid) (r : Rid) (st0 : RSt) (ans : Ans) (h : TRel a t)
    (hnd : (ids a.reqs).Nodup)
    (hx : findReq k a.reqs = some ⟨k, r, st0⟩) (hst : st0 = .cells [] ∨ ∃ w0, st0 = .direct w0) :
    ∃ a' t', afill a k ans = (a', (afill a k ans).2) ∧
      resolve true defaultFuel (receive t k ans) k = (t', (afill a k ans).2) ∧ TRel a' t' ∧ FillOK a a' k := by
  have hxm := findReq_mem k a.reqs _ hx
  let f : RSt → RSt := fun _ => .cells [.filled ans]
  have hidx : idsR (⟨k, r, st0⟩ : Req) = [k] := by
    rcases hst with e | ⟨w0, e⟩ <;> simp [idsR, e, cellsOfSt, openIds]
  have hnew : ∀ k' ∈ idsR { p := k, r := r, st := f st0 }, k' ∈ idsR (⟨k, r, st0⟩ : Req) ∨ k' ∉ ids a.reqs := by
    intro k' hk'; left; rw [hidx]; simpa [idsR, f, cellsOfSt, openIds] using hk'
  have hself : info a k = ⟨recvOfSt st0, none, none, some r⟩ := by
    have := info_self a _ hnd hxm.1
    rcases hst with e | ⟨w0, e⟩ <;> simpa [e, tgtOfSt, openIds, optL] using this
  let a1 : A := { a with reqs := updReq k f a.reqs }
  have hinfo : ∀ k', info a1 k' = if k' = k then ⟨some [some ans], none, none, some r⟩ else info a k' := by
    intro k'
    by_cases hk : k' = k
    · subst hk
      simp only [a1, info, infoL_upd a.reqs k' f _ hnd hx hnew k', idsR, List.mem_cons, true_or, if_true, infoR, f,
        recvOfSt, tgtOfSt, openIds, optL, List.map, cellVal]
    · simp only [hk, if_false, info, a1]
      rw [infoL_upd_same a.reqs k f _ hnd hx hnew k']
      simp only [infoR, hk, if_false, f, cellsOfSt, infoCells]
      rcases hst with e | ⟨w0, e⟩ <;> simp [e, infoCells]
  have hnd1 : (ids a1.reqs).Nodup := nodup_upd a.reqs k f _ hnd hx (by simp [idsR, f, cellsOfSt, openIds]) hnew
  have hfill : fillFirst (getL t.receives k) ans = [some ans] := by
    rw [getL_eq, h.recv k, hself]
    rcases hst with e | ⟨w0, e⟩ <;> simp [e, recvOfSt, fillFirst]
  have hfl := flush_final a1 (receive t k ans) r [] h.panic h.hooks hnd1 (by simp)
    (by
      intro k' _; simp only [receive, hfill, aget_aset]; rw [hinfo k']; split
      · rfl
      · exact h.recv k')
    (by intro k'; simp only [receive]; rw [hinfo k']; split
        · rename_i e; subst e; rw [h.src k', hself]
        · exact h.src k')
    (by intro k'; simp only [receive]; rw [hinfo k']; split
        · rename_i e; subst e; rw [h.tgt k', hself]
        · exact h.tgt k')
    (by intro k'; simp only [receive]; rw [hinfo k']; split
        · rename_i e; subst e; rw [h.rdr k', hself]
        · exact h.rdr k')
    (by intro r'; simp only [receive]; rw [h.reads r']; simp [readsOf, a1, readsOf_upd])
    (by intro w; exact h.writes w)
  obtain ⟨t2, L', hflush, _, hT⟩ := hfl
  have hres := resolve_leaf 7 (receive t k ans) k r ans h.hooks
    (by simp only [receive, hfill, aget_aset, if_true])
    (by simp only [receive]; rw [h.src k, hself])
    (by simp only [receive]; rw [h.rdr k, hself])
    L' t2 _ hflush
  have hrep : reply (f st0) = some ans := by simp [f, reply, cellVal, hasNil, joinCells, cellsOf, join]
  have hafill : afill a k ans = ({ a with reqs := (flushR r a1.reqs).1 }, (flushR r a1.reqs).2) := by
    have hf1 : findReq k (updReq k (fun _ => RSt.cells [Cell.filled ans]) a.reqs) =
        some ⟨k, r, .cells [.filled ans]⟩ := findReq_upd a.reqs k _ _ hx
    have hrep' : reply (.cells [.filled ans]) = some ans := hrep
    rcases hst with e | ⟨w0, e⟩ <;> subst e <;> simp only [afill, hx, afterFill, hf1, hrep'] <;> rfl
  refine ⟨{ a with reqs := (flushR r a1.reqs).1 }, _, ?_, ?_, hT t2.receives (by simp), ?_⟩
  · rw [hafill]
  · rw [hafill]; exact hres
  · constructor
    · exact List.Nodup.sublist (ids_sublist (flushR_sublist r a1.reqs)) hnd1
    · intro k' hk'
      have h1 := (ids_sublist (flushR_sublist r a1.reqs)).subset hk'
      rcases ids_upd_sub a.reqs k f _ hx k' h1 with h2 | h2
      · exact h2
      · simp only [idsR, f, cellsOfSt, openIds, List.mem_singleton] at h2
        rw [h2]; exact mem_ids_of_mem hxm.1 (by simp [idsR])
    · intro k' w' ho hne
      apply owed_flushR
      exact owed_upd_ne a.reqs k f _ k' w' hx (by rw [hidx]; simpa using hne) ho
    · rfl
    · rfl

theorem reply_cells_ne (cs : List Cell) (h : cs ≠ []) :
    reply (.cells cs) = if hasNil (cs.map cellVal) then none else some (joinCells (cs.map cellVal)) := by
  cases cs with
  | nil => exact absurd rfl h
  | cons c cs => rfl

theorem optL_ne {β : Type} (l : List β) (h : l ≠ []) : optL l = some l := by simp [optL, h]

theorem infoR_some' (x : Req) (k : Pid) (h : k ∈ idsR x) :
    ∃ i, infoR x k = some i ∧ (i.rdr ≠ none ∨ i.src ≠ none) := by
  simp only [idsR, List.mem_cons] at h
  by_cases e : k = x.p
  · simp only [infoR, e, if_true]; exact ⟨_, rfl, Or.inl (by simp)⟩
  · have hk : k ∈ openIds (cellsOfSt x.st) := by rcases h with h | h; exact absurd h e; exact h
    simp only [infoR, e, if_false]
    generalize cellsOfSt x.st = cs at hk
    induction cs with
    | nil => simp [openIds] at hk
    | cons c cs ih =>
      cases c with
      | linked q =>
        simp only [openIds, List.mem_cons] at hk
        by_cases e2 : k = q
        · simp only [infoCells, e2, if_true]; exact ⟨_, rfl, Or.inr (by simp)⟩
        · simp only [infoCells, e2, if_false]; exact ih (by rcases hk with h | h; exact absurd h e2; exact h)
      | written q w =>
        simp only [openIds, List.mem_cons] at hk
        by_cases e2 : k = q
        · simp only [infoCells, e2, if_true]; exact ⟨_, rfl, Or.inr (by simp)⟩
        · simp only [infoCells, e2, if_false]; exact ih (by rcases hk with h | h; exact absurd h e2; exact h)
      | filled a => simp only [openIds] at hk; simp only [infoCells]; exact ih hk

theorem not_mem_ids_of_info (rs : List Req) (k : Pid) (hnd : (ids rs).Nodup)
    (h : (match infoL rs k with | some i => i | none => ({} : PInfo)) = {}) : k ∉ ids rs := by
  intro hm
  obtain ⟨y, hy, hky⟩ : ∃ y ∈ rs, k ∈ idsR y := by simpa [ids, List.mem_flatMap] using hm
  obtain ⟨i, hi, hne⟩ := infoR_some' y k hky
  rw [infoL_self rs y k hnd hy hky, hi] at h
  simp only at h
  subst h
  rcases hne with h1 | h1 <;> exact h1 rfl

theorem trel_afill_cell (a : A) (t : T) (k : Pid) (ans : Ans) (x : Req) (cs : List Cell) (h : TRel a t)
    (hnd : (ids a.reqs).Nodup) (hxm : x ∈ a.reqs) (hst : x.st = .cells cs) (hk : k ∈ openIds cs) :
    ∃ a' t', afill a k ans = (a', (afill a k ans).2) ∧
      resolve true defaultFuel (receive t k ans) k = (t', (afill a k ans).2) ∧ TRel a' t' ∧ FillOK a a' k := by
  obtain ⟨xp, xr, xst⟩ := x
  simp only at hst; subst hst
  have hx : findReq xp a.reqs = some ⟨xp, xr, .cells cs⟩ := findReq_of_mem a.reqs _ hnd hxm
  have hown : ownerOf k a.reqs = some ⟨xp, xr, .cells cs⟩ := ownerOf_of_mem k a.reqs _ cs hnd hxm rfl hk
  have hfk : findReq k a.reqs = none := findReq_cell_none a.reqs _ k hnd hxm (by simpa [cellsOfSt] using hk)
  have hndx := idsR_nodup a.reqs _ hnd hxm
  simp only [idsR, cellsOfSt, List.nodup_cons] at hndx
  have hkp : k ≠ xp := fun e => hndx.1 (e ▸ hk)
  have hpk : xp ≠ k := fun e => hkp e.symm
  have hcs : cs ≠ [] := by intro e; simp [e, openIds] at hk
  have hcs' : fillCell k ans cs ≠ [] := fillCell_ne_nil k ans cs hcs
  have hidx' : idsR { p := xp, r := xr, st := fillSt k ans (.cells cs) } = xp :: openIds (fillCell k ans cs) := by
    simp [idsR, fillSt, cellsOfSt]
  have hnew : ∀ k' ∈ idsR { p := xp, r := xr, st := fillSt k ans (.cells cs) },
      k' ∈ idsR (⟨xp, xr, .cells cs⟩ : Req) ∨ k' ∉ ids a.reqs := by
    intro k' hk'; left; rw [hidx'] at hk'
    simp only [idsR, cellsOfSt, List.mem_cons] at hk' ⊢
    rcases hk' with h1 | h1
    · exact Or.inl h1
    · exact Or.inr ((openIds_fillCell_sub k ans cs).subset h1)
  let a1 : A := { a with reqs := updReq xp (fillSt k ans) a.reqs }
  have hinfo : ∀ k', info a1 k' =
      if k' = xp then ⟨some ((fillCell k ans cs).map cellVal), none, optL (openIds (fillCell k ans cs)), some xr⟩
      else if k' = k then {} else info a k' := by
    intro k'
    by_cases h1 : k' = xp
    · subst h1
      simp only [a1, info, infoL_upd a.reqs k' (fillSt k ans) _ hnd hx hnew k', idsR, List.mem_cons, true_or, if_true,
        infoR, fillSt, recvOfSt_ne _ hcs', tgtOfSt]
    · by_cases h2 : k' = k
      · subst h2
        have hin : k' ∈ idsR (⟨xp, xr, .cells cs⟩ : Req) ∨ k' ∈ idsR { p := xp, r := xr, st := fillSt k' ans (.cells cs) } := by
          left; simp [idsR, cellsOfSt, hk]
        simp only [a1, info]
        rw [infoL_upd a.reqs xp (fillSt k' ans) _ hnd hx hnew k', if_pos hin]
        simp only [infoR, h1, if_false, fillSt, cellsOfSt, infoCells_fillCell xp k' ans cs hndx.2 k', if_true]
      · simp only [h1, h2, if_false, info, a1]
        rw [infoL_upd_same a.reqs xp (fillSt k ans) _ hnd hx hnew k']
        simp only [infoR, h1, if_false, fillSt, cellsOfSt, infoCells_fillCell xp k ans cs hndx.2 k', h2]
  have hik := infoCells_open xp k cs hk hndx.2
  have hinfok : info a k = ⟨none, some [xp], none, none⟩ ∨ info a k = ⟨some [none], some [xp], none, none⟩ := by
    simp only [info, infoL_self a.reqs _ k hnd hxm (by simp [idsR, cellsOfSt, hk]), infoR, hkp, if_false, cellsOfSt]
    rcases hik with e | e <;> simp [e]
  have hself : info a xp = ⟨some (cs.map cellVal), none, some (openIds cs), some xr⟩ := by
    have := info_self a _ hnd hxm
    simp only [recvOfSt_ne cs hcs, tgtOfSt] at this
    rw [this, optL_ne (openIds cs) (by intro e; simp [e] at hk)]
  have hfill : fillFirst (getL t.receives k) ans = [some ans] := by
    rw [getL_eq, h.recv k]; rcases hinfok with e | e <;> simp [e, fillFirst]
  have hsk : aget t.sources k = some [xp] := by rw [h.src k]; rcases hinfok with e | e <;> simp [e]
  have htk : aget t.targets k = none := by rw [h.tgt k]; rcases hinfok with e | e <;> simp [e]
  have hdk : aget t.reader k = none := by rw [h.rdr k]; rcases hinfok with e | e <;> simp [e]
  have hf1 : findReq xp (updReq xp (fillSt k ans) a.reqs) = some ⟨xp, xr, .cells (fillCell k ans cs)⟩ :=
    findReq_upd a.reqs xp _ _ hx
  have hnd1 : (ids a1.reqs).Nodup := by
    apply nodup_upd a.reqs xp (fillSt k ans) _ hnd hx _ hnew
    rw [hidx']
    simp only [List.nodup_cons]
    exact ⟨fun hm => hndx.1 ((openIds_fillCell_sub k ans cs).subset hm),
      List.Nodup.sublist (openIds_fillCell_sub k ans cs) hndx.2⟩
  have hsub1 : ∀ k' ∈ ids a1.reqs, k' ∈ ids a.reqs := by
    intro k' hk'
    rcases ids_upd_sub a.reqs xp (fillSt k ans) _ hx k' hk' with h1 | h1
    · exact h1
    · rcases hnew k' h1 with h2 | h2
      · exact mem_ids_of_mem hxm h2
      · rw [hidx'] at h1
        simp only [List.mem_cons] at h1
        rcases h1 with h1 | h1
        · rw [h1]; exact mem_ids_of_mem hxm (by simp [idsR])
        · exact mem_ids_of_mem hxm (by simp [idsR, cellsOfSt, (openIds_fillCell_sub k ans cs).subset h1])
  have howed1 : ∀ k' w', Owed a.reqs k' w' → k' ≠ k → Owed a1.reqs k' w' := by
    intro k' w' ho hne
    apply owed_upd a.reqs xp (fillSt k ans) _ k' w' hx _ ho
    refine ⟨fun e => by simp at e, ?_⟩
    intro cs0 e hm; simp only [RSt.cells.injEq] at e; subst e
    exact ⟨fillCell k ans cs, rfl, written_fillCell k ans cs k' w' hne hm⟩
  have hk_not1 : k ∉ ids a1.reqs := by
    apply not_mem_ids_of_info a1.reqs k hnd1
    have := hinfo k
    simp only [hkp, if_false, if_true, info] at this
    exact this
  have hfo_base : ∀ a' : A, a'.wq = a.wq → a'.bad = a.bad → (ids a'.reqs).Nodup →
      (∀ k' ∈ ids a'.reqs, k' ∈ ids a1.reqs) → (∀ k' w', Owed a1.reqs k' w' → Owed a'.reqs k' w') → FillOK a a' k :=
    fun a' h1 h2 h3 h4 h5 => ⟨h3, fun k' hk' => hsub1 k' (h4 k' hk'), fun k' w' ho hne => h5 k' w' (howed1 k' w' ho hne), h1, h2⟩
  have hrx : aget (receive t k ans).receives xp = some (cs.map cellVal) := by
    simp only [receive, aget_aset, hpk, if_false]; rw [h.recv xp, hself]
  have htx : aget (receive t k ans).targets xp = some (openIds cs) := by
    simp only [receive]; rw [h.tgt xp, hself]
  have hrk : aget (receive t k ans).receives k = some [some ans] := by
    simp only [receive, hfill, aget_aset, if_true]
  by_cases hc : hasNil ((fillCell k ans cs).map cellVal) = true
  · have hrep : reply (.cells (fillCell k ans cs)) = none := by rw [reply_cells_ne _ hcs']; simp [hc]
    have hafill : afill a k ans = (a1, []) := by
      simp only [afill, hfk, hown, afterFill, hf1, hrep]; rfl
    have hres := resolve_chainG_incomplete 6 (receive t k ans) xp k xr ans cs h.hooks hpk hrk
      (by simp only [receive]; exact hsk) (by simp only [receive]; exact hdk) hrx htx hk hc
    refine ⟨a1, _, by rw [hafill], by rw [hafill]; exact hres, ?_, hfo_base a1 rfl rfl hnd1 (fun _ h => h) (fun _ _ h => h)⟩
    constructor
    · exact h.panic
    · exact h.hooks
    · intro k'; simp only [receive, hfill, aget_adel, aget_aset]; rw [hinfo k']
      by_cases e1 : k' = k
      · simp [e1, hkp]
      · by_cases e2 : k' = xp
        · simp [e2, hpk]
        · simp only [e1, e2, if_false]; exact h.recv k'
    · intro k'; simp only [receive, aget_adel]; rw [hinfo k']
      by_cases e1 : k' = k
      · simp [e1, hkp]
      · by_cases e2 : k' = xp
        · subst e2; simp only [e1, if_false, if_true]; rw [h.src k', hself]
        · simp only [e1, e2, if_false]; exact h.src k'
    · intro k'; simp only [receive, aget_optL_setOrDel]; rw [hinfo k']
      by_cases e2 : k' = xp
      · simp [e2]
      · by_cases e1 : k' = k
        · subst e1; simp only [e2, if_false, if_true]; exact htk
        · simp only [e1, e2, if_false]; exact h.tgt k'
    · intro k'; simp only [receive]; rw [hinfo k']
      by_cases e2 : k' = xp
      · subst e2; simp only [if_true]; rw [h.rdr k', hself]
      · by_cases e1 : k' = k
        · subst e1; simp only [e2, if_false, if_true]; exact hdk
        · simp only [e1, e2, if_false]; exact h.rdr k'
    · intro r'; simp only [receive]; rw [h.reads r']; simp [readsOf, a1, readsOf_upd]
    · intro w; exact h.writes w
  · have hc' : hasNil ((fillCell k ans cs).map cellVal) = false := by simpa using hc
    have hrep : reply (.cells (fillCell k ans cs)) = some (joinCells ((fillCell k ans cs).map cellVal)) := by
      rw [reply_cells_ne _ hcs']; simp [hc']
    have hafill : afill a k ans = ({ a with reqs := (flushR xr a1.reqs).1 }, (flushR xr a1.reqs).2) := by
      simp only [afill, hfk, hown, afterFill, hf1, hrep]; rfl
    have hfl := flush_final a1
      { receive t k ans with
        sources := adel (receive t k ans).sources k
        receives := aset (receive t k ans).receives xp ((fillCell k ans cs).map cellVal)
        targets := setOrDel (receive t k ans).targets xp (openIds (fillCell k ans cs)) }
      xr [k] h.panic h.hooks hnd1 (by intro k' hk'; simp at hk'; subst hk'; exact hk_not1)
      (by
        intro k' hk'
        have e1 : k' ≠ k := by simpa using hk'
        simp only [receive, hfill, aget_aset]; rw [hinfo k']
        by_cases e2 : k' = xp
        · simp [e2]
        · simp only [e1, e2, if_false]; exact h.recv k')
      (by
        intro k'; simp only [receive, aget_adel]; rw [hinfo k']
        by_cases e1 : k' = k
        · simp [e1, hkp]
        · by_cases e2 : k' = xp
          · subst e2; simp only [e1, if_false, if_true]; rw [h.src k', hself]
          · simp only [e1, e2, if_false]; exact h.src k')
      (by
        intro k'; simp only [receive, aget_optL_setOrDel]; rw [hinfo k']
        by_cases e2 : k' = xp
        · simp [e2]
        · by_cases e1 : k' = k
          · subst e1; simp only [e2, if_false, if_true]; exact htk
          · simp only [e1, e2, if_false]; exact h.tgt k')
      (by
        intro k'; simp only [receive]; rw [hinfo k']
        by_cases e2 : k' = xp
        · subst e2; simp only [if_true]; rw [h.rdr k', hself]
        · by_cases e1 : k' = k
          · subst e1; simp only [e2, if_false, if_true]; exact hdk
          · simp only [e1, e2, if_false]; exact h.rdr k')
      (by intro r'; simp only [receive]; rw [h.reads r']; simp [readsOf, a1, readsOf_upd])
      (by intro w; exact h.writes w)
    obtain ⟨t2, L', hflush, hq2, hT⟩ := hfl
    have hres := resolve_chainG_complete 6 (receive t k ans) xp k xr ans cs h.hooks hpk hrk
      (by simp only [receive]; exact hsk) hrx htx hk
      (by simp only [receive]; rw [h.src xp, hself]) (by simp only [receive]; rw [h.rdr xp, hself]) hc'
      L' t2 _ hflush (hq2 k (by simp))
    refine ⟨{ a with reqs := (flushR xr a1.reqs).1 }, _, by rw [hafill], by rw [hafill]; exact hres,
      hT (adel t2.receives k) (by intro k'; simp [aget_adel]), ?_⟩
    exact hfo_base _ rfl rfl (List.Nodup.sublist (ids_sublist (flushR_sublist xr a1.reqs)) hnd1)
      (fun k' hk' => (ids_sublist (flushR_sublist xr a1.reqs)).subset hk')
      (fun k' w' ho => owed_flushR xr a1.reqs k' w' ho)

theorem getL_setOrDel {β : Type} (m : List (Nat × List β)) (k k' : Nat) (l : List β) :
    getL (setOrDel m k l) k' = if k' = k then l else getL m k' := by
  simp only [getL_eq, aget_setOrDel]
  by_cases e : k' = k
  · simp only [e, if_true]; cases l <;> simp
  · simp [e]

/-- `Write` that is not accepted (or `Write(nil, pck)`): precondition = the packet is a request with
nothing registered yet, or a linked, not yet written derived packet -/
theorem trel_awrite_rej (a : A) (t : T) (w : Option Wid) (k : Pid) (pay : Ans) (acc : Bool)
    (h : TRel a t) (hi : Inv a) (hna : ¬ (w.isSome = true ∧ acc = true))
    (hpre : (∃ r, findReq k a.reqs = some ⟨k, r, .cells []⟩) ∨
            (∃ x cs, x ∈ a.reqs ∧ x.st = .cells cs ∧ isLinked k cs = true)) :
    ∃ a' t', awrite a w k pay acc = (a', (awrite a w k pay acc).2) ∧
      write true t w k pay acc = (t', (awrite a w k pay acc).2) ∧ TRel a' t' ∧ Inv a' ∧
      (∀ k' ∈ ids a'.reqs, k' ∈ ids a.reqs) := by
  have e1 : awrite a w k pay acc = afill a k pay := by
    cases w <;> cases acc <;> simp_all [awrite]
  have e2 : write true t w k pay acc = resolve true defaultFuel (receive t k pay) k := by
    cases w <;> cases acc <;> simp_all [write]
  have hknot : ∀ w', k ∉ getL a.wq w' := by
    intro w' hm
    have hr := owed_recv a k w' hi.nodup (hi.owed w' k hm)
    rcases hpre with ⟨r, hx⟩ | ⟨x, cs, hxm, hst, hl⟩
    · rw [info_self a _ hi.nodup (findReq_mem _ _ _ hx).1] at hr; simp [recvOfSt] at hr
    · have hko := isLinked_open k cs hl
      have hndx := idsR_nodup a.reqs x hi.nodup hxm
      simp only [idsR, hst, cellsOfSt, List.nodup_cons] at hndx
      have hkp : k ≠ x.p := fun e => hndx.1 (e ▸ hko)
      simp only [info, infoL_self a.reqs x k hi.nodup hxm (by simp [idsR, hst, cellsOfSt, hko]), infoR, hkp, if_false,
        hst, cellsOfSt, infoCells_linked x.p k cs hl hndx.2] at hr
      simp at hr
  have key : ∃ a' t', afill a k pay = (a', (afill a k pay).2) ∧
      resolve true defaultFuel (receive t k pay) k = (t', (afill a k pay).2) ∧ TRel a' t' ∧ FillOK a a' k := by
    rcases hpre with ⟨r, hx⟩ | ⟨x, cs, hxm, hst, hl⟩
    · exact trel_afill_req a t k r _ pay h hi.nodup hx (Or.inl rfl)
    · exact trel_afill_cell a t k pay x cs h hi.nodup hxm hst (isLinked_open k cs hl)
  obtain ⟨a', t', h1, h2, h3, h4⟩ := key
  refine ⟨a', t', by rw [e1]; exact h1, by rw [e1, e2]; exact h2, h3, ?_, h4.sub⟩
  constructor
  · exact h4.nodup
  · intro w' k' hk'; rw [h4.wq] at hk'
    exact h4.owed k' w' (hi.owed w' k' hk') (fun e => hknot w' (e ▸ hk'))
  · intro w'; rw [h4.wq]; exact hi.wnodup w'
  · intro w1 w2 k1; rw [h4.wq]; exact hi.wdisj w1 w2 k1
  · rw [h4.bad]; exact hi.good

/-- `Receive(writer, pck)` -/
theorem trel_aanswer (a : A) (t : T) (w : Wid) (ans : Ans) (h : TRel a t) (hi : Inv a) :
    ∃ a' t', aanswer a w ans = (a', (aanswer a w ans).2) ∧
      receiveW true t w (some ans) = (t', (aanswer a w ans).2) ∧ TRel a' t' ∧ Inv a' ∧
      (∀ k' ∈ ids a'.reqs, k' ∈ ids a.reqs) := by
  have hw : getL t.writes w = getL a.wq w := getL_of_aget _ _ w (h.writes w)
  cases hq : getL a.wq w with
  | nil =>
    refine ⟨a, t, ?_, ?_, h, hi, fun _ h => h⟩
    · simp [aanswer, hq]
    · simp [aanswer, receiveW, hw, hq]
  | cons k rest =>
    let a0 : A := { a with wq := setOrDel a.wq w rest }
    let t0 : T := { t with writes := setOrDel t.writes w rest }
    have h0 : TRel a0 t0 :=
      ⟨h.panic, h.hooks, h.recv, h.src, h.tgt, h.rdr, h.reads,
        fun w' => by simp only [a0, t0, aget_setOrDel]; split; rfl; exact h.writes w'⟩
    have hkin : k ∈ getL a.wq w := by rw [hq]; simp
    have hnd := hi.wnodup w
    rw [hq, List.nodup_cons] at hnd
    have ho := hi.owed w k hkin
    have key : ∃ a' t', afill a0 k ans = (a', (afill a0 k ans).2) ∧
        resolve true defaultFuel (receive t0 k ans) k = (t', (afill a0 k ans).2) ∧ TRel a' t' ∧ FillOK a0 a' k := by
      obtain ⟨x, hxm, hxo⟩ := ho
      rcases hxo with ⟨h1, h2⟩ | ⟨cs, h1, h2⟩
      · have hx := findReq_of_mem a.reqs x hi.nodup hxm
        obtain ⟨xp, xr, xst⟩ := x
        simp only at h1 h2; subst h1; subst h2
        exact trel_afill_req a0 t0 xp xr _ ans h0 hi.nodup hx (Or.inr ⟨w, rfl⟩)
      · exact trel_afill_cell a0 t0 k ans x cs h0 hi.nodup hxm h1 (written_mem_open cs k w h2)
    obtain ⟨a', t', g1, g2, g3, g4⟩ := key
    have ea : aanswer a w ans = afill a0 k ans := by simp [aanswer, hq, a0]
    have et : receiveW true t w (some ans) = resolve true defaultFuel (receive t0 k ans) k := by
      simp [receiveW, hw, hq, t0]
    refine ⟨a', t', by rw [ea]; exact g1, by rw [ea, et]; exact g2, g3, ?_, g4.sub⟩
    have hgl : ∀ w', getL a0.wq w' = if w' = w then rest else getL a.wq w' := fun w' => getL_setOrDel _ _ _ _
    have hsubq : ∀ w' k', k' ∈ getL a0.wq w' → k' ∈ getL a.wq w' := by
      intro w' k' hk'; rw [hgl w'] at hk'
      by_cases e : w' = w
      · subst e; simp only [if_true] at hk'; rw [hq]; simp [hk']
      · simpa [e] using hk'
    constructor
    · exact g4.nodup
    · intro w' k' hk'; rw [g4.wq] at hk'
      have hk2 := hsubq w' k' hk'
      apply g4.owed k' w' (hi.owed w' k' hk2)
      intro e; subst e
      rw [hgl w'] at hk'
      by_cases e2 : w' = w
      · subst e2; simp only [if_true] at hk'; exact hnd.1 hk'
      · exact e2 (hi.wdisj w' w k' hk2 hkin)
    · intro w'; rw [g4.wq, hgl w']
      by_cases e : w' = w
      · simp [e, hnd.2]
      · simp only [e, if_false]; exact hi.wnodup w'
    · intro w1 w2 k1 h1 h2; rw [g4.wq] at h1 h2
      exact hi.wdisj w1 w2 k1 (hsubq w1 k1 h1) (hsubq w2 k1 h2)
    · rw [g4.bad]; exact hi.good

theorem call_refines (a : A) (t : T) (c : Call) (h : TRel a t) (hi : Inv a) (hp : Pre a c) :
    (tcall t c).2 = (acall a c).2 ∧ TRel (acall a c).1 (tcall t c).1 ∧ Inv (acall a c).1 := by
  cases c with
  | read r p => exact ⟨rfl, trel_aread a t r p h hp, inv_aread a r p hi hp⟩
  | link p q =>
    rcases hp with e | ⟨x, cs, hx, hst, hq⟩
    · subst e; simp only [acall, tcall, alink, link, if_true]; exact ⟨trivial, h, hi⟩
    · by_cases e : p = q
      · subst e; simp only [acall, tcall, alink, link, if_true]; exact ⟨trivial, h, hi⟩
      · have := trel_alink a t p q x cs h hi hx hst hq e
        exact ⟨rfl, this.1, this.2⟩
  | write w k pay acc =>
    by_cases hacc : w.isSome = true ∧ acc = true
    · obtain ⟨hw, ha⟩ := hacc
      obtain ⟨w0, rfl⟩ := Option.isSome_iff_exists.mp hw
      subst ha
      rcases hp with ⟨r, hx⟩ | ⟨x, cs, hxm, hst, hl⟩
      · obtain ⟨a', t', h1, h2, h3, h4, _⟩ := trel_awrite_direct a t w0 k r pay h hi hx
        simp only [acall, tcall, h1, h2]; exact ⟨trivial, h3, h4⟩
      · obtain ⟨a', t', h1, h2, h3, h4, _⟩ := trel_awrite_cell a t w0 k pay x cs h hi hxm hst hl
        simp only [acall, tcall, h1, h2]; exact ⟨trivial, h3, h4⟩
    · obtain ⟨a', t', h1, h2, h3, h4, _⟩ := trel_awrite_rej a t w k pay acc h hi hacc hp
      have e1 : (awrite a w k pay acc).1 = a' := by rw [h1]
      simp only [acall, tcall]
      exact ⟨by rw [h2], by rw [h2, e1]; exact h3, by rw [e1]; exact h4⟩
  | answer w ans =>
    obtain ⟨a', t', h1, h2, h3, h4, _⟩ := trel_aanswer a t w ans h hi
    have e1 : (aanswer a w ans).1 = a' := by rw [h1]
    simp only [acall, tcall]
    exact ⟨by rw [h2], by rw [h2, e1]; exact h3, by rw [e1]; exact h4⟩

theorem run_refines (cs : List Call) : ∀ (a : A) (t : T), TRel a t → Inv a → Protocol a cs →
    (trun t cs).2 = (arun a cs).2 ∧ TRel (arun a cs).1 (trun t cs).1 ∧ Inv (arun a cs).1 := by
  induction cs with
  | nil => intro a t h hi _; exact ⟨rfl, h, hi⟩
  | cons c cs ih =>
    intro a t h hi hp
    obtain ⟨h1, h2, h3⟩ := call_refines a t c h hi hp.1
    obtain ⟨g1, g2, g3⟩ := ih _ _ h2 h3 hp.2
    simp only [trun, arun]
    exact ⟨by rw [h1, g1], g2, g3⟩

theorem trel_init : TRel {} {} := by
  constructor <;> first | rfl | (intro k; simp [info, infoL, readsOf, optL])

theorem inv_init : Inv {} := by
  constructor
  · simp [ids]
  · intro w k hk; simp [getL_eq] at hk
  · intro w; simp [getL_eq]
  · intro w w' k hk; simp [getL_eq] at hk
  · rfl

/-- the tracer call a node step makes (none when the step is not enabled or touches no tracer) -/
def stepCalls (n : Node) : Step → List Call
  | .read i =>
    match getThread n.threads i with
    | some { inbox := p :: _, pc := .idle } => [.read i p.id]
    | _ => []
  | .op i acc =>
    match getThread n.threads i with
    | some { inbox := _, pc := .emit (.link s t :: _) } => [.link s t]
    | some { inbox := _, pc := .emit (.write w q :: _) } => [.write w q.id (.pay q.pay) acc]
    | _ => []
  | .answer w a =>
    match getL n.tr.writes w with
    | [] => []
    | _ :: _ => [.answer w a]
  | _ => []

/-- all tracer calls of a run, in order -/
def callsOf : Node → List Step → List Call
  | _, [] => []
  | n, st :: sts =>
    match Node.step n st with
    | none => callsOf n sts
    | some (n', _) => stepCalls n st ++ callsOf n' sts

theorem trun_append (t : T) (cs cs' : List Call) :
    trun t (cs ++ cs') = ((trun (trun t cs).1 cs').1, (trun t cs).2 ++ (trun (trun t cs).1 cs').2) := by
  induction cs generalizing t with
  | nil => simp [trun]
  | cons c cs ih => simp only [List.cons_append, trun, ih]; simp [List.append_assoc]

theorem step_calls (n n' : Node) (st : Step) (ev : List Ev) (hs : n.strict = true)
    (h : Node.step n st = some (n', ev)) :
    trun n.tr (stepCalls n st) = (n'.tr, ev) ∧ n'.strict = true := by
  cases st with
  | deliver i p =>
    simp only [Node.step] at h
    split at h
    · simp at h
    · simp at h; obtain ⟨rfl, rfl⟩ := h; exact ⟨rfl, hs⟩
  | read i =>
    simp only [Node.step, stepCalls] at h ⊢
    split at h
    · rename_i p rest heq
      rw [heq]
      cases hk : n.kind with
      | manyToOne k => simp [hk] at h; obtain ⟨rfl, rfl⟩ := h; simp [trun, tcall, hs]
      | oneToOne => simp [hk] at h; obtain ⟨rfl, rfl⟩ := h; simp [trun, tcall, hs]
      | oneToMany k => simp [hk] at h; obtain ⟨rfl, rfl⟩ := h; simp [trun, tcall, hs]
    · simp at h
  | finish i o =>
    simp only [Node.step] at h
    split at h
    · split at h <;> (simp at h; obtain ⟨rfl, rfl⟩ := h; exact ⟨rfl, hs⟩)
    · simp at h
  | op i acc =>
    simp only [Node.step, stepCalls] at h ⊢
    split at h
    · rename_i inbox o ops heq
      rw [heq]
      cases o with
      | link s t => simp at h; obtain ⟨rfl, rfl⟩ := h; simp [trun, tcall, hs]
      | write w q =>
        simp at h; obtain ⟨rfl, rfl⟩ := h
        simp [trun, tcall, hs]
    · simp at h
  | answer w a =>
    simp only [Node.step, stepCalls] at h ⊢
    split at h
    · simp at h
    · rename_i x xs heq
      rw [heq]
      simp at h; obtain ⟨rfl, rfl⟩ := h
      simp [trun, tcall, hs]

theorem run_calls (sched : List Step) : ∀ n : Node, n.strict = true →
    trun n.tr (callsOf n sched) = ((Node.run n sched).1.tr, (Node.run n sched).2) := by
  induction sched with
  | nil => intro n _; rfl
  | cons st sts ih =>
    intro n hs
    simp only [callsOf, Node.run]
    cases h : Node.step n st with
    | none => exact ih n hs
    | some x =>
      obtain ⟨n', ev⟩ := x
      obtain ⟨h1, h2⟩ := step_calls n n' st ev hs h
      simp only [trun_append, h1, ih n' h2]


/-- executable form of `Pre` -/
def preB (a : A) : Call → Bool
  | .read _ p => !(ids a.reqs).contains p
  | .link p q =>
    p == q ||
    (match findReq p a.reqs with
     | some ⟨_, _, .cells _⟩ => !(ids a.reqs).contains q
     | _ => false)
  | .write _ k _ _ =>
    (match findReq k a.reqs with
     | some ⟨_, _, .cells []⟩ => true
     | _ => false) ||
    (match ownerOf k a.reqs with
     | some ⟨_, _, .cells cs⟩ => isLinked k cs
     | _ => false)
  | .answer _ _ => true

def protoB : A → List Call → Bool
  | _, [] => true
  | a, c :: cs => preB a c && protoB (acall a c).1 cs

theorem preB_sound (a : A) (c : Call) (h : preB a c = true) : Pre a c := by
  cases c with
  | read r p => simpa [preB, Pre] using h
  | link p q =>
    simp only [preB, Bool.or_eq_true, beq_iff_eq] at h
    rcases h with h | h
    · exact Or.inl h
    · right
      cases hf : findReq p a.reqs with
      | none => simp [hf] at h
      | some x =>
        obtain ⟨xp, xr, xst⟩ := x
        cases xst with
        | direct w => simp [hf] at h
        | cells cs => simp [hf] at h; exact ⟨_, cs, rfl, rfl, h⟩
  | write w k pay acc =>
    simp only [preB, Bool.or_eq_true] at h
    rcases h with h | h
    · left
      cases hf : findReq k a.reqs with
      | none => simp [hf] at h
      | some x =>
        obtain ⟨xp, xr, xst⟩ := x
        have hp := (findReq_mem k a.reqs _ hf).2
        simp only at hp; subst hp
        cases xst with
        | direct w => simp [hf] at h
        | cells cs =>
          cases cs with
          | nil => exact ⟨xr, rfl⟩
          | cons c cs => simp [hf] at h
    · right
      cases ho : ownerOf k a.reqs with
      | none => simp [ho] at h
      | some x =>
        obtain ⟨hxm, cs, hst, _⟩ := ownerOf_spec k a.reqs x ho
        obtain ⟨xp, xr, xst⟩ := x
        simp only at hst; subst hst
        simp [ho] at h
        exact ⟨_, cs, hxm, rfl, h⟩
  | answer w ans => trivial

theorem protoB_sound (cs : List Call) : ∀ a, protoB a cs = true → Protocol a cs := by
  induction cs with
  | nil => intro a _; trivial
  | cons c cs ih =>
    intro a h
    simp only [protoB, Bool.and_eq_true] at h
    exact ⟨preB_sound a c h.1, ih _ h.2⟩

def replyEv (r : Rid) (x : Req) : List Ev :=
  match reply x.st with
  | some a => [Ev.reply r a]
  | none => []

/-- `flushR r` answers exactly the maximal complete prefix of reader `r`'s requests, in read order,
one reply each; they leave the state; the next request of `r` (if any) is incomplete; the requests
of other readers are untouched. -/
theorem flushR_spec (r : Rid) (rs : List Req) :
    ∃ pre, rs.filter (fun x => x.r = r) = pre ++ (flushR r rs).1.filter (fun x => x.r = r) ∧
      (∀ x ∈ pre, ∃ a, reply x.st = some a) ∧
      (flushR r rs).2 = pre.flatMap (replyEv r) ∧
      (∀ x rest, (flushR r rs).1.filter (fun x => x.r = r) = x :: rest → reply x.st = none) := by
  induction rs with
  | nil => exact ⟨[], by simp [flushR], by simp, by simp [flushR], by simp [flushR]⟩
  | cons y ys ih =>
    obtain ⟨pre, h1, h2, h3, h4⟩ := ih
    by_cases hyr : y.r = r
    · cases hrep : reply y.st with
      | none =>
        refine ⟨[], by simp [flushR, hyr, hrep], by simp, by simp [flushR, hyr, hrep], ?_⟩
        intro x rest hx
        simp [flushR, hyr, hrep] at hx
        rw [← hx.1]; exact hrep
      | some a =>
        refine ⟨y :: pre, ?_, ?_, ?_, ?_⟩
        · simp only [flushR, hyr, if_true, hrep, List.filter_cons, decide_true, List.cons_append]; rw [h1]
        · intro x hx; rcases List.mem_cons.mp hx with e | hx
          · subst e; exact ⟨a, hrep⟩
          · exact h2 x hx
        · simp only [flushR, hyr, if_true, hrep, List.flatMap_cons, replyEv, h3]; rfl
        · simpa [flushR, hyr, hrep] using h4
    · refine ⟨pre, ?_, h2, ?_, ?_⟩
      · simp only [flushR, hyr, if_false, List.filter_cons, decide_false]; simpa using h1
      · simp only [flushR, hyr, if_false]; exact h3
      · simpa [flushR, hyr] using h4

theorem quiescent_empty_general (cs : List Call) (hp : Protocol {} cs)
    (hq : (arun {} cs).1.reqs = []) (hw : (arun {} cs).1.wq = []) : isEmpty (trun {} cs).1 = true := by
  obtain ⟨_, h2, _⟩ := run_refines cs {} {} trel_init inv_init hp
  have hinfo : ∀ k, info (arun {} cs).1 k = {} := by intro k; simp [info, hq, infoL]
  have e1 := eq_nil_of_aget _ (fun k => by rw [h2.recv k, hinfo])
  have e2 := eq_nil_of_aget _ (fun k => by rw [h2.src k, hinfo])
  have e3 := eq_nil_of_aget _ (fun k => by rw [h2.tgt k, hinfo])
  have e4 := eq_nil_of_aget _ (fun k => by rw [h2.rdr k, hinfo])
  have e5 := eq_nil_of_aget _ (fun r => by rw [h2.reads r]; simp [readsOf, hq, optL])
  have e6 := eq_nil_of_aget _ (fun w => by rw [h2.writes w, hw]; rfl)
  simp [isEmpty, e1, e2, e3, e4, e5, e6, h2.hooks]

end Uniflow.ATracer
