/-
C02, joint model, part 9 of the invariant proof: a refused `Write` (the writer has no reader: the
packet is its own answer) and a downstream answer; both complete a request and the replies of the
complete prefix are routed to the feeding writer.
-/
import Uniflow.Proofs.FlowInv8

namespace Uniflow.FlowInv
open Uniflow.Tracer Uniflow.Node Uniflow.Flow
open Uniflow.NodeSpec (S EReq ESt Cur Rel curRead writesOf allIds flushS flushT markDone)
open Uniflow.ATracer (getL_setOrDel getL_aset)

theorem updD_D0 (rk : Nat) : updD D0 rk [] = D0 := by
  funext x; simp only [updD, D0]; split <;> rfl

theorem srcq_nil (N : Nat) (links : List (Nat × List Tgt)) (hwf : TreeWF N links) (ss : Nat → S)
    (D : Nat → List (Pid × Ans)) (g : G) (h : FI N links ss D g) : (gw g.writers srcKey).queue = [] := by
  cases hs : getL links srcKey with
  | nil => exact absurd hs hwf.src
  | cons t ts =>
    have := links_single N links hwf srcKey t (by rw [hs]; simp)
    exact (h.wkS t this).2

/-- `FI_debt_node` followed by the routing of the replies -/
theorem FI_debt_route (N : Nat) (links : List (Nat × List Tgt)) (hwf : TreeWF N links) (ss : Nat → S) (g : G)
    (h : FI N links ss D0 g) (n : Nat) (nd0 nd' : Node) (rs1 : List EReq) (cur' : Cur) (lg' : Log) (k : Pid)
    (ws' : List (Nat × Flow.Writer))
    (hn : getNode g.nodes n = some nd0)
    (hr' : Rel ⟨(ss n).inbox, (flushS rs1).1, cur'⟩ nd' g.next)
    (hheld : rs1.map (·.p) ++ curRead cur' ++ (ss n).inbox.map (·.id) = heldOf (ss n))
    (hx : LogExt g.log lg' k) (ho : lg'.owner = g.log.owner)
    (hlb : ∀ id, g.next ≤ id → Unlogged lg' id)
    (hsepN : ∀ m, m ≠ n → k ∉ unlIds (ss m)) (hsepS : ∀ j, k ∉ (getL g.sinks j).map (·.1))
    (hreq : ∀ r ∈ rs1, ReqOK lg' r) (hcur : CurOK lg' n cur') (hinb : ∀ p ∈ (ss n).inbox, Unlogged lg' p.id)
    (hsq : (gw ws' srcKey).queue = []) (hwq0 : ∀ key, getL links key = [] → (gw ws' key).queue = [])
    (hwk : ∀ key t, getL links key = [t] → WK lg' (gw ws' key) (getL g.fifo (rkeyOf t)) key
      (if key = srcKey then g.roots.drop g.resp.length
       else if key / 64 = n then writesOf rs1 (key % 64) else writesOf (ss (key / 64)).reqs (key % 64))
      (heldD D0 ss g.sinks t))
    (hordk : OrdAt lg' k g.next) :
    FI N links (upd ss n ⟨(ss n).inbox, (flushS rs1).1, cur'⟩) D0
      (putNode { g with log := lg', writers := ws' } n nd' (flushS rs1).2) := by
  have h1 := FI_debt_node N links hwf ss g h n nd0 nd' rs1 cur' lg' k ws' hn hr' hheld hx ho hlb hsepN hsepS
    hreq hcur hinb hsq hwq0 hwk hordk
  have hnN : n < N := (h.nodesLen n).mp (by rw [hn]; rfl)
  have h2 := FI_route N links hwf _ n (Nat.lt_of_lt_of_le hnN hwf.small) (flushT rs1).2 _ _ h1 (by simp [updD])
  rw [updD_updD, updD_D0] at h2
  rw [← (NodeSpec.flushT_erase rs1).2]
  exact h2

/-- every member of the list after `markDone` -/
theorem markDone_mem (w : Wid) (a : Ans) : ∀ (rs rs' : List EReq), markDone w a rs = some rs' →
    ∃ p q, (⟨p, .written q w⟩ : EReq) ∈ rs ∧ writesOf rs w = q :: writesOf rs' w ∧
      (∀ w', w' ≠ w → writesOf rs' w' = writesOf rs w') ∧ rs'.map (·.p) = rs.map (·.p) ∧
      ∀ r ∈ rs', r ∈ rs ∨ r = ⟨p, .done a⟩ := by
  intro rs
  induction rs with
  | nil => intro rs' h; simp [markDone] at h
  | cons r rs ih =>
    intro rs' h
    obtain ⟨p0, st⟩ := r
    cases st with
    | written q0 w0 =>
      simp only [markDone] at h
      by_cases hw : w0 = w
      · subst hw
        simp only [if_true, Option.some.injEq] at h
        subst h
        refine ⟨p0, q0, by simp, by simp [writesOf], ?_, by simp, ?_⟩
        · intro w' hw'; simp [writesOf, Ne.symm hw']
        · intro r hr
          simp only [List.mem_cons] at hr ⊢
          rcases hr with e | hr
          · right; exact e
          · left; right; exact hr
      · simp only [hw, if_false] at h
        cases hm : markDone w a rs with
        | none => rw [hm] at h; cases h
        | some rs2 =>
          rw [hm] at h
          simp only [Option.some.injEq] at h
          subst h
          obtain ⟨p, q, m1, m2, m3, m4, m5⟩ := ih rs2 hm
          refine ⟨p, q, List.mem_cons_of_mem _ m1, by simp [writesOf, hw, m2], ?_, by simp [m4], ?_⟩
          · intro w' hw'; simp only [writesOf]; rw [m3 w' hw']
          · intro r hr
            simp only [List.mem_cons] at hr ⊢
            rcases hr with e | hr
            · left; left; exact e
            · rcases m5 r hr with e | e
              · left; right; exact e
              · right; exact e
    | done b =>
      simp only [markDone] at h
      cases hm : markDone w a rs with
      | none => rw [hm] at h; cases h
      | some rs2 =>
        rw [hm] at h
        simp only [Option.some.injEq] at h
        subst h
        obtain ⟨p, q, m1, m2, m3, m4, m5⟩ := ih rs2 hm
        refine ⟨p, q, List.mem_cons_of_mem _ m1, by simp [writesOf, m2], ?_, by simp [m4], ?_⟩
        · intro w' hw'; simp only [writesOf]; rw [m3 w' hw']
        · intro r hr
          simp only [List.mem_cons] at hr ⊢
          rcases hr with e | hr
          · left; left; exact e
          · rcases m5 r hr with e | e
            · left; right; exact e
            · right; exact e

/-- a `Write` on a writer without reader: the packet is its own answer -/
theorem FI_write_rej (N : Nat) (links : List (Nat × List Tgt)) (hwf : TreeWF N links) (ss : Nat → S) (g : G)
    (h : FI N links ss D0 g) (n : Nat) (nd nd' : Node) (p q : Pkt) (w : Wid)
    (hn : getNode g.nodes n = some nd) (hc : (ss n).cur = .linked p q w)
    (hr' : Rel ⟨(ss n).inbox, (flushS ((ss n).reqs ++ [⟨p.id, .done (.pay q.pay)⟩])).1, .idle⟩ nd' g.next) :
    FI N links (upd ss n ⟨(ss n).inbox, (flushS ((ss n).reqs ++ [⟨p.id, .done (.pay q.pay)⟩])).1, .idle⟩) D0
      (putNode (logEcho g q) n nd' (flushS ((ss n).reqs ++ [⟨p.id, .done (.pay q.pay)⟩])).2) := by
  have hnN : n < N := (h.nodesLen n).mp (by rw [hn]; rfl)
  have hrel := h.rel n nd hn
  have hco := h.curOK n
  rw [hc] at hco
  obtain ⟨hrl, hqu, hw2, hqo⟩ := hco
  let lg' : Log := { g.log with echo := aset g.log.echo q.id q.pay }
  have hx : LogExt g.log lg' q.id := by
    refine ⟨hqu, fun x hxne => ⟨rfl, rfl, ?_, rfl⟩⟩
    show aget (aset g.log.echo q.id q.pay) x = _
    rw [aget_aset]; simp [hxne]
  have hqlt : q.id < g.next := hrel.bound q.id (by simp [allIds, hc, NodeSpec.idsC])
  apply FI_debt_route N links hwf ss g h n nd nd' _ .idle lg' q.id g.writers hn hr' _ hx rfl
  · intro id hid
    exact unlogged_ext g.log lg' q.id hx id (fun e => by rw [e] at hid; exact Nat.lt_irrefl _ (Nat.lt_of_lt_of_le hqlt hid))
      (h.logBound id hid)
  · intro m hm
    apply sep_node N links ss D0 g h q.id (qTag n) hqo m
    · simp only [qTag]; omega
    · simp only [qTag]; omega
  · intro j
    apply sep_sink N links ss D0 g h q.id (qTag n) hqo j
    simp only [qTag]; have := hwf.small; omega
  · intro r hr
    rw [List.mem_append] at hr
    rcases hr with hr | hr
    · exact reqOK_ext g.log lg' q.id hx r (h.reqsOK n r hr)
    · simp only [List.mem_singleton] at hr
      subst hr
      show RA lg' p.id (.pay q.pay)
      apply ra_of_reqlogged lg' p.id q.id _ (reqlogged_ext g.log lg' q.id hx _ _ hrl)
      apply ra_echo
      show aget (aset g.log.echo q.id q.pay) q.id = _
      rw [aget_aset]; simp
  · trivial
  · intro x hxi
    apply unlogged_ext g.log lg' q.id hx x.id _ (h.inboxOK n x hxi)
    intro e
    exact rel_nodup_ne (ss n) nd g.next hrel q.id x.id (by simp [hc, NodeSpec.idsC]) (List.mem_map.mpr ⟨x, hxi, rfl⟩) e.symm
  · exact srcq_nil N links hwf ss D0 g h
  · exact h.wq0
  · intro key t hl
    have hk := wk_ext g.log lg' q.id hx _ _ _ _ _ (wkAll_of_FI N links hwf ss D0 g h key t hl)
    have : pendK ss g.roots g.resp.length key =
        (if key = srcKey then g.roots.drop g.resp.length
         else if key / 64 = n then writesOf ((ss n).reqs ++ [⟨p.id, .done (.pay q.pay)⟩]) (key % 64)
         else writesOf (ss (key / 64)).reqs (key % 64)) := by
      simp only [pendK]
      by_cases e : key = srcKey
      · simp [e]
      · simp only [e, if_false]
        by_cases e2 : key / 64 = n
        · simp only [e2, if_true, NodeSpec.writesOf_append, writesOf, List.append_nil]
        · simp only [e2, if_false]
    rw [← this]; exact hk
  · exact ordAt_none lg' q.id g.next hqu.2.1 hqu.1
  · simp [heldOf, hc, curRead]

/-- the writer `w` of node `n` hands the node the oldest answer in its queue -/
theorem FI_answer (N : Nat) (links : List (Nat × List Tgt)) (hwf : TreeWF N links) (ss : Nat → S) (g : G)
    (h : FI N links ss D0 g) (n : Nat) (nd nd' : Node) (w : Wid) (t : Tgt) (a : Ans) (rest : List Ans)
    (rs1 : List EReq)
    (hn : getNode g.nodes n = some nd) (hw : w < 2) (hl : getL links (wkey n w) = [t])
    (hq : (gw g.writers (wkey n w)).queue = a :: rest)
    (hm : markDone w a (ss n).reqs = some rs1)
    (hr' : Rel ⟨(ss n).inbox, (flushS rs1).1, (ss n).cur⟩ nd' g.next) :
    FI N links (upd ss n ⟨(ss n).inbox, (flushS rs1).1, (ss n).cur⟩) D0
      (putNode { g with writers := aset g.writers (wkey n w) { gw g.writers (wkey n w) with queue := rest } } n nd'
        (flushS rs1).2) := by
  have hnN : n < N := (h.nodesLen n).mp (by rw [hn]; rfl)
  have hrel := h.rel n nd hn
  obtain ⟨p, q, m1, m2, m3, m4, m5⟩ := markDone_mem w a (ss n).reqs rs1 hm
  have hwk0 := h.wkN n w t hnN hw hl
  obtain ⟨q0, pend', e1, hra, hwk1⟩ := wk_consume _ _ _ _ _ _ a rest hwk0 hq
  rw [m2] at e1
  simp only [List.cons.injEq] at e1
  obtain ⟨e1, e2⟩ := e1
  subst e1
  have hub : Unlogged g.log g.next := h.logBound g.next (Nat.le_refl _)
  have hsrc : wkey n w ≠ srcKey := wkey_ne_src N n w hwf.small hnN hw
  let ws' := aset g.writers (wkey n w) { gw g.writers (wkey n w) with queue := rest }
  have hput : (putNode { g with writers := ws' } n nd' (flushS rs1).2) =
      (putNode { g with log := g.log, writers := ws' } n nd' (flushS rs1).2) := rfl
  show FI N links _ D0 (putNode { g with writers := ws' } n nd' (flushS rs1).2)
  rw [hput]
  apply FI_debt_route N links hwf ss g h n nd nd' rs1 (ss n).cur g.log g.next ws' hn hr' _
    (logExt_refl g.log g.next hub) rfl h.logBound
  · intro m _ hmem
    exact Nat.lt_irrefl _ (live_lt N links ss D0 g h m g.next (unlIds_sub_allIds (ss m) g.next hmem))
  · intro j hmem
    exact Nat.lt_irrefl _ ((h.sinkOK j).2 g.next hmem).2.1
  · intro r hr
    rcases m5 r hr with hr | hr
    · exact h.reqsOK n r hr
    · subst hr
      have := h.reqsOK n _ m1
      exact ra_of_reqlogged g.log p q a this.1 hra
  · exact h.curOK n
  · exact h.inboxOK n
  · simp only [ws', gw_aset, Ne.symm hsrc, if_false]
    exact srcq_nil N links hwf ss D0 g h
  · intro key hk
    have : key ≠ wkey n w := by intro e; rw [e, hl] at hk; cases hk
    simp only [ws', gw_aset, this, if_false]
    exact h.wq0 key hk
  · intro key t' hl'
    by_cases e : key = wkey n w
    · subst e
      rw [hl] at hl'
      simp only [List.cons.injEq, and_true] at hl'
      subst hl'
      obtain ⟨k1, k2⟩ := parts_of_key n w hw
      simp only [ws', gw_aset, if_true, hsrc, if_false, k1, k2]
      rw [e2]; exact hwk1
    · have hk := wkAll_of_FI N links hwf ss D0 g h key t' hl'
      simp only [ws', gw_aset, e, if_false]
      have : pendK ss g.roots g.resp.length key =
          (if key = srcKey then g.roots.drop g.resp.length
           else if key / 64 = n then writesOf rs1 (key % 64) else writesOf (ss (key / 64)).reqs (key % 64)) := by
        simp only [pendK]
        by_cases e1 : key = srcKey
        · simp [e1]
        · simp only [e1, if_false]
          by_cases e2 : key / 64 = n
          · simp only [e2, if_true]
            have : key % 64 ≠ w := fun e3 => e (key_of_parts key n w e2 e3)
            rw [m3 _ this]
          · simp only [e2, if_false]
      rw [← this]; exact hk
  · exact ordAt_none g.log g.next g.next hub.2.1 hub.1
  · simp only [heldOf, m4]

end Uniflow.FlowInv
