/-
C02, joint model, all node kinds, part 11: thread `i` completes requests of its reader (generic wrapper: the replies
become a debt towards the feeding writers and are routed); the shape of the program at a `Write`; a refused `Write`
at the level of the thread's log invariant.
-/
import Uniflow.Proofs.FlowN10

namespace Uniflow.FlowN
open Uniflow.Tracer Uniflow.Node Uniflow.Flow Uniflow.FlowInv Uniflow.FlowG Uniflow.ATracer Uniflow.FlowH Uniflow.FlowM
open Uniflow.ATracer (getL_setOrDel getL_aset)

/-- a step of node `n` that answers requests `ds` of its in-reader `i` (thread `i` becomes `th'`, same inbox) -/
theorem HI_thread_debt (kinds : List Kind) (links : List (Nat × List Tgt)) (hwf : GraphWF5 kinds links) (aa : Nat → A)
    (g : G) (h : HI kinds links aa D0 g) (n : Nat) (nd nd' : Node) (i : Rid) (th th' : Thread) (a' : A) (lg' : Log)
    (k : Pid) (ws' : List (Nat × Flow.Writer)) (ds : List (Pid × Ans))
    (hn : getNode g.nodes n = some nd) (hg : getThread nd.threads i = some th) (hkind : nd'.kind = nd.kind)
    (hths : ∀ j, getThread nd'.threads j = if j = i then some th' else getThread nd.threads j)
    (hjb' : JBm nd' a' g.next) (hi : NLt lg' n i th' a') (hreq : ∀ y ∈ a'.reqs, y.r ≠ i → y ∈ (aa n).reqs)
    (hrdr' : ∀ x ∈ a'.reqs, x.r < nd.threads.length) (hinb : th'.inbox = th.inbox)
    (hrdi : ((aa n).reqs.filter (fun x => x.r = i)).map (·.p) =
      ds.map (·.1) ++ (a'.reqs.filter (fun x => x.r = i)).map (·.p))
    (hrd : ∀ port, port ≠ i → (a'.reqs.filter (fun x => x.r = port)).map (·.p) =
      ((aa n).reqs.filter (fun x => x.r = port)).map (·.p))
    (hx : LogExt g.log lg' k) (ho : lg'.owner = g.log.owner) (hlb : ∀ id, g.next ≤ id → Unlogged lg' id)
    (hk : g.next ≤ k ∨ k ∈ tids th ∨ ∃ x ∈ (aa n).reqs, x.r = i ∧ k ∈ idsR x)
    (hko : g.next ≤ k ∨ ∃ τ, aget g.log.owner k = some τ ∧ τ / 64 = n)
    (hds : ∀ d ∈ ds, RA lg' d.1 d.2)
    (hsq : (gw ws' srcKey).queue = []) (hwq0 : ∀ key, getL links key = [] → (gw ws' key).queue = [])
    (hwk : ∀ key, getL links key ≠ [] → WKG lg' (gw ws' key) (getL links key)
      (pendH (updA aa n a') g.roots g.resp.length key) (hbOfH D0 aa g.nodes g.sinks g.fifo key))
    (hordk : OrdAt lg' k g.next) :
    HI kinds links (updA aa n a') D0
      (putNode { g with log := lg', writers := ws' } n nd' (ds.map (fun d => Ev.reply i d.2))) := by
  have hi63 : i < 63 :=
    Nat.lt_of_lt_of_le (getThread_lt _ _ _ hg) (by rw [h.thr n nd hn]; exact nIn_le _ (h.kindOK n nd hn))
  have hlen := length_of_hths nd nd' i th th' hg hths
  have hgi' : getThread nd'.threads i = some th' := by rw [hths i]; simp
  apply HI_debt_route kinds links hwf aa g h n nd nd' a' lg' k ws' ds i hi63 hn hkind hjb' _ hlen hrdr' _ hx ho hlb hko hds
    hsq hwq0 hwk hordk
  · exact nlm_step g.log lg' k (tr_of_ext g.log lg' k hx) n nd nd' (aa n) a' g.next (h.jb n nd hn) (h.nl n nd hn) i th th'
      hg hths hi hreq hk (fun id _ => by rw [ho])
  · intro port
    by_cases e : port = i
    · subst e
      rw [heldN_of nd _ port th hg, heldN_of nd' _ port th' hgi', hrdi, hinb]
      simp [List.append_assoc]
    · simp only [e, if_false, List.nil_append]
      exact (heldN_other nd nd' (aa n) a' i port th' e hths (hrd port e)).symm

/-- the shape of thread `i`'s program at a `Write`: either the request packet itself is written (`Write(nil, in)`,
or `Write(w, in)` when the action returned its input packet; nothing derived), or the packet is the oldest linked and unwritten one of the request -/
theorem write_shape (lg : Log) (n : Nat) (nd : Node) (a : A) (nx : Nat) (hjb : JBm nd a nx) (i : Rid) (inbox : List Pkt)
    (w : Option Wid) (q : Pkt) (ops : List Op)
    (hg : getThread nd.threads i = some { inbox := inbox, pc := .emit (.write w q :: ops) })
    (hnl : NLt lg n i { inbox := inbox, pc := .emit (.write w q :: ops) } a) :
    (ops = [] ∧ (⟨q.id, i, .cells []⟩ : Req) ∈ a.reqs) ∨
    ∃ p cs rest, (⟨p, i, .cells cs⟩ : Req) ∈ a.reqs ∧ linkedIds cs = q.id :: rest ∧
      remFor (.emit (.write w q :: ops)) p = [] ∧ Unlogged lg q.id ∧ aget lg.owner q.id = some (qTag n) ∧
      q.id < nx ∧ (∀ x ∈ inbox, x.id ≠ q.id) ∧ (∀ y ∈ a.reqs, q.id ∉ remFor (.emit (.write w q :: ops)) y.p) := by
  obtain ⟨p, cs, hX, hsh⟩ := ops_head_write a.reqs i w q ops (by have := hjb.j.th i _ hg; simpa [ThOK] using this)
  rcases hsh with ⟨e0, e1, e2⟩ | ⟨rest, hl, hrem0⟩
  · left
    subst e0; subst e2
    refine ⟨rfl, ?_⟩
    rw [e1]; exact hX
  · right
    have hr : ReqA lg n (.emit (.write w q :: ops)) ⟨p, i, .cells cs⟩ := by
      rcases hnl.req _ hX rfl with hr | ⟨v, e1, _, _⟩
      · exact hr
      · simp only [RSt.cells.injEq] at e1; rw [e1] at hl; simp [linkedIds] at hl
    simp only [ReqA] at hr
    obtain ⟨qs, a1, _⟩ := hr
    have hql : q.id ∈ linkedIds cs := by rw [hl]; simp
    obtain ⟨hu, ho⟩ := all2_linked lg n qs cs a1 q.id hql
    have hqi : q.id ∈ ids a.reqs := mem_ids_of_mem hX (linked_in_idsR _ cs rfl q.id hql)
    have hdis := jbm_disj nd a nx hjb i _ hg q.id hqi
    refine ⟨p, cs, rest, hX, hl, hrem0, hu, ho, hjb.bnd q.id (List.mem_append_left _ hqi), ?_, ?_⟩
    · intro x hx e
      exact hdis (by simp only [tids, List.mem_append, List.mem_map]; left; exact ⟨x, hx, e⟩)
    · intro y _ hm
      exact hdis (by simp only [tids, List.mem_append]; right; exact remFor_sub _ y.p q.id hm)

/-- a refused `Write` of a derived packet: the packet is its own answer -/
theorem nlt_write_rej (lg lg' : Log) (n : Nat) (i : Rid) (a : A) (inbox : List Pkt) (w : Option Wid) (q : Pkt)
    (ops : List Op) (h : NLt lg n i { inbox := inbox, pc := .emit (.write w q :: ops) } a) (hnd : (ids a.reqs).Nodup)
    (p : Pid) (cs : List Cell) (rest : List Pid) (hX : (⟨p, i, .cells cs⟩ : Req) ∈ a.reqs)
    (hl : linkedIds cs = q.id :: rest) (hrem0 : remFor (.emit (.write w q :: ops)) p = [])
    (hx : LogExt lg lg' q.id) (hecho : aget lg'.echo q.id = some q.pay)
    (hki : ∀ x ∈ inbox, x.id ≠ q.id)
    (hkr : ∀ y ∈ a.reqs, q.id ∉ remFor (.emit (.write w q :: ops)) y.p)
    (ho : ∀ id ∈ nlIdsT i { inbox := inbox, pc := .emit (.write w q :: ops) } a,
      aget lg'.owner id = aget lg.owner id) :
    ∃ ds : List (Pid × Ans),
      NLt lg' n i { inbox := inbox, pc := nextPc ops } (awrite a w q.id (.pay q.pay) false).1 ∧
      (awrite a w q.id (.pay q.pay) false).2 = ds.map (fun d => Ev.reply i d.2) ∧ (∀ d ∈ ds, RA lg' d.1 d.2) ∧
      (a.reqs.filter (fun x => x.r = i)).map (·.p) =
        ds.map (·.1) ++ ((awrite a w q.id (.pay q.pay) false).1.reqs.filter (fun x => x.r = i)).map (·.p) ∧
      (∀ y ∈ (awrite a w q.id (.pay q.pay) false).1.reqs, y.r ≠ i → y ∈ a.reqs) ∧
      (∀ j, j ≠ i → ((awrite a w q.id (.pay q.pay) false).1.reqs.filter (fun x => x.r = j)).map (·.p) =
        (a.reqs.filter (fun x => x.r = j)).map (·.p)) ∧
      (awrite a w q.id (.pay q.pay) false).1.wq = a.wq := by
  have he : awrite a w q.id (.pay q.pay) false = afill a q.id (.pay q.pay) := by
    cases w <;> rfl
  rw [he]
  have hko : q.id ∈ openIds cs := linkedIds_sub_open cs q.id (by rw [hl]; simp)
  exact nlt_fill lg lg' n i inbox _ (nextPc ops) a q.id (.pay q.pay) h
    (fun p' => by rw [remFor_next]; rfl) (fun _ _ e => by cases e)
    (fun w' q' e => by
      rcases e with e | e
      · simp only [PC.emit.injEq, List.cons.injEq, Op.write.injEq] at e
        exact Or.inr (by rw [← e.1.2])
      · simp at e) (wOK_next _ ops h.wb) hnd p cs hX hko hrem0 (tr_of_ext lg lg' q.id hx) hki
    (fun y hy _ _ => hkr y hy) ho (ra_echo lg' q.id q.pay hecho)

end Uniflow.FlowN
