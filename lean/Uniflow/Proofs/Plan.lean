/-
Helper lemmas for Props/C11.lean: the bounds `newExecutionPlan` derives from a filter contain the index key of
every document the reference evaluation (`Spec/Query.lean`) lets through. Uses only that `cmp` is a total preorder
consistent with `equal` (the C14 theorems). Core Lean only.
-/
import Uniflow.Model.Plan
import Uniflow.Proofs.Query
import Uniflow.Props.C14

namespace Uniflow.Plan
open Uniflow.Value Uniflow.Store Uniflow.Query

/-! ### values -/

theorem equal_str_right {k : Val} {b : Bytes} (h : equal k (.str b) = true) : k = .str b := by
  cases k <;> simp [equal] at h
  subst h; rfl

theorem isNil_iff {v : Val} : isNil v = true ↔ v = .nil := by
  cases v <;> simp [isNil]

theorem cmp_le_of_equal {a b : Val} (h : equal a b = true) : cmp a b ≤ 0 ∧ cmp b a ≤ 0 := by
  have h0 := (C14.equal_iff_cmp_zero a b).mp h
  have := C14.cmp_antisymm a b
  omega

/-! ### what one entry of a satisfied map filter says -/

theorem mfind_cons (k v : Val) (ps : PList) (x : Val) :
    mfind (.cons k v ps) x = if equal k x then some v else mfind ps x := by
  simp [mfind]

/-- the entry found under a field key is satisfied by that field -/
theorem refP_field {d : Option Val} {key : Bytes} (hk : dollar key = false) :
    ∀ {ps : PList} {w : Val}, refP d ps = true → mfind ps (.str key) = some w →
      refMatch (field d (.str key)) w = true
  | .nil, _, _, hm => by simp [mfind] at hm
  | .cons k v rest, w, h, hm => by
    rw [refP_cons] at h; simp only [Bool.and_eq_true] at h
    rw [mfind_cons] at hm
    by_cases he : equal k (.str key) = true
    · obtain rfl := equal_str_right he
      simp only [he, if_true, Option.some.injEq] at hm
      subst hm
      simpa [entry, hk] using h.1
    · simp only [he] at hm
      exact refP_field hk h.2 hm

/-- the entry found under a comparison operator holds of the value -/
theorem refP_cmp {d : Option Val} {key : Bytes} (hk : dollar key = true) (h1 : key ≠ opExists)
    (h2 : key ≠ opAnd) (h3 : key ≠ opOr) :
    ∀ {ps : PList} {w : Val}, refP d ps = true → mfind ps (.str key) = some w →
      (cmpOp key (valOf d) w).getD false = true
  | .nil, _, _, hm => by simp [mfind] at hm
  | .cons k v rest, w, h, hm => by
    rw [refP_cons] at h; simp only [Bool.and_eq_true] at h
    rw [mfind_cons] at hm
    by_cases he : equal k (.str key) = true
    · obtain rfl := equal_str_right he
      simp only [he, if_true, Option.some.injEq] at hm
      subst hm
      simpa [entry, hk, h1, h2, h3] using h.1
    · simp only [he] at hm
      exact refP_cmp hk h1 h2 h3 h.2 hm

theorem mget_ne_nil {ps : PList} {k : Val} (h : isNil (mget ps k) = false) : mfind ps k = some (mget ps k) := by
  unfold mget at h ⊢
  cases hm : mfind ps k with
  | none => simp [hm, isNil] at h
  | some w => simp

/-! ### bounds -/

/-- `x` respects the lower bound `m` (`nil` = none) -/
def LB (m x : Val) : Prop := isNil m = true ∨ cmp m x ≤ 0
/-- `x` respects the upper bound `m` -/
def UB (m x : Val) : Prop := isNil m = true ∨ cmp x m ≤ 0
/-- `x` lies within the bounds -/
def Snd (b : Bounds) (x : Val) : Prop := LB b.lo x ∧ UB b.hi x

theorem inb_iff (b : Bounds) (x : Val) : inb b x = true ↔ Snd b x := by
  simp [inb, Snd, LB, UB]

theorem LB_raise {m l x : Val} (hm : LB m x) (hl : LB l x) : LB (raise m l) x := by
  unfold raise; split
  · exact hm
  · split
    · exact hl
    · exact hm

theorem UB_lower {m u x : Val} (hm : UB m x) (hu : UB u x) : UB (lower m u) x := by
  unfold lower; split
  · exact hm
  · split
    · exact hu
    · exact hm

theorem Snd_intersect {e o : Bounds} {x : Val} (he : Snd e x) (ho : Snd o x) : Snd (intersect e (some o)) x := by
  unfold intersect Snd
  constructor
  · show LB (if _ then _ else _) x
    split
    · exact ho.1
    · exact he.1
  · show UB (if _ then _ else _) x
    split
    · exact ho.2
    · exact he.2

theorem Snd_intersect_opt {e : Bounds} {o : Option Bounds} {x : Val} (he : Snd e x) (ho : ∀ b, o = some b → Snd b x) :
    Snd (intersect e o) x := by
  cases o with
  | none => exact he
  | some b => exact Snd_intersect he (ho b rfl)

/-- `union` covers its left operand … -/
theorem Snd_union_left {e o u : Bounds} {x : Val} (h : union (some e) (some o) = some u) (he : Snd e x) : Snd u x := by
  simp only [union, Option.some.injEq] at h
  subst h
  constructor
  · show LB (if _ then _ else _) x
    split
    · next hc =>
      simp only [Bool.and_eq_true, Bool.not_eq_true', Bool.or_eq_true, decide_eq_true_eq] at hc
      rcases hc.2 with hn | hlt
      · exact Or.inl hn
      · rcases he.1 with hn | hle
        · simp [hn] at hc
        · exact Or.inr (C14.cmp_trans _ _ _ (by omega) hle)
    · exact he.1
  · show UB (if _ then _ else _) x
    split
    · next hc =>
      simp only [Bool.and_eq_true, Bool.not_eq_true', Bool.or_eq_true, decide_eq_true_eq] at hc
      rcases hc.2 with hn | hgt
      · exact Or.inl hn
      · rcases he.2 with hn | hle
        · simp [hn] at hc
        · have := C14.cmp_antisymm o.hi e.hi
          exact Or.inr (C14.cmp_trans _ _ _ hle (by omega))
    · exact he.2

/-- … and its right operand -/
theorem Snd_union_right {e o u : Bounds} {x : Val} (h : union (some e) (some o) = some u) (ho : Snd o x) : Snd u x := by
  simp only [union, Option.some.injEq] at h
  subst h
  constructor
  · show LB (if _ then _ else _) x
    split
    · exact ho.1
    · next hc =>
      simp only [Bool.and_eq_true, Bool.not_eq_true', Bool.or_eq_true, decide_eq_true_eq, not_and, not_or] at hc
      by_cases hn : isNil e.lo = true
      · exact Or.inl hn
      · have hc' := hc (by simpa using hn)
        rcases ho.1 with hn' | hle
        · exact absurd hn' (by simpa using hc'.1)
        · have := C14.cmp_antisymm o.lo e.lo
          exact Or.inr (C14.cmp_trans _ _ _ (by omega) hle)
  · show UB (if _ then _ else _) x
    split
    · exact ho.2
    · next hc =>
      simp only [Bool.and_eq_true, Bool.not_eq_true', Bool.or_eq_true, decide_eq_true_eq, not_and, not_or] at hc
      by_cases hn : isNil e.hi = true
      · exact Or.inl hn
      · have hc' := hc (by simpa using hn)
        rcases ho.2 with hn' | hle
        · exact absurd hn' (by simpa using hc'.1)
        · exact Or.inr (C14.cmp_trans _ _ _ hle (by omega))

theorem union_some {a b : Option Bounds} {u : Bounds} (h : union a b = some u) : ∃ e o, a = some e ∧ b = some o := by
  cases a <;> cases b <;> simp [union] at h ⊢

/-! ### the condition on the key itself -/

theorem cmpOp_eq (a w : Val) : cmpOp opEq a w = some (equal a w) := by simp [cmpOp]
theorem cmpOp_gt (a w : Val) : cmpOp opGt a w = some (decide (cmp a w > 0)) := by simp [cmpOp, opGt, opEq, opNe]
theorem cmpOp_lt (a w : Val) : cmpOp opLt a w = some (decide (cmp a w < 0)) := by
  simp [cmpOp, opLt, opGt, opEq, opNe]
theorem cmpOp_gte (a w : Val) : cmpOp opGte a w = some (decide (cmp a w ≥ 0)) := by
  simp [cmpOp, opGte, opLt, opGt, opEq, opNe]
theorem cmpOp_lte (a w : Val) : cmpOp opLte a w = some (decide (cmp a w ≤ 0)) := by
  simp [cmpOp, opLte, opGte, opLt, opGt, opEq, opNe]

/-- a value satisfying the condition `v` on the key lies within `own v` -/
theorem own_sound {o : Option Val} {v : Val} (h : refMatch o v = true) : Snd (own v) (valOf o) := by
  cases v with
  | map val =>
    rw [refMatch_map] at h
    have fact : ∀ key, dollar key = true → key ≠ opExists → key ≠ opAnd → key ≠ opOr →
        isNil (mget val (.str key)) = false → (cmpOp key (valOf o) (mget val (.str key))).getD false = true :=
      fun key a b c d hn => refP_cmp a b c d h (mget_ne_nil hn)
    have an := C14.cmp_antisymm
    have hEq : isNil (mget val (.str opEq)) = false → equal (valOf o) (mget val (.str opEq)) = true := fun hn => by
      simpa [cmpOp_eq] using fact opEq (by decide) (by decide) (by decide) (by decide) hn
    have hGt : isNil (mget val (.str opGt)) = false → cmp (valOf o) (mget val (.str opGt)) > 0 := fun hn => by
      simpa [cmpOp_gt] using fact opGt (by decide) (by decide) (by decide) (by decide) hn
    have hGte : isNil (mget val (.str opGte)) = false → cmp (valOf o) (mget val (.str opGte)) ≥ 0 := fun hn => by
      simpa [cmpOp_gte] using fact opGte (by decide) (by decide) (by decide) (by decide) hn
    have hLt : isNil (mget val (.str opLt)) = false → cmp (valOf o) (mget val (.str opLt)) < 0 := fun hn => by
      simpa [cmpOp_lt] using fact opLt (by decide) (by decide) (by decide) (by decide) hn
    have hLte : isNil (mget val (.str opLte)) = false → cmp (valOf o) (mget val (.str opLte)) ≤ 0 := fun hn => by
      simpa [cmpOp_lte] using fact opLte (by decide) (by decide) (by decide) (by decide) hn
    have lb : ∀ w : Val, (isNil w = false → cmp (valOf o) w ≥ 0) → LB w (valOf o) := fun w hw => by
      cases hn : isNil w with
      | true => exact Or.inl hn
      | false => have := hw hn; have := an w (valOf o); exact Or.inr (by omega)
    have ub : ∀ w : Val, (isNil w = false → cmp (valOf o) w ≤ 0) → UB w (valOf o) := fun w hw => by
      cases hn : isNil w with
      | true => exact Or.inl hn
      | false => exact Or.inr (hw hn)
    have eqc : isNil (mget val (.str opEq)) = false →
        cmp (valOf o) (mget val (.str opEq)) ≤ 0 ∧ cmp (valOf o) (mget val (.str opEq)) ≥ 0 := fun hn => by
      have := cmp_le_of_equal (hEq hn)
      have := an (valOf o) (mget val (.str opEq))
      omega
    simp only [own]
    exact ⟨LB_raise (LB_raise (lb _ fun hn => (eqc hn).2) (lb _ fun hn => by have := hGt hn; omega)) (lb _ hGte),
      UB_lower (UB_lower (ub _ fun hn => (eqc hn).1) (ub _ fun hn => by have := hLt hn; omega)) (ub _ hLte)⟩
  | nil => exact ⟨Or.inl rfl, Or.inl rfl⟩
  | _ =>
    rw [refMatch_nonmap _ (by intro ps; simp)] at h
    have := cmp_le_of_equal h
    exact ⟨Or.inr this.2, Or.inr this.1⟩

/-! ### equation lemmas of the planner (see Proofs/Query.lean for why) -/

theorem planV_map (key : Val) (ps : PList) :
    planV key (.map ps) =
      (let b := planOrP key (planAndP key (own (mget ps key)) ps) ps
       if isNil b.lo && isNil b.hi then none else some b) := by
  conv => lhs; unfold planV

theorem planV_nonmap (key : Val) {f : Val} (h : ∀ ps, f ≠ .map ps) : planV key f = none := by
  cases f with
  | map ps => exact absurd rfl (h ps)
  | _ => conv => lhs; unfold planV

theorem planAndP_nil (key : Val) (b : Bounds) : planAndP key b .nil = b := by
  conv => lhs; unfold planAndP

theorem planAndP_cons (key : Val) (b : Bounds) (k v : Val) (rest : PList) :
    planAndP key b (.cons k v rest) =
      if equal k (.str opAnd) then (match v with | .slice xs => planAndL key b xs | _ => b)
      else planAndP key b rest := by
  conv => lhs; unfold planAndP
  rfl

theorem planAndL_nil (key : Val) (b : Bounds) : planAndL key b .nil = b := by
  conv => lhs; unfold planAndL

theorem planAndL_cons (key : Val) (b : Bounds) (f : Val) (fs : VList) :
    planAndL key b (.cons f fs) = planAndL key (intersect b (planV key f)) fs := by
  conv => lhs; unfold planAndL

theorem planOrP_nil (key : Val) (b : Bounds) : planOrP key b .nil = b := by
  conv => lhs; unfold planOrP

theorem planOrP_cons (key : Val) (b : Bounds) (k v : Val) (rest : PList) :
    planOrP key b (.cons k v rest) =
      if equal k (.str opOr) then (match v with | .slice xs => intersect b (coverL key xs) | _ => b)
      else planOrP key b rest := by
  conv => lhs; unfold planOrP
  rfl

theorem coverL_nil (key : Val) : coverL key .nil = none := by
  conv => lhs; unfold coverL

theorem coverL_cons (key : Val) (f : Val) (fs : VList) :
    coverL key (.cons f fs) = coverRest key (planV key f) fs := by
  conv => lhs; unfold coverL

theorem coverRest_nil (key : Val) (c : Option Bounds) : coverRest key c .nil = c := by
  conv => lhs; unfold coverRest

theorem coverRest_cons (key : Val) (c : Option Bounds) (f : Val) (fs : VList) :
    coverRest key c (.cons f fs) = coverRest key (union c (planV key f)) fs := by
  conv => lhs; unfold coverRest

/-! ### the level of a plan -/

/-- a string key that is not an operator -/
def FieldKey (k : Val) : Prop := ∃ key, k = .str key ∧ dollar key = false

variable {d : PList} {key : Bytes}

mutual
  theorem planV_sound (hk : dollar key = false) :
      ∀ (f : Val) (b : Bounds), refMatch (some (.map d)) f = true → planV (.str key) f = some b →
        Snd b (mget d (.str key))
    | .map ps, b, h, hp => by
      rw [refMatch_map] at h
      rw [planV_map] at hp
      simp only at hp
      split at hp
      · exact absurd hp (by simp)
      · simp only [Option.some.injEq] at hp
        subst hp
        have h0 : Snd (own (mget ps (.str key))) (mget d (.str key)) := by
          cases hm : mfind ps (.str key) with
          | none => simp only [mget, hm, Option.getD_none]; exact ⟨Or.inl rfl, Or.inl rfl⟩
          | some w =>
            have := own_sound (refP_field hk h hm)
            simpa [mget, hm, field, valOf] using this
        exact planOrP_sound hk ps _ h (planAndP_sound hk ps _ h h0)
    | .nil, _, _, hp => by rw [planV_nonmap _ (by intro ps; simp)] at hp; simp at hp
    | .bin _, _, _, hp => by rw [planV_nonmap _ (by intro ps; simp)] at hp; simp at hp
    | .bool _, _, _, hp => by rw [planV_nonmap _ (by intro ps; simp)] at hp; simp at hp
    | .err _, _, _, hp => by rw [planV_nonmap _ (by intro ps; simp)] at hp; simp at hp
    | .int _ _, _, _, hp => by rw [planV_nonmap _ (by intro ps; simp)] at hp; simp at hp
    | .uint _ _, _, _, hp => by rw [planV_nonmap _ (by intro ps; simp)] at hp; simp at hp
    | .f32 _, _, _, hp => by rw [planV_nonmap _ (by intro ps; simp)] at hp; simp at hp
    | .f64 _, _, _, hp => by rw [planV_nonmap _ (by intro ps; simp)] at hp; simp at hp
    | .str _, _, _, hp => by rw [planV_nonmap _ (by intro ps; simp)] at hp; simp at hp
    | .slice _, _, _, hp => by rw [planV_nonmap _ (by intro ps; simp)] at hp; simp at hp
  theorem planAndP_sound (hk : dollar key = false) :
      ∀ (ps : PList) (b : Bounds), refP (some (.map d)) ps = true → Snd b (mget d (.str key)) →
        Snd (planAndP (.str key) b ps) (mget d (.str key))
    | .nil, b, _, hb => by simpa [planAndP_nil] using hb
    | .cons k v rest, b, h, hb => by
      rw [refP_cons] at h; simp only [Bool.and_eq_true] at h
      rw [planAndP_cons]
      split
      · next he =>
        obtain rfl := equal_str_right he
        cases v with
        | slice xs =>
          have hall : refAllL (some (.map d)) xs = true := by simpa [entry, dollar, opAnd, opExists] using h.1
          exact planAndL_sound hk xs b hall hb
        | _ => exact hb
      · exact planAndP_sound hk rest b h.2 hb
  theorem planAndL_sound (hk : dollar key = false) :
      ∀ (xs : VList) (b : Bounds), refAllL (some (.map d)) xs = true → Snd b (mget d (.str key)) →
        Snd (planAndL (.str key) b xs) (mget d (.str key))
    | .nil, b, _, hb => by simpa [planAndL_nil] using hb
    | .cons f fs, b, h, hb => by
      rw [refAllL_cons] at h; simp only [Bool.and_eq_true] at h
      rw [planAndL_cons]
      exact planAndL_sound hk fs _ h.2 (Snd_intersect_opt hb fun b' hb' => planV_sound hk f b' h.1 hb')
  theorem planOrP_sound (hk : dollar key = false) :
      ∀ (ps : PList) (b : Bounds), refP (some (.map d)) ps = true → Snd b (mget d (.str key)) →
        Snd (planOrP (.str key) b ps) (mget d (.str key))
    | .nil, b, _, hb => by simpa [planOrP_nil] using hb
    | .cons k v rest, b, h, hb => by
      rw [refP_cons] at h; simp only [Bool.and_eq_true] at h
      rw [planOrP_cons]
      split
      · next he =>
        obtain rfl := equal_str_right he
        cases v with
        | slice xs =>
          have hany : refAnyL (some (.map d)) xs = true := by simpa [entry, dollar, opOr, opAnd, opExists] using h.1
          exact Snd_intersect_opt hb fun c hc => coverL_sound hk xs c hany hc
        | _ => exact hb
      · exact planOrP_sound hk rest b h.2 hb
  theorem coverL_sound (hk : dollar key = false) :
      ∀ (xs : VList) (c : Bounds), refAnyL (some (.map d)) xs = true → coverL (.str key) xs = some c →
        Snd c (mget d (.str key))
    | .nil, _, h, _ => by simp [refAnyL_nil] at h
    | .cons f fs, c, h, hc => by
      rw [refAnyL_cons] at h; simp only [Bool.or_eq_true] at h
      rw [coverL_cons] at hc
      have hr := coverRest_sound hk fs (planV (.str key) f) c hc
      rcases h with hf | hfs
      · obtain ⟨a, ha, hmono⟩ := hr.1
        exact hmono (planV_sound hk f a hf ha)
      · exact hr.2 hfs
  theorem coverRest_sound (hk : dollar key = false) :
      ∀ (fs : VList) (acc : Option Bounds) (c : Bounds), coverRest (.str key) acc fs = some c →
        (∃ a, acc = some a ∧ (Snd a (mget d (.str key)) → Snd c (mget d (.str key)))) ∧
        (refAnyL (some (.map d)) fs = true → Snd c (mget d (.str key)))
    | .nil, acc, c, hc => by
      rw [coverRest_nil] at hc
      exact ⟨⟨c, hc, id⟩, fun h => by simp [refAnyL_nil] at h⟩
    | .cons f fs, acc, c, hc => by
      rw [coverRest_cons] at hc
      have hr := coverRest_sound hk fs (union acc (planV (.str key) f)) c hc
      obtain ⟨u, hu, hmono⟩ := hr.1
      obtain ⟨e, o, he, ho⟩ := union_some hu
      subst he
      rw [ho] at hu
      refine ⟨⟨e, rfl, fun hs => hmono (Snd_union_left hu hs)⟩, fun h => ?_⟩
      rw [refAnyL_cons] at h; simp only [Bool.or_eq_true] at h
      rcases h with hf | hfs
      · exact hmono (Snd_union_right hu (planV_sound hk f o hf ho))
      · exact hr.2 hfs
end

/-- a document the reference evaluation lets through lies within every level of the plan (= `C11.plan_sound`) -/
theorem plan_within (ks : List Val) (f : Val) (d : PList) (hks : ∀ k ∈ ks, FieldKey k)
    (h : refMatch (some (.map d)) f = true) : within (plan ks f) d = true := by
  induction ks with
  | nil => simp [plan, within]
  | cons k ks ih =>
    obtain ⟨key, rfl, hk⟩ := hks k (by simp)
    simp only [plan]
    cases hp : planV (.str key) f with
    | none => simp [within]
    | some b =>
      simp only [within, Bool.and_eq_true]
      exact ⟨(inb_iff _ _).mpr (planV_sound hk f b h hp), ih fun k' hk' => hks k' (by simp [hk'])⟩

end Uniflow.Plan
