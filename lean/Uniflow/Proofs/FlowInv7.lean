/-
C02, joint model, part 7 of the invariant proof: the source sends a request; an accepted `Write`.
-/
import Uniflow.Proofs.FlowInv6

namespace Uniflow.FlowInv
open Uniflow.Tracer Uniflow.Node Uniflow.Flow
open Uniflow.NodeSpec (S EReq ESt Cur Rel curRead writesOf allIds)
open Uniflow.ATracer (getL_setOrDel getL_aset)

theorem tgtPush_reqs (ss ss1 : Nat → S) (g : G) (t : Tgt) (c : Pid) (v : Val) (nodes1 : List Node)
    (sinks1 : List (Nat × List (Pid × Val))) (hp : TgtPush ss g t c v ss1 nodes1 sinks1) :
    ∀ n, (ss1 n).reqs = (ss n).reqs := by
  intro n
  cases t with
  | sink j => obtain ⟨e1, _, _⟩ := hp; rw [e1]
  | node m port =>
    obtain ⟨_, _, _, _, e3, _, _⟩ := hp
    rw [e3]; simp only [upd]; split
    · rename_i e; rw [e]
    · rfl

theorem tgtNode_lt (N : Nat) (links : List (Nat × List Tgt)) (ss : Nat → S) (g : G) (h : FI N links ss D0 g)
    (t : Tgt) (n : Nat) (hn : tgtNode t n) (hg : ∀ n, tgtNode t n → getNode g.nodes n ≠ none) : n < N := by
  apply (h.nodesLen n).mp
  cases hgn : getNode g.nodes n with
  | none => exact absurd hgn (hg n hn)
  | some nd => rfl

/-- the source writes a request: root `g.next`, its copy `g.next + 1` handed to the reader `t` -/
theorem FI_send (N : Nat) (links : List (Nat × List Tgt)) (hwf : TreeWF N links) (ss ss1 : Nat → S) (g : G)
    (h : FI N links ss D0 g) (t : Tgt) (hl : getL links srcKey = [t]) (htok : TgtOK t) (v : Val) (nodes1 : List Node)
    (sinks1 : List (Nat × List (Pid × Val))) (hp : TgtPush ss g t (g.next + 1) v ss1 nodes1 sinks1) :
    FI N links ss1 D0
      { g with nodes := nodes1, sinks := sinks1, next := g.next + 2, roots := g.roots ++ [g.next],
               writers := aset g.writers srcKey { rows := (gw g.writers srcKey).rows ++ [[none]], queue := (gw g.writers srcKey).queue },
               fifo := aset g.fifo (rkeyOf t) (getL g.fifo (rkeyOf t) ++ [srcKey]),
               log := { g.log with dels := aset g.log.dels g.next [g.next + 1],
                                   owner := aset g.log.owner (g.next + 1) (rkeyOf t) } } := by
  have hrU : Unlogged g.log g.next := h.logBound g.next (Nat.le_refl _)
  let lg' : Log := { g.log with dels := aset g.log.dels g.next [g.next + 1], owner := aset g.log.owner (g.next + 1) (rkeyOf t) }
  have hx : LogExt g.log lg' g.next := by
    refine ⟨hrU, fun x hne => ⟨rfl, ?_, rfl, rfl⟩⟩
    simp only [lg', aget_aset, hne, if_false]
  have hown : ∀ id, id < g.next → aget lg'.owner id = aget g.log.owner id := by
    intro id hid; simp only [lg', aget_aset]; have : id ≠ g.next + 1 := Nat.ne_of_lt (Nat.lt_succ_of_lt hid)
    simp [this]
  have hcU : Unlogged lg' (g.next + 1) :=
    unlogged_ext g.log lg' g.next hx _ (Nat.succ_ne_self _) (h.logBound _ (Nat.le_succ _))
  have hownc : aget lg'.owner (g.next + 1) = some (rkeyOf t) := by simp [lg', aget_aset]
  obtain ⟨n1, n2, n3, n4⟩ := tgtPush_nodes N links ss ss1 g h t (g.next + 1) v (Nat.le_succ _) nodes1 sinks1 hp
  have hreqs := tgtPush_reqs ss ss1 g t (g.next + 1) v nodes1 sinks1 hp
  have hlen := h.respOK.1
  let wr : Flow.Writer := Flow.Writer.mk ((gw g.writers srcKey).rows ++ [[none]]) (gw g.writers srcKey).queue
  let g' : G :=
    { g with
      nodes := nodes1
      sinks := sinks1
      next := g.next + 2
      roots := g.roots ++ [g.next]
      writers := aset g.writers srcKey wr
      fifo := aset g.fifo (rkeyOf t) (getL g.fifo (rkeyOf t) ++ [srcKey])
      log := lg' }
  show FI N links ss1 D0 g'
  apply FI_build N links hwf ss ss1 D0 D0 g g' h g.next (tgtNode t) rfl n1 n2 n3
    (fun n hn => tgtNode_lt N links ss g h t n hn n4) hx hown (Nat.le_add_right _ 2)
  · intro id hid
    have h2 : g.next + 2 ≤ id := hid
    exact unlogged_ext g.log lg' g.next hx id (Nat.ne_of_gt (Nat.lt_of_lt_of_le (Nat.lt_add_of_pos_right (by decide)) h2))
      (h.logBound id (Nat.le_trans (Nat.le_add_right _ 2) h2))
  · intro m _; exact sep_fresh_node N links ss D0 g h g.next (Nat.le_refl _) m
  · intro n hn
    exact (tgtPush_nodeM N links ss ss1 g h t htok (g.next + 1) v (Nat.le_succ _) nodes1 sinks1 hp lg' g.next hx hown hownc hcU n hn
      (sep_fresh_node N links ss D0 g h g.next (Nat.le_refl _) n)).1
  · intro n hn
    exact (tgtPush_nodeM N links ss ss1 g h t htok (g.next + 1) v (Nat.le_succ _) nodes1 sinks1 hp lg' g.next hx hown hownc hcU n hn
      (sep_fresh_node N links ss D0 g h g.next (Nat.le_refl _) n)).2.1
  · intro n hn
    exact (tgtPush_nodeM N links ss ss1 g h t htok (g.next + 1) v (Nat.le_succ _) nodes1 sinks1 hp lg' g.next hx hown hownc hcU n hn
      (sep_fresh_node N links ss D0 g h g.next (Nat.le_refl _) n)).2.2.1
  · intro n hn
    exact (tgtPush_nodeM N links ss ss1 g h t htok (g.next + 1) v (Nat.le_succ _) nodes1 sinks1 hp lg' g.next hx hown hownc hcU n hn
      (sep_fresh_node N links ss D0 g h g.next (Nat.le_refl _) n)).2.2.2
  · exact tgtPush_sinks N links ss ss1 g h t (g.next + 1) v (Nat.le_succ _) nodes1 sinks1 hp lg' g.next hx
      (fun j => sep_fresh_sink N links ss D0 g h g.next (Nat.le_refl _) j) hown hownc hcU
  · intro r hr
    simp only [g', List.mem_append, List.mem_singleton] at hr
    rcases hr with hr | hr
    · exact Nat.lt_of_lt_of_le (h.rootsB r hr) (Nat.le_add_right _ 2)
    · subst hr; exact Nat.lt_add_of_pos_right (by decide)
  · intro rk x hx'; simp [D0] at hx'
  · apply wk_push_all N links hwf ss ss1 g g' (wkAll_of_FI N links hwf ss D0 g h) srcKey t hl g.next (g.next + 1) hx
    · exact ⟨hrU.2.2.1, hrU.2.2.2, by simp [g', lg', aget_aset]⟩
    · intro key; simp only [g', wr, gw_aset]
    · intro rk; simp only [g', getL_aset]; by_cases e : rk = rkeyOf t <;> simp [e]
    · exact tgtPush_held N links hwf ss ss1 g srcKey t hl (g.next + 1) v nodes1 sinks1 hp
    · intro key
      simp only [pendK, hreqs]
      by_cases e : key = srcKey
      · simp only [e, if_true]
        exact List.drop_append_of_le_length hlen
      · simp only [e, if_false]
  · show (gw (aset g.writers srcKey _) srcKey).queue = []
    simp only [gw_aset, if_true]; exact (h.wkS t hl).2
  · refine ⟨by show g.resp.length ≤ (g.roots ++ [g.next]).length; simp only [List.length_append]; omega, ?_⟩
    show All2 (RA lg') ((g.roots ++ [g.next]).take g.resp.length) g.resp
    rw [List.take_append_of_le_length hlen]
    exact all2_mono _ _ (fun p a => ra_ext g.log lg' g.next hx p a) _ _ h.respOK.2
  · exact tgtPush_nofeed N links hwf ss ss1 g h srcKey t hl (g.next + 1) v nodes1 sinks1 hp
  · intro key hk
    have hne : key ≠ srcKey := by intro e; rw [e, hl] at hk; cases hk
    show (gw (aset g.writers srcKey _) key).queue = []
    simp only [gw_aset, hne, if_false]; exact h.wq0 key hk
  · exact ordAt_dels_single lg' g.next (g.next + 1) (g.next + 2) (by simp [lg', aget_aset]) hrU.1
      (Nat.lt_succ_self _) (Nat.lt_succ_self _)

theorem key_of_parts (key n w : Nat) (h1 : key / 64 = n) (h2 : key % 64 = w) : key = wkey n w := by
  simp only [wkey]; omega

theorem parts_of_key (n w : Nat) (hw : w < 2) : wkey n w / 64 = n ∧ wkey n w % 64 = w := by
  simp only [wkey]; omega

/-- an accepted `Write`: node `n` (writer `w`, linked to `t`) writes `q`, the copy `g.next` goes to `t` -/
theorem FI_write_acc (N : Nat) (links : List (Nat × List Tgt)) (hwf : TreeWF N links) (ss ss1 : Nat → S) (g : G)
    (h : FI N links ss D0 g) (n : Nat) (nd nd' : Node) (p q : Pkt) (w : Wid) (t : Tgt)
    (hl : getL links (wkey n w) = [t]) (htok : TgtOK t)
    (hc : (ss n).cur = .linked p q w) (nodes1 : List Node) (sinks1 : List (Nat × List (Pid × Val)))
    (hp : TgtPush ss g t g.next q.pay ss1 nodes1 sinks1)
    (hnd : getNode nodes1 n = some nd) (hnt : ¬ tgtNode t n)
    (hr' : Rel { (ss n) with reqs := (ss n).reqs ++ [⟨p.id, .written q.id w⟩], cur := .idle } nd' (g.next + 1)) :
    FI N links (upd ss1 n { (ss n) with reqs := (ss n).reqs ++ [⟨p.id, .written q.id w⟩], cur := .idle }) D0
      { g with nodes := setNode nodes1 n nd', sinks := sinks1, next := g.next + 1,
               writers := aset g.writers (wkey n w) (Flow.Writer.mk ((gw g.writers (wkey n w)).rows ++ [[none]]) (gw g.writers (wkey n w)).queue),
               fifo := aset g.fifo (rkeyOf t) (getL g.fifo (rkeyOf t) ++ [wkey n w]),
               log := { g.log with dels := aset g.log.dels q.id [g.next],
                                   owner := aset g.log.owner g.next (rkeyOf t) } } := by
  have hcur := h.curOK n
  rw [hc] at hcur
  obtain ⟨hRL, hqU, hw, hqo⟩ := hcur
  obtain ⟨n1, n2, n3, n4⟩ := tgtPush_nodes N links ss ss1 g h t g.next q.pay (Nat.le_refl _) nodes1 sinks1 hp
  have hnN : n < N := (n1 n).mp (by rw [hnd]; rfl)
  have hss1n : ss1 n = ss n := n3 n hnt
  have hnd0 : ∃ nd0, getNode g.nodes n = some nd0 := by
    cases hg : getNode g.nodes n with
    | none => have := (h.nodesLen n).mpr hnN; rw [hg] at this; cases this
    | some x => exact ⟨x, rfl⟩
  obtain ⟨nd0, hnd0⟩ := hnd0
  have hrel0 := h.rel n nd0 hnd0
  have hqlt : q.id < g.next := hrel0.bound q.id (by simp [allIds, hc, NodeSpec.idsC])
  have hqne : g.next ≠ q.id := Nat.ne_of_gt hqlt
  let s1 : S := { (ss n) with reqs := (ss n).reqs ++ [⟨p.id, .written q.id w⟩], cur := .idle }
  let lg' : Log := { g.log with dels := aset g.log.dels q.id [g.next], owner := aset g.log.owner g.next (rkeyOf t) }
  have hx : LogExt g.log lg' q.id := by
    refine ⟨hqU, fun x hne => ⟨rfl, ?_, rfl, rfl⟩⟩
    simp only [lg', aget_aset, hne, if_false]
  have hown : ∀ id, id < g.next → aget lg'.owner id = aget g.log.owner id := by
    intro id hid; simp only [lg', aget_aset]; have : id ≠ g.next := Nat.ne_of_lt hid
    simp [this]
  have hcU : Unlogged lg' g.next := unlogged_ext g.log lg' q.id hx _ hqne (h.logBound _ (Nat.le_refl _))
  have hownc : aget lg'.owner g.next = some (rkeyOf t) := by simp [lg', aget_aset]
  have hqtag : aget g.log.owner q.id = some (n * 64 + 63) := by simpa [qTag] using hqo
  have hsepq : ∀ m, m ≠ n → q.id ∉ unlIds (ss m) := by
    intro m hm; apply sep_node N links ss D0 g h q.id _ hqtag m <;> omega
  have hheld1 : heldOf s1 = heldOf (ss1 n) := by rw [hss1n]; simp [s1, heldOf, hc, curRead]
  let g' : G :=
    { g with
      nodes := setNode nodes1 n nd'
      sinks := sinks1
      next := g.next + 1
      writers := aset g.writers (wkey n w) (Flow.Writer.mk ((gw g.writers (wkey n w)).rows ++ [[none]]) (gw g.writers (wkey n w)).queue)
      fifo := aset g.fifo (rkeyOf t) (getL g.fifo (rkeyOf t) ++ [wkey n w])
      log := lg' }
  show FI N links (upd ss1 n s1) D0 g'
  have hreqs := tgtPush_reqs ss ss1 g t g.next q.pay nodes1 sinks1 hp
  apply FI_build N links hwf ss (upd ss1 n s1) D0 D0 g g' h q.id (fun m => tgtNode t m ∨ m = n) rfl
    (nodesLen_set' nodes1 N n nd nd' hnd n1)
    (rel_upd' nodes1 ss1 n nd nd' s1 (g.next + 1) (g.next + 1) n2 hnd hr' (Nat.le_refl _))
  · intro m hm
    have h1 : ¬ tgtNode t m := fun e => hm (Or.inl e)
    have h2 : m ≠ n := fun e => hm (Or.inr e)
    simp only [upd, h2, if_false]; exact n3 m h1
  · intro m hm
    rcases hm with hm | hm
    · exact tgtNode_lt N links ss g h t m hm n4
    · rw [hm]; exact hnN
  · exact hx
  · exact hown
  · exact Nat.le_succ _
  · intro id hid
    have h2 : g.next + 1 ≤ id := hid
    exact unlogged_ext g.log lg' q.id hx id
      (Nat.ne_of_gt (Nat.lt_of_lt_of_le hqlt (Nat.le_of_succ_le h2))) (h.logBound id (Nat.le_of_succ_le h2))
  · intro m hm; exact hsepq m (fun e => hm (Or.inr e))
  · -- reqs of changed nodes
    intro m hm r hr
    by_cases e : m = n
    · subst e
      simp only [upd, if_true, s1, List.mem_append, List.mem_singleton] at hr
      rcases hr with hr | hr
      · exact reqOK_ext g.log lg' q.id hx r (h.reqsOK m r hr)
      · subst hr; exact ⟨reqlogged_ext g.log lg' q.id hx _ _ hRL, hw⟩
    · have hmt : tgtNode t m := by rcases hm with hm | hm; exact hm; exact absurd hm e
      simp only [upd, e, if_false] at hr
      exact (tgtPush_nodeM N links ss ss1 g h t htok g.next q.pay (Nat.le_refl _) nodes1 sinks1 hp lg' q.id hx hown hownc hcU m hmt
        (hsepq m e)).1 r hr
  · intro m hm
    by_cases e : m = n
    · subst e
      have : upd ss1 m s1 m = s1 := by simp [upd]
      rw [this]; trivial
    · have hmt : tgtNode t m := by rcases hm with hm | hm; exact hm; exact absurd hm e
      simp only [upd, e, if_false]
      exact (tgtPush_nodeM N links ss ss1 g h t htok g.next q.pay (Nat.le_refl _) nodes1 sinks1 hp lg' q.id hx hown hownc hcU m hmt
        (hsepq m e)).2.1
  · intro m hm x hxi
    by_cases e : m = n
    · subst e
      simp only [upd, if_true, s1] at hxi
      have hne : x.id ≠ q.id := fun e2 =>
        rel_nodup_ne _ nd0 g.next hrel0 q.id x.id (by simp [hc, NodeSpec.idsC]) (List.mem_map_of_mem hxi) e2.symm
      exact unlogged_ext g.log lg' q.id hx x.id hne (h.inboxOK m x hxi)
    · have hmt : tgtNode t m := by rcases hm with hm | hm; exact hm; exact absurd hm e
      simp only [upd, e, if_false] at hxi
      exact (tgtPush_nodeM N links ss ss1 g h t htok g.next q.pay (Nat.le_refl _) nodes1 sinks1 hp lg' q.id hx hown hownc hcU m hmt
        (hsepq m e)).2.2.1 x hxi
  · intro m hm id hid
    by_cases e : m = n
    · subst e
      have hid' : id ∈ heldAt ss g.sinks (.node m 0) := by
        simp only [heldAt, upd, if_true, s1, List.map_append, List.map_cons, List.map_nil, curRead, List.append_nil,
          List.mem_append, List.mem_singleton] at hid
        simp only [heldAt, hc, curRead, List.mem_append, List.mem_singleton]
        rcases hid with (hid | hid) | hid
        · left; left; exact hid
        · left; right; exact hid
        · right; exact hid
      have hlt : id < g.next := live_lt N links ss D0 g h m id (heldOf_sub_allIds _ id hid')
      show aget lg'.owner id = _
      rw [hown id hlt]; exact h.ownNode m id hid'
    · have hmt : tgtNode t m := by rcases hm with hm | hm; exact hm; exact absurd hm e
      have : heldAt (upd ss1 n s1) g'.sinks (.node m 0) = heldAt ss1 sinks1 (.node m 0) := by
        simp [heldAt, upd, e]
      rw [this] at hid
      exact (tgtPush_nodeM N links ss ss1 g h t htok g.next q.pay (Nat.le_refl _) nodes1 sinks1 hp lg' q.id hx hown hownc hcU m hmt
        (hsepq m e)).2.2.2 id hid
  · exact tgtPush_sinks N links ss ss1 g h t g.next q.pay (Nat.le_refl _) nodes1 sinks1 hp lg' q.id hx
      (fun j => by apply sep_sink N links ss D0 g h q.id _ hqtag j; omega) hown hownc hcU
  · intro r hr; exact Nat.lt_succ_of_lt (h.rootsB r hr)
  · intro rk x hx'; simp [D0] at hx'
  · apply wk_push_all N links hwf ss (upd ss1 n s1) g g' (wkAll_of_FI N links hwf ss D0 g h) (wkey n w) t hl q.id g.next hx
    · exact ⟨hqU.2.2.1, hqU.2.2.2, by simp [g', lg', aget_aset]⟩
    · intro key; simp only [g', gw_aset]
    · intro rk; simp only [g', getL_aset]; by_cases e : rk = rkeyOf t <;> simp [e]
    · intro key t' hl'
      have : heldD D0 (upd ss1 n s1) g'.sinks t' = heldD D0 ss1 sinks1 t' := heldD_upd_same D0 ss1 sinks1 n s1 hheld1 t'
      rw [this]
      exact tgtPush_held N links hwf ss ss1 g (wkey n w) t hl g.next q.pay nodes1 sinks1 hp key t' hl'
    · intro key
      simp only [pendK, g']
      by_cases e : key = srcKey
      · have hsk : ¬ srcKey = wkey n w := fun e2 => wkey_ne_src N n w hwf.small hnN hw e2.symm
        simp [e, hsk]
      · simp only [e, if_false]
        obtain ⟨k1, k2⟩ := parts_of_key n w hw
        by_cases e3 : key = wkey n w
        · subst e3
          have hup : (upd ss1 n s1 (wkey n w / 64)).reqs = (ss n).reqs ++ [⟨p.id, .written q.id w⟩] := by
            rw [k1]; simp [upd, s1]
          rw [hup, NodeSpec.writesOf_append, k1, k2]
          simp [writesOf]
        · simp only [e3, if_false]
          by_cases e2 : key / 64 = n
          · have hup : (upd ss1 n s1 (key / 64)).reqs = (ss n).reqs ++ [⟨p.id, .written q.id w⟩] := by
              rw [e2]; simp [upd, s1]
            have hw2 : ¬ w = key % 64 := fun e4 => e3 (key_of_parts key n w e2 e4.symm)
            rw [hup, NodeSpec.writesOf_append, e2]
            simp [writesOf, hw2]
          · simp only [upd, e2, if_false, hreqs]
  · show (gw (aset g.writers (wkey n w) _) srcKey).queue = []
    have : srcKey ≠ wkey n w := fun e2 => wkey_ne_src N n w hwf.small hnN hw e2.symm
    simp only [gw_aset, this, if_false]
    cases hs : getL links srcKey with
    | nil => exact absurd hs hwf.src
    | cons x xs =>
      have hsing := hwf.single srcKey; rw [hs] at hsing
      cases xs with
      | nil => exact (h.wkS x hs).2
      | cons y ys => simp at hsing
  · exact ⟨h.respOK.1, all2_mono _ _ (fun p a => ra_ext g.log lg' q.id hx p a) _ _ h.respOK.2⟩
  · intro t' htok' hno
    have : heldD D0 (upd ss1 n s1) g'.sinks t' = heldD D0 ss1 sinks1 t' := heldD_upd_same D0 ss1 sinks1 n s1 hheld1 t'
    rw [this]
    exact tgtPush_nofeed N links hwf ss ss1 g h (wkey n w) t hl g.next q.pay nodes1 sinks1 hp t' htok' hno
  · intro key hk
    have hne : key ≠ wkey n w := by intro e; rw [e, hl] at hk; cases hk
    show (gw (aset g.writers (wkey n w) _) key).queue = []
    simp only [gw_aset, hne, if_false]; exact h.wq0 key hk
  · exact ordAt_dels_single lg' q.id g.next (g.next + 1) (by simp [lg', aget_aset]) hqU.1 hqlt (Nat.lt_succ_self _)

end Uniflow.FlowInv
