/-
C02, joint model, part 13 of the invariant proof: the external steps (`send`, `release`, `sinkAnswer`)
and schedules; the safety theorem.
-/
import Uniflow.Proofs.FlowInv12

namespace Uniflow.FlowInv
open Uniflow.Tracer Uniflow.Node Uniflow.Flow
open Uniflow.NodeSpec (S EReq ESt Cur Rel curRead writesOf allIds flushS flushT markDone)
open Uniflow.ATracer (getL_setOrDel getL_aset)

theorem FIe_send (N : Nat) (links : List (Nat × List Tgt)) (hwf : TreeWF N links) (g : G) (v : Val)
    (h : FIe N links g) : FIe N links (send g v) := by
  obtain ⟨ss, h⟩ := h
  have hgl : g.links = links := h.glinks
  let g1 : G := { g with srcOut := [], entered := [], arrived := [], next := g.next + 1, roots := g.roots ++ [g.next] }
  show FIe N links (settle settleFuel (gWrite g1 srcKey g.next v).1)
  apply FIe_settle N links hwf
  cases hs : getL links srcKey with
  | nil => exact absurd hs hwf.src
  | cons t ts =>
    have hl1 := links_single N links hwf srcKey t (by rw [hs]; simp)
    have htok := tgtOK_link N links hwf _ t hl1
    cases t with
    | sink k =>
      rw [gWrite_sink g1 _ _ _ k (by show getL g.links srcKey = _; rw [hgl]; exact hl1) (h.logBound g.next (Nat.le_refl _)).2.1]
      have key := FI_send N links hwf ss ss g h (.sink k) hl1 htok v g.nodes _ ⟨rfl, rfl, rfl⟩
      exact ⟨_, FI_congr N links _ D0 _ _ key rfl rfl rfl rfl rfl rfl rfl rfl rfl⟩
    | node m port =>
      obtain ⟨hmN, hp0⟩ := hwf.tnode srcKey m port (by rw [hl1]; simp)
      subst hp0
      cases hm : getNode g.nodes m with
      | none => have := (h.nodesLen m).mpr hmN; rw [hm] at this; cases this
      | some ndm =>
        obtain ⟨ndm', hpst, hprel⟩ := push_node (ss m) ndm (g.next + 1) v
          (NodeSpec.rel_mono _ _ _ _ (h.rel m ndm hm) (Nat.le_succ _))
        rw [gWrite_node g1 _ _ _ m 0 ndm ndm' [] (by show getL g.links srcKey = _; rw [hgl]; exact hl1) hm hpst (h.logBound g.next (Nat.le_refl _)).2.1]
        have key := FI_send N links hwf ss _ g h (.node m 0) hl1 htok v _ _ ⟨ndm, ndm', hm, hprel, rfl, rfl, rfl⟩
        exact ⟨_, FI_congr N links _ D0 _ _ key rfl rfl rfl rfl rfl rfl rfl rfl rfl⟩

theorem FIe_sinkAnswer (N : Nat) (links : List (Nat × List Tgt)) (hwf : TreeWF N links) (g g' : G) (k : Nat)
    (a : Option Ans) (h : FIe N links g) (hs : sinkAnswer g k a = some g') : FIe N links g' := by
  obtain ⟨ss, h⟩ := h
  have h0 : FI N links ss D0 (clearObs g) := FI_congr N links ss D0 g _ h rfl rfl rfl rfl rfl rfl rfl rfl rfl
  simp only [sinkAnswer] at hs
  cases hk : getL (clearObs g).sinks k with
  | nil => simp [hk] at hs
  | cons x rest =>
    obtain ⟨c, v⟩ := x
    simp only [hk, Option.some.injEq] at hs
    subst hs
    apply FIe_settle N links hwf
    exact ⟨ss, FI_sinkAns N links hwf ss (clearObs g) h0 k c v rest _ hk⟩

theorem action_cur (s : S) (nd : Node) (nx : Nat) (hrel : Rel s nd nx) (i : Nat) (p : Pkt)
    (hat : actionThread nd.threads 0 = some (i, p)) : i = 0 ∧ s.cur = .inAction p := by
  rw [hrel.threads] at hat
  cases hc : s.cur with
  | idle => rw [hc] at hat; simp [actionThread, NodeSpec.pcOf] at hat
  | inAction p' =>
    rw [hc] at hat
    simp only [actionThread, NodeSpec.pcOf, Option.some.injEq, Prod.mk.injEq] at hat
    rw [hat.2]; exact ⟨hat.1.symm, rfl⟩
  | toLink _ _ _ => rw [hc] at hat; simp [actionThread, NodeSpec.pcOf] at hat
  | linked _ _ _ => rw [hc] at hat; simp [actionThread, NodeSpec.pcOf] at hat

theorem FIe_release_core (N : Nat) (links : List (Nat × List Tgt)) (hwf : TreeWF N links) (ss : Nat → S) (g : G)
    (h : FI N links ss D0 g) (n : Nat) (nd nd' : Node) (p : Pkt) (v : Val) (o : Outcome) (w : Wid) (ev : List Ev)
    (hn : getNode g.nodes n = some nd) (hc : (ss n).cur = .inAction p)
    (ho : (o = .outs [some ⟨g.next, v⟩] ∧ w = outW 0) ∨ (o = .err ⟨g.next, v⟩ ∧ w = errW))
    (hst : Node.step nd (.finish 0 o) = some (nd', ev)) :
    FIe N links (putNode { g with next := g.next + 1,
                                  log := { g.log with acts := aset g.log.acts p.id [g.next],
                                                      owner := aset g.log.owner g.next (qTag n) } } n nd' ev) := by
  have hrel := h.rel n nd hn
  have hw2 : w < 2 := by rcases ho with ⟨_, e⟩ | ⟨_, e⟩ <;> simp [e, outW, errW]
  obtain ⟨s', hs1, hs2⟩ := sim_some (ss n) nd nd' (.finish 0 o) (g.next + 1) ev
    (NodeSpec.sim_finish (ss n) nd g.next v o w hrel ho) hst
  have : s' = { (ss n) with cur := .toLink p ⟨g.next, v⟩ w } ∧ ev = [] := by
    rcases ho with ⟨e1, e2⟩ | ⟨e1, e2⟩
    · subst e1; subst e2
      simp only [NodeSpec.step, hc, Option.some.injEq, Prod.mk.injEq] at hs1
      exact ⟨hs1.1.symm, hs1.2.symm⟩
    · subst e1; subst e2
      simp only [NodeSpec.step, hc, Option.some.injEq, Prod.mk.injEq] at hs1
      exact ⟨hs1.1.symm, hs1.2.symm⟩
  obtain ⟨e1, e2⟩ := this
  subst e1; subst e2
  have key := FI_release N links hwf ss g h n nd nd' p v w hw2 hn hc hs2
  simp only [putNode, route]
  exact ⟨_, FI_congr N links _ D0 _ _ key rfl rfl rfl rfl rfl rfl rfl rfl rfl⟩

theorem FIe_release (N : Nat) (links : List (Nat × List Tgt)) (hwf : TreeWF N links) (g g' : G) (n : Nat) (r : Flow.Rel)
    (v : Val) (hr : r = .out v ∨ r = .err v) (h : FIe N links g) (hs : release g n r = some g') :
    FIe N links g' := by
  obtain ⟨ss, h⟩ := h
  have h0 : FI N links ss D0 (clearObs g) := FI_congr N links ss D0 g _ h rfl rfl rfl rfl rfl rfl rfl rfl rfl
  simp only [release] at hs
  cases hn : getNode (clearObs g).nodes n with
  | none => simp [hn] at hs
  | some nd =>
    simp only [hn] at hs
    have hrel := h0.rel n nd hn
    cases hat : actionThread nd.threads 0 with
    | none => simp [hat] at hs
    | some ip =>
      obtain ⟨i, p⟩ := ip
      obtain ⟨ei, hc⟩ := action_cur (ss n) nd _ hrel i p hat
      subst ei
      have hplt : p.id < (clearObs g).next := hrel.bound p.id (by simp [allIds, hc, NodeSpec.idsC])
      have hne : ((clearObs g).next != p.id) = true := by
        rw [bne_iff_ne]; exact Ne.symm (Nat.ne_of_lt hplt)
      simp only [hat] at hs
      rcases hr with e | e
      · subst e
        simp only [] at hs
        cases hst : Node.step nd (.finish 0 (.outs [some ⟨(clearObs g).next, v⟩])) with
        | none => simp [hst] at hs
        | some r =>
          obtain ⟨nd', ev⟩ := r
          simp only [hst, hrel.kind, program, writeIds, List.filter, hne, Option.some.injEq] at hs
          subst hs
          apply FIe_settle N links hwf
          exact FIe_release_core N links hwf ss (clearObs g) h0 n nd nd' p v _ (outW 0) ev hn hc (Or.inl ⟨rfl, rfl⟩) hst
      · subst e
        simp only [] at hs
        cases hst : Node.step nd (.finish 0 (.err ⟨(clearObs g).next, v⟩)) with
        | none => simp [hst] at hs
        | some r =>
          obtain ⟨nd', ev⟩ := r
          simp only [hst, hrel.kind, program, writeIds, List.filter, hne, Option.some.injEq] at hs
          subst hs
          apply FIe_settle N links hwf
          exact FIe_release_core N links hwf ss (clearObs g) h0 n nd nd' p v _ errW ev hn hc (Or.inr ⟨rfl, rfl⟩) hst

/-- the schedules of class T1: the source sends, an action returns one new packet on the out port or
one new packet on the error port, a sink answers -/
def ExtT1 : Ext → Prop
  | .send _ => True
  | .release _ (.out _) => True
  | .release _ (.err _) => True
  | .sinkAnswer _ _ => True
  | _ => False

theorem FIe_ext (N : Nat) (links : List (Nat × List Tgt)) (hwf : TreeWF N links) (g : G) (e : Ext) (he : ExtT1 e)
    (h : FIe N links g) : FIe N links (ext g e) := by
  cases e with
  | send v => exact FIe_send N links hwf g v h
  | sinkAnswer k a =>
    simp only [ext]
    cases hs : sinkAnswer g k a with
    | none => exact h
    | some g' => exact FIe_sinkAnswer N links hwf g g' k a h hs
  | release n r =>
    simp only [ext]
    cases hs : release g n r with
    | none => exact h
    | some g' =>
      cases r with
      | out v => exact FIe_release N links hwf g g' n _ v (Or.inl rfl) h hs
      | err v => exact FIe_release N links hwf g g' n _ v (Or.inr rfl) h hs
      | same => exact he.elim
      | many _ => exact he.elim
      | drop => exact he.elim
      | sames _ => exact he.elim
      | mixed _ => exact he.elim

theorem FIe_runExt (N : Nat) (links : List (Nat × List Tgt)) (hwf : TreeWF N links) (es : List Ext) :
    ∀ (g : G), (∀ e ∈ es, ExtT1 e) → FIe N links g → FIe N links (runExt g es) := by
  induction es with
  | nil => intro g _ h; exact h
  | cons e es ih =>
    intro g he h
    simp only [runExt]
    exact ih _ (fun e' he' => he e' (List.mem_cons_of_mem _ he'))
      (FIe_ext N links hwf g e (he e (by simp)) h)

theorem FIe_init (N : Nat) (links : List (Nat × List Tgt)) (hwf : TreeWF N links) :
    FIe N links (initG (List.replicate N .oneToOne) links) := ⟨_, FI_init N links hwf⟩

theorem all2_index {α β : Type} (P : α → β → Prop) : ∀ (l1 : List α) (l2 : List β), All2 P l1 l2 →
    ∀ (i : Nat) (b : β), l2[i]? = some b → ∃ a, l1[i]? = some a ∧ P a b
  | [], [], _, i, b, hb => by simp at hb
  | x :: xs, y :: ys, h, 0, b, hb => by
    simp only [List.getElem?_cons_zero, Option.some.injEq] at hb
    subst hb; exact ⟨x, rfl, h.1⟩
  | x :: xs, y :: ys, h, i + 1, b, hb => by
    simp only [List.getElem?_cons_succ] at hb ⊢
    exact all2_index P xs ys h.2 i b hb
  | [], _ :: _, h, _, _, _ => absurd h (by simp [All2])
  | _ :: _, [], h, _, _, _ => absurd h (by simp [All2])

/-- safety: in every state satisfying the invariant, the i-th response the source has received is the
reference answer of its i-th request (in particular the whole derivation tree of that request is
answered) -/
theorem FIe_safety (N : Nat) (links : List (Nat × List Tgt)) (g : G) (h : FIe N links g) :
    ∀ (i : Nat) (a : Ans), g.resp[i]? = some a → ∃ p, g.roots[i]? = some p ∧ ∃ f, refAns g.log f p = some a := by
  obtain ⟨ss, h⟩ := h
  intro i a hi
  obtain ⟨p, hp, hra⟩ := all2_index _ _ _ h.respOK.2 i a hi
  rw [List.getElem?_take] at hp
  split at hp
  · exact ⟨p, hp, hra⟩
  · cases hp

def chainLinks : List (Nat × List Tgt) :=
  [(srcKey, [.node 0 0]), (wkey 0 1, [.node 1 0]), (wkey 1 1, [.sink 0])]

theorem chain_getL (key : Nat) : getL chainLinks key =
    if key = srcKey then [.node 0 0] else if key = wkey 0 1 then [.node 1 0] else if key = wkey 1 1 then [.sink 0] else [] := by
  simp only [chainLinks, getL, aget, srcKey, srcNode, wkey]
  by_cases e1 : key = 1000 * 64 + 1
  · subst e1; simp
  · by_cases e2 : key = 0 * 64 + 1
    · subst e2; simp
    · by_cases e3 : key = 1 * 64 + 1
      · subst e3; simp
      · simp [e1, e2, e3, Ne.symm e1, Ne.symm e2, Ne.symm e3]

end Uniflow.FlowInv
namespace Uniflow.FlowInv
open Uniflow.Tracer Uniflow.Node Uniflow.Flow

theorem chain_wf : TreeWF 2 chainLinks := by
  refine ⟨by decide, ?_, ?_, ?_, ?_, ?_, ?_⟩
  · intro key; rw [chain_getL]; split
    · simp
    · split
      · simp
      · split <;> simp
  · intro key m port hm
    rw [chain_getL] at hm
    split at hm
    · simp at hm; omega
    · split at hm
      · simp at hm; omega
      · split at hm <;> simp at hm
  · intro key key' t t' ht ht' he
    rw [chain_getL] at ht ht'
    repeat' split at ht
    all_goals repeat' split at ht'
    all_goals simp at ht ht'
    all_goals (try subst ht; try subst ht')
    all_goals simp_all [rkeyOf]
  · rw [chain_getL]; simp
  · intro key hk
    rw [chain_getL] at hk
    split at hk
    · left; assumption
    · right
      split at hk
      · exact ⟨0, 1, by decide, by decide, by assumption⟩
      · split at hk
        · exact ⟨1, 1, by decide, by decide, by assumption⟩
        · exact absurd rfl hk
  · intro n w m port hn hw hm
    rw [chain_getL] at hm
    have h1 : ¬ (wkey n w = srcKey) := by simp only [wkey, srcKey, srcNode]; omega
    rw [if_neg h1] at hm
    by_cases h2 : wkey n w = wkey 0 1
    · rw [if_pos h2] at hm; simp only [wkey] at h2; simp at hm; omega
    · rw [if_neg h2] at hm
      by_cases h3 : wkey n w = wkey 1 1
      · rw [if_pos h3] at hm; simp at hm
      · rw [if_neg h3] at hm; simp at hm


end Uniflow.FlowInv
