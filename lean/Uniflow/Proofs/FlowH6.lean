/-
C02, joint model, one-in-port node kinds, part 6: an accepted `Write`; the reference answer of a complete
request.
-/
import Uniflow.Proofs.FlowH5

namespace Uniflow.FlowH
open Uniflow.Tracer Uniflow.Node Uniflow.Flow Uniflow.FlowInv Uniflow.FlowG Uniflow.ATracer

theorem cells_ra (lg : Log) (n : Nat) : ∀ (qs : List Pid) (cs : List Cell), All2 (CellA lg n) qs cs →
    hasNil (cs.map cellVal) = false → ∃ f, allSome (qs.map (refAns lg f)) = some (cellsOf (cs.map cellVal))
  | [], [], _, _ => ⟨0, rfl⟩
  | q :: qs, c :: cs, h, hn => by
    cases c with
    | linked q' => simp [cellVal, hasNil] at hn
    | written q' w => simp [cellVal, hasNil] at hn
    | filled a =>
      simp only [List.map_cons, cellVal, hasNil] at hn
      obtain ⟨f2, h2⟩ := cells_ra lg n qs cs h.2 hn
      obtain ⟨f1, h1⟩ : RA lg q a := h.1
      refine ⟨f1 + f2, ?_⟩
      have e1 : refAns lg (f1 + f2) q = some a := refAns_fuel_le lg q a f1 h1 f2
      have e2 := allSome_congr (refAns lg f2) (refAns lg (f1 + f2)) qs _
        (fun c' _ b hb => refAns_fuel_ge lg c' b f2 (f1 + f2) hb (Nat.le_add_left _ _)) h2
      simp only [List.map_cons, allSome, e1, e2, cellVal, cellsOf]
  | [], _ :: _, h, _ => absurd h (by simp [All2])
  | _ :: _, [], h, _ => absurd h (by simp [All2])

/-- a complete request is answered with the reference answer of its packet -/
theorem ra_of_reqA (lg : Log) (n : Nat) (pc : PC) (x : Req) (b : Ans) (h : ReqB lg n pc x)
    (hb : reply x.st = some b) : RA lg x.p b := by
  rcases h with h | ⟨v, e1, e2, _⟩
  rotate_left
  · rw [e1] at hb
    simp only [reply, List.map_cons, List.map_nil, cellVal, hasNil, Bool.false_eq_true, if_false,
      Option.some.injEq] at hb
    rw [← hb]
    exact ra_echo lg x.p v e2
  simp only [ReqA] at h
  cases hst : x.st with
  | direct w => rw [hst] at h; exact h.elim
  | cells cs =>
    rw [hst] at h hb
    obtain ⟨qs, a1, a2, a3, a4, a5, a6, _⟩ := h
    have hrem : remFor pc x.p = [] := by
      rcases a6 with e | e
      · exact e
      · rw [reply_none_of_linked cs (prot_of_allLinked cs e)] at hb; cases hb
    cases cs with
    | nil => simp [reply] at hb
    | cons c cs =>
      simp only [reply] at hb
      by_cases hn : hasNil ((c :: cs).map cellVal) = true
      · rw [if_pos hn] at hb; cases hb
      · rw [if_neg hn] at hb
        simp only [Option.some.injEq] at hb
        have hn' : hasNil ((c :: cs).map cellVal) = false := by simpa using hn
        obtain ⟨f, hf⟩ := cells_ra lg n qs (c :: cs) a1 hn'
        have hqne : qs ≠ [] := by
          intro e; rw [e] at a1; simp [All2] at a1
        rw [hrem, List.append_nil] at a2
        have hacts : aget lg.acts x.p = some qs := by rw [a2]; simp [optl, hqne]
        exact ⟨f + 1, by simp only [refAns, a3, a4, a5, hacts, hf, ← hb, joinCells]⟩

theorem reply_none_of_hasNil (cs : List Cell) (h : hasNil (cs.map cellVal) = true) : reply (.cells cs) = none := by
  cases cs with
  | nil => rfl
  | cons c cs => simp only [reply, h, if_true]

theorem updReq_map_p (p : Pid) (f : RSt → RSt) : ∀ (rs : List Req), (updReq p f rs).map (·.p) = rs.map (·.p)
  | [] => rfl
  | z :: zs => by
    simp only [updReq]
    split
    · simp
    · simp [updReq_map_p p f zs]

/-- `Write(w, q)` accepted by the writer: the cell of `q` is owed an answer, `q` joins the writer's queue -/
theorem nl_write_acc (lg lg' : Log) (n : Nat) (a : A) (inbox : List Pkt) (w : Wid) (q : Pkt) (ops : List Op)
    (h : NL lg n { inbox := inbox, pc := .emit (.write (some w) q :: ops) } a) (hnd : (ids a.reqs).Nodup)
    (p : Pid) (cs : List Cell) (rest : List Pid) (hX : (⟨p, 0, .cells cs⟩ : Req) ∈ a.reqs)
    (hl : linkedIds cs = q.id :: rest) (hrem0 : remFor (.emit (.write (some w) q :: ops)) p = [])
    (t : Tr lg lg' q.id)
    (hki : ∀ x ∈ inbox, x.id ≠ q.id)
    (hkr : ∀ y ∈ a.reqs, q.id ∉ remFor (.emit (.write (some w) q :: ops)) y.p)
    (ho : ∀ id ∈ nlIds { inbox := inbox, pc := .emit (.write (some w) q :: ops) } a,
      aget lg'.owner id = aget lg.owner id) :
    NL lg' n { inbox := inbox, pc := nextPc ops } (awrite a (some w) q.id (.pay q.pay) true).1 ∧
    (awrite a (some w) q.id (.pay q.pay) true).1.wq = aset a.wq w (getL a.wq w ++ [q.id]) ∧
    (awrite a (some w) q.id (.pay q.pay) true).2 = [] ∧
    (awrite a (some w) q.id (.pay q.pay) true).1.reqs.map (·.p) = a.reqs.map (·.p) := by
  have hkl : q.id ∈ linkedIds cs := by rw [hl]; simp
  have hko := linkedIds_sub_open cs q.id hkl
  have hf := findReq_of_mem a.reqs _ hnd hX
  have hown := ownerOf_of_mem q.id a.reqs _ cs hnd hX rfl hko
  have hfk := findReq_cell_none a.reqs _ q.id hnd hX (by simpa [cellsOfSt] using hko)
  have hres : awrite a (some w) q.id (.pay q.pay) true =
      ({ a with reqs := updReq p (fun st => match st with | .cells cs => .cells (markWritten q.id w cs) | s => s) a.reqs,
                wq := aset a.wq w (getL a.wq w ++ [q.id]) }, []) := by
    simp only [awrite, hfk, hown, isLinked_of_mem q.id cs hkl, if_true]
    rfl
  rw [hres]
  refine ⟨?_, rfl, rfl, ?_⟩
  · have hcases := mem_updReq_cases p (fun st => match st with | .cells cs => .cells (markWritten q.id w cs) | s => s)
      a.reqs
    have ho1 : ∀ x ∈ inbox, aget lg'.owner x.id = aget lg.owner x.id :=
      fun x hx => ho x.id (by simp only [nlIds, List.mem_append]; left; left; left; exact List.mem_map_of_mem hx)
    have ho2 : ∀ x ∈ a.reqs, aget lg'.owner x.p = aget lg.owner x.p :=
      fun x hx' => ho x.p (by simp only [nlIds, List.mem_append]; left; left; right; exact List.mem_map_of_mem hx')
    have ho3 : ∀ x ∈ a.reqs, ∀ cs', x.st = .cells cs' → ∀ q' ∈ linkedIds cs', aget lg'.owner q' = aget lg.owner q' :=
      fun x hx' cs' hst q' hq' => ho q' (by
        simp only [nlIds, List.mem_append]; left; right; exact mem_linkedAll a x cs' hx' hst q' hq')
    have ho4 : ∀ x ∈ a.reqs, ∀ q' ∈ remFor (.emit (.write (some w) q :: ops)) x.p, aget lg'.owner q' = aget lg.owner q' :=
      fun x hx' q' hq' => ho q' (by
        simp only [nlIds, List.mem_append]; right; exact List.mem_flatMap.mpr ⟨x, hx', hq'⟩)
    have hpc : ∀ p', remFor (nextPc ops) p' = remFor (.emit (.write (some w) q :: ops)) p' := by
      intro p'; rw [remFor_next]; rfl
    refine ⟨?_, ?_, ?_, ?_, wOK_next _ ops h.wb⟩
    rotate_left 3
    · intro y hy hst
      rcases hcases y (nodup_p _ hnd) hy with ⟨h1, h2⟩ | ⟨x, h1, h2, h3⟩
      · rcases h.nz y h1 hst with e | ⟨pk, grp, e, _⟩ | ⟨q', e, _⟩
        · left; rw [hpc]; exact e
        · cases e
        · simp at e
      · have hxe : x = ⟨p, 0, .cells cs⟩ := mem_unique a.reqs x _ p hnd h1 hX (by simp [idsR, h2]) (by simp [idsR])
        subst hxe
        rw [h3] at hst
        simp only [RSt.cells.injEq] at hst
        cases cs with
        | nil => simp [linkedIds] at hl
        | cons c cs' => cases c <;> simp [markWritten] at hst <;> split at hst <;> simp at hst
    · intro x hx
      obtain ⟨u, o⟩ := h.inb x hx
      exact ⟨t.unl x.id (hki x hx) u, by rw [ho1 x hx]; exact o⟩
    · intro y hy
      rcases hcases y (nodup_p _ hnd) hy with ⟨h1, _⟩ | ⟨x, h1, _, h3⟩
      · rw [ho2 y h1]; exact h.own y h1
      · rw [h3]; show aget lg'.owner x.p = _; rw [ho2 x h1]; exact h.own x h1
    · intro y hy
      rcases hcases y (nodup_p _ hnd) hy with ⟨h1, h2⟩ | ⟨x, h1, h2, h3⟩
      · -- another request
        apply reqB_tr lg lg' q.id t n _ _ y (hpc y.p) _ _ _ (h.req y h1)
        · intro e
          have : q.id ∈ idsR y := by simp [idsR, e]
          have := mem_unique a.reqs y _ q.id hnd h1 hX this (by simp [idsR, cellsOfSt, hko])
          rw [this] at h2; exact h2 rfl
        · intro q' hq'
          cases hst : y.st with
          | direct w' => rw [hst] at hq'; simp [cellsOfSt, linkedIds] at hq'
          | cells cs' =>
            rw [hst] at hq'
            refine ⟨fun e => ?_, ho3 y h1 cs' hst q' hq'⟩
            have := mem_unique a.reqs y _ q.id hnd h1 hX (e ▸ linked_in_idsR y cs' hst q' hq')
              (by simp [idsR, cellsOfSt, hko])
            rw [this] at h2; exact h2 rfl
        · intro q' hq'
          exact ⟨fun e => hkr y h1 (e ▸ hq'), ho4 y h1 q' hq'⟩
      · have hxe : x = ⟨p, 0, .cells cs⟩ := mem_unique a.reqs x _ p hnd h1 hX (by simp [idsR, h2]) (by simp [idsR])
        subst hxe
        subst h3
        rcases h.req _ h1 with hr | ⟨v, e1, _, _⟩
        rotate_left
        · simp only [RSt.cells.injEq] at e1; rw [e1] at hl; simp [linkedIds] at hl
        left
        simp only [ReqA] at hr ⊢
        rw [hpc]
        obtain ⟨qs, a1, a2, a3, a4, a5, a6, a7⟩ := hr
        have hpne : p ≠ q.id := by
          intro e
          have := (open_nodup_of_mem a.reqs p 0 cs hnd hX).1
          exact this (e ▸ hko)
        obtain ⟨s1, s2, s3, s4⟩ := t.same p hpne
        refine ⟨qs, ?_, by rw [s1]; exact a2, by rw [s2]; exact a3, by rw [s3]; exact a4, by rw [s4]; exact a5, ?_, ?_⟩
        · exact all2_markWritten lg lg' q.id t n w qs cs (open_nodup_of_mem a.reqs p 0 cs hnd hX).2
            (fun q' hq' _ => ho3 _ h1 cs rfl q' hq') a1
        · exact Or.inl hrem0
        · intro q' hq'
          obtain ⟨u, o⟩ := a7 q' hq'
          exact ⟨t.unl q' (fun e => hkr _ h1 (e ▸ hq')) u, by rw [ho4 _ h1 q' hq']; exact o⟩
  · exact updReq_map_p _ _ _

end Uniflow.FlowH
