/-
C02, joint model: the fuel `next + 1` of `refAnswers` suffices when the ghost log is ordered (children
have larger ids than their parent, all below `next`).
-/
import Uniflow.Proofs.FlowInv15

namespace Uniflow.FlowInv
open Uniflow.Tracer Uniflow.Node Uniflow.Flow

theorem allSome_congr {α : Type} (g1 g2 : Pid → Option α) : ∀ (cs : List Pid) (as : List α),
    (∀ c ∈ cs, ∀ a, g1 c = some a → g2 c = some a) →
    allSome (cs.map g1) = some as → allSome (cs.map g2) = some as
  | [], as, _, h => h
  | c :: cs, as, hc, h => by
    simp only [List.map_cons] at h ⊢
    cases h1 : g1 c with
    | none => rw [h1] at h; simp [allSome] at h
    | some a =>
      rw [h1] at h
      cases hr : allSome (cs.map g1) with
      | none => simp [allSome, hr] at h
      | some as' =>
        simp only [allSome, hr, Option.some.injEq] at h
        have e1 := hc c (by simp) a h1
        have e2 := allSome_congr g1 g2 cs as' (fun c' hc' => hc c' (List.mem_cons_of_mem _ hc')) hr
        simp only [e1, allSome, e2, h]

theorem refAns_fuel_ge (lg : Log) (p : Pid) (a : Ans) (f f' : Nat) (h : refAns lg f p = some a) (hle : f ≤ f') :
    refAns lg f' p = some a := by
  have := refAns_fuel_le lg p a f h (f' - f)
  rwa [Nat.add_sub_cancel' hle] at this

/-- with an ordered log the fuel `nx - p + 1` determines the reference answer of `p` whenever any fuel does -/
theorem refAns_fuel_bound (lg : Log) (nx : Nat) (ho : LogOrd lg nx) : ∀ (f : Nat) (p : Pid) (a : Ans),
    p < nx → refAns lg f p = some a → refAns lg (nx - p + 1) p = some a := by
  intro f
  induction f with
  | zero => intro p a _ h; simp [refAns] at h
  | succ f ih =>
    intro p a hp h
    have hsub : ∀ c, p < c → c < nx → ∀ b, refAns lg f c = some b → refAns lg (nx - p) c = some b := by
      intro c hpc hc b hb
      have h1 : @LT.lt Nat _ p c := hpc
      have h2 : @LT.lt Nat _ c nx := hc
      have h3 : @HSub.hSub Nat Nat Nat _ nx c + 1 ≤ @HSub.hSub Nat Nat Nat _ nx p := by omega
      exact refAns_fuel_ge lg c b _ _ (ih c b hc hb) h3
    simp only [refAns] at h ⊢
    cases he : aget lg.echo p with
    | some v => simp only [he] at h ⊢; exact h
    | none =>
      simp only [he] at h ⊢
      cases hs : aget lg.sinkAns p with
      | some b => simp only [hs] at h ⊢; exact h
      | none =>
        simp only [hs] at h ⊢
        cases hd : aget lg.dels p with
        | some cs =>
          simp only [hd] at h ⊢
          cases hr : allSome (cs.map (refAns lg f)) with
          | none => simp [hr] at h
          | some as =>
            simp only [hr] at h
            rw [allSome_congr _ (refAns lg (nx - p)) cs as
              (fun c hc b hb => hsub c (ho.1 p cs hd c hc).1 (ho.1 p cs hd c hc).2 b hb) hr]
            exact h
        | none =>
          simp only [hd] at h ⊢
          cases hq : aget lg.acts p with
          | none => simp [hq] at h
          | some qs =>
            simp only [hq] at h ⊢
            cases hr : allSome (qs.map (refAns lg f)) with
            | none => simp [hr] at h
            | some as =>
              simp only [hr] at h
              rw [allSome_congr _ (refAns lg (nx - p)) qs as
                (fun c hc b hb => hsub c (ho.2 p qs hq c hc).1 (ho.2 p qs hq c hc).2 b hb) hr]
              exact h

theorem allSome_of_all2 (lg : Log) (F : Nat) : ∀ (roots : List Pid) (resp : List Ans),
    All2 (fun p a => refAns lg F p = some a) roots resp → allSome (roots.map (refAns lg F)) = some resp
  | [], [], _ => rfl
  | p :: ps, a :: as, h => by
    simp only [List.map_cons, allSome, h.1, allSome_of_all2 lg F ps as h.2]
  | [], _ :: _, h => absurd h (by simp [All2])
  | _ :: _, [], h => absurd h (by simp [All2])

/-- class T1, quiescence, ordered log: the executable reference IS the list of responses -/
theorem FIe_quiescent_eq (N : Nat) (links : List (Nat × List Tgt)) (hwf : TreeWF N links) (g : G)
    (h : FIe N links g) (hq : quiescent g = true) (ho : LogOrd g.log g.next) :
    refAnswers g = some g.resp := by
  have hr : ∀ r ∈ g.roots, r < g.next := by obtain ⟨ss, hh⟩ := h; exact hh.rootsB
  obtain ⟨_, h2⟩ := FIe_quiescent N links hwf g h hq
  apply allSome_of_all2
  have : ∀ (ps : List Pid) (as : List Ans), (∀ r ∈ ps, r < g.next) →
      All2 (fun p a => ∃ f, refAns g.log f p = some a) ps as →
      All2 (fun p a => refAns g.log (g.next + 1) p = some a) ps as := by
    intro ps
    induction ps with
    | nil => intro as _ h; cases as with | nil => trivial | cons _ _ => simp [All2] at h
    | cons p ps ih =>
      intro as hb h
      cases as with
      | nil => simp [All2] at h
      | cons a as =>
        obtain ⟨⟨f, hf⟩, h'⟩ := h
        refine ⟨?_, ih as (fun r hr => hb r (List.mem_cons_of_mem _ hr)) h'⟩
        have hp := hb p (by simp)
        have h3 : @HSub.hSub Nat Nat Nat _ g.next p + 1 ≤ @HAdd.hAdd Nat Nat Nat _ g.next 1 := by omega
        exact refAns_fuel_ge g.log p a _ _ (refAns_fuel_bound g.log g.next ho f p a hp hf) h3
  exact this g.roots g.resp hr h2

/-- class T1, quiescence: the executable reference IS the list of responses (the log order is part of the
invariant) -/
theorem FIe_quiescent_ref_eq (N : Nat) (links : List (Nat × List Tgt)) (hwf : TreeWF N links) (g : G)
    (h : FIe N links g) (hq : quiescent g = true) : refAnswers g = some g.resp := by
  have ho : LogOrd g.log g.next := by obtain ⟨ss, hh⟩ := h; exact hh.logOrd
  exact FIe_quiescent_eq N links hwf g h hq ho

theorem FIe_logOrd (N : Nat) (links : List (Nat × List Tgt)) (g : G) (h : FIe N links g) : LogOrd g.log g.next := by
  obtain ⟨ss, hh⟩ := h; exact hh.logOrd

end Uniflow.FlowInv
