/-
Helper lemmas for Props/C13Store.lean: the store-with-watchers (Model/Watch.lean) runs the stream model
(Model/Stream.lean) on the trace of its events, and what `Stream.expected` owes a watcher on that trace is what the
reference evaluation of the watcher's filter selects from the events. Core Lean only.
-/
import Uniflow.Model.Watch
import Uniflow.Props.C13
import Uniflow.Proofs.Store

namespace Uniflow.Watch
open Uniflow.Value Uniflow.Store Uniflow.Index Uniflow.Query

/-! ### the stream component is the stream model run on the trace -/

theorem strm_run_append (st : Stream.St) : ∀ (a b : List Stream.Op), Stream.run st (a ++ b) = Stream.run (Stream.run st a) b
  | [], _ => rfl
  | o :: a, b => by simp only [List.cons_append, Stream.run]; exact strm_run_append _ a b

theorem step_strm (enc : Val → Nat) (ws : WSt) (o : WOp) :
    (step enc ws o).1.strm = Stream.run ws.strm (strmOps enc ws o) := by
  cases o with
  | store op => rfl
  | watch w φ =>
    by_cases h : (Stream.findW w ws.strm.streams).isSome = true <;>
      simp [step, strmOps, Stream.run, Stream.step, h]
  | next w => rfl
  | close w => rfl
  | pumpExit w => rfl

theorem run_strm (enc : Val → Nat) : ∀ (os : List WOp) (ws : WSt),
    (run enc ws os).strm = Stream.run ws.strm (trace enc ws os)
  | [], _ => rfl
  | o :: os, ws => by
    simp only [run, trace]
    rw [strm_run_append, ← step_strm, run_strm enc os]

/-! ### watcher numbers -/

def ids (st : Stream.St) : List Nat := st.streams.map (·.wid)

theorem findW_isSome (w : Nat) (st : Stream.St) : (Stream.findW w st.streams).isSome = true ↔ w ∈ ids st := by
  unfold Stream.findW ids
  rw [List.find?_isSome]
  simp only [decide_eq_true_eq, List.mem_map]

theorem ids_step (st : Stream.St) (o : Stream.Op) :
    ids (Stream.step st o).1 =
      match o with
      | .watch w => if w ∈ ids st then ids st else ids st ++ [w]
      | _ => ids st := by
  cases o with
  | watch w =>
    simp only [Stream.step]
    by_cases h : (Stream.findW w st.streams).isSome = true
    · simp [h, (findW_isSome w st).mp h]
    · have hn : ¬ w ∈ ids st := fun hm => h ((findW_isSome w st).mpr hm)
      simp only [h, Bool.false_eq_true, if_false, hn]
      simp [ids, Stream.Strm.fresh]
  | doc e accepted matched =>
    simp only [Stream.step]
    split
    · simp only [ids, List.map_map]
      apply List.map_congr_left
      intro s _
      simp only [Function.comp]
      split
      · unfold Stream.Strm.emit; split <;> rfl
      · rfl
    · rfl
  | next w =>
    simp only [Stream.step]
    split
    · rfl
    · split
      · rfl
      · split
        · rfl
        · simp only [ids]; apply Stream.map_wid_mapW; intro s; rfl
  | close w =>
    simp only [Stream.step]
    split
    · rfl
    · simp only [ids]; apply Stream.map_wid_mapW; intro s; rfl
  | pumpExit w =>
    simp only [Stream.step]
    split
    · rfl
    · split
      · simp only [ids]; apply Stream.map_wid_mapW; intro s; rfl
      · rfl

theorem ids_run_docs (enc : Val → Nat) (fs : List (Nat × Option Val)) : ∀ (es : List (PList × Nat)) (st : Stream.St),
    ids (Stream.run st (es.map (docOp enc fs))) = ids st
  | [], _ => rfl
  | e :: es, st => by
    simp only [List.map_cons, Stream.run]
    rw [ids_run_docs enc fs es, ids_step]
    rfl

/-! ### what a watcher is owed, by the reference evaluation of its filter -/

/-- the stream event of an emitted document -/
def evOf (enc : Val → Nat) (e : PList × Nat) : Stream.Event := ⟨enc (mget e.1 keyId), e.2⟩

/-- the events watcher `w` is owed by a history: for every store operation between its `Watch` (with filter `φ`) and
its `Close`, the events of the accepted documents that `refMatch` of its filter lets through, in emission order -/
def owed (enc : Val → Nat) (w : Nat) : WSt → List WOp → Bool → Bool → Option Val → List Stream.Event
  | _, [], _, _, _ => []
  | ws, .store op :: os, opened, closed, φ =>
    (if opened ∧ ¬ closed then ((events ws.store op).filter fun e => refMatchDoc φ e.1).map (evOf enc) else [])
      ++ owed enc w (step enc ws (.store op)).1 os opened closed φ
  | ws, .watch w' φ' :: os, opened, closed, φ =>
    if w' = w ∧ ¬ opened then owed enc w (step enc ws (.watch w' φ')).1 os true closed φ'
    else owed enc w (step enc ws (.watch w' φ')).1 os opened closed φ
  | ws, .close w' :: os, opened, closed, φ =>
    if w' = w ∧ opened then owed enc w (step enc ws (.close w')).1 os opened true φ
    else owed enc w (step enc ws (.close w')).1 os opened closed φ
  | ws, .next w' :: os, opened, closed, φ => owed enc w (step enc ws (.next w')).1 os opened closed φ
  | ws, .pumpExit w' :: os, opened, closed, φ => owed enc w (step enc ws (.pumpExit w')).1 os opened closed φ

/-- a watcher filter is absent or well-formed -/
def FilterOk : Option Val → Prop
  | none => True
  | some f => wf f = true

/-- every `Watch` of the history has a well-formed filter -/
def GoodWatches (os : List WOp) : Prop := ∀ w φ, WOp.watch w φ ∈ os → FilterOk φ

theorem filterHolds_ref {φ : Option Val} (h : FilterOk φ) (d : PList) : filterHolds φ d = refMatchDoc φ d := by
  cases φ with
  | none => rfl
  | some f =>
    have := matchV_ref f h (some (.map d))
    simp only [valOf, Option.getD_some, Option.isSome_some] at this
    simp [filterHolds, refMatchDoc, this]

/-- the filters are those of the live watcher numbers, each number once, all well-formed; and `w`'s registration
agrees with `opened` -/
structure J (ws : WSt) (w : Nat) (opened : Bool) (φ : Option Val) : Prop where
  idsEq : ws.filters.map (·.1) = ids ws.strm
  nodup : (ws.filters.map (·.1)).Nodup
  ok : ∀ p ∈ ws.filters, FilterOk p.2
  reg : opened = true → (w, φ) ∈ ws.filters
  unreg : opened = false → w ∉ ws.filters.map (·.1)

theorem nodup_fst_unique : ∀ {fs : List (Nat × Option Val)}, (fs.map (·.1)).Nodup → ∀ {w a b}, (w, a) ∈ fs → (w, b) ∈ fs → a = b
  | [], _, _, _, _, h, _ => by simp at h
  | p :: fs, hn, w, a, b, ha, hb => by
    simp only [List.map_cons, List.nodup_cons] at hn
    rcases List.mem_cons.mp ha with h1 | h1 <;> rcases List.mem_cons.mp hb with h2 | h2
    · rw [← h1] at h2; exact (Prod.mk.inj h2).2.symm ▸ rfl
    · exact absurd (by rw [← h1]; exact List.mem_map_of_mem (f := (·.1)) h2) hn.1
    · exact absurd (by rw [← h2]; exact List.mem_map_of_mem (f := (·.1)) h1) hn.1
    · exact nodup_fst_unique hn.2 h1 h2

theorem contains_matchedBy {fs : List (Nat × Option Val)} (hn : (fs.map (·.1)).Nodup) {w : Nat} {φ : Option Val}
    (hm : (w, φ) ∈ fs) (d : PList) : (matchedBy fs d).contains w = filterHolds φ d := by
  rw [Bool.eq_iff_iff]
  simp only [matchedBy, List.contains_eq_mem, decide_eq_true_eq, List.mem_map, List.mem_filter]
  constructor
  · rintro ⟨q, ⟨hq, hf⟩, rfl⟩
    have : q.2 = φ := nodup_fst_unique hn (by simpa using hq) hm
    rw [← this]; exact hf
  · intro hf; exact ⟨(w, φ), ⟨hm, hf⟩, rfl⟩

theorem not_contains_matchedBy {fs : List (Nat × Option Val)} {w : Nat} (h : w ∉ fs.map (·.1)) (d : PList) :
    (matchedBy fs d).contains w = false := by
  unfold matchedBy
  simp only [List.contains_eq_mem, List.mem_map, List.mem_filter, decide_eq_false_iff_not, not_exists, not_and]
  intro q hq he
  exact h (by rw [← he]; exact List.mem_map_of_mem hq.1)

/-- `Stream.expected` over the events of one store operation -/
theorem expected_docs (enc : Val → Nat) (w : Nat) (fs : List (Nat × Option Val)) (opened closed : Bool)
    (sel : PList → Bool) (hsel : ∀ d, (matchedBy fs d).contains w = sel d) (rest : List Stream.Op) :
    ∀ es : List (PList × Nat),
      Stream.expected w (es.map (docOp enc fs) ++ rest) opened closed =
        (if opened ∧ ¬ closed then (es.filter fun e => sel e.1).map (evOf enc) else []) ++
          Stream.expected w rest opened closed
  | [] => by simp
  | e :: es => by
    simp only [List.map_cons, List.cons_append, docOp, Stream.expected]
    have ih := expected_docs enc w fs opened closed sel hsel rest es
    rw [ih, hsel]
    by_cases ho : opened = true ∧ ¬ closed = true
    · by_cases hs : sel e.1 = true
      · simp [ho, hs, evOf]
      · simp [ho, hs]
    · rw [if_neg ho, if_neg ho, if_neg (fun h => ho ⟨h.1, h.2.1⟩)]

/-- the invariant is kept by operations other than `watch w`/changes of `opened` -/
theorem J_store {enc : Val → Nat} {ws : WSt} {w : Nat} {opened : Bool} {φ : Option Val} (h : J ws w opened φ)
    (op : Index.Op) : J (step enc ws (.store op)).1 w opened φ := by
  refine ⟨?_, h.nodup, h.ok, h.reg, h.unreg⟩
  show ws.filters.map (·.1) = ids (Stream.run ws.strm _)
  rw [ids_run_docs]; exact h.idsEq

theorem J_strm {enc : Val → Nat} {ws : WSt} {w : Nat} {opened : Bool} {φ : Option Val} (h : J ws w opened φ)
    {o : WOp} (ho : (∃ w', o = .next w') ∨ (∃ w', o = .close w') ∨ (∃ w', o = .pumpExit w')) :
    J (step enc ws o).1 w opened φ := by
  rcases ho with ⟨w', rfl⟩ | ⟨w', rfl⟩ | ⟨w', rfl⟩ <;>
  · refine ⟨?_, h.nodup, h.ok, h.reg, h.unreg⟩
    simp only [step]
    rw [ids_step]; exact h.idsEq

theorem GoodWatches_tail {o : WOp} {os : List WOp} (h : GoodWatches (o :: os)) : GoodWatches os :=
  fun w φ hm => h w φ (List.mem_cons_of_mem _ hm)

/-- on the trace of a history, `Stream.expected` owes a watcher exactly what the reference evaluation of its filter
selects from the emitted events -/
theorem expected_trace (enc : Val → Nat) (w : Nat) : ∀ (os : List WOp) (ws : WSt) (opened closed : Bool) (φ : Option Val),
    J ws w opened φ → GoodWatches os →
      Stream.expected w (trace enc ws os) opened closed = owed enc w ws os opened closed φ
  | [], _, _, _, _, _, _ => rfl
  | .store op :: os, ws, opened, closed, φ, hj, hg => by
    simp only [trace, strmOps, owed]
    have ih := expected_trace enc w os (step enc ws (.store op)).1 opened closed φ (J_store hj op) (GoodWatches_tail hg)
    cases ho : opened with
    | true =>
      subst ho
      have hm := hj.reg rfl
      rw [expected_docs enc w ws.filters true closed (refMatchDoc φ)
        (fun d => by rw [contains_matchedBy hj.nodup hm, filterHolds_ref (hj.ok _ hm)]), ih]
    | false =>
      subst ho
      rw [expected_docs enc w ws.filters false closed (fun _ => false)
        (fun d => not_contains_matchedBy (hj.unreg rfl) d), ih]
      simp
  | .watch w' φ' :: os, ws, opened, closed, φ, hj, hg => by
    have hφ' : FilterOk φ' := hg w' φ' (by simp)
    simp only [trace, strmOps, owed, List.singleton_append, Stream.expected]
    by_cases hex : (Stream.findW w' ws.strm.streams).isSome = true
    · -- the number is live: nothing changes, and it cannot be the unopened `w`
      have hst : (step enc ws (.watch w' φ')).1 = ws := by simp [step, hex]
      have hin : w' ∈ ws.filters.map (·.1) := by rw [hj.idsEq]; exact (findW_isSome w' ws.strm).mp hex
      have hcond : ¬ (w' = w ∧ ¬ opened = true) := by
        rintro ⟨rfl, hno⟩
        exact hj.unreg (by simpa using hno) hin
      rw [if_neg hcond, if_neg hcond, hst]
      exact expected_trace enc w os ws opened closed φ hj (GoodWatches_tail hg)
    · have hnin : w' ∉ ws.filters.map (·.1) := by
        rw [hj.idsEq]; exact fun hm => hex ((findW_isSome w' ws.strm).mpr hm)
      have hst : (step enc ws (.watch w' φ')).1 =
          { ws with strm := (Stream.step ws.strm (.watch w')).1, filters := ws.filters ++ [(w', φ')] } := by
        simp [step, hex]
      have hids : ids (Stream.step ws.strm (.watch w')).1 = ids ws.strm ++ [w'] := by
        rw [ids_step]
        have : w' ∉ ids ws.strm := by rw [← hj.idsEq]; exact hnin
        simp [this]
      have base : ∀ (op' : Bool) (ψ : Option Val), (op' = true → (w, ψ) ∈ ws.filters ++ [(w', φ')]) →
          (op' = false → w ∉ (ws.filters ++ [(w', φ')]).map (·.1)) →
          J (step enc ws (.watch w' φ')).1 w op' ψ := by
        intro op' ψ h1 h2
        rw [hst]
        refine ⟨?_, ?_, ?_, h1, h2⟩
        · simp only [List.map_append, List.map_cons, List.map_nil, hids, hj.idsEq]
        · simp only [List.map_append, List.map_cons, List.map_nil]
          rw [List.nodup_append]
          exact ⟨hj.nodup, by simp, fun a ha b hb => by simp at hb; subst hb; exact fun he => hnin (he ▸ ha)⟩
        · intro p hp
          rcases List.mem_append.mp hp with hp | hp
          · exact hj.ok p hp
          · simp at hp; subst hp; exact hφ'
      by_cases hcond : w' = w ∧ ¬ opened = true
      · rw [if_pos hcond, if_pos hcond]
        obtain ⟨rfl, hno⟩ := hcond
        exact expected_trace enc w' os _ true closed φ' (base true φ' (fun _ => by simp) (fun h => by cases h))
          (GoodWatches_tail hg)
      · rw [if_neg hcond, if_neg hcond]
        refine expected_trace enc w os _ opened closed φ (base opened φ (fun ho => ?_) (fun ho => ?_)) (GoodWatches_tail hg)
        · exact List.mem_append_left _ (hj.reg ho)
        · simp only [List.map_append, List.map_cons, List.map_nil, List.mem_append, List.mem_singleton, not_or]
          refine ⟨hj.unreg ho, fun he => hcond ⟨he.symm, by simp [ho]⟩⟩
  | .close w' :: os, ws, opened, closed, φ, hj, hg => by
    simp only [trace, strmOps, owed, List.singleton_append, Stream.expected]
    have hj' : J (step enc ws (.close w')).1 w opened φ := J_strm hj (Or.inr (Or.inl ⟨w', rfl⟩))
    by_cases hcond : w' = w ∧ opened = true
    · rw [if_pos hcond, if_pos hcond]
      exact expected_trace enc w os _ opened true φ hj' (GoodWatches_tail hg)
    · rw [if_neg hcond, if_neg hcond]
      exact expected_trace enc w os _ opened closed φ hj' (GoodWatches_tail hg)
  | .next w' :: os, ws, opened, closed, φ, hj, hg => by
    simp only [trace, strmOps, owed, List.singleton_append, Stream.expected]
    exact expected_trace enc w os _ opened closed φ (J_strm hj (Or.inl ⟨w', rfl⟩)) (GoodWatches_tail hg)
  | .pumpExit w' :: os, ws, opened, closed, φ, hj, hg => by
    simp only [trace, strmOps, owed, List.singleton_append, Stream.expected]
    exact expected_trace enc w os _ opened closed φ (J_strm hj (Or.inr (Or.inr ⟨w', rfl⟩))) (GoodWatches_tail hg)

theorem J_init (w : Nat) (φ : Option Val) : J {} w false φ where
  idsEq := rfl
  nodup := List.nodup_nil
  ok := fun _ hp => nomatch hp
  reg := fun h => nomatch h
  unreg := fun _ hm => nomatch hm

end Uniflow.Watch
