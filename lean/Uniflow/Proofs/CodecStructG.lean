/-
The struct decoder lemmas of Proofs/CodecStruct.lean generalised over a map `φ` applied to the values of the
document (`mapVals φ`): `φ = id` is the direct path, `φ = jd` (the JSON form of a value) the JSON path.
The proofs are the same, only `.map φ` is carried along. Core Lean only.
-/
import Uniflow.Proofs.CodecStruct

namespace Uniflow.Codec
open Uniflow.Value

/-- the same document with `f` applied to every value -/
def mapVals (f : Val → Val) : PList → PList
  | .nil => .nil
  | .cons k v ps => .cons k (f v) (mapVals f ps)

theorem find_mapVals (f : Val → Val) (k : Bytes) : ∀ m : PList, mapFind (mapVals f m) k = (mapFind m k).map f
  | .nil => rfl
  | .cons k0 v0 rest => by
    cases k0 <;> simp only [mapVals, mapFind, find_mapVals f k rest]
    split <;> simp

theorem ltAll_mapVals (f : Val → Val) (a : Bytes) : ∀ m : PList, keyLtAll a (mapVals f m) = keyLtAll a m
  | .nil => rfl
  | .cons k0 v0 rest => by cases k0 <;> simp [mapVals, keyLtAll, ltAll_mapVals f a rest]

theorem sorted_mapVals (f : Val → Val) : ∀ m : PList, sortedP (mapVals f m) = sortedP m
  | .nil => rfl
  | .cons k0 v0 rest => by cases k0 <;> simp [mapVals, sortedP, ltAll_mapVals, sorted_mapVals f rest]

theorem mapVals_set (f : Val → Val) (k : Bytes) (x : Val) : ∀ m : PList, mapVals f (mapSet m k x) = mapSet (mapVals f m) k (f x)
  | .nil => rfl
  | .cons k0 v0 rest => by
    cases k0 <;> simp only [mapSet, mapVals, mapVals_set f k x rest]
    split
    · simp [mapVals]
    · split <;> simp [mapVals, mapVals_set f k x rest]

/-- field by field: `ws` is what the struct decoder stores (`final = false`: after `phase1`, inline maps still
hold their placeholder; `final = true`: after `phase2`) -/
def DecG (φ : Val → Val) (final : Bool) : Fields → GoVals → GoVals → Prop
  | .cons m _ t rest, .cons v vs, .cons w ws =>
    (match m, t, v with
     | .named, _, _ => decodeField (decode t) (zero t) (φ (encode t v)) = .ok w
     | .omit, _, _ =>
       decodeField (decode t) (zero t) (if equal (encode t v) (zeroDoc t) then .nil else φ (encode t v)) = .ok w
     | .ignored, _, _ => w = zero t
     | .inline, .struct fs', .struct vs' => ∃ ws', w = .struct ws' ∧ DecG φ final fs' vs' ws'
     | .inline, .map t', v =>
       if final then ∃ kvs', w = .map kvs' ∧ decodeP (decode t') (mapVals φ (encodeKV t' (kvsOf v) .nil)) = .ok kvs'
       else w = .mapNil
     | _, _, _ => True) ∧ DecG φ final rest vs ws
  | .nil, .nil, .nil => True
  | _, _, _ => False

/-- the induction hypothesis of the round trip, per field -/
def FieldsIHG (φ : Val → Val) : Fields → GoVals → Prop
  | .cons m _ t rest, .cons v vs =>
    (match m, t, v with
     | .named, _, _ => ∃ v', decode t (φ (encode t v)) = .ok v'
     | .omit, _, _ => ∃ v', decode t (φ (encode t v)) = .ok v'
     | .inline, .struct fs', .struct vs' => FieldsIHG φ fs' vs'
     | .inline, .map t', .map kvs => ∃ kvs', decodeP (decode t') (mapVals φ (encodeKV t' kvs .nil)) = .ok kvs'
     | _, _, _ => True) ∧ FieldsIHG φ rest vs
  | _, _ => True

theorem decG_final_of_noinl (φ : Val → Val) : (fs : Fields) → (vs ws : GoVals) → inlineMaps fs = 0 → DecG φ false fs vs ws → DecG φ true fs vs ws
  | .nil, vs, ws, _, h => by cases vs <;> cases ws <;> simp_all [DecG]
  | .cons md a t rest, .nil, ws, _, h => by simp [DecG] at h
  | .cons md a t rest, .cons v vs, .nil, _, h => by simp [DecG] at h
  | .cons md a t rest, .cons v vs, .cons w ws, hn, h => by
    cases md
    case inline =>
      cases t <;> simp only [inlineMaps] at hn
      case map => omega
      case struct fs' =>
        have h1 : inlineMaps fs' = 0 := by omega
        have h2 : inlineMaps rest = 0 := by omega
        cases v <;> simp only [DecG] at h ⊢
        case struct vs' =>
          obtain ⟨⟨ws', rfl, hd⟩, hr⟩ := h
          exact ⟨⟨ws', rfl, decG_final_of_noinl φ fs' vs' ws' h1 hd⟩, decG_final_of_noinl φ rest vs ws h2 hr⟩
        all_goals exact ⟨trivial, decG_final_of_noinl φ rest vs ws h2 h.2⟩
      all_goals
        simp only [DecG] at h ⊢
        exact ⟨trivial, decG_final_of_noinl φ rest vs ws hn h.2⟩
    all_goals
      simp only [inlineMaps] at hn
      simp only [DecG] at h ⊢
      exact ⟨h.1, decG_final_of_noinl φ rest vs ws hn h.2⟩


/-- `phase1` on a document that agrees with the struct's encoding on the struct's aliases -/
theorem phase1_okG (φ : Val → Val) : (fs : Fields) → (vs : GoVals) → (m : PList) → Fields.wf fs = true → hasTypeF fs vs = true →
    sortedP m = true → (aliases fs).Nodup → (∀ k ∈ inlineKeys fs vs, k ∉ aliases fs) →
    (∀ a ∈ aliases fs, mapFind m a = (lastF fs vs a).map φ) → FieldsIHG φ fs vs →
    ∃ ws m1, phase1 fs m = .ok (ws, m1) ∧ sortedP m1 = true ∧
      (∀ k, mapFind m1 k = if k ∈ aliases fs then none else mapFind m k) ∧ DecG φ false fs vs ws
  | .nil, .nil, m, _, _, hs, _, _, _, _ => ⟨.nil, m, by simp [phase1], hs, by simp [aliases], by simp [DecG]⟩
  | .nil, .cons _ _, m, _, ht, _, _, _, _, _ => by simp [hasTypeF] at ht
  | .cons md a t rest, .nil, m, _, ht, _, _, _, _, _ => by simp [hasTypeF] at ht
  | .cons md a t rest, .cons v vs, m, hw, ht, hs, hnd, hdj, hag, hih => by
    have sh := fshape hw ht
    simp only [hasTypeF, Bool.and_eq_true] at ht
    cases sh with
    | nam =>
      simp only [Fields.wf, Bool.and_eq_true] at hw
      simp only [aliases, List.nodup_cons] at hnd
      simp only [inlineKeys, aliases, List.mem_cons, not_or] at hdj
      simp only [FieldsIHG] at hih
      have hrn : lastF rest vs a = none :=
        lastF_none a rest vs hw.2 ht.2 hnd.1 (fun hk => (hdj a hk).1 rfl)
      have hfa : mapFind m a = some (φ (encode t v)) := by
        rw [hag a (by simp [aliases])]; simp [lastF, hrn]
      obtain ⟨w, hwd⟩ := decodeField_ok (z := zero t) hih.1
      obtain ⟨ws, m1, hp, hs1, hf1, hd1⟩ := phase1_okG φ rest vs (mapDel m a) hw.2 ht.2 (sorted_del a m hs) hnd.2
        (fun k hk => (hdj k hk).2)
        (by
          intro a' ha'
          have hne : a' ≠ a := by intro e; subst e; exact hnd.1 ha'
          rw [find_del a a' m hs, if_neg hne, hag a' (by simp [aliases, ha'])]
          simp [lastF, hne])
        hih.2
      refine ⟨.cons w ws, m1, ?_, hs1, ?_, ?_⟩
      · simp [phase1, mapGet_of_find hfa, hwd, hp, Res.bind, Res.map]
      · intro k
        rw [hf1 k, find_del a k m hs]
        by_cases e : k = a
        · subst e; simp [aliases]
        · simp [aliases, e]
      · simp only [DecG]; exact ⟨hwd, hd1⟩
    | omi =>
      simp only [Fields.wf, Bool.and_eq_true] at hw
      simp only [aliases, List.nodup_cons] at hnd
      simp only [inlineKeys, aliases, List.mem_cons, not_or] at hdj
      simp only [FieldsIHG] at hih
      have hrn : lastF rest vs a = none :=
        lastF_none a rest vs hw.2 ht.2 hnd.1 (fun hk => (hdj a hk).1 rfl)
      have hga : mapGet m a = (if equal (encode t v) (zeroDoc t) then Val.nil else φ (encode t v)) := by
        have := hag a (by simp [aliases])
        by_cases z : equal (encode t v) (zeroDoc t) = true
        · simp [lastF, hrn, z] at this
          simp only [z, if_true]; exact mapGet_of_none this
        · have z' : equal (encode t v) (zeroDoc t) = false := by simpa using z
          simp [lastF, hrn, z'] at this
          simp only [z', Bool.false_eq_true, if_false]
          exact mapGet_of_find this
      obtain ⟨w, hwd⟩ : ∃ w, decodeField (decode t) (zero t)
          (if equal (encode t v) (zeroDoc t) then Val.nil else φ (encode t v)) = .ok w := by
        split
        · exact ⟨zero t, by simp [decodeField]⟩
        · exact decodeField_ok hih.1
      obtain ⟨ws, m1, hp, hs1, hf1, hd1⟩ := phase1_okG φ rest vs (mapDel m a) hw.2 ht.2 (sorted_del a m hs) hnd.2
        (fun k hk => (hdj k hk).2)
        (by
          intro a' ha'
          have hne : a' ≠ a := by intro e; subst e; exact hnd.1 ha'
          rw [find_del a a' m hs, if_neg hne, hag a' (by simp [aliases, ha'])]
          simp only [lastF]
          split <;> simp [hne])
        hih.2
      refine ⟨.cons w ws, m1, ?_, hs1, ?_, ?_⟩
      · simp [phase1, hga, hwd, hp, Res.bind, Res.map]
      · intro k
        rw [hf1 k, find_del a k m hs]
        by_cases e : k = a
        · subst e; simp [aliases]
        · simp [aliases, e]
      · simp only [DecG]; exact ⟨hwd, hd1⟩
    | ign =>
      simp only [Fields.wf, Bool.and_eq_true] at hw
      simp only [aliases] at hnd hdj hag ⊢
      simp only [inlineKeys] at hdj
      simp only [FieldsIHG] at hih
      obtain ⟨ws, m1, hp, hs1, hf1, hd1⟩ := phase1_okG φ rest vs m hw.2 ht.2 hs hnd hdj
        (by intro a' ha'; rw [hag a' ha']; simp [lastF]) hih.2
      exact ⟨.cons (zero t) ws, m1, by simp [phase1, hp, Res.map], hs1, hf1, by simp [DecG, hd1]⟩
    | istruct fs' vs' =>
      simp only [Fields.wf, Bool.and_eq_true, decide_eq_true_eq] at hw
      simp only [aliases, List.nodup_append] at hnd
      simp only [inlineKeys, aliases, List.mem_append, not_or] at hdj
      simp only [FieldsIHG] at hih
      simp only [hasType, Bool.and_eq_true] at ht
      have hik : inlineKeys fs' vs' = [] := inlineKeys_nil fs' vs' hw.1.2
      obtain ⟨ws1, m1, hp1, hs1, hf1, hd1⟩ := phase1_okG φ fs' vs' m hw.1.1 ht.1.1 hs hnd.1
        (by rw [hik]; simp)
        (by
          intro a' ha'
          rw [hag a' (by simp [aliases, ha'])]
          have : lastF rest vs a' = none :=
            lastF_none a' rest vs hw.2 ht.2 (fun hr => hnd.2.2 a' ha' a' hr rfl) (fun hk => (hdj a' hk).1 ha')
          simp [lastF, this])
        hih.1
      obtain ⟨ws, m2, hp2, hs2, hf2, hd2⟩ := phase1_okG φ rest vs m1 hw.2 ht.2 hs1 hnd.2.1
        (fun k hk => (hdj k hk).2)
        (by
          intro a' ha'
          have hn' : a' ∉ aliases fs' := fun h1 => hnd.2.2 a' h1 a' ha' rfl
          rw [hf1 a', if_neg hn', hag a' (by simp [aliases, ha'])]
          have : lastF fs' vs' a' = none := lastF_none a' fs' vs' hw.1.1 ht.1.1 hn' (by rw [hik]; simp)
          simp [lastF, this])
        hih.2
      refine ⟨.cons (.struct ws1) ws, m2, ?_, hs2, ?_, ?_⟩
      · simp [phase1, hp1, phase2_noinl fs' ws1 m1 hw.1.2, hp2, Res.bind, Res.map]
      · intro k
        rw [hf2 k, hf1 k]
        by_cases e1 : k ∈ aliases fs' <;> by_cases e2 : k ∈ aliases rest <;> simp [aliases, e1, e2]
      · simp only [DecG]; exact ⟨⟨ws1, rfl, hd1⟩, hd2⟩
    | imap t' kvs =>
      simp only [Fields.wf, Bool.and_eq_true] at hw
      simp only [aliases] at hnd hag ⊢
      simp only [inlineKeys, aliases, List.mem_append] at hdj
      simp only [FieldsIHG] at hih
      obtain ⟨ws, m1, hp, hs1, hf1, hd1⟩ := phase1_okG φ rest vs m hw.2 ht.2 hs hnd
        (fun k hk => hdj k (Or.inr hk))
        (by
          intro a' ha'
          rw [hag a' ha']
          have : lastKV t' kvs a' = none :=
            lastKV_none_of_not_mem t' a' kvs (fun hk => hdj a' (Or.inl hk) ha')
          simp [lastF, this])
        hih.2
      exact ⟨.cons .mapNil ws, m1, by simp [phase1, zero, hp, Res.map], hs1, hf1, by simp only [DecG]; exact ⟨by simp, hd1⟩⟩
    | imapNil t' =>
      simp only [Fields.wf, Bool.and_eq_true] at hw
      simp only [aliases] at hnd hag hdj ⊢
      simp only [inlineKeys] at hdj
      simp only [FieldsIHG] at hih
      obtain ⟨ws, m1, hp, hs1, hf1, hd1⟩ := phase1_okG φ rest vs m hw.2 ht.2 hs hnd hdj
        (by intro a' ha'; rw [hag a' ha']; simp [lastF]) hih.2
      exact ⟨.cons .mapNil ws, m1, by simp [phase1, zero, hp, Res.map], hs1, hf1, by simp only [DecG]; exact ⟨by simp, hd1⟩⟩


theorem phase2_okG (φ : Val → Val) : (fs : Fields) → (vs ws : GoVals) → Fields.wf fs = true → hasTypeF fs vs = true →
    inlineMaps fs ≤ 1 → DecG φ false fs vs ws → FieldsIHG φ fs vs →
    ∃ ws2 m2, phase2 fs ws (mapVals φ (inlDoc fs vs)) = .ok (ws2, m2) ∧ DecG φ true fs vs ws2
  | .nil, .nil, .nil, _, _, _, _, _ => ⟨.nil, mapVals φ (inlDoc .nil .nil), by simp [phase2], by simp [DecG]⟩
  | .nil, .nil, .cons _ _, _, _, _, hd, _ => by simp [DecG] at hd
  | .nil, .cons _ _, _, _, ht, _, _, _ => by simp [hasTypeF] at ht
  | .cons md a t rest, .nil, _, _, ht, _, _, _ => by simp [hasTypeF] at ht
  | .cons md a t rest, .cons v vs, .nil, _, _, _, hd, _ => by simp [DecG] at hd
  | .cons md a t rest, .cons v vs, .cons w ws, hw, ht, hn, hd, hih => by
    have sh := fshape hw ht
    simp only [hasTypeF, Bool.and_eq_true] at ht
    cases sh with
    | nam =>
      simp only [Fields.wf, Bool.and_eq_true] at hw
      simp only [inlineMaps] at hn
      simp only [DecG] at hd
      simp only [FieldsIHG] at hih
      obtain ⟨ws2, m2, hp, hd2⟩ := phase2_okG φ rest vs ws hw.2 ht.2 hn hd.2 hih.2
      exact ⟨.cons w ws2, m2, by simp [phase2, inlDoc, hp, Res.map], by simp only [DecG]; exact ⟨hd.1, hd2⟩⟩
    | omi =>
      simp only [Fields.wf, Bool.and_eq_true] at hw
      simp only [inlineMaps] at hn
      simp only [DecG] at hd
      simp only [FieldsIHG] at hih
      obtain ⟨ws2, m2, hp, hd2⟩ := phase2_okG φ rest vs ws hw.2 ht.2 hn hd.2 hih.2
      exact ⟨.cons w ws2, m2, by simp [phase2, inlDoc, hp, Res.map], by simp only [DecG]; exact ⟨hd.1, hd2⟩⟩
    | ign =>
      simp only [Fields.wf, Bool.and_eq_true] at hw
      simp only [inlineMaps] at hn
      simp only [DecG] at hd
      simp only [FieldsIHG] at hih
      obtain ⟨ws2, m2, hp, hd2⟩ := phase2_okG φ rest vs ws hw.2 ht.2 hn hd.2 hih.2
      exact ⟨.cons w ws2, m2, by simp [phase2, inlDoc, hp, Res.map], by simp only [DecG]; exact ⟨hd.1, hd2⟩⟩
    | istruct fs' vs' =>
      simp only [Fields.wf, Bool.and_eq_true, decide_eq_true_eq] at hw
      simp only [inlineMaps] at hn
      simp only [DecG] at hd
      simp only [FieldsIHG] at hih
      obtain ⟨⟨ws', rfl, hd'⟩, hdr⟩ := hd
      obtain ⟨ws2, m2, hp, hd2⟩ := phase2_okG φ rest vs ws hw.2 ht.2 (by omega) hdr hih.2
      exact ⟨.cons (.struct ws') ws2, m2, by simp [phase2, inlDoc, hp, Res.map],
        by simp only [DecG]; exact ⟨⟨ws', rfl, decG_final_of_noinl φ fs' vs' ws' hw.1.2 hd'⟩, hd2⟩⟩
    | imap t' kvs =>
      simp only [Fields.wf, Bool.and_eq_true] at hw
      simp only [inlineMaps] at hn
      simp only [DecG] at hd
      simp only [FieldsIHG] at hih
      have hr0 : inlineMaps rest = 0 := by omega
      obtain ⟨kvs', hdk⟩ := hih.1
      refine ⟨.cons (.map kvs') ws, .nil, ?_, ?_⟩
      · simp [phase2, inlDoc, kvsOf, hdk, phase2_noinl rest ws .nil hr0, Res.bind, Res.map]
      · simp only [DecG]
        exact ⟨by simp [kvsOf, hdk], decG_final_of_noinl φ rest vs ws hr0 hd.2⟩
    | imapNil t' =>
      simp only [Fields.wf, Bool.and_eq_true] at hw
      simp only [inlineMaps] at hn
      simp only [DecG] at hd
      have hr0 : inlineMaps rest = 0 := by omega
      refine ⟨.cons (.map .nil) ws, .nil, ?_, ?_⟩
      · simp [phase2, inlDoc, kvsOf, encodeKV, mapVals, decodeP, phase2_noinl rest ws .nil hr0, Res.bind, Res.map]
      · simp only [DecG]
        exact ⟨by simp [kvsOf, encodeKV, mapVals, decodeP], decG_final_of_noinl φ rest vs ws hr0 hd.2⟩


end Uniflow.Codec
