/-
Index independence (Props/C11.lean `find_index_independent`): two histories with the same data operations (Insert,
Update, Delete, Find) and arbitrary non-unique `Index` / `Unindex` operations interleaved anywhere (or not at all)
answer every data operation alike and store the same documents. Core Lean only.

A *unique* index is meant to change outcomes (it rejects documents); what a rejection leaves behind is C12's. The only
unique index allowed here is therefore the built-in one on `id` (which may also be dropped or replaced).
-/
import Uniflow.Proofs.Char

namespace Uniflow.Index
open Uniflow.Value Uniflow.Store Uniflow.Plan Uniflow.Query

/-! ### the only unique index is the built-in one -/

def UniqBuiltin (s : State) : Prop := ∀ idx ∈ s.indexes, idx.unique = true → idx.keys = [keyId] ∧ idx.filter = none

def NonUniqueOp : Op → Prop
  | .index _ u _ => u = false
  | _ => True

theorem UniqBuiltin_step {s : State} {op : Op} (hs : UniqBuiltin s) (ho : NonUniqueOp op) : UniqBuiltin (step s op).1 := by
  intro i' hi' hu
  rcases step_shape s op i' hi' with ⟨idx, hi, hsame⟩ | ⟨keys, u, f, rfl, _, hu', _⟩
  · rw [hsame.1, hsame.2.2]
    exact hs idx hi (by rw [← hsame.2.1]; exact hu)
  · simp only [NonUniqueOp] at ho
    rw [ho] at hu'; rw [hu] at hu'; cases hu'

/-- the built-in id index never objects: ids are checked against the primary tree before -/
theorem firstConflict_builtin {s : State} (hc : Cons s) (hu : UniqBuiltin s) (d : PList) :
    firstConflict d s.indexes = none := by
  have key : ∀ idx ∈ s.indexes, conflict idx d = none := by
    intro idx hi
    unfold conflict
    by_cases hun : idx.unique = true
    · obtain ⟨hk, hf⟩ := hu idx hi hun
      have hadm : idx.admits d = true := by unfold Index.admits; rw [hf]
      simp only [hun, hadm, Bool.not_true, Bool.or_self, Bool.false_eq_true, if_false]
      split
      · next hany =>
        exfalso
        simp only [List.any_eq_true, Bool.and_eq_true, decide_eq_true_eq, bne_iff_ne, ne_eq] at hany
        obtain ⟨e, he, ht, hne⟩ := hany
        obtain ⟨d', hd', ht'⟩ := hc.exact idx hi e he
        have hid' := (StoredM_ids hc.stored _ _ hd').2
        have h1 : tupCmp (idx.tuple d') (idx.tuple d) = 0 := tupCmp_zero_trans (tupCmp_zero_symm ht') ht
        simp only [Index.tuple, hk, List.map_cons, List.map_nil, tupCmp] at h1
        rw [lexStep_zero] at h1
        exact hne (cmp_zero_trans (cmp_zero_symm hid') h1.1)
      · rfl
    · simp [hun]
  revert key
  generalize s.indexes = idxs
  intro key
  induction idxs with
  | nil => rfl
  | cons i rest ih =>
    simp only [firstConflict, key i (by simp)]
    exact ih (fun idx hi => key idx (by simp [hi]))

/-! ### the invariant under which outcomes depend on the documents only -/

structure Inv2 (s : State) : Prop where
  full : Full s
  good : GoodState s
  uniq : UniqBuiltin s

theorem Inv2_step {s : State} {op : Op} (h : Inv2 s) (hg : GoodOp op) (hn : NonUniqueOp op) : Inv2 (step s op).1 :=
  ⟨Full_step op h.full, GoodState_step h.good hg, UniqBuiltin_step h.uniq hn⟩

theorem Inv2_of_shaped {s s' : State} (h : Inv2 s) (hf : Full s') (hs : Shaped s s') : Inv2 s' := by
  refine ⟨hf, fun i' hi' => ?_, fun i' hi' hu => ?_⟩
  · obtain ⟨idx, hi, hsame⟩ := hs i' hi'
    exact GoodIdx_same hsame (h.good idx hi)
  · obtain ⟨idx, hi, hsame⟩ := hs i' hi'
    rw [hsame.1, hsame.2.2]
    exact h.uniq idx hi (by rw [← hsame.2.1]; exact hu)

/-! ### `find` -/

/-- `find` as a function of the stored documents -/
def findDocs (docs : List (Val × PList)) : Option Val → Res (List PList)
  | none => .ok (docs.map (·.2))
  | some f =>
    match validate f with
    | some e => .err e
    | none => .ok ((docs.map (·.2)).filter fun d => refMatch (some (.map d)) f)

theorem find_docs {s : State} (h : Inv2 s) (f : Option Val) : find s f = findDocs s.docs f := by
  cases f with
  | none => rfl
  | some g =>
    cases hv : validate g with
    | some e => simp [find, findDocs, hv]
    | none =>
      have hw : wf g = true := by have := validate_wf g; rw [hv] at this; simpa using this.symm
      rw [find_ref h.full h.good hw]
      simp [findDocs, hv]

/-! ### the segment calls and the loops -/

theorem segStore_det {s1 s2 : State} (h1 : Inv2 s1) (h2 : Inv2 s2) (hd : s1.docs = s2.docs) (d : PList) :
    (segStore s1 d).2 = (segStore s2 d).2 ∧ (segStore s1 d).1.docs = (segStore s2 d).1.docs := by
  have c1 := segStore_char h1.full.cons d
  have c2 := segStore_char h2.full.cons d
  rw [firstConflict_builtin h1.full.cons h1.uniq] at c1
  rw [firstConflict_builtin h2.full.cons h2.uniq] at c2
  rw [c1.1, c1.2, c2.1, c2.2, hd]
  exact ⟨rfl, rfl⟩

theorem segSwap_det {s1 s2 : State} (h1 : Inv2 s1) (h2 : Inv2 s2) (hd : s1.docs = s2.docs) (d : PList) :
    (segSwap s1 d).2 = (segSwap s2 d).2 ∧ (segSwap s1 d).1.docs = (segSwap s2 d).1.docs := by
  have c1 := segSwap_char h1.full.cons d
  have c2 := segSwap_char h2.full.cons d
  rw [firstConflict_builtin h1.full.cons h1.uniq] at c1
  rw [firstConflict_builtin h2.full.cons h2.uniq] at c2
  rw [c1.1, c1.2, c2.1, c2.2, hd]
  exact ⟨rfl, rfl⟩

theorem segDelete_det {s1 s2 : State} (h1 : Inv2 s1) (h2 : Inv2 s2) (hd : s1.docs = s2.docs) (id : Val) :
    (segDelete s1 id).2 = (segDelete s2 id).2 ∧ (segDelete s1 id).1.docs = (segDelete s2 id).1.docs := by
  have c1 := segDelete_char h1.full.cons id
  have c2 := segDelete_char h2.full.cons id
  rw [c1.1, c1.2, c2.1, c2.2, hd]
  exact ⟨rfl, rfl⟩

theorem Inv2_segStore {s : State} (h : Inv2 s) (d : PList) : Inv2 (segStore s d).1 :=
  Inv2_of_shaped h (Full_segStore d h.full) (Shaped_segStore s d)
theorem Inv2_segSwap {s : State} (h : Inv2 s) (d : PList) : Inv2 (segSwap s d).1 :=
  Inv2_of_shaped h (Full_segSwap d h.full) (Shaped_segSwap s d)
theorem Inv2_segDelete {s : State} (h : Inv2 s) (id : Val) : Inv2 (segDelete s id).1 :=
  Inv2_of_shaped h (Full_segDelete id h.full) (Shaped_segDelete s id)

theorem storeInsert_det : ∀ (ds : List PList) {s1 s2 : State}, Inv2 s1 → Inv2 s2 → s1.docs = s2.docs →
    (storeInsert s1 ds).2 = (storeInsert s2 ds).2 ∧ (storeInsert s1 ds).1.docs = (storeInsert s2 ds).1.docs
  | [], _, _, _, _, hd => ⟨rfl, hd⟩
  | d :: ds, s1, s2, h1, h2, hd => by
    have hdet := segStore_det h1 h2 hd d
    have i1 := Inv2_segStore h1 d
    have i2 := Inv2_segStore h2 d
    simp only [storeInsert]
    cases r1 : segStore s1 d with
    | mk a1 e1 =>
      cases r2 : segStore s2 d with
      | mk a2 e2 =>
        rw [r1, r2] at hdet
        rw [r1] at i1; rw [r2] at i2
        simp only at hdet
        obtain ⟨he, hdd⟩ := hdet
        subst he
        cases e1 with
        | none => exact storeInsert_det ds i1 i2 hdd
        | some r => exact ⟨rfl, hdd⟩

theorem swapAll_det : ∀ (ds : List PList) {s1 s2 : State}, Inv2 s1 → Inv2 s2 → s1.docs = s2.docs →
    (swapAll s1 ds).2 = (swapAll s2 ds).2 ∧ (swapAll s1 ds).1.docs = (swapAll s2 ds).1.docs
  | [], _, _, _, _, hd => ⟨rfl, hd⟩
  | d :: ds, s1, s2, h1, h2, hd => by
    have hdet := segSwap_det h1 h2 hd d
    have i1 := Inv2_segSwap h1 d
    have i2 := Inv2_segSwap h2 d
    simp only [swapAll]
    cases r1 : segSwap s1 d with
    | mk a1 e1 =>
      cases r2 : segSwap s2 d with
      | mk a2 e2 =>
        rw [r1, r2] at hdet
        rw [r1] at i1; rw [r2] at i2
        simp only at hdet
        obtain ⟨he, hdd⟩ := hdet
        subst he
        cases e1 with
        | none => exact swapAll_det ds i1 i2 hdd
        | some r => exact ⟨rfl, hdd⟩

theorem deleteAll_det : ∀ (ds : List PList) {s1 s2 : State}, Inv2 s1 → Inv2 s2 → s1.docs = s2.docs →
    (deleteAll s1 ds).2 = (deleteAll s2 ds).2 ∧ (deleteAll s1 ds).1.docs = (deleteAll s2 ds).1.docs
  | [], _, _, _, _, hd => ⟨rfl, hd⟩
  | d :: ds, s1, s2, h1, h2, hd => by
    have hdet := segDelete_det h1 h2 hd (mget d keyId)
    have i1 := Inv2_segDelete h1 (mget d keyId)
    have i2 := Inv2_segDelete h2 (mget d keyId)
    simp only [deleteAll]
    cases r1 : segDelete s1 (mget d keyId) with
    | mk a1 e1 =>
      cases r2 : segDelete s2 (mget d keyId) with
      | mk a2 e2 =>
        rw [r1, r2] at hdet
        rw [r1] at i1; rw [r2] at i2
        simp only at hdet
        obtain ⟨he, hdd⟩ := hdet
        subst he
        cases e1 with
        | none => exact deleteAll_det ds i1 i2 hdd
        | some r => exact ⟨rfl, hdd⟩

theorem liftN_det {m1 m2 : Mut} (n : Nat) (h : m1.2 = m2.2 ∧ m1.1.docs = m2.1.docs) :
    (liftN m1 n).2 = (liftN m2 n).2 ∧ (liftN m1 n).1.docs = (liftN m2 n).1.docs := by
  obtain ⟨a1, e1⟩ := m1
  obtain ⟨a2, e2⟩ := m2
  simp only at h
  obtain ⟨rfl, hd⟩ := h
  cases e1 with
  | none => exact ⟨rfl, hd⟩
  | some r => cases r <;> exact ⟨rfl, hd⟩

theorem storeUpdate_det {s1 s2 : State} (h1 : Inv2 s1) (h2 : Inv2 s2) (hd : s1.docs = s2.docs) (f : Option Val)
    (u : PList) (up : Bool) :
    (storeUpdate s1 f u up).2 = (storeUpdate s2 f u up).2 ∧
      (storeUpdate s1 f u up).1.docs = (storeUpdate s2 f u up).1.docs := by
  unfold storeUpdate
  rw [find_docs h1, find_docs h2, hd]
  cases findDocs s2.docs f with
  | err e => exact ⟨rfl, hd⟩
  | panic => exact ⟨rfl, hd⟩
  | ok docs =>
    simp only
    cases patch .nil u with
    | err e => exact ⟨rfl, hd⟩
    | panic => exact ⟨rfl, hd⟩
    | ok _ =>
      simp only
      split
      · split
        · next d _ =>
          cases patch d u with
          | ok d' => exact liftN_det 1 (segStore_det h1 h2 hd d')
          | err e => exact ⟨rfl, hd⟩
          | panic => exact ⟨rfl, hd⟩
        all_goals exact ⟨rfl, hd⟩
      · cases patchAll u docs with
        | ok ds => exact liftN_det _ (swapAll_det ds h1 h2 hd)
        | err e => exact ⟨rfl, hd⟩
        | panic => exact ⟨rfl, hd⟩

theorem storeDelete_det {s1 s2 : State} (h1 : Inv2 s1) (h2 : Inv2 s2) (hd : s1.docs = s2.docs) (f : Option Val) :
    (storeDelete s1 f).2 = (storeDelete s2 f).2 ∧ (storeDelete s1 f).1.docs = (storeDelete s2 f).1.docs := by
  unfold storeDelete
  rw [find_docs h1, find_docs h2, hd]
  cases findDocs s2.docs f with
  | err e => exact ⟨rfl, hd⟩
  | panic => exact ⟨rfl, hd⟩
  | ok docs => exact liftN_det _ (deleteAll_det docs h1 h2 hd)

/-! ### histories -/

def isIdxOp : Op → Bool
  | .index _ _ _ => true
  | .unindex _ => true
  | _ => false

/-- the history without its `Index` / `Unindex` operations -/
def dataOps (ops : List Op) : List Op := ops.filter (fun op => !isIdxOp op)

/-- what the data operations of a history answer, in order -/
def outs (s : State) : List Op → List Out
  | [] => []
  | op :: ops => if isIdxOp op then outs (step s op).1 ops else (step s op).2 :: outs (step s op).1 ops

/-- the answer of a `Find` -/
def findOut : Res (List PList) → Out
  | .ok ds => .docs ds
  | .err e => .err e
  | .panic => .panic

/-- a data operation answers, and changes the documents, as a function of the documents -/
theorem step_data_det {s1 s2 : State} (h1 : Inv2 s1) (h2 : Inv2 s2) (hd : s1.docs = s2.docs) {op : Op}
    (hop : isIdxOp op = false) : (step s1 op).2 = (step s2 op).2 ∧ (step s1 op).1.docs = (step s2 op).1.docs := by
  cases op with
  | insert ds =>
    have := storeInsert_det ds h1 h2 hd
    simp only [step]; rw [this.1]; exact ⟨rfl, this.2⟩
  | update f u up =>
    have := storeUpdate_det h1 h2 hd f u up
    simp only [step]; rw [this.1]; exact ⟨rfl, this.2⟩
  | delete f =>
    have := storeDelete_det h1 h2 hd f
    simp only [step]; rw [this.1]; exact ⟨rfl, this.2⟩
  | find f sort skip limit =>
    have e1 : ∀ s : State, (step s (.find f sort skip limit)).1 = s := by
      intro s; simp only [step]; split <;> rfl
    have e2 : ∀ s : State, (step s (.find f sort skip limit)).2 = findOut (storeFind s f sort skip limit) := by
      intro s; simp only [step]; split <;> simp_all [findOut]
    have e3 : storeFind s1 f sort skip limit = storeFind s2 f sort skip limit := by
      simp only [storeFind]; rw [find_docs h1, find_docs h2, hd]
    rw [e1, e1, e2, e2, e3]
    exact ⟨rfl, hd⟩
  | index _ _ _ => simp [isIdxOp] at hop
  | unindex _ => simp [isIdxOp] at hop

theorem step_idx_docs (s : State) {op : Op} (hop : isIdxOp op = true) : (step s op).1.docs = s.docs := by
  cases op with
  | index keys u f =>
    simp only [step, storeIndex]
    split <;> rfl
  | unindex keys => rfl
  | _ => simp [isIdxOp] at hop

/-- a history answers its data operations like the history without its index operations -/
theorem run_strip : ∀ (ops : List Op) {s s0 : State}, Inv2 s → Inv2 s0 → s.docs = s0.docs →
    (∀ op ∈ ops, GoodOp op ∧ NonUniqueOp op) →
    outs s ops = outs s0 (dataOps ops) ∧ (run s ops).docs = (run s0 (dataOps ops)).docs
  | [], _, _, _, _, hd, _ => ⟨rfl, hd⟩
  | op :: ops, s, s0, h, h0, hd, hops => by
    have hop := hops op (by simp)
    have hrest : ∀ o ∈ ops, GoodOp o ∧ NonUniqueOp o := fun o ho => hops o (by simp [ho])
    cases hi : isIdxOp op with
    | true =>
      have hd' : (step s op).1.docs = s0.docs := by rw [step_idx_docs s hi]; exact hd
      have := run_strip ops (Inv2_step h hop.1 hop.2) h0 hd' hrest
      simp only [outs, hi, if_true, run, dataOps, List.filter_cons, Bool.not_true, Bool.false_eq_true, if_false]
      exact this
    | false =>
      have hdet := step_data_det h h0 hd hi
      have := run_strip ops (Inv2_step h hop.1 hop.2) (Inv2_step h0 hop.1 hop.2) hdet.2 hrest
      simp only [outs, hi, Bool.false_eq_true, if_false, run, dataOps, List.filter_cons, Bool.not_false, if_true]
      rw [hdet.1]
      exact ⟨by rw [this.1]; rfl, this.2⟩

theorem Inv2_init : Inv2 init := by
  refine ⟨Full_init, GoodState_init, ?_⟩
  intro idx hi _
  simp [init] at hi
  subst hi
  exact ⟨rfl, rfl⟩

end Uniflow.Index
