/-
Helper lemmas and the inductive invariant for the process machine (`Uniflow.Process`).
Token conservation: every registration token is, at every time, in exactly one of
  * the `exitHooks` of a process,
  * the not-yet-run part of one frame of one thread,
  * the run log.
-/
import Uniflow.Model.Process

namespace Uniflow.Process

/-! ### finite sums over `0 … n-1` -/

def sumTo : Nat → (Nat → Nat) → Nat
  | 0, _ => 0
  | n + 1, f => sumTo n f + f n

theorem sumTo_congr {n : Nat} {f g : Nat → Nat} (h : ∀ i, i < n → f i = g i) : sumTo n f = sumTo n g := by
  induction n with
  | zero => rfl
  | succ n ih =>
    simp only [sumTo]
    rw [ih (fun i hi => h i (by omega)), h n (by omega)]

theorem sumTo_upd {α : Type} (m : Nat → α) (F : α → Nat) (i n : Nat) (x : α) (h : i < n) :
    sumTo n (fun j => F (upd m i x j)) + F (m i) = sumTo n (fun j => F (m j)) + F x := by
  induction n with
  | zero => omega
  | succ n ih =>
    simp only [sumTo]
    by_cases hi : i = n
    · subst hi
      have h1 : sumTo i (fun j => F (upd m i x j)) = sumTo i (fun j => F (m j)) :=
        sumTo_congr (fun j hj => by have : j ≠ i := by omega
                                    simp [upd, this])
      rw [h1]; simp [upd]; omega
    · have := ih (by omega)
      have h2 : upd m i x n = m n := by have : n ≠ i := by omega
                                        simp [upd, this]
      rw [h2]; omega

theorem sumTo_upd_ge {α : Type} (m : Nat → α) (F : α → Nat) (i n : Nat) (x : α) (h : n ≤ i) :
    sumTo n (fun j => F (upd m i x j)) = sumTo n (fun j => F (m j)) :=
  sumTo_congr (fun j hj => by have : j ≠ i := by omega
                              simp [upd, this])

theorem sumTo_eq_zero {n : Nat} {f : Nat → Nat} (h : ∀ i, i < n → f i = 0) : sumTo n f = 0 := by
  induction n with
  | zero => rfl
  | succ n ih => simp only [sumTo]; rw [ih (fun i hi => h i (by omega)), h n (by omega)]

theorem sumTo_ge {n : Nat} {f : Nat → Nat} {i : Nat} (h : i < n) : f i ≤ sumTo n f := by
  induction n with
  | zero => omega
  | succ n ih =>
    simp only [sumTo]
    by_cases hi : i = n
    · subst hi; omega
    · have := ih (by omega); omega

theorem sumTo_pos {n : Nat} {f : Nat → Nat} (h : 0 < sumTo n f) : ∃ i, i < n ∧ 0 < f i := by
  induction n with
  | zero => simp [sumTo] at h
  | succ n ih =>
    simp only [sumTo] at h
    by_cases hn : 0 < f n
    · exact ⟨n, by omega, hn⟩
    · obtain ⟨i, hi, hf⟩ := ih (by omega)
      exact ⟨i, by omega, hf⟩

theorem sumTo_ge_two {n : Nat} {f : Nat → Nat} {i j : Nat} (hi : i < n) (hj : j < n) (hij : i ≠ j) :
    f i + f j ≤ sumTo n f := by
  induction n with
  | zero => omega
  | succ n ih =>
    simp only [sumTo]
    by_cases h1 : i = n
    · subst h1
      have := sumTo_ge (f := f) (i := j) (n := i) (by omega); omega
    · by_cases h2 : j = n
      · subst h2
        have := sumTo_ge (f := f) (i := i) (n := j) (by omega); omega
      · have := ih (by omega) (by omega); omega

/-! ### token counts -/

def cntH (k : Nat) (hs : List Hook) : Nat := hs.countP (fun h => h.tok == k)

def cntS (k : Nat) : List Frame → Nat
  | [] => 0
  | f :: r => cntH k f.rem + cntS k r

def cntL (k : Nat) (l : List LogE) : Nat := l.countP (fun e => e.tok == k)

def hooksCount (k : Nat) (s : State) : Nat := sumTo s.np (fun p => cntH k (s.procs p).hooks)
def framesCount (k : Nat) (s : State) : Nat := sumTo s.nt (fun t => cntS k (s.threads t).stack)
def total (k : Nat) (s : State) : Nat := hooksCount k s + framesCount k s + cntL k s.log

@[simp] theorem cntH_nil (k : Nat) : cntH k [] = 0 := rfl
@[simp] theorem cntH_cons (k : Nat) (h : Hook) (hs : List Hook) :
    cntH k (h :: hs) = cntH k hs + (if h.tok = k then 1 else 0) := by
  simp [cntH, List.countP_cons]
@[simp] theorem cntH_append (k : Nat) (a b : List Hook) : cntH k (a ++ b) = cntH k a + cntH k b := by
  simp [cntH, List.countP_append]
@[simp] theorem cntH_reverse (k : Nat) (a : List Hook) : cntH k a.reverse = cntH k a := by
  simp [cntH]
@[simp] theorem cntL_cons (k : Nat) (e : LogE) (l : List LogE) :
    cntL k (e :: l) = cntL k l + (if e.tok = k then 1 else 0) := by
  simp [cntL, List.countP_cons]

theorem cntH_pos {k : Nat} {hs : List Hook} (h : 0 < cntH k hs) : ∃ x ∈ hs, x.tok = k := by
  simp only [cntH, List.countP_pos_iff] at h
  obtain ⟨x, hx, hk⟩ := h
  exact ⟨x, hx, by simpa using hk⟩

theorem cntH_zero {k : Nat} {hs : List Hook} (h : ∀ x ∈ hs, x.tok ≠ k) : cntH k hs = 0 := by
  simp only [cntH, List.countP_eq_zero]
  intro x hx; simpa using h x hx

theorem cntS_pos {k : Nat} {st : List Frame} (h : 0 < cntS k st) : ∃ f ∈ st, ∃ x ∈ f.rem, x.tok = k := by
  induction st with
  | nil => simp [cntS] at h
  | cons f r ih =>
    simp only [cntS] at h
    by_cases h1 : 0 < cntH k f.rem
    · obtain ⟨x, hx, hk⟩ := cntH_pos h1
      exact ⟨f, by simp, x, hx, hk⟩
    · obtain ⟨g, hg, x, hx, hk⟩ := ih (by omega)
      exact ⟨g, by simp [hg], x, hx, hk⟩

theorem cntL_pos {k : Nat} {l : List LogE} (h : 0 < cntL k l) : ∃ e ∈ l, e.tok = k := by
  simp only [cntL, List.countP_pos_iff] at h
  obtain ⟨x, hx, hk⟩ := h
  exact ⟨x, hx, by simpa using hk⟩

theorem cntH_mem_pos {k : Nat} {hs : List Hook} {x : Hook} (hx : x ∈ hs) (hk : x.tok = k) : 0 < cntH k hs := by
  simp only [cntH, List.countP_pos_iff]
  exact ⟨x, hx, by simpa using hk⟩

theorem cntS_mem_pos {k : Nat} {st : List Frame} {f : Frame} {x : Hook} (hf : f ∈ st) (hx : x ∈ f.rem)
    (hk : x.tok = k) : 0 < cntS k st := by
  induction st with
  | nil => simp at hf
  | cons g r ih =>
    simp only [cntS]
    rcases List.mem_cons.mp hf with e | e
    · subst e; have := cntH_mem_pos hx hk; omega
    · have := ih e; omega

theorem cntL_mem_pos {k : Nat} {l : List LogE} {e : LogE} (he : e ∈ l) (hk : e.tok = k) : 0 < cntL k l := by
  simp only [cntL, List.countP_pos_iff]
  exact ⟨e, he, by simpa using hk⟩

end Uniflow.Process

namespace Uniflow.Process

@[simp] theorem upd_same {α : Type} (m : Nat → α) (i : Nat) (x : α) : upd m i x i = x := by simp [upd]
theorem upd_other {α : Type} (m : Nat → α) {i j : Nat} (x : α) (h : j ≠ i) : upd m i x j = m j := by simp [upd, h]

/-! ### the basic invariant -/

structure Good (s : State) : Prop where
  cons : ∀ k, (k < s.nextTok → total k s = 1) ∧ (s.nextTok ≤ k → total k s = 0)
  hooksRun : ∀ p, p < s.np → (s.procs p).terminated = true → (s.procs p).hooks = []
  hooksOK : ∀ p h, p < s.np → h ∈ (s.procs p).hooks →
    s.owner h.tok = p ∧ ∀ c, h.kind = .child c → c < s.np
  frameOK : ∀ t f, t < s.nt → f ∈ (s.threads t).stack → f.proc < s.np ∧ ∀ h, h ∈ f.rem →
    (s.procs f.proc).terminated = true ∧ f.err = (s.procs f.proc).err ∧ s.owner h.tok = f.proc ∧
      ∀ c, h.kind = .child c → c < s.np
  logOK : ∀ e, e ∈ s.log → e.proc < s.np ∧ (s.procs e.proc).terminated = true ∧
    e.err = (s.procs e.proc).err ∧ s.owner e.tok = e.proc
  doneOK : ∀ p, p < s.np → (s.procs p).done = (s.procs p).terminated
  pcOK : ∀ t p, (s.threads t).pc = .forkReg p → p < s.np

theorem good_init (nt : Nat) : Good (init nt) := by
  refine ⟨?_, ?_, ?_, ?_, ?_, ?_, ?_⟩
  · intro k
    have h1 : hooksCount k (init nt) = 0 := by simp [hooksCount, init, sumTo]
    have h2 : framesCount k (init nt) = 0 := by
      simp only [framesCount, init]; exact sumTo_eq_zero (fun i _ => by simp [cntS])
    simp only [total, h1, h2]
    simp [init, cntL]
  all_goals simp [init]

/-- tokens that are located somewhere are allocated -/
theorem Good.hook_lt {s : State} (g : Good s) {p : Nat} {h : Hook} (hp : p < s.np) (hh : h ∈ (s.procs p).hooks) :
    h.tok < s.nextTok := by
  have h1 := g.cons h.tok
  by_cases hlt : h.tok < s.nextTok
  · exact hlt
  · have h1 := h1.2 (by omega)
    have h2 : 0 < cntH h.tok (s.procs p).hooks := cntH_mem_pos hh rfl
    have h3 := sumTo_ge (f := fun p => cntH h.tok (s.procs p).hooks) hp
    simp only [total, hooksCount] at h1
    omega

theorem Good.frame_lt {s : State} (g : Good s) {t : Nat} {f : Frame} {h : Hook} (ht : t < s.nt)
    (hf : f ∈ (s.threads t).stack) (hh : h ∈ f.rem) : h.tok < s.nextTok := by
  have h1 := g.cons h.tok
  by_cases hlt : h.tok < s.nextTok
  · exact hlt
  · have h1 := h1.2 (by omega)
    have h2 : 0 < cntS h.tok (s.threads t).stack := cntS_mem_pos hf hh rfl
    have h3 := sumTo_ge (f := fun t => cntS h.tok (s.threads t).stack) ht
    simp only [total, framesCount] at h1
    omega

theorem Good.log_lt {s : State} (g : Good s) {e : LogE} (he : e ∈ s.log) : e.tok < s.nextTok := by
  have h1 := g.cons e.tok
  by_cases hlt : e.tok < s.nextTok
  · exact hlt
  · have h1 := h1.2 (by omega)
    have h2 : 0 < cntL e.tok s.log := cntL_mem_pos he rfl
    simp only [total] at h1
    omega

/-! ### projections of the state transformers -/

@[simp] theorem setProc_np (s : State) (p : Nat) (pr : Proc) : (setProc s p pr).np = s.np := rfl
@[simp] theorem setProc_nt (s : State) (p : Nat) (pr : Proc) : (setProc s p pr).nt = s.nt := rfl
@[simp] theorem setProc_procs (s : State) (p : Nat) (pr : Proc) : (setProc s p pr).procs = upd s.procs p pr := rfl
@[simp] theorem setProc_threads (s : State) (p : Nat) (pr : Proc) : (setProc s p pr).threads = s.threads := rfl
@[simp] theorem setProc_log (s : State) (p : Nat) (pr : Proc) : (setProc s p pr).log = s.log := rfl
@[simp] theorem setProc_nextTok (s : State) (p : Nat) (pr : Proc) : (setProc s p pr).nextTok = s.nextTok := rfl
@[simp] theorem setProc_owner (s : State) (p : Nat) (pr : Proc) : (setProc s p pr).owner = s.owner := rfl
@[simp] theorem setProc_late (s : State) (p : Nat) (pr : Proc) : (setProc s p pr).late = s.late := rfl

@[simp] theorem setThread_np (s : State) (t : Nat) (th : Thread) : (setThread s t th).np = s.np := rfl
@[simp] theorem setThread_nt (s : State) (t : Nat) (th : Thread) : (setThread s t th).nt = s.nt := rfl
@[simp] theorem setThread_procs (s : State) (t : Nat) (th : Thread) : (setThread s t th).procs = s.procs := rfl
@[simp] theorem setThread_threads (s : State) (t : Nat) (th : Thread) : (setThread s t th).threads = upd s.threads t th := rfl
@[simp] theorem setThread_log (s : State) (t : Nat) (th : Thread) : (setThread s t th).log = s.log := rfl
@[simp] theorem setThread_nextTok (s : State) (t : Nat) (th : Thread) : (setThread s t th).nextTok = s.nextTok := rfl
@[simp] theorem setThread_owner (s : State) (t : Nat) (th : Thread) : (setThread s t th).owner = s.owner := rfl
@[simp] theorem setThread_late (s : State) (t : Nat) (th : Thread) : (setThread s t th).late = s.late := rfl

@[simp] theorem alloc_np (s : State) (p : Nat) (l : Bool) : (alloc s p l).np = s.np := rfl
@[simp] theorem alloc_nt (s : State) (p : Nat) (l : Bool) : (alloc s p l).nt = s.nt := rfl
@[simp] theorem alloc_procs (s : State) (p : Nat) (l : Bool) : (alloc s p l).procs = s.procs := rfl
@[simp] theorem alloc_threads (s : State) (p : Nat) (l : Bool) : (alloc s p l).threads = s.threads := rfl
@[simp] theorem alloc_log (s : State) (p : Nat) (l : Bool) : (alloc s p l).log = s.log := rfl
@[simp] theorem alloc_nextTok (s : State) (p : Nat) (l : Bool) : (alloc s p l).nextTok = s.nextTok + 1 := rfl
@[simp] theorem alloc_owner (s : State) (p : Nat) (l : Bool) : (alloc s p l).owner = upd s.owner s.nextTok p := rfl
@[simp] theorem alloc_late (s : State) (p : Nat) (l : Bool) : (alloc s p l).late = upd s.late s.nextTok l := rfl

@[simp] theorem pushFrame_np (s : State) (t : Nat) (f : Frame) : (pushFrame s t f).np = s.np := rfl
@[simp] theorem pushFrame_nt (s : State) (t : Nat) (f : Frame) : (pushFrame s t f).nt = s.nt := rfl
@[simp] theorem pushFrame_procs (s : State) (t : Nat) (f : Frame) : (pushFrame s t f).procs = s.procs := rfl
@[simp] theorem pushFrame_log (s : State) (t : Nat) (f : Frame) : (pushFrame s t f).log = s.log := rfl
@[simp] theorem pushFrame_nextTok (s : State) (t : Nat) (f : Frame) : (pushFrame s t f).nextTok = s.nextTok := rfl
@[simp] theorem pushFrame_owner (s : State) (t : Nat) (f : Frame) : (pushFrame s t f).owner = s.owner := rfl
@[simp] theorem pushFrame_late (s : State) (t : Nat) (f : Frame) : (pushFrame s t f).late = s.late := rfl

theorem mem_stack_pushFrame (s : State) (t t' : Nat) (f g : Frame) :
    g ∈ ((pushFrame s t f).threads t').stack ↔ (t' = t ∧ g = f) ∨ g ∈ (s.threads t').stack := by
  by_cases h : t' = t
  · subst h; simp [pushFrame]
  · simp [pushFrame, upd_other _ _ h, h]

theorem total_setThread (k : Nat) (s : State) (t : Nat) (th : Thread) (ht : t < s.nt) :
    total k (setThread s t th) + cntS k (s.threads t).stack = total k s + cntS k th.stack := by
  have := sumTo_upd s.threads (fun th => cntS k th.stack) t s.nt th ht
  simp only [total, hooksCount, framesCount, setThread] at *
  omega

theorem total_pushFrame (k : Nat) (s : State) (t : Nat) (f : Frame) (ht : t < s.nt) :
    total k (pushFrame s t f) = total k s + cntH k f.rem := by
  have := total_setThread k s t { s.threads t with stack := f :: (s.threads t).stack } ht
  simp only [pushFrame, cntS] at *
  omega

theorem total_setProc (k : Nat) (s : State) (p : Nat) (pr : Proc) (hp : p < s.np) :
    total k (setProc s p pr) + cntH k (s.procs p).hooks = total k s + cntH k pr.hooks := by
  have := sumTo_upd s.procs (fun pr => cntH k pr.hooks) p s.np pr hp
  simp only [total, hooksCount, framesCount, setProc] at *
  omega

theorem total_newProc (k : Nat) (s : State) (pr : Proc) :
    total k { setProc s s.np pr with np := s.np + 1 } = total k s + cntH k pr.hooks := by
  have := sumTo_upd_ge s.procs (fun pr => cntH k pr.hooks) s.np s.np pr (Nat.le_refl _)
  simp only [total, hooksCount, framesCount, setProc, sumTo, upd_same] at *
  omega

@[simp] theorem total_alloc (k : Nat) (s : State) (p : Nat) (l : Bool) : total k (alloc s p l) = total k s := rfl


theorem Good.pcOK_mono {s s' : State} (g : Good s) (hpc : ∀ t, (s'.threads t).pc = (s.threads t).pc)
    (hn : s.np ≤ s'.np) : ∀ t p, (s'.threads t).pc = .forkReg p → p < s'.np := by
  intro t p h
  have := g.pcOK t p (by rw [← hpc t]; exact h)
  omega

theorem setThread_pc_same (s : State) (t : Nat) (th : Thread) (h : th.pc = (s.threads t).pc) (t' : Nat) :
    ((setThread s t th).threads t').pc = (s.threads t').pc := by
  by_cases e : t' = t
  · subst e; simp [h]
  · simp [upd_other _ _ e]

theorem pushFrame_pc (s : State) (t : Nat) (f : Frame) (t' : Nat) :
    ((pushFrame s t f).threads t').pc = (s.threads t').pc :=
  setThread_pc_same s t { s.threads t with stack := f :: (s.threads t).stack } rfl t'

theorem good_pushEmpty {s : State} (g : Good s) (t : Nat) (p : Nat) (e : Nat) (ht : t < s.nt) (hp : p < s.np) :
    Good (pushFrame s t { proc := p, rem := [], err := e }) := by
  refine ⟨?_, g.hooksRun, g.hooksOK, ?_, g.logOK, g.doneOK, g.pcOK_mono (pushFrame_pc s t _) (Nat.le_refl _)⟩
  · intro k; rw [total_pushFrame k s t _ ht]; simpa using g.cons k
  · intro t' f ht' hf
    rcases (mem_stack_pushFrame s t t' _ f).mp hf with ⟨_, rfl⟩ | h
    · exact ⟨hp, by simp⟩
    · exact g.frameOK t' f ht' h

theorem good_exitFlip {s : State} (g : Good s) (t : Nat) (p : Nat) (e : Nat) (ht : t < s.nt) (hp : p < s.np) :
    Good (exitFlip s t p e) := by
  unfold exitFlip
  by_cases hterm : (s.procs p).terminated = true
  · simp only [hterm, if_true, g.hooksRun p hp hterm, List.reverse_nil]
    exact good_pushEmpty g t p e ht hp
  · simp only [hterm, if_false, Bool.false_eq_true]
    have hrun : (s.procs p).terminated = false := by simpa using hterm
    refine ⟨?_, ?_, ?_, ?_, ?_, ?_, g.pcOK_mono (fun t' => pushFrame_pc _ t _ t') (Nat.le_refl _)⟩
    · intro k
      rw [total_pushFrame k _ t _ (by simpa using ht)]
      have := total_setProc k s p { s.procs p with done := true, data := [], terminated := true, err := e, hooks := [] } hp
      have := g.cons k
      simp at *; omega
    · intro q hq hqt
      by_cases hqp : q = p
      · subst hqp; simp
      · simp [upd_other _ _ hqp] at hqt ⊢; exact g.hooksRun q hq hqt
    · intro q h hq hh
      by_cases hqp : q = p
      · subst hqp; simp at hh
      · simp [upd_other _ _ hqp] at hh ⊢; exact g.hooksOK q h hq hh
    · intro t' f ht' hf
      rcases (mem_stack_pushFrame _ t t' _ f).mp hf with ⟨_, rfl⟩ | h
      · refine ⟨hp, ?_⟩
        intro h hh
        have := g.hooksOK p h hp (by simpa using hh)
        simpa using this
      · have := g.frameOK t' f ht' h
        refine ⟨this.1, ?_⟩
        intro h hh
        have h4 := this.2 h hh
        have hne : f.proc ≠ p := by intro e; rw [e, hrun] at h4; simp at h4
        simpa [upd_other _ _ hne] using h4
    · intro e' he'
      have h4 := g.logOK e' (by simpa using he')
      have hne : e'.proc ≠ p := by intro e; rw [e, hrun] at h4; simp at h4
      simpa [upd_other _ _ hne] using h4
    · intro q hq
      by_cases hqp : q = p
      · subst hqp; simp
      · simpa [upd_other _ _ hqp] using g.doneOK q hq

theorem good_addHook {s : State} (g : Good s) (t : Nat) (p : Nat) (k : HookKind) (ht : t < s.nt) (hp : p < s.np)
    (hk : ∀ c, k = .child c → c < s.np) : Good (addHook s t p k) := by
  unfold addHook
  by_cases hterm : (s.procs p).terminated = true
  · simp only [hterm, if_true]
    refine ⟨?_, g.hooksRun, ?_, ?_, ?_, g.doneOK, g.pcOK_mono (fun t' => pushFrame_pc _ t _ t') (Nat.le_refl _)⟩
    · intro k'
      rw [total_pushFrame k' _ t _ (by simpa using ht)]
      have := g.cons k'
      simp only [total_alloc, cntH_cons, cntH_nil, pushFrame_nextTok, alloc_nextTok]
      by_cases e : s.nextTok = k' <;> simp [e] <;> omega
    · intro q h hq hh
      have := g.hooksOK q h hq hh
      have hlt := g.hook_lt hq hh
      simpa [upd_other _ _ (Nat.ne_of_lt hlt)] using this
    · intro t' f ht' hf
      rcases (mem_stack_pushFrame _ t t' _ f).mp hf with ⟨_, rfl⟩ | h
      · refine ⟨hp, ?_⟩
        intro h hh
        simp at hh; subst hh
        simpa [hterm] using hk
      · have := g.frameOK t' f ht' h
        refine ⟨this.1, ?_⟩
        intro h' hh
        have hlt := g.frame_lt ht' h hh
        simpa [upd_other _ _ (Nat.ne_of_lt hlt)] using this.2 h' hh
    · intro e he
      have hlt := g.log_lt he
      simpa [upd_other _ _ (Nat.ne_of_lt hlt)] using g.logOK e he
  · have hrun : (s.procs p).terminated = false := by simpa using hterm
    dsimp only
    rw [if_neg hterm]
    split
    · exact g
    · refine ⟨?_, ?_, ?_, ?_, ?_, ?_, g.pcOK⟩
      · intro k'
        have h1 := total_setProc k' s p { s.procs p with hooks := (s.procs p).hooks ++ [{ kind := k, tok := s.nextTok }] } hp
        have h2 := g.cons k'
        simp only [cntH_append, cntH_cons, cntH_nil] at h1
        simp only [total_alloc, alloc_nextTok, setProc_nextTok]
        by_cases e : s.nextTok = k'
        · subst e; simp at h1; omega
        · simp [e] at h1; omega
      · intro q hq hqt
        by_cases hqp : q = p
        · subst hqp; simp [hrun] at hqt
        · simp [upd_other _ _ hqp] at hqt ⊢; exact g.hooksRun q hq hqt
      · intro q h hq hh
        by_cases hqp : q = p
        · subst hqp
          simp at hh
          rcases hh with hh | hh
          · have := g.hooksOK q h hp hh
            have hlt := g.hook_lt hp hh
            simpa [upd_other _ _ (Nat.ne_of_lt hlt)] using this
          · subst hh; simpa using hk
        · simp [upd_other _ _ hqp] at hh ⊢
          have := g.hooksOK q h hq hh
          have hlt := g.hook_lt hq hh
          simpa [upd_other _ _ (Nat.ne_of_lt hlt)] using this
      · intro t' f ht' hf
        have := g.frameOK t' f ht' hf
        refine ⟨this.1, ?_⟩
        intro h' hh
        have hlt := g.frame_lt ht' hf hh
        have h4 := this.2 h' hh
        by_cases hfp : f.proc = p
        · rw [hfp, hrun] at h4; simp at h4
        · simpa [upd_other _ _ hfp, upd_other _ _ (Nat.ne_of_lt hlt)] using h4
      · intro e he
        have hlt := g.log_lt he
        have h4 := g.logOK e he
        by_cases hfp : e.proc = p
        · rw [hfp, hrun] at h4; simp at h4
        · simpa [upd_other _ _ hfp, upd_other _ _ (Nat.ne_of_lt hlt)] using h4
      · intro q hq
        by_cases hqp : q = p
        · subst hqp; simp [g.doneOK q hq, hrun]
        · simpa [upd_other _ _ hqp] using g.doneOK q hq

theorem mem_stack_setThread (s : State) (t t' : Nat) (th : Thread) (g : Frame) :
    g ∈ ((setThread s t th).threads t').stack ↔ (t' = t ∧ g ∈ th.stack) ∨ (t' ≠ t ∧ g ∈ (s.threads t').stack) := by
  by_cases h : t' = t
  · subst h; simp
  · simp [upd_other _ _ h, h]

theorem good_new {s : State} (g : Good s) : Good { setProc s s.np {} with np := s.np + 1 } := by
  refine ⟨?_, ?_, ?_, ?_, ?_, ?_, g.pcOK_mono (fun _ => rfl) (Nat.le_succ _)⟩
  · intro k
    have := total_newProc k s {}
    have := g.cons k
    simp at *; omega
  · intro q hq hqt
    by_cases hqp : q = s.np
    · subst hqp; simp
    · simp [upd_other _ _ hqp] at hqt ⊢; exact g.hooksRun q (by simp at hq; omega) hqt
  · intro q h hq hh
    by_cases hqp : q = s.np
    · subst hqp; simp at hh
    · simp [upd_other _ _ hqp] at hh ⊢
      have := g.hooksOK q h (by simp at hq; omega) hh
      exact ⟨this.1, fun c hc => by have := this.2 c hc; omega⟩
  · intro t' f ht' hf
    have := g.frameOK t' f ht' hf
    have hne : f.proc ≠ s.np := by omega
    refine ⟨by simp; omega, ?_⟩
    intro h' hh
    have h4 := this.2 h' hh
    simp [upd_other _ _ hne]
    exact ⟨h4.1, h4.2.1, h4.2.2.1, fun c hc => by have := h4.2.2.2 c hc; omega⟩
  · intro e he
    have h4 := g.logOK e he
    have hne : e.proc ≠ s.np := by omega
    simp [upd_other _ _ hne]
    exact ⟨by omega, h4.2⟩
  · intro q hq
    by_cases hqp : q = s.np
    · subst hqp; simp
    · simpa [upd_other _ _ hqp] using g.doneOK q (by simp at hq; omega)

theorem good_mkChild {s : State} (g : Good s) (p : Nat) : Good (mkChild s p) := by
  unfold mkChild
  refine ⟨?_, ?_, ?_, ?_, ?_, ?_, g.pcOK_mono (fun _ => rfl) (Nat.le_succ _)⟩
  · intro k
    have h1 := total_newProc k s { hooks := [{ kind := .waitDone p, tok := s.nextTok }], parent := some p, wtok := s.nextTok, ctok := s.nextTok + 1 }
    have h2 := g.cons k
    simp only [total_alloc, alloc_nextTok]
    by_cases e : s.nextTok = k
    · subst e; simp at h1 ⊢; omega
    · simp [e] at h1 ⊢; omega
  · intro q hq hqt
    by_cases hqp : q = s.np
    · subst hqp; simp at hqt
    · simp [upd_other _ _ hqp] at hqt ⊢; exact g.hooksRun q (by simp at hq; omega) hqt
  · intro q h hq hh
    by_cases hqp : q = s.np
    · subst hqp; simp at hh; subst hh; simp
    · simp [upd_other _ _ hqp] at hh ⊢
      have hq' : q < s.np := by simp at hq; omega
      have := g.hooksOK q h hq' hh
      have hlt := g.hook_lt hq' hh
      rw [upd_other _ _ (Nat.ne_of_lt hlt)]
      exact ⟨this.1, fun c hc => by have := this.2 c hc; omega⟩
  · intro t' f ht' hf
    have := g.frameOK t' f ht' hf
    have hne : f.proc ≠ s.np := by omega
    refine ⟨by simp; omega, ?_⟩
    intro h' hh
    have h4 := this.2 h' hh
    have hlt := g.frame_lt ht' hf hh
    simp [upd_other _ _ hne, upd_other _ _ (Nat.ne_of_lt hlt)]
    exact ⟨h4.1, h4.2.1, h4.2.2.1, fun c hc => by have := h4.2.2.2 c hc; omega⟩
  · intro e he
    have h4 := g.logOK e he
    have hne : e.proc ≠ s.np := by omega
    have hlt := g.log_lt he
    simp [upd_other _ _ hne, upd_other _ _ (Nat.ne_of_lt hlt)]
    exact ⟨by omega, h4.2⟩
  · intro q hq
    by_cases hqp : q = s.np
    · subst hqp; simp
    · simpa [upd_other _ _ hqp] using g.doneOK q (by simp at hq; omega)

/-- `s'` differs from `s` only in program counters, wait counters, data and ghost fields the
basic invariant does not read. -/
structure Inert (s s' : State) : Prop where
  np : s'.np = s.np
  nt : s'.nt = s.nt
  procs : ∀ p, (s'.procs p).hooks = (s.procs p).hooks ∧ (s'.procs p).terminated = (s.procs p).terminated ∧
    (s'.procs p).err = (s.procs p).err ∧ (s'.procs p).done = (s.procs p).done
  stacks : ∀ t, (s'.threads t).stack = (s.threads t).stack
  log : s'.log = s.log
  nextTok : s'.nextTok = s.nextTok
  owner : s'.owner = s.owner
  pcs : ∀ t p, (s'.threads t).pc = .forkReg p → p < s'.np

theorem total_inert {s s' : State} (i : Inert s s') (k : Nat) : total k s' = total k s := by
  have h1 : sumTo s.np (fun p => cntH k (s'.procs p).hooks) = sumTo s.np (fun p => cntH k (s.procs p).hooks) :=
    sumTo_congr (fun p _ => by rw [(i.procs p).1])
  have h2 : sumTo s.nt (fun t => cntS k (s'.threads t).stack) = sumTo s.nt (fun t => cntS k (s.threads t).stack) :=
    sumTo_congr (fun t _ => by rw [i.stacks t])
  simp only [total, hooksCount, framesCount, i.np, i.nt, i.log, h1, h2]

theorem good_inert {s s' : State} (g : Good s) (i : Inert s s') : Good s' := by
  refine ⟨?_, ?_, ?_, ?_, ?_, ?_, i.pcs⟩
  · intro k; rw [total_inert i k, i.nextTok]; exact g.cons k
  · intro q hq hqt
    rw [(i.procs q).1]; exact g.hooksRun q (by rw [← i.np]; exact hq) (by rw [← (i.procs q).2.1]; exact hqt)
  · intro q h hq hh
    rw [i.owner, i.np]
    exact g.hooksOK q h (by rw [← i.np]; exact hq) (by rw [← (i.procs q).1]; exact hh)
  · intro t f ht hf
    rw [i.np, i.owner]
    have := g.frameOK t f (by rw [← i.nt]; exact ht) (by rw [← i.stacks t]; exact hf)
    rw [(i.procs f.proc).2.1, (i.procs f.proc).2.2.1]
    exact this
  · intro e he
    rw [i.np, i.owner, (i.procs e.proc).2.1, (i.procs e.proc).2.2.1]
    exact g.logOK e (by rw [← i.log]; exact he)
  · intro q hq
    rw [(i.procs q).2.1, (i.procs q).2.2.2]; exact g.doneOK q (by rw [← i.np]; exact hq)

theorem good_pop {s : State} (g : Good s) (t : Nat) (f : Frame) (rest : List Frame) (ht : t < s.nt)
    (hst : (s.threads t).stack = f :: rest) (hf : f.rem = []) :
    Good (setThread s t { s.threads t with stack := rest }) := by
  refine ⟨?_, g.hooksRun, g.hooksOK, ?_, g.logOK, g.doneOK, g.pcOK_mono (setThread_pc_same s t _ rfl) (Nat.le_refl _)⟩
  · intro k
    have h1 := total_setThread k s t { s.threads t with stack := rest } ht
    have h2 := g.cons k
    simp only [hst, cntS, hf, cntH_nil] at h1
    simp only [setThread_nextTok]; omega
  · intro t' f' ht' hf'
    rcases (mem_stack_setThread s t t' _ f').mp hf' with ⟨e, h⟩ | ⟨_, h⟩
    · subst e; exact g.frameOK t' f' ht' (by rw [hst]; simp at h; simp [h])
    · exact g.frameOK t' f' ht' h

theorem total_logMove (k : Nat) (s : State) (t : Nat) (f : Frame) (h : Hook) (hs : List Hook) (rest : List Frame)
    (ht : t < s.nt) :
    total k (logMove s t f h hs rest) + cntS k (s.threads t).stack
      = total k s + cntH k hs + cntS k rest + (if h.tok = k then 1 else 0) := by
  have h1 := total_setThread k s t { s.threads t with stack := { f with rem := hs } :: rest } ht
  simp only [total, hooksCount, framesCount, logMove, cntL_cons, cntS, setThread_np, setThread_nt,
    setThread_procs, setThread_threads, setThread_log] at *
  omega

theorem good_logMove {s : State} (g : Good s) (t : Nat) (f : Frame) (h : Hook) (hs : List Hook)
    (rest : List Frame) (ht : t < s.nt) (hst : (s.threads t).stack = f :: rest) (hf : f.rem = h :: hs) :
    Good (logMove s t f h hs rest) := by
  have hfo := g.frameOK t f ht (by rw [hst]; simp)
  refine ⟨?_, g.hooksRun, g.hooksOK, ?_, ?_, g.doneOK, g.pcOK_mono (setThread_pc_same s t _ rfl) (Nat.le_refl _)⟩
  · intro k
    have h1 := total_logMove k s t f h hs rest ht
    have h2 := g.cons k
    simp only [hst, cntS, hf, cntH_cons] at h1
    have : (logMove s t f h hs rest).nextTok = s.nextTok := rfl
    rw [this]; omega
  · intro t' f' ht' hf'
    have hf'' : f' ∈ ((setThread s t { s.threads t with stack := { f with rem := hs } :: rest }).threads t').stack := hf'
    rcases (mem_stack_setThread s t t' _ f').mp hf'' with ⟨e, h'⟩ | ⟨_, h'⟩
    · subst e
      simp at h'
      rcases h' with h' | h'
      · subst h'
        exact ⟨hfo.1, fun x hx => hfo.2 x (by rw [hf]; simp [hx])⟩
      · exact g.frameOK t' f' ht (by rw [hst]; simp [h'])
    · exact g.frameOK t' f' ht' h'
  · intro e he
    have he' : e ∈ ({ tok := h.tok, proc := f.proc, kind := h.kind, err := f.err } : LogE) :: s.log := he
    rcases List.mem_cons.mp he' with e1 | e1
    · subst e1
      have := hfo.2 h (by rw [hf]; simp)
      exact ⟨hfo.1, this.1, this.2.1, this.2.2.1⟩
    · exact g.logOK e e1


theorem removeValue_fields (fuel : Nat) (procs : Nat → Proc) (p k q : Nat) :
    ((removeValue fuel procs p k).1 q).hooks = (procs q).hooks ∧
    ((removeValue fuel procs p k).1 q).terminated = (procs q).terminated ∧
    ((removeValue fuel procs p k).1 q).err = (procs q).err ∧
    ((removeValue fuel procs p k).1 q).done = (procs q).done ∧
    ((removeValue fuel procs p k).1 q).children = (procs q).children ∧
    ((removeValue fuel procs p k).1 q).parent = (procs q).parent ∧
    ((removeValue fuel procs p k).1 q).ctok = (procs q).ctok ∧
    ((removeValue fuel procs p k).1 q).wtok = (procs q).wtok := by
  induction fuel generalizing p with
  | zero => simp [removeValue]
  | succ n ih =>
    simp only [removeValue]
    split
    · by_cases e : q = p
      · subst e; simp
      · simp [upd_other _ _ e]
    · split
      · exact ih _
      · simp

theorem inert_setProc (s : State) (g : Good s) (p : Nat) (pr : Proc) (h1 : pr.hooks = (s.procs p).hooks)
    (h2 : pr.terminated = (s.procs p).terminated) (h3 : pr.err = (s.procs p).err) (h4 : pr.done = (s.procs p).done) :
    Inert s (setProc s p pr) := by
  refine ⟨rfl, rfl, ?_, fun _ => rfl, rfl, rfl, rfl, g.pcOK⟩
  intro q
  by_cases e : q = p
  · subst e; simp [h1, h2, h3, h4]
  · simp [upd_other _ _ e]

theorem inert_setPc (s : State) (g : Good s) (t : Nat) (pc : Pc) (h : ∀ p, pc = .forkReg p → p < s.np) :
    Inert s (setThread s t { s.threads t with pc := pc }) := by
  refine ⟨rfl, rfl, fun _ => ⟨rfl, rfl, rfl, rfl⟩, ?_, rfl, rfl, rfl, ?_⟩
  · intro t'
    by_cases e : t' = t
    · subst e; simp
    · simp [upd_other _ _ e]
  · intro t' p hp
    by_cases e : t' = t
    · subst e; simp at hp; exact h p hp
    · simp [upd_other _ _ e] at hp; exact g.pcOK t' p hp

theorem inert_trans {a b c : State} (h1 : Inert a b) (h2 : Inert b c) : Inert a c := by
  refine ⟨h2.np.trans h1.np, h2.nt.trans h1.nt, ?_, fun t => (h2.stacks t).trans (h1.stacks t),
    h2.log.trans h1.log, h2.nextTok.trans h1.nextTok, h2.owner.trans h1.owner, h2.pcs⟩
  intro p
  have x := h1.procs p; have y := h2.procs p
  exact ⟨y.1.trans x.1, y.2.1.trans x.2.1, y.2.2.1.trans x.2.2.1, y.2.2.2.trans x.2.2.2⟩

/-! ### `Broadcast` and the wait-done hook -/

theorem broadcast_stack (s : State) (p t : Nat) : ((broadcast s p).threads t).stack = (s.threads t).stack := by
  simp only [broadcast]; split <;> rfl

theorem broadcast_forkReg (s : State) (p t q : Nat) :
    ((broadcast s p).threads t).pc = .forkReg q ↔ (s.threads t).pc = .forkReg q := by
  simp only [broadcast]
  split
  · rename_i h; rw [h]; constructor <;> intro x <;> cases x
  · exact Iff.rfl

theorem inert_broadcast (s : State) (g : Good s) (p : Nat) : Inert s (broadcast s p) :=
  ⟨rfl, rfl, fun _ => ⟨rfl, rfl, rfl, rfl⟩, broadcast_stack s p, rfl, rfl, rfl,
    fun t q h => g.pcOK t q ((broadcast_forkReg s p t q).mp h)⟩

theorem inert_waitDone (s : State) (g : Good s) (p : Nat) : Inert s (waitDone s p) := by
  unfold waitDone
  dsimp only
  have i1 := inert_setProc s g p { s.procs p with children := (s.procs p).children - 1 } rfl rfl rfl rfl
  split
  · exact inert_trans i1 (inert_broadcast _ (good_inert g i1) p)
  · exact i1

/-- the wait-done hook touches the `children` field of `p` only (and wakes threads) -/
theorem waitDone_fields (s : State) (p c : Nat) :
    ((waitDone s p).procs c).parent = (s.procs c).parent ∧ ((waitDone s p).procs c).wtok = (s.procs c).wtok ∧
    ((waitDone s p).procs c).ctok = (s.procs c).ctok ∧ ((waitDone s p).procs c).hooks = (s.procs c).hooks ∧
    ((waitDone s p).procs c).children = (if c = p then (s.procs p).children - 1 else (s.procs c).children) := by
  have h : (waitDone s p).procs = upd s.procs p { s.procs p with children := (s.procs p).children - 1 } := by
    unfold waitDone; dsimp only; split <;> rfl
  rw [h]
  by_cases e : c = p
  · subst e; simp
  · simp [upd_other _ _ e, e]

theorem waitDone_ghost (s : State) (p : Nat) :
    (waitDone s p).np = s.np ∧ (waitDone s p).nt = s.nt ∧ (waitDone s p).log = s.log ∧
    (waitDone s p).nextTok = s.nextTok ∧ (waitDone s p).owner = s.owner ∧ (waitDone s p).late = s.late := by
  unfold waitDone; dsimp only; split <;> exact ⟨rfl, rfl, rfl, rfl, rfl, rfl⟩

theorem good_waitDone {s : State} (g : Good s) (p : Nat) : Good (waitDone s p) :=
  good_inert g (inert_waitDone s g p)

theorem good_startOp {s : State} (g : Good s) (t : Nat) (ht : t < s.nt) (op : Op) : Good (startOp s t op) := by
  cases op with
  | new => exact good_new g
  | exit p e =>
    simp only [startOp]; split
    · exact good_exitFlip g t p e ht (by assumption)
    · exact g
  | add p h =>
    simp only [startOp]; split
    · exact good_addHook g t p _ ht (by assumption) (by intro c hc; cases hc)
    · exact g
  | fork p =>
    simp only [startOp]; split
    · rename_i hp
      have i1 := inert_setProc s g p { s.procs p with children := (s.procs p).children + 1 } rfl rfl rfl rfl
      have g1 := good_inert g i1
      exact good_inert g1 (inert_setPc _ g1 t (.forkReg p) (by intro q hq; cases hq; exact hp))
    · exact g
  | join p =>
    simp only [startOp]; split
    · exact good_inert g (inert_setPc _ g t (.joining p) (by intro q hq; cases hq))
    · exact g
  | setv p k v =>
    simp only [startOp]; split
    · exact good_inert g (inert_setProc s g p _ rfl rfl rfl rfl)
    · exact g
  | delv p k =>
    simp only [startOp]; split
    · refine good_inert g ⟨rfl, rfl, ?_, fun _ => rfl, rfl, rfl, rfl, g.pcOK⟩
      intro q
      have := removeValue_fields s.np s.procs p k q
      exact ⟨this.1, this.2.1, this.2.2.1, this.2.2.2.1⟩
    · exact g

theorem good_forkReg {s : State} (g : Good s) (t p : Nat) (ht : t < s.nt) (hp : p < s.np) : Good (forkReg s t p) := by
  unfold forkReg
  have g1 := good_inert g (inert_setPc s g t .idle (by intro q hq; cases hq))
  have g2 := good_mkChild g1 p
  refine good_addHook g2 t p _ (by simpa [mkChild] using ht) (by simp [mkChild]; omega) ?_
  intro c hc
  cases hc
  simp [mkChild]

theorem good_runHook {s : State} (g : Good s) (t : Nat) (f : Frame) (h : Hook) (hs : List Hook)
    (rest : List Frame) (ht : t < s.nt) (hst : (s.threads t).stack = f :: rest) (hf : f.rem = h :: hs) :
    Good (runHook s t f h hs rest) := by
  have g1 := good_logMove g t f h hs rest ht hst hf
  unfold runHook
  dsimp only
  split
  · exact g1
  · exact good_waitDone g1 _
  · rename_i c hc
    have := (g.frameOK t f ht (by rw [hst]; simp)).2 h (by rw [hf]; simp)
    exact good_exitFlip g1 t c f.err ht (this.2.2.2 c hc)

theorem good_contStep {s : State} (g : Good s) (t : Nat) (ht : t < s.nt) : Good (contStep s t) := by
  unfold contStep
  dsimp only
  split
  · rename_i p hpc
    exact good_forkReg g t p ht (g.pcOK t p hpc)
  · split
    · exact good_inert g (inert_setPc s g t (.waiting _) (by intro q hq; cases hq))
    · exact good_inert g (inert_setPc s g t .idle (by intro q hq; cases hq))
  · exact g
  · split
    · exact g
    · rename_i f rest hst
      split
      · rename_i hf
        exact good_pop g t f rest ht hst hf
      · rename_i h hs hf
        exact good_runHook g t f h hs rest ht hst hf

theorem good_step {s : State} (g : Good s) (t : Nat) (a : Action) : Good (step s t a) := by
  unfold step
  split
  · rename_i ht
    cases a with
    | start op => simp only []; split
                  · exact good_startOp g t ht op
                  · exact g
    | cont => exact good_contStep g t ht
  · exact g

theorem good_run {s : State} (g : Good s) (sched : List (Nat × Action)) : Good (run s sched) := by
  induction sched generalizing s with
  | nil => exact g
  | cons x xs ih => obtain ⟨t, a⟩ := x; exact ih (good_step g t a)


/-- what one transformer may do to a process `p`: a terminated process keeps status and error;
a process that becomes terminated has its data cleared -/
def Flip (s s' : State) (p : Nat) : Prop :=
  ((s.procs p).terminated = true → (s'.procs p).terminated = true ∧ (s'.procs p).err = (s.procs p).err) ∧
  ((s.procs p).terminated = false → (s'.procs p).terminated = true → (s'.procs p).data = [])

/-- `p` is untouched as far as status, error are concerned -/
def Same (s s' : State) (p : Nat) : Prop :=
  (s'.procs p).terminated = (s.procs p).terminated ∧ (s'.procs p).err = (s.procs p).err

theorem Same.flip {s s' : State} {p : Nat} (h : Same s s' p) : Flip s s' p := by
  constructor
  · intro ht; rw [h.1, h.2]; exact ⟨ht, rfl⟩
  · intro hf ht; rw [h.1, hf] at ht; cases ht

theorem Same.then_flip {a b c : State} {p : Nat} (h1 : Same a b p) (h2 : Flip b c p) : Flip a c p := by
  constructor
  · intro ht; have := h2.1 (by rw [h1.1]; exact ht); rw [h1.2] at this; exact this
  · intro hf ht; exact h2.2 (by rw [h1.1]; exact hf) ht

theorem Same.trans {a b c : State} {p : Nat} (h1 : Same a b p) (h2 : Same b c p) : Same a c p :=
  ⟨h2.1.trans h1.1, h2.2.trans h1.2⟩

theorem same_setProc (s : State) (q p : Nat) (pr : Proc) (h1 : pr.terminated = (s.procs q).terminated)
    (h2 : pr.err = (s.procs q).err) : Same s (setProc s q pr) p := by
  by_cases e : p = q
  · subst e; simp [Same, h1, h2]
  · simp [Same, upd_other _ _ e]

theorem same_setProc_ne (s : State) (q p : Nat) (pr : Proc) (h : p ≠ q) : Same s (setProc s q pr) p := by
  simp [Same, upd_other _ _ h]

theorem flip_exitFlip (s : State) (t q e p : Nat) : Flip s (exitFlip s t q e) p := by
  unfold exitFlip
  dsimp only
  split
  · exact Same.flip ⟨rfl, rfl⟩
  · rename_i hrun
    by_cases hpq : p = q
    · subst hpq
      constructor
      · intro ht; exact absurd ht hrun
      · intro _ _; simp
    · exact Same.flip (by simp [Same, upd_other _ _ hpq])

theorem same_addHook (s : State) (t q : Nat) (k : HookKind) (p : Nat) : Same s (addHook s t q k) p := by
  unfold addHook
  dsimp only
  split
  · exact ⟨rfl, rfl⟩
  · split
    · exact ⟨rfl, rfl⟩
    · exact same_setProc s q p _ rfl rfl

theorem same_waitDone (s : State) (q p : Nat) : Same s (waitDone s q) p := by
  have h : (waitDone s q).procs = upd s.procs q { s.procs q with children := (s.procs q).children - 1 } := by
    unfold waitDone; dsimp only; split <;> rfl
  unfold Same
  rw [h]
  by_cases e : p = q
  · subst e; simp
  · simp [upd_other _ _ e]

theorem flip_startOp (s : State) (t : Nat) (op : Op) (p : Nat) (hp : p < s.np) : Flip s (startOp s t op) p := by
  cases op with
  | new => exact Same.flip (by have : p ≠ s.np := by omega
                               simp [startOp, Same, upd_other _ _ this])
  | exit q e => simp only [startOp]; split
                · exact flip_exitFlip s t q e p
                · exact Same.flip ⟨rfl, rfl⟩
  | add q h => simp only [startOp]; split
               · exact (same_addHook s t q _ p).flip
               · exact Same.flip ⟨rfl, rfl⟩
  | fork q => simp only [startOp]; split
              · exact Same.flip (Same.trans (same_setProc s q p { s.procs q with children := (s.procs q).children + 1 } rfl rfl) ⟨rfl, rfl⟩)
              · exact Same.flip ⟨rfl, rfl⟩
  | join q => simp only [startOp]; split <;> exact Same.flip ⟨rfl, rfl⟩
  | setv q k v => simp only [startOp]; split
                  · exact (same_setProc s q p { s.procs q with data := setData (s.procs q).data k v } rfl rfl).flip
                  · exact Same.flip ⟨rfl, rfl⟩
  | delv q k => simp only [startOp]; split
                · have := removeValue_fields s.np s.procs q k p
                  exact Same.flip ⟨this.2.1, this.2.2.1⟩
                · exact Same.flip ⟨rfl, rfl⟩

theorem flip_contStep (s : State) (t : Nat) (p : Nat) (hp : p < s.np) : Flip s (contStep s t) p := by
  unfold contStep
  dsimp only
  split
  · rename_i q _
    unfold forkReg
    refine Same.flip (Same.trans ?_ (same_addHook _ t q _ p))
    have : p ≠ s.np := by omega
    simp [Same, mkChild, upd_other _ _ this]
  · split <;> exact Same.flip ⟨rfl, rfl⟩
  · exact Same.flip ⟨rfl, rfl⟩
  · split
    · exact Same.flip ⟨rfl, rfl⟩
    · split
      · exact Same.flip ⟨rfl, rfl⟩
      · rename_i f rest _ _ h hs _
        unfold runHook
        dsimp only
        have h0 : Same s (logMove s t f h hs rest) p := ⟨rfl, rfl⟩
        split
        · exact h0.flip
        · exact (h0.trans (same_waitDone _ _ p)).flip
        · exact h0.then_flip (flip_exitFlip _ t _ _ p)

theorem flip_step (s : State) (t : Nat) (a : Action) (p : Nat) (hp : p < s.np) : Flip s (step s t a) p := by
  unfold step
  split
  · cases a with
    | start op => simp only []; split
                  · exact flip_startOp s t op p hp
                  · exact Same.flip ⟨rfl, rfl⟩
    | cont => exact flip_contStep s t p hp
  · exact Same.flip ⟨rfl, rfl⟩


/-- hook `h` is registered on `p` and has not run yet: in `p.exitHooks` or in the remaining part
of an activation of `p`'s hooks -/
def located (s : State) (p : Nat) (h : Hook) : Prop :=
  h ∈ (s.procs p).hooks ∨ ∃ t f, t < s.nt ∧ f ∈ (s.threads t).stack ∧ f.proc = p ∧ h ∈ f.rem

/-- `x = some c`: child `c` exists but `Fork` has not yet registered it (inside `forkReg`). -/
def Casc (s : State) (x : Option Nat) : Prop :=
  ∀ c p, c < s.np → (s.procs c).parent = some p → p < s.np ∧
    ((s.procs c).terminated = false → (∃ h, located s p h ∧ h.kind = .child c) ∨ x = some c)

theorem casc_mono {s s' : State} {x : Option Nat} (h : Casc s x) (hnp : s'.np = s.np)
    (hpar : ∀ c, c < s.np → (s'.procs c).parent = (s.procs c).parent)
    (hterm : ∀ c, c < s.np → (s'.procs c).terminated = false → (s.procs c).terminated = false)
    (hloc : ∀ p c h, located s p h → h.kind = .child c → (s'.procs c).terminated = false → located s' p h) :
    Casc s' x := by
  intro c p hc hp
  rw [hnp] at hc ⊢
  rw [hpar c hc] at hp
  have := h c p hc hp
  refine ⟨this.1, fun ht => ?_⟩
  rcases this.2 (hterm c hc ht) with ⟨h', hl, hk⟩ | hx
  · exact Or.inl ⟨h', hloc p c h' hl hk ht, hk⟩
  · exact Or.inr hx

theorem located_pushFrame {s : State} {p : Nat} {h : Hook} (t : Nat) (f : Frame) (hl : located s p h) :
    located (pushFrame s t f) p h := by
  rcases hl with hl | ⟨t', f', ht', hf', hp, hh⟩
  · exact Or.inl hl
  · exact Or.inr ⟨t', f', ht', (mem_stack_pushFrame s t t' f f').mpr (Or.inr hf'), hp, hh⟩

theorem located_exitFlip {s : State} {p : Nat} {h : Hook} (t q e : Nat) (ht : t < s.nt) (hl : located s p h) :
    located (exitFlip s t q e) p h := by
  unfold exitFlip
  dsimp only
  split
  · exact located_pushFrame t _ hl
  · rcases hl with hl | ⟨t', f', ht', hf', hp, hh⟩
    · by_cases e1 : p = q
      · subst e1
        exact Or.inr ⟨t, _, ht, (mem_stack_pushFrame _ t t _ _).mpr (Or.inl ⟨rfl, rfl⟩), rfl, by simpa using hl⟩
      · exact Or.inl (by simpa [upd_other _ _ e1] using hl)
    · exact Or.inr ⟨t', f', ht', (mem_stack_pushFrame _ t t' _ f').mpr (Or.inr hf'), hp, hh⟩

theorem located_addHook {s : State} {p : Nat} {h : Hook} (t q : Nat) (k : HookKind) (hl : located s p h) :
    located (addHook s t q k) p h := by
  unfold addHook
  dsimp only
  split
  · exact located_pushFrame t _ hl
  · split
    · exact hl
    · rcases hl with hl | hl
      · by_cases e1 : p = q
        · subst e1; exact Or.inl (by simp [hl])
        · exact Or.inl (by simpa [upd_other _ _ e1] using hl)
      · exact Or.inr hl

theorem terminated_exitFlip_mono {s : State} (t q e c : Nat) (h : ((exitFlip s t q e).procs c).terminated = false) :
    (s.procs c).terminated = false := by
  have := (flip_exitFlip s t q e c).1
  cases hc : (s.procs c).terminated with
  | false => rfl
  | true => rw [(this hc).1] at h; cases h

@[simp] theorem exitFlip_np (s : State) (t q e : Nat) : (exitFlip s t q e).np = s.np := by
  unfold exitFlip; dsimp only; split <;> rfl
@[simp] theorem exitFlip_nt (s : State) (t q e : Nat) : (exitFlip s t q e).nt = s.nt := by
  unfold exitFlip; dsimp only; split <;> rfl
@[simp] theorem addHook_np (s : State) (t q : Nat) (k : HookKind) : (addHook s t q k).np = s.np := by
  unfold addHook; dsimp only; split
  · rfl
  · split <;> rfl
@[simp] theorem addHook_nt (s : State) (t q : Nat) (k : HookKind) : (addHook s t q k).nt = s.nt := by
  unfold addHook; dsimp only; split
  · rfl
  · split <;> rfl

theorem casc_exitFlip {s : State} {x : Option Nat} (h : Casc s x) (t q e : Nat) (ht : t < s.nt) :
    Casc (exitFlip s t q e) x := by
  refine casc_mono h (by simp) ?_ (fun c _ hc => terminated_exitFlip_mono t q e c hc)
    (fun p c h' hl _ _ => located_exitFlip t q e ht hl)
  intro c _
  unfold exitFlip; dsimp only; split
  · rfl
  · by_cases e1 : c = q
    · subst e1; simp
    · simp [upd_other _ _ e1]

theorem addHook_fields (s : State) (t q : Nat) (k : HookKind) (c : Nat) :
    ((addHook s t q k).procs c).parent = (s.procs c).parent ∧
    ((addHook s t q k).procs c).terminated = (s.procs c).terminated := by
  unfold addHook; dsimp only; split
  · exact ⟨rfl, rfl⟩
  · split
    · exact ⟨rfl, rfl⟩
    · by_cases e1 : c = q
      · subst e1; simp
      · simp [upd_other _ _ e1]

theorem casc_addHook {s : State} {x : Option Nat} (h : Casc s x) (t q : Nat) (k : HookKind) :
    Casc (addHook s t q k) x := by
  refine casc_mono h (by simp) (fun c _ => (addHook_fields s t q k c).1)
    (fun c _ hc => by rw [(addHook_fields s t q k c).2] at hc; exact hc)
    (fun p c h' hl _ _ => located_addHook t q k hl)

/-- registering the pending child resolves `x` -/
theorem casc_addHook_child {s : State} {c : Nat} (h : Casc s (some c)) (t q : Nat) (ht : t < s.nt)
    (hq : (s.procs c).parent = some q) :
    Casc (addHook s t q (.child c)) none := by
  have h1 := casc_addHook h t q (.child c)
  intro c' p hc' hp
  have := h1 c' p hc' hp
  refine ⟨this.1, fun htm => ?_⟩
  rcases this.2 htm with hw | hx
  · exact Or.inl hw
  · cases hx
    rw [(addHook_fields s t q _ c).1, hq] at hp
    cases hp
    left
    unfold addHook; dsimp only
    split
    · exact ⟨{ kind := .child c, tok := s.nextTok }, Or.inr ⟨t, _, ht,
        (mem_stack_pushFrame _ t t _ _).mpr (Or.inl ⟨rfl, rfl⟩), rfl, by simp⟩, rfl⟩
    · split
      · rename_i hany
        simp only [List.any_eq_true, beq_iff_eq] at hany
        obtain ⟨h', hm, hk⟩ := hany
        exact ⟨h', Or.inl hm, hk⟩
      · exact ⟨{ kind := .child c, tok := s.nextTok }, Or.inl (by simp), rfl⟩

theorem casc_new {s : State} (h : Casc s none) : Casc { setProc s s.np {} with np := s.np + 1 } none := by
  intro c p hc hp
  by_cases e1 : c = s.np
  · subst e1; simp at hp
  · have hc' : c < s.np := by simp at hc; omega
    simp [upd_other _ _ e1] at hp ⊢
    have := h c p hc' hp
    refine ⟨by omega, fun htm => ?_⟩
    rcases this.2 htm with ⟨h', hl, hk⟩ | hx
    · refine ⟨h', ?_, hk⟩
      rcases hl with hl | hl
      · have : p ≠ s.np := by omega
        exact Or.inl (by simpa [upd_other _ _ this] using hl)
      · exact Or.inr hl
    · cases hx

theorem casc_mkChild {s : State} (h : Casc s none) (q : Nat) (hq : q < s.np) : Casc (mkChild s q) (some s.np) := by
  intro c p hc hp
  by_cases e1 : c = s.np
  · subst e1
    simp [mkChild] at hp ⊢
    subst hp
    omega
  · have hc' : c < s.np := by simp [mkChild] at hc; omega
    simp [mkChild, upd_other _ _ e1] at hp ⊢
    have := h c p hc' hp
    refine ⟨by omega, fun htm => ?_⟩
    rcases this.2 htm with ⟨h', hl, hk⟩ | hx
    · refine Or.inl ⟨h', ?_, hk⟩
      rcases hl with hl | hl
      · have : p ≠ s.np := by omega
        exact Or.inl (by simpa [upd_other _ _ this] using hl)
      · exact Or.inr hl
    · cases hx

/-- extra facts an inert step keeps -/
theorem casc_inert {s s' : State} {x : Option Nat} (h : Casc s x) (i : Inert s s')
    (hpar : ∀ c, (s'.procs c).parent = (s.procs c).parent) : Casc s' x := by
  refine casc_mono h i.np (fun c _ => hpar c) (fun c _ hc => by rw [(i.procs c).2.1] at hc; exact hc) ?_
  intro p c h' hl _ _
  rcases hl with hl | ⟨t', f', ht', hf', hp, hh⟩
  · exact Or.inl (by rw [(i.procs p).1]; exact hl)
  · exact Or.inr ⟨t', f', by rw [i.nt]; exact ht', by rw [i.stacks t']; exact hf', hp, hh⟩

theorem casc_pop {s : State} {x : Option Nat} (h : Casc s x) (t : Nat) (f : Frame) (rest : List Frame)
    (hst : (s.threads t).stack = f :: rest) (hf : f.rem = []) :
    Casc (setThread s t { s.threads t with stack := rest }) x := by
  refine casc_mono h rfl (fun _ _ => rfl) (fun _ _ hc => hc) ?_
  intro p c h' hl _ _
  rcases hl with hl | ⟨t', f', ht', hf', hp, hh⟩
  · exact Or.inl hl
  · refine Or.inr ⟨t', f', ht', ?_, hp, hh⟩
    rw [mem_stack_setThread]
    by_cases e1 : t' = t
    · subst e1
      rw [hst] at hf'
      rcases List.mem_cons.mp hf' with e2 | e2
      · subst e2; rw [hf] at hh; simp at hh
      · exact Or.inl ⟨rfl, e2⟩
    · exact Or.inr ⟨e1, hf'⟩

theorem located_logMove {s : State} {p : Nat} {h' : Hook} (t : Nat) (f : Frame) (h : Hook) (hs : List Hook)
    (rest : List Frame) (hst : (s.threads t).stack = f :: rest) (hf : f.rem = h :: hs)
    (hl : located s p h') (hne : h' ≠ h) : located (logMove s t f h hs rest) p h' := by
  rcases hl with hl | ⟨t', f', ht', hf', hp, hh⟩
  · exact Or.inl hl
  · by_cases e1 : t' = t
    · subst e1
      rw [hst] at hf'
      rcases List.mem_cons.mp hf' with e2 | e2
      · subst e2
        rw [hf] at hh
        rcases List.mem_cons.mp hh with e3 | e3
        · exact absurd e3 hne
        · refine Or.inr ⟨t', { f' with rem := hs }, ht', ?_, hp, e3⟩
          show _ ∈ ((setThread s t' _).threads t').stack
          simp
      · refine Or.inr ⟨t', f', ht', ?_, hp, hh⟩
        show _ ∈ ((setThread s t' _).threads t').stack
        simp [e2]
    · refine Or.inr ⟨t', f', ht', ?_, hp, hh⟩
      show _ ∈ ((setThread s t _).threads t').stack
      simp [upd_other _ _ e1, hf']

theorem exitFlip_parent (s : State) (t q e c : Nat) : ((exitFlip s t q e).procs c).parent = (s.procs c).parent := by
  unfold exitFlip; dsimp only; split
  · rfl
  · by_cases e1 : c = q
    · subst e1; simp
    · simp [upd_other _ _ e1]

theorem exitFlip_terminated_self (s : State) (t q e : Nat) : ((exitFlip s t q e).procs q).terminated = true := by
  unfold exitFlip; dsimp only; split
  · assumption
  · simp

theorem casc_runHook {s : State} (h0 : Casc s none) (g : Good s) (t : Nat) (f : Frame) (h : Hook) (hs : List Hook)
    (rest : List Frame) (ht : t < s.nt) (hst : (s.threads t).stack = f :: rest) (hf : f.rem = h :: hs) :
    Casc (runHook s t f h hs rest) none := by
  have g1 := good_logMove g t f h hs rest ht hst hf
  have nonchild : (∀ c, h.kind ≠ .child c) → Casc (logMove s t f h hs rest) none := by
    intro hk
    refine casc_mono h0 rfl (fun _ _ => rfl) (fun _ _ hc => hc) ?_
    intro p c h' hl hk' _
    exact located_logMove t f h hs rest hst hf hl (by intro e; rw [e] at hk'; exact hk c hk')
  unfold runHook
  dsimp only
  split
  · rename_i n hk; exact nonchild (by intro c; rw [hk]; intro e; cases e)
  · rename_i q hk
    have c1 := nonchild (by intro c; rw [hk]; intro e; cases e)
    exact casc_inert c1 (inert_waitDone _ g1 q) (fun c => (waitDone_fields _ q c).1)
  · rename_i c' hk
    refine casc_mono h0 (by simp; rfl) (fun c _ => by rw [exitFlip_parent]; rfl)
      (fun c _ hc => terminated_exitFlip_mono (s := logMove s t f h hs rest) t c' f.err c hc) ?_
    intro p c h' hl hk' hrun
    by_cases e1 : h' = h
    · subst e1
      rw [hk] at hk'
      cases hk'
      rw [exitFlip_terminated_self] at hrun
      cases hrun
    · exact located_exitFlip t c' f.err ht (located_logMove t f h hs rest hst hf hl e1)

theorem casc_startOp {s : State} (h : Casc s none) (g : Good s) (t : Nat) (ht : t < s.nt) (op : Op) :
    Casc (startOp s t op) none := by
  cases op with
  | new => exact casc_new h
  | exit p e => simp only [startOp]; split
                · exact casc_exitFlip h t p e ht
                · exact h
  | add p k => simp only [startOp]; split
               · exact casc_addHook h t p _
               · exact h
  | fork p =>
    simp only [startOp]; split
    · rename_i hp
      have i1 := inert_setProc s g p { s.procs p with children := (s.procs p).children + 1 } rfl rfl rfl rfl
      have g1 := good_inert g i1
      have c1 : Casc (setProc s p { s.procs p with children := (s.procs p).children + 1 }) none := by
        refine casc_inert h i1 ?_
        intro c
        by_cases e1 : c = p
        · subst e1; simp
        · simp [upd_other _ _ e1]
      exact casc_inert c1 (inert_setPc _ g1 t (.forkReg p) (by intro q hq; cases hq; exact hp)) (fun _ => rfl)
    · exact h
  | join p =>
    simp only [startOp]; split
    · exact casc_inert h (inert_setPc _ g t (.joining p) (by intro q hq; cases hq)) (fun _ => rfl)
    · exact h
  | setv p k v =>
    simp only [startOp]; split
    · refine casc_inert h (inert_setProc s g p { s.procs p with data := setData (s.procs p).data k v } rfl rfl rfl rfl) ?_
      intro c
      by_cases e1 : c = p
      · subst e1; simp
      · simp [upd_other _ _ e1]
    · exact h
  | delv p k =>
    simp only [startOp]; split
    · refine casc_inert h ⟨rfl, rfl, ?_, fun _ => rfl, rfl, rfl, rfl, g.pcOK⟩ ?_
      · intro q
        have := removeValue_fields s.np s.procs p k q
        exact ⟨this.1, this.2.1, this.2.2.1, this.2.2.2.1⟩
      · intro q
        exact (removeValue_fields s.np s.procs p k q).2.2.2.2.2.1
    · exact h

theorem casc_forkReg {s : State} (h : Casc s none) (g : Good s) (t p : Nat) (ht : t < s.nt) (hp : p < s.np) :
    Casc (forkReg s t p) none := by
  unfold forkReg
  have i1 := inert_setPc s g t .idle (by intro q hq; cases hq)
  have c1 := casc_inert h i1 (fun _ => rfl)
  have c2 := casc_mkChild c1 p hp
  exact casc_addHook_child c2 t p (by simpa [mkChild] using ht) (by simp [mkChild])

theorem casc_contStep {s : State} (h : Casc s none) (g : Good s) (t : Nat) (ht : t < s.nt) :
    Casc (contStep s t) none := by
  unfold contStep
  dsimp only
  split
  · rename_i p hpc
    exact casc_forkReg h g t p ht (g.pcOK t p hpc)
  · split
    · exact casc_inert h (inert_setPc s g t (.waiting _) (by intro q hq; cases hq)) (fun _ => rfl)
    · exact casc_inert h (inert_setPc s g t .idle (by intro q hq; cases hq)) (fun _ => rfl)
  · exact h
  · split
    · exact h
    · rename_i f rest hst
      split
      · rename_i hf
        exact casc_pop h t f rest hst hf
      · rename_i hd hs hf
        exact casc_runHook h g t f hd hs rest ht hst hf

theorem casc_step {s : State} (h : Casc s none) (g : Good s) (t : Nat) (a : Action) : Casc (step s t a) none := by
  unfold step
  split
  · rename_i ht
    cases a with
    | start op => simp only []; split
                  · exact casc_startOp h g t ht op
                  · exact h
    | cont => exact casc_contStep h g t ht
  · exact h

theorem casc_run {s : State} (h : Casc s none) (g : Good s) (sched : List (Nat × Action)) :
    Casc (run s sched) none := by
  induction sched generalizing s with
  | nil => exact h
  | cons x xs ih => obtain ⟨t, a⟩ := x; exact ih (casc_step h g t a) (good_step g t a)

theorem casc_init (nt : Nat) : Casc (init nt) none := by
  intro c p hc; simp [init] at hc

end Uniflow.Process
