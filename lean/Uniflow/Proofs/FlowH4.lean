/-
C02, joint model, one-in-port node kinds, part 4: the node's log invariant under delivery, `Read`, the
action's return and `Link`.
-/
import Uniflow.Proofs.FlowH3

namespace Uniflow.FlowH
open Uniflow.Tracer Uniflow.Node Uniflow.Flow Uniflow.FlowInv Uniflow.FlowG Uniflow.ATracer

theorem mem_updReq_cases (p : Pid) (f : RSt → RSt) : ∀ (rs : List Req) (y : Req), (rs.map (·.p)).Nodup →
    y ∈ updReq p f rs → (y ∈ rs ∧ y.p ≠ p) ∨ ∃ x ∈ rs, x.p = p ∧ y = { x with st := f x.st }
  | [], y, _, h => by simp [updReq] at h
  | z :: zs, y, hnd, h => by
    simp only [List.map_cons, List.nodup_cons] at hnd
    simp only [updReq] at h
    by_cases e : z.p = p
    · rw [if_pos e] at h
      simp only [List.mem_cons] at h
      rcases h with h | h
      · right; exact ⟨z, List.mem_cons_self, e, h⟩
      · left
        refine ⟨List.mem_cons_of_mem _ h, fun e2 => hnd.1 ?_⟩
        rw [e, ← e2]; exact List.mem_map_of_mem h
    · rw [if_neg e] at h
      simp only [List.mem_cons] at h
      rcases h with h | h
      · left; rw [h]; exact ⟨List.mem_cons_self, e⟩
      · rcases mem_updReq_cases p f zs y hnd.2 h with ⟨h1, h2⟩ | ⟨x, h1, h2, h3⟩
        · left; exact ⟨List.mem_cons_of_mem _ h1, h2⟩
        · right; exact ⟨x, List.mem_cons_of_mem _ h1, h2, h3⟩

theorem nodup_p (rs : List Req) (h : (ids rs).Nodup) : (rs.map (·.p)).Nodup :=
  (map_p_sublist rs).nodup h

theorem optl_nil : optl [] = none := rfl

/-- a copy is delivered to the node's in-port -/
theorem nl_deliver (lg : Log) (n : Nat) (th : Thread) (a : A) (h : NL lg n th a) (c : Pid) (v : Val)
    (hu : Unlogged lg c) (ho : aget lg.owner c = some (n * 64)) :
    NL lg n { th with inbox := th.inbox ++ [⟨c, v⟩] } a := by
  refine ⟨?_, h.own, h.req, h.nz, h.wb⟩
  intro p hp
  simp only [List.mem_append, List.mem_singleton] at hp
  rcases hp with hp | hp
  · exact h.inb p hp
  · subst hp; exact ⟨hu, ho⟩

/-- `Read`: the request enters the tracer, nothing registered yet -/
theorem nl_read (lg : Log) (n : Nat) (a : A) (p : Pkt) (rest : List Pkt)
    (h : NL lg n { inbox := p :: rest, pc := .idle } a) :
    NL lg n { inbox := rest, pc := .action p [p] } (aread a 0 p.id) := by
  obtain ⟨hu, ho⟩ := h.inb p (by simp)
  refine ⟨fun q hq => h.inb q (by simp [hq]), ?_, ?_, ?_, trivial⟩
  · intro x hx
    simp only [aread, List.mem_append, List.mem_singleton] at hx
    rcases hx with hx | hx
    · exact h.own x hx
    · subst hx; exact ho
  · intro x hx
    simp only [aread, List.mem_append, List.mem_singleton] at hx
    rcases hx with hx | hx
    · rcases h.req x hx with this | ⟨v, e1, e2, _⟩
      · left; simpa [ReqA, remFor] using this
      · exact Or.inr ⟨v, e1, e2, rfl⟩
    · subst hx
      left
      simp only [ReqA, remFor]
      exact ⟨[], trivial, by simpa [optl] using hu.1, hu.2.2.1, hu.2.2.2, hu.2.1, by simp, by simp⟩
  · intro x hx hst
    simp only [aread, List.mem_append, List.mem_singleton] at hx
    rcases hx with hx | hx
    · rcases h.nz x hx hst with e | ⟨pk, grp, e, _⟩ | ⟨q, e, _⟩
      · simp [remFor] at e
      · cases e
      · cases e
    · subst hx; exact Or.inr (Or.inl ⟨p, [p], rfl, rfl⟩)

theorem linked_in_idsR (x : Req) (cs : List Cell) (hst : x.st = .cells cs) (q : Pid) (hq : q ∈ linkedIds cs) :
    q ∈ idsR x := by
  simp only [idsR, hst, cellsOfSt, List.mem_cons]; right; exact linkedIds_sub_open cs q hq

/-- the action returns: the derived packets are recorded (`acts`), none is registered yet -/
theorem nl_finish (lg lg' : Log) (n : Nat) (a : A) (p : Pkt) (grp inbox : List Pkt) (ops : List Op)
    (h : NL lg n { inbox := inbox, pc := .action p grp } a) (hnd : (ids a.reqs).Nodup)
    (hX : (⟨p.id, 0, .cells []⟩ : Req) ∈ a.reqs) (hpi : ∀ q ∈ inbox, q.id ≠ p.id)
    (hsrc1 : remOps p.id ops = linkTargets ops) (hsrc2 : ∀ p', p' ≠ p.id → remOps p' ops = [])
    (hlt : linkTargets ops ≠ []) (hwb : wOK (.emit ops))
    (hx : LogExt lg lg' p.id) (hacts : aget lg'.acts p.id = optl (linkTargets ops))
    (he : aget lg'.echo p.id = none) (hs : aget lg'.sinkAns p.id = none) (hd : aget lg'.dels p.id = none)
    (hrem : ∀ t ∈ linkTargets ops, Unlogged lg' t ∧ aget lg'.owner t = some (qTag n))
    (ho : ∀ id ∈ nlIds { inbox := inbox, pc := .action p grp } a, aget lg'.owner id = aget lg.owner id) :
    NL lg' n { inbox := inbox, pc := .emit ops } a := by
  have ho1 : ∀ q ∈ inbox, aget lg'.owner q.id = aget lg.owner q.id :=
    fun q hq => ho q.id (by simp only [nlIds, List.mem_append]; left; left; left; exact List.mem_map_of_mem hq)
  have ho2 : ∀ x ∈ a.reqs, aget lg'.owner x.p = aget lg.owner x.p :=
    fun x hx' => ho x.p (by simp only [nlIds, List.mem_append]; left; left; right; exact List.mem_map_of_mem hx')
  refine ⟨?_, ?_, ?_, ?_, hwb⟩
  rotate_left 3
  · intro x hx' hst
    rcases h.nz x hx' hst with e | ⟨pk, grp, e, e2⟩ | ⟨q, e, _⟩
    · simp [remFor] at e
    · simp only [PC.action.injEq] at e
      left
      simp only [remFor]
      rw [← e2, ← e.1, hsrc1]; exact hlt
    · cases e
  · intro q hq
    obtain ⟨u, o⟩ := h.inb q hq
    exact ⟨unlogged_ext lg lg' p.id hx q.id (hpi q hq) u, by rw [ho1 q hq]; exact o⟩
  · intro x hx'; rw [ho2 x hx']; exact h.own x hx'
  · intro x hx'
    by_cases e : x.p = p.id
    · have : x = ⟨p.id, 0, .cells []⟩ := mem_unique a.reqs x _ p.id hnd hx' hX (by simp [idsR, e]) (by simp [idsR])
      subst this
      left
      simp only [ReqA, remFor, hsrc1]
      exact ⟨[], trivial, by simpa using hacts, he, hs, hd, Or.inr rfl, hrem⟩
    · obtain ⟨s1, s2, s3, s4⟩ := hx.2 x.p e
      rcases h.req x hx' with hr | ⟨v, e1, e2, _⟩
      rotate_left
      · exact Or.inr ⟨v, e1, by rw [s3]; exact e2, by simp only [remFor]; exact hsrc2 x.p e⟩
      left
      simp only [ReqA, remFor] at hr ⊢
      rw [hsrc2 x.p e]
      cases hst : x.st with
      | direct w => rw [hst] at hr; exact hr
      | cells cs =>
        rw [hst] at hr
        obtain ⟨qs, a1, a2, a3, a4, a5, a6, a7⟩ := hr
        refine ⟨qs, ?_, by rw [s1]; exact a2, by rw [s3]; exact a3, by rw [s4]; exact a4, by rw [s2]; exact a5,
          Or.inl rfl, by simp⟩
        apply all2_cellA_ext lg lg' p.id hx n qs cs _ a1
        intro q' hq'
        refine ⟨fun e2 => ?_, ho q' (by
          simp only [nlIds, List.mem_append]; left; right; exact mem_linkedAll a x cs hx' hst q' hq')⟩
        have := mem_unique a.reqs x _ p.id hnd hx' hX (e2 ▸ linked_in_idsR x cs hst q' hq') (by simp [idsR])
        rw [this] at e; exact e rfl

theorem wOK_next (o : Op) (ops : List Op) (h : wOK (.emit (o :: ops))) : wOK (nextPc ops) := by
  cases ops with
  | nil => trivial
  | cons o' ops' => exact fun w q hm => h w q (List.mem_cons_of_mem _ hm)

theorem remFor_next (p : Pid) (o : Op) (ops : List Op) :
    remFor (.emit (o :: ops)) p = (match o with | .link s t => if s = p then [t] else [] | .write _ _ => []) ++ remFor (nextPc ops) p := by
  cases ops with
  | nil => cases o <;> simp [remFor, remOps, nextPc] <;> split <;> rfl
  | cons o' ops' =>
    cases o with
    | link s t => simp only [remFor, remOps, nextPc]; split <;> simp
    | write w q => simp [remFor, remOps, nextPc]

/-- `Link(p, t)`: the next derived packet is registered -/
theorem nl_link (lg : Log) (n : Nat) (a : A) (inbox : List Pkt) (p t : Pid) (ops : List Op)
    (h : NL lg n { inbox := inbox, pc := .emit (.link p t :: ops) } a) (hnd : (ids a.reqs).Nodup)
    (cs : List Cell) (hX : (⟨p, 0, .cells cs⟩ : Req) ∈ a.reqs) (hpt : p ≠ t) :
    NL lg n { inbox := inbox, pc := nextPc ops } (alink a p t) := by
  have hf := findReq_of_mem a.reqs _ hnd hX
  have hreqs : (alink a p t).reqs =
      updReq p (fun st => match st with | .cells cs => .cells (cs ++ [.linked t]) | s => s) a.reqs := by
    simp only [alink, hpt, if_false, hf]
    rfl
  have hcases := mem_updReq_cases p (fun st => match st with | .cells cs => .cells (cs ++ [.linked t]) | s => s)
    a.reqs
  refine ⟨h.inb, ?_, ?_, ?_, wOK_next _ ops h.wb⟩
  rotate_left 2
  · intro y hy hst
    rw [hreqs] at hy
    rcases hcases y (nodup_p _ hnd) hy with ⟨h1, h2⟩ | ⟨x, h1, h2, h3⟩
    · rcases h.nz y h1 hst with e | ⟨pk, grp, e, _⟩ | ⟨q, e, _⟩
      · left
        rw [remFor_next] at e
        simpa [Ne.symm h2] using e
      · cases e
      · simp at e
    · have hxe : x = ⟨p, 0, .cells cs⟩ := mem_unique a.reqs x _ p hnd h1 hX (by simp [idsR, h2]) (by simp [idsR])
      subst hxe
      rw [h3] at hst
      simp at hst
  · intro y hy
    rw [hreqs] at hy
    rcases hcases y (nodup_p _ hnd) hy with ⟨h1, _⟩ | ⟨x, h1, _, h3⟩
    · exact h.own y h1
    · rw [h3]; exact h.own x h1
  · intro y hy
    rw [hreqs] at hy
    rcases hcases y (nodup_p _ hnd) hy with ⟨h1, h2⟩ | ⟨x, h1, h2, h3⟩
    · have hrf : remFor (nextPc ops) y.p = remFor (.emit (.link p t :: ops)) y.p := by
        rw [remFor_next]; simp [Ne.symm h2]
      rcases h.req y h1 with hr | ⟨v, e1, e2, e3⟩
      · left
        simp only [ReqA] at hr ⊢
        rw [hrf]; exact hr
      · exact Or.inr ⟨v, e1, e2, by rw [hrf]; exact e3⟩
    · have hxe : x = ⟨p, 0, .cells cs⟩ := mem_unique a.reqs x _ p hnd h1 hX (by simp [idsR, h2]) (by simp [idsR])
      subst hxe
      subst h3
      rcases h.req _ h1 with hr | ⟨v, _, _, e3⟩
      rotate_left
      · simp [remFor, remOps] at e3
      left
      simp only [ReqA] at hr ⊢
      rw [remFor_next] at hr
      simp only [if_true] at hr
      obtain ⟨qs, a1, a2, a3, a4, a5, a6', a7⟩ := hr
      have ht := a7 t (by simp)
      refine ⟨qs ++ [t], all2_append _ _ _ _ _ a1 ⟨rfl, ht.1, ht.2⟩, ?_, a3, a4, a5, Or.inr ?_, ?_⟩
      · rw [a2]; simp
      · rcases a6' with e | e
        · simp at e
        · rw [allLinked_append, e]; rfl
      · intro t' ht'; exact a7 t' (by simp [ht'])

end Uniflow.FlowH
