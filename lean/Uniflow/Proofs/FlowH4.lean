/-
C02, joint model over the abstract tracer, part 4: the schedules of classes T3 (`ExtT3`) and T4 (`ExtT4`), what
`release` needs from an action's result (`ProgOK`, `ProgE`), class T2 ⊆ T3, and the fork workflow of the T3/T4 instances.
-/
import Uniflow.Proofs.FlowH3

namespace Uniflow.FlowH
open Uniflow.Tracer Uniflow.Node Uniflow.Flow Uniflow.FlowInv Uniflow.FlowG Uniflow.ATracer
open Uniflow.ATracer (getL_setOrDel getL_aset)

/-- the schedules of class T3: the source sends, a sink answers, an action returns one new packet
(`out`, on the first out port), one new error packet, or – in a one-to-many node – new packets on several
out ports, at least one of them on an existing port -/
def ExtT3 (kinds : List Kind) : Ext → Prop
  | .send _ => True
  | .sinkAnswer _ _ => True
  | .release n (.out _) => kinds[n]? = none ∨ kinds[n]? = some .oneToOne ∨ ∃ k, kinds[n]? = some (.oneToMany (k + 1))
  | .release _ (.err _) => True
  | .release n (.many vs) => ∃ k, kinds[n]? = some (.oneToMany k) ∧ ∃ j v, j < k ∧ vs[j]? = some (some v)
  | _ => False

theorem allocOuts_some : ∀ (vs : List (Option Val)) (c : Pid) (j : Nat) (v : Val), vs[j]? = some (some v) →
    ∃ q, (allocOuts vs c).1[j]? = some (some q)
  | [], _, _, _, h => by simp at h
  | none :: vs, c, 0, v, h => by simp at h
  | some v0 :: vs, c, 0, v, _ => ⟨⟨c, v0⟩, by simp [allocOuts]⟩
  | none :: vs, c, j + 1, v, h => by
    simp only [List.getElem?_cons_succ] at h
    obtain ⟨q, hq⟩ := allocOuts_some vs c j v h
    exact ⟨q, by simpa [allocOuts] using hq⟩
  | some v0 :: vs, c, j + 1, v, h => by
    simp only [List.getElem?_cons_succ] at h
    obtain ⟨q, hq⟩ := allocOuts_some vs (c + 1) j v h
    exact ⟨q, by simpa [allocOuts] using hq⟩

theorem validOuts_ne (n : Nat) : ∀ (qs : List (Option Pkt)) (i j : Nat) (q : Pkt), qs[j]? = some (some q) → i + j < n →
    validOuts n i qs ≠ []
  | [], _, _, _, h, _ => by simp at h
  | none :: qs, i, 0, q, h, _ => by simp at h
  | some q0 :: qs, i, 0, q, _, hlt => by simp only [validOuts]; rw [if_pos (by omega)]; simp
  | none :: qs, i, j + 1, q, h, hlt => by
    simp only [List.getElem?_cons_succ] at h
    simp only [validOuts]; exact validOuts_ne n qs (i + 1) j q h (by omega)
  | some q0 :: qs, i, j + 1, q, h, hlt => by
    simp only [List.getElem?_cons_succ] at h
    simp only [validOuts]
    split
    · simp
    · exact validOuts_ne n qs (i + 1) j q h (by omega)

/-- what `release` needs from the class: the action's result yields a program with at least one link, and the
packets it introduces are new -/
def ProgOK (kind : Kind) (p : Pkt) (o : Outcome) (c nx : Pid) : Prop :=
  ∃ ops, program kind p o = some ops ∧ linkTargets ops ≠ [] ∧ (introS (.finish 0 o)).Nodup ∧
    (∀ k ∈ introS (.finish 0 o), c ≤ k ∧ k < nx) ∧ c ≤ nx

theorem prog_err (kind : Kind) (p : Pkt) (c : Pid) (v : Val) (hpc : p.id < c) :
    ProgOK kind p (.err { id := c, pay := v }) c (c + 1) :=
  ⟨_, rfl, by simp [linkTargets, Nat.ne_of_lt hpc], by simp [introS], by simp [introS], Nat.le_succ _⟩

theorem prog_out (kind : Kind) (p : Pkt) (c : Pid) (v : Val) (hpc : p.id < c)
    (hk : kind = .oneToOne ∨ ∃ k, kind = .oneToMany (k + 1)) :
    ProgOK kind p (.outs [some { id := c, pay := v }]) c (c + 1) := by
  rcases hk with e | ⟨k, e⟩
  · subst e
    exact ⟨_, rfl, by simp [linkTargets, Nat.ne_of_lt hpc], by simp [introS, cellsOf], by simp [introS, cellsOf],
      Nat.le_succ _⟩
  · subst e
    refine ⟨[.link p.id c, .write (some (outW 0)) { id := c, pay := v }], by simp [program, validOuts], ?_,
      by simp [introS, cellsOf], by simp [introS, cellsOf], Nat.le_succ _⟩
    simp [linkTargets, Nat.ne_of_lt hpc]

theorem links_ne (p : Pkt) (c : Pid) (x : Nat × Pkt) (xs : List (Nat × Pkt)) (hx : c ≤ x.2.id) (hpc : p.id < c) :
    linkTargets ((x :: xs).map (fun iq => Op.link p.id iq.2.id) ++
      (x :: xs).map (fun iq => Op.write (some (outW iq.1)) iq.2)) ≠ [] := by
  have : ¬ p.id = x.2.id := fun e => by rw [e] at hpc; exact Nat.lt_irrefl _ (Nat.lt_of_lt_of_le hpc hx)
  simp [linkTargets, this]

theorem prog_many (k : Nat) (p : Pkt) (c : Pid) (vs : List (Option Val)) (j : Nat) (v : Val) (hpc : p.id < c) (hj : j < k)
    (hv : vs[j]? = some (some v)) :
    ProgOK (.oneToMany k) p (.outs (allocOuts vs c).1) c (allocOuts vs c).2 := by
  obtain ⟨a1, a2, a3⟩ := allocOuts_ids vs c
  obtain ⟨q, hq⟩ := allocOuts_some vs c j v hv
  have hvo := validOuts_ne k (allocOuts vs c).1 0 j q hq (by omega)
  cases hvl : validOuts k 0 (allocOuts vs c).1 with
  | nil => exact absurd hvl hvo
  | cons x xs =>
    refine ⟨(x :: xs).map (fun iq => Op.link p.id iq.2.id) ++ (x :: xs).map (fun iq => Op.write (some (outW iq.1)) iq.2),
      by simp only [program, hvl], ?_, by simpa [introS] using a1, by simpa [introS] using a2, a3⟩
    have hsub := validOuts_sub k 0 (allocOuts vs c).1
    rw [hvl] at hsub
    exact links_ne p c x xs (a2 _ (hsub.subset (by simp))).1 hpc

/-- the schedules of class T4 = T3 plus: a one-to-many action returns nothing (`drop`) or any list of
packets (`many`, possibly none on an existing port) -/
def ExtT4 (kinds : List Kind) : Ext → Prop
  | .send _ => True
  | .sinkAnswer _ _ => True
  | .release n (.out _) => kinds[n]? = none ∨ kinds[n]? = some .oneToOne ∨ ∃ k, kinds[n]? = some (.oneToMany (k + 1))
  | .release _ (.err _) => True
  | .release n (.many _) => kinds[n]? = none ∨ ∃ k, kinds[n]? = some (.oneToMany k)
  | .release n .drop => kinds[n]? = none ∨ ∃ k, kinds[n]? = some (.oneToMany k)
  | _ => False

def ProgE (kind : Kind) (p : Pkt) (o : Outcome) (c nx : Pid) : Prop :=
  program kind p o = some [.write none p] ∧ (introS (.finish 0 o)).Nodup ∧
    (∀ k ∈ introS (.finish 0 o), c ≤ k ∧ k < nx) ∧ c ≤ nx

theorem prog_many4 (k : Nat) (p : Pkt) (c : Pid) (vs : List (Option Val)) (hpc : p.id < c) :
    ProgOK (.oneToMany k) p (.outs (allocOuts vs c).1) c (allocOuts vs c).2 ∨
    ProgE (.oneToMany k) p (.outs (allocOuts vs c).1) c (allocOuts vs c).2 := by
  obtain ⟨a1, a2, a3⟩ := allocOuts_ids vs c
  cases hvl : validOuts k 0 (allocOuts vs c).1 with
  | nil =>
    right
    exact ⟨by simp only [program, hvl], by simpa [introS] using a1, by simpa [introS] using a2, a3⟩
  | cons x xs =>
    left
    refine ⟨(x :: xs).map (fun iq => Op.link p.id iq.2.id) ++ (x :: xs).map (fun iq => Op.write (some (outW iq.1)) iq.2),
      by simp only [program, hvl], ?_, by simpa [introS] using a1, by simpa [introS] using a2, a3⟩
    have hsub := validOuts_sub k 0 (allocOuts vs c).1
    rw [hvl] at hsub
    exact links_ne p c x xs (a2 _ (hsub.subset (by simp))).1 hpc

theorem extT4_of_extT3 (kinds : List Kind) (e : Ext) (h : ExtT3 kinds e) : ExtT4 kinds e := by
  cases e with
  | send _ => trivial
  | sinkAnswer _ _ => trivial
  | release n r =>
    cases r with
    | out v => exact h
    | err v => trivial
    | same => exact h.elim
    | drop => exact h.elim
    | sames _ => exact h.elim
    | mixed _ => exact h.elim
    | many vs =>
      obtain ⟨k, e, _⟩ := h
      exact Or.inr ⟨k, e⟩

theorem graphWF3_of_graphWF (N : Nat) (links : List (Nat × List Tgt)) (h : GraphWF N links) :
    GraphWF3 (List.replicate N .oneToOne) links := by
  refine ⟨by simpa using h.small, ?_, h.nodupT, ?_, h.src, ?_, ?_⟩
  · intro k hk; rw [(List.mem_replicate.mp hk).2]; trivial
  · intro key m port hm; simpa using h.tnode key m port hm
  · intro key hk
    rcases h.keys key hk with e | ⟨n, w, h1, h2, e⟩
    · exact Or.inl e
    · exact Or.inr ⟨n, w, by simpa using h1, Nat.lt_of_lt_of_le h2 (by decide), e⟩
  · intro n w m port hn hw hm
    have hn' : n < N := by simpa using hn
    by_cases hw2 : w < 2
    · exact h.fwd n w m port hn' hw2 hm
    · exfalso
      have hne : getL links (wkey n w) ≠ [] := by intro e; rw [e] at hm; simp at hm
      have hw8 : w < 64 := hw
      rcases h.keys (wkey n w) hne with e | ⟨n', w', _, h2, e⟩
      · have := h.small; simp only [wkey, srcKey, srcNode] at e; omega
      · simp only [wkey] at e; omega

theorem extT3_of_extT1 (kinds : List Kind) (hk : ∀ k ∈ kinds, k = .oneToOne) (e : Ext) (h : ExtT1 e) : ExtT3 kinds e := by
  cases e with
  | send _ => trivial
  | sinkAnswer _ _ => trivial
  | release n r =>
    cases r with
    | out v =>
      simp only [ExtT3]
      cases hn : kinds[n]? with
      | none => exact Or.inl rfl
      | some k => right; left; rw [hk k (List.mem_of_getElem? hn)]
    | err v => trivial
    | same => exact h.elim
    | many _ => exact h.elim
    | drop => exact h.elim
    | sames _ => exact h.elim
    | mixed _ => exact h.elim

/-- source → node 0 (one-to-many, 2 out ports); out[0] → node 1, out[1] → node 2; both feed node 3's in-port
(fan-in); node 3 → sink 0 -/
def forkLinks : List (Nat × List Tgt) :=
  [(srcKey, [.node 0 0]), (wkey 0 1, [.node 1 0]), (wkey 0 2, [.node 2 0]), (wkey 1 1, [.node 3 0]),
   (wkey 2 1, [.node 3 0]), (wkey 3 1, [.sink 0])]

def forkKinds : List Kind := [.oneToMany 2, .oneToOne, .oneToOne, .oneToOne]

theorem fork_getL (key : Nat) : getL forkLinks key =
    if key = srcKey then [.node 0 0] else if key = wkey 0 1 then [.node 1 0]
    else if key = wkey 0 2 then [.node 2 0] else if key = wkey 1 1 then [.node 3 0]
    else if key = wkey 2 1 then [.node 3 0] else if key = wkey 3 1 then [.sink 0] else [] := by
  simp only [forkLinks, getL, aget, srcKey, srcNode, wkey]
  by_cases e1 : key = 1000 * 64 + 1
  · subst e1; simp
  · by_cases e2 : key = 0 * 64 + 1
    · subst e2; simp
    · by_cases e3 : key = 0 * 64 + 2
      · subst e3; simp
      · by_cases e4 : key = 1 * 64 + 1
        · subst e4; simp
        · by_cases e5 : key = 2 * 64 + 1
          · subst e5; simp
          · by_cases e6 : key = 3 * 64 + 1
            · subst e6; simp
            · simp [e1, e2, e3, e4, e5, e6]

theorem fork_wf : GraphWF3 forkKinds forkLinks := by
  refine ⟨by decide, ?_, ?_, ?_, ?_, ?_, ?_⟩
  · intro k hk
    simp only [forkKinds, List.mem_cons, List.mem_nil_iff, or_false] at hk
    rcases hk with e | e | e | e <;> subst e <;> simp [KindOK, maxW]
  · intro key; rw [fork_getL]
    repeat' split
    all_goals simp [rkeyOf]
  · intro key m port hm
    rw [fork_getL] at hm
    repeat' split at hm
    all_goals simp at hm
    all_goals simp [forkKinds]; omega
  · rw [fork_getL]; simp
  · intro key hk
    rw [fork_getL] at hk
    by_cases h0 : key = srcKey
    · left; exact h0
    · right
      rw [if_neg h0] at hk
      by_cases h1 : key = wkey 0 1
      · exact ⟨0, 1, by decide, by decide, h1⟩
      · rw [if_neg h1] at hk
        by_cases h2 : key = wkey 0 2
        · exact ⟨0, 2, by decide, by decide, h2⟩
        · rw [if_neg h2] at hk
          by_cases h3 : key = wkey 1 1
          · exact ⟨1, 1, by decide, by decide, h3⟩
          · rw [if_neg h3] at hk
            by_cases h4 : key = wkey 2 1
            · exact ⟨2, 1, by decide, by decide, h4⟩
            · rw [if_neg h4] at hk
              by_cases h5 : key = wkey 3 1
              · exact ⟨3, 1, by decide, by decide, h5⟩
              · rw [if_neg h5] at hk; exact absurd rfl hk
  · intro n w m port hn hw hm
    rw [fork_getL] at hm
    have hn4 : n < 4 := hn
    have hw8 : w < 64 := hw
    have h0 : ¬ (wkey n w = srcKey) := by simp only [wkey, srcKey, srcNode]; omega
    rw [if_neg h0] at hm
    by_cases h1 : wkey n w = wkey 0 1
    · rw [if_pos h1] at hm; simp only [wkey] at h1; simp at hm; omega
    · rw [if_neg h1] at hm
      by_cases h2 : wkey n w = wkey 0 2
      · rw [if_pos h2] at hm; simp only [wkey] at h2; simp at hm; omega
      · rw [if_neg h2] at hm
        by_cases h3 : wkey n w = wkey 1 1
        · rw [if_pos h3] at hm; simp only [wkey] at h3; simp at hm; omega
        · rw [if_neg h3] at hm
          by_cases h4 : wkey n w = wkey 2 1
          · rw [if_pos h4] at hm; simp only [wkey] at h4; simp at hm; omega
          · rw [if_neg h4] at hm
            by_cases h5 : wkey n w = wkey 3 1
            · rw [if_pos h5] at hm; simp at hm
            · rw [if_neg h5] at hm; simp at hm

end Uniflow.FlowH
