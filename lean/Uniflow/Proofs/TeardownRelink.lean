/-
C03 – liveness of a writer torn down through its readers under ANY continuation, re-links included.

`mu` (Proofs/Teardown.lean) counts the held-back drop notices and the answers in flight of the
readers that are LINKED; linking a closed reader with a stale notice again makes `mu` count that
notice again (`C03.relink_can_increase`).  Here the measure

  `muR R = 2·pending rows + buffered packets + responses owed + [pump goroutine running]
           + Σ_{r ∈ R} (requests r still has to answer + its held-back drop notices + its answers in flight)`

sums over a FIXED finite set `R` of readers that contains every reader with anything of the kind
(`Supp R`), linked or not.  `Link` touches none of these, so it leaves `muR` where it is; a stale
notice is paid for once, when it is delivered (and ignored).  While the writer is torn down no
reader accepts a write, so nothing is added to the sum; `closeR` turns requests into notices, `pop`
into answers in flight – the sum stays.  Every enabled fair step still strictly decreases it.
-/
import Uniflow.Proofs.TeardownMono

namespace Uniflow.TeardownProofs
open Uniflow Uniflow.Writer Uniflow.Teardown Uniflow.WriterProofs Uniflow.WriterSpec

/-- What reader `x` still carries for this writer: requests it has to answer, drop notices that
have not run, answers in flight. -/
def gOf (m : W) (x : RId) : Nat := (m.pend x).length + (m.drops x).length + (m.flight x).length

def suppSum (R : List RId) (m : W) : Nat := (R.map (gOf m)).sum

/-- The part of the measure that does not depend on the readers. -/
def base (c : Comp) : Nat :=
  2 * c.w.rows.length + c.p.buf.length + c.outstanding + (if c.p.exited then 0 else 1)

def muR (R : List RId) (c : Comp) : Nat := base c + suppSum R c.w

/-- `R` contains every reader that carries anything. -/
def Supp (R : List RId) (m : W) : Prop := ∀ x, x ∉ R → gOf m x = 0

theorem sum_le_pointwise (l : List RId) (f' f : RId → Nat) (h : ∀ x ∈ l, f' x ≤ f x) :
    (l.map f').sum ≤ (l.map f).sum := by
  induction l with
  | nil => exact Nat.le_refl _
  | cons a rest ih =>
    simp only [List.map_cons, List.sum_cons]
    have h1 := h a (List.mem_cons_self ..)
    have h2 := ih (fun x hx => h x (List.mem_cons_of_mem _ hx))
    omega

theorem sum_lt_mem (l : List RId) (f' f : RId → Nat) (r : RId) (hr : r ∈ l) (h : ∀ x ∈ l, f' x ≤ f x)
    (hlt : f' r < f r) : (l.map f').sum < (l.map f).sum := by
  induction l with
  | nil => cases hr
  | cons a rest ih =>
    simp only [List.map_cons, List.sum_cons]
    have h1 := h a (List.mem_cons_self ..)
    have h2 := sum_le_pointwise rest f' f (fun x hx => h x (List.mem_cons_of_mem _ hx))
    rcases List.mem_cons.1 hr with e | hr'
    · subst e; omega
    · have := ih hr' (fun x hx => h x (List.mem_cons_of_mem _ hx))
      omega

theorem receive_g (m : W) (a : Ans) (r : RId) (g w : Nat) (x : RId) :
    gOf (receive m a r g w).1 x = gOf m x := by
  obtain ⟨_, e2, _, e4⟩ := receive_rd m a r g w
  obtain ⟨e1, _, _⟩ := receive_pend m a r g w
  simp only [gOf, e1, e2, e4]

/-! ### One critical section, reader by reader -/

theorem g_link (m : W) (r x : RId) : gOf (Writer.step m (.link r)).1 x = gOf m x := by
  simp only [Writer.step, stepWith]
  repeat (first | rfl | split)

theorem g_unlink (m : W) (r x : RId) : gOf (Writer.step m (.unlink r)).1 x = gOf m x := by
  simp only [Writer.step, stepWith]
  repeat (first | rfl | split)

theorem g_closeW (m : W) (x : RId) : gOf (Writer.step m .closeW).1 x = gOf m x := by
  simp only [Writer.step, stepWith]
  repeat (first | rfl | split)

theorem g_write (m : W) (v : Nat) (x : RId) (hx : m.done = true ∨ x ∉ accepting m.closed m.readers) :
    gOf (Writer.step m (.write v)).1 x = gOf m x := by
  simp only [Writer.step, stepWith]
  split
  · rfl
  split
  · rfl
  split
  · rfl
  rename_i hd _ _
  have hx' : x ∉ accepting m.closed m.readers := by
    rcases hx with h | h
    · exact absurd h hd
    · exact h
  split <;> simp only [gOf, hx', if_false]

theorem g_answer (m : W) (r : RId) (a : Ans) (x : RId) : gOf (Writer.step m (.answer r a)).1 x ≤ gOf m x := by
  simp only [Writer.step, stepWith]
  cases hp : m.pend r with
  | nil => exact Nat.le_refl _
  | cons g rest =>
    simp only
    rw [show receiveWith true = receive from rfl, receive_g]
    simp only [gOf]
    by_cases hxr : x = r
    · subst hxr; simp only [if_true, hp, List.length_cons]; omega
    · simp only [hxr, if_false]; exact Nat.le_refl _

theorem g_pop (m : W) (r : RId) (a : Ans) (x : RId) : gOf (Writer.step m (.pop r a)).1 x = gOf m x := by
  simp only [Writer.step, stepWith]
  cases hp : m.pend r with
  | nil => rfl
  | cons g rest =>
    simp only [gOf]
    by_cases hxr : x = r
    · subst hxr; simp only [if_true, hp, List.length_cons, List.length_append, List.length_nil]; omega
    · simp only [hxr, if_false]

theorem g_deliver (m : W) (r : RId) (k : Nat) (x : RId) : gOf (Writer.step m (.deliver r k)).1 x ≤ gOf m x := by
  simp only [Writer.step, stepWith]
  cases he : (m.flight r)[k]? with
  | none => exact Nat.le_refl _
  | some e =>
    simp only
    rw [show receiveWith true = receive from rfl, receive_g]
    simp only [gOf]
    by_cases hxr : x = r
    · subst hxr
      simp only [if_true]
      have := (List.eraseIdx_sublist (m.flight x) k).length_le
      omega
    · simp only [hxr, if_false]; exact Nat.le_refl _

theorem g_deliver_lt (m : W) (r : RId) (h : (m.flight r).length > 0) :
    gOf (Writer.step m (.deliver r 0)).1 r < gOf m r := by
  simp only [Writer.step, stepWith]
  cases hf : m.flight r with
  | nil => rw [hf] at h; simp at h
  | cons e rest =>
    simp only [List.getElem?_cons_zero]
    rw [show receiveWith true = receive from rfl, receive_g]
    simp only [gOf, if_true, hf, List.eraseIdx_cons_zero, List.length_cons]
    omega

theorem g_closeR (m : W) (r x : RId) : gOf (Writer.step m (.closeR r)).1 x ≤ gOf m x := by
  simp only [Writer.step, stepWith]
  split
  · exact Nat.le_refl _
  · simp only [gOf]
    by_cases hxr : x = r
    · subst hxr; simp only [if_true, List.length_nil]; omega
    · simp only [hxr, if_false]; exact Nat.le_refl _

theorem deliverDrop_w (m : W) (r : RId) (g : Nat × Nat) (rest : List (Nat × Nat)) (hd : m.drops r = g :: rest) :
    (Writer.step m (.deliverDrop r)).1 =
      (receive { m with drops := fun x => if x = r then rest else m.drops x } Ans.dropped r g.1 g.2).1 := by
  simp only [Writer.step, stepWith, hd]

theorem g_deliverDrop (m : W) (r x : RId) : gOf (Writer.step m (.deliverDrop r)).1 x ≤ gOf m x := by
  cases hd : m.drops r with
  | nil => simp only [Writer.step, stepWith, hd]; exact Nat.le_refl _
  | cons g rest =>
    rw [deliverDrop_w m r g rest hd, receive_g]
    simp only [gOf]
    by_cases hxr : x = r
    · subst hxr; simp only [if_true, hd, List.length_cons]; omega
    · simp only [hxr, if_false]; exact Nat.le_refl _

theorem g_deliverDrop_lt (m : W) (r : RId) (h : (m.drops r).length > 0) :
    gOf (Writer.step m (.deliverDrop r)).1 r < gOf m r := by
  cases hd : m.drops r with
  | nil => rw [hd] at h; simp at h
  | cons g rest =>
    rw [deliverDrop_w m r g rest hd, receive_g]
    simp only [gOf, if_true, hd, List.length_cons]
    omega

/-- **No critical section adds anything to a reader that does not accept writes** (a reader that is
closed, or not linked; or any reader of a closed writer). -/
theorem g_step_le (m : W) (st : Writer.Step) (x : RId) (hx : m.done = true ∨ x ∉ accepting m.closed m.readers) :
    gOf (Writer.step m st).1 x ≤ gOf m x := by
  cases st with
  | link r => exact Nat.le_of_eq (g_link m r x)
  | unlink r => exact Nat.le_of_eq (g_unlink m r x)
  | write v => exact Nat.le_of_eq (g_write m v x hx)
  | answer r a => exact g_answer m r a x
  | pop r a => exact Nat.le_of_eq (g_pop m r a x)
  | deliver r k => exact g_deliver m r k x
  | closeR r => exact g_closeR m r x
  | deliverDrop r => exact g_deliverDrop m r x
  | closeW => exact Nat.le_of_eq (g_closeW m x)

/-- Only a write gives a reader something new to carry, and only a linked one: the support grows
by the linked readers at most. -/
theorem supp_step (R : List RId) (m : W) (st : Writer.Step) (h : Supp R m) :
    Supp (R ++ m.readers) (Writer.step m st).1 := by
  intro x hx
  have hxR : x ∉ R := fun hin => hx (List.mem_append.2 (Or.inl hin))
  have hxr : x ∉ m.readers := fun hin => hx (List.mem_append.2 (Or.inr hin))
  have hacc : x ∉ accepting m.closed m.readers := fun hin => hxr (List.mem_filter.1 hin).1
  have := g_step_le m st x (Or.inr hacc)
  have h0 := h x hxR
  omega

theorem applyC_w_other (c : Comp) (x : CStep) (hx : ∀ st, x ≠ .w st) : (applyC .discard c x).1.w = c.w := by
  cases x with
  | w st => exact absurd rfl (hx st)
  | recv =>
    simp only [applyC]
    split
    · split <;> rfl
    · rfl
  | steal => rfl
  | pumpExit => rfl

/-- Every reachable component has a finite support. -/
theorem supp_runC (cs : List CStep) : ∀ c : Comp, (∃ R, Supp R c.w) → ∃ R, Supp R (runC .discard c cs).w := by
  induction cs with
  | nil => intro c h; exact h
  | cons x rest ih =>
    intro c h
    obtain ⟨R, hR⟩ := h
    apply ih
    cases x with
    | w st => exact ⟨R ++ c.w.readers, supp_step R c.w st hR⟩
    | recv => exact ⟨R, by rw [applyC_w_other c .recv (fun _ e => by cases e)]; exact hR⟩
    | steal => exact ⟨R, hR⟩
    | pumpExit => exact ⟨R, hR⟩

theorem supp_init : Supp [] ({} : Comp).w := fun _ _ => rfl

/-! ### The component steps -/

theorem torn_no_acc (c : Comp) (ht : TornDown c) (x : RId) :
    c.w.done = true ∨ x ∉ accepting c.w.closed c.w.readers := by
  rcases ht with hd | hc
  · exact Or.inl hd
  · refine Or.inr (fun hin => ?_)
    obtain ⟨h1, h2⟩ := List.mem_filter.1 hin
    rw [hc x h1] at h2
    cases h2

/-- Any component step but a `steal` – a `link` too – leaves the reader-independent part of the
measure of a torn-down writer where it is or lower. -/
theorem base_step_le (c : Comp) (x : CStep) (hi : CInv c) (ht : TornDown c) (hs : x ≠ .steal) :
    base (applyC .discard c x).1 ≤ base c := by
  cases x with
  | steal => exact absurd rfl hs
  | recv =>
    simp only [applyC]
    split
    · cases hb' : c.p.buf with
      | cons a rest =>
        have hr : Pump.recv c.p = .got a := by simp [Pump.recv, hb']
        simp only [hr, base, Pump.stepR, hb', List.length_cons, Comp.outstanding, List.length_append, List.length_nil]
        omega
      | nil =>
        cases he : c.p.exited with
        | false =>
          have hr : Pump.recv c.p = .blocked := by simp [Pump.recv, hb', he]
          simp only [hr]; exact Nat.le_refl _
        | true =>
          have hr : Pump.recv c.p = .closed := by simp [Pump.recv, hb', he]
          simp only [hr, base, Comp.outstanding, List.length_append, List.length_cons, List.length_nil]
          omega
    · exact Nat.le_refl _
  | pumpExit =>
    simp only [applyC, Pump.stepR]
    split
    · simp only [base, Comp.outstanding, List.length_nil, if_true]
      omega
    · exact Nat.le_refl _
  | w st =>
    obtain ⟨_, _, f3⟩ := step_facts c.w st hi.head
    have hna : accepts st (Writer.step c.w st).2 = false := torn_not_accepted c.w st ht
    rw [← accepts_eq, hna] at f3
    simp only [Bool.false_eq_true, if_false, Nat.add_zero] at f3
    by_cases hd : c.w.done = true
    · obtain ⟨q1, _, _⟩ := done_quiet c.w st hd (hi.doneRows hd)
      have hbuf : (if isClose st then Pump.stepR .discard (enqAll .discard c.p (Writer.step c.w st).2.emits) .closeIn
          else enqAll .discard c.p (Writer.step c.w st).2.emits).buf = c.p.buf ∧
          (if isClose st then Pump.stepR .discard (enqAll .discard c.p (Writer.step c.w st).2.emits) .closeIn
          else enqAll .discard c.p (Writer.step c.w st).2.emits).exited = c.p.exited := by
        rw [q1, enqAll_nil]
        split <;> simp [Pump.stepR]
      simp only [applyC, base, hna, Bool.false_eq_true, if_false, Nat.add_zero, Comp.outstanding, hbuf.1, hbuf.2]
      rw [q1] at f3
      simp only [List.length_nil, Nat.zero_add] at f3
      omega
    · have hd' : c.w.done = false := by simpa using hd
      have hic : c.p.inClosed = false := by rw [hi.closed]; exact hd'
      obtain ⟨e1, _, _, _, e5⟩ := enqAll_open .discard c.p (Writer.step c.w st).2.emits hic
      have hbuf : (if isClose st then Pump.stepR .discard (enqAll .discard c.p (Writer.step c.w st).2.emits) .closeIn
          else enqAll .discard c.p (Writer.step c.w st).2.emits).buf = c.p.buf ++ (Writer.step c.w st).2.emits ∧
          (if isClose st then Pump.stepR .discard (enqAll .discard c.p (Writer.step c.w st).2.emits) .closeIn
          else enqAll .discard c.p (Writer.step c.w st).2.emits).exited = c.p.exited := by
        split <;> simp [Pump.stepR, e1, e5]
      simp only [applyC, base, hna, Bool.false_eq_true, if_false, Nat.add_zero, Comp.outstanding, hbuf.1, hbuf.2, List.length_append]
      omega

theorem supp_sum_applyC (R : List RId) (c : Comp) (x : CStep) (ht : TornDown c) (hs : Supp R c.w) :
    suppSum R (applyC .discard c x).1.w ≤ suppSum R c.w ∧ Supp R (applyC .discard c x).1.w := by
  cases x with
  | w st =>
    have hp : ∀ y, gOf (Writer.step c.w st).1 y ≤ gOf c.w y := fun y => g_step_le c.w st y (torn_no_acc c ht y)
    refine ⟨sum_le_pointwise R _ _ (fun y _ => hp y), fun y hy => ?_⟩
    have := hp y
    have h0 := hs y hy
    show gOf (Writer.step c.w st).1 y = 0
    omega
  | recv => rw [applyC_w_other c .recv (fun _ e => by cases e)]; exact ⟨Nat.le_refl _, hs⟩
  | steal => exact ⟨Nat.le_refl _, hs⟩
  | pumpExit => exact ⟨Nat.le_refl _, hs⟩

/-- **No step of anybody – a re-link included – increases `muR` of a torn-down writer.** -/
theorem muR_step_le (R : List RId) (c : Comp) (x : CStep) (hi : CInv c) (ht : TornDown c) (hs : Supp R c.w)
    (hx : x ≠ .steal) : muR R (applyC .discard c x).1 ≤ muR R c ∧ Supp R (applyC .discard c x).1.w := by
  obtain ⟨h1, h2⟩ := supp_sum_applyC R c x ht hs
  have h3 := base_step_le c x hi ht hx
  exact ⟨by unfold muR; omega, h2⟩

/-- **Every enabled fair step strictly decreases `muR`.** -/
theorem muR_fair (R : List RId) (c : Comp) (x : CStep) (hi : CInv c) (ht : TornDown c)
    (hs : Supp R c.w) (hf : fairEnabled c x = true) : muR R (applyC .discard c x).1 < muR R c := by
  have hsafe := (fairEnabled_fair c x hf).2
  cases x with
  | steal => exact absurd rfl hsafe.1
  | recv =>
    simp only [fairEnabled, Bool.and_eq_true, decide_eq_true_eq, Bool.or_eq_true, Bool.not_eq_true', List.isEmpty_eq_false_iff] at hf
    obtain ⟨h1, h2⟩ := recv_decreases c hi hf.1 hf.2
    simp only [mu, h2] at h1
    simp only [muR, base, h2]
    omega
  | pumpExit =>
    simp only [fairEnabled, Bool.and_eq_true, Bool.not_eq_true'] at hf
    obtain ⟨h1, h2⟩ := exit_decreases c hf.1 hf.2
    simp only [mu, h2] at h1
    simp only [muR, base, h2]
    omega
  | w st =>
    have hbase := base_step_le c (.w st) hi ht hsafe.1
    have hp : ∀ y, gOf (Writer.step c.w st).1 y ≤ gOf c.w y := fun y => g_step_le c.w st y (torn_no_acc c ht y)
    have key : ∀ r, gOf (Writer.step c.w st).1 r < gOf c.w r → suppSum R (Writer.step c.w st).1 < suppSum R c.w := by
      intro r hlt
      have hrR : r ∈ R := by
        apply Classical.byContradiction
        intro hn
        have := hs r hn
        omega
      exact sum_lt_mem R _ _ r hrR (fun y _ => hp y) hlt
    have fin : suppSum R (Writer.step c.w st).1 < suppSum R c.w → muR R (applyC .discard c (.w st)).1 < muR R c := by
      intro h
      have e : (applyC .discard c (.w st)).1.w = (Writer.step c.w st).1 := rfl
      unfold muR
      rw [e]
      omega
    cases st with
    | deliverDrop r =>
      simp only [fairEnabled, Bool.and_eq_true, decide_eq_true_eq, Bool.not_eq_true'] at hf
      exact fin (key r (g_deliverDrop_lt c.w r hf.2))
    | deliver r k =>
      simp only [fairEnabled, Bool.and_eq_true, decide_eq_true_eq, Bool.not_eq_true'] at hf
      obtain ⟨⟨⟨hk, _⟩, _⟩, hfl⟩ := hf
      subst hk
      exact fin (key r (g_deliver_lt c.w r hfl))
    | link r => simp [fairEnabled] at hf
    | unlink r => simp [fairEnabled] at hf
    | write v => simp [fairEnabled] at hf
    | answer r a => simp [fairEnabled] at hf
    | pop r a => simp [fairEnabled] at hf
    | closeR r => simp [fairEnabled] at hf
    | closeW => simp [fairEnabled] at hf

/-- What is carried along a continuation in which the writer stays torn down. -/
structure TornR (R : List RId) (c : Comp) : Prop where
  inv : CInv c
  backed : Backed c
  torn : TornDown c
  supp : Supp R c.w

theorem tornR_runC (R : List RId) (cs : List CStep) : ∀ c : Comp, TornR R c → (∀ x ∈ cs, Safe x) →
    muR R (runC .discard c cs) ≤ muR R c ∧ TornR R (runC .discard c cs) := by
  induction cs with
  | nil => intro c h _; exact ⟨Nat.le_refl _, h⟩
  | cons x rest ih =>
    intro c h hs
    have hx := hs x (List.mem_cons_self ..)
    obtain ⟨h1, h2⟩ := muR_step_le R c x h.inv h.torn h.supp hx.1
    have h3 := (mu_step_le c x h.inv h.backed h.torn (hx.at c)).2
    obtain ⟨h4, h5⟩ := ih _ ⟨cinv_step c x h.inv hx.1, backed_applyC .discard c x h.backed, h3, h2⟩
      (fun y hy => hs y (List.mem_cons_of_mem _ hy))
    exact ⟨Nat.le_trans h4 h1, h5⟩

/-! ### System level -/

/-- **One step of anybody, a re-link of `w` included**: if `w` is torn down before and after it,
`muR` does not increase; an enabled fair step of `w` strictly decreases it. -/
theorem sysR_step_le (t : Topo) (s : Sys) (w : WId) (R : List RId) (st : Teardown.Step)
    (hg : TornR R (s.comp w)) (hst : StepNoSteal st)
    (hT : TornDown ((Teardown.step .discard t s st).1.comp w)) :
    (if fairStepOf w s st then 1 else 0) + muR R ((Teardown.step .discard t s st).1.comp w) ≤ muR R (s.comp w) ∧
    TornR R ((Teardown.step .discard t s st).1.comp w) := by
  by_cases hl : ∃ r, st = .prim w (.w (.link r))
  · obtain ⟨r, rfl⟩ := hl
    have hc : (Teardown.step .discard t s (.prim w (.w (.link r)))).1.comp w = (applyC .discard (s.comp w) (.w (.link r))).1 := by
      show (applyPrim .discard t s w (.w (.link r))).1.comp w = _
      rw [applyPrim_comp]; simp
    rw [hc] at hT ⊢
    obtain ⟨h1, h2⟩ := muR_step_le R (s.comp w) (.w (.link r)) hg.inv hg.torn hg.supp (by simp)
    have hf : fairStepOf w s (.prim w (.w (.link r))) = false := by simp [fairStepOf, fairEnabled]
    refine ⟨by rw [hf]; simpa using h1, cinv_step _ _ hg.inv (by simp), backed_applyC .discard _ _ hg.backed, hT, h2⟩
  · have hq : StepQ (After w false) st := by
      cases st with
      | prim x c =>
        refine ⟨hst, ?_⟩
        intro hx _ r hc
        subst hx; subst hc
        exact hl ⟨r, rfl⟩
      | fwd _ _ => trivial
      | bwd _ => trivial
      | fwdEnd _ _ => trivial
      | sinkAnswer _ _ => trivial
      | bwdLate _ => trivial
      | down _ => trivial
    obtain ⟨cs, hq2, e⟩ := (step_evolvesQ .discard (After w false) (after_internal w false) t s st hq).1 w
    have hq' : ∀ x ∈ cs, Safe x := fun x hx => ⟨(hq2 x hx).1, (hq2 x hx).2 rfl rfl⟩
    obtain ⟨hm, hR⟩ := tornR_runC R cs _ hg hq'
    rw [← e] at hm hR
    refine ⟨?_, hR⟩
    cases hf : fairStepOf w s st with
    | false => simpa using hm
    | true =>
      cases st with
      | prim x c =>
        simp only [fairStepOf, Bool.and_eq_true, decide_eq_true_eq] at hf
        obtain ⟨hx, hf⟩ := hf
        subst hx
        have hc : (Teardown.step .discard t s (.prim x c)).1.comp x = (applyC .discard (s.comp x) c).1 := by
          show (applyPrim .discard t s x c).1.comp x = _
          rw [applyPrim_comp]; simp
        rw [hc]
        have := muR_fair R (s.comp x) c hg.inv hg.torn hg.supp hf
        simp only [if_true]; omega
      | fwd _ _ => simp [fairStepOf] at hf
      | bwd _ => simp [fairStepOf] at hf
      | fwdEnd _ _ => simp [fairStepOf] at hf
      | sinkAnswer _ _ => simp [fairStepOf] at hf
      | bwdLate _ => simp [fairStepOf] at hf
      | down _ => simp [fairStepOf] at hf

/-- **Any continuation in which `w` stays torn down** – re-links of `w` to closed readers included:
the enabled fair steps of `w` that are taken plus `muR` at the end are bounded by `muR` at the
start. -/
theorem sysR_run_le (t : Topo) (w : WId) (R : List RId) (h' : List Teardown.Step) : ∀ s : Sys,
    TornR R (s.comp w) → RunNoSteal h' →
    (∀ k, TornDown ((Teardown.run .discard t s (h'.take k)).comp w)) →
    fairTaken t w s h' + muR R ((Teardown.run .discard t s h').comp w) ≤ muR R (s.comp w) ∧
    TornR R ((Teardown.run .discard t s h').comp w) := by
  induction h' with
  | nil => intro s hg _ _; exact ⟨by simp [fairTaken, Teardown.run], hg⟩
  | cons st rest ih =>
    intro s hg hq hT
    have hT1 : TornDown ((Teardown.step .discard t s st).1.comp w) := by
      have := hT 1
      simpa [Teardown.run] using this
    obtain ⟨h1, h2⟩ := sysR_step_le t s w R st hg (hq st (List.mem_cons_self ..)) hT1
    have hTr : ∀ k, TornDown ((Teardown.run .discard t (Teardown.step .discard t s st).1 (rest.take k)).comp w) := by
      intro k
      have := hT (k + 1)
      simpa [Teardown.run] using this
    obtain ⟨h3, h4⟩ := ih _ h2 (fun y hy => hq y (List.mem_cons_of_mem _ hy)) hTr
    refine ⟨?_, h4⟩
    simp only [fairTaken, Teardown.run]
    omega

instance (c : Comp) : Decidable (TornDown c) := by unfold TornDown; exact inferInstance

/-- A property of all prefixes follows from the prefixes up to the length. -/
theorem forall_take {α : Type} (P : List α → Prop) (l : List α) (h : ∀ k, k ≤ l.length → P (l.take k)) :
    ∀ k, P (l.take k) := by
  intro k
  by_cases hk : k ≤ l.length
  · exact h k hk
  · have e : l.take k = l.take l.length := by
      rw [List.take_of_length_le (by omega), List.take_length]
    rw [e]
    exact h _ (Nat.le_refl _)

end Uniflow.TeardownProofs
