/-
C02, joint model, ALL node kinds (one-to-one, one-to-many, many-to-one), part 1: class T5 – any forward links into
existing in-ports –, what an in-port holds, the global invariant `HI` over the abstract tracer states of the nodes
(node relation `FlowM.JBm`, per-thread log invariant `FlowM.NLm`), and the initial state.
(The files `FlowN*` are the in-port-indexed successors of the former `FlowH8..29` – classes T3/T4 –, which they subsume.)
-/
import Uniflow.Proofs.FlowM9

namespace Uniflow.FlowN
open Uniflow.Tracer Uniflow.Node Uniflow.Flow Uniflow.FlowInv Uniflow.FlowG Uniflow.ATracer Uniflow.FlowH Uniflow.FlowM

/-- a node kind whose out-writers fit the pump (`maxW`) and whose in-ports fit the reader keys -/
def KindOK : Kind → Prop
  | .oneToOne => True
  | .oneToMany k => k + 1 < maxW
  | .manyToOne k => k ≤ 63

/-- class T5: nodes of all three kinds, arbitrary forward links into existing in-ports -/
structure GraphWF5 (kinds : List Kind) (links : List (Nat × List Tgt)) : Prop where
  small : kinds.length ≤ 1000
  kindsOK : ∀ k ∈ kinds, KindOK k
  nodupT : ∀ key, ((getL links key).map rkeyOf).Nodup
  tnode : ∀ key m port, Tgt.node m port ∈ getL links key → ∃ k, kinds[m]? = some k ∧ port < nIn k
  src : getL links srcKey ≠ []
  keys : ∀ key, getL links key ≠ [] → key = srcKey ∨ ∃ n w, n < kinds.length ∧ w < maxW ∧ key = wkey n w
  fwd : ∀ n w m port, n < kinds.length → w < maxW → Tgt.node m port ∈ getL links (wkey n w) → n < m

theorem nIn_le (k : Kind) (h : KindOK k) : nIn k ≤ 63 := by
  cases k with
  | oneToOne => simp [nIn]
  | oneToMany _ => simp [nIn]
  | manyToOne n => exact h

/-- a reader key of the class -/
def TgtOK : Tgt → Prop
  | .node m port => port < 63 ∧ m < 1000
  | .sink _ => True

theorem rkey_inj_ok (t t' : Tgt) (h : TgtOK t) (h' : TgtOK t') (e : rkeyOf t = rkeyOf t') : t = t' := by
  cases t with
  | node m p =>
    cases t' with
    | node m' p' =>
      simp only [TgtOK] at h h'; simp only [rkeyOf] at e
      have h1 : m = m' := by omega
      have h2 : p = p' := by omega
      rw [h1, h2]
    | sink k => simp only [TgtOK] at h; simp only [rkeyOf] at e; omega
  | sink k =>
    cases t' with
    | node m' p' => simp only [TgtOK] at h'; simp only [rkeyOf] at e; omega
    | sink k' => simp only [rkeyOf] at e; have : k = k' := by omega
                 rw [this]

/-- a link target of the class: an existing in-port of an existing node -/
def TOK (kinds : List Kind) : Tgt → Prop
  | .node m port => ∃ k, kinds[m]? = some k ∧ port < nIn k
  | .sink _ => True

theorem tok_of_mem5 (kinds : List Kind) (links : List (Nat × List Tgt)) (hwf : GraphWF5 kinds links) (key : Nat) :
    ∀ t ∈ getL links key, TOK kinds t := by
  intro t ht
  cases t with
  | sink _ => trivial
  | node m port => exact hwf.tnode key m port ht

theorem tgtOK_of_tok (kinds : List Kind) (links : List (Nat × List Tgt)) (hwf : GraphWF5 kinds links) (t : Tgt)
    (h : TOK kinds t) : TgtOK t := by
  cases t with
  | sink _ => trivial
  | node m port =>
    obtain ⟨k, hk, hp⟩ := h
    have hm : m < kinds.length := (List.getElem?_eq_some_iff.mp hk).1
    exact ⟨Nat.lt_of_lt_of_le hp (nIn_le k (hwf.kindsOK k (List.mem_of_getElem? hk))) |> fun h => by omega,
      Nat.lt_of_lt_of_le hm hwf.small⟩

theorem tgtOK_mem5 (kinds : List Kind) (links : List (Nat × List Tgt)) (hwf : GraphWF5 kinds links) (key : Nat) (t : Tgt)
    (h : t ∈ getL links key) : TgtOK t :=
  tgtOK_of_tok kinds links hwf t (tok_of_mem5 kinds links hwf key t h)

def inboxOf (nd : Node) (port : Nat) : List Pid :=
  match getThread nd.threads port with
  | some th => th.inbox.map (·.id)
  | none => []

/-- what in-port `port` of a node holds, in the order it will answer: the requests read and the inbox -/
def heldN (nd : Node) (a : A) (port : Nat) : List Pid :=
  (a.reqs.filter (fun x => x.r = port)).map (·.p) ++ inboxOf nd port

def heldAtH (aa : Nat → A) (nodes : List Node) (sk : List (Nat × List (Pid × Val))) : Tgt → List Pid
  | .node m port => match getNode nodes m with
    | some nd => heldN nd (aa m) port
    | none => []
  | .sink k => (getL sk k).map (·.1)

def heldDH (D : Nat → List (Pid × Ans)) (aa : Nat → A) (nodes : List Node) (sk : List (Nat × List (Pid × Val)))
    (t : Tgt) : List Pid :=
  (D (rkeyOf t)).map (·.1) ++ heldAtH aa nodes sk t

def hbOfH (D : Nat → List (Pid × Ans)) (aa : Nat → A) (nodes : List Node) (sk : List (Nat × List (Pid × Val)))
    (ff : List (Nat × List Nat)) (key : Nat) (t : Tgt) : List Pid :=
  selK key (heldDH D aa nodes sk t) (getL ff (rkeyOf t))

structure HI (kinds : List Kind) (links : List (Nat × List Tgt)) (aa : Nat → A) (D : Nat → List (Pid × Ans)) (g : G) : Prop where
  glinks : g.links = links
  nodesLen : ∀ n, (getNode g.nodes n).isSome = true ↔ n < kinds.length
  kindOK : ∀ n nd, getNode g.nodes n = some nd → KindOK nd.kind
  kindEq : ∀ n nd, getNode g.nodes n = some nd → kinds[n]? = some nd.kind
  thr : ∀ n nd, getNode g.nodes n = some nd → nd.threads.length = nIn nd.kind
  rdr : ∀ n nd, getNode g.nodes n = some nd → ∀ x ∈ (aa n).reqs, x.r < nd.threads.length
  jb : ∀ n nd, getNode g.nodes n = some nd → JBm nd (aa n) g.next
  nl : ∀ n nd, getNode g.nodes n = some nd → NLm g.log n nd (aa n)
  dflt : ∀ n, kinds.length ≤ n → aa n = {}
  sinkOK : ∀ k, ((getL g.sinks k).map (·.1)).Nodup ∧
    ∀ c ∈ (getL g.sinks k).map (·.1), Unlogged g.log c ∧ c < g.next ∧ aget g.log.owner c = some (rkeyOf (.sink k))
  debtOK : ∀ rk, ∀ x ∈ D rk, RA g.log x.1 x.2
  wk : ∀ key, getL links key ≠ [] →
    WKG g.log (gw g.writers key) (getL links key) (pendH aa g.roots g.resp.length key)
      (hbOfH D aa g.nodes g.sinks g.fifo key)
  srcq : (gw g.writers srcKey).queue = []
  fifoLen : ∀ t, TgtOK t → (getL g.fifo (rkeyOf t)).length = (heldDH D aa g.nodes g.sinks t).length
  fifoKeys : ∀ t, TgtOK t → ∀ key ∈ getL g.fifo (rkeyOf t), t ∈ getL links key
  respOK : g.resp.length ≤ g.roots.length ∧ All2 (RA g.log) (g.roots.take g.resp.length) g.resp
  logBound : ∀ id, g.next ≤ id → Unlogged g.log id
  rootsB : ∀ r ∈ g.roots, r < g.next
  wq0 : ∀ key, getL links key = [] → (gw g.writers key).queue = []
  logOrd : LogOrd g.log g.next

theorem getThread_lt : ∀ (ths : List Thread) (i : Nat) (th : Thread), getThread ths i = some th → i < ths.length
  | [], _, _, h => by simp [getThread] at h
  | _ :: _, 0, _, _ => by simp
  | _ :: ts, i + 1, th, h => by
    simp only [getThread] at h
    have := getThread_lt ts i th h
    simp only [List.length_cons]; omega

theorem getThread_some : ∀ (ths : List Thread) (i : Nat), i < ths.length → ∃ th, getThread ths i = some th
  | [], _, h => by simp at h
  | t :: _, 0, _ => ⟨t, rfl⟩
  | _ :: ts, i + 1, h => by
    simp only [List.length_cons] at h
    exact getThread_some ts i (by omega)

theorem length_setThread : ∀ (ths : List Thread) (i : Nat) (th : Thread), (setThread ths i th).length = ths.length
  | [], _, _ => rfl
  | _ :: _, 0, _ => rfl
  | _ :: ts, i + 1, th => by simp only [setThread, List.length_cons, length_setThread ts i th]

theorem getThread_mem : ∀ (ths : List Thread) (i : Nat) (th : Thread), getThread ths i = some th → th ∈ ths
  | [], _, _, h => by simp [getThread] at h
  | _ :: _, 0, _, h => by simp only [getThread, Option.some.injEq] at h; simp [h]
  | _ :: ts, i + 1, th, h => by
    simp only [getThread] at h
    exact List.mem_cons_of_mem _ (getThread_mem ts i th h)

theorem mk_thread (k : Kind) (i : Nat) (th : Thread) (h : getThread (Node.mk k).threads i = some th) : th = {} := by
  have hm := getThread_mem _ i th h
  simp only [Node.mk, List.mem_replicate] at hm; exact hm.2

theorem jbm_init (k : Kind) (nx : Nat) : JBm (Node.mk k) {} nx := by
  refine ⟨J_init k [] (by simp), ?_, rfl⟩
  intro x hx
  simp only [ids, List.flatMap_nil, List.nil_append, Node.mk, List.mem_flatMap, List.mem_replicate] at hx
  obtain ⟨th, ⟨_, e⟩, hx⟩ := hx
  rw [e] at hx; simp [tids, pendIds] at hx

theorem nlm_init (lg : Log) (n : Nat) (k : Kind) : NLm lg n (Node.mk k) {} := by
  intro i th hth
  have := mk_thread k i th hth
  subst this
  exact ⟨by intro p hp; simp at hp, by intro x hx; simp at hx, by intro x hx; simp at hx, by intro x hx; simp at hx, trivial⟩

theorem heldN_init (k : Kind) (port : Nat) : heldN (Node.mk k) {} port = [] := by
  simp only [heldN, List.filter_nil, List.map_nil, List.nil_append, inboxOf]
  cases h : getThread (Node.mk k).threads port with
  | none => rfl
  | some th => rw [mk_thread k port th h]; rfl

theorem HI_init (kinds : List Kind) (links : List (Nat × List Tgt)) (hwf : GraphWF5 kinds links) :
    HI kinds links (fun _ => {}) (fun _ => []) (initG kinds links) := by
  have hg : ∀ key, gw (initG kinds links).writers key = {} := fun key => rfl
  have hnode : ∀ n nd, getNode (initG kinds links).nodes n = some nd → ∃ k ∈ kinds, nd = Node.mk k ∧ kinds[n]? = some k := by
    intro n nd hn
    simp only [initG, getNode_map] at hn
    cases hk : kinds[n]? with
    | none => rw [hk] at hn; simp at hn
    | some k =>
      rw [hk] at hn; simp only [Option.map_some, Option.some.injEq] at hn
      exact ⟨k, List.mem_of_getElem? hk, hn.symm, rfl⟩
  have hheld : ∀ t, heldDH (fun _ => []) (fun _ => ({} : A)) (initG kinds links).nodes (initG kinds links).sinks t = [] := by
    intro t
    cases t with
    | sink j => simp [heldDH, heldAtH, initG, getL_eq]
    | node m port =>
      simp only [heldDH, heldAtH, List.map_nil, List.nil_append]
      cases hn : getNode (initG kinds links).nodes m with
      | none => rfl
      | some nd =>
        obtain ⟨k, hk, e, hke⟩ := hnode m nd hn
        subst e
        exact heldN_init k port
  refine { glinks := rfl, nodesLen := ?_, kindOK := ?_, kindEq := ?_, thr := ?_, rdr := ?_, jb := ?_, nl := ?_, dflt := fun _ _ => rfl,
           sinkOK := ?_, debtOK := ?_, wk := ?_, srcq := rfl, fifoLen := ?_, fifoKeys := ?_,
           respOK := ⟨Nat.le_refl _, trivial⟩,
           logBound := fun id _ => unlogged_empty id, rootsB := ?_, wq0 := fun _ _ => rfl, logOrd := ?_ }
  · intro n
    simp only [initG, getNode_map]
    cases hk : kinds[n]? with
    | none => simp; exact List.getElem?_eq_none_iff.mp hk
    | some k =>
      simp
      exact (List.getElem?_eq_some_iff.mp hk).1
  · intro n nd hn
    obtain ⟨k, hk, e, hke⟩ := hnode n nd hn
    subst e; exact hwf.kindsOK k hk
  · intro n nd hn
    obtain ⟨k, hk, e, hke⟩ := hnode n nd hn
    subst e; exact hke
  · intro n nd hn
    obtain ⟨k, hk, e, hke⟩ := hnode n nd hn
    subst e; simp [Node.mk]
  · intro n nd hn x hx; simp at hx
  · intro n nd hn
    obtain ⟨k, hk, e, hke⟩ := hnode n nd hn
    subst e; exact jbm_init k _
  · intro n nd hn
    obtain ⟨k, hk, e, hke⟩ := hnode n nd hn
    subst e
    exact nlm_init _ n k
  · intro k; simp [initG, getL_eq]
  · intro rk x hx; simp at hx
  · intro key _
    rw [hg]
    have hp : pendH (fun _ => ({} : A)) (initG kinds links).roots (initG kinds links).resp.length key = [] := by
      simp only [pendH, initG]; split <;> simp [getL_eq]
    rw [hp]
    exact wkg_empty _ _ _ (fun t => by simp only [hbOfH, hheld, selK_nil])
  · intro t _; rw [hheld]; simp [initG, getL_eq]
  · intro t _ key hk; simp [initG, getL_eq] at hk
  · intro r hr; simp [initG] at hr
  · exact ⟨fun p cs h => (by simp [initG, aget] at h), fun p qs h => (by simp [initG, aget] at h)⟩

end Uniflow.FlowN
