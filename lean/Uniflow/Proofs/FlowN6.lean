/-
C02, joint model, all node kinds, part 6: `deliverAll` for the abstract-tracer ghost – the nodes behind the linked
readers get the copies into the inbox of the thread of the in-port they were delivered to, nothing else changes.
-/
import Uniflow.Proofs.FlowN5

namespace Uniflow.FlowN
open Uniflow.Tracer Uniflow.Node Uniflow.Flow Uniflow.FlowInv Uniflow.FlowG Uniflow.ATracer Uniflow.FlowH Uniflow.FlowM
open Uniflow.ATracer (getL_setOrDel getL_aset)

/-- the node part of the invariant -/
structure NIH (kinds : List Kind) (aa : Nat → A) (nodes : List Node) (nx : Nat) : Prop where
  len : ∀ n, (getNode nodes n).isSome = true ↔ n < kinds.length
  kindEq : ∀ n nd, getNode nodes n = some nd → kinds[n]? = some nd.kind
  thr : ∀ n nd, getNode nodes n = some nd → nd.threads.length = nIn nd.kind
  jb : ∀ n nd, getNode nodes n = some nd → JBm nd (aa n) nx

/-- append `f (i + j)` to the inbox of the `j`-th thread -/
def addIn : List Thread → Nat → (Nat → List Pkt) → List Thread
  | [], _, _ => []
  | th :: ths, i, f => { th with inbox := th.inbox ++ f i } :: addIn ths (i + 1) f

def addInbox (nd : Node) (f : Nat → List Pkt) : Node := { nd with threads := addIn nd.threads 0 f }

theorem addIn_congr : ∀ (ths : List Thread) (i : Nat) (f f' : Nat → List Pkt),
    (∀ j, j < ths.length → f (i + j) = f' (i + j)) → addIn ths i f = addIn ths i f'
  | [], _, _, _, _ => rfl
  | th :: ths, i, f, f', h => by
    simp only [addIn]
    have h0 := h 0 (by simp)
    rw [Nat.add_zero] at h0
    rw [h0, addIn_congr ths (i + 1) f f' (fun j hj => by
      have := h (j + 1) (by simp only [List.length_cons]; omega)
      rw [Nat.add_assoc, Nat.add_comm 1 j]; exact this)]

theorem addIn_nil : ∀ (ths : List Thread) (i : Nat), addIn ths i (fun _ => []) = ths
  | [], _ => rfl
  | th :: ths, i => by simp only [addIn, List.append_nil, addIn_nil ths (i + 1)]

theorem addIn_add : ∀ (ths : List Thread) (i : Nat) (f f' : Nat → List Pkt),
    addIn (addIn ths i f) i f' = addIn ths i (fun p => f p ++ f' p)
  | [], _, _, _ => rfl
  | th :: ths, i, f, f' => by simp only [addIn, List.append_assoc, addIn_add ths (i + 1) f f']

theorem addIn_length : ∀ (ths : List Thread) (i : Nat) (f : Nat → List Pkt), (addIn ths i f).length = ths.length
  | [], _, _ => rfl
  | _ :: ths, i, f => by simp only [addIn, List.length_cons, addIn_length ths (i + 1) f]

theorem getThread_addIn : ∀ (ths : List Thread) (i j : Nat) (f : Nat → List Pkt),
    getThread (addIn ths i f) j = (getThread ths j).map (fun th => { th with inbox := th.inbox ++ f (i + j) })
  | [], _, _, _ => rfl
  | th :: ths, i, 0, f => by simp [addIn, getThread]
  | th :: ths, i, j + 1, f => by
    simp only [addIn, getThread, getThread_addIn ths (i + 1) j f]
    rw [Nat.add_assoc, Nat.add_comm 1 j]

theorem setThread_addIn : ∀ (ths : List Thread) (i port : Nat) (th : Thread) (ps : List Pkt),
    getThread ths port = some th →
    setThread ths port { th with inbox := th.inbox ++ ps } = addIn ths i (fun p => if p = i + port then ps else [])
  | [], _, _, _, _, h => by simp [getThread] at h
  | t :: ths, i, 0, th, ps, h => by
    simp only [getThread, Option.some.injEq] at h; subst h
    simp only [setThread, addIn, Nat.add_zero, if_true]
    rw [addIn_congr ths (i + 1) _ (fun _ => []) (fun j _ => by
      have : i + 1 + j ≠ i := by omega
      simp [this]), addIn_nil]
  | t :: ths, i, port + 1, th, ps, h => by
    simp only [getThread] at h
    have hne : i ≠ i + (port + 1) := by omega
    simp only [setThread, addIn, hne, if_false, List.append_nil]
    rw [setThread_addIn ths (i + 1) port th ps h]
    congr 2
    funext p
    rw [Nat.add_assoc, Nat.add_comm 1 port]

theorem addInbox_nil (nd : Node) : addInbox nd (fun _ => []) = nd := by
  simp only [addInbox, addIn_nil]

theorem addInbox_add (nd : Node) (f f' : Nat → List Pkt) :
    addInbox (addInbox nd f) f' = addInbox nd (fun p => f p ++ f' p) := by
  simp only [addInbox, addIn_add]

theorem addInbox_congr (nd : Node) (f f' : Nat → List Pkt) (h : ∀ j, j < nd.threads.length → f j = f' j) :
    addInbox nd f = addInbox nd f' := by
  simp only [addInbox]
  rw [addIn_congr nd.threads 0 f f' (fun j hj => by rw [Nat.zero_add]; exact h j hj)]

theorem heldN_addInbox (nd : Node) (a : A) (f : Nat → List Pkt) (port : Nat) (hp : port < nd.threads.length) :
    heldN (addInbox nd f) a port = heldN nd a port ++ (f port).map (·.id) := by
  obtain ⟨th, hth⟩ := getThread_some nd.threads port hp
  simp only [heldN, inboxOf, addInbox, getThread_addIn, hth, Option.map_some, Nat.zero_add, List.map_append,
    List.append_assoc]

/-- the reader key of an in-port of the class determines node and port -/
theorem rkey_node_eq (m m' port port' : Nat) (hp : port < 64) (hp' : port' < 64)
    (e : rkeyOf (.node m port) = rkeyOf (.node m' port')) : m = m' ∧ port = port' := by
  simp only [rkeyOf] at e; omega

theorem deliver_eqH (kinds : List Kind) (hN : kinds.length ≤ 1000) (hK : ∀ k ∈ kinds, KindOK k) (aa : Nat → A) (g : G)
    (key : Nat) (v : Val) (t : Tgt) (h : NIH kinds aa g.nodes g.next) (ht : TOK kinds t) :
    deliver g key v t = pushG g key v t ∧ NIH kinds aa (pushG g key v t).nodes (g.next + 1) ∧
    (∀ m nd, getNode g.nodes m = some nd →
      getNode (pushG g key v t).nodes m =
        some (addInbox nd (fun port => if rkeyOf t = rkeyOf (.node m port) then [⟨g.next, v⟩] else []))) := by
  cases t with
  | sink j =>
    refine ⟨rfl, ⟨h.len, h.kindEq, h.thr, fun n nd hn => jbm_mono _ _ _ _ (h.jb n nd hn) (Nat.le_succ _)⟩, ?_⟩
    intro m nd hm
    have hmN := (h.len m).mp (by rw [hm]; rfl)
    have hth := h.thr m nd hm
    have hk := hK _ (List.mem_of_getElem? (h.kindEq m nd hm))
    rw [addInbox_congr nd _ (fun _ => []) (fun q hq => by
      have : q < 63 + 1 := Nat.lt_succ_of_le (Nat.le_trans (Nat.le_of_lt hq) (by rw [hth]; exact nIn_le _ hk))
      have : rkeyOf (.sink j) ≠ rkeyOf (.node m q) := by simp only [rkeyOf]; omega
      simp [this]), addInbox_nil]
    exact hm
  | node m' port' =>
    obtain ⟨k', hk', hp'⟩ := ht
    have hm' : m' < kinds.length := (List.getElem?_eq_some_iff.mp hk').1
    cases hg : getNode g.nodes m' with
    | none => have := (h.len m').mpr hm'; rw [hg] at this; cases this
    | some ndm =>
      have hjb := h.jb m' ndm hg
      have hke := h.kindEq m' ndm hg
      rw [hk'] at hke
      simp only [Option.some.injEq] at hke
      have hlen : port' < ndm.threads.length := by rw [h.thr m' ndm hg, ← hke]; exact hp'
      obtain ⟨th, hth⟩ := getThread_some ndm.threads port' hlen
      obtain ⟨hst, hjb'⟩ := jbm_deliver ndm (aa m') g.next hjb port' th hth g.next v (Nat.le_refl _)
      have hp63 : port' < 64 := by
        have := nIn_le _ (hK _ (List.mem_of_getElem? hk')); omega
      have hadd : ({ ndm with threads := setThread ndm.threads port' { th with inbox := th.inbox ++ [⟨g.next, v⟩] } } : Node) =
          addInbox ndm (fun port => if rkeyOf (.node m' port') = rkeyOf (.node m' port) then [⟨g.next, v⟩] else []) := by
        simp only [addInbox]
        rw [setThread_addIn ndm.threads 0 port' th _ hth]
        congr 1
        apply addIn_congr
        intro j hj
        simp only [Nat.zero_add, rkeyOf]
        have hj64 : j < 64 := by
          have := nIn_le _ (hK _ (List.mem_of_getElem? (h.kindEq m' ndm hg))); rw [h.thr m' ndm hg] at hj; omega
        by_cases e : j = port'
        · subst e; simp
        · have e' : ¬ port' = j := fun e2 => e e2.symm
          simp [e, e']
      refine ⟨?_, ⟨?_, ?_, ?_, ?_⟩, ?_⟩
      · simp only [deliver, hg, hst, pushG, pushNodes, pushSinks]
      · simp only [pushG, pushNodes, hg, hst]
        exact nodesLen_set' g.nodes _ m' ndm _ hg h.len
      · intro n nd hn
        simp only [pushG, pushNodes, hg, hst] at hn
        rw [getNode_setNode g.nodes m' n _ (by rw [hg]; rfl)] at hn
        by_cases e : n = m'
        · simp only [e, if_true, Option.some.injEq] at hn; subst hn; rw [e]; exact h.kindEq m' ndm hg
        · simp only [e, if_false] at hn; exact h.kindEq n nd hn
      · intro n nd hn
        simp only [pushG, pushNodes, hg, hst] at hn
        rw [getNode_setNode g.nodes m' n _ (by rw [hg]; rfl)] at hn
        by_cases e : n = m'
        · simp only [e, if_true, Option.some.injEq] at hn; subst hn
          show (setThread ndm.threads port' _).length = _
          rw [length_setThread]; exact h.thr m' ndm hg
        · simp only [e, if_false] at hn; exact h.thr n nd hn
      · intro n nd hn
        simp only [pushG, pushNodes, hg, hst] at hn
        rw [getNode_setNode g.nodes m' n _ (by rw [hg]; rfl)] at hn
        by_cases e : n = m'
        · simp only [e, if_true, Option.some.injEq] at hn; subst hn; rw [e]; exact hjb'
        · simp only [e, if_false] at hn; exact jbm_mono _ _ _ _ (h.jb n nd hn) (Nat.le_succ _)
      · intro m nd hm
        simp only [pushG, pushNodes, hg, hst]
        rw [getNode_setNode g.nodes m' m _ (by rw [hg]; rfl)]
        by_cases e : m = m'
        · subst e
          rw [hg] at hm; simp only [Option.some.injEq] at hm; subst hm
          simp only [if_true, hadd]
        · simp only [e, if_false]
          have hth := h.thr m nd hm
          have hk := hK _ (List.mem_of_getElem? (h.kindEq m nd hm))
          rw [addInbox_congr nd _ (fun _ => []) (fun j hj => by
            have hj64 : j < 64 := by have := nIn_le _ hk; rw [hth] at hj; omega
            have : rkeyOf (.node m' port') ≠ rkeyOf (.node m j) :=
              fun e2 => e (rkey_node_eq m' m port' j hp63 hj64 e2).1.symm
            simp [this]), addInbox_nil]
          exact hm

theorem deliverAll_eqH (kinds : List Kind) (hN : kinds.length ≤ 1000) (hK : ∀ k ∈ kinds, KindOK k) (aa : Nat → A)
    (key : Nat) (v : Val) : ∀ (ts : List Tgt) (g : G),
    NIH kinds aa g.nodes g.next → (∀ t ∈ ts, TOK kinds t) →
    deliverAll key v ts g = (pushAllG key v ts g, List.range' g.next ts.length) ∧
    NIH kinds aa (pushAllG key v ts g).nodes (g.next + ts.length) ∧
    (∀ m nd, getNode g.nodes m = some nd →
      getNode (pushAllG key v ts g).nodes m =
        some (addInbox nd (fun port => (copyOf ts g.next (rkeyOf (.node m port))).map (fun c => ⟨c, v⟩))))
  | [], g, h, _ => ⟨rfl, h, fun m nd hm => by simp [pushAllG, copyOf, addInbox_nil, hm]⟩
  | t :: ts, g, h, ht => by
    obtain ⟨e1, h1, n1⟩ := deliver_eqH kinds hN hK aa g key v t h (ht t List.mem_cons_self)
    obtain ⟨e2, h2, n2⟩ := deliverAll_eqH kinds hN hK aa key v ts (pushG g key v t) h1
      (fun t' ht' => ht t' (List.mem_cons_of_mem _ ht'))
    refine ⟨?_, ?_, ?_⟩
    · simp only [deliverAll, e1, e2, pushAllG, List.length_cons, List.range'_succ]; rfl
    · simp only [pushAllG, List.length_cons]
      have : (pushG g key v t).next = g.next + 1 := rfl
      rw [this] at h2
      have e : g.next + (ts.length + 1) = g.next + 1 + ts.length := by
        rw [Nat.add_comm ts.length 1, Nat.add_assoc]
      rw [e]; exact h2
    · intro m nd hm
      simp only [pushAllG, copyOf]
      rw [n2 m _ (n1 m nd hm), addInbox_add]
      have : (pushG g key v t).next = g.next + 1 := rfl
      rw [this]
      congr 2
      funext port
      by_cases e : rkeyOf t = rkeyOf (.node m port)
      · simp [e]
      · simp [e]

end Uniflow.FlowN
