/-
C02, joint model, one-in-port node kinds, part 23: the programs of the class (links, then writes), and the
action's return.
-/
import Uniflow.Proofs.FlowH22

namespace Uniflow.FlowH
open Uniflow.Tracer Uniflow.Node Uniflow.Flow Uniflow.FlowInv Uniflow.FlowG Uniflow.ATracer
open Uniflow.ATracer (getL_setOrDel getL_aset)

theorem remOps_mkOps (p : Pid) (lk : List Pid) (wr : List (Wid × Pkt)) :
    remOps p (mkOps p lk wr) = lk ∧ ∀ p', p' ≠ p → remOps p' (mkOps p lk wr) = [] := by
  simp only [mkOps]
  induction lk with
  | nil =>
    simp only [List.map_nil, List.nil_append]
    exact ⟨remOps_writes p wr, fun p' _ => remOps_writes p' wr⟩
  | cons t ts ih =>
    simp only [List.map_cons, List.cons_append, remOps, if_true, ih.1]
    refine ⟨trivial, fun p' hp' => ?_⟩
    simp only [Ne.symm hp', if_false]; exact ih.2 p' hp'

theorem writeIds_mkOps (p : Pid) (lk : List Pid) (wr : List (Wid × Pkt)) :
    writeIds (mkOps p lk wr) = wr.map (·.2.id) := by
  simp only [mkOps]
  induction lk with
  | nil =>
    simp only [List.map_nil, List.nil_append]
    induction wr with
    | nil => rfl
    | cons x xs ih => simp [writeIds, ih]
  | cons t ts ih => simpa [writeIds] using ih

theorem wOK_mkOps (p : Pid) (lk : List Pid) (wr : List (Wid × Pkt)) (h : ∀ x ∈ wr, x.1 < maxW) :
    wOK (.emit (mkOps p lk wr)) := by
  intro w q hm
  simp only [mkOps, List.mem_append, List.mem_map] at hm
  rcases hm with ⟨t, _, e⟩ | ⟨x, hx, e⟩
  · cases e
  · simp only [Op.write.injEq, Option.some.injEq] at e; rw [← e.1]; exact h x hx

theorem validOuts_lt (n : Nat) : ∀ (i : Nat) (qs : List (Option Pkt)), ∀ x ∈ validOuts n i qs, x.1 < n
  | _, [], x, h => by simp [validOuts] at h
  | i, none :: qs, x, h => validOuts_lt n (i + 1) qs x (by simpa [validOuts] using h)
  | i, some q :: qs, x, h => by
    simp only [validOuts] at h
    split at h
    · simp only [List.mem_cons] at h
      rcases h with e | h
      · rw [e]; assumption
      · exact validOuts_lt n (i + 1) qs x h
    · exact validOuts_lt n (i + 1) qs x h

/-- a program of the class with at least one derived packet: links of all, then writes of all -/
theorem program_mk (kind : Kind) (p : Pkt) (o : Outcome) (ops : List Op) (hk : KindOK kind)
    (hp : program kind p o = some ops) (hne : linkTargets ops ≠ []) :
    ∃ lk wr, ops = mkOps p.id lk wr ∧ wr.map (·.2.id) = lk ∧ ∀ x ∈ wr, x.1 < maxW := by
  cases o with
  | err q =>
    simp only [program, Option.some.injEq] at hp; subst hp
    exact ⟨[q.id], [(errW, q)], rfl, rfl, by simp [errW, maxW]⟩
  | outs qs =>
    cases kind with
    | manyToOne _ => exact hk.elim
    | oneToOne =>
      simp only [program] at hp
      match qs, hp with
      | [some q], hp =>
        simp only [Option.some.injEq] at hp; subst hp
        exact ⟨[q.id], [(outW 0, q)], rfl, rfl, by simp [outW, maxW]⟩
    | oneToMany n =>
      simp only [program] at hp
      cases hv : validOuts n 0 qs with
      | nil =>
        simp only [hv, Option.some.injEq] at hp; subst hp
        simp [linkTargets] at hne
      | cons v vs =>
        simp only [hv, Option.some.injEq] at hp
        refine ⟨(v :: vs).map (·.2.id), (v :: vs).map (fun iq => (outW iq.1, iq.2)), ?_, ?_, ?_⟩
        · rw [← hp]; simp [mkOps, List.map_map, Function.comp_def]
        · simp [List.map_map, Function.comp_def]
        · intro x hx
          simp only [List.mem_map] at hx
          obtain ⟨iq, hiq, e⟩ := hx
          have := validOuts_lt n 0 qs iq (by rw [hv]; exact hiq)
          simp only [KindOK] at hk
          rw [← e]; show iq.1 + 1 < maxW; omega

theorem foldl_owner_other (lk : List Pid) (τ : Nat) : ∀ (m : List (Pid × Nat)) (id : Pid), id ∉ lk →
    aget (lk.foldl (fun m q => aset m q τ) m) id = aget m id := by
  induction lk with
  | nil => intro m id _; rfl
  | cons q qs ih =>
    intro m id hid
    simp only [List.mem_cons, not_or] at hid
    simp only [List.foldl_cons]
    rw [ih _ id hid.2, aget_aset]; simp [hid.1]

theorem foldl_owner_mem (lk : List Pid) (τ : Nat) : ∀ (m : List (Pid × Nat)) (id : Pid), id ∈ lk →
    aget (lk.foldl (fun m q => aset m q τ) m) id = some τ := by
  induction lk with
  | nil => intro m id h; simp at h
  | cons q qs ih =>
    intro m id hid
    simp only [List.foldl_cons]
    by_cases hm : id ∈ qs
    · exact ih _ id hm
    · simp only [List.mem_cons] at hid
      rcases hid with e | e
      · rw [foldl_owner_other qs τ _ id hm, aget_aset]; simp [e]
      · exact absurd e hm

end Uniflow.FlowH
