/-
No store operation changes the keys, the uniqueness flag or the filter of an existing index; `Index` adds one index with
the requested shape. Consequences: properties of the *shape* of the indexes (field-name keys, well-formed filters, "no
unique index besides the built-in one on id") are invariants of histories whose `Index` operations have them.
Core Lean only.
-/
import Uniflow.Proofs.Scan

namespace Uniflow.Index
open Uniflow.Value Uniflow.Store Uniflow.Plan Uniflow.Query

theorem Same.refl (a : Index) : Same a a := ⟨rfl, rfl, rfl⟩

/-- every index of `s'` has the shape of an index of `s` -/
def Shaped (s s' : State) : Prop := ∀ i' ∈ s'.indexes, ∃ idx ∈ s.indexes, Same i' idx

theorem Shaped.refl (s : State) : Shaped s s := fun i hi => ⟨i, hi, Same.refl i⟩

theorem Shaped.trans {a b c : State} (h1 : Shaped a b) (h2 : Shaped b c) : Shaped a c := by
  intro i hi
  obtain ⟨j, hj, hs⟩ := h2 i hi
  obtain ⟨k, hk, hs'⟩ := h1 j hj
  exact ⟨k, hk, hs.trans hs'⟩

theorem mapIdx_shape {f : Index → Res Index} (hf : ∀ idx i', f idx = .ok i' → Same i' idx) :
    ∀ {idxs r : List Index} {e : Option (Res Unit)}, mapIdx f idxs = (r, e) → ∀ i' ∈ r, ∃ idx ∈ idxs, Same i' idx
  | [], r, e, h => by simp [mapIdx] at h; obtain ⟨rfl, _⟩ := h; simp
  | i :: rest, r, e, h => by
    simp only [mapIdx] at h
    split at h
    · next i1 hf1 =>
      cases hm : mapIdx f rest with
      | mk r' e' =>
        rw [hm] at h
        simp only [Prod.mk.injEq] at h
        obtain ⟨rfl, _⟩ := h
        intro i' hi'
        rcases List.mem_cons.mp hi' with rfl | hi'
        · exact ⟨i, by simp, hf i _ hf1⟩
        · obtain ⟨idx, hidx, hs⟩ := mapIdx_shape hf hm i' hi'
          exact ⟨idx, by simp [hidx], hs⟩
    · simp only [Prod.mk.injEq] at h
      obtain ⟨rfl, _⟩ := h
      exact fun i' hi' => ⟨i', hi', Same.refl i'⟩
    · simp only [Prod.mk.injEq] at h
      obtain ⟨rfl, _⟩ := h
      exact fun i' hi' => ⟨i', hi', Same.refl i'⟩

theorem index_same {idx i' : Index} {d : PList} (h : index idx d = .ok i') : Same i' idx := (index_ok_full h).1

theorem unindex_same {idx i' : Index} {d : PList} (h : unindex idx d = .ok i') : Same i' idx := by
  unfold unindex at h
  simp only at h
  split at h
  · simp at h
  · simp only [Res.ok.injEq] at h; subst h; exact ⟨rfl, rfl, rfl⟩

theorem Shaped_segStore (s : State) (d : PList) : Shaped s (segStore s d).1 := by
  unfold segStore
  simp only
  split
  · exact Shaped.refl s
  · split
    · exact Shaped.refl s
    · split
      · exact Shaped.refl s
      · cases hm : mapIdx (fun idx => index idx d) s.indexes with
        | mk idxs e => exact mapIdx_shape (fun idx i' h => index_same h) hm

theorem Shaped_segSwap (s : State) (d : PList) : Shaped s (segSwap s d).1 := by
  unfold segSwap
  simp only
  split
  · exact Shaped.refl s
  · split
    · exact Shaped.refl s
    · next old _ =>
      split
      · exact Shaped.refl s
      · cases hm : mapIdx (fun idx => (unindex idx old).bind fun idx' => index idx' d) s.indexes with
        | mk idxs e =>
          refine mapIdx_shape (fun idx i' h => ?_) hm
          cases hu : unindex idx old with
          | ok i1 =>
            rw [hu] at h
            exact (index_same h).trans (unindex_same hu)
          | err e => rw [hu] at h; simp [Res.bind] at h
          | panic => rw [hu] at h; simp [Res.bind] at h

theorem Shaped_segDelete (s : State) (id : Val) : Shaped s (segDelete s id).1 := by
  unfold segDelete
  split
  · exact Shaped.refl s
  · next old _ =>
    cases hm : mapIdx (fun idx => unindex idx old) s.indexes with
    | mk idxs e => exact mapIdx_shape (fun idx i' h => unindex_same h) hm

theorem Shaped_storeInsert : ∀ (ds : List PList) (s : State), Shaped s (storeInsert s ds).1
  | [], s => Shaped.refl s
  | d :: ds, s => by
    have h1 := Shaped_segStore s d
    simp only [storeInsert]
    split
    · next s' heq => rw [heq] at h1; exact h1.trans (Shaped_storeInsert ds s')
    · exact h1

theorem Shaped_swapAll : ∀ (ds : List PList) (s : State), Shaped s (swapAll s ds).1
  | [], s => Shaped.refl s
  | d :: ds, s => by
    have h1 := Shaped_segSwap s d
    simp only [swapAll]
    split
    · next s' heq => rw [heq] at h1; exact h1.trans (Shaped_swapAll ds s')
    · exact h1

theorem Shaped_deleteAll : ∀ (ds : List PList) (s : State), Shaped s (deleteAll s ds).1
  | [], s => Shaped.refl s
  | d :: ds, s => by
    have h1 := Shaped_segDelete s (mget d keyId)
    simp only [deleteAll]
    split
    · next s' heq => rw [heq] at h1; exact h1.trans (Shaped_deleteAll ds s')
    · exact h1

theorem Shaped_storeUpdate (s : State) (f : Option Val) (u : PList) (up : Bool) : Shaped s (storeUpdate s f u up).1 := by
  unfold storeUpdate
  repeat' split
  all_goals first
    | exact Shaped.refl s
    | (rw [liftN_state]; first | exact Shaped_segStore s _ | exact Shaped_swapAll _ s)

theorem Shaped_storeDelete (s : State) (f : Option Val) : Shaped s (storeDelete s f).1 := by
  unfold storeDelete
  split
  · exact Shaped.refl s
  · exact Shaped.refl s
  · rw [liftN_state]; exact Shaped_deleteAll _ s

/-- the shape of every index after one operation: that of an index before it, or the one an `Index` asked for -/
theorem step_shape (s : State) (op : Op) : ∀ i' ∈ (step s op).1.indexes,
    (∃ idx ∈ s.indexes, Same i' idx) ∨
      (∃ keys u f, op = .index keys u f ∧ i'.keys = keys ∧ i'.unique = u ∧ i'.filter = f) := by
  intro i' hi'
  cases op with
  | insert ds => exact Or.inl (Shaped_storeInsert ds s i' hi')
  | update f u up => exact Or.inl (Shaped_storeUpdate s f u up i' hi')
  | delete f => exact Or.inl (Shaped_storeDelete s f i' hi')
  | find f sort skip limit =>
    simp only [step] at hi'
    split at hi' <;> exact Or.inl ⟨i', hi', Same.refl i'⟩
  | index keys unique f =>
    simp only [step, storeIndex] at hi'
    split at hi'
    · next idx hb =>
      simp only [List.mem_append, List.mem_filter, List.mem_singleton] at hi'
      rcases hi' with hi' | rfl
      · exact Or.inl ⟨i', hi'.1, Same.refl i'⟩
      · obtain ⟨hs, _⟩ := build_full s.docs hb
        exact Or.inr ⟨keys, unique, f, rfl, hs.1, hs.2.1, hs.2.2⟩
    · exact Or.inl ⟨i', hi', Same.refl i'⟩
    · exact Or.inl ⟨i', hi', Same.refl i'⟩
  | unindex keys =>
    simp only [step, storeUnindex, List.mem_filter] at hi'
    exact Or.inl ⟨i', hi'.1, Same.refl i'⟩

/-! ### histories whose `Index` operations are over field names with well-formed filters -/

def GoodOp : Op → Prop
  | .index keys _ f => (∀ k ∈ keys, FieldKey k) ∧ ∀ φ, f = some φ → wf φ = true
  | _ => True

def GoodOps (ops : List Op) : Prop := ∀ op ∈ ops, GoodOp op

def GoodState (s : State) : Prop := ∀ idx ∈ s.indexes, GoodIdx idx

theorem GoodIdx_same {a b : Index} (h : Same a b) (hb : GoodIdx b) : GoodIdx a := by
  unfold GoodIdx at *
  rw [h.1, h.2.2]; exact hb

theorem GoodState_step {s : State} {op : Op} (hs : GoodState s) (ho : GoodOp op) : GoodState (step s op).1 := by
  intro i' hi'
  rcases step_shape s op i' hi' with ⟨idx, hi, hsame⟩ | ⟨keys, u, f, rfl, hk, _, hf⟩
  · exact GoodIdx_same hsame (hs idx hi)
  · unfold GoodIdx; rw [hk, hf]; exact ho

theorem GoodState_run : ∀ (ops : List Op) {s : State}, GoodState s → GoodOps ops → GoodState (run s ops)
  | [], _, h, _ => h
  | op :: ops, _, h, ho =>
    GoodState_run ops (GoodState_step h (ho op (by simp))) (fun o h' => ho o (by simp [h']))

theorem GoodState_init : GoodState init := by
  intro idx hi
  simp [init] at hi
  subst hi
  exact ⟨fun k hk => by simp at hk; subst hk; exact ⟨[105, 100], rfl, by decide⟩, fun φ h => by simp at h⟩

end Uniflow.Index
