/-
C02, joint model, one-in-port node kinds, part 25: the schedules of class T3 and the step `release`.
-/
import Uniflow.Proofs.FlowH24

namespace Uniflow.FlowH
open Uniflow.Tracer Uniflow.Node Uniflow.Flow Uniflow.FlowInv Uniflow.FlowG Uniflow.ATracer
open Uniflow.ATracer (getL_setOrDel getL_aset)

/-- the schedules of class T3: the source sends, a sink answers, an action returns one new packet
(`out`, on the first out port), one new error packet, or – in a one-to-many node – new packets on several
out ports, at least one of them on an existing port -/
def ExtT3 (kinds : List Kind) : Ext → Prop
  | .send _ => True
  | .sinkAnswer _ _ => True
  | .release n (.out _) => kinds[n]? = none ∨ kinds[n]? = some .oneToOne ∨ ∃ k, kinds[n]? = some (.oneToMany (k + 1))
  | .release _ (.err _) => True
  | .release n (.many vs) => ∃ k, kinds[n]? = some (.oneToMany k) ∧ ∃ j v, j < k ∧ vs[j]? = some (some v)
  | _ => False

theorem allocOuts_some : ∀ (vs : List (Option Val)) (c : Pid) (j : Nat) (v : Val), vs[j]? = some (some v) →
    ∃ q, (allocOuts vs c).1[j]? = some (some q)
  | [], _, _, _, h => by simp at h
  | none :: vs, c, 0, v, h => by simp at h
  | some v0 :: vs, c, 0, v, _ => ⟨⟨c, v0⟩, by simp [allocOuts]⟩
  | none :: vs, c, j + 1, v, h => by
    simp only [List.getElem?_cons_succ] at h
    obtain ⟨q, hq⟩ := allocOuts_some vs c j v h
    exact ⟨q, by simpa [allocOuts] using hq⟩
  | some v0 :: vs, c, j + 1, v, h => by
    simp only [List.getElem?_cons_succ] at h
    obtain ⟨q, hq⟩ := allocOuts_some vs (c + 1) j v h
    exact ⟨q, by simpa [allocOuts] using hq⟩

theorem validOuts_ne (n : Nat) : ∀ (qs : List (Option Pkt)) (i j : Nat) (q : Pkt), qs[j]? = some (some q) → i + j < n →
    validOuts n i qs ≠ []
  | [], _, _, _, h, _ => by simp at h
  | none :: qs, i, 0, q, h, _ => by simp at h
  | some q0 :: qs, i, 0, q, _, hlt => by simp only [validOuts]; rw [if_pos (by omega)]; simp
  | none :: qs, i, j + 1, q, h, hlt => by
    simp only [List.getElem?_cons_succ] at h
    simp only [validOuts]; exact validOuts_ne n qs (i + 1) j q h (by omega)
  | some q0 :: qs, i, j + 1, q, h, hlt => by
    simp only [List.getElem?_cons_succ] at h
    simp only [validOuts]
    split
    · simp
    · exact validOuts_ne n qs (i + 1) j q h (by omega)

theorem action_single (th : Thread) (i : Nat) (p : Pkt) (h : actionThread [th] 0 = some (i, p)) :
    i = 0 ∧ ∃ grp, th = { inbox := th.inbox, pc := .action p grp } := by
  obtain ⟨inbox, pc⟩ := th
  cases pc with
  | idle => simp [actionThread] at h
  | emit _ => simp [actionThread] at h
  | action p' grp =>
    simp only [actionThread, Option.some.injEq, Prod.mk.injEq] at h
    exact ⟨h.1.symm, grp, by rw [h.2]⟩

/-- what `release` needs from the class: the action's result yields a program with at least one link, and the
packets it introduces are new -/
def ProgOK (kind : Kind) (p : Pkt) (o : Outcome) (c nx : Pid) : Prop :=
  ∃ ops, program kind p o = some ops ∧ linkTargets ops ≠ [] ∧ (introS (.finish 0 o)).Nodup ∧
    (∀ k ∈ introS (.finish 0 o), c ≤ k ∧ k < nx) ∧ c ≤ nx

theorem prog_err (kind : Kind) (p : Pkt) (c : Pid) (v : Val) : ProgOK kind p (.err { id := c, pay := v }) c (c + 1) :=
  ⟨_, rfl, by simp [linkTargets], by simp [introS], by simp [introS], Nat.le_succ _⟩

theorem prog_out (kind : Kind) (p : Pkt) (c : Pid) (v : Val) (hk : kind = .oneToOne ∨ ∃ k, kind = .oneToMany (k + 1)) :
    ProgOK kind p (.outs [some { id := c, pay := v }]) c (c + 1) := by
  rcases hk with e | ⟨k, e⟩
  · subst e
    exact ⟨_, rfl, by simp [linkTargets], by simp [introS, cellsOf], by simp [introS, cellsOf], Nat.le_succ _⟩
  · subst e
    refine ⟨[.link p.id c, .write (some (outW 0)) { id := c, pay := v }], by simp [program, validOuts], ?_,
      by simp [introS, cellsOf], by simp [introS, cellsOf], Nat.le_succ _⟩
    simp [linkTargets]

theorem prog_many (k : Nat) (p : Pkt) (c : Pid) (vs : List (Option Val)) (j : Nat) (v : Val) (hj : j < k)
    (hv : vs[j]? = some (some v)) :
    ProgOK (.oneToMany k) p (.outs (allocOuts vs c).1) c (allocOuts vs c).2 := by
  obtain ⟨a1, a2, a3⟩ := allocOuts_ids vs c
  obtain ⟨q, hq⟩ := allocOuts_some vs c j v hv
  have hvo := validOuts_ne k (allocOuts vs c).1 0 j q hq (by omega)
  cases hvl : validOuts k 0 (allocOuts vs c).1 with
  | nil => exact absurd hvl hvo
  | cons x xs =>
    refine ⟨(x :: xs).map (fun iq => Op.link p.id iq.2.id) ++ (x :: xs).map (fun iq => Op.write (some (outW iq.1)) iq.2),
      by simp only [program, hvl], ?_, by simpa [introS] using a1, by simpa [introS] using a2, a3⟩
    simp [linkTargets]

end Uniflow.FlowH
