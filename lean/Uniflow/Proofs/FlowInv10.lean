/-
C02, joint model, part 10 of the invariant proof: a sink answers its oldest request.
-/
import Uniflow.Proofs.FlowInv9

namespace Uniflow.FlowInv
open Uniflow.Tracer Uniflow.Node Uniflow.Flow
open Uniflow.NodeSpec (S EReq ESt Cur Rel curRead writesOf allIds flushS flushT markDone)
open Uniflow.ATracer (getL_setOrDel getL_aset)

theorem FI_sinkAns (N : Nat) (links : List (Nat × List Tgt)) (hwf : TreeWF N links) (ss : Nat → S) (g : G)
    (h : FI N links ss D0 g) (j : Nat) (c : Pid) (v : Val) (rest : List (Pid × Val)) (a : Ans)
    (hs : getL g.sinks j = (c, v) :: rest) :
    FI N links ss D0
      (gReply { g with sinks := setOrDel g.sinks j rest,
                       log := { g.log with sinkAns := aset g.log.sinkAns c a } } (rkeyOf (.sink j)) a) := by
  let lg' : Log := { g.log with sinkAns := aset g.log.sinkAns c a }
  let g' : G := { g with sinks := setOrDel g.sinks j rest, log := lg' }
  let D' := updD D0 (rkeyOf (.sink j)) [(c, a)]
  obtain ⟨hnd, hall⟩ := h.sinkOK j
  have hcm : c ∈ (getL g.sinks j).map (·.1) := by rw [hs]; simp
  obtain ⟨hcu, hclt, hco⟩ := hall c hcm
  have hx : LogExt g.log lg' c := by
    refine ⟨hcu, fun x hxne => ⟨rfl, rfl, rfl, ?_⟩⟩
    show aget (aset g.log.sinkAns c a) x = _
    rw [aget_aset]; simp [hxne]
  have hsk : ∀ j', getL g'.sinks j' = if j' = j then rest else getL g.sinks j' := by
    intro j'; show getL (setOrDel g.sinks j rest) j' = _; rw [getL_setOrDel]
  have hheld : ∀ t, TgtOK t → heldD D' ss g'.sinks t = heldD D0 ss g.sinks t := by
    intro t htok
    cases t with
    | node m port =>
      simp only [TgtOK] at htok
      have : rkeyOf (.node m port) ≠ rkeyOf (.sink j) := by
        simp only [rkeyOf]; omega
      simp [heldD, heldAt, D', updD, this, D0]
    | sink j' =>
      by_cases e : j' = j
      · subst e
        simp [heldD, heldAt, D', updD, D0, hsk, hs]
      · have : rkeyOf (.sink j') ≠ rkeyOf (.sink j) := by simp only [rkeyOf]; omega
        simp [heldD, heldAt, D', updD, this, D0, hsk, e]
  have h1 : FI N links ss D' g' := by
    apply FI_build N links hwf ss ss D0 D' g g' h c (fun _ => False) rfl h.nodesLen h.rel
      (fun _ _ => rfl) (fun _ hf => hf.elim) hx (fun _ _ => rfl) (Nat.le_refl _)
    · intro id hid
      exact unlogged_ext g.log lg' c hx id (fun e => by rw [e] at hid; exact Nat.lt_irrefl _ (Nat.lt_of_lt_of_le hclt hid))
        (h.logBound id hid)
    · intro m _
      by_cases hm : m < N
      · apply sep_node N links ss D0 g h c _ hco m
        · simp only [rkeyOf]; have := hwf.small; omega
        · simp only [rkeyOf]; have := hwf.small; omega
      · rw [h.dflt m (Nat.le_of_not_lt hm)]; simp [unlIds, curUnl]
    · intro _ hf; exact hf.elim
    · intro _ hf; exact hf.elim
    · intro _ hf; exact hf.elim
    · intro _ hf; exact hf.elim
    · intro j'
      rw [hsk j']
      by_cases e : j' = j
      · subst e
        simp only [if_true]
        rw [hs] at hnd hall
        simp only [List.map_cons, List.nodup_cons] at hnd
        refine ⟨hnd.2, fun x hxm => ?_⟩
        obtain ⟨u1, u2, u3⟩ := hall x (by simp [hxm])
        refine ⟨unlogged_ext g.log lg' c hx x (fun e => hnd.1 (e ▸ hxm)) u1, u2, u3⟩
      · simp only [e, if_false]
        obtain ⟨n1, n2⟩ := h.sinkOK j'
        refine ⟨n1, fun x hxm => ?_⟩
        obtain ⟨u1, u2, u3⟩ := n2 x hxm
        refine ⟨unlogged_ext g.log lg' c hx x ?_ u1, u2, u3⟩
        intro e2; subst e2
        rw [hco] at u3
        simp only [rkeyOf, Option.some.injEq] at u3; omega
    · exact h.rootsB
    · intro rk x hxm
      simp only [D', updD] at hxm
      split at hxm
      · simp only [List.mem_singleton] at hxm
        subst hxm
        apply ra_sink
        · exact hcu.2.2.1
        · show aget (aset g.log.sinkAns c a) c = _
          rw [aget_aset]; simp
      · simp [D0] at hxm
    · intro key t hl
      have htok : TgtOK t := by
        cases t with
        | sink _ => trivial
        | node m port =>
          obtain ⟨a1, a2⟩ := hwf.tnode key m port (by rw [hl]; simp)
          exact ⟨a2, Nat.lt_of_lt_of_le a1 hwf.small⟩
      rw [hheld t htok]
      exact wk_ext g.log lg' c hx _ _ _ _ _ (wkAll_of_FI N links hwf ss D0 g h key t hl)
    · exact srcq_nil N links hwf ss D0 g h
    · exact ⟨h.respOK.1, all2_mono _ _ (fun p a => ra_ext g.log lg' c hx p a) _ _ h.respOK.2⟩
    · intro t htok hno; rw [hheld t htok]; exact h.nofeed t htok hno
    · exact h.wq0
    · exact ordAt_none lg' c g.next hcu.2.1 hcu.1
  have h2 := FI_gReply N links hwf ss D' g' (.sink j) c a [] h1 True.intro (by simp [D', updD])
  rw [updD_updD, updD_D0] at h2
  exact h2

end Uniflow.FlowInv
