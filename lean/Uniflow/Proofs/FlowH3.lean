/-
C02, joint model over the abstract tracer, part 3: what a writer still owes (`pendH`), updating one node's ghost
(`updA`), key arithmetic, the programs of the classes (links, then writes).
-/
import Uniflow.Proofs.FlowH2

namespace Uniflow.FlowH
open Uniflow.Tracer Uniflow.Node Uniflow.Flow Uniflow.FlowInv Uniflow.FlowG Uniflow.ATracer
open Uniflow.ATracer (getL_setOrDel getL_aset)

/-- a node kind with one in-port whose out-writers fit the pump (`maxW`) -/
def KindOK : Kind → Prop
  | .oneToOne => True
  | .oneToMany k => k + 1 < maxW
  | .manyToOne _ => False

/-- class T3: one-to-one and one-to-many nodes, arbitrary forward links -/
structure GraphWF3 (kinds : List Kind) (links : List (Nat × List Tgt)) : Prop where
  small : kinds.length ≤ 1000
  kindsOK : ∀ k ∈ kinds, KindOK k
  nodupT : ∀ key, ((getL links key).map rkeyOf).Nodup
  tnode : ∀ key m port, Tgt.node m port ∈ getL links key → m < kinds.length ∧ port = 0
  src : getL links srcKey ≠ []
  keys : ∀ key, getL links key ≠ [] → key = srcKey ∨ ∃ n w, n < kinds.length ∧ w < maxW ∧ key = wkey n w
  fwd : ∀ n w m port, n < kinds.length → w < maxW → Tgt.node m port ∈ getL links (wkey n w) → n < m

/-- the packets writer `key` still owes answers for, oldest first -/
def pendH (aa : Nat → A) (roots : List Pid) (nresp : Nat) (key : Nat) : List Pid :=
  if key = srcKey then roots.drop nresp else getL (aa (key / 64)).wq (key % 64)

theorem getNode_map (kinds : List Kind) : ∀ n, getNode (kinds.map (fun k => Node.mk k)) n = (kinds[n]?).map (fun k => Node.mk k) := by
  induction kinds with
  | nil => intro n; simp [getNode]
  | cons k ks ih =>
    intro n
    cases n with
    | zero => simp [getNode]
    | succ n => simp [getNode, ih n]

theorem pendH_ne_src (aa : Nat → A) (roots : List Pid) (n n' key : Nat) (h : key ≠ srcKey) :
    pendH aa roots n key = pendH aa roots n' key := by
  simp only [pendH, h, if_false]

theorem pendH_src (aa : Nat → A) (roots : List Pid) (nresp : Nat) : pendH aa roots nresp srcKey = roots.drop nresp := by
  simp [pendH]

def updA (aa : Nat → A) (n : Nat) (a : A) : Nat → A := fun m => if m = n then a else aa m

theorem remOps_sub (p : Pid) : ∀ (ops : List Op), ∀ t ∈ remOps p ops, t ∈ linkTargets ops
  | [], t, h => by simp [remOps] at h
  | .link s t' :: ops, t, h => by
    simp only [remOps] at h
    simp only [linkTargets]
    by_cases e : s = t'
    · simp only [e, if_true] at h ⊢
      split at h <;> exact remOps_sub p ops t h
    · simp only [e, if_false] at h ⊢
      split at h
      · simp only [List.mem_cons] at h ⊢
        rcases h with h | h
        · exact Or.inl h
        · exact Or.inr (remOps_sub p ops t h)
      · exact List.mem_cons_of_mem _ (remOps_sub p ops t h)
  | .write _ _ :: ops, t, h => by
    simp only [remOps] at h
    simp only [linkTargets]; exact remOps_sub p ops t h

theorem remFor_sub (pc : PC) (p : Pid) : ∀ t ∈ remFor pc p, t ∈ pendIds pc := by
  intro t ht
  cases pc with
  | emit ops => exact remOps_sub p ops t ht
  | idle => simp [remFor] at ht
  | action _ _ => simp [remFor] at ht

theorem pendH_upd (aa : Nat → A) (n0 : Nat) (a' : A) (roots : List Pid) (nr key : Nat)
    (hwq : ∀ w, getL a'.wq w = getL (aa n0).wq w) :
    pendH (updA aa n0 a') roots nr key = pendH aa roots nr key := by
  simp only [pendH]
  split
  · rfl
  · simp only [updA]; split
    · rename_i e; rw [hwq, e]
    · rfl

theorem remOps_writes (p : Pid) : ∀ (wr : List (Wid × Pkt)), remOps p (wr.map (fun x => Op.write (some x.1) x.2)) = []
  | [] => rfl
  | x :: xs => by simp only [List.map_cons, remOps]; exact remOps_writes p xs

theorem alink_frame (a : A) (s t : Pid) : (alink a s t).reqs.map (·.p) = a.reqs.map (·.p) ∧ (alink a s t).wq = a.wq := by
  simp only [alink]
  split
  · exact ⟨rfl, rfl⟩
  · split
    · exact ⟨updReq_map_p _ _ _, rfl⟩
    · exact ⟨rfl, rfl⟩

theorem src_ne_wkey (n w N : Nat) (hn : n < N) (hN : N ≤ 1000) : srcKey ≠ wkey n w ∨ 64 ≤ w := by
  by_cases h : 64 ≤ w
  · exact Or.inr h
  · left; simp only [wkey, srcKey, srcNode]; omega

theorem key_eq_wkey (n w key' : Nat) (e2 : key' / 64 = n) (e3 : key' % 64 = w) : key' = wkey n w := by
  simp only [wkey]; omega

theorem wkey_div_mod (n w : Nat) (hw : w < 64) : wkey n w / 64 = n ∧ wkey n w % 64 = w := by
  simp only [wkey]; omega

theorem pendH_wkey (aa : Nat → A) (roots : List Pid) (nr n w N : Nat) (hn : n < N) (hN : N ≤ 1000) (hw : w < maxW) :
    pendH aa roots nr (wkey n w) = getL (aa n).wq w := by
  have hw64 : w < 64 := Nat.lt_of_lt_of_le hw (by decide)
  obtain ⟨d1, d2⟩ := wkey_div_mod n w hw64
  have : wkey n w ≠ srcKey := by
    rcases src_ne_wkey n w N hn hN with h | h
    · exact fun e => h e.symm
    · omega
  simp only [pendH, this, if_false, d1, d2]

theorem remOps_mkOps (p : Pid) (lk : List Pid) (wr : List (Wid × Pkt)) (hp : p ∉ lk) :
    remOps p (mkOps p lk wr) = lk ∧ ∀ p', p' ≠ p → remOps p' (mkOps p lk wr) = [] := by
  simp only [mkOps]
  induction lk with
  | nil =>
    simp only [List.map_nil, List.nil_append]
    exact ⟨remOps_writes p wr, fun p' _ => remOps_writes p' wr⟩
  | cons t ts ih =>
    simp only [List.mem_cons, not_or] at hp
    have ih := ih hp.2
    simp only [List.map_cons, List.cons_append, remOps, if_true, hp.1, if_false, ih.1]
    refine ⟨trivial, fun p' hp' => ?_⟩
    simp only [Ne.symm hp', if_false]; exact ih.2 p' hp'

theorem writeIds_mkOps (p : Pid) (lk : List Pid) (wr : List (Wid × Pkt)) :
    writeIds (mkOps p lk wr) = wr.map (·.2.id) := by
  simp only [mkOps]
  induction lk with
  | nil =>
    simp only [List.map_nil, List.nil_append]
    induction wr with
    | nil => rfl
    | cons x xs ih => simp [writeIds, ih]
  | cons t ts ih => simpa [writeIds] using ih

theorem wOK_mkOps (p : Pid) (lk : List Pid) (wr : List (Wid × Pkt)) (h : ∀ x ∈ wr, x.1 < maxW) :
    wOK (.emit (mkOps p lk wr)) := by
  intro w q hm
  simp only [mkOps, List.mem_append, List.mem_map] at hm
  rcases hm with ⟨t, _, e⟩ | ⟨x, hx, e⟩
  · cases e
  · simp only [Op.write.injEq, Option.some.injEq] at e; rw [← e.1]; exact h x hx

theorem validOuts_lt (n : Nat) : ∀ (i : Nat) (qs : List (Option Pkt)), ∀ x ∈ validOuts n i qs, x.1 < n
  | _, [], x, h => by simp [validOuts] at h
  | i, none :: qs, x, h => validOuts_lt n (i + 1) qs x (by simpa [validOuts] using h)
  | i, some q :: qs, x, h => by
    simp only [validOuts] at h
    split at h
    · simp only [List.mem_cons] at h
      rcases h with e | h
      · rw [e]; assumption
      · exact validOuts_lt n (i + 1) qs x h
    · exact validOuts_lt n (i + 1) qs x h

theorem foldl_owner_other (lk : List Pid) (τ : Nat) : ∀ (m : List (Pid × Nat)) (id : Pid), id ∉ lk →
    aget (lk.foldl (fun m q => aset m q τ) m) id = aget m id := by
  induction lk with
  | nil => intro m id _; rfl
  | cons q qs ih =>
    intro m id hid
    simp only [List.mem_cons, not_or] at hid
    simp only [List.foldl_cons]
    rw [ih _ id hid.2, aget_aset]; simp [hid.1]

theorem foldl_owner_mem (lk : List Pid) (τ : Nat) : ∀ (m : List (Pid × Nat)) (id : Pid), id ∈ lk →
    aget (lk.foldl (fun m q => aset m q τ) m) id = some τ := by
  induction lk with
  | nil => intro m id h; simp at h
  | cons q qs ih =>
    intro m id hid
    simp only [List.foldl_cons]
    by_cases hm : id ∈ qs
    · exact ih _ id hm
    · simp only [List.mem_cons] at hid
      rcases hid with e | e
      · rw [foldl_owner_other qs τ _ id hm, aget_aset]; simp [e]
      · exact absurd e hm

theorem updA_self (aa : Nat → A) (n : Nat) : updA aa n (aa n) = aa := by
  funext m; simp only [updA]; split
  · rename_i e; rw [e]
  · rfl

end Uniflow.FlowH
