/-
C02, joint model, one-in-port node kinds, part 3: the node's part of the ghost-log invariant, over the
abstract tracer state: per request the derived packets in link order (`acts`) match its cells – a linked
cell's packet is unlogged, a filled cell holds the reference answer of its packet.
-/
import Uniflow.Proofs.FlowH2

namespace Uniflow.FlowH
open Uniflow.Tracer Uniflow.Node Uniflow.Flow Uniflow.FlowInv Uniflow.FlowG Uniflow.ATracer

def optl (l : List Pid) : Option (List Pid) := if l = [] then none else some l

/-- the link targets still to come in the thread's program whose source is request `p` -/
def remOps (p : Pid) : List Op → List Pid
  | [] => []
  | .link s t :: ops => if s = p then t :: remOps p ops else remOps p ops
  | .write _ _ :: ops => remOps p ops

def remFor (pc : PC) (p : Pid) : List Pid :=
  match pc with
  | .emit ops => remOps p ops
  | _ => []

def CellA (lg : Log) (n : Nat) (q : Pid) : Cell → Prop
  | .linked q' => q' = q ∧ Unlogged lg q ∧ aget lg.owner q = some (qTag n)
  | .written q' _ => q' = q
  | .filled a => RA lg q a

def ReqA (lg : Log) (n : Nat) (pc : PC) (x : Req) : Prop :=
  match x.st with
  | .direct _ => False
  | .cells cs => ∃ qs, All2 (CellA lg n) qs cs ∧ aget lg.acts x.p = optl (qs ++ remFor pc x.p) ∧
      aget lg.echo x.p = none ∧ aget lg.sinkAns x.p = none ∧ aget lg.dels x.p = none ∧
      (remFor pc x.p = [] ∨ allLinked cs = true) ∧
      (∀ t ∈ remFor pc x.p, Unlogged lg t ∧ aget lg.owner t = some (qTag n))

/-- a request that derived no packet and was answered with itself (`Write(nil, in)`), not yet flushed -/
def ReqE (lg : Log) (pc : PC) (x : Req) : Prop :=
  ∃ v, x.st = .cells [.filled (.pay v)] ∧ aget lg.echo x.p = some v ∧ remFor pc x.p = []

def ReqB (lg : Log) (n : Nat) (pc : PC) (x : Req) : Prop := ReqA lg n pc x ∨ ReqE lg pc x

theorem reqB_A (lg : Log) (n : Nat) (pc : PC) (x : Req) (h : ReqB lg n pc x)
    (hne : ∀ v, x.st ≠ .cells [.filled (.pay v)]) : ReqA lg n pc x := by
  rcases h with h | ⟨v, e, _⟩
  · exact h
  · exact absurd e (hne v)

/-- the out-writers the remaining program writes to exist in the pump -/
def wOK : PC → Prop
  | .emit ops => ∀ w q, Op.write (some w) q ∈ ops → w < maxW
  | _ => True

/-- node `n` with forward thread `th` and abstract tracer state `a` agrees with the ghost log -/
structure NL (lg : Log) (n : Nat) (th : Thread) (a : A) : Prop where
  inb : ∀ p ∈ th.inbox, Unlogged lg p.id ∧ aget lg.owner p.id = some (n * 64)
  own : ∀ x ∈ a.reqs, aget lg.owner x.p = some (n * 64)
  req : ∀ x ∈ a.reqs, ReqB lg n th.pc x
  nz : ∀ x ∈ a.reqs, x.st = .cells [] →
    remFor th.pc x.p ≠ [] ∨ (∃ pk grp, th.pc = .action pk grp ∧ pk.id = x.p) ∨
    ∃ q, th.pc = .emit [.write none q] ∧ q.id = x.p
  wb : wOK th.pc

def linkedAll (a : A) : List Pid := a.reqs.flatMap (fun x => linkedIds (cellsOfSt x.st))

/-- the ids whose log entries the node's invariant speaks about -/
def nlIds (th : Thread) (a : A) : List Pid :=
  th.inbox.map (·.id) ++ a.reqs.map (·.p) ++ linkedAll a ++ a.reqs.flatMap (fun x => remFor th.pc x.p)

theorem cellA_ext (lg lg' : Log) (k : Pid) (hx : LogExt lg lg' k) (n : Nat) (q : Pid) (c : Cell)
    (hk : ∀ q', c = .linked q' → q' ≠ k) (ho : ∀ q', c = .linked q' → aget lg'.owner q' = aget lg.owner q')
    (h : CellA lg n q c) : CellA lg' n q c := by
  cases c with
  | linked q' =>
    obtain ⟨e, hu, hw⟩ := h
    subst e
    exact ⟨rfl, unlogged_ext lg lg' k hx q' (hk q' rfl) hu, by rw [ho q' rfl]; exact hw⟩
  | written q' w => exact h
  | filled a => exact ra_ext lg lg' k hx q a h

theorem all2_cellA_ext (lg lg' : Log) (k : Pid) (hx : LogExt lg lg' k) (n : Nat) : ∀ (qs : List Pid) (cs : List Cell),
    (∀ q' ∈ linkedIds cs, q' ≠ k ∧ aget lg'.owner q' = aget lg.owner q') →
    All2 (CellA lg n) qs cs → All2 (CellA lg' n) qs cs
  | [], [], _, _ => trivial
  | q :: qs, c :: cs, hk, h => by
    refine ⟨cellA_ext lg lg' k hx n q c ?_ ?_ h.1, all2_cellA_ext lg lg' k hx n qs cs ?_ h.2⟩
    · intro q' e; subst e; exact (hk q' (by simp [linkedIds])).1
    · intro q' e; subst e; exact (hk q' (by simp [linkedIds])).2
    · intro q' hq'
      apply hk q'
      cases c <;> simp [linkedIds, hq']
  | [], _ :: _, _, h => absurd h (by simp [All2])
  | _ :: _, [], _, h => absurd h (by simp [All2])

theorem all2_linked (lg : Log) (n : Nat) : ∀ (qs : List Pid) (cs : List Cell), All2 (CellA lg n) qs cs →
    ∀ q ∈ linkedIds cs, Unlogged lg q ∧ aget lg.owner q = some (qTag n)
  | [], [], _, q, hq => by simp [linkedIds] at hq
  | q0 :: qs, c :: cs, h, q, hq => by
    cases c with
    | linked q' =>
      simp only [linkedIds, List.mem_cons] at hq
      rcases hq with e | hq
      · obtain ⟨e1, u, o⟩ := h.1; rw [e, e1]; exact ⟨u, o⟩
      · exact all2_linked lg n qs cs h.2 q hq
    | written q' w => exact all2_linked lg n qs cs h.2 q (by simpa [linkedIds] using hq)
    | filled b => exact all2_linked lg n qs cs h.2 q (by simpa [linkedIds] using hq)
  | [], _ :: _, h, _, _ => absurd h (by simp [All2])
  | _ :: _, [], h, _, _ => absurd h (by simp [All2])

theorem mem_linkedAll (a : A) (x : Req) (cs : List Cell) (hx : x ∈ a.reqs) (hst : x.st = .cells cs) (q : Pid)
    (hq : q ∈ linkedIds cs) : q ∈ linkedAll a := by
  simp only [linkedAll, List.mem_flatMap]
  exact ⟨x, hx, by rw [hst]; exact hq⟩

/-- another part of the system extends the log at a key the node does not speak about -/
theorem nl_ext (lg lg' : Log) (k : Pid) (hx : LogExt lg lg' k) (n : Nat) (th : Thread) (a : A)
    (hk : k ∉ nlIds th a) (ho : ∀ id ∈ nlIds th a, aget lg'.owner id = aget lg.owner id)
    (h : NL lg n th a) : NL lg' n th a := by
  simp only [nlIds, List.mem_append, not_or] at hk
  obtain ⟨⟨⟨hk1, hk2⟩, hk3⟩, hk4⟩ := hk
  have ho1 : ∀ p ∈ th.inbox, aget lg'.owner p.id = aget lg.owner p.id :=
    fun p hp => ho p.id (by simp only [nlIds, List.mem_append]; left; left; left; exact List.mem_map_of_mem hp)
  have ho2 : ∀ x ∈ a.reqs, aget lg'.owner x.p = aget lg.owner x.p :=
    fun x hx' => ho x.p (by simp only [nlIds, List.mem_append]; left; left; right; exact List.mem_map_of_mem hx')
  refine ⟨?_, ?_, ?_, h.nz, h.wb⟩
  · intro p hp
    obtain ⟨u, o⟩ := h.inb p hp
    exact ⟨unlogged_ext lg lg' k hx p.id (fun e => hk1 (e ▸ List.mem_map_of_mem hp)) u, by rw [ho1 p hp]; exact o⟩
  · intro x hx'; rw [ho2 x hx']; exact h.own x hx'
  · intro x hx'
    have hne : x.p ≠ k := fun e => hk2 (e ▸ List.mem_map_of_mem hx')
    obtain ⟨s1, s2, s3, s4⟩ := hx.2 x.p hne
    rcases h.req x hx' with hr | ⟨v, e1, e2, e3⟩
    rotate_left
    · exact Or.inr ⟨v, e1, by rw [s3]; exact e2, e3⟩
    left
    simp only [ReqA] at hr ⊢
    cases hst : x.st with
    | direct w => rw [hst] at hr; exact hr
    | cells cs =>
      rw [hst] at hr
      obtain ⟨qs, a1, a2, a3, a4, a5, a6, a7⟩ := hr
      refine ⟨qs, ?_, by rw [s1]; exact a2, by rw [s3]; exact a3, by rw [s4]; exact a4, by rw [s2]; exact a5, a6, ?_⟩
      · apply all2_cellA_ext lg lg' k hx n qs cs _ a1
        intro q' hq'
        have hm := mem_linkedAll a x cs hx' hst q' hq'
        exact ⟨fun e => hk3 (e ▸ hm), ho q' (by simp only [nlIds, List.mem_append]; left; right; exact hm)⟩
      · intro t ht
        have hm : t ∈ a.reqs.flatMap (fun x => remFor th.pc x.p) := List.mem_flatMap.mpr ⟨x, hx', ht⟩
        obtain ⟨u, o⟩ := a7 t ht
        exact ⟨unlogged_ext lg lg' k hx t (fun e => hk4 (e ▸ hm)) u,
          by rw [ho t (by simp only [nlIds, List.mem_append]; right; exact hm)]; exact o⟩

/-- every id the invariant speaks about carries the node's owner tag -/
theorem nl_tag (lg : Log) (n : Nat) (th : Thread) (a : A) (h : NL lg n th a) :
    ∀ id ∈ nlIds th a, aget lg.owner id = some (n * 64) ∨ aget lg.owner id = some (qTag n) := by
  intro id hid
  simp only [nlIds, List.mem_append, List.mem_map, List.mem_flatMap, linkedAll] at hid
  rcases hid with ((⟨p, hp, e⟩ | ⟨x, hx, e⟩) | ⟨x, hx, hq⟩) | ⟨x, hx, ht⟩
  · left; rw [← e]; exact (h.inb p hp).2
  · left; rw [← e]; exact h.own x hx
  · right
    rcases h.req x hx with hr | ⟨v, e1, _, _⟩
    rotate_left
    · rw [e1] at hq; simp [cellsOfSt, linkedIds] at hq
    simp only [ReqA] at hr
    cases hst : x.st with
    | direct w => rw [hst] at hr; exact hr.elim
    | cells cs =>
      rw [hst] at hr hq
      obtain ⟨qs, a1, _⟩ := hr
      simp only [cellsOfSt] at hq
      exact (all2_linked lg n qs cs a1 id hq).2
  · right
    rcases h.req x hx with hr | ⟨v, _, _, e3⟩
    rotate_left
    · rw [e3] at ht; simp at ht
    simp only [ReqA] at hr
    cases hst : x.st with
    | direct w => rw [hst] at hr; exact hr.elim
    | cells cs =>
      rw [hst] at hr
      obtain ⟨qs, _, _, _, _, _, _, a7⟩ := hr
      exact (a7 id ht).2

end Uniflow.FlowH
