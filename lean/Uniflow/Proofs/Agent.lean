/-
Helper lemmas for C19 (frame bookkeeping of `Uniflow.Agent`).
-/
import Uniflow.Model.Agent

namespace Uniflow.Agent

abbrev Pair := Option Nat × Option Nat

/-- Column view of the inbound hook: fill the first pair without an in-packet. -/
def fillIn? (p : Nat) : List Pair → Option (List Pair)
  | [] => none
  | x :: xs => if x.1.isNone then some ((some p, x.2) :: xs) else (fillIn? p xs).map (x :: ·)

def fillOut? (p : Nat) : List Pair → Option (List Pair)
  | [] => none
  | x :: xs => if x.2.isNone then some ((x.1, some p) :: xs) else (fillOut? p xs).map (x :: ·)

def fillIn (p : Nat) (l : List Pair) : List Pair := (fillIn? p l).getD (l ++ [(some p, none)])
def fillOut (p : Nat) (l : List Pair) : List Pair := (fillOut? p l).getD (l ++ [(none, some p)])

theorem matchIn_fixed (k : Key) (f : Frame) :
    matchIn .fixed k f = (decide (f.key = k) && f.inPck.isNone) := by
  cases f; cases k
  simp only [matchIn, portMatch, Frame.key, Key.mk.injEq]
  rw [Bool.eq_iff_iff]
  simp [and_assoc]

theorem matchOut_fixed (k : Key) (f : Frame) :
    matchOut .fixed k f = (decide (f.key = k) && f.outPck.isNone) := by
  cases f; cases k
  simp only [matchOut, portMatch, Frame.key, Key.mk.injEq]
  rw [Bool.eq_iff_iff]
  simp [and_assoc]

theorem col_cons (k : Key) (f : Frame) (fs : List Frame) :
    col k (f :: fs) = if f.key = k then (f.inPck, f.outPck) :: col k fs else col k fs := by
  unfold col
  by_cases h : f.key = k <;> simp [h]

theorem col_append_one (k : Key) (f : Frame) (fs : List Frame) :
    col k (fs ++ [f]) = if f.key = k then col k fs ++ [(f.inPck, f.outPck)] else col k fs := by
  unfold col
  by_cases h : f.key = k <;> simp [List.filter_append, h]

/-! #### the inbound hook, seen through `col` -/

theorem fillFirst_in_same (k : Key) (p : Nat) (fs : List Frame) :
    (fillFirst (matchIn .fixed k) (fun f => { f with inPck := some p }) fs).map (col k) =
      fillIn? p (col k fs) := by
  induction fs with
  | nil => rfl
  | cons f fs ih =>
    simp only [fillFirst, matchIn_fixed]
    by_cases hk : f.key = k
    · by_cases hn : f.inPck.isNone = true
      · have hc : (decide (f.key = k) && f.inPck.isNone) = true := by simp [hk, hn]
        have hk2 : ({ f with inPck := some p } : Frame).key = k := by simpa [Frame.key] using hk
        rw [if_pos hc]
        simp only [Option.map_some]
        rw [col_cons, col_cons, if_pos hk, if_pos hk2]
        simp [fillIn?, hn]
      · simp only [hk, hn, decide_true, Bool.and_false, Bool.false_eq_true, if_false, col_cons, if_true,
          fillIn?, Option.map_map]
        rw [← ih, Option.map_map]
        congr 1
        funext l
        simp [col_cons, hk]
    · simp only [hk, decide_false, Bool.false_and, Bool.false_eq_true, if_false, col_cons, Option.map_map]
      rw [← ih]
      congr 1
      funext l
      simp [col_cons, hk]

theorem fillFirst_in_other (k k' : Key) (hne : k' ≠ k) (p : Nat) (fs fs' : List Frame)
    (h : fillFirst (matchIn .fixed k) (fun f => { f with inPck := some p }) fs = some fs') :
    col k' fs' = col k' fs := by
  induction fs generalizing fs' with
  | nil => simp [fillFirst] at h
  | cons f fs ih =>
    simp only [fillFirst, matchIn_fixed] at h
    by_cases hc : (decide (f.key = k) && f.inPck.isNone) = true
    · simp only [hc, if_true, Option.some.injEq] at h
      subst h
      have hk : f.key = k := by simp at hc; exact hc.1
      have : ¬ f.key = k' := by rw [hk]; exact fun e => hne e.symm
      have h2 : ¬ ({ f with inPck := some p } : Frame).key = k' := by simpa [Frame.key] using this
      rw [col_cons, col_cons, if_neg this, if_neg h2]
    · simp only [hc, Bool.false_eq_true, if_false, Option.map_eq_some_iff] at h
      obtain ⟨t, ht, rfl⟩ := h
      rw [col_cons, col_cons, ih t ht]

theorem col_inbound_same (k : Key) (p : Nat) (fs : List Frame) :
    col k (inbound .fixed k p fs) = fillIn p (col k fs) := by
  have h := fillFirst_in_same k p fs
  unfold inbound fillIn
  cases hf : fillFirst (matchIn .fixed k) (fun f => { f with inPck := some p }) fs with
  | some fs' => rw [hf] at h; simp only [Option.map_some] at h; simp [← h]
  | none =>
    rw [hf] at h; simp only [Option.map_none] at h
    simp [← h, col_append_one, Frame.key]

theorem col_inbound_other (k k' : Key) (hne : k' ≠ k) (p : Nat) (fs : List Frame) :
    col k' (inbound .fixed k p fs) = col k' fs := by
  unfold inbound
  cases hf : fillFirst (matchIn .fixed k) (fun f => { f with inPck := some p }) fs with
  | some fs' => exact fillFirst_in_other k k' hne p fs fs' hf
  | none =>
    rw [col_append_one, if_neg]
    intro e; apply hne; rw [← e]; cases k; rfl

/-! #### the outbound hook -/

theorem fillFirst_out_same (k : Key) (p : Nat) (fs : List Frame) :
    (fillFirst (matchOut .fixed k) (fun f => { f with outPck := some p }) fs).map (col k) =
      fillOut? p (col k fs) := by
  induction fs with
  | nil => rfl
  | cons f fs ih =>
    simp only [fillFirst, matchOut_fixed]
    by_cases hk : f.key = k
    · by_cases hn : f.outPck.isNone = true
      · have hc : (decide (f.key = k) && f.outPck.isNone) = true := by simp [hk, hn]
        have hk2 : ({ f with outPck := some p } : Frame).key = k := by simpa [Frame.key] using hk
        rw [if_pos hc]
        simp only [Option.map_some]
        rw [col_cons, col_cons, if_pos hk, if_pos hk2]
        simp [fillOut?, hn]
      · simp only [hk, hn, decide_true, Bool.and_false, Bool.false_eq_true, if_false, col_cons, if_true,
          fillOut?, Option.map_map]
        rw [← ih, Option.map_map]
        congr 1
        funext l
        simp [col_cons, hk]
    · simp only [hk, decide_false, Bool.false_and, Bool.false_eq_true, if_false, col_cons, Option.map_map]
      rw [← ih]
      congr 1
      funext l
      simp [col_cons, hk]

theorem fillFirst_out_other (k k' : Key) (hne : k' ≠ k) (p : Nat) (fs fs' : List Frame)
    (h : fillFirst (matchOut .fixed k) (fun f => { f with outPck := some p }) fs = some fs') :
    col k' fs' = col k' fs := by
  induction fs generalizing fs' with
  | nil => simp [fillFirst] at h
  | cons f fs ih =>
    simp only [fillFirst, matchOut_fixed] at h
    by_cases hc : (decide (f.key = k) && f.outPck.isNone) = true
    · simp only [hc, if_true, Option.some.injEq] at h
      subst h
      have hk : f.key = k := by simp at hc; exact hc.1
      have : ¬ f.key = k' := by rw [hk]; exact fun e => hne e.symm
      have h2 : ¬ ({ f with outPck := some p } : Frame).key = k' := by simpa [Frame.key] using this
      rw [col_cons, col_cons, if_neg this, if_neg h2]
    · simp only [hc, Bool.false_eq_true, if_false, Option.map_eq_some_iff] at h
      obtain ⟨t, ht, rfl⟩ := h
      rw [col_cons, col_cons, ih t ht]

theorem col_outbound_same (k : Key) (p : Nat) (fs : List Frame) :
    col k (outbound .fixed k p fs) = fillOut p (col k fs) := by
  have h := fillFirst_out_same k p fs
  unfold outbound fillOut
  cases hf : fillFirst (matchOut .fixed k) (fun f => { f with outPck := some p }) fs with
  | some fs' => rw [hf] at h; simp only [Option.map_some] at h; simp [← h]
  | none =>
    rw [hf] at h; simp only [Option.map_none] at h
    simp [← h, col_append_one, Frame.key]

theorem col_outbound_other (k k' : Key) (hne : k' ≠ k) (p : Nat) (fs : List Frame) :
    col k' (outbound .fixed k p fs) = col k' fs := by
  unfold outbound
  cases hf : fillFirst (matchOut .fixed k) (fun f => { f with outPck := some p }) fs with
  | some fs' => exact fillFirst_out_other k k' hne p fs fs' hf
  | none =>
    rw [col_append_one, if_neg]
    intro e; apply hne; rw [← e]; cases k; rfl

/-! #### filling a padded zip -/

theorem zipPad_nil_cons (b : Nat) (bs : List Nat) : zipPad [] (b :: bs) = (none, some b) :: zipPad [] bs := by
  simp [zipPad, padOut]

theorem fillIn_padOut (p : Nat) (outs : List Nat) : fillIn p (padOut outs) = zipPad [p] outs := by
  cases outs with
  | nil => simp [zipPad, padOut, fillIn, fillIn?]
  | cons b bs => simp [zipPad, padOut, fillIn, fillIn?]

theorem fillIn_zipPad (p : Nat) (ins outs : List Nat) :
    fillIn p (zipPad ins outs) = zipPad (ins ++ [p]) outs := by
  induction ins generalizing outs with
  | nil => simpa [zipPad] using fillIn_padOut p outs
  | cons a as ih =>
    cases outs with
    | nil =>
      have := ih []
      simp only [fillIn] at this ⊢
      simp only [zipPad, List.cons_append, fillIn?, Option.isNone_some, Bool.false_eq_true, if_false]
      cases h : fillIn? p (zipPad as []) with
      | none => rw [h] at this; simpa using this
      | some l => rw [h] at this; simpa using this
    | cons b bs =>
      have := ih bs
      simp only [fillIn] at this ⊢
      simp only [zipPad, List.cons_append, fillIn?, Option.isNone_some, Bool.false_eq_true, if_false]
      cases h : fillIn? p (zipPad as bs) with
      | none => rw [h] at this; simpa using this
      | some l => rw [h] at this; simpa using this

theorem fillOut_padOut (p : Nat) (outs : List Nat) : fillOut p (padOut outs) = padOut (outs ++ [p]) := by
  induction outs with
  | nil => simp [padOut, fillOut, fillOut?]
  | cons b bs ih =>
    simp only [fillOut] at ih ⊢
    simp only [padOut, List.cons_append, fillOut?, Option.isNone_some, Bool.false_eq_true, if_false]
    cases h : fillOut? p (padOut bs) with
    | none => rw [h] at ih; simpa using ih
    | some l => rw [h] at ih; simpa using ih

theorem fillOut_zipPad (p : Nat) (ins outs : List Nat) :
    fillOut p (zipPad ins outs) = zipPad ins (outs ++ [p]) := by
  induction ins generalizing outs with
  | nil => simpa [zipPad] using fillOut_padOut p outs
  | cons a as ih =>
    cases outs with
    | nil =>
      simp only [zipPad, List.nil_append, fillOut, fillOut?, Option.isNone_none, if_true, Option.getD_some]
    | cons b bs =>
      have := ih bs
      simp only [fillOut] at this ⊢
      simp only [zipPad, List.cons_append, fillOut?, Option.isNone_some, Bool.false_eq_true, if_false]
      cases h : fillOut? p (zipPad as bs) with
      | none => rw [h] at this; simpa using this
      | some l => rw [h] at this; simpa using this

end Uniflow.Agent
