/-
C02, joint model, all node kinds, part 18: the action of thread `i` returns nothing (the request will be answered
with itself); the tail of `release`.
-/
import Uniflow.Proofs.FlowN17

namespace Uniflow.FlowN
open Uniflow.Tracer Uniflow.Node Uniflow.Flow Uniflow.FlowInv Uniflow.FlowG Uniflow.ATracer Uniflow.FlowH Uniflow.FlowM
open Uniflow.ATracer (getL_setOrDel getL_aset)

theorem introS_finish (i j : Rid) (o : Outcome) : introS (.finish i o) = introS (.finish j o) := by
  cases o <;> rfl

theorem HI_finish_echo (kinds : List Kind) (links : List (Nat × List Tgt)) (hwf : GraphWF5 kinds links) (aa : Nat → A) (g : G)
    (h : HI kinds links aa D0 g) (n : Nat) (nd : Node) (i : Rid) (p : Pkt) (grp inbox : List Pkt)
    (hn : getNode g.nodes n = some nd) (hg : getThread nd.threads i = some { inbox := inbox, pc := .action p grp })
    (o : Outcome) (nx : Nat) (hp : program nd.kind p o = some [.write none p])
    (hnd : (introS (.finish i o)).Nodup) (hfr : ∀ k ∈ introS (.finish i o), g.next ≤ k ∧ k < nx) (hle : g.next ≤ nx) :
    ∃ nd', Node.step nd (.finish i o) = some (nd', []) ∧
      HI kinds links aa D0 { g with nodes := setNode g.nodes n nd', next := nx } := by
  have hjb := h.jb n nd hn
  have hnl := h.nl n nd hn i _ hg
  obtain ⟨hst, hjb'⟩ := jbm_finish nd (aa n) g.next nx hjb i p grp inbox hg o _ hp hnd hfr hle
  refine ⟨_, hst, ?_⟩
  have hub : Unlogged g.log nx := h.logBound nx hle
  have key := HI_thread_step kinds links hwf aa g h n nd
    { nd with threads := setThread nd.threads i { inbox := inbox, pc := .emit [.write none p] } } i _
    { inbox := inbox, pc := .emit [.write none p] } (aa n) g.log nx nx hn hg rfl (hths_of_set nd.threads i _ _ hg) hjb'
    (nlt_finish_echo g.log n i (aa n) p grp inbox hnl) (fun y hy _ => hy) (h.rdr n nd hn) hle
    (by
      rw [heldN_of _ (aa n) i { inbox := inbox, pc := .emit [.write none p] } (by
          show getThread (setThread nd.threads i _) i = _
          rw [hths_of_set nd.threads i _ _ hg]; simp),
        heldN_of nd (aa n) i _ hg])
    (fun _ _ => rfl) (fun _ => rfl) (logExt_refl g.log nx hub) (fun _ _ => rfl)
    (fun id hid => h.logBound id (Nat.le_trans hle hid)) (Or.inl hle) (Or.inl hle)
    (ordAt_none g.log nx nx hub.2.1 hub.1)
  rw [updA_self] at key
  exact HI_congr kinds links _ D0 _ _ key rfl rfl rfl rfl rfl rfl rfl rfl rfl

/-- the tail of `release` once the thread, the action's outcome `o` and the next free id `nx` are fixed -/
def relTail (g : G) (n : Nat) (nd : Node) (i : Nat) (p : Pkt) (o : Outcome) (nx : Pid) : Option G :=
  match Node.step nd (.finish i o) with
  | none => none
  | some (nd', ev) =>
    let outs := match program nd.kind p o with
      | some ops => (writeIds ops).filter (fun q => q != p.id)
      | none => []
    let lg := match outs with
      | [] => g.log
      | _ :: _ => { g.log with acts := aset g.log.acts p.id outs,
                               owner := outs.foldl (fun m q => aset m q (qTag n)) g.log.owner }
    some (settle settleFuel (putNode { g with next := nx, log := lg } n nd' ev))

theorem HIe_relTail (kinds : List Kind) (links : List (Nat × List Tgt)) (hwf : GraphWF5 kinds links) (g g' : G)
    (h : HIe kinds links g) (n : Nat) (nd : Node) (i : Nat) (p : Pkt) (grp inbox : List Pkt)
    (hn : getNode g.nodes n = some nd) (hg : getThread nd.threads i = some { inbox := inbox, pc := .action p grp })
    (o : Outcome) (nx : Pid) (hpo : ProgOK nd.kind p o g.next nx) (hs : relTail g n nd i p o nx = some g') :
    HIe kinds links g' := by
  obtain ⟨aa, h⟩ := h
  obtain ⟨ops, hp, hne, hnd, hfr, hle⟩ := hpo
  rw [introS_finish 0 i o] at hnd hfr
  obtain ⟨nd', hst, hfilt, key⟩ := HI_finish kinds links hwf aa g h n nd i p grp inbox hn hg o nx ops hp hne hnd hfr hle
  simp only [relTail, hst, hp, hfilt] at hs
  cases hlt : linkTargets ops with
  | nil => exact absurd hlt hne
  | cons c cs =>
    rw [hlt] at hs
    simp only [Option.some.injEq] at hs
    subst hs
    apply HIe_settle kinds links hwf
    rw [hlt] at key
    exact ⟨aa, HI_congr kinds links _ D0 _ _ key rfl rfl rfl rfl rfl rfl rfl rfl rfl⟩

theorem HIe_relTail_echo (kinds : List Kind) (links : List (Nat × List Tgt)) (hwf : GraphWF5 kinds links) (g g' : G)
    (h : HIe kinds links g) (n : Nat) (nd : Node) (i : Nat) (p : Pkt) (grp inbox : List Pkt)
    (hn : getNode g.nodes n = some nd) (hg : getThread nd.threads i = some { inbox := inbox, pc := .action p grp })
    (o : Outcome) (nx : Pid) (hpo : ProgE nd.kind p o g.next nx) (hs : relTail g n nd i p o nx = some g') :
    HIe kinds links g' := by
  obtain ⟨aa, h⟩ := h
  obtain ⟨hp, hnd, hfr, hle⟩ := hpo
  rw [introS_finish 0 i o] at hnd hfr
  obtain ⟨nd', hst, key⟩ := HI_finish_echo kinds links hwf aa g h n nd i p grp inbox hn hg o nx hp hnd hfr hle
  simp only [relTail, hst, hp, writeIds, List.filter, bne_self_eq_false, Option.some.injEq] at hs
  subst hs
  apply HIe_settle kinds links hwf
  exact ⟨aa, HI_congr kinds links _ D0 _ _ key rfl rfl rfl rfl rfl rfl rfl rfl rfl⟩

/-- `release` finds a thread that is inside its action -/
theorem actionThread_spec : ∀ (ths : List Thread) (k i : Nat) (p : Pkt), actionThread ths k = some (i, p) →
    ∃ j grp inbox, i = k + j ∧ getThread ths j = some { inbox := inbox, pc := .action p grp }
  | [], _, _, _, h => by simp [actionThread] at h
  | th :: ths, k, i, p, h => by
    obtain ⟨inbox, pc⟩ := th
    cases pc with
    | action p' grp =>
      simp only [actionThread, Option.some.injEq, Prod.mk.injEq] at h
      exact ⟨0, grp, inbox, h.1.symm, by rw [h.2]; rfl⟩
    | idle =>
      simp only [actionThread] at h
      obtain ⟨j, grp, inb, e, hj⟩ := actionThread_spec ths (k + 1) i p h
      exact ⟨j + 1, grp, inb, by omega, hj⟩
    | emit ops =>
      simp only [actionThread] at h
      obtain ⟨j, grp, inb, e, hj⟩ := actionThread_spec ths (k + 1) i p h
      exact ⟨j + 1, grp, inb, by omega, hj⟩

end Uniflow.FlowN
