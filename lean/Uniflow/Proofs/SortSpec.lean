/-
The model's sort and window satisfy the specification of a sorted find (Spec/FindSpec.lean): `sortDocs` returns a
permutation ordered by the comparator, `window` is skip-then-limit (Props/C10.lean `sort_sorted`, `find_sorted_spec`).
Core Lean only.
-/
import Uniflow.Spec.FindSpec
import Uniflow.Props.C14

namespace Uniflow.Store
open Uniflow.Value Uniflow.Query

/-- the model's comparator is the specification's -/
theorem sortCmp_eq (x y : PList) : ∀ spec : PList, sortCmp x y spec = refOrder spec x y
  | .nil => rfl
  | .cons field o rest => by
    simp only [sortCmp, refOrder, sortCmp_eq x y rest]
    have h1 : orderOf o = refDirection o := rfl
    rw [h1]
    rfl

theorem refOrder_antisymm (x y : PList) : ∀ spec : PList, refOrder spec x y = -refOrder spec y x
  | .nil => by simp [refOrder]
  | .cons field o rest => by
    simp only [refOrder]
    have h := C14.cmp_antisymm (valOf (mfind x field)) (valOf (mfind y field))
    have ih := refOrder_antisymm x y rest
    by_cases hc : cmp (valOf (mfind x field)) (valOf (mfind y field)) = 0
    · have hc' : cmp (valOf (mfind y field)) (valOf (mfind x field)) = 0 := by omega
      simp [hc, hc', ih]
    · have hc' : cmp (valOf (mfind y field)) (valOf (mfind x field)) ≠ 0 := by omega
      simp only [bne_iff_ne, ne_eq, hc, not_false_eq_true, if_true, hc']
      rw [h]; exact Int.neg_mul _ _

/-- one field in front of an order that is already a preorder -/
theorem T3_field {k a1 a2 a3 r1 r2 r3 : Int} (hk : k ≠ 0)
    (h1 : a1 = -1 ∨ a1 = 0 ∨ a1 = 1) (h2 : a2 = -1 ∨ a2 = 0 ∨ a2 = 1) (h3 : a3 = -1 ∨ a3 = 0 ∨ a3 = 1)
    (hT : T3 a1 a2 a3) (hT' : T3 (-a2) (-a1) (-a3)) (hr : T3 r1 r2 r3) :
    T3 (if a1 != 0 then a1 * k else r1) (if a2 != 0 then a2 * k else r2) (if a3 != 0 then a3 * k else r3) := by
  unfold T3 at *
  rcases h1 with rfl | rfl | rfl <;> rcases h2 with rfl | rfl | rfl <;> rcases h3 with rfl | rfl | rfl <;>
    simp at hT hT' ⊢ <;> omega

theorem refOrder_T3 (x y z : PList) : ∀ spec : PList, directed spec = true →
    T3 (refOrder spec x y) (refOrder spec y z) (refOrder spec x z)
  | .nil, _ => by simp [refOrder, T3]
  | .cons field o rest, hd => by
    simp only [directed, Bool.and_eq_true, bne_iff_ne, ne_eq] at hd
    simp only [refOrder]
    have a := valOf (mfind x field)
    exact T3_field hd.1 (C14.cmp_range _ _) (C14.cmp_range _ _) (C14.cmp_range _ _)
      ⟨C14.cmp_trans _ _ _, (C14.cmp_trans_strict _ _ _).1, (C14.cmp_trans_strict _ _ _).2⟩
      (by
        have t := (⟨C14.cmp_trans _ _ _, (C14.cmp_trans_strict _ _ _).1, (C14.cmp_trans_strict _ _ _).2⟩ :
          T3 (cmp (valOf (mfind z field)) (valOf (mfind y field))) (cmp (valOf (mfind y field)) (valOf (mfind x field)))
            (cmp (valOf (mfind z field)) (valOf (mfind x field))))
        have e1 := C14.cmp_antisymm (valOf (mfind y field)) (valOf (mfind z field))
        have e2 := C14.cmp_antisymm (valOf (mfind x field)) (valOf (mfind y field))
        have e3 := C14.cmp_antisymm (valOf (mfind x field)) (valOf (mfind z field))
        unfold T3 at t ⊢
        omega)
      (refOrder_T3 x y z rest hd.2)

/-! ### insertion sort -/

theorem mem_insertDoc {spec d : PList} : ∀ {es : List PList} {y : PList}, y ∈ insertDoc spec d es → y = d ∨ y ∈ es
  | [], y, h => by simp [insertDoc] at h; exact Or.inl h
  | e :: es, y, h => by
    simp only [insertDoc] at h
    split at h
    · rcases List.mem_cons.mp h with h | h
      · exact Or.inl h
      · exact Or.inr h
    · rcases List.mem_cons.mp h with h | h
      · exact Or.inr (by simp [h])
      · rcases mem_insertDoc h with h | h
        · exact Or.inl h
        · exact Or.inr (by simp [h])

theorem OrderedBy_insertDoc {spec : PList} (hd : directed spec = true) (d : PList) :
    ∀ {es : List PList}, OrderedBy spec es → OrderedBy spec (insertDoc spec d es)
  | [], _ => by simp [insertDoc, OrderedBy]
  | e :: es, h => by
    unfold OrderedBy at h ⊢
    rw [List.pairwise_cons] at h
    simp only [insertDoc]
    split
    · next hle =>
      rw [sortCmp_eq] at hle
      rw [List.pairwise_cons]
      refine ⟨fun y hy => ?_, List.pairwise_cons.mpr h⟩
      rcases List.mem_cons.mp hy with rfl | hy
      · exact hle
      · exact (refOrder_T3 d e y spec hd).1 hle (h.1 y hy)
    · next hgt =>
      rw [sortCmp_eq] at hgt
      rw [List.pairwise_cons]
      refine ⟨fun y hy => ?_, OrderedBy_insertDoc hd d h.2⟩
      rcases mem_insertDoc hy with rfl | hy
      · have := refOrder_antisymm e y spec; omega
      · exact h.1 y hy

theorem OrderedBy_sortDocs {spec : PList} (hd : directed spec = true) : ∀ docs : List PList, OrderedBy spec (sortDocs spec docs)
  | [] => by simp [sortDocs, OrderedBy]
  | d :: ds => by
    simp only [sortDocs, List.foldr_cons]
    exact OrderedBy_insertDoc hd d (OrderedBy_sortDocs hd ds)

theorem sortDocs_perm (spec : PList) (docs : List PList) : (sortDocs spec docs).Perm docs := by
  have ins : ∀ (d : PList) (es : List PList), (insertDoc spec d es).Perm (d :: es) := by
    intro d es
    induction es with
    | nil => exact List.Perm.refl _
    | cons e es ih =>
      simp only [insertDoc]
      split
      · exact List.Perm.refl _
      · exact (List.Perm.cons e ih).trans (List.Perm.swap d e es)
  induction docs with
  | nil => exact List.Perm.refl _
  | cons d ds ih =>
    simp only [sortDocs, List.foldr_cons]
    exact (ins d _).trans (List.Perm.cons d ih)

/-! ### skip / limit -/

theorem window_eq (skip limit : Nat) (docs : List PList) : window skip limit docs = refWindow skip limit docs := by
  unfold window refWindow
  by_cases hl : limit = 0
  · subst hl
    simp only [if_true]
    by_cases hs : skip > docs.length
    · have h1 : docs.length + docs.length > docs.length ∨ docs.length = 0 := by omega
      simp only [hs, if_true]
      rw [List.drop_eq_nil_of_le (Nat.le_of_lt hs)]
      split <;> simp [List.drop_eq_nil_of_le]
    · simp only [hs, if_false]
      split
      · rw [List.take_of_length_le (Nat.le_refl _)]
      · rw [List.take_of_length_le (by omega)]
  · simp only [hl, if_false]
    by_cases hs : skip > docs.length
    · simp only [hs, if_true]
      rw [List.drop_eq_nil_of_le (Nat.le_of_lt hs)]
      split <;> simp [List.drop_eq_nil_of_le]
    · simp only [hs, if_false]
      split
      · next h2 =>
        rw [List.take_of_length_le (Nat.le_refl _)]
        rw [List.take_of_length_le]
        simp only [List.length_drop]; omega
      · rw [List.drop_take]
        congr 1
        omega

end Uniflow.Store
