/-
C02, joint model, all node kinds, part 22: the source sends a request; a sink answers.
-/
import Uniflow.Proofs.FlowN15

namespace Uniflow.FlowN
open Uniflow.Tracer Uniflow.Node Uniflow.Flow Uniflow.FlowInv Uniflow.FlowG Uniflow.ATracer Uniflow.FlowH Uniflow.FlowM
open Uniflow.ATracer (getL_setOrDel getL_aset)

theorem HIe_send (kinds : List Kind) (links : List (Nat × List Tgt)) (hwf : GraphWF5 kinds links) (g : G) (v : Val)
    (h : HIe kinds links g) : HIe kinds links (send g v) := by
  obtain ⟨aa, h⟩ := h
  have hN := hwf.small
  have hgl : g.links = links := h.glinks
  let g1 : G := { g with srcOut := [], entered := [], arrived := [], next := g.next + 1, roots := g.roots ++ [g.next] }
  show HIe kinds links (settle settleFuel (gWrite g1 srcKey g.next v).1)
  apply HIe_settle kinds links hwf
  have hlne : getL links srcKey ≠ [] := hwf.src
  have hgl' : getL g1.links srcKey = getL links srcKey := by show getL g.links srcKey = _; rw [hgl]
  have hni : NIH kinds aa g1.nodes g1.next :=
    ⟨h.nodesLen, h.kindEq, h.thr, fun n nd hn => jbm_mono _ _ _ _ (h.jb n nd hn) (Nat.le_succ _)⟩
  have hrU : Unlogged g.log g.next := h.logBound g.next (Nat.le_refl _)
  have heq := gWrite_eqH kinds hN hwf.kindsOK aa g1 srcKey g.next v hni (by rw [hgl']; exact hlne)
    (by rw [hgl']; exact tok_of_mem5 kinds links hwf _) hrU.2.1
  rw [hgl'] at heq
  rw [heq]
  have hts : ∀ t ∈ getL links srcKey, TOK kinds t := tok_of_mem5 kinds links hwf srcKey
  obtain ⟨_, hnihP, hnodeP⟩ := deliverAll_eqH kinds hN hwf.kindsOK aa srcKey v (getL links srcKey) (rowPush g1 srcKey) hni hts
  have key := HI_pushed kinds links hwf aa g h srcKey v hlne (rowPush g1 srcKey) rfl rfl rfl rfl rfl rfl
    (by simp only [rowPush, newRow, hgl']; rfl) (Nat.le_succ _)
    (by
      intro r hr
      have : r ∈ g.roots ++ [g.next] := hr
      rw [List.mem_append] at this
      rcases this with h1 | h1
      · exact Nat.lt_succ_of_lt (h.rootsB r h1)
      · simp only [List.mem_singleton] at h1; rw [h1]; exact Nat.lt_succ_self _)
    g.next hrU (Nat.lt_succ_self _)
    (fun _ => False) aa (pushAllG srcKey v (getL links srcKey) (rowPush g1 srcKey)).nodes
    hnihP.len (fun _ _ hf => hf.elim)
    (fun _ _ => ⟨rfl, rfl⟩) (fun _ hf => hf.elim) (fun _ hf => hf.elim) (fun _ _ hf => hf.elim)
    (fun _ _ hf => hf.elim) (fun _ _ _ _ hf => hf.elim) (Or.inl (Nat.le_refl _))
    (by
      intro key'
      show pendH aa (g.roots ++ [g.next]) g.resp.length key' = _
      simp only [pendH]
      by_cases e1 : key' = srcKey
      · simp only [e1, if_true]
        exact List.drop_append_of_le_length h.respOK.1
      · simp only [e1, if_false])
    ⟨by show g.resp.length ≤ (g.roots ++ [g.next]).length; have := h.respOK.1; simp only [List.length_append]; omega,
     by show (g.roots ++ [g.next]).take g.resp.length = _; exact List.take_append_of_le_length h.respOK.1⟩
  exact ⟨_, HI_congr _ links _ D0 _ _ key rfl rfl rfl rfl rfl rfl rfl rfl rfl⟩

theorem HIe_sinkAnswer (kinds : List Kind) (links : List (Nat × List Tgt)) (hwf : GraphWF5 kinds links) (g g' : G) (k : Nat)
    (a : Option Ans) (h : HIe kinds links g) (hs : sinkAnswer g k a = some g') : HIe kinds links g' := by
  obtain ⟨aa, h⟩ := h
  have h0 : HI kinds links aa D0 (clearObs g) := HI_congr _ links aa D0 g _ h rfl rfl rfl rfl rfl rfl rfl rfl rfl
  simp only [sinkAnswer] at hs
  cases hk : getL (clearObs g).sinks k with
  | nil => simp [hk] at hs
  | cons x rest =>
    obtain ⟨c, v⟩ := x
    simp only [hk, Option.some.injEq] at hs
    subst hs
    apply HIe_settle kinds links hwf
    exact ⟨aa, HI_sinkAns kinds links hwf aa (clearObs g) h0 k c v rest _ hk⟩

end Uniflow.FlowN
