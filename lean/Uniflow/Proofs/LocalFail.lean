/-
`FailInv`: when every initialiser offered to `LoadOrStore` for process `p` fails and nobody `Store`s for
`p`, no value for `p` ever appears, every lazy object of `p` is a failing one, and no thread is on a path
that stores for `p`. Used by the failing-initialiser theorems of `Props/C05.lean`.
-/
import Uniflow.Proofs.Local

namespace Uniflow.Local

/-! ### FailInv: every initialiser offered for `p` fails and nobody stores for `p` directly -/

/-- thread program points compatible with "only failing initialisers, no Store, for process `p`" -/
def failOnly (p : Pid) : Pc → Bool
  | .want (.store q _) => q ≠ p
  | .hold (.store q _) => q ≠ p
  | .want (.los3 q _) => q ≠ p
  | .hold (.los3 q _) => q ≠ p
  | .gap _ q _ _ => q ≠ p
  | .pinAdd q _ => q ≠ p
  | .pinRest q _ => q ≠ p
  | .pinDel q _ => q ≠ p
  | .rd (.los1 q _ f) => q ≠ p || f
  | .want (.los2 q _ f) => q ≠ p || f
  | .hold (.los2 q _ f) => q ≠ p || f
  | _ => true

def Call.failOnly (p : Pid) : Call → Bool
  | .store q _ => q ≠ p
  | .loadOrStore q _ f => q ≠ p || f
  | _ => true

def Act.failOnly (p : Pid) : Act → Bool
  | .call _ c => c.failOnly p
  | .step _ => true

structure FailInv (s : State) (p : Pid) : Prop where
  ev : s.eager p = none
  thr : ∀ t, failOnly p (s.thr t) = true
  lzs : ∀ L, L < s.nlz → (s.lz L).proc = p → (s.lz L).fails = true

theorem fail_move (s s' : State) (p : Pid) (t : Tid) (pc' : Pc) (h : FailInv s p)
    (he : s'.eager p = s.eager p) (hn : s'.nlz = s.nlz)
    (hl : ∀ L, (s'.lz L).proc = (s.lz L).proc ∧ (s'.lz L).fails = (s.lz L).fails)
    (hthr : s'.thr = upd s.thr t pc') (hpc : failOnly p pc' = true) : FailInv s' p := by
  refine ⟨by rw [he]; exact h.ev, ?_, ?_⟩
  · intro t'
    rw [hthr]
    by_cases e : t' = t
    · subst e; rw [upd_same]; exact hpc
    · rw [upd_other _ _ _ _ e]; exact h.thr t'
  · intro L hL hp
    rw [hn] at hL
    rw [(hl L).1] at hp
    rw [(hl L).2]; exact h.lzs L hL hp

theorem lz_upd_keep (s : State) (L : Lid) (o : LazyObj) (hp : o.proc = (s.lz L).proc) (hf : o.fails = (s.lz L).fails) :
    ∀ L', ((upd s.lz L o) L').proc = (s.lz L').proc ∧ ((upd s.lz L o) L').fails = (s.lz L').fails := by
  intro L'
  by_cases e : L' = L
  · subst e; rw [upd_same]; exact ⟨hp, hf⟩
  · rw [upd_other _ _ _ _ e]; exact ⟨rfl, rfl⟩

theorem fail_crit (s : State) (p : Pid) (t : Tid) (c : Crit) (hpc : s.thr t = .hold c) (h : FailInv s p) :
    FailInv (crit false s t c).1 p := by
  have hf := h.thr t
  rw [hpc] at hf
  cases c with
  | store q v =>
    have hq : q ≠ p := by simpa [failOnly] using hf
    simp only [crit, Bool.false_and, Bool.false_eq_true, if_false]
    refine fail_move s _ p t _ h ?_ rfl (fun _ => ⟨rfl, rfl⟩) rfl ?_
    · show upd s.eager q (some v) p = s.eager p
      rw [upd_other _ _ _ _ (fun x => hq x.symm)]
    · split <;> simp [failOnly, hq]
  | del q k =>
    simp only [crit]
    refine fail_move s _ p t _ h ?_ rfl (fun _ => ⟨rfl, rfl⟩) rfl ?_
    · show upd s.eager q none p = s.eager p
      by_cases e : p = q
      · subst e; rw [upd_same, h.ev]
      · rw [upd_other _ _ _ _ e]
    · cases k <;> simp [Kont.next, failOnly]
  | los2 q v f =>
    simp only [crit]
    split
    · exact fail_move s _ p t _ h rfl rfl (fun _ => ⟨rfl, rfl⟩) rfl rfl
    · split
      · exact fail_move s _ p t _ h rfl rfl (fun _ => ⟨rfl, rfl⟩) rfl rfl
      · -- a new lazy object: its `fails` is the caller's flag
        refine ⟨h.ev, ?_, ?_⟩
        · intro t'
          show failOnly p (upd s.thr t (Pc.lzWant q s.nlz) t') = true
          by_cases e : t' = t
          · subst e; rw [upd_same]; rfl
          · rw [upd_other _ _ _ _ e]; exact h.thr t'
        · intro L hL hp
          show (upd s.lz s.nlz ⟨q, v, f, false, none⟩ L).fails = true
          have hp' : (upd s.lz s.nlz ⟨q, v, f, false, none⟩ L).proc = p := hp
          by_cases e : L = s.nlz
          · subst e
            rw [upd_same] at hp' ⊢
            simp only at hp'
            subst hp'
            simpa [failOnly] using hf
          · rw [upd_other _ _ _ _ e] at hp' ⊢
            have : L < s.nlz := by
              have : L < s.nlz + 1 := hL
              omega
            exact h.lzs L this hp'
  | los3 q x =>
    have hq : q ≠ p := by simpa [failOnly] using hf
    simp only [crit]
    refine fail_move s _ p t _ h ?_ rfl (fun _ => ⟨rfl, rfl⟩) rfl (by simp [failOnly, hq])
    show upd s.eager q (some x) p = s.eager p
    rw [upd_other _ _ _ _ (fun x => hq x.symm)]
  | ash q hk =>
    simp only [crit]
    split
    · exact fail_move s _ p t _ h rfl rfl (fun _ => ⟨rfl, rfl⟩) rfl rfl
    · split <;> exact fail_move s _ p t _ h rfl rfl (fun _ => ⟨rfl, rfl⟩) rfl rfl
  | ashRe => exact fail_move s _ p t _ h rfl rfl (fun _ => ⟨rfl, rfl⟩) rfl rfl
  | close => exact fail_move s _ p t _ h (by simp [crit, h.ev]) rfl (fun _ => ⟨rfl, rfl⟩) rfl rfl

theorem fail_step (s s' : State) (p : Pid) (t : Tid) (e : Ev) (h : FailInv s p) (hw : WfInv s)
    (hs : step false s t = some (s', e)) : FailInv s' p := by
  have hf := h.thr t
  cases hpc : s.thr t with
  | idle => simp [step, hpc] at hs
  | want c =>
    simp only [step, hpc] at hs
    split at hs
    · cases hs
      refine fail_move s _ p t _ h rfl rfl (fun _ => ⟨rfl, rfl⟩) rfl ?_
      rw [hpc] at hf
      cases c <;> simp_all [failOnly]
    · cases hs
  | hold c =>
    simp only [step, hpc] at hs
    have e1 : s' = (crit false s t c).1 := by rw [Option.some.inj hs]
    subst e1; exact fail_crit s p t c hpc h
  | rd r =>
    simp only [step, hpc] at hs
    split at hs
    · have e1 : s' = (rdStep s t r).1 := by rw [Option.some.inj hs]
      subst e1
      cases r with
      | load q => exact fail_move s _ p t _ h rfl rfl (fun _ => ⟨rfl, rfl⟩) rfl rfl
      | keys => exact fail_move s _ p t _ h rfl rfl (fun _ => ⟨rfl, rfl⟩) rfl rfl
      | los1 q v f =>
        rw [hpc] at hf
        simp only [rdStep]
        split
        · exact fail_move s _ p t _ h rfl rfl (fun _ => ⟨rfl, rfl⟩) rfl rfl
        · exact fail_move s _ p t _ h rfl rfl (fun _ => ⟨rfl, rfl⟩) rfl (by simpa [failOnly] using hf)
    · cases hs
  | gap site q hl x =>
    rw [hpc] at hf
    simp only [step, hpc] at hs
    split at hs <;> (cases hs; exact fail_move s _ p t _ h rfl rfl (fun _ => ⟨rfl, rfl⟩) rfl rfl)
  | lzWant q L =>
    simp only [step, hpc] at hs
    split at hs
    · cases hs
      exact fail_move s _ p t _ h rfl rfl (lz_upd_keep s L _ rfl rfl) rfl (by split <;> rfl)
    · cases hs
  | lzFn q L =>
    simp only [step, hpc] at hs
    cases hs
    exact fail_move s _ p t _ h rfl rfl (lz_upd_keep s L _ rfl rfl) rfl rfl
  | lzRel q L =>
    obtain ⟨hb, hp⟩ := hw.thr_ok t q L (by rw [hpc]; rfl)
    simp only [step, hpc] at hs
    split at hs
    · cases hs
      exact fail_move s _ p t _ h rfl rfl (lz_upd_keep s L _ rfl rfl) rfl rfl
    · rename_i hfl
      cases hs
      refine fail_move s _ p t _ h rfl rfl (lz_upd_keep s L _ rfl rfl) rfl ?_
      -- a non-failing lazy object belongs to another process
      have hq : q ≠ p := by
        intro e; subst e
        exact hfl (h.lzs L hb hp)
      simp [failOnly, hq]
  | cb hl x => simp only [step, hpc] at hs; cases hs; exact fail_move s _ p t _ h rfl rfl (fun _ => ⟨rfl, rfl⟩) rfl rfl
  | ashCb hk x => simp only [step, hpc] at hs; cases hs; exact fail_move s _ p t _ h rfl rfl (fun _ => ⟨rfl, rfl⟩) rfl rfl
  | exitFlip q =>
    simp only [step, hpc] at hs
    split at hs <;> (cases hs; exact fail_move s _ p t _ h rfl rfl (fun _ => ⟨rfl, rfl⟩) rfl rfl)
  | exitRun q hks =>
    match hks with
    | [] => simp only [step, hpc] at hs; cases hs; exact fail_move s _ p t _ h rfl rfl (fun _ => ⟨rfl, rfl⟩) rfl rfl
    | .del :: _ => simp only [step, hpc] at hs; cases hs; exact fail_move s _ p t _ h rfl rfl (fun _ => ⟨rfl, rfl⟩) rfl rfl
    | .park :: _ => simp only [step, hpc] at hs; cases hs; exact fail_move s _ p t _ h rfl rfl (fun _ => ⟨rfl, rfl⟩) rfl rfl
  | addHk q =>
    simp only [step, hpc] at hs
    split at hs <;> (cases hs; exact fail_move s _ p t _ h rfl rfl (fun _ => ⟨rfl, rfl⟩) rfl rfl)
  | pinAdd q v => simp [step, hpc] at hs
  | pinRest q v => simp [step, hpc] at hs
  | pinDel q v => simp [step, hpc] at hs

theorem fail_init (p : Pid) : FailInv init p := ⟨rfl, fun _ => rfl, fun L hL _ => by simp [init] at hL⟩

theorem fail_run (sched : List Act) (p : Pid) : ∀ s, FailInv s p → AllInv s → (∀ a ∈ sched, a.failOnly p = true) →
    FailInv (run false s sched) p := by
  induction sched with
  | nil => intro s h _ _; exact h
  | cons a as ih =>
    intro s h hall ha
    refine ih _ ?_ (allInv_apply s a hall) (fun b hb => ha b (List.mem_cons_of_mem _ hb))
    have ha0 := ha a List.mem_cons_self
    cases a with
    | call t c =>
      simp only [apply]
      split
      · refine fail_move s _ p t _ h rfl rfl (fun _ => ⟨rfl, rfl⟩) rfl ?_
        cases c <;> simp_all [Act.failOnly, Call.failOnly, Call.entry, failOnly]
      · exact h
    | step t =>
      simp only [apply]
      cases hst : step false s t with
      | none => exact h
      | some pr => obtain ⟨s', e⟩ := pr; exact fail_step s s' p t e h hall.wf hst

end Uniflow.Local

