/-
Invariant of `Uniflow.AgentProc` (the debug agent's process table with guarded packet hooks) and the
"stays forgotten" lemma. Used by `Props/C05.lean`.
-/
import Uniflow.Model.AgentProc

namespace Uniflow.AgentProc
open Uniflow.Agent

@[simp] theorem upd_same {β : Type} (f : Nat → β) (k : Nat) (v : β) : upd f k v k = v := by simp [upd]
theorem upd_other {β : Type} (f : Nat → β) (k : Nat) (v : β) (i : Nat) (h : i ≠ k) : upd f k v i = f i := by simp [upd, h]

/-- registered ⇔ exactly one run of the exit hook is owed; a frames key only for a registered process -/
structure AInv (s : St) : Prop where
  reg : ∀ p, s.procs p = true ↔ s.owed p = 1
  le : ∀ p, s.owed p ≤ 1
  fr : ∀ p, s.frames p ≠ none → s.procs p = true

theorem ainv_init : AInv init := ⟨fun p => by simp [init], fun p => by simp [init], fun p h => by simp [init] at h⟩

theorem ainv_step (s : St) (e : Ev) (h : AInv s) : AInv (step true s e) := by
  cases e with
  | accept p =>
    simp only [step]
    split
    · exact h
    · rename_i hp
      have hp' : s.procs p = false := by simpa using hp
      have h0 : s.owed p = 0 := by
        have := h.le p
        have := (h.reg p)
        cases ho : s.owed p with
        | zero => rfl
        | succ n =>
          have : s.owed p = 1 := by omega
          rw [(h.reg p).mpr this] at hp'; cases hp'
      refine ⟨?_, ?_, ?_⟩
      · intro q
        by_cases e1 : q = p
        · subst e1; simp [h0]
        · simp only [upd_other _ _ _ _ e1]; exact h.reg q
      · intro q
        by_cases e1 : q = p
        · subst e1; simp [h0]
        · simp only [upd_other _ _ _ _ e1]; exact h.le q
      · intro q hq
        by_cases e1 : q = p
        · subst e1; simp
        · simp only [upd_other _ _ _ _ e1] at hq ⊢; exact h.fr q hq
  | inb p k pck =>
    simp only [step]
    split
    · exact h
    · rename_i hg
      have hp : s.procs p = true := by simpa using hg
      refine ⟨h.reg, h.le, ?_⟩
      intro q hq
      by_cases e1 : q = p
      · subst e1; exact hp
      · simp only [upd_other _ _ _ _ e1] at hq; exact h.fr q hq
  | outb p k pck =>
    simp only [step]
    split
    · exact h
    · rename_i hg
      have hp : s.procs p = true := by simpa using hg
      refine ⟨h.reg, h.le, ?_⟩
      intro q hq
      by_cases e1 : q = p
      · subst e1; exact hp
      · simp only [upd_other _ _ _ _ e1] at hq; exact h.fr q hq
  | term p => exact ⟨h.reg, h.le, h.fr⟩
  | hook p =>
    simp only [step]
    split
    · rename_i hc
      have hpos : 0 < s.owed p := by simp at hc; exact hc.2
      have h1 : s.owed p = 1 := by have := h.le p; omega
      refine ⟨?_, ?_, ?_⟩
      · intro q
        by_cases e1 : q = p
        · subst e1; simp [h1]
        · simp only [upd_other _ _ _ _ e1]; exact h.reg q
      · intro q
        by_cases e1 : q = p
        · subst e1; simp [h1]
        · simp only [upd_other _ _ _ _ e1]; exact h.le q
      · intro q hq
        by_cases e1 : q = p
        · subst e1; simp at hq
        · simp only [upd_other _ _ _ _ e1] at hq ⊢; exact h.fr q hq
    · exact h

theorem ainv_run (es : List Ev) : ∀ s, AInv s → AInv (run true s es) := by
  induction es with
  | nil => intro s h; exact h
  | cons e es ih => intro s h; exact ih _ (ainv_step s e h)

/-- forgotten and nothing owed: no event other than `accept p` changes that -/
def Forgotten (s : St) (p : Nat) : Prop := s.procs p = false ∧ s.frames p = none ∧ s.owed p = 0

theorem forgotten_step (s : St) (p : Nat) (e : Ev) (h : Forgotten s p) (ha : e.isAccept p = false) :
    Forgotten (step true s e) p := by
  obtain ⟨h1, h2, h3⟩ := h
  cases e with
  | accept q =>
    have hq : p ≠ q := by intro x; subst x; simp [Ev.isAccept] at ha
    simp only [step]
    split
    · exact ⟨h1, h2, h3⟩
    · exact ⟨by simp only [upd_other _ _ _ _ hq]; exact h1, by simp only [upd_other _ _ _ _ hq]; exact h2,
        by simp only [upd_other _ _ _ _ hq]; exact h3⟩
  | inb q k pck =>
    simp only [step]
    split
    · exact ⟨h1, h2, h3⟩
    · rename_i hg
      have hq : p ≠ q := by intro x; subst x; simp [h1] at hg
      exact ⟨h1, by simp only [upd_other _ _ _ _ hq]; exact h2, h3⟩
  | outb q k pck =>
    simp only [step]
    split
    · exact ⟨h1, h2, h3⟩
    · rename_i hg
      have hq : p ≠ q := by intro x; subst x; simp [h1] at hg
      exact ⟨h1, by simp only [upd_other _ _ _ _ hq]; exact h2, h3⟩
  | term q => exact ⟨h1, h2, h3⟩
  | hook q =>
    simp only [step]
    split
    · rename_i hc
      have hq : p ≠ q := by intro x; subst x; simp [h3] at hc
      exact ⟨by simp only [upd_other _ _ _ _ hq]; exact h1, by simp only [upd_other _ _ _ _ hq]; exact h2,
        by simp only [upd_other _ _ _ _ hq]; exact h3⟩
    · exact ⟨h1, h2, h3⟩

theorem forgotten_run (es : List Ev) (p : Nat) : ∀ s, Forgotten s p → (∀ e ∈ es, e.isAccept p = false) →
    Forgotten (run true s es) p := by
  induction es with
  | nil => intro s h _; exact h
  | cons e es ih =>
    intro s h ha
    exact ih _ (forgotten_step s p e h (ha e List.mem_cons_self)) (fun e' he' => ha e' (List.mem_cons_of_mem _ he'))

theorem run_append (g : Bool) (s : St) (es es' : List Ev) : run g s (es ++ es') = run g (run g s es) es' := by
  induction es generalizing s with
  | nil => rfl
  | cons e es ih => exact ih _

end Uniflow.AgentProc
