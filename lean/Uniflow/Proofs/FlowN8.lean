/-
C02, joint model, all node kinds, part 14: an accepted write (the source's or a node's) preserves the
invariant; the writing node's own change is a parameter.
-/
import Uniflow.Proofs.FlowN7

namespace Uniflow.FlowN
open Uniflow.Tracer Uniflow.Node Uniflow.Flow Uniflow.FlowInv Uniflow.FlowG Uniflow.ATracer Uniflow.FlowH Uniflow.FlowM
open Uniflow.ATracer (getL_setOrDel getL_aset)

theorem HI_pushed (kinds : List Kind) (links : List (Nat × List Tgt)) (hwf : GraphWF5 kinds links) (aa : Nat → A) (g : G)
    (h : HI kinds links aa D0 g) (key : Nat) (v : Val) (htne : getL links key ≠ [])
    (gb : G) (e_nodes : gb.nodes = g.nodes) (e_sinks : gb.sinks = g.sinks) (e_fifo : gb.fifo = g.fifo)
    (e_log : gb.log = g.log) (e_links : gb.links = g.links) (e_resp : gb.resp = g.resp)
    (e_wr : gb.writers = aset g.writers key
      ⟨(gw g.writers key).rows ++ [List.replicate (getL links key).length none], (gw g.writers key).queue⟩)
    (hle : g.next ≤ gb.next) (hroots : ∀ r ∈ gb.roots, r < gb.next)
    (qid : Pid) (hqU : Unlogged g.log qid) (hqlt : qid < gb.next)
    (chW : Nat → Prop) (aaF : Nat → A) (nodesF : List Node)
    (hlenF : ∀ n, (getNode nodesF n).isSome = true ↔ n < kinds.length)
    (hkindW : ∀ n nd, chW n → getNode nodesF n = some nd → KindOK nd.kind ∧ kinds[n]? = some nd.kind ∧
      nd.threads.length = nIn nd.kind ∧ ∀ x ∈ (aaF n).reqs, x.r < nd.threads.length)
    (hsameF : ∀ n, ¬ chW n → aaF n = aa n ∧
      getNode nodesF n = getNode (pushAllG key v (getL links key) gb).nodes n)
    (hchWN : ∀ n, chW n → n < kinds.length) (hchWT : ∀ n, chW n → ∀ port, Tgt.node n port ∉ getL links key)
    (hjbW : ∀ n nd, chW n → getNode nodesF n = some nd → JBm nd (aaF n) (gb.next + (getL links key).length))
    (hnlW : ∀ n nd, chW n → getNode nodesF n = some nd →
      NLm (pushedLog gb key v (getL links key) qid) n nd (aaF n))
    (hheldW : ∀ n nd ndF port, chW n → getNode g.nodes n = some nd → getNode nodesF n = some ndF →
      heldN ndF (aaF n) port = heldN nd (aa n) port)
    (hkq : g.next ≤ qid ∨ ∃ τ, aget g.log.owner qid = some τ ∧ (∀ m, ¬ chW m → τ / 64 ≠ m) ∧ τ / 64 < 1000)
    (hpend : ∀ key', pendH aaF gb.roots gb.resp.length key' =
      if key' = key then pendH aa g.roots g.resp.length key' ++ [qid] else pendH aa g.roots g.resp.length key')
    (hrt : g.resp.length ≤ gb.roots.length ∧ gb.roots.take g.resp.length = g.roots.take g.resp.length) :
    HI kinds links aaF D0
      { pushAllG key v (getL links key) gb with nodes := nodesF, log := pushedLog gb key v (getL links key) qid } := by
  have hN := hwf.small
  let ts := getL links key
  have hK := hwf.kindsOK
  have hts : ∀ t ∈ ts, TOK kinds t := tok_of_mem5 kinds links hwf key
  have hnd : (ts.map rkeyOf).Nodup := hwf.nodupT key
  obtain ⟨f_next, f_links, f_wr, f_roots, f_resp, f_acts, f_dels, f_echo, f_sa⟩ := pushAllG_frame key v ts gb
  let P := pushAllG key v ts gb
  let lg' := pushedLog gb key v ts qid
  let g' : G := { P with nodes := nodesF, log := lg' }
  show HI kinds links aaF D0 g'
  have hnih : NIH kinds aa gb.nodes gb.next :=
    ⟨by rw [e_nodes]; exact h.nodesLen, by rw [e_nodes]; exact h.kindEq, by rw [e_nodes]; exact h.thr,
     fun n nd hn => jbm_mono _ _ _ _ (h.jb n nd (by rw [← e_nodes]; exact hn)) hle⟩
  obtain ⟨_, hnihP, hnodeP⟩ := deliverAll_eqH kinds hN hK aa key v ts gb hnih hts
  -- a node that does not write: its new state is the old one with the copies in its inboxes
  have hsame : ∀ n ndF, ¬ chW n → getNode nodesF n = some ndF → ∃ nd0, getNode g.nodes n = some nd0 ∧
      ndF = addInbox nd0 (fun port => (copyOf ts gb.next (rkeyOf (.node n port))).map (fun c => ⟨c, v⟩)) := by
    intro n ndF hc hn
    obtain ⟨_, en⟩ := hsameF n hc
    have hnN : n < kinds.length := (hlenF n).mp (by rw [hn]; rfl)
    cases hgn : getNode g.nodes n with
    | none => have := (h.nodesLen n).mpr hnN; rw [hgn] at this; cases this
    | some nd0 =>
      have hP := hnodeP n nd0 (by rw [e_nodes]; exact hgn)
      rw [← en, hn] at hP
      exact ⟨nd0, rfl, Option.some.inj hP⟩
  have hcpb : ∀ rk, ∀ x ∈ copyOf ts gb.next rk, g.next ≤ x ∧ x < gb.next + ts.length ∧ x ≠ qid := by
    intro rk x hx
    obtain ⟨b1, b2⟩ := copyOf_bound ts gb.next rk x hx
    exact ⟨Nat.le_trans hle b1, b2, fun e => by rw [e] at b1; exact Nat.lt_irrefl _ (Nat.lt_of_lt_of_le hqlt b1)⟩
  have hx : LogExt g.log lg' qid := pushedLog_ext g gb key v ts qid hqU e_log
  have hownO : ∀ id, id < g.next → aget lg'.owner id = aget g.log.owner id := by
    intro id hid
    show aget P.log.owner id = _
    rw [pushAllG_owner_old key v ts gb id (Nat.lt_of_lt_of_le hid hle), e_log]
  have hownNw : ∀ rk, ∀ x ∈ copyOf ts gb.next rk, aget lg'.owner x = some rk :=
    fun rk x hx => pushAllG_owner_new key v ts gb rk x hx
  have hUnew : ∀ id, g.next ≤ id → id ≠ qid → Unlogged lg' id :=
    fun id hid hne => unlogged_ext g.log lg' qid hx id hne (h.logBound id hid)
  have hnextF : g'.next = gb.next + ts.length := f_next
  have hcpW : ∀ n, chW n → ∀ port, port < 64 → copyOf ts gb.next (rkeyOf (.node n port)) = [] := by
    intro n hn port hp
    exact copyOf_none_node kinds hN hK ts hts gb.next n port (Nat.lt_of_lt_of_le (hchWN n hn) hN) hp (hchWT n hn port)
  -- what the readers hold afterwards
  have hheldF : ∀ t', TgtOK t' →
      heldDH D0 aaF g'.nodes g'.sinks t' = heldDH D0 aa g.nodes g.sinks t' ++ copyOf ts gb.next (rkeyOf t') := by
    intro t' htok
    cases t' with
    | sink j =>
      simp only [heldDH, D0, heldAtH, List.map_nil, List.nil_append]
      show (getL P.sinks j).map (·.1) = _
      rw [pushAllG_sinks5 kinds hN hK key v ts gb j hts, e_sinks, List.map_append, map_fst_mk]
    | node m port =>
      obtain ⟨hp, hm1000⟩ := htok
      simp only [heldDH, D0, heldAtH, List.map_nil, List.nil_append]
      show (match getNode nodesF m with | some nd => heldN nd (aaF m) port | none => []) = _
      cases hgm : getNode g.nodes m with
      | none =>
        have hmN : ¬ m < kinds.length := fun hlt => by have := (h.nodesLen m).mpr hlt; rw [hgm] at this; cases this
        have : getNode nodesF m = none := by
          cases hf : getNode nodesF m with
          | none => rfl
          | some x => exact absurd ((hlenF m).mp (by rw [hf]; rfl)) hmN
        rw [this]
        have hc : copyOf ts gb.next (rkeyOf (.node m port)) = [] := by
          apply copyOf_none_node kinds hN hK ts hts gb.next m port hm1000 (by omega)
          intro ht
          exact hmN (tok_port_lt kinds hK m port (hts _ ht)).1
        rw [hc]; rfl
      | some nd =>
        by_cases hc : chW m
        · cases hf : getNode nodesF m with
          | none => have := (hlenF m).mpr (hchWN m hc); rw [hf] at this; cases this
          | some ndF =>
            simp only [hcpW m hc port (by omega), List.append_nil]
            exact hheldW m nd ndF port hc hgm hf
        · obtain ⟨ea, en⟩ := hsameF m hc
          rw [en, hnodeP m nd (by rw [e_nodes]; exact hgm), ea]
          by_cases hpl : port < nd.threads.length
          · simp only [heldN_addInbox nd (aa m) _ port hpl, map_id_mk]
          · have hc2 : copyOf ts gb.next (rkeyOf (.node m port)) = [] := by
              apply copyOf_none_node kinds hN hK ts hts gb.next m port hm1000 (by omega)
              intro ht
              obtain ⟨k, hk, hpk⟩ := hts _ ht
              rw [h.kindEq m nd hgm] at hk
              rw [h.thr m nd hgm, Option.some.inj hk] at hpl
              exact hpl hpk
            rw [hc2, List.append_nil]
            exact heldN_addInbox_ge nd (aa m) _ port (by omega)
  have hfifoF : ∀ rk, getL g'.fifo rk = getL g.fifo rk ++ (copyOf ts gb.next rk).map (fun _ => key) := by
    intro rk; show getL P.fifo rk = _; rw [pushAllG_fifo, e_fifo]
  have hhbF : ∀ key' t', TgtOK t' → hbOfH D0 aaF g'.nodes g'.sinks g'.fifo key' t' =
      hbOfH D0 aa g.nodes g.sinks g.fifo key' t' ++ (if key = key' then copyOf ts gb.next (rkeyOf t') else []) := by
    intro key' t' htok
    simp only [hbOfH, hheldF t' htok, hfifoF]
    exact selK_append key' key _ _ _ (h.fifoLen t' htok).symm
  have hcp1 : ∀ rk, copyOf ts gb.next rk ≠ [] → ∃ t ∈ ts, rkeyOf t = rk := by
    intro rk hne
    apply Classical.byContradiction
    intro hno
    apply hne
    apply copyOf_none
    intro hm
    obtain ⟨t, ht, e⟩ := List.mem_map.mp hm
    exact hno ⟨t, ht, e⟩
  have hwrF : ∀ key', gw g'.writers key' = if key' = key then
      ⟨(gw g.writers key).rows ++ [List.replicate ts.length none], (gw g.writers key).queue⟩ else gw g.writers key' := by
    intro key'; show gw P.writers key' = _; rw [f_wr, e_wr, gw_aset]
  refine { glinks := by show P.links = links; rw [f_links, e_links]; exact h.glinks, nodesLen := hlenF,
           kindOK := ?_, kindEq := ?_, thr := ?_, rdr := ?_, jb := ?_, nl := ?_, dflt := ?_, sinkOK := ?_, debtOK := ?_, wk := ?_, srcq := ?_,
           fifoLen := ?_, fifoKeys := ?_, respOK := ?_, logBound := ?_, rootsB := ?_, wq0 := ?_, logOrd := ?_ }
  · intro n nd hn
    by_cases hc : chW n
    · exact (hkindW n nd hc hn).1
    · obtain ⟨nd0, hg0, e⟩ := hsame n nd hc hn
      rw [e]; exact h.kindOK n nd0 hg0
  · intro n nd hn
    by_cases hc : chW n
    · exact (hkindW n nd hc hn).2.1
    · obtain ⟨nd0, hg0, e⟩ := hsame n nd hc hn
      rw [e]; exact h.kindEq n nd0 hg0
  · intro n nd hn
    by_cases hc : chW n
    · exact (hkindW n nd hc hn).2.2.1
    · obtain ⟨nd0, hg0, e⟩ := hsame n nd hc hn
      rw [e]; show (addIn nd0.threads 0 _).length = _; rw [addIn_length]; exact h.thr n nd0 hg0
  · intro n nd hn
    by_cases hc : chW n
    · exact (hkindW n nd hc hn).2.2.2
    · obtain ⟨nd0, hg0, e⟩ := hsame n nd hc hn
      rw [e, (hsameF n hc).1]; show ∀ x ∈ (aa n).reqs, x.r < (addIn nd0.threads 0 _).length
      rw [addIn_length]; exact h.rdr n nd0 hg0
  · intro n nd hn
    rw [hnextF]
    by_cases hc : chW n
    · exact hjbW n nd hc hn
    · obtain ⟨ea, en⟩ := hsameF n hc
      rw [ea]; exact hnihP.jb n nd (by rw [← en]; exact hn)
  · intro n nd hn
    by_cases hc : chW n
    · exact hnlW n nd hc hn
    · obtain ⟨nd0, hgn, e⟩ := hsame n nd hc hn
      rw [(hsameF n hc).1]
      have hlen0 : nd0.threads.length ≤ 63 := by rw [h.thr n nd0 hgn]; exact nIn_le _ (h.kindOK n nd0 hgn)
      have hkeep : NLm lg' n nd0 (aa n) := by
        apply nlm_keep g.log lg' qid hx n nd0 (aa n) g.next (h.jb n nd0 hgn) hlen0 (h.nl n nd0 hgn) hownO
        rcases hkq with hk | ⟨τ, t1, t2, _⟩
        · exact Or.inl hk
        · exact Or.inr ⟨τ, t1, t2 n hc⟩
      intro j th hth
      rw [e] at hth
      simp only [addInbox, getThread_addIn, Nat.zero_add] at hth
      cases hg0 : getThread nd0.threads j with
      | none => rw [hg0] at hth; cases hth
      | some th0 =>
        rw [hg0] at hth
        simp only [Option.map_some, Option.some.injEq] at hth
        rw [← hth]
        have hk0 := hkeep j th0 hg0
        rcases copyOf_len_le ts hnd gb.next (rkeyOf (.node n j)) with e1 | ⟨i, t, _, _, e1⟩
        · rw [e1]; simpa using hk0
        · rw [e1]
          have hmem : gb.next + i ∈ copyOf ts gb.next (rkeyOf (.node n j)) := by rw [e1]; simp
          obtain ⟨b1, _, b3⟩ := hcpb _ _ hmem
          exact nlt_deliver lg' n j th0 (aa n) hk0 (gb.next + i) v (hUnew _ b1 b3)
            (by rw [hownNw _ _ hmem]; simp [rkeyOf])
  · intro n hn
    have hc : ¬ chW n := fun hc => by have := hchWN n hc; omega
    rw [(hsameF n hc).1]; exact h.dflt n hn
  · intro j
    have := hheldF (.sink j) trivial
    simp only [heldDH, D0, List.map_nil, List.nil_append, heldAtH] at this
    rw [this]
    obtain ⟨n1, n2⟩ := h.sinkOK j
    refine ⟨?_, ?_⟩
    · rw [List.nodup_append]
      refine ⟨n1, ?_, ?_⟩
      · rcases copyOf_len_le ts hnd gb.next (rkeyOf (.sink j)) with e | ⟨i, t, _, _, e⟩ <;> rw [e] <;> simp
      · intro a ha b hb e
        subst e
        exact Nat.lt_irrefl _ (Nat.lt_of_lt_of_le (n2 a ha).2.1 (hcpb _ a hb).1)
    · intro c hc
      rw [List.mem_append] at hc
      rcases hc with hc | hc
      · obtain ⟨u1, u2, u3⟩ := n2 c hc
        refine ⟨unlogged_ext g.log lg' qid hx c ?_ u1, ?_, by rw [hownO c u2]; exact u3⟩
        · intro e
          rcases hkq with hk | ⟨τ, t1, _, t3⟩
          · rw [e] at u2; exact Nat.lt_irrefl _ (Nat.lt_of_lt_of_le u2 hk)
          · rw [e, t1] at u3
            simp only [rkeyOf, Option.some.injEq] at u3
            omega
        · rw [hnextF]; exact Nat.lt_of_lt_of_le u2 (Nat.le_trans hle (Nat.le_add_right _ _))
      · obtain ⟨b1, b2, b3⟩ := hcpb _ c hc
        exact ⟨hUnew c b1 b3, by rw [hnextF]; exact b2, hownNw _ c hc⟩
  · intro rk x hx'; simp [D0] at hx'
  · intro key' hl'
    have hroots' : g'.roots = gb.roots := f_roots
    have hresp' : g'.resp = gb.resp := f_resp
    rw [hwrF, hroots', hresp', hpend]
    have hold := wkg_ext g.log lg' qid hx _ _ _ _ (h.wk key' hl')
    by_cases e : key' = key
    · subst e
      simp only [if_true]
      apply wkg_push lg' _ _ _ _ _ qid (List.range' gb.next ts.length) hold (by rw [List.length_range']) hl'
      · show aget P.log.echo qid = none; rw [f_echo, e_log]; exact hqU.2.2.1
      · show aget P.log.sinkAns qid = none; rw [f_sa, e_log]; exact hqU.2.2.2
      · show aget (aset P.log.dels qid _) qid = _; rw [aget_aset]; simp
      · intro i t c hti hci
        have htm : t ∈ getL links key' := List.mem_of_getElem? hti
        rw [hhbF key' t (tgtOK_mem5 kinds links hwf key' t htm)]
        simp only [if_true]
        rw [copyOf_idx ts gb.next i t hnd hti]
        have hi : i < ts.length := by
          rcases Nat.lt_or_ge i ts.length with h | h
          · exact h
          · rw [List.getElem?_eq_none h] at hti; cases hti
        have : (List.range' gb.next ts.length)[i]? = some (gb.next + i) := by simp [hi]
        rw [this] at hci
        simp only [Option.some.injEq] at hci
        rw [hci]
    · simp only [e, if_false]
      apply wkg_congr lg' _ _ _ _ _ hold
      intro i t hti
      have htm : t ∈ getL links key' := List.mem_of_getElem? hti
      rw [hhbF key' t (tgtOK_mem5 kinds links hwf key' t htm)]
      simp [Ne.symm e]
  · rw [hwrF]
    by_cases e : srcKey = key
    · simp only [e, if_true]; rw [← e]; exact h.srcq
    · simp only [e, if_false]; exact h.srcq
  · intro t' htok
    rw [hfifoF, hheldF t' htok]
    simp only [List.length_append, List.length_map, h.fifoLen t' htok]
  · intro t' htok key' hk
    rw [hfifoF, List.mem_append] at hk
    rcases hk with hk | hk
    · exact h.fifoKeys t' htok key' hk
    · obtain ⟨x, hx', e⟩ := List.mem_map.mp hk
      subst e
      obtain ⟨t, ht, e2⟩ := hcp1 (rkeyOf t') (by intro e3; rw [e3] at hx'; simp at hx')
      have : t = t' := rkey_inj_ok t t' (tgtOK_mem5 kinds links hwf key t ht) htok e2
      subst this; exact ht
  · have hroots' : g'.roots = gb.roots := f_roots
    have hresp' : g'.resp = g.resp := by show P.resp = _; rw [f_resp, e_resp]
    rw [hroots', hresp']
    refine ⟨hrt.1, ?_⟩
    rw [hrt.2]
    exact all2_mono _ _ (fun p a => ra_ext g.log lg' qid hx p a) _ _ h.respOK.2
  · intro id hid
    rw [hnextF] at hid
    have h1 : gb.next ≤ id := Nat.le_trans (Nat.le_add_right _ _) hid
    exact hUnew id (Nat.le_trans hle h1) (fun e => by rw [e] at h1; exact Nat.lt_irrefl _ (Nat.lt_of_lt_of_le hqlt h1))
  · intro r hr
    have : r ∈ gb.roots := by have : r ∈ P.roots := hr; rw [f_roots] at this; exact this
    rw [hnextF]; exact Nat.lt_of_lt_of_le (hroots r this) (Nat.le_add_right _ _)
  · intro key' hl'
    have : key' ≠ key := by intro e; rw [e] at hl'; exact htne hl'
    rw [hwrF]; simp only [this, if_false]; exact h.wq0 key' hl'
  · apply logOrd_ext g.log lg' qid g.next g'.next h.logOrd hx
      (by rw [hnextF]; exact Nat.le_trans hle (Nat.le_add_right _ _))
    refine ⟨fun cs hcs => ?_, fun qs hqs => ?_⟩
    · have : aget lg'.dels qid = some (List.range' gb.next ts.length) := by
        show aget (aset P.log.dels qid _) qid = _; rw [aget_aset]; simp
      rw [this] at hcs
      simp only [Option.some.injEq] at hcs
      subst hcs
      intro c hc
      rw [List.mem_range'_1] at hc
      exact ⟨Nat.lt_of_lt_of_le hqlt hc.1, by rw [hnextF]; exact hc.2⟩
    · have : aget lg'.acts qid = none := by show aget P.log.acts qid = none; rw [f_acts, e_log]; exact hqU.1
      rw [this] at hqs; cases hqs

end Uniflow.FlowN
