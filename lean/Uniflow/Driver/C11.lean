/-
Driver for C11: the same store machine and line protocol as C10 (Driver/C10.lean). The harness replays one history
on several stores that differ only in their `idx` / `unidx` lines, one case (`reset`) per index configuration.
-/
import Uniflow.Driver.C10

namespace Uniflow.Driver.C11

def handler : Handler := Uniflow.Driver.C10.handler

end Uniflow.Driver.C11
