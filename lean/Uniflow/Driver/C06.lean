/-
Driver for C06 / C07 / C08: runs `Uniflow.Table.step` (with `Ord.id`).

  mode set|seq                      how the op's events are printed (sorted blocks | in order) → "ok"
  ins id ns name hasNode resp nI i… nO o… nP (port nR (rid rname rport)…)…
  free id
  close                             (a failing Close answers just `err`)

Answer of an op: `<ret> K <ids> L <links> R <refs> A <active> E <events>` – everything that came out
of a map is sorted.
-/
import Uniflow.Driver.Core
import Uniflow.Model.Table

namespace Uniflow.Driver.C06
open Uniflow.Table

structure St where
  st : State := {}
  seq : Bool := false
  /-- sparse observation: an op answers only `<ret> E <events>`, the state is printed by `observe` -/
  sparse : Bool := false

/-- take `n` items with parser `p` from the token stream. -/
def takeN {α : Type} (p : List Nat → Option (α × List Nat)) : Nat → List Nat → Option (List α × List Nat)
  | 0, ts => some ([], ts)
  | n + 1, ts =>
    match p ts with
    | none => none
    | some (a, ts') =>
      match takeN p n ts' with
      | none => none
      | some (as, ts'') => some (a :: as, ts'')

def pNat : List Nat → Option (Nat × List Nat)
  | [] => none
  | t :: ts => some (t, ts)

def pRef : List Nat → Option (Ref × List Nat)
  | a :: b :: c :: ts => some (⟨a, b, c⟩, ts)
  | _ => none

def pPort : List Nat → Option ((Nat × List Ref) × List Nat)
  | p :: n :: ts =>
    match takeN pRef n ts with
    | some (rs, ts') => some ((p, rs), ts')
    | none => none
  | _ => none

def pList {α : Type} (p : List Nat → Option (α × List Nat)) : List Nat → Option (List α × List Nat)
  | [] => none
  | n :: ts => takeN p n ts

def parseSym : List Nat → Option Sym
  | id :: ns :: name :: hn :: resp :: ts =>
    match pList pNat ts with
    | none => none
    | some (ins, ts1) =>
      match pList pNat ts1 with
      | none => none
      | some (outs, ts2) =>
        match pList pPort ts2 with
        | some (ports, []) =>
          if hn ≤ 1 then
            some { id, ns, name, hasNode := hn == 1, ins, outs,
                   -- 200+ : a responder that succeeds in another style (packet.None singleton, fresh empty packet)
                   resp := if resp = 0 ∨ resp ≥ 200 then none else some resp, ports }
          else none
        | _ => none
  | _ => none

def sortStr (l : List String) : List String := (l.toArray.qsort (· < ·)).toList

def natLt (a b : List Nat) : Bool :=
  match a, b with
  | [], [] => false
  | [], _ :: _ => true
  | _ :: _, [] => false
  | x :: xs, y :: ys => if x < y then true else if y < x then false else natLt xs ys

def sortNats (l : List (List Nat)) : List (List Nat) := (l.toArray.qsort natLt).toList

def showNats (sep : String) (l : List Nat) : String := sep.intercalate (l.map toString)

def showRet : Ret → Bool → Bool → String
  | .ok, isFree, b => if isFree then (if b then "ok1" else "ok0") else "ok"
  | .err es, _, _ => "err:" ++ showNats "+" es
  | .panic, _, _ => "panic"

def flatRefs (refs : List (Nat × PortMap)) : List (List Nat) :=
  refs.flatMap fun (t, m) => m.flatMap fun (i, l) => l.map fun e => [t, i, e.id, e.port, e.name]

def ids (log : List Event) : List Nat :=
  (log.filterMap fun e => match e with | .load i => some i | _ => none).eraseDups

/-- tokens of one event: (subject, text); a close is its own block (subject 0 – no symbol has id 0 –
and two consecutive closes are different blocks because `blocks` never merges subject 0). -/
def evToks : Event → List (Nat × String)
  | .load i => [(i, s!"L{i}")]
  | .unload i => [(i, s!"U{i}")]
  | .close i => [(0, s!"C{i}")]
  | .exec _ i ts => (sortNats (ts.map fun t => [t.1])).map fun t => (i, s!"r{i}:{showNats "." t}")
  | .refused u a i => [(i, s!"X{if u then 1 else 0}{if a then 1 else 0}:{i}")]

/-- group consecutive tokens with the same subject. -/
def blocks : List (Nat × String) → Option Nat → List String → List (List String) → List (List String)
  | [], _, cur, acc => if cur = [] then acc else acc ++ [cur]
  | (s, t) :: r, prev, cur, acc =>
    if prev = some s ∧ s ≠ 0 then blocks r prev (cur ++ [t]) acc
    else blocks r (some s) [t] (if cur = [] then acc else acc ++ [cur])

def showEvents (seq : Bool) (evs : List Event) : String :=
  let bs := (blocks (evs.flatMap evToks) none [] []).map (fun b => " ".intercalate b)
  ";".intercalate (if seq then bs else sortStr bs)

/-- the state part of an observation: keys, links, reverse index, active set -/
def showState (new : State) : String :=
  let ks := (sortNats (new.symbols.map fun p => [p.1])).map (showNats ".")
  let ls := (sortNats (new.links.map fun l => [l.src, l.out, l.dst, l.inp])).map (showNats ".")
  let rs := (sortNats (flatRefs new.references)).map (showNats ".")
  let act := (sortNats (((ids new.log).filter fun i => decide (activeIn new.log i)).map fun i => [i])).map (showNats ".")
  s!"K {",".intercalate ks} L {",".intercalate ls} R {",".intercalate rs} A {",".intercalate act}"

def observeSparse (seq : Bool) (old new : State) (r : Ret) (isFree b : Bool) : String :=
  s!"{showRet r isFree b} E {showEvents seq (new.log.drop old.log.length)}"

def observe (seq : Bool) (old new : State) (r : Ret) (isFree b : Bool) : String :=
  let ks := (sortNats (new.symbols.map fun p => [p.1])).map (showNats ".")
  let ls := (sortNats (new.links.map fun l => [l.src, l.out, l.dst, l.inp])).map (showNats ".")
  let rs := (sortNats (flatRefs new.references)).map (showNats ".")
  let act := (sortNats (((ids new.log).filter fun i => decide (activeIn new.log i)).map fun i => [i])).map (showNats ".")
  let evs := new.log.drop old.log.length
  s!"{showRet r isFree b} K {",".intercalate ks} L {",".intercalate ls} R {",".intercalate rs} A {",".intercalate act} E {showEvents seq evs}"

def step (s : St) : List String → St × String
  | ["mode", "set"] => ({ s with seq := false }, "ok")
  | ["mode", "seq"] => ({ s with seq := true }, "ok")
  | ["mode", "sparse"] => ({ s with sparse := true }, "ok")
  -- a refusing hook of the table: unload? runs-after-the-observers? symbol once? error code
  | ["mode", "refuse", u, a, sym, once, code] =>
    match natTok u, natTok a, natTok sym, natTok once, natTok code with
    | some u, some a, some sym, some once, some code =>
      if u ≤ 1 ∧ a ≤ 1 ∧ once ≤ 1 then
        ({ s with st := { s.st with refusals := s.st.refusals ++
            [{ unload := u == 1, after := a == 1, sym := sym, once := once == 1, code := code }] } }, "ok")
      else (s, "bad-op")
    | _, _, _, _, _ => (s, "bad-op")
  | ["observe"] => (s, showState s.st)
  -- the harness re-uses symbol objects in this case; invisible to the model (symbols are ids)
  | ["mode", "reuse"] => (s, "ok")
  -- the harness builds some one-to-one nodes as a cluster around the node in this case; the table
  -- sees the same ports, invisible to the model
  | ["mode", "cluster"] => (s, "ok")
  -- the harness builds its table from several TableOptions / adds and removes hooks: the model has
  -- one notification per activation, whatever the number of registered hooks
  | "mode" :: "opts" :: _ => (s, "ok")
  | ["hook", _, _] => (s, "ok")
  | "ins" :: ts =>
    match ts.mapM natTok with
    | none => (s, "bad-op")
    | some ns =>
      match parseSym ns with
      | none => (s, "bad-op")
      | some sb =>
        let (st', r, b) := Table.step Ord.id s.st (.insert sb)
        ({ s with st := st' }, (if s.sparse then observeSparse else observe) s.seq s.st st' r false b)
  | ["free", t] =>
    match natTok t with
    | none => (s, "bad-op")
    | some id =>
      let (st', r, b) := Table.step Ord.id s.st (.free id)
      ({ s with st := st' }, (if s.sparse then observeSparse else observe) s.seq s.st st' r true b)
  | ["close"] =>
    let (st', r, b) := Table.step Ord.id s.st .close
    -- Close frees unrelated symbols in map order: its events are always compared as a set; when
    -- a lifecycle flow fails, which one fails first (and what is left) depends on that order, so
    -- only the fact that Close failed is compared (it does not depend on the order)
    match r with
    | .err _ => ({ s with st := st' }, "err")
    | _ => ({ s with st := st' }, (if s.sparse then observeSparse else observe) false s.st st' r false b)
  | _ => (s, "bad-op")

def handler : Handler := { σ := St, init := {}, step := step }

end Uniflow.Driver.C06
